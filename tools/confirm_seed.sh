#!/bin/bash
# tools/confirm_seed.sh <agent output dir> <seed name>
# Confirms in a scratch worktree that a seeded change (1) builds, (2) passes the existing test suite,
# (3) its demonstration passes without and fails with the change. On success copies it to /verif/seeded/<name>/.
set -u
SRC=$1; NAME=$2
. /verif/env.sh
WT=/tmp/seedwt/$NAME
LOG=/tmp/mutout/confirm-$NAME.log
exec >$LOG 2>&1
rm -rf $WT; git -C /repo worktree prune
git -C /repo worktree add -q --detach $WT HEAD || exit 9
cleanup() { git -C /repo worktree remove --force $WT; }
trap cleanup EXIT
cd $WT
run_demo() { # $1 = label ; prints PASS/FAIL
  local ok=1
  if ls $SRC/*_test.go >/dev/null 2>&1; then
    for t in $SRC/*_test.go; do
      pkgdir=$(python3 -c "import json,os;print(os.path.dirname(json.load(open('$SRC/meta.json'))['files_changed'][0]))")
      # a demo test may name its own directory in RUN.txt (cp ... <dir>/)
      d2=$(grep -oE "cp [^ ]*$(basename $t) [^ ]+" $SRC/RUN.txt | head -1 | awk '{print $3}' | sed "s#.*/mut/[A-Z0-9]*/##; s#/\$##; s#/[^/]*_test.go##")
      [ -n "$d2" ] && [ -d "$WT/$d2" ] && pkgdir=$d2
      cp $t $WT/$pkgdir/
      names=$(grep -oE "^func (Test[A-Za-z0-9_]+)" $t | awk '{print $2}' | paste -sd'|')
      if ! env -u ELKPATH go test -vet=off -count=1 -run "^($names)\$" ./$pkgdir/ >/tmp/mutout/demo-$NAME-$1.out 2>&1; then ok=0; fi
      rm -f $WT/$pkgdir/$(basename $t)
    done
  elif [ -f $SRC/demo.elk ]; then
    go build -o /tmp/mutout/elk-$NAME ./cmd/elk || { echo "BUILD FAILED"; return 2; }
    DEMOENV=$(grep -E "demo.elk" $SRC/RUN.txt | grep -oE "ELK_[A-Z_]+=[0-9]+" | sort -u | head -4 | tr '\n' ' ')
    (cd $SRC && env $DEMOENV ELKPATH=$WT timeout 300 /tmp/mutout/elk-$NAME run demo.elk > /tmp/mutout/demo-$NAME-$1.out 2>/tmp/mutout/demo-$NAME-$1.err)
    cmp -s /tmp/mutout/demo-$NAME-$1.out $SRC/expected_output.txt || ok=0
    rm -f /tmp/mutout/elk-$NAME
  elif [ -f $SRC/demo.elk.test ]; then
    # test-runner demos: only the Summary line and the exit status are compared (the listing order is shuffled)
    go build -o /tmp/mutout/elk-$NAME ./cmd/elk || { echo "BUILD FAILED"; return 2; }
    # extra CLI arguments and the compared lines come from the demo command recorded in RUN.txt
    CMDLINE=$(grep -m1 "test --main demo.elk.test" $SRC/RUN.txt)
    TARGS=$(echo "$CMDLINE" | sed -E "s/.*--main demo.elk.test([^|]*)\|.*/\1/")
    TPAT=$(echo "$CMDLINE" | sed -nE "s/.*grep -E '([^']*)'.*/\1/p")
    [ -z "$TPAT" ] && TPAT='^Summary'
    (cd $SRC && eval "ELKPATH=$WT timeout 300 /tmp/mutout/elk-$NAME test --main demo.elk.test $TARGS" > /tmp/mutout/demo-$NAME-$1.raw 2>/tmp/mutout/demo-$NAME-$1.err; echo "exit=$?" >> /tmp/mutout/demo-$NAME-$1.raw)
    grep -E "$TPAT|^exit=" /tmp/mutout/demo-$NAME-$1.raw > /tmp/mutout/demo-$NAME-$1.out
    cmp -s /tmp/mutout/demo-$NAME-$1.out $SRC/expected_output.txt || ok=0
    rm -f /tmp/mutout/elk-$NAME
  else
    echo "no demo found"; return 2
  fi
  [ $ok = 1 ] && echo "$1: demo PASS" || echo "$1: demo FAIL"
  return 0
}
echo "== baseline"; run_demo clean
git apply $SRC/patch.diff 2>/dev/null || git apply --3way $SRC/patch.diff || { echo "PATCH DOES NOT APPLY"; exit 1; }
if git diff | grep -q "^+<<<<<<<"; then echo "PATCH DOES NOT APPLY (conflicts)"; exit 1; fi
git diff > /tmp/mutout/applied-$NAME.diff
echo "== mutated"; go build ./... || { echo "MUTANT BUILD FAILED"; exit 1; }
run_demo mutated
echo "== test suite with the change"
env -u ELKPATH go test -vet=off -count=1 -timeout 25m ./... 2>&1 | grep -v "no test files" | tail -60 > /tmp/mutout/suite-$NAME.out
if grep -q "^FAIL\|^--- FAIL\|panic:" /tmp/mutout/suite-$NAME.out; then echo "SUITE: FAIL"; grep "^FAIL\|^--- FAIL" /tmp/mutout/suite-$NAME.out | head; else echo "SUITE: PASS"; fi
git checkout -q -- .
if grep -q "clean: demo PASS" $LOG && grep -q "mutated: demo FAIL" $LOG && grep -q "SUITE: PASS" $LOG; then
  mkdir -p /verif/seeded/$NAME
  cp /tmp/mutout/applied-$NAME.diff /verif/seeded/$NAME/patch.diff
  for f in $SRC/*_test.go $SRC/demo.elk $SRC/demo.elk.test $SRC/expected_output.txt $SRC/RUN.txt; do [ -f $f ] && cp $f /verif/seeded/$NAME/; done
  python3 - <<PY
import json
m=json.load(open('$SRC/meta.json'))
m['confirmed_by']='tools/confirm_seed.sh in scratch worktree $WT: go build ./... ok; go test ./... (whole suite) passes with the change; demonstration passes on the clean tree and fails with the change'
json.dump(m, open('/verif/seeded/$NAME/meta.json','w'), indent=1)
PY
  echo "CONFIRMED $NAME"
else
  echo "NOT CONFIRMED $NAME"
fi
