#!/bin/bash
# tools/sweep_thorough.sh [seed] — thorough tier of every check, one at a time
cd /verif
seed=${1:-1}
for id in $(jq -r '.checks[].property_id' MANIFEST.json); do
  out=$(timeout 7200 ./check $id --tier thorough --seed $seed 2>&1); rc=$?
  echo "seed=$seed $id exit=$rc $(echo "$out" | grep -E "^C[0-9]+ tier" | head -1)"
  echo "$out" | grep -E "^(VIOLATION|INCONCLUSIVE|BUILD-FAILED|---)" | head -5
done
