#!/usr/bin/env python3
import json, sys, fcntl, os
p='/verif/seeded/RESULTS.json'
name, result, checks = sys.argv[1], sys.argv[2], sys.argv[3:]
with open('/verif/seeded/.lock','w') as lk:
    fcntl.flock(lk, fcntl.LOCK_EX)
    d = json.load(open(p)) if os.path.exists(p) else {}
    d[name] = {"checks": checks, "result": result.strip()}
    json.dump(d, open(p,'w'), indent=1, sort_keys=True)
