#!/bin/bash
# tools/sweep.sh <seed>... — quick tier of every check at each seed, one check at a time; summary to stdout
cd /verif
ids=$(jq -r '.checks[].property_id' MANIFEST.json)
first=1
for seed in "$@"; do
  for id in $ids; do
    if [ $first = 1 ]; then nb=0; else nb=1; fi   # build each variant once (first seed), then reuse
    out=$(VERIF_NOBUILD=${VERIF_NOBUILD_ALL:-0} timeout 3600 ./check $id --tier quick --seed $seed 2>&1); rc=$?
    line=$(echo "$out" | grep -E "^C[0-9]+ tier" | head -1)
    echo "seed=$seed $id exit=$rc $line"
    echo "$out" | grep -E "^(VIOLATION|INCONCLUSIVE|BUILD-FAILED|---)" | head -5
  done
  first=0
done
