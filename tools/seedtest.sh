#!/bin/bash
# tools/seedtest.sh <patch.diff> <check id> [more check ids]  — apply a seeded change to /repo, run the quick checks, undo.
set -u
P=$1; shift
cd /repo || exit 9
if [ -n "$(git status --porcelain)" ]; then echo "/repo not clean"; exit 9; fi
git apply "$P" || { echo "patch does not apply"; exit 9; }
trap 'git -C /repo checkout -- . ; git -C /repo clean -fdq' EXIT
for id in "$@"; do
  echo "=== $id under $(basename $(dirname $P))/$(basename $P)"
  (cd /verif && timeout 1500 ./check $id --tier quick 2>&1 | grep -E "^(VIOLATION|HELD|INCONCLUSIVE|BUILD-FAILED|KNOWN-FINDING|---)" | head -${SEEDTEST_LINES:-8}; echo "exit=${PIPESTATUS[0]}")
done
