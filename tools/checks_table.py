NOT_BUILT = {}
chk("C06", "differential runtime monitor: value.* Int helpers and compiled Elk probes vs math/big reference over boundary-pool pairs (exhaustive) and seeded random operands",
    "Held on every operand pair explored (pool pairwise exhaustively + random 1..256-bit operands) at Go-API level for every helper the VM opcodes call, and on Elk-level probes through constant folder / typed / generic / method-call paths; exploration, not proof.",
    "Trusted: math/big as reference; shift counts |n|<=300 and exponents<=40 only; Elk-level sample smaller than Go-level.")
chk("C07", "differential runtime monitor: value.* operators on Int8..UInt64/UInt and Float/Float64/Float32 vs Go sized-integer / IEEE arithmetic; compiled Elk probes (literal, typed, method-call)",
    "Held on all Int8/UInt8 left operands x right pool (exhaustive in that bound), boundary + random values of wider types, every shift count -130..130 in every AnyInt member type, float pools and random bit patterns bit-for-bit; exploration.",
    "Trusted: Go arithmetic as reference; float ** not compared; integer ** only for non-negative exponents.")
chk("C18", "runtime monitor of algebraic laws: relation matrices of ==, =~, hash, <, <=, >, >=, <=> computed by the real VM over a boundary value pool; offline checker for symmetry, reflexivity, hash law, trichotomy, agreement and transitivity (all triples); exact-rational labelling of the root cause",
    "Held (apart from listed known findings) on all ordered pairs and all triples of a pool of ~770 values of every numeric kind around 2^24/2^53/2^63/2^64/10^22 plus strings, chars, symbols, collections, ranges, pairs, dates; exploration.",
    "Trusted: math/big exact values used only to name the root cause of a law violation; collections nested one level only.")
chk("C26", "recorded concurrent histories (client-boundary call/return stamps from one atomic counter) checked offline: porcupine v1.3.0 per-name register model + exact interval decision procedure, global injectivity; Go race detector on the same runs",
    "Held on every recorded history (2..128 goroutines, fresh and global tables, contended first interning observed); exploration of schedules, not enumeration.",
    "Trusted: porcupine; the Go scheduler's interleavings (GOMAXPROCS=16) plus microsecond sleeps are the only source of schedule diversity.")
chk("C04", "online monitor over generated hostile inputs: token spans checked against a position model recomputed from byte offsets; colouring checked by an NFA that accepts exactly 'input with SGR sequences inserted'",
    "Held (apart from listed known findings in error-token paths) on 300k (quick) / 6M (thorough) inputs covering random bytes, the whole token vocabulary, all lexing-mode openers, CRLF, invalid UTF-8, unterminated literals; exploration.",
    "Trusted: the position convention (column = runes since last LF + 1; EndPos = rune containing the last byte). Only the first position discrepancy per input is judged (later ones are consequences).")
chk("C03", "online crash/hang monitor over generated hostile inputs to the parser, regex front end and type checker (batch and incremental): recover() + child-process supervision with write-ahead journal + per-input CPU budget (SIGQUIT stack of the spinning goroutine names the site)",
    "Held on 100k (quick) / 3M (thorough) inputs: token soup over the full vocabulary, mutated programs, nesting depth to 600/3000, prefixes of valid programs, regex bodies x 64 flag sets, token-mutated valid programs incl. macros/generators/async through the checker; exploration.",
    "Termination restated as a CPU budget (20 s per input, typical < 5 ms). Inputs of a few KB; single-file checking only.")
