NOT_BUILT = {}
chk("C06", "differential runtime monitor: value.* Int helpers and compiled Elk probes vs math/big reference over boundary-pool pairs (exhaustive) and seeded random operands",
    "Held on every operand pair explored (pool pairwise exhaustively + random 1..256-bit operands) at Go-API level for every helper the VM opcodes call, and on Elk-level probes through constant folder / typed / generic / method-call paths; exploration, not proof.",
    "Trusted: math/big as reference; shift counts |n|<=300 and exponents<=40 only; Elk-level sample smaller than Go-level.")
chk("C07", "differential runtime monitor: value.* operators on Int8..UInt64/UInt and Float/Float64/Float32 vs Go sized-integer / IEEE arithmetic; compiled Elk probes (literal, typed, method-call)",
    "Held on all Int8/UInt8 left operands x right pool (exhaustive in that bound), boundary + random values of wider types, every shift count -130..130 in every AnyInt member type, float pools and random bit patterns bit-for-bit; exploration.",
    "Trusted: Go arithmetic as reference; float ** not compared; integer ** only for non-negative exponents.")
