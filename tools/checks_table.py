NOT_BUILT = {}
chk("C06", "differential runtime monitor: value.* Int helpers and compiled Elk probes vs math/big reference over boundary-pool pairs (exhaustive) and seeded random operands",
    "Held on every operand pair explored (pool pairwise exhaustively + random 1..256-bit operands) at Go-API level for every helper the VM opcodes call, and on Elk-level probes through constant folder / typed / generic / method-call paths; exploration, not proof.",
    "Trusted: math/big as reference; shift counts |n|<=300 and exponents<=40 only; Elk-level sample smaller than Go-level.")
