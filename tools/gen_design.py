#!/usr/bin/env python3
"""Regenerates Part II of DESIGN.md (between the AS-BUILT markers) from asbuilt_head.md,
known_findings.json, seeded/RESULTS.json, seeded/*/meta.json and MANIFEST.json."""
import json, os, re, subprocess, glob

V = '/verif'
kf = json.load(open(f'{V}/known_findings.json'))
man = json.load(open(f'{V}/MANIFEST.json'))
out = [open(f'{V}/tools/asbuilt_head.md').read().rstrip(), '']

# ---- per-check table
out.append('## 10.3 Checks as built (from MANIFEST.json)\n')
out.append('Where this table and section 8 disagree, this table is what the code does.\n')
out.append('| property | deciding technique | level and limits |')
out.append('|---|---|---|')
for c in man['checks']:
    t = c['technique'].replace('|', '\\|')
    n = (c['level_claimed']['text'] + ' ' + c.get('level_note', '')).replace('|', '\\|')
    out.append(f"| {c['property_id']} | {t} | {n} |")
out.append('')
na = man.get('not_applicable', [])
if na:
    out.append('Not claimed: ' + '; '.join(f"{x['property_id']} ({x['reason']})" for x in na) + '\n')

# ---- hooks
out.append('## 11. Hooks in elk-language/elk (build tag `verif`)\n')
hooks = man.get('hooks', {})
out.append(f"Guard: `{hooks.get('guard')}`. Commits (message prefix `verif-hook:`):\n")
for h in hooks.get('source_commits', []):
    msg = subprocess.run(['git', '-C', '/repo', 'log', '-1', '--format=%s', h], capture_output=True, text=True).stdout.strip()
    out.append(f'* `{h[:10]}` {msg}')
out.append('\nEach hook is a call to a function that has an empty twin in a `//go:build !verif` file, so with the guard off the '
           'call is inlined away and the repository test suite runs the unhooked code.\n')

# ---- fixed
fixed = [e for e in kf if e['status'] == 'fixed']
known = [e for e in kf if e['status'] == 'known']
out.append(f'## 12. Genuine defects repaired in elk-language/elk ({len(fixed)} `fix:` commits)\n')
out.append('Every entry was first shown as a failing input against the real code by the named check. Each repair is one '
           'unguarded commit that touches no test file; the repository test suite passes with all of them (section 15).\n')
out.append('| id | found by | commit | what failed |')
out.append('|---|---|---|---|')
for e in fixed:
    what = e['what'].replace('|', '\\|').replace('\n', ' ')
    out.append(f"| {e['id']} | {e['property']} | `{e['commit']}` | {what} |")
out.append('')

# ---- known
out.append(f'## 13. Known findings: genuine defects recorded, not repaired ({len(known)})\n')
out.append('Not repaired because the repair is not small and safe (it needs a design decision by the maintainers, touches '
           'several subsystems, or an existing test pins the current behaviour). Each is identified by a signature '
           '(exact, or a regular expression naming the construct) and most carry a witness program that is replayed on '
           'every run. A violation with any other signature is still reported.\n')
out.append('| id | property | what fails | signature | witness |')
out.append('|---|---|---|---|---|')
for e in known:
    what = e['what'].replace('|', '\\|').replace('\n', ' ')
    sig = (e.get('signature') or '')
    if len(sig) > 110:
        sig = sig[:110] + '…'
    sig = sig.replace('|', '\\|')
    w = e.get('witness')
    wit = 'replayed program' if isinstance(w, dict) and w.get('elk') else ('described' if w else '—')
    out.append(f"| {e['id']} | {e['property']} | {what} | `{sig}` | {wit} |")
out.append('')

# ---- seeded
res = {}
if os.path.exists(f'{V}/seeded/RESULTS.json'):
    res = json.load(open(f'{V}/seeded/RESULTS.json'))
out.append('## 14. Seeded changes (made by sub-agents that saw only the property text) and which check catches them\n')
out.append('Each change compiles, passes the repository test suite and breaks the property on a demonstration input; '
           'all of that was confirmed in a scratch worktree (`tools/confirm_seed.sh`) before it was kept under `seeded/`. '
           '`caught` = the quick tier of the check exits 1 with a VIOLATION line (first signatures shown) when the change is '
           'applied to a scratch worktree at `/repo`\'s HEAD and the harness is rebuilt against it (`tools/seedrun.sh`; '
           '`tools/seedtest.sh` does the same on `/repo` itself and undoes it with `git checkout`). Seeded changes were made '
           'against the pinned tree; where a later `fix:` commit rewrote the code they touch, the change was adapted by hand '
           'or is marked as superseded.\n')
out.append('| seeded change | what it breaks | checks run | result |')
out.append('|---|---|---|---|')
for d in sorted(glob.glob(f'{V}/seeded/C*-*')):
    name = os.path.basename(d)
    try:
        meta = json.load(open(f'{d}/meta.json'))
    except Exception:
        meta = {}
    summ = (meta.get('summary') or '').replace('|', '\\|').replace('\n', ' ')
    if len(summ) > 260:
        summ = summ[:260] + '…'
    r = res.get(name, {})
    out.append(f"| {name} | {summ} | {', '.join(r.get('checks', [])) or '—'} | {r.get('result', 'not run yet')} |")
out.append('')
tail = f'{V}/tools/asbuilt_tail.md'
if os.path.exists(tail):
    out.append(open(tail).read().rstrip())
    out.append('')

text = '\n'.join(out)
p = f'{V}/DESIGN.md'
s = open(p).read()
B, E = '<!-- BEGIN AS-BUILT -->', '<!-- END AS-BUILT -->'
if B in s:
    s = s[:s.index(B)] + B + '\n' + text + '\n' + E + s[s.index(E) + len(E):]
else:
    s = s.rstrip() + '\n\n' + B + '\n' + text + '\n' + E + '\n'
open(p, 'w').write(s)
print('DESIGN.md regenerated:', len(fixed), 'fixed,', len(known), 'known,', len(res), 'seeded results')
