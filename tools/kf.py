#!/usr/bin/env python3
"""kf.py add-fixed <property> <id> <commit-grep> <what>  — appends a fixed entry (commit hash looked up by message grep)."""
import json, sys, subprocess
p='/verif/known_findings.json'
try: d=json.load(open(p))
except FileNotFoundError: d=[]
if sys.argv[1]=='add-fixed':
    prop, id, grep, what = sys.argv[2:6]
    h=subprocess.run(['git','-C','/repo','log','--format=%h','--grep='+grep,'-1'],capture_output=True,text=True).stdout.strip()
    assert h, grep
    d=[e for e in d if e['id']!=id]
    d.append({"property":prop,"id":id,"status":"fixed","commit":h,"what":what,"fixed":f"fixed: property={prop} {h} {what}"})
if sys.argv[1]=='add-known':
    prop, id, sig, sigre, what, witness = sys.argv[2:8]
    d=[e for e in d if e['id']!=id]
    d.append({"property":prop,"id":id,"status":"known","what":what,"signature":sig,"sig_re":sigre=='re',"witness":witness})
json.dump(d, open(p,'w'), indent=1)
print(len(d),"entries")
