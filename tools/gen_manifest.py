#!/usr/bin/env python3
"""Generates /verif/MANIFEST.json from the table below (keeps it schema-valid at all times)."""
import json, subprocess, os
os.chdir('/verif')
props = [json.loads(l) for l in open('properties.jsonl')]
ids = [p['id'] for p in props]

# id -> dict(technique, text, note, design)
CHECKS = {}
def chk(id, technique, text, note):
    CHECKS[id] = dict(technique=technique, text=text, note=note)

exec(open('tools/checks_table.py').read())

hook_commits = [l.split()[0] for l in subprocess.run(['git','-C','/repo','log','--format=%h %s','--grep=^verif-hook'],capture_output=True,text=True).stdout.splitlines()]

m = {
 "version": 1,
 "setup_cmd": "./setup.sh",
 "hooks": {
  "guard": "verif",
  "enable": "go build -tags verif[,debug] (see ./check: variants debug/plain/race/asan); hook code lives in files with //go:build verif and no-op twins with //go:build !verif",
  "baseline_off_cmd": "cd /repo && GOFLAGS=-mod=mod GOPROXY=off go test -json -vet=off -count=1 -timeout 25m ./...",
  "source_commits": hook_commits,
  "add_only": True,
 },
 "engines": [
  {"name": "elkverif", "path": "harness/cmd/elkverif", "serves_properties": sorted(CHECKS), "kind_free_text": "Go monitor binary linked against /repo's working tree; sharded child-process workers with write-ahead journal; reference models and offline checkers; built as debug / race / asan / plain variants"},
 ],
 "checks": [],
 "notes": "All checks are runtime monitors over executions of the real code (family: runtime monitoring and sanitizers). Exit codes: 0 held, 1 violation (VIOLATION line), 2 inconclusive (no VIOLATION line), 3 harness build failure.",
 "not_applicable": [],
}
for id in ids:
    if id in CHECKS:
        c = CHECKS[id]
        m["checks"].append({
          "property_id": id,
          "quick_cmd": f"./check {id} --tier quick",
          "thorough_cmd": f"./check {id} --tier thorough",
          "evidence_file": f"/verif/evidence/{id}.json",
          "replay_cmd_template": f"./check {id} --replay {{path}}",
          "engine": "elkverif",
          "level_claimed": {"category": "exploration", "text": c['text'], "design_ref": f"DESIGN.md §8 {id}"},
          "level_note": c['note'],
          "technique": c['technique'],
        })
    else:
        m["not_applicable"].append({"property_id": id, "reason": NOT_BUILT.get(id, "check not built yet in this round; see DESIGN.md §8 for the planned monitor")})
json.dump(m, open('MANIFEST.json','w'), indent=1)
print("checks:", len(m['checks']), "not_applicable:", len(m['not_applicable']))
