#!/bin/bash
# tools/agent_sandbox.sh <ID> — private copy of the harness + scratch worktree of /repo for a check-building agent
set -eu
ID=$1
D=/tmp/agents/$ID
rm -rf $D/verif; mkdir -p $D/OUT
git -C /repo worktree remove --force $D/repo 2>/dev/null || true
git -C /repo worktree add --detach $D/repo HEAD >/dev/null
rsync -a --exclude .git --exclude bin --exclude .build --exclude replays --exclude evidence --exclude 'seeded/*' /verif/ $D/verif/
mkdir -p $D/verif/bin $D/verif/evidence $D/verif/seeded
for s in /verif/seeded/$ID-*; do [ -d "$s" ] && cp -r $s $D/verif/seeded/; done
sed -i "s#=> /repo#=> $D/repo#" $D/verif/harness/go.mod
echo "sandbox $D ready"
