#!/bin/bash
# tools/seedrun.sh <seed-name> <check id>... — run quick checks against a seeded change in a private
# sandbox (scratch worktree + copy of the harness), record the outcome in seeded/RESULTS.json, clean up.
# Equivalent to seedtest.sh (which applies the patch to /repo itself) but can run in parallel.
set -u
NAME=$1; shift
D=/tmp/seedrun/$NAME
PATCH=/verif/seeded/$NAME/patch.diff
rm -rf $D; mkdir -p $D
git -C /repo worktree remove --force $D/repo 2>/dev/null
git -C /repo worktree add --detach $D/repo HEAD >/dev/null 2>&1 || { echo "worktree failed"; exit 9; }
cleanup() { git -C /repo worktree remove --force $D/repo 2>/dev/null; rm -rf $D; }
trap cleanup EXIT
if ! git -C $D/repo apply $PATCH 2>/dev/null && ! git -C $D/repo apply --3way $PATCH 2>/dev/null; then
  echo "$NAME: PATCH DOES NOT APPLY"
  python3 /verif/tools/seedresult.py "$NAME" "patch does not apply to the current tree (made against an older commit; superseded by fix commits)" "$@"
  exit 8
fi
rsync -a --exclude .git --exclude bin --exclude .build --exclude replays --exclude evidence --exclude seeded /verif/ $D/verif/
mkdir -p $D/verif/bin $D/verif/evidence
sed -i "s#=> /repo#=> $D/repo#" $D/verif/harness/go.mod
export VERIF_DIR=$D/verif VERIF_ELKPATH=$D/repo VERIF_SHARDS=${VERIF_SHARDS:-6}
RES=""
for id in "$@"; do
  out=$(cd $D/verif && timeout 3000 ./check $id --tier quick 2>&1)
  rc=$?
  sigs=$(echo "$out" | grep "^--- " | head -3 | sed 's/^--- //' | tr '\n' ';' | cut -c1-300)
  case $rc in
    1) RES="$RES$id: caught ($sigs) " ;;
    0) RES="$RES$id: MISSED " ;;
    2) RES="$RES$id: inconclusive " ;;
    3) RES="$RES$id: build failed " ;;
    *) RES="$RES$id: exit $rc " ;;
  esac
  echo "$NAME $id exit=$rc $sigs"
done
python3 /verif/tools/seedresult.py "$NAME" "$RES" "$@"
