package main

// C29 (run-time half): the VM calls vm.VerifInstructionHook (build tag verif) before every
// instruction; the monitor checks that the executed offset is an instruction boundary of the
// running function and that the operand-stack depth relative to the frame is non-negative and
// the same every time the same instruction is reached (consistent where paths join).

import (
	"fmt"
	"io"
	"math/rand/v2"
	"strings"
	"sync"

	"github.com/elk-language/elk/vm"
)

type fnTrace struct {
	boundary []bool
	depth    map[int]int
}

type traceViolation struct{ site, msg string }

type traceMon struct {
	mu       sync.Mutex
	fns      map[*vm.BytecodeFunction]*fnTrace
	viol     []traceViolation
	seen     map[string]bool
	events   int64
	points   int64
	rechecks int64
}

var c29mon = &traceMon{}

func (m *traceMon) reset() {
	m.mu.Lock()
	m.fns = map[*vm.BytecodeFunction]*fnTrace{}
	m.viol = nil
	m.seen = map[string]bool{}
	m.mu.Unlock()
}

func (m *traceMon) report(site, msg string) {
	if m.seen[site] || len(m.viol) > 8 {
		return
	}
	m.seen[site] = true
	m.viol = append(m.viol, traceViolation{site, msg})
}

func fnBoundaries(f *vm.BytecodeFunction) []bool {
	n := len(f.Instructions)
	b := make([]bool, n+1)
	for off := 0; off < n; {
		b[off] = true
		var next int
		var err error
		if p := guard(func() { next, err = f.DisassembleInstruction(io.Discard, off) }); p != "" || err != nil || next <= off {
			// structure half reports this; mark the rest as boundaries to avoid secondary reports
			for i := off; i <= n; i++ {
				b[i] = true
			}
			break
		}
		off = next
	}
	return b
}

func (m *traceMon) hook(f *vm.BytecodeFunction, ip, depth int) {
	m.mu.Lock()
	defer m.mu.Unlock()
	if m.fns == nil {
		return
	}
	m.events++
	ft := m.fns[f]
	if ft == nil {
		ft = &fnTrace{boundary: fnBoundaries(f), depth: map[int]int{}}
		m.fns[f] = ft
	}
	name := func() string { return f.Name().String() }
	if ip < 0 || ip >= len(f.Instructions) {
		m.report("executed-offset-outside-function", fmt.Sprintf("function %s (%d bytes) executes offset %d", name(), len(f.Instructions), ip))
		return
	}
	op := opName(f.Instructions[ip])
	if !ft.boundary[ip] {
		m.report("executed-offset-not-a-boundary", fmt.Sprintf("function %s executes offset %d (byte %s), which is inside another instruction", name(), ip, op))
		return
	}
	if depth < 0 {
		m.report("negative-stack-depth:"+op, fmt.Sprintf("function %s reaches %s at %d with stack depth %d below the frame", name(), op, ip, depth))
		return
	}
	if d, ok := ft.depth[ip]; ok {
		m.rechecks++
		if d != depth {
			dis, _ := f.DisassembleString()
			m.report("inconsistent-stack-depth:"+op, fmt.Sprintf("function %s reaches %s at offset %d with operand stack depth %d; an earlier path reached it with depth %d\n%s", name(), op, ip, depth, d, head(dis, 3000)))
		}
		return
	}
	ft.depth[ip] = depth
	m.points++
}

func (m *traceMon) drain() (v []traceViolation, events, points, rechecks int64) {
	m.mu.Lock()
	defer m.mu.Unlock()
	v, events, points, rechecks = m.viol, m.events, m.points, m.rechecks
	m.viol, m.events, m.points, m.rechecks = nil, 0, 0, 0
	m.fns = map[*vm.BytecodeFunction]*fnTrace{}
	m.seen = map[string]bool{}
	return
}

// ---- templates for constructs G-prog does not generate -------------------------------------

var c29ValueExprs = []string{"i * 100", "acc.to_string", "i", "\"s\"", "([i, acc])", "mkv(i)", "-i", "(i > 2)", "3.5", "(acc += 1)", "(if i > 1 then 3 else 4)", "1.5", "(i * 2)"}

func genValueLoop(r *rand.Rand) string {
	var sb strings.Builder
	sb.WriteString("def mkv(a: Int): Int then a + 1\n")
	n := 1 + r.IntN(3)
	for k := 0; k < n; k++ {
		ve := c29ValueExprs[r.IntN(len(c29ValueExprs))]
		be := c29ValueExprs[r.IntN(len(c29ValueExprs))]
		lim := 2 + r.IntN(4)
		var head, tail string
		switch r.IntN(6) {
		case 0:
			head, tail = "loop", "end"
		case 1:
			head, tail = "while true", "end"
		case 2:
			head, tail = "while i < 50", "end"
		case 3:
			head, tail = "for j in [1, 2, 3, 4, 5, 6, 7, 8]", "end"
		case 4:
			head, tail = "for j in 1...9", "end"
		default:
			head, tail = "until i > 50", "end"
		}
		wrap := []string{"r%d := %s", "println((%[2]s).inspect)\nr%[1]d := 0", "r%d := [1, %s]", "r%d := mkv(2).to_string + (%s).inspect"}[r.IntN(4)]
		body := fmt.Sprintf("%s\n    i += 1\n    break %s if i > %d\n    acc += i\n    continue %s%s\n  %s", head, be, lim, ve, []string{"", " if i % 2 == 0", " unless i % 2 == 0"}[r.IntN(3)], tail)
		if r.IntN(2) == 0 {
			fmt.Fprintf(&sb, "f%d := ||: Int ->\n  i := 0\n  acc := 0\n  %s\n  println r%d.inspect\n  acc\nend\nprintln f%d().inspect\nprintln f%d().inspect\n", k, fmt.Sprintf(wrap, k, body), k, k, k)
		} else {
			fmt.Fprintf(&sb, "do\n  i := 0\n  acc := 0\n  %s\n  println r%d.inspect\nend\n", fmt.Sprintf(wrap, k, body), k)
		}
	}
	return sb.String()
}

func genBigPool(r *rand.Rand) string {
	var sb strings.Builder
	mk := func(name, other string, pool int, kind int) {
		fmt.Fprintf(&sb, "  def %s(n: Int): Int\n    s := \"\"\n    f := 0.0\n", name)
		for i := 0; i < pool; i++ {
			switch (i + kind) % 3 {
			case 0:
				fmt.Fprintf(&sb, "    s = \"%s%d\"\n", name, i)
			case 1:
				fmt.Fprintf(&sb, "    f = %d.25\n", i+3)
			default:
				fmt.Fprintf(&sb, "    s = :%s_%d.to_string\n", name, i)
			}
		}
		fmt.Fprintf(&sb, "    return s.length if n <= 0\n    %s(n - 1) + 1\n  end\n", other)
	}
	container := []string{"module Foo\n", "class Foo\n", "sealed class Foo\n"}[r.IntN(3)]
	sb.WriteString(container)
	mk("ping", "pong", 100+r.IntN(250), r.IntN(3))
	mk("pong", "ping", 100+r.IntN(250), r.IntN(3))
	sb.WriteString("end\n")
	if strings.HasPrefix(container, "module") {
		sb.WriteString("println Foo.ping(5).inspect\nprintln Foo.pong(4).inspect\n")
	} else {
		sb.WriteString("println Foo().ping(5).inspect\nprintln Foo().pong(4).inspect\n")
	}
	return sb.String()
}
