package main

// C32 — Uncaught errors report the active call chain with correct lines.
//
// A seeded generator renders a program whose only uncaught error is raised at the end of a random
// call chain (depth 1..12) through different frame kinds. The generator knows, for every frame of
// the chain, its printed name and the line of its call site (or of the throw). The program is run
// on the real pipeline (RunElk) and the printed report (vm.PrintError of the thread's error stack
// trace — the text `elk run` writes to stderr) is parsed and compared frame by frame.
//
// What the property is taken to require (restatements, see Assumptions):
//   * one entry per Elk frame active at the throw, outermost first; native (Go) methods such as
//     ArrayList#map have no frame of their own in the bytecode VM and may be absent, the closures
//     they call back are Elk frames and must be present;
//   * the line of an entry is the line on which the call expression (or throw/await/for) that is
//     active in that frame STARTS (compiler: location.StartPos.Line);
//   * a frame whose call is in tail position (last expression of the body / `return f(x)`, outside
//     do/catch/finally and without defer) may be replaced by its callee (tail call optimisation);
//     the report must then account for it with " ... N optimised tail call(s)" in front of the
//     frame that replaced it. Any other frame may never be absent;
//   * catching an error and throwing it again (`throw e` in a catch body) is a new throw: the
//     chain ends at the rethrowing frame with the line of that `throw`; a `do` whose catch does
//     not match and `finally`/`defer` do not alter the trace;
//   * frames of an awaited async body / a resumed generator follow the frame that awaits / resumes.

import (
	"fmt"
	"math/rand/v2"
	"os"
	"regexp"
	"strconv"
	"strings"
	"time"
)

// ---------------------------------------------------------------------------------------------
// spec

type c32Frame struct {
	Kind  string // top def imethod modmethod singmethod operator helper closurearg closure nativecb generator async
	Sub   string // variant of the way the frame is entered (see c32Subs)
	Inner string // form of the call to the next frame (or of the throw for the last frame)
	Wrap  string // statement structure around the call
	Form  string // layout of the call expression: "", "ml" (arguments on their own lines), "cont" (method on a continuation line)
	Pre   []int  // padding statement kinds before the call site
	Post  []int  // padding after
	Defer bool
	Bulk  int // >0: that many extra call statements before the site (wide value-pool operands)
}

type c32Spec struct {
	Frames    []c32Frame
	Throw     string // error kind: error myerr div index
	DefsAfter bool   // definitions placed after the top-level code
}

var c32Subs = map[string][]string{
	"closure":   {"call", "dotparen", "paren"},
	"nativecb":  {"map", "fold", "times", "filter", "count"},
	"generator": {"for", "next"},
	"async":     {"await", "await_sync", "prerejected"},
	"helper":    {"local", "inline"},
}

var c32Kinds = []string{"def", "def", "imethod", "modmethod", "singmethod", "operator", "helper", "closure", "closure", "async", "async"}

// kinds with a listed finding (frames behind a native callback / inside a generator are not reported):
// kept in the mix so the finding stays observed, but rare, because nothing behind them can be compared
var c32RareKinds = []string{"nativecb", "generator"}

const c32NPad = 15

func c32ResultType(f *c32Frame) string {
	if f.Kind == "nativecb" {
		switch f.Sub {
		case "times":
			return "void"
		case "filter", "count":
			return "bool"
		}
	}
	if f.Kind == "top" {
		return "top"
	}
	return "int"
}

func c32GenSpec(r *rand.Rand) *c32Spec {
	s := &c32Spec{}
	depth := 1 + r.IntN(12)
	if r.IntN(4) == 0 {
		depth = 1 + r.IntN(4)
	}
	pads := func(max int) []int {
		n := r.IntN(max + 1)
		p := make([]int, n)
		for i := range p {
			p[i] = r.IntN(c32NPad)
		}
		return p
	}
	prev := "top"
	s.Frames = append(s.Frames, c32Frame{Kind: "top"})
	for len(s.Frames) < depth+1 {
		k := c32Kinds[r.IntN(len(c32Kinds))]
		if r.IntN(50) == 0 {
			k = c32RareKinds[r.IntN(len(c32RareKinds))]
		}
		if prev == "helper" {
			k = "closurearg"
		}
		f := c32Frame{Kind: k}
		if subs := c32Subs[k]; subs != nil {
			f.Sub = subs[r.IntN(len(subs))]
		}
		s.Frames = append(s.Frames, f)
		prev = k
	}
	if prev == "helper" {
		s.Frames = append(s.Frames, c32Frame{Kind: "closurearg"})
	}
	last := len(s.Frames) - 1
	for i := range s.Frames {
		f := &s.Frames[i]
		f.Pre, f.Post = pads(4), pads(3)
		rt := c32ResultType(f)
		switch f.Kind {
		case "def", "imethod", "modmethod", "singmethod", "async", "helper":
			f.Defer = r.IntN(7) == 0
		}
		if i == last {
			f.Inner = []string{"if", "if", "last", "mllast", "ifml", "div", "index"}[r.IntN(7)]
			if (f.Inner == "last" || f.Inner == "mllast") && rt != "int" {
				f.Inner = "if"
			}
			f.Wrap = c32PickWrap(r, true)
			if f.Inner == "last" || f.Inner == "mllast" {
				f.Wrap = "none"
			}
			continue
		}
		next := &s.Frames[i+1]
		f.Form = []string{"", "", "ml", "cont"}[r.IntN(4)]
		inners := []string{"plus", "plus", "multisum", "argnest", "stmt", "assign"}
		if rt == "int" && f.Kind != "generator" {
			inners = append(inners, "tail", "return", "tailif", "return")
		}
		if f.Kind == "generator" {
			inners = append(inners, "yield", "yield")
		}
		f.Inner = inners[r.IntN(len(inners))]
		f.Wrap = c32PickWrap(r, false)
		if c32StmtOnly(next) {
			f.Inner = "stmt"
		}
		if f.Inner == "tail" || f.Inner == "tailif" {
			f.Wrap = "none"
		}
		if f.Inner == "yield" && f.Wrap == "rethrow" {
			f.Wrap = "none"
		}
	}
	if r.IntN(16) == 0 {
		// one frame with enough call sites before the chain call that its operands become 16 bit wide
		s.Frames[r.IntN(len(s.Frames))].Bulk = 255 + r.IntN(40)
	}
	c32AvoidDeferClosure(s)
	c32AvoidReturnAfterClosure(s)
	s.Throw = []string{"error", "error", "myerr", "error"}[r.IntN(4)]
	switch s.Frames[last].Inner {
	case "div":
		s.Throw = "div"
	case "index":
		s.Throw = "index"
	}
	s.DefsAfter = r.IntN(4) == 0
	return s
}

// avoid rule (known finding K51 of C14): a function that uses defer and also creates a closure
// mis-addresses its locals; such frames would crash for reasons unrelated to stack traces.
func c32AvoidDeferClosure(s *c32Spec) {
	for i := range s.Frames {
		f := &s.Frames[i]
		if !f.Defer {
			continue
		}
		mk := false
		for _, ps := range [][]int{f.Pre, f.Post} {
			for _, pk := range ps {
				if pk == 8 || pk == 10 || pk == 13 {
					mk = true
				}
			}
		}
		if i+1 < len(s.Frames) {
			switch s.Frames[i+1].Kind {
			case "closure", "nativecb", "helper":
				mk = true
			}
		}
		if mk {
			f.Defer = false
		}
	}
}

// avoid rule (side finding, checker): after a closure literal with a declared return type, `return x`
// in the enclosing method is checked against `void` ("type `Std::Int` cannot be assigned to type `void`").
func c32AvoidReturnAfterClosure(s *c32Spec) {
	for i := range s.Frames {
		f := &s.Frames[i]
		if f.Inner != "return" {
			continue
		}
		mk := false
		// avoid rule (side finding, VM): `return f(x)` inside do…catch / do…finally of an ASYNC method loses
		// the error of f(x) (promise resolves with garbage / "ip overflow" crash); not a stack-trace matter
		// and an async body that ends in `return f(x)` is compiled without that statement ("ip overflow")
		if f.Kind == "async" && !(f.Wrap == "if" || f.Wrap == "for" || f.Wrap == "while") {
			mk = true
		}
		for _, pk := range f.Pre {
			if pk == 8 || pk == 10 || pk == 13 {
				mk = true
			}
		}
		if i+1 < len(s.Frames) {
			switch s.Frames[i+1].Kind {
			case "closure", "nativecb", "helper":
				mk = true
			}
		}
		if mk {
			f.Inner = "plus"
		}
	}
}

func c32PickWrap(r *rand.Rand, last bool) string {
	w := []string{"none", "none", "none", "if", "for", "while", "docatch", "dofinally", "rethrow"}
	return w[r.IntN(len(w))]
}

// callee kinds whose invocation is a statement rather than an Int expression
func c32StmtOnly(f *c32Frame) bool {
	return (f.Kind == "nativecb" && f.Sub == "times") || (f.Kind == "generator" && f.Sub == "for")
}

// ---------------------------------------------------------------------------------------------
// rendering

type c32Line struct {
	text string
	mark int // index of the frame whose active line this is, -1 otherwise
}

type c32Exp struct {
	Name     string
	Line     int
	Elig     bool   // the frame's call is in tail position: the frame may be replaced by its callee
	Desc     string // kind[:sub] of the frame
	SiteDesc string // how the frame calls the next one / throws
}

type c32Prog struct {
	spec   *c32Spec
	defs   [][]c32Line
	nvar   int
	errCls string
	errMsg string

	inlineBody []c32Line // body of a closure literal written inside the call expression being built
}

func c32Ind(lines []c32Line, n int) []c32Line {
	pad := strings.Repeat("  ", n)
	out := make([]c32Line, len(lines))
	for i, l := range lines {
		if l.text == "" {
			out[i] = l
		} else {
			out[i] = c32Line{pad + l.text, l.mark}
		}
	}
	return out
}

func c32L(texts ...string) []c32Line {
	out := make([]c32Line, len(texts))
	for i, t := range texts {
		out[i] = c32Line{t, -1}
	}
	return out
}

func (p *c32Prog) frameName(k int) string {
	f := &p.spec.Frames[k]
	switch f.Kind {
	case "top":
		return "main.elk"
	case "def":
		return fmt.Sprintf("Std::Kernel::f%d", k)
	case "helper":
		return fmt.Sprintf("Std::Kernel::h%d", k)
	case "generator":
		return fmt.Sprintf("Std::Kernel::g%d", k)
	case "async":
		return fmt.Sprintf("Std::Kernel::a%d", k)
	case "imethod":
		return fmt.Sprintf("C%d.:m%d", k, k)
	case "modmethod":
		return fmt.Sprintf("M%d::m%d", k, k)
	case "singmethod":
		return fmt.Sprintf("S%d::s%d", k, k)
	case "operator":
		return fmt.Sprintf("O%d.:+", k)
	}
	return "<closure>"
}

// padding statement of kind pk inside frame k
func (p *c32Prog) pad(k, pk int) []c32Line {
	p.nvar++
	v := fmt.Sprintf("v%d_%d", k, p.nvar)
	n := fmt.Sprintf("n%d", k)
	switch pk {
	case 0:
		return c32L("")
	case 1:
		return c32L("# padding " + v)
	case 2:
		return c32L(v + " := " + n + " + 3")
	case 3:
		return c32L(v+" := 1 +", "  "+n+" +", "  3")
	case 4:
		return c32L(v + " := c32ok(" + n + ")")
	case 5:
		return c32L(v+" := c32deep(", "  "+n, ")")
	case 6:
		return c32L("do", "  c32bad("+n+")", "catch Error() as e"+v, "  c32ok(1)", "end")
	case 7:
		return c32L("for i"+v+" in 1...2", "  c32ok(i"+v+")", "end")
	case 8:
		return c32L(v + " := [1, 2].map(|q: Int|: Int -> c32ok(q)).length")
	case 9:
		return c32L(v+" := [", "  1,", "  "+n+",", "].length")
	case 10:
		return c32L("c"+v+" := |q: Int|: Int -> q + 2", "c"+v+".call(1)")
	case 11:
		return c32L(v + " := await_sync c32async(" + n + ")")
	case 12:
		return c32L("for g"+v+" in c32gen(2)", "  c32ok(g"+v+")", "end")
	case 13:
		return c32L("do", "  [1].map(|q: Int|: Int -> c32bad(q))", "catch Error() as e"+v, "  c32ok(2)", "end")
	case 14:
		return c32L("do", "  await_sync c32asyncbad("+n+")", "catch Error() as e"+v, "  c32ok(3)", "end", "", "# after "+v)
	}
	return nil
}

const c32Prelude = `def c32ok(n: Int): Int then n + 1

class C32Deep
  def run(n: Int): Int
    a := c32ok(n)
    a + c32ok(a)
  end
end

def c32deep(n: Int): Int
  x := C32Deep().run(n)
  x
end

class MyErr < Error; end

def c32bad(n: Int): Int
  # decoy thrower
  throw unchecked Error("decoy")
end

async def c32async(n: Int): Int
  c32ok(n)
end

async def c32asyncbad(n: Int): Int
  c32bad(n)
end

async def c32wait(p: Promise[Int]): Int
  do
    await p
  catch Error() as e
    0
  end
end

def *c32gen(n: Int): Int
  yield c32ok(n)
  n
end
`

// the call expression by which frame k-1 (variable nP) enters frame k; pre are statements placed
// before the statement containing the expression; stmtOnly expressions are complete statements.
func (p *c32Prog) invoke(k int) (pre []c32Line, expr []string) {
	f := &p.spec.Frames[k]
	caller := &p.spec.Frames[k-1]
	form := caller.Form
	nP := fmt.Sprintf("n%d", k-1)
	nK := fmt.Sprintf("n%d", k)
	args := func(head, arg string) []string {
		if form == "ml" {
			return []string{head + "(", "  " + arg, ")"}
		}
		return []string{head + "(" + arg + ")"}
	}
	recv := func(rcv, meth, arg string) []string {
		switch form {
		case "ml":
			return []string{rcv + "." + meth + "(", "  " + arg, ")"}
		case "cont":
			return []string{rcv, "  ." + meth + "(" + arg + ")"}
		}
		return []string{rcv + "." + meth + "(" + arg + ")"}
	}
	// closure literal with the body of frame k
	closureLit := func(params, ret string, bodyFrame int) (first string, body []c32Line, last string) {
		hdr := "|" + params + "|"
		if ret != "" {
			hdr += ": " + ret
		}
		return hdr + " ->", c32Ind(p.body(bodyFrame), 1), "end"
	}
	switch f.Kind {
	case "def":
		p.addDef(k, fmt.Sprintf("def f%d(%s: Int): Int", k, nK), 0)
		return nil, args(fmt.Sprintf("f%d", k), nP)
	case "imethod":
		p.addDefIn(k, fmt.Sprintf("class C%d", k), "", fmt.Sprintf("def m%d(%s: Int): Int", k, nK))
		return nil, recv(fmt.Sprintf("C%d()", k), fmt.Sprintf("m%d", k), nP)
	case "modmethod":
		p.addDefIn(k, fmt.Sprintf("module M%d", k), "", fmt.Sprintf("def m%d(%s: Int): Int", k, nK))
		return nil, recv(fmt.Sprintf("M%d", k), fmt.Sprintf("m%d", k), nP)
	case "singmethod":
		p.addDefIn(k, fmt.Sprintf("class S%d", k), "singleton", fmt.Sprintf("def s%d(%s: Int): Int", k, nK))
		return nil, recv(fmt.Sprintf("S%d", k), fmt.Sprintf("s%d", k), nP)
	case "operator":
		p.addDefIn(k, fmt.Sprintf("class O%d", k), "", fmt.Sprintf("def +(%s: Int): Int", nK))
		if form == "ml" || form == "cont" {
			return nil, []string{fmt.Sprintf("(O%d() +", k), "  " + nP + ")"}
		}
		return nil, []string{fmt.Sprintf("(O%d() + %s)", k, nP)}
	case "async":
		p.addDef(k, fmt.Sprintf("async def a%d(%s: Int): Int", k, nK), 0)
		call := args(fmt.Sprintf("a%d", k), nP)
		switch f.Sub {
		case "await":
			call[0] = "(await " + call[0]
		case "await_sync":
			call[0] = "(await_sync " + call[0]
		case "prerejected":
			pre = c32L(fmt.Sprintf("p%d := a%d(%s)", k, k, nP), fmt.Sprintf("w%d := c32wait(p%d)", k, k), fmt.Sprintf("await w%d", k))
			return pre, []string{fmt.Sprintf("(await p%d)", k)}
		}
		call[len(call)-1] += ")"
		return nil, call
	case "generator":
		p.addDef(k, fmt.Sprintf("def *g%d(%s: Int): Int", k, nK), 0)
		if f.Sub == "next" {
			pre = c32L(fmt.Sprintf("gen%d := g%d(%s)", k, k, nP))
			return pre, []string{fmt.Sprintf("(try gen%d.next)", k)}
		}
		// stmtOnly: for loop accumulating into r{k-1}
		return nil, []string{fmt.Sprintf("for y%d in g%d(%s)", k, k, nP), fmt.Sprintf("  r%d = r%d + y%d", k-1, k-1, k), "end"}
	case "closure":
		first, body, last := closureLit(nK+": Int", "Int", k)
		pre = append(pre, c32Line{fmt.Sprintf("c%d := %s", k, first), -1})
		pre = append(pre, body...)
		pre = append(pre, c32Line{last, -1})
		switch f.Sub {
		case "call":
			return pre, recv(fmt.Sprintf("c%d", k), "call", nP)
		case "dotparen":
			return pre, args(fmt.Sprintf("c%d.", k), nP)
		}
		return pre, args(fmt.Sprintf("c%d", k), nP)
	case "helper":
		// frame k is the helper, frame k+1 the closure passed to it
		p.addDef(k, fmt.Sprintf("def h%d(fn%d: |x: Int|: Int, %s: Int): Int", k, k, nK), 0)
		first, body, last := closureLit(fmt.Sprintf("n%d: Int", k+1), "Int", k+1)
		if f.Sub == "local" {
			pre = append(pre, c32Line{fmt.Sprintf("c%d := %s", k, first), -1})
			pre = append(pre, body...)
			pre = append(pre, c32Line{last, -1})
			return pre, args(fmt.Sprintf("h%d", k), fmt.Sprintf("c%d, %s", k, nP))
		}
		// inline closure literal as an argument: a multi-line call expression
		p.inlineBody = body
		return nil, []string{fmt.Sprintf("h%d(%s", k, first), "\x00body", fmt.Sprintf("%s, %s)", last, nP)}
	case "nativecb":
		var head, tail, params, ret string
		switch f.Sub {
		case "map":
			head, params, ret, tail = "["+nP+"].map(", nK+": Int", "Int", ").length"
		case "fold":
			head, params, ret, tail = "["+nP+"].fold(0, ", fmt.Sprintf("acc%d: Int, %s: Int", k, nK), "Int", ")"
		case "filter":
			head, params, ret, tail = "["+nP+"].filter(", nK+": Int", "bool", ").length"
		case "count":
			head, params, ret, tail = "["+nP+"].count(", nK+": Int", "bool", ")"
		case "times":
			head, params, ret, tail = "1.times(", fmt.Sprintf("i%d: Int", k), "", ")"
		}
		first, body, last := closureLit(params, ret, k)
		if f.Sub == "times" {
			body = append(c32Ind(c32L(fmt.Sprintf("%s := %s + i%d", nK, nP, k)), 1), body...)
		}
		p.inlineBody = body
		return nil, []string{head + first, "\x00body", last + tail}
	}
	panic("c32: invoke of kind " + f.Kind)
}

func (p *c32Prog) addDef(k int, header string, _ int) {
	var d []c32Line
	d = append(d, c32Line{header, -1})
	d = append(d, c32Ind(p.body(k), 1)...)
	d = append(d, c32Line{"end", -1})
	p.defs = append(p.defs, d)
}

func (p *c32Prog) addDefIn(k int, outer, mid, header string) {
	var d []c32Line
	d = append(d, c32Line{outer, -1})
	ind := 1
	if mid != "" {
		d = append(d, c32Line{"  " + mid, -1})
		ind = 2
	}
	pad := strings.Repeat("  ", ind)
	d = append(d, c32Line{pad + header, -1})
	d = append(d, c32Ind(p.body(k), ind+1)...)
	d = append(d, c32Line{pad + "end", -1})
	if mid != "" {
		d = append(d, c32Line{"  end", -1})
	}
	d = append(d, c32Line{"end", -1})
	p.defs = append(p.defs, d)
}

// body of frame k (unindented)
func (p *c32Prog) body(k int) []c32Line {
	f := &p.spec.Frames[k]
	last := k == len(p.spec.Frames)-1
	nK := fmt.Sprintf("n%d", k)
	rK := fmt.Sprintf("r%d", k)
	var out []c32Line
	if f.Kind == "top" {
		out = append(out, c32L(nK+" := 5")...)
	}
	if f.Defer {
		out = append(out, c32L("defer c32ok(1)")...)
	}
	for _, pk := range f.Pre {
		out = append(out, p.pad(k, pk)...)
	}
	if f.Bulk > 0 {
		out = append(out, c32L(fmt.Sprintf("b%d := 0", k))...)
		for j := 0; j < f.Bulk; j++ {
			out = append(out, c32L(fmt.Sprintf("b%d = b%d + c32ok(%d)", k, k, j))...)
		}
	}
	tailForm := false
	var site []c32Line
	if last {
		site = p.throwSite(k)
		tailForm = f.Inner == "last" || f.Inner == "mllast"
	} else {
		var pre []c32Line
		var expr []string
		if f.Kind == "helper" {
			// the helper calls the closure it was given
			fn := fmt.Sprintf("fn%d", k)
			switch p.spec.Frames[k+1].Sub {
			default:
				expr = []string{fn + ".call(" + nK + ")"}
				if f.Form == "ml" {
					expr = []string{fn + ".call(", "  " + nK, ")"}
				}
			}
		} else {
			pre, expr = p.invoke(k + 1)
		}
		inline := p.inlineBody
		p.inlineBody = nil
		site = append(site, pre...)
		// expression lines -> c32Line with the mark on the first line, inline closure body expanded
		mk := func(prefix, suffix string) []c32Line {
			var ls []c32Line
			for i, e := range expr {
				if e == "\x00body" {
					ls = append(ls, inline...)
					continue
				}
				t := e
				if i > 0 && prefix != "" {
					t = "  " + t // continuation lines of an embedded expression
				}
				ls = append(ls, c32Line{t, -1})
			}
			ls[0].text = prefix + ls[0].text
			ls[0].mark = k
			ls[len(ls)-1].text += suffix
			return ls
		}
		stmtOnly := c32StmtOnly(&p.spec.Frames[k+1])
		var core []c32Line
		inner := f.Inner
		if stmtOnly {
			inner = "stmt"
		}
		switch inner {
		case "plus":
			core = mk(rK+" = ", " + 1")
		case "assign":
			core = mk(rK+" = ", "")
		case "multisum":
			core = append(c32L(rK+" = 1 +", "  2 +"), c32Ind(mk("", " +"), 1)...)
			core = append(core, c32L("  4")...)
		case "argnest":
			core = append(c32L(rK+" = c32ok("), c32Ind(mk("", ""), 1)...)
			core = append(core, c32L(")")...)
		case "stmt":
			core = mk("", "")
		case "yield":
			core = mk("yield ", "")
		case "tail":
			core = mk("", "")
			tailForm = true
		case "return":
			core = mk("return ", "")
			tailForm = f.Wrap == "none" || f.Wrap == "rethrow" || f.Wrap == "dofinally"
		case "tailif":
			core = append(c32L("if "+nK+" > 0"), c32Ind(mk("", ""), 1)...)
			core = append(core, c32L("else", "  0", "end")...)
			tailForm = true
		}
		site = append(site, p.wrap(k, core)...)
	}
	if !tailForm {
		out = append(out, c32L(rK+" := 0")...)
	}
	out = append(out, site...)
	if tailForm {
		return out
	}
	for _, pk := range f.Post {
		out = append(out, p.pad(k, pk)...)
	}
	switch c32ResultType(f) {
	case "int":
		out = append(out, c32L(rK+" + 1")...)
	case "bool":
		out = append(out, c32L(rK+" > -1000")...)
	case "void":
		out = append(out, c32L("c32ok("+rK+")")...)
	case "top":
		out = append(out, c32L("println "+rK+".inspect")...)
	}
	return out
}

func (p *c32Prog) wrap(k int, core []c32Line) []c32Line {
	f := &p.spec.Frames[k]
	nK := fmt.Sprintf("n%d", k)
	var out []c32Line
	switch f.Wrap {
	case "if":
		out = append(c32L("if "+nK+" > 0"), c32Ind(core, 1)...)
		out = append(out, c32L("end")...)
	case "for":
		out = append(c32L(fmt.Sprintf("for i%d in 1...3", k), fmt.Sprintf("  if i%d == 2", k)), c32Ind(core, 2)...)
		out = append(out, c32L("  end", "end")...)
	case "while":
		out = append(c32L(fmt.Sprintf("j%d := 0", k), fmt.Sprintf("while j%d < 3", k), fmt.Sprintf("  j%d += 1", k), fmt.Sprintf("  if j%d == 2", k)), c32Ind(core, 2)...)
		out = append(out, c32L("  end", "end")...)
	case "docatch":
		out = append(c32L("do"), c32Ind(core, 1)...)
		out = append(out, c32L(fmt.Sprintf("catch String() as s%d", k), "  c32ok(1)", "end")...)
	case "dofinally":
		out = append(c32L("do"), c32Ind(core, 1)...)
		out = append(out, c32L("finally", "  c32ok(2)", "end")...)
	case "rethrow":
		// the marks inside core stay (deeper frames), the frame's own mark moves to the throw
		for i := range core {
			if core[i].mark == k {
				core[i].mark = -1
			}
		}
		out = append(c32L("do"), c32Ind(core, 1)...)
		out = append(out, c32L(fmt.Sprintf("catch Error() as e%d", k), "  c32ok(3)")...)
		out = append(out, c32Line{fmt.Sprintf("  throw unchecked e%d", k), k})
		out = append(out, c32L("end")...)
	default:
		out = core
	}
	return out
}

func (p *c32Prog) throwSite(k int) []c32Line {
	f := &p.spec.Frames[k]
	nK := fmt.Sprintf("n%d", k)
	rK := fmt.Sprintf("r%d", k)
	var ctor string
	switch p.spec.Throw {
	case "myerr":
		ctor, p.errCls, p.errMsg = "MyErr", "MyErr", fmt.Sprintf("boom %d", k)
	default:
		ctor, p.errCls, p.errMsg = "Error", "Std::Error", fmt.Sprintf("boom %d", k)
	}
	one := c32Line{fmt.Sprintf("throw unchecked %s(\"%s\")", ctor, p.errMsg), k}
	ml := []c32Line{{fmt.Sprintf("throw unchecked %s(", ctor), k}, {fmt.Sprintf("  \"%s\"", p.errMsg), -1}, {")", -1}}
	var core []c32Line
	switch f.Inner {
	case "last":
		return []c32Line{one}
	case "mllast":
		return ml
	case "if":
		core = append(c32L("if "+nK+" > 0"), c32Ind([]c32Line{one}, 1)...)
		core = append(core, c32L("end")...)
	case "ifml":
		core = append(c32L("if "+nK+" > 0"), c32Ind(ml, 1)...)
		core = append(core, c32L("end")...)
	case "div":
		p.errCls, p.errMsg = "Std::ZeroDivisionError", "cannot divide by zero"
		core = append(c32L(fmt.Sprintf("z%d := %s - %s", k, nK, nK)), c32Line{fmt.Sprintf("%s = 10 / z%d", rK, k), k})
	case "index":
		p.errCls, p.errMsg = "Std::IndexError", ""
		core = append(c32L(fmt.Sprintf("l%d := [1, 2]", k)), c32Line{fmt.Sprintf("%s = l%d[%s + 7]", rK, k, nK), k})
	}
	return p.wrap(k, core)
}

func c32Render(s *c32Spec) (src string, exp []c32Exp, errCls, errMsg string) {
	p := &c32Prog{spec: s}
	top := p.body(0)
	var all []c32Line
	all = append(all, c32L(strings.Split(strings.TrimRight(c32Prelude, "\n"), "\n")...)...)
	all = append(all, c32L("")...)
	emitDefs := func() {
		for i := len(p.defs) - 1; i >= 0; i-- {
			all = append(all, p.defs[i]...)
			all = append(all, c32L("")...)
		}
	}
	if !s.DefsAfter {
		emitDefs()
	}
	all = append(all, top...)
	all = append(all, c32L("")...)
	if s.DefsAfter {
		emitDefs()
	}
	lineOf := map[int]int{}
	var sb strings.Builder
	for i, l := range all {
		sb.WriteString(l.text)
		sb.WriteByte('\n')
		if l.mark >= 0 {
			if _, dup := lineOf[l.mark]; dup {
				panic(fmt.Sprintf("c32: frame %d marked twice", l.mark))
			}
			lineOf[l.mark] = i + 1
		}
	}
	// expected chain: the outermost rethrowing frame ends it
	end := len(s.Frames) - 1
	for i := range s.Frames {
		if s.Frames[i].Wrap == "rethrow" {
			end = i
			break
		}
	}
	for i := 0; i <= end; i++ {
		f := &s.Frames[i]
		ln, ok := lineOf[i]
		if !ok {
			panic(fmt.Sprintf("c32: frame %d has no marked line", i))
		}
		desc := f.Kind
		if f.Sub != "" {
			desc += ":" + f.Sub
		}
		site := f.Wrap + "/" + f.Inner
		if f.Form != "" && i < len(s.Frames)-1 {
			site += "/" + f.Form
		}
		if f.Bulk > 0 {
			site += "/bulk"
		}
		if i < len(s.Frames)-1 {
			nx := &s.Frames[i+1]
			site += "->" + nx.Kind
			if nx.Sub != "" {
				site += ":" + nx.Sub
			}
		} else {
			site += "->throw:" + s.Throw
		}
		elig := i < end && i > 0 && !f.Defer && (f.Inner == "tail" || f.Inner == "tailif" || f.Inner == "return") &&
			(f.Wrap == "none" || f.Wrap == "if" || f.Wrap == "for" || f.Wrap == "while")
		exp = append(exp, c32Exp{Name: p.frameName(i), Line: ln, Elig: elig, Desc: desc, SiteDesc: site})
	}
	return sb.String(), exp, p.errCls, p.errMsg
}

// ---------------------------------------------------------------------------------------------
// observation

type c32Act struct {
	Name  string
	Line  int
	Tail  int
	File  string
	Index int
}

var c32FrameRe = regexp.MustCompile("^ (\\d+): (.*):(-?\\d+), in `(.*)`$")
var c32TailRe = regexp.MustCompile(`^ \.\.\. (\d+) optimised tail call\(s\)$`)
var c32AnsiRe = regexp.MustCompile("\x1b\\[[0-9;]*m")

// parse the printed report; returns frames, the error line and a format complaint
func c32Parse(trace string) (frames []c32Act, errLine string, bad string) {
	trace = c32AnsiRe.ReplaceAllString(trace, "")
	lines := strings.Split(strings.TrimRight(trace, "\n"), "\n")
	if len(lines) == 0 || lines[0] != "Stack trace (the most recent call is last)" {
		return nil, "", "no-header"
	}
	pendingTail := 0
	for _, l := range lines[1:] {
		if m := c32TailRe.FindStringSubmatch(l); m != nil {
			pendingTail, _ = strconv.Atoi(m[1])
			continue
		}
		if m := c32FrameRe.FindStringSubmatch(l); m != nil {
			idx, _ := strconv.Atoi(m[1])
			ln, _ := strconv.Atoi(m[3])
			if idx != len(frames) {
				return frames, "", "frame-index-not-consecutive"
			}
			frames = append(frames, c32Act{Name: m[4], Line: ln, Tail: pendingTail, File: m[2], Index: idx})
			pendingTail = 0
			continue
		}
		if strings.HasPrefix(l, "Error! ") {
			errLine = l
			continue
		}
		if l == "" {
			continue
		}
		return frames, errLine, "unparsed-line"
	}
	if pendingTail != 0 {
		return frames, errLine, "dangling-tail-marker"
	}
	return frames, errLine, ""
}

func c32IsNativeName(n string) bool {
	return strings.HasPrefix(n, "Std::") && !strings.HasPrefix(n, "Std::Kernel::")
}

// compare returns "" or (signature, explanation)
func c32Compare(exp []c32Exp, act []c32Act) (sig, why string, compared int) {
	i := 0
	for _, a := range act {
		if c32IsNativeName(a.Name) {
			continue
		}
		if a.File != "main.elk" {
			return "file-wrong", fmt.Sprintf("frame %d reports file %q", a.Index, a.File), compared
		}
		for q := 0; q < a.Tail; q++ {
			if i >= len(exp) {
				return "tail-count-too-large", fmt.Sprintf("frame %d (%s) claims %d optimised tail calls, more than the frames left in the chain", a.Index, a.Name, a.Tail), compared
			}
			if !exp[i].Elig {
				return "frame-elided-not-tail:" + exp[i].Desc + ":" + exp[i].SiteDesc, fmt.Sprintf("frame %d (%s) claims %d optimised tail call(s) but expected frame %s (line %d) does not call in tail position", a.Index, a.Name, a.Tail, exp[i].Name, exp[i].Line), compared
			}
			i++
		}
		if i >= len(exp) {
			return "frame-extra", fmt.Sprintf("printed frame %d `%s` line %d is not part of the call chain (chain has %d frames)", a.Index, a.Name, a.Line, len(exp)), compared
		}
		e := exp[i]
		if a.Name != e.Name {
			// is it a later frame of the chain (then frames are missing)?
			for j := i + 1; j < len(exp); j++ {
				if exp[j].Name == a.Name && (a.Name != "<closure>" || exp[j].Line == a.Line) {
					allElig := true
					for q := i; q < j; q++ {
						allElig = allElig && exp[q].Elig
					}
					if allElig {
						return "tail-elided-not-counted:" + e.Desc, fmt.Sprintf("expected frame %s (line %d) was replaced by a tail call but the report has no 'optimised tail call(s)' marker before `%s`", e.Name, e.Line, a.Name), compared
					}
					return "frame-missing:" + e.Desc, fmt.Sprintf("expected frame #%d `%s` line %d (%s) is missing; report continues with `%s` line %d", i, e.Name, e.Line, e.Desc, a.Name, a.Line), compared
				}
			}
			return "name-wrong:" + e.Desc, fmt.Sprintf("expected frame #%d `%s` line %d, report has `%s` line %d", i, e.Name, e.Line, a.Name, a.Line), compared
		}
		compared++
		if a.Line != e.Line {
			return "line-wrong:" + e.Desc + ":" + e.SiteDesc, fmt.Sprintf("frame #%d `%s`: expected line %d, reported line %d", i, e.Name, e.Line, a.Line), compared
		}
		i++
	}
	if i < len(exp) {
		e := exp[i]
		// trailing eligible frames cannot be elided: the innermost frame always exists
		return "frame-missing:" + e.Desc, fmt.Sprintf("report ends after %d chain frames; expected frame #%d `%s` line %d (%s) and %d more are missing", i, i, e.Name, e.Line, e.Desc, len(exp)-i-1), compared
	}
	return "", "", compared
}

// run one spec; returns signature ("" = conforming), detail, source
func c32RunSpec(c *Ctx, s *c32Spec, count bool) (sig, detail, src string) {
	src, exp, errCls, errMsg := c32Render(s)
	res := RunElk(src, &ElkOpts{Threads: 32, Queue: 400})
	if res.Rejected {
		if count {
			c.Count("programs_rejected_by_checker", 1)
			c.Extra("last_rejection", head(diagString(res.Diagnostics), 400))
			if d := os.Getenv("VERIF_DUMP_REJECTED"); d != "" {
				os.WriteFile(fmt.Sprintf("%s/rej-%d.elk", d, c.counterSnapshot("programs_rejected_by_checker")), []byte(src+"\n# "+diagString(res.Diagnostics)), 0o644)
			}
		}
		return "rejected", diagString(res.Diagnostics), src
	}
	if res.Panic != "" {
		return "vm-panic:" + c32PanicSite(res.Panic), fmt.Sprintf("Go panic in phase %s: %s\n%s", res.PanicPhase, head(res.Panic, 300), head(res.PanicStack, 1500)), src
	}
	if count {
		c.Count("programs_run", 1)
	}
	if res.Err.IsUndefined() {
		return "no-error", "the program ended without the uncaught error; stdout: " + head(res.Stdout, 200), src
	}
	act, errLine, bad := c32Parse(res.Trace)
	expTxt := func() string {
		var sb strings.Builder
		for i, e := range exp {
			t := ""
			if e.Elig {
				t = " (tail position)"
			}
			fmt.Fprintf(&sb, " %d: main.elk:%d, in `%s`   [%s %s]%s\n", i, e.Line, e.Name, e.Desc, e.SiteDesc, t)
		}
		return sb.String()
	}
	mkDetail := func(why string) string {
		return fmt.Sprintf("%s\nexpected chain (generator's model):\n%sexpected error: %s: %s\nprinted report:\n%s", why, expTxt(), errCls, errMsg, res.Trace)
	}
	if bad != "" {
		return "report-format:" + bad, mkDetail("the report could not be parsed: " + bad), src
	}
	if count {
		c.Count("traces_parsed", 1)
	}
	sig, why, compared := c32Compare(exp, act)
	if count {
		c.Count("frames_compared", int64(compared))
		c.Max("max_chain_depth", int64(len(exp)))
		for _, a := range act {
			if a.Tail > 0 {
				c.Count("tail_markers_seen", 1)
			}
		}
	}
	if sig != "" {
		return sig, mkDetail(why), src
	}
	wantErr := "Error! Uncaught error " + errCls + ": " + errMsg
	if errMsg == "" {
		if !strings.HasPrefix(errLine, "Error! Uncaught error "+errCls+": ") {
			return "error-line-wrong:" + s.Throw, mkDetail("error line is " + errLine), src
		}
	} else if errLine != wantErr {
		return "error-line-wrong:" + s.Throw, mkDetail("error line is " + errLine + ", want " + wantErr), src
	}
	if count {
		c.Count("error_lines_checked", 1)
	}
	return "", "", src
}

func c32PanicSite(msg string) string {
	msg = head(msg, 60)
	msg = regexp.MustCompile(`0x[0-9a-f]+|\d+`).ReplaceAllString(msg, "N")
	return strings.Join(strings.Fields(msg), "-")
}

func (c *Ctx) counterSnapshot(name string) int64 {
	c.mu.Lock()
	defer c.mu.Unlock()
	return c.counters[name]
}

// ---------------------------------------------------------------------------------------------
// minimisation: drop padding, simplify statement shapes, shorten the chain

func c32Clone(s *c32Spec) *c32Spec {
	n := &c32Spec{Throw: s.Throw, DefsAfter: s.DefsAfter}
	for _, f := range s.Frames {
		g := f
		g.Pre = append([]int(nil), f.Pre...)
		g.Post = append([]int(nil), f.Post...)
		n.Frames = append(n.Frames, g)
	}
	return n
}

func c32Valid(s *c32Spec) bool {
	if len(s.Frames) < 2 || s.Frames[0].Kind != "top" {
		return false
	}
	for i := range s.Frames {
		f := &s.Frames[i]
		if f.Kind == "helper" && (i+1 >= len(s.Frames) || s.Frames[i+1].Kind != "closurearg") {
			return false
		}
		if f.Kind == "closurearg" && s.Frames[i-1].Kind != "helper" {
			return false
		}
		if i > 0 && f.Kind == "top" {
			return false
		}
	}
	return true
}

// fix up forms after structural edits so the spec renders a type-correct program
func c32Normalise(s *c32Spec) {
	last := len(s.Frames) - 1
	for i := range s.Frames {
		f := &s.Frames[i]
		rt := c32ResultType(f)
		if i == last {
			switch f.Inner {
			case "if", "ifml", "div", "index":
			case "last", "mllast":
				if rt != "int" {
					f.Inner = "if"
				}
			default:
				f.Inner = "if"
			}
			if f.Inner == "last" || f.Inner == "mllast" {
				f.Wrap = "none"
			}
			switch f.Inner {
			case "div":
				s.Throw = "div"
			case "index":
				s.Throw = "index"
			default:
				if s.Throw == "div" || s.Throw == "index" {
					s.Throw = "error"
				}
			}
			continue
		}
		switch f.Inner {
		case "if", "ifml", "div", "index", "last", "mllast", "":
			f.Inner = "plus"
		}
		if c32StmtOnly(&s.Frames[i+1]) {
			f.Inner = "stmt"
		}
		if (f.Inner == "tail" || f.Inner == "return" || f.Inner == "tailif") && (rt != "int" || f.Kind == "generator") {
			f.Inner = "plus"
		}

		if f.Inner == "yield" && f.Kind != "generator" {
			f.Inner = "plus"
		}
		if f.Inner == "tail" || f.Inner == "tailif" {
			f.Wrap = "none"
		}
	}
}

func c32Minimise(c *Ctx, s *c32Spec, sig string) *c32Spec {
	budget := 60
	try := func(t *c32Spec) bool {
		if budget <= 0 || !c32Valid(t) {
			return false
		}
		budget--
		c32Normalise(t)
		c32AvoidReturnAfterClosure(t)
		g, _, _ := c32RunSpec(c, t, false)
		return g == sig
	}
	cur := c32Clone(s)
	// 1. all padding away
	t := c32Clone(cur)
	for i := range t.Frames {
		t.Frames[i].Pre, t.Frames[i].Post, t.Frames[i].Defer = nil, nil, false
	}
	t.DefsAfter = false
	if try(t) {
		cur = t
	}
	// 2. cut the chain at the inner end, then remove single frames
	for changed := true; changed; {
		changed = false
		for n := 2; n < len(cur.Frames); n++ {
			t := c32Clone(cur)
			t.Frames = t.Frames[:n]
			if try(t) {
				cur, changed = t, true
				break
			}
		}
		for j := 1; j < len(cur.Frames) && !changed; j++ {
			for _, w := range []int{1, 2} {
				if j+w > len(cur.Frames) {
					continue
				}
				t := c32Clone(cur)
				t.Frames = append(t.Frames[:j], t.Frames[j+w:]...)
				if try(t) {
					cur, changed = t, true
					break
				}
			}
		}
	}
	// 3. plain statement shapes, no bulk
	for i := range cur.Frames {
		t := c32Clone(cur)
		t.Frames[i].Wrap, t.Frames[i].Form, t.Frames[i].Bulk = "none", "", 0
		if i < len(t.Frames)-1 {
			t.Frames[i].Inner = "plus"
		}
		if try(t) {
			cur = t
		}
	}
	// 4. remaining padding one frame at a time
	for i := range cur.Frames {
		t := c32Clone(cur)
		t.Frames[i].Pre, t.Frames[i].Post, t.Frames[i].Defer = nil, nil, false
		if try(t) {
			cur = t
		}
	}
	c32Normalise(cur)
	return cur
}

// ---------------------------------------------------------------------------------------------

func c32Case(c *Ctx, i int, r *rand.Rand) {
	s := c32GenSpec(r)
	c.Eval(1)
	if d := os.Getenv("VERIF_C32_DUMP"); d != "" {
		src, _, _, _ := c32Render(s)
		os.WriteFile(fmt.Sprintf("%s/case-%d.elk", d, i), []byte(src), 0o644)
	}
	sig, detail, src := c32RunSpec(c, s, true)
	for k, f := range s.Frames {
		key := f.Kind + ":" + f.Sub + "|" + f.Wrap + "/" + f.Inner + "/" + f.Form
		if k+1 < len(s.Frames) {
			key += "->" + s.Frames[k+1].Kind
		}
		c.Distinct(key)
		c.Count("kind_"+f.Kind, 1)
		if f.Bulk > 0 {
			c.Count("frames_with_wide_operands", 1)
		}
	}
	if i%500 == 0 {
		c.Sample(map[string]string{"program": head(src, 1500)})
	}
	switch sig {
	case "":
		return
	case "rejected":
		return
	}
	if c.matchKnown(c.ID+":"+sig) != nil {
		c.Violate(sig, detail, i, src)
		return
	}
	min := c32Minimise(c, s, sig)
	msig, mdetail, msrc := c32RunSpec(c, min, false)
	if msig == sig {
		detail, src = "minimised witness (from case "+strconv.Itoa(i)+"):\n"+mdetail, msrc
	}
	c.Violate(sig, detail, i, src)
}

func init() {
	register(&Check{
		ID: "C32",
		Rule: "Each case renders a program from a seeded spec: a call chain of depth 1..12 (13 with a helper/closure pair) below the top level through def functions, " +
			"instance/module/singleton methods, operator methods, closures stored in locals (call / .() / ()), closures passed to a helper, native callbacks (map, fold, times, filter, count), " +
			"generator bodies (for / next) and async bodies (await / await_sync / await of an already rejected promise); every call site sits in a random statement shape " +
			"(sum on continuation lines, nested call argument, multi-line argument list, method on a continuation line, if / for / while / do-catch-other / do-finally / catch-and-rethrow, tail call, return call, yield) " +
			"between random padding (blank lines, comments, multi-line expressions, decoy calls that return, decoy errors that are caught, loops, defer, optional ~300 call statements that force 16-bit operands). " +
			"The generator records (printed name, line, tail-position?) for every frame; the printed uncaught-error report is parsed and compared frame by frame (names, order, lines, missing/extra frames, " +
			"tail-call markers, error class and message). A failing spec is delta-minimised (padding, chain length, shapes). Distinct = (frame kind, entry variant, statement shape, callee kind).",
		NumCases: func(tier string) int {
			if tier == "thorough" {
				return 20000
			}
			return 1600
		},
		Case:        c32Case,
		MinCounters: map[string]int64{"frames_compared": 4000, "traces_parsed": 1200},
		Assumptions: []string{
			"the line of a frame is the line where the active call / throw / await / for expression starts (compiler emits location.StartPos.Line)",
			"native methods have no frame in the bytecode VM; entries named Std::<not Kernel>… are tolerated, closures called back from them must be listed",
			"a frame may be absent only if its call is in tail position (no do/catch/finally around, no defer) and the report carries the 'optimised tail call(s)' count",
			"catch + `throw e` is a new throw at the line of that throw (the original deeper frames are not required)",
			"`go` threads are out of scope (no specified trace)",
			"RunElk prints the report with vm.PrintError(thread.ErrStackTrace(), err) exactly like `elk run`",
		},
		CPUBudget:     120,
		WorkerTimeout: 6 * time.Minute,
	})
}
