package main

// C03 — The front end is total: every input gets diagnostics, never a crash or a hang.
// Entry points driven: parser (+ IsIncomplete/ShouldIndent, ast.DeepCopy, String of the tree),
// regex parser/transpiler/compile with all 64 flag sets, type checker in batch and incremental
// (REPL) mode including macro expansion. Oracle: recover() for panics, process death for fatal
// errors, per-input CPU budget for hangs (restated termination).

import (
	"fmt"
	"math/rand/v2"
	"os"
	"strings"

	"github.com/elk-language/elk"
	"github.com/elk-language/elk/bitfield"
	"github.com/elk-language/elk/lexer"
	"github.com/elk-language/elk/parser"
	"github.com/elk-language/elk/parser/ast"
	"github.com/elk-language/elk/regex"
	"github.com/elk-language/elk/token"
	"github.com/elk-language/elk/types/checker"
	"github.com/elk-language/elk/value"
)

var regexVocab = []string{
	"a", "b", "Z", "0", " ", "\t", "\n", "#", "# c\n", ".", "\\d", "\\D", "\\w", "\\W", "\\s", "\\S", "\\h", "\\H", "\\v", "\\V", "\\N", "\\R", "\\X",
	"[a-z]", "[^x]", "[]", "[^]", "[a", "[z-a]", "[\\d-x]", "[[:alpha:]]", "[[:^digit:]]", "[[:bogus:]]", "[a&&b]", "]", "[", "[ -/]", "[\\]]",
	"(", ")", "(?:", "(?<n>", "(?P<n>", "(?<", "(?i:", "(?i-m)", "(?x)", "(?-)", "(?imsUxa:", "(?z:", "(?=", "(?!", "(?<=", "(?#comment)", "(?#unclosed", "(?",
	"|", "*", "+", "?", "*?", "+?", "??", "*+", "{2}", "{2,}", "{2,3}", "{,3}", "{3,2}", "{99999}", "{", "}", "{a}",
	"\\p{L}", "\\P{Greek}", "\\pL", "\\p{Bogus}", "\\p{", "\\p", "\\x41", "\\x{1F600}", "\\x{", "\\x4", "\\xZZ", "\\u0041", "\\u{41}", "\\u12", "\\U0001F600",
	"\\cA", "\\c_", "\\c", "\\c`", "\\cé", "\\a", "\\f", "\\t", "\\n", "\\r", "\\e", "\\0", "\\101", "\\o{101}", "\\8", "\\1", "\\k<n>", "\\g<1>",
	"\\Q", "\\E", "\\Qa.b\\E", "^", "$", "\\A", "\\z", "\\Z", "\\b", "\\B", "\\G", "\\", "\\\\", "\\/", "/", "é", "日", "\xff", "\\é", "${", "}", "${x}",
}

func genRegexBody(r *rand.Rand) string {
	if r.IntN(10) == 0 {
		return randBytes(r, r.IntN(30))
	}
	n := 1 + r.IntN(10)
	var sb strings.Builder
	for i := 0; i < n; i++ {
		sb.WriteString(regexVocab[r.IntN(len(regexVocab))])
	}
	return sb.String()
}

// identPool etc. for token-level mutation that keeps programs parseable.
var (
	mutIdents    = []string{"a", "b", "x", "foo", "println", "self", "nil", "true", "e", "res", "i", "n", "cleanup", "get"}
	mutConsts    = []string{"Int", "String", "Foo", "Bar", "Error", "Std::Int", "List", "T", "Float", "Baz", "ZeroDivisionError", "ExpressionNode"}
	mutLiterals  = []string{"1", "2.5", "\"s\"", ":sym", "`c`", "nil", "1i8", "10u64", "1.5bf", "[1]", "%[1]", "{1 => 2}", "^[1]", "1...3", "-> 1", "%/a/"}
	mutOperators = []string{"+", "-", "*", "/", "**", "%", "==", "!=", "<", "<=", ">", ">=", "<=>", "&&", "||", "??", "&", "|", "^", "<<", ">>", "=~", "|>", "..", "...", "..<"}
)

func isOperatorToken(t *token.Token) bool {
	n := t.Type.Name()
	for _, o := range mutOperators {
		if n == o {
			return true
		}
	}
	return false
}

// mutateTokens replaces 1-3 tokens of a valid snippet by another token of the same category.
func mutateTokens(r *rand.Rand, s string) string {
	toks := lexer.Lex(s)
	if len(toks) == 0 {
		return s
	}
	type rep struct {
		st, en int
		text   string
	}
	var reps []rep
	for k := 0; k < 1+r.IntN(3); k++ {
		t := toks[r.IntN(len(toks))]
		sp := t.Span()
		var text string
		switch {
		case t.Type == token.PUBLIC_IDENTIFIER || t.Type == token.PRIVATE_IDENTIFIER:
			text = mutIdents[r.IntN(len(mutIdents))]
		case t.Type == token.PUBLIC_CONSTANT || t.Type == token.PRIVATE_CONSTANT:
			text = mutConsts[r.IntN(len(mutConsts))]
		case t.Type == token.INT || t.Type == token.FLOAT:
			text = mutLiterals[r.IntN(len(mutLiterals))]
		case isOperatorToken(t):
			text = mutOperators[r.IntN(len(mutOperators))]
		default:
			continue
		}
		reps = append(reps, rep{sp.StartPos.ByteOffset, sp.EndPos.ByteOffset + 1, text})
	}
	// apply non-overlapping, from the end
	out := s
	for i := range reps {
		for j := i + 1; j < len(reps); j++ {
			if reps[j].st > reps[i].st {
				reps[i], reps[j] = reps[j], reps[i]
			}
		}
	}
	last := len(s) + 1
	for _, rp := range reps {
		if rp.en > last || rp.st < 0 || rp.en > len(out) {
			continue
		}
		out = out[:rp.st] + rp.text + out[rp.en:]
		last = rp.st
	}
	return out
}

var checkerSnippets = append([]string{
	"def leaf(a: Int): Int\n  a * 2\nend\ndef t: Int\n  a := leaf(2)\n  b := leaf(a)\n  a + b\nend\nprintln t().inspect\n",
	"class Box[T]\n  var @v: T\n  init(@v); end\n  def get: T then @v\nend\nb := Box::[Int](3)\nprintln b.get.inspect\n",
	"var x: Int? = nil\nif x\n  println((x + 1).inspect)\nend\ny := x ?? 5\nprintln y.inspect\n",
	"macro twice(e: ExpressionNode)\n  quote\n    !{e}\n    !{e}\n  end\nend\ntwice!(println(\"x\"))\n",
	"macro m(e: ExpressionNode)\n  quote\n    tmp := 5\n    tmp + !{unhygienic(e)}\n  end\nend\ntmp := 10\nprintln m!(tmp + 1).inspect\n",
	"def *gen(n: Int): Int\n  i := 0\n  while i < n\n    yield i\n    i += 1\n  end\n  -1\nend\nfor v in gen(3)\n  println v.inspect\nend\n",
	"async def f(a: Int): Int\n  a + 1\nend\np := f(2)\nprintln((await p).inspect)\n",
	"interface Shape\n  sig area: Float\nend\nclass Sq\n  implement Shape\n  def area: Float then 4.0\nend\nvar s: Shape = Sq()\nprintln s.area.inspect\n",
	"a := 1\nb := 2\nprintln((a && b).inspect)\nprintln((a || b).inspect)\nprintln((nil ?? b).inspect)\n",
	"v := [1, [2, 3]]\nswitch v\ncase [a, [b, c]] then println(\"m\")\ncase [] then println(\"e\")\nend\n",
	"typedef N = Int | Float\ndef h(x: N): N then x\nprintln h(1).inspect\nprintln h(1.5).inspect\n",
	"module M\n  def self_m: Int then 1\n  singleton\n    def k: Int then 2\n  end\nend\nprintln M.k.inspect\n",
	"mixin Walk\n  def walk: String then \"w\"\nend\nclass Dog\n  include Walk\nend\nprintln Dog().walk\n",
	"struct P\n  x: Int\n  y: Int\nend\np := P(1, 2)\nprintln p.x.inspect\n",
	"using Std::Sync::Mutex\nm := Mutex()\nm.lock\nm.unlock\n",
	"f := |a: Int|: Int -> a + 1\ng := |h: |x: Int|: Int| -> h(2)\nprintln g(f).inspect\n",
}, srcSnippets...)

func c03Guard(c *Ctx, caseIdx int, phase, input string, f func()) {
	if os.Getenv("VERIF_PRINT") != "" { // diagnosis aid: the input of a case that hangs or kills the process
		fmt.Fprintf(os.Stderr, "---- case %d (%s)\n%s\n----\n", caseIdx, phase, input)
	}
	defer func() {
		if r := recover(); r != nil {
			msg := fmt.Sprint(r)
			stack := string(debugStack())
			c.Violate("panic:"+phase+":"+panicSite1(stack), fmt.Sprintf("%s panicked on input %q: %s\n%s", phase, input, head(msg, 300), head(stack, 1800)), caseIdx, input)
		}
	}()
	f()
}

// panicSite1 is the innermost elk frame below the panic.
func panicSite1(stack string) string {
	s := panicSite(stack)
	if i := strings.Index(s, "<"); i > 0 {
		return s[:i]
	}
	return s
}

func c03Case(c *Ctx, i int, r *rand.Rand) {
	c.Eval(1)
	switch k := i % 10; {
	case k < 4: // parser on hostile text
		s := genHostileSource(r)
		if i%100000 == 0 {
			c.Sample(map[string]string{"phase": "parse", "input": head(s, 200)})
		}
		c.Count("parser_inputs", 1)
		c03Guard(c, i, "parse", s, func() {
			p := parser.New("m.elk", s)
			tree, diags := p.Parse()
			_ = p.IsIncomplete()
			_ = p.ShouldIndent()
			for _, d := range diags {
				c.Distinct("diag|" + head(d.Message, 40))
			}
			if tree != nil && len(diags) == 0 {
				c.Count("parsed_without_errors", 1)
				// DeepCopy without splice arguments is only defined for trees without unquote nodes
				if !strings.Contains(s, "!{") && !strings.Contains(s, "unquote") {
					cp := ast.DeepCopy(tree)
					_ = cp.String()
				} else {
					_ = tree.String()
				}
			}
		})
	case k < 6: // nesting bombs and REPL-style prefixes of valid snippets
		var s string
		if r.IntN(2) == 0 {
			open := []string{"(", "[", "{", "\"${", "-> ", "!", "-", "~", "%[", "^[", "{a: ", "do\n", "if a then ", "\"#{", "[[", "a.b(", "a ?? ", "try ", "must ", "&", "*", "|x| -> ", "quote ", "!{", "case [", "%{a: ", "1..", "not "}[r.IntN(28)]
			n := 10 + r.IntN(c.N(600, 3000))
			s = strings.Repeat(open, n) + "1"
		} else {
			base := checkerSnippets[r.IntN(len(checkerSnippets))]
			s = base[:r.IntN(len(base)+1)]
		}
		c.Count("nesting_and_prefix_inputs", 1)
		c03Guard(c, i, "parse", s, func() {
			p := parser.New("m.elk", s)
			p.Parse()
			if p.IsIncomplete() {
				c.Count("incomplete_inputs_seen", 1)
			}
			_ = p.ShouldIndent()
		})
	case k < 8: // regex bodies x flags
		body := genRegexBody(r)
		flags := bitfield.BitField8FromInt(uint8(r.IntN(64)))
		c.Count("regex_inputs", 1)
		if i%100000 == 7 {
			c.Sample(map[string]string{"phase": "regex", "input": body})
		}
		c03Guard(c, i, "regex", body, func() {
			out, diags := regex.Transpile(body, flags)
			for _, d := range diags {
				c.Distinct("rdiag|" + head(d.Message, 40))
			}
			if len(diags) == 0 {
				c.Count("regex_transpiled", 1)
				_ = out
			}
			re, err := value.CompileRegex(body, flags)
			if err == nil && re != nil {
				_ = re.Inspect()
				_ = re.MatchesString("aZ0 \n")
			}
		})
	default: // type checker (batch / incremental) on token-mutated valid programs
		base := checkerSnippets[r.IntN(len(checkerSnippets))]
		s := mutateTokens(r, base)
		if r.IntN(4) == 0 {
			s = mutateSource(r, base)
		}
		c.Count("checker_inputs", 1)
		if i%20000 == 9 {
			c.Sample(map[string]string{"phase": "check", "input": head(s, 300)})
		}
		incremental := r.IntN(3) == 0
		c03Guard(c, i, "check", s, func() {
			elk.InitGlobalEnvironment()
			tc := checker.New()
			if incremental {
				tc.SetAdditionalAbortChecks(true)
				tc.SetIncremental(true)
				// feed the program in REPL-like chunks (split on blank-line-free statement boundaries)
				lines := strings.SplitAfter(s, "\n")
				cut := 1
				if len(lines) > 1 {
					cut = 1 + r.IntN(len(lines)-1)
				}
				for _, chunk := range []string{strings.Join(lines[:cut], ""), strings.Join(lines[cut:], ""), s} {
					_, diags := tc.CheckSourceBytecode("<repl>", chunk)
					for _, d := range diags {
						c.Distinct("cdiag|" + head(d.Message, 30))
					}
					tc.ClearErrors()
				}
				c.Count("checker_incremental_sessions", 1)
				return
			}
			_, diags := tc.CheckSourceBytecode("m.elk", s)
			if !diags.IsFailure() {
				c.Count("checker_accepted", 1)
			}
			for _, d := range diags {
				c.Distinct("cdiag|" + head(d.Message, 30))
			}
		})
	}
}

func init() {
	register(&Check{
		ID: "C03",
		Rule: "inputs: hostile text (random bytes, token soup over the full token vocabulary, mutated snippets, CRLF/invalid UTF-8), nesting bombs up to depth 600 (quick) / 3000 (thorough), every prefix class of valid programs (REPL-style incomplete input), regex bodies over a regex vocabulary x 64 flag sets, token-mutated valid programs (incl. macros, generators, async, generics) through the checker in batch and incremental mode; " +
			"oracle: recover(), process death, CPU budget per input; distinct = distinct diagnostic messages reached",
		NumCases: func(tier string) int {
			if tier == "thorough" {
				return 600_000
			}
			return 100_000
		},
		Case:        c03Case,
		CPUBudget:   20,
		MinCounters: map[string]int64{"parser_inputs": 10000, "regex_inputs": 5000, "checker_inputs": 5000, "checker_accepted": 200, "incomplete_inputs_seen": 100, "regex_transpiled": 500},
		Assumptions: []string{"termination restated as a CPU budget of 20 s per input (typical input: < 5 ms)", "inputs up to a few KB; single-file checking only"},
	})
}
