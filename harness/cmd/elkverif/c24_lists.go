package main

// C24 — Lists and tuples behave as sequences. Histories rendered as Elk programs, observations
// compared with a Go slice model (negative indices count from the end; out-of-range => IndexError).

import (
	"fmt"
	"math/rand/v2"
	"strings"
)

type elemKind struct {
	name   string
	typ    string
	render func(i int) string
}

var c24ElemKinds = []elemKind{
	{"int", "Int", func(i int) string { return fmt.Sprint(i) }},
	{"string", "String", func(i int) string { return fmt.Sprintf("\"s%d\"", i) }},
	{"float", "Float", func(i int) string { return fmt.Sprintf("%d.5", i) }},
	{"symbol", "Symbol", func(i int) string { return fmt.Sprintf(":y%d", i) }},
	{"char", "Char", func(i int) string {
		// injective: remove / contains probes rely on unique elements (wrapping at 26 made `d` stand for 3 and 29)
		switch {
		case i < 26:
			return fmt.Sprintf("`%c`", 'a'+i)
		case i < 52:
			return fmt.Sprintf("`%c`", 'A'+i-26)
		case i < 62:
			return fmt.Sprintf("`%c`", '0'+i-52)
		}
		return fmt.Sprintf("`%c`", 0x4e00+i)
	}},
	{"int8", "Int8", func(i int) string { return fmt.Sprintf("%di8", i%128) }}, // histories stay far below 128 distinct values
	{"mixed", "Int | String | Float", func(i int) string {
		switch i % 3 {
		case 0:
			return fmt.Sprint(i)
		case 1:
			return fmt.Sprintf("\"s%d\"", i)
		}
		return fmt.Sprintf("%d.5", i)
	}},
	{"bigint", "Int", func(i int) string { return fmt.Sprintf("(18446744073709551616 + %d)", i) }},
}

// inspect rendering of an element as Elk prints it inside a collection
func (k *elemKind) show(i int) string {
	s := k.render(i)
	if k.name == "bigint" {
		return fmt.Sprintf("1844674407370955%d", 1616+i)
	}
	return s
}

type seqProg struct {
	sb     strings.Builder
	probes []c17Probe
	nvar   int
}

func (p *seqProg) fresh(prefix string) string {
	p.nvar++
	return fmt.Sprintf("%s%d", prefix, p.nvar)
}

// probeExpr prints the value of expr or the class of the error it raises.
func (p *seqProg) probeExpr(expr, want, what, site string) {
	id := len(p.probes)
	fmt.Fprintf(&p.sb, "do\n  q%d := %s\n  println(\"P%d #{q%d}\")\ncatch Error() as e%d\n  println(\"P%d ERR #{e%d.class.name}\")\nend\n", id, expr, id, id, id, id, id)
	p.probes = append(p.probes, c17Probe{want, what, site})
}

// probeStmt runs a statement that yields no value; prints ok or the error class.
func (p *seqProg) probeStmt(stmt, want, what, site string) {
	id := len(p.probes)
	fmt.Fprintf(&p.sb, "do\n  %s\n  println(\"P%d ok\")\ncatch Error() as e%d\n  println(\"P%d ERR #{e%d.class.name}\")\nend\n", stmt, id, id, id, id)
	p.probes = append(p.probes, c17Probe{want, what, site})
}

func showSeq(k *elemKind, open string, xs []int) string {
	parts := make([]string, len(xs))
	for i, x := range xs {
		parts[i] = k.show(x)
	}
	return open + strings.Join(parts, ", ") + "]"
}

func litSeq(k *elemKind, open string, xs []int) string {
	parts := make([]string, len(xs))
	for i, x := range xs {
		parts[i] = k.render(x)
	}
	return open + strings.Join(parts, ", ") + "]"
}

const oor = `ERR "Std::IndexError"`

// normIndex applies "negative counts from the end".
func normIndex(i, n int) (int, bool) {
	if i < 0 {
		i += n
	}
	return i, i >= 0 && i < n
}

type rangeSpec struct {
	lit    string
	lo, hi int  // inclusive bounds after applying openness, before normalisation (only when has*)
	hasLo  bool // has a start bound
	hasHi  bool
	loOpen bool // start excluded
	hiOpen bool // end excluded
}

func genRange(r *rand.Rand, n int) rangeSpec {
	b := func() int { return r.IntN(2*n+5) - n - 2 }
	lo, hi := b(), b()
	lit := func(x int) string {
		if x < 0 {
			return fmt.Sprintf("(%d)", x)
		}
		return fmt.Sprint(x)
	}
	switch r.IntN(8) {
	case 0:
		return rangeSpec{lit: lit(lo) + "..." + lit(hi), lo: lo, hi: hi, hasLo: true, hasHi: true}
	case 1:
		return rangeSpec{lit: lit(lo) + "..<" + lit(hi), lo: lo, hi: hi, hasLo: true, hasHi: true, hiOpen: true}
	case 2:
		return rangeSpec{lit: lit(lo) + "<.." + lit(hi), lo: lo, hi: hi, hasLo: true, hasHi: true, loOpen: true}
	case 3:
		return rangeSpec{lit: lit(lo) + "<.<" + lit(hi), lo: lo, hi: hi, hasLo: true, hasHi: true, loOpen: true, hiOpen: true}
	case 4:
		return rangeSpec{lit: "..." + lit(hi), hi: hi, hasHi: true}
	case 5:
		return rangeSpec{lit: "..<" + lit(hi), hi: hi, hasHi: true, hiOpen: true}
	case 6:
		return rangeSpec{lit: lit(lo) + "...", lo: lo, hasLo: true}
	default:
		return rangeSpec{lit: lit(lo) + "<..", lo: lo, hasLo: true, loOpen: true}
	}
}

// sliceModel follows the documented rule: the result is the elements at the indices contained in
// the range (negative bounds count from the end, an excluded bound moves one step inwards, a missing
// bound is the first/last index); it is an IndexError iff a contained index is < 0 or >= length.
// Selections that are empty only because an excluded bound sits on the first/last index
// (l[(-1)<..], l[..<0]) are left undecided.
func sliceModel(xs []int, rs rangeSpec) (out []int, ok bool, undecided bool) {
	n := len(xs)
	from, to := 0, n-1
	if rs.hasLo {
		from = rs.lo
		if from < 0 {
			from += n
		}
		if rs.loOpen {
			from++
		}
	}
	if rs.hasHi {
		to = rs.hi
		if to < 0 {
			to += n
		}
		if rs.hiOpen {
			to--
		}
	}
	if from > to {
		if from >= n || to < 0 {
			return nil, false, true
		}
		return nil, true, false
	}
	if from < 0 || to >= n {
		return nil, false, false
	}
	return append([]int{}, xs[from:to+1]...), true, false
}

func c24History(c *Ctx, p *seqProg, r *rand.Rand, tuple bool) string {
	k := &c24ElemKinds[r.IntN(len(c24ElemKinds))]
	next := 0 // unique element ids so that remove/contains are unambiguous
	var model []int
	for i := 0; i < r.IntN(7); i++ {
		model = append(model, next)
		next++
	}
	open, coll, kind := "[", "ArrayList", "list"
	if tuple {
		open, coll, kind = "%[", "ArrayTuple", "tuple"
		if len(model) == 0 {
			model = append(model, next)
			next++
		}
	}
	name := p.fresh("l")
	how := r.IntN(4)
	switch {
	case tuple || how < 2 || len(model) == 0:
		fmt.Fprintf(&p.sb, "var %s: %s[%s] = %s\n", name, coll, k.typ, litSeq(k, open, model))
	case how == 2 && len(model) >= 2 && k.name != "mixed": // built by concatenation
		cut := 1 + r.IntN(len(model)-1)
		fmt.Fprintf(&p.sb, "var %s: %s[%s] = %s + %s\n", name, coll, k.typ, litSeq(k, open, model[:cut]), litSeq(k, open, model[cut:]))
	case how == 2:
		fmt.Fprintf(&p.sb, "var %s: %s[%s] = %s\n", name, coll, k.typ, litSeq(k, open, model))
	default: // built by pushes onto a constructor
		fmt.Fprintf(&p.sb, "var %s: %s[%s] = %s::[%s]()\n", name, coll, k.typ, coll, k.typ)
		for _, x := range model {
			fmt.Fprintf(&p.sb, "%s << %s\n", name, k.render(x))
		}
	}
	site := kind + ":" + k.name
	nops := 6 + r.IntN(40)
	for o := 0; o < nops; o++ {
		n := len(model)
		idx := r.IntN(2*n+5) - n - 2
		idxLit := fmt.Sprint(idx)
		if idx < 0 {
			idxLit = fmt.Sprintf("(%d)", idx)
		}
		switch x := r.IntN(20); {
		case x < 3: // index read
			want := oor
			if i, ok := normIndex(idx, n); ok {
				want = k.show(model[i])
			} else {
				c.Count("out_of_range_accesses", 1)
			}
			p.probeExpr(fmt.Sprintf("%s[%s]", name, idxLit), want, fmt.Sprintf("%s[%s]", name, idxLit), site+":index")
		case x < 4:
			want := oor
			if i, ok := normIndex(idx, n); ok {
				want = k.show(model[i])
			}
			p.probeExpr(fmt.Sprintf("%s.at(%s)", name, idxLit), want, "at", site+":at")
		case x < 7: // range slice
			rs := genRange(r, n)
			want := oor
			sel, ok, undecided := sliceModel(model, rs)
			if undecided {
				continue
			}
			if ok {
				want = showSeq(k, "", sel)
			}
			id := len(p.probes)
			// slices print as tuple or list depending on the variant; compare contents only
			fmt.Fprintf(&p.sb, "do\n  q%d := %s[%s]\n  println(\"P%d #{q%d}\")\ncatch Error() as e%d\n  println(\"P%d ERR #{e%d.class.name}\")\nend\n", id, name, rs.lit, id, id, id, id, id)
			p.probes = append(p.probes, c17Probe{"SEQ" + want, fmt.Sprintf("%s[%s] with %s = %s", name, rs.lit, name, showSeq(k, open, model)), site + ":slice"})
			c.Count("ops_slice", 1)
		case x < 8:
			p.probeExpr(name+".length", fmt.Sprint(n), "length", site+":length")
		case x < 9:
			q := r.IntN(next + 2)
			has := false
			for _, v := range model {
				if v == q {
					has = true
				}
			}
			p.probeExpr(fmt.Sprintf("%s.contains(%s)", name, k.render(q)), fmt.Sprint(has), "contains", site+":contains")
		case x < 10: // whole state
			p.probeExpr(name, showSeq(k, open, model), "inspect", site+":state")
		case x < 11: // + and aliasing
			var other []int
			for i := 0; i < 1+r.IntN(3); i++ {
				other = append(other, next)
				next++
			}
			nn := p.fresh("c")
			fmt.Fprintf(&p.sb, "%s := %s + %s\n", nn, name, litSeq(k, open, other))
			p.probeExpr(nn, showSeq(k, open, append(append([]int{}, model...), other...)), "concatenation", site+":concat")
			if !tuple {
				fmt.Fprintf(&p.sb, "%s << %s\n", nn, k.render(next))
				p.probeExpr(name, showSeq(k, open, model), "receiver after pushing onto the concatenation", site+":concat-aliasing")
				fmt.Fprintf(&p.sb, "%s << %s\n", name, k.render(next+1))
				model = append(model, next+1)
				p.probeExpr(nn, showSeq(k, open, append(append(append([]int{}, model[:len(model)-1]...), other...), next)), "concatenation after pushing onto the receiver", site+":concat-aliasing")
				next += 2
			}
			c.Count("ops_concat", 1)
		case x < 12: // *
			times := r.IntN(4)
			var rep []int
			for t := 0; t < times; t++ {
				rep = append(rep, model...)
			}
			p.probeExpr(fmt.Sprintf("%s * %d", name, times), showSeq(k, open, rep), "repeat", site+":repeat")
		case x < 13: // ==
			eq := r.IntN(2) == 0
			other := append([]int{}, model...)
			if !eq {
				if len(other) > 0 && r.IntN(2) == 0 {
					other[r.IntN(len(other))] = next
					next++
				} else {
					other = append(other, next)
					next++
				}
			}
			if len(other) == 0 {
				continue
			}
			on := p.fresh("e")
			fmt.Fprintf(&p.sb, "var %s: %s[%s] = %s\n", on, coll, k.typ, litSeq(k, open, other))
			p.probeExpr(fmt.Sprintf("%s == %s", name, on), fmt.Sprint(eq), "==", site+":eq")
			p.probeExpr(fmt.Sprintf("%s == %s", on, name), fmt.Sprint(eq), "== reversed", site+":eq")
		case tuple:
			continue
		case x < 15: // push family
			op := []string{"%s << %s", "%s.push(%s)", "%s.append(%s)"}[r.IntN(3)]
			fmt.Fprintf(&p.sb, op+"\n", name, k.render(next))
			model = append(model, next)
			next++
			c.Count("ops_push", 1)
		case x < 16: // []=
			want := oor
			if i, ok := normIndex(idx, n); ok {
				want = "ok"
				model[i] = next
			}
			p.probeStmt(fmt.Sprintf("%s[%s] = %s", name, idxLit, k.render(next)), want, fmt.Sprintf("%s[%s] = …", name, idxLit), site+":set")
			next++
		case x < 17: // pop
			want := oor
			if n > 0 {
				want = k.show(model[n-1])
				model = model[:n-1]
			}
			p.probeExpr(name+".pop", want, "pop", site+":pop")
			c.Count("ops_pop", 1)
		case x < 18: // remove (values are unique in these histories)
			q := r.IntN(next + 1)
			pos := -1
			for i, v := range model {
				if v == q {
					pos = i
				}
			}
			p.probeExpr(fmt.Sprintf("%s.remove(%s)", name, k.render(q)), fmt.Sprint(pos >= 0), "remove", site+":remove")
			if pos >= 0 {
				model = append(model[:pos:pos], model[pos+1:]...)
			}
			c.Count("ops_remove", 1)
		case x < 19: // remove_at
			want := oor
			if i, ok := normIndex(idx, n); ok {
				want = "ok"
				model = append(model[:i:i], model[i+1:]...)
			}
			p.probeStmt(fmt.Sprintf("%s.remove_at(%s)", name, idxLit), want, "remove_at", site+":remove_at")
		default:
			if r.IntN(3) == 0 {
				fmt.Fprintf(&p.sb, "%s.clear\n", name)
				model = nil
			} else {
				fmt.Fprintf(&p.sb, "%s.grow(%d)\n", name, r.IntN(20))
				c.Count("ops_grow", 1)
			}
		}
	}
	p.probeExpr(name, showSeq(k, open, model), "final state", site+":state")
	return site
}

func stripSpace(s string) string {
	return strings.Join(strings.Fields(s), "")
}

func c24Case(c *Ctx, i int, r *rand.Rand) {
	p := &seqProg{}
	var sites []string
	for h := 0; h < 1+r.IntN(2); h++ {
		sites = append(sites, c24History(c, p, r, r.IntN(4) == 0))
	}
	src := p.sb.String()
	if i%300 == 0 {
		c.Sample(map[string]string{"program_head": head(src, 500)})
	}
	// slices may print as list or tuple: normalise "SEQ"-tagged expectations
	for k := range p.probes {
		if strings.HasPrefix(p.probes[k].want, "SEQ") {
			p.probes[k].want = strings.TrimPrefix(p.probes[k].want, "SEQ")
		}
	}
	for k := range p.probes {
		p.probes[k].want = stripSpace(p.probes[k].want)
	}
	runProbeProgramNorm(c, i, src, p.probes, func(k int, got string) string {
		got = stripSpace(got)
		// ArrayList#inspect appends ":<spare capacity>"
		if j := strings.LastIndex(got, "]:"); j >= 0 && j+2 < len(got) && strings.Trim(got[j+2:], "0123456789") == "" {
			got = got[:j+1]
		}
		if strings.HasSuffix(p.probes[k].site, ":slice") {
			return strings.TrimPrefix(strings.TrimPrefix(got, "%"), "[")
		}
		return got
	})
	for _, s := range sites {
		c.Distinct(s)
	}
}

func init() {
	register(&Check{
		ID: "C24",
		Rule: "each case is an Elk program with 1-2 histories (6-45 ops) over an ArrayList or ArrayTuple of one element kind (Int, String, Float, Symbol, Char, Int8, Bool, BigInt, mixed) built by literal, concatenation or constructor+pushes: index reads at every index in [-n-2, n+2], at, slices with all eight range kinds and negative bounds, length, contains, inspect, +, *, == (both directions), push/<</append, []=, pop, remove, remove_at, grow, clear, aliasing probes after +; " +
			"compared with a Go slice model; distinct = (sequence kind, element kind) cells",
		NumCases: func(tier string) int {
			if tier == "thorough" {
				return 12000
			}
			return 2500
		},
		Case:        c24Case,
		MinCounters: map[string]int64{"probes": 10000, "ops_slice": 1000, "out_of_range_accesses": 300, "ops_pop": 100, "ops_remove": 100},
		Assumptions: []string{"negative indices count from the end (property statement); an invalid bound of a range slice is an IndexError; descending selections are empty", "elements are unique within a history so that remove/contains are unambiguous"},
	})
}
