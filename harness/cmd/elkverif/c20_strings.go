package main

// C20 — String operations agree with code-point, byte and grapheme models.

import (
	"fmt"
	"math/rand/v2"
	"strings"
	"unicode"
	"unicode/utf8"

	"github.com/elk-language/elk/value"
	"github.com/rivo/uniseg"
)

var strAtoms = []string{"a", "Z", "0", " ", "é", "ß", "ǆ", "İ", "日", "本", "👍", "👍🏽", "é", "👨‍👩‍👧", "🇵🇱", "한", "ᄀ", "ᅡ", "‍", "́", "\n", "\t", "\x00",
	"\xff", "\xc3", "\xe2\x82", "\xf0\x9f\x98", "\xc0\x80", "\xed\xa0\x80", "�", "ﬁ", "σ", "ς", "Σ", "ć", "ł", "x", "y"}

func genStr(r *rand.Rand) string {
	n := r.IntN(9)
	var sb strings.Builder
	for i := 0; i < n; i++ {
		if r.IntN(10) == 0 {
			sb.WriteByte(byte(r.IntN(256)))
		} else {
			sb.WriteString(strAtoms[r.IntN(len(strAtoms))])
		}
	}
	return sb.String()
}

func strClass(s string) string {
	switch {
	case s == "":
		return "empty"
	case !utf8.ValidString(s):
		return "invalid-utf8"
	case len(s) == utf8.RuneCountInString(s):
		return "ascii"
	case utf8.RuneCountInString(s) != uniseg.GraphemeClusterCount(s):
		return "multi-codepoint-graphemes"
	}
	return "multibyte"
}

func isIndexError(err value.Value) bool {
	return !err.IsUndefined() && strings.Contains(safeInspect(err), "IndexError")
}

func drain(it interface {
	NextValue() (value.Value, value.Value)
}, limit int) (vals []value.Value, ok bool) {
	for i := 0; i <= limit; i++ {
		v, e := it.NextValue()
		if !e.IsUndefined() {
			return vals, true
		}
		vals = append(vals, v)
	}
	return vals, false
}

func c20Check(c *Ctx, caseIdx int, s string, r *rand.Rand) {
	class := strClass(s)
	c.Count("strings_"+class, 1)
	S := value.String(s)
	in := map[string]string{"string": fmt.Sprintf("%q", s)}
	viol := func(site, msg string) {
		c.Violate(site+":"+class, fmt.Sprintf("string %q: %s", s, msg), caseIdx, in)
	}
	var p string
	// ---- counts and iterators
	var chars, bytesV, graphs []value.Value
	p = guard(func() {
		var ok bool
		if chars, ok = drain(value.NewStringCharIterator(S), len(s)+2); !ok {
			viol("char-iterator-endless", "char iterator did not stop")
		}
		if bytesV, ok = drain(value.NewStringByteIterator(S), len(s)+2); !ok {
			viol("byte-iterator-endless", "byte iterator did not stop")
		}
		if graphs, ok = drain(value.NewStringGraphemeIterator(S), len(s)+2); !ok {
			viol("grapheme-iterator-endless", "grapheme iterator did not stop")
		}
	})
	if p != "" {
		viol("iterator-panic", p)
		return
	}
	c.Eval(1)
	if n := S.CharCount(); n != len(chars) || n != utf8.RuneCountInString(s) {
		viol("length", fmt.Sprintf("length=%d, char iterator yields %d, code-point model %d", n, len(chars), utf8.RuneCountInString(s)))
	}
	if n := S.ByteCount(); n != len(bytesV) || n != len(s) {
		viol("byte_count", fmt.Sprintf("byte_count=%d, byte iterator yields %d, len %d", n, len(bytesV), len(s)))
	}
	if n := S.GraphemeCount(); n != len(graphs) {
		viol("grapheme_count", fmt.Sprintf("grapheme_count=%d, grapheme iterator yields %d", n, len(graphs)))
	}
	// iterator contents
	for i, b := range bytesV {
		if safeInspect(b) != fmt.Sprintf("%du8", s[i]) {
			viol("byte-iterator", fmt.Sprintf("byte iterator element %d is %s, want %du8", i, safeInspect(b), s[i]))
			break
		}
	}
	var gcat strings.Builder
	for _, g := range graphs {
		if gs, ok := g.SafeAsReference().(value.String); ok {
			gcat.WriteString(string(gs))
		}
	}
	if gcat.String() != s {
		viol("grapheme-iterator", fmt.Sprintf("concatenated graphemes %q differ from the string", gcat.String()))
	}
	if utf8.ValidString(s) {
		var ccat strings.Builder
		for _, ch := range chars {
			if ch.IsChar() {
				ccat.WriteRune(rune(ch.AsChar()))
			}
		}
		if ccat.String() != s {
			viol("char-iterator", fmt.Sprintf("concatenated chars %q differ from the string", ccat.String()))
		}
	}
	// ---- indexed access, every index in [-n-2, n+1]
	type at struct {
		name string
		n    int
		get  func(i int) (string, value.Value)
		elem func(i int) string
	}
	ats := []at{
		{"char_at", len(chars), func(i int) (string, value.Value) { v, e := S.Get(i); return safeInspect(v.ToValue()), e }, func(i int) string { return safeInspect(chars[i]) }},
		{"byte_at", len(s), func(i int) (string, value.Value) { v, e := S.ByteAtInt(i); return safeInspect(v.ToValue()), e }, func(i int) string { return fmt.Sprintf("%du8", s[i]) }},
		{"grapheme_at", len(graphs), func(i int) (string, value.Value) { v, e := S.GraphemeAtInt(i); return safeInspect(v.ToValue()), e }, func(i int) string { return safeInspect(graphs[i]) }},
	}
	for _, a := range ats {
		for i := -a.n - 2; i <= a.n+1; i++ {
			var got string
			var err value.Value
			if p := guard(func() { got, err = a.get(i) }); p != "" {
				viol(a.name+":panic", fmt.Sprintf("%s(%d) panicked: %s", a.name, i, p))
				break
			}
			c.Eval(1)
			j := i
			if j < 0 {
				j += a.n
			}
			if j < 0 || j >= a.n {
				if !isIndexError(err) {
					viol(a.name+":no-index-error", fmt.Sprintf("%s(%d) with %d elements: want IndexError, got %s / %s", a.name, i, a.n, got, safeInspect(err)))
					break
				}
				c.Count("out_of_range_indexes", 1)
				continue
			}
			if !err.IsUndefined() {
				viol(a.name+":unexpected-error", fmt.Sprintf("%s(%d) with %d elements: %s", a.name, i, a.n, safeInspect(err)))
				break
			}
			if want := a.elem(j); got != want && !(a.name == "char_at" && !utf8.ValidString(s)) {
				viol(a.name+":wrong-element", fmt.Sprintf("%s(%d) = %s, iterator element %d is %s", a.name, i, got, j, want))
				break
			}
		}
	}
	// ---- justify
	pads := []rune{' ', '0', 'é', '日', '👍'}
	pad := pads[r.IntN(len(pads))]
	cc := utf8.RuneCountInString(s)
	for _, target := range []int{0, cc - 1, cc, cc + 1, cc + 3, len(s), len(s) + 1, len(s) + 2, -1} {
		for _, left := range []bool{false, true} {
			var got value.String
			name := "rjust"
			if left {
				name = "ljust"
			}
			if p := guard(func() {
				if left {
					got = S.LJust(target, value.Char(pad))
				} else {
					got = S.RJust(target, value.Char(pad))
				}
			}); p != "" {
				viol(name+":panic", fmt.Sprintf("%s(%d, %q) panicked: %s", name, target, pad, p))
				continue
			}
			c.Eval(1)
			want := s
			if target > cc {
				padding := strings.Repeat(string(pad), target-cc)
				if left {
					want = s + padding
				} else {
					want = padding + s
				}
			}
			if string(got) != want {
				viol(name, fmt.Sprintf("%s(%d, %q) = %q, want %q (a string of max(len, length) code points)", name, target, pad, string(got), want))
			}
		}
	}
	// ---- + - *
	t := genStr(r)
	if r.IntN(3) == 0 && len(s) > 0 {
		t = s[r.IntN(len(s)):]
	}
	if p := guard(func() {
		got, err := S.Concat(value.String(t).ToValue())
		if !err.IsUndefined() || string(got) != s+t {
			viol("concat", fmt.Sprintf("+ %q = %q (err %s)", t, string(got), safeInspect(err)))
		}
		got, err = S.RemoveSuffix(value.String(t).ToValue())
		want := strings.TrimSuffix(s, t)
		if !err.IsUndefined() || string(got) != want {
			viol("remove_suffix", fmt.Sprintf("- %q = %q, want %q", t, string(got), want))
		}
		// Char operands (valid code points only)
		rs := []rune(t)
		if utf8.ValidString(t) && len(rs) > 0 {
			ch := rs[len(rs)-1]
			if lr, _ := utf8.DecodeLastRuneInString(s); r.IntN(2) == 0 && utf8.ValidString(s) && len(s) > 0 {
				ch = lr
			}
			got, err = S.Concat(value.Char(ch).ToValue())
			if !err.IsUndefined() || string(got) != s+string(ch) {
				viol("concat-char", fmt.Sprintf("+ %q = %q", ch, string(got)))
			}
			got, err = S.RemoveSuffix(value.Char(ch).ToValue())
			want := s
			if utf8.ValidString(s) {
				want = strings.TrimSuffix(s, string(ch))
				if !err.IsUndefined() || string(got) != want {
					viol("remove_suffix-char", fmt.Sprintf("- %q = %q, want %q", ch, string(got), want))
				}
			}
		}
		for _, n := range []int{0, 1, 2, 5} {
			got, err = S.Repeat(value.SmallInt(n).ToValue())
			if !err.IsUndefined() || string(got) != strings.Repeat(s, n) {
				viol("repeat", fmt.Sprintf("* %d = %q", n, string(got)))
			}
		}
		if _, err = S.Repeat(value.SmallInt(-1).ToValue()); err.IsUndefined() {
			viol("repeat-negative", "* -1 did not raise an error")
		}
		c.Eval(8)
	}); p != "" {
		viol("operator-panic", p)
	}
	// ---- case mapping (valid strings: simple per-code-point mapping)
	if utf8.ValidString(s) {
		if p := guard(func() {
			up, lo := string(S.Uppercase()), string(S.Lowercase())
			if want := strings.Map(unicode.ToUpper, s); up != want && up != strings.ToUpper(s) {
				viol("uppercase", fmt.Sprintf("uppercase = %q, want %q", up, want))
			}
			if want := strings.Map(unicode.ToLower, s); lo != want && lo != strings.ToLower(s) {
				viol("lowercase", fmt.Sprintf("lowercase = %q, want %q", lo, want))
			}
			c.Eval(2)
		}); p != "" {
			viol("case-panic", p)
		}
	}
	// ---- comparison consistency with t
	if p := guard(func() {
		T := value.String(t)
		cmp := int(S.CompareString(T))
		rev := int(T.CompareString(S))
		eq := S.Equal(T.ToValue())
		if (cmp == 0) != (s == t) || eq != (s == t) {
			viol("compare-equality", fmt.Sprintf("vs %q: <=> %d, == %v, bytes equal %v", t, cmp, eq, s == t))
		}
		if sign(cmp) != -sign(rev) {
			viol("compare-antisymmetry", fmt.Sprintf("vs %q: <=> %d but reversed %d", t, cmp, rev))
		}
		if S.LessThanString(T) != (cmp < 0) || S.LessThanEqualString(T) != (cmp <= 0) || S.GreaterThanString(T) != (cmp > 0) || S.GreaterThanEqualString(T) != (cmp >= 0) {
			viol("compare-operators", fmt.Sprintf("vs %q: <=> %d disagrees with < <= > >=", t, cmp))
		}
		c.Eval(6)
	}); p != "" {
		viol("compare-panic", p)
	}
	c.Distinct(class + "|len" + fmt.Sprint(cc))
}

func sign(x int) int {
	switch {
	case x < 0:
		return -1
	case x > 0:
		return 1
	}
	return 0
}

// Elk-level: the native wrappers in vm/string.go, on valid strings written as literals.
func c20ElkCase(c *Ctx, caseIdx int, r *rand.Rand) {
	p := &seqProg{}
	for k := 0; k < 12; k++ {
		s := genStr(r)
		if !utf8.ValidString(s) || strings.ContainsAny(s, "\x00") {
			continue
		}
		lit := value.String(s).Inspect()
		v := p.fresh("s")
		fmt.Fprintf(&p.sb, "%s := %s\n", v, lit)
		cc := utf8.RuneCountInString(s)
		rs := []rune(s)
		gs := uniseg.NewGraphemes(s)
		var gl []string
		for gs.Next() {
			gl = append(gl, gs.Str())
		}
		p.probeExpr(v+".length", fmt.Sprint(cc), "length", "elk:length")
		p.probeExpr(v+".byte_count", fmt.Sprint(len(s)), "byte_count", "elk:byte_count")
		p.probeExpr(v+".grapheme_count", fmt.Sprint(len(gl)), "grapheme_count", "elk:grapheme_count")
		idx := r.IntN(2*cc+5) - cc - 2
		lit2 := fmt.Sprintf("(%d)", idx)
		j := idx
		if j < 0 {
			j += cc
		}
		want := oor
		if j >= 0 && j < cc {
			want = value.Char(rs[j]).Inspect()
		}
		p.probeExpr(fmt.Sprintf("%s.char_at%s", v, lit2), want, "char_at", "elk:char_at")
		bi := r.IntN(2*len(s)+5) - len(s) - 2
		bj := bi
		if bj < 0 {
			bj += len(s)
		}
		want = oor
		if bj >= 0 && bj < len(s) {
			want = fmt.Sprintf("%du8", s[bj])
		}
		p.probeExpr(fmt.Sprintf("%s.byte_at(%d)", v, bi), want, "byte_at", "elk:byte_at")
		gi := r.IntN(2*len(gl)+5) - len(gl) - 2
		gj := gi
		if gj < 0 {
			gj += len(gl)
		}
		want = oor
		if gj >= 0 && gj < len(gl) {
			want = value.String(gl[gj]).Inspect()
		}
		p.probeExpr(fmt.Sprintf("%s.grapheme_at(%d)", v, gi), want, "grapheme_at", "elk:grapheme_at")
		target := cc + r.IntN(5) - 1
		padded := s
		if target > cc {
			padded = strings.Repeat("é", target-cc) + s
		}
		p.probeExpr(fmt.Sprintf("%s.rjust(%d, `é`)", v, target), value.String(padded).Inspect(), "rjust", "elk:rjust")
		n := r.IntN(4)
		p.probeExpr(fmt.Sprintf("%s * %d", v, n), value.String(strings.Repeat(s, n)).Inspect(), "repeat", "elk:repeat")
		cnt := p.fresh("n")
		fmt.Fprintf(&p.sb, "%s := 0\nfor ch in %s\n  %s += 1\nend\n", cnt, v, cnt)
		p.probeExpr(cnt, fmt.Sprint(cc), "chars yielded by for-in", "elk:iter")
	}
	for k := range p.probes {
		p.probes[k].want = strings.TrimSpace(p.probes[k].want)
	}
	runProbeProgramNorm(c, caseIdx, p.sb.String(), p.probes, func(k int, got string) string { return strings.TrimSpace(got) })
}

func init() {
	register(&Check{
		ID: "C20",
		Rule: "strings concatenated from ASCII, 2/3/4-byte, combining sequences, ZWJ emoji, regional indicators, Hangul jamo, invalid bytes, truncated and overlong encodings; per string: counts vs iterators vs models, char_at/byte_at/grapheme_at at every index in [-n-2, n+1], rjust/ljust at lengths around code-point and byte length, + - * with String and Char operands, case mapping, comparison consistency; Elk-level probes of the native wrappers on valid strings; " +
			"distinct = (content class, code-point length) cells",
		NumCases: func(tier string) int {
			if tier == "thorough" {
				return 1_000_000 + 3000
			}
			return 40_000 + 150
		},
		Case: func(c *Ctx, i int, r *rand.Rand) {
			elk := 150
			if c.Tier == "thorough" {
				elk = 3000
			}
			if i >= c.Check.NumCases(c.Tier)-elk {
				c20ElkCase(c, i, r)
				return
			}
			s := genStr(r)
			if i%9000 == 0 {
				c.Sample(fmt.Sprintf("%q", s))
			}
			c20Check(c, i, s, r)
		},
		MinCounters: map[string]int64{"strings_invalid-utf8": 1000, "strings_multi-codepoint-graphemes": 1000, "out_of_range_indexes": 10000, "probes": 1000},
		Assumptions: []string{"grapheme segmentation is checked for internal consistency only (elk and the monitor use the same library)", "char_at on invalid UTF-8 is compared for error behaviour only", "comparison: consistency laws and equality with byte equality; ordering itself is not prescribed"},
	})
}
