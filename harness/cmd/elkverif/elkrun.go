package main

// In-process execution of Elk programs through the real checker, bytecode compiler and VM.

import (
	"context"
	"fmt"
	"os"
	"runtime/debug"
	"strings"
	"sync"
	"sync/atomic"
	"time"

	"github.com/elk-language/elk"
	"github.com/elk-language/elk/env"
	"github.com/elk-language/elk/position/diagnostic"
	"github.com/elk-language/elk/types/checker"
	"github.com/elk-language/elk/value"
	"github.com/elk-language/elk/vm"
)

func init() {
	env.ELKPATH = "/repo"
	if p := os.Getenv("VERIF_ELKPATH"); p != "" {
		env.ELKPATH = p
	}
}

// A program may return while tasks it started but never awaited are still running on its pool. The real
// `elk run` process would exit at that point; in-process the stragglers would race with the next case's
// elk.InitGlobalEnvironment() (a harness artefact, not a defect). The verif async hook counts tasks in flight
// and RunElk waits (bounded, no verdict depends on it) until the pool is quiet.
var poolBusy atomic.Int64
var poolDequeues, poolDequeuesSeen atomic.Int64

func baseAsyncHook(point string, _ *vm.Promise, _ *vm.Promise, _ *vm.Thread) {
	switch point {
	case "worker:dequeue":
		poolBusy.Add(1)
		poolDequeues.Add(1)
	case "worker:done":
		poolBusy.Add(-1)
	}
}

func init() { vm.VerifAsyncHook = baseAsyncHook }

func waitPoolQuiet(pools ...*vm.ThreadPool) {
	// quiet = no task in flight and none still queued (a task that was started but never awaited may not even have been
	// dequeued when the program returns), observed on three consecutive looks one millisecond apart
	pools = append(pools, vm.DefaultThreadPool)
	queued := false
	for _, tp := range pools {
		if tp != nil && len(tp.TaskQueue) > 0 {
			queued = true
		}
	}
	if !queued && poolBusy.Load() == 0 && poolDequeues.Load() == poolDequeuesSeen.Load() {
		return // no pool task ran or was queued since the last look: nothing can straggle
	}
	defer func() { poolDequeuesSeen.Store(poolDequeues.Load()) }()
	quiet := 0
	for i := 0; i < 60000 && quiet < 3; i++ { // up to a minute: on a loaded machine a runnable worker may not be scheduled for seconds
		busy := poolBusy.Load() > 0
		for _, tp := range pools {
			if tp != nil && len(tp.TaskQueue) > 0 {
				busy = true
			}
		}
		if busy {
			quiet = 0
		} else {
			quiet++
		}
		time.Sleep(time.Millisecond)
	}
	if poolBusy.Load() != 0 {
		poolBusy.Store(0) // a task that never finishes must not slow every later case down
	}
}

type syncBuf struct {
	mu sync.Mutex
	b  strings.Builder
}

func (s *syncBuf) Write(p []byte) (int, error) {
	s.mu.Lock()
	defer s.mu.Unlock()
	return s.b.Write(p)
}
func (s *syncBuf) String() string {
	s.mu.Lock()
	defer s.mu.Unlock()
	return s.b.String()
}

// ElkResult is what one in-process run of a program produced.
type ElkResult struct {
	Diagnostics diagnostic.DiagnosticList
	Rejected    bool // checker reported failure
	Stdout      string
	Stderr      string
	Result      value.Value
	Err         value.Value // runtime error (undefined if none)
	ErrInspect  string
	Trace       string // printed uncaught error report (stack trace + error)
	Panic       string // Go panic message recovered while checking or running ("" if none)
	PanicStack  string
	PanicPhase  string // "check" | "run"
	Chunk       *vm.BytecodeFunction
	Thread      *vm.Thread     // only with KeepThread
	Pool        *vm.ThreadPool // only with KeepThread; caller closes
}

type ElkOpts struct {
	Threads, Queue int // thread pool (default 2, 50)
	Ctx            context.Context
	NoReset        bool
	KeepThread     bool // keep the VM thread and pool alive for later dynamic calls
	Checker        *checker.Checker
}

func diagString(dl diagnostic.DiagnosticList) string {
	var sb strings.Builder
	for _, d := range dl {
		fmt.Fprintf(&sb, "%s\n", d.String())
	}
	return sb.String()
}

// RunElk resets the global environment, type checks, compiles and runs source.
func RunElk(source string, o *ElkOpts) (res *ElkResult) {
	res = &ElkResult{Result: value.Undefined, Err: value.Undefined}
	if o == nil {
		o = &ElkOpts{}
	}
	if !o.NoReset {
		elk.InitGlobalEnvironment()
	}
	phase := "check"
	defer func() {
		if r := recover(); r != nil {
			res.Panic = fmt.Sprint(r)
			res.PanicStack = string(debug.Stack())
			res.PanicPhase = phase
		}
	}()
	tc := o.Checker
	if tc == nil {
		tc = checker.New()
	}
	chunk, diags := tc.CheckSourceBytecode("main.elk", source)
	res.Diagnostics = diags
	if diags.IsFailure() {
		res.Rejected = true
		return res
	}
	res.Chunk = chunk
	phase = "run"
	stdout, stderr := &syncBuf{}, &syncBuf{}
	ctx := o.Ctx
	if ctx == nil {
		ctx = context.Background()
	}
	aborter := value.NewAborter(ctx, nil)
	th, q := o.Threads, o.Queue
	if th == 0 {
		th = 2
	}
	if q == 0 {
		q = 50
	}
	tp := vm.NewThreadPool(th, q, vm.WithStdout(stdout), vm.WithStderr(stderr), vm.WithAborter(aborter))
	if o.KeepThread {
		res.Pool = tp
	} else {
		defer func() {
			tp.Close()
			waitPoolQuiet(tp)
		}()
	}
	v := vm.New(vm.WithStdout(stdout), vm.WithStderr(stderr), vm.WithThreadPool(tp), vm.WithAborter(aborter))
	defer func() {
		res.Stdout = stdout.String()
		res.Stderr = stderr.String()
	}()
	if o.KeepThread {
		res.Thread = v
	}
	r, e := v.InterpretTopLevel(chunk)
	res.Result, res.Err = r, e
	if !e.IsUndefined() {
		res.ErrInspect = e.Inspect()
		var sb strings.Builder
		vm.PrintError(&sb, v.ErrStackTrace(), e)
		res.Trace = sb.String()
	}
	return res
}

func init() {
	subcommands["elk"] = func(args []string) {
		b, err := os.ReadFile(args[0])
		if err != nil {
			panic(err)
		}
		r := RunElk(string(b), nil)
		fmt.Print(diagString(r.Diagnostics))
		fmt.Print(r.Stdout)
		fmt.Fprint(os.Stderr, r.Stderr)
		if r.Panic != "" {
			fmt.Printf("PANIC(%s): %s\n%s\n", r.PanicPhase, r.Panic, r.PanicStack)
		}
		if !r.Err.IsUndefined() {
			fmt.Print(r.Trace)
		} else if !r.Result.IsUndefined() {
			fmt.Println("=>", r.Result.Inspect())
		}
	}
}

func init() {
	subcommands["dis"] = func(args []string) {
		b, _ := os.ReadFile(args[0])
		elk.InitGlobalEnvironment()
		tc := checker.New()
		chunk, diags := tc.CheckSourceBytecode("main.elk", string(b))
		fmt.Print(diagString(diags))
		if chunk != nil {
			var walk func(f *vm.BytecodeFunction)
			walk = func(f *vm.BytecodeFunction) {
				f.DisassembleStdout()
				for _, v := range f.Values {
					if g, ok := v.SafeAsReference().(*vm.BytecodeFunction); ok {
						walk(g)
					}
				}
			}
			walk(chunk)
		}
	}
}

func init() {
	// elkout <file>: run a program, print stdout, then "PANIC"/"ERROR <inspect>" markers on abnormal ends
	subcommands["elkout"] = func(args []string) {
		b, err := os.ReadFile(args[0])
		if err != nil {
			panic(err)
		}
		r := RunElk(string(b), nil)
		fmt.Print(r.Stdout)
		switch {
		case r.Rejected:
			fmt.Println("REJECTED")
		case r.Panic != "":
			fmt.Println("PANIC")
		case !r.Err.IsUndefined():
			fmt.Println("ERROR " + r.ErrInspect)
		}
	}
}
