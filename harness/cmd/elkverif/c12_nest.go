package main

// C12 base-program generator "closure nests": methods with up to three levels of nested closures over Int locals.
// Every level declares locals, inner closures read (and sometimes write) a random subset of all lexically visible
// variables in random order; results are weighted sums, so that aliasing two variables changes the printed value.
// "maker" methods return one of their closures, which is called after the frame is gone and after another call
// (`noise`) has reused the stack. The programs are edited on the text level (c12_text.go).

import (
	"fmt"
	"math/rand/v2"
	"strings"
)

type nestGen struct {
	r    *rand.Rand
	next int
}

func (g *nestGen) fresh(p string) string { g.next++; return fmt.Sprintf("%s%d", p, g.next) }

// sum is a weighted sum over a random non-empty subset of vars, in random order.
func (g *nestGen) sum(vars []string, extra []string) string {
	r := g.r
	all := append(append([]string{}, vars...), extra...)
	r.Shuffle(len(all), func(i, j int) { all[i], all[j] = all[j], all[i] })
	n := 1 + r.IntN(len(all))
	if n > 4 {
		n = 4
	}
	parts := make([]string, 0, n+1)
	for _, v := range all[:n] {
		parts = append(parts, fmt.Sprintf("%s * %d", v, []int{1, 3, 7, 10, 100, 1000, 13}[r.IntN(7)]))
	}
	if r.IntN(3) == 0 {
		parts = append(parts, fmt.Sprint(r.IntN(9)))
	}
	return strings.Join(parts, " + ")
}

// body emits the statements of one level and returns the result expression.
func (g *nestGen) body(sb *strings.Builder, ind string, level int, visible []string, wantClosure bool) (result string, closures []string) {
	r := g.r
	var locals []string
	nl := 1 + r.IntN(3)
	for i := 0; i < nl; i++ {
		v := g.fresh("v")
		if len(visible)+len(locals) > 0 && r.IntN(3) != 0 {
			fmt.Fprintf(sb, "%s%s := %s\n", ind, v, g.sum(append(append([]string{}, visible...), locals...), nil))
		} else {
			fmt.Fprintf(sb, "%s%s := %d\n", ind, v, 1+r.IntN(9))
		}
		locals = append(locals, v)
	}
	vis := append(append([]string{}, visible...), locals...)
	var calls []string
	nc := 0
	if level < 3 {
		nc = r.IntN(3)
		if wantClosure && nc == 0 {
			nc = 1
		}
		if level == 1 && nc == 0 && r.IntN(3) != 0 {
			nc = 1
		}
	}
	for i := 0; i < nc; i++ {
		c := g.fresh("c")
		param := ""
		inner := vis
		if r.IntN(3) == 0 {
			p := g.fresh("q")
			param = p + ": Int"
			inner = append(append([]string{}, vis...), p)
		}
		if level+1 >= 3 && r.IntN(2) == 0 {
			// one-line leaf closure
			fmt.Fprintf(sb, "%s%s := |%s|: Int -> %s\n", ind, c, param, g.sum(inner, nil))
		} else {
			fmt.Fprintf(sb, "%s%s := |%s|: Int -> do\n", ind, c, param)
			if r.IntN(4) == 0 && len(vis) > 0 {
				w := vis[r.IntN(len(vis))]
				fmt.Fprintf(sb, "%s  %s += %d\n", ind, w, 1+r.IntN(5))
			}
			res, _ := g.body(sb, ind+"  ", level+1, inner, false)
			fmt.Fprintf(sb, "%s  %s\n", ind, res)
			fmt.Fprintf(sb, "%send\n", ind)
		}
		closures = append(closures, c)
		arg := ""
		if param != "" {
			arg = fmt.Sprint(1 + r.IntN(5))
		}
		calls = append(calls, fmt.Sprintf("%s(%s)", c, arg))
		// sometimes a local declared AFTER a closure (higher slot than the closure variable)
		if r.IntN(3) == 0 {
			v := g.fresh("v")
			fmt.Fprintf(sb, "%s%s := %s\n", ind, v, g.sum(vis, nil))
			vis = append(vis, v)
			locals = append(locals, v)
		}
	}
	if wantClosure {
		return "", closures
	}
	return g.sum(locals, calls), closures
}

func genClosureNest(r *rand.Rand) string {
	g := &nestGen{r: r}
	var sb strings.Builder
	sb.WriteString("def noise(a: Int, b: Int, c: Int, d: Int): Int\n  e := a + b\n  g := c + d\n  e + g\nend\n")
	var main strings.Builder
	nm := 1 + r.IntN(3)
	for i := 0; i < nm; i++ {
		if r.IntN(2) == 0 {
			name := g.fresh("run")
			p := g.fresh("p")
			fmt.Fprintf(&sb, "def %s(%s: Int): Int\n", name, p)
			res, _ := g.body(&sb, "  ", 1, []string{p}, false)
			fmt.Fprintf(&sb, "  %s\nend\n", res)
			fmt.Fprintf(&main, "println %s(%d).inspect\n", name, 1+r.IntN(5))
		} else {
			name := g.fresh("make")
			p := g.fresh("p")
			fmt.Fprintf(&sb, "def %s(%s: Int): ||: Int\n", name, p)
			// makers return a parameterless closure: generate until one exists
			var body strings.Builder
			var ret string
			for try := 0; try < 20 && ret == ""; try++ {
				body.Reset()
				save := g.next
				_, cs := g.body(&body, "  ", 1, []string{p}, true)
				for _, c := range cs {
					if strings.Contains(body.String(), c+" := ||: Int") {
						ret = c
					}
				}
				if ret == "" {
					g.next = save
				}
			}
			if ret == "" {
				body.Reset()
				body.WriteString("  k := ||: Int -> " + p + "\n")
				ret = "k"
			}
			sb.WriteString(body.String())
			fmt.Fprintf(&sb, "  %s\nend\n", ret)
			h := g.fresh("h")
			fmt.Fprintf(&main, "%s := %s(%d)\nnoise(100, 200, 300, 400)\nprintln %s().inspect\n", h, name, 1+r.IntN(5), h)
			if r.IntN(2) == 0 {
				fmt.Fprintf(&main, "println %s().inspect\n", h)
			}
		}
	}
	// a top-level nest as well (top-level locals are captured by top-level closures)
	if r.IntN(2) == 0 {
		res, _ := g.body(&main, "", 1, nil, false)
		fmt.Fprintf(&main, "println((%s).inspect)\n", res)
	}
	return sb.String() + main.String()
}

func init() {
	subcommands["c12nest"] = func(args []string) {
		var seed uint64 = 1
		if len(args) > 0 {
			fmt.Sscan(args[0], &seed)
		}
		fmt.Print(genClosureNest(rand.New(rand.NewPCG(seed, 12))))
	}
}
