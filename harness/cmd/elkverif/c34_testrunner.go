package main

// C34 — `elk test` runs exactly the selected cases and reports failures.
//
// Runtime monitor with a reference model. Each case generates a suite tree spread over one to three
// `*.elk.test` files (describe/context nesting, should/test/it cases with unique names, optional
// before_all/before_each/after_each/after_all hooks), every case prints a unique marker `RAN <id>` and
// then passes, fails an assertion or throws. A random filter set (regex filters, `--path glob[:line]`
// filters with the line on a case, on a describe line, in a gap or outside) is drawn. The Go model
// computes the set of selected cases (a case is selected iff it satisfies EVERY filter), the expected
// outcome of each and the expected exit status. The real runner is executed in-process through the same
// calls as cmd/elk/main.go (test.RegisterFilter, checker.CheckFile, InterpretTopLevel, test.RunWith with
// the real PlainReporter) and, for a sample of cases, through the real `elk test` binary built from the
// worktree (process exit status, Summary line, run log).

import (
	"bytes"
	"context"
	"fmt"
	"math/rand/v2"
	"os"
	"os/exec"
	"path"
	"path/filepath"
	"regexp"
	"sort"
	"strconv"
	"strings"
	"syscall"
	"time"

	"github.com/elk-language/elk"
	"github.com/elk-language/elk/bitfield"
	"github.com/elk-language/elk/ext"
	elktest "github.com/elk-language/elk/ext/std/test"
	"github.com/elk-language/elk/types/checker"
	"github.com/elk-language/elk/value"
	"github.com/elk-language/elk/vm"
	"github.com/fatih/color"
)

// ---- suite tree ---------------------------------------------------------------------------------

const (
	c34Pass = iota
	c34Fail
	c34Error
)

type c34Hook struct {
	kind      string // before_all | before_each | after_each | after_all
	id        int
	outcome   int
	startLine int
	endLine   int
}

type c34Node struct {
	isCase   bool
	kw       string // describe|context / should|test|it
	word     string
	id       int
	outcome  int // cases
	oneLine  bool
	filler   int // extra body lines
	hooks    []*c34Hook
	children []*c34Node // suites: cases and sub-suites in source order
	parent   *c34Node
	file     *c34File
	start    int // line of the `describe …, ->` / `should …, ->`
	end      int // line of the closing `end`
	gapLines []int
}

type c34File struct {
	path  string // slash path relative to the case directory
	items []*c34Node
	lines []string
	gaps  []int // lines outside every describe/case (header, blank)
}

type c34Tree struct {
	files   []*c34File
	cases   []*c34Node
	suites  []*c34Node
	hooks   []*c34Hook
	withLog bool
	mainSrc string
	main    string
}

func (n *c34Node) name() string {
	if n.isCase {
		return fmt.Sprintf("%s k%d", n.word, n.id)
	}
	return fmt.Sprintf("%s s%d", n.word, n.id)
}

// displayName is the name a case is registered under (`should x` / `it x` / `x`).
func (n *c34Node) displayName() string {
	switch n.kw {
	case "should":
		return "should " + n.name()
	case "it":
		return "it " + n.name()
	}
	return n.name()
}

func (n *c34Node) ancestors() []*c34Node { // outermost first
	var a []*c34Node
	for p := n.parent; p != nil; p = p.parent {
		a = append([]*c34Node{p}, a...)
	}
	return a
}

func (n *c34Node) depth() int { return len(n.ancestors()) }

// fullName is the documented-by-output rendering: suite path and case name joined with " > ".
func (n *c34Node) fullName() string {
	var parts []string
	for _, a := range n.ancestors() {
		parts = append(parts, a.name())
	}
	if n.isCase {
		parts = append(parts, n.displayName())
	} else {
		parts = append(parts, n.name())
	}
	return strings.Join(parts, " > ")
}

var c34SuiteWords = []string{"Parser", "Lexer", "Stack", "Queue", "when empty", "with nil", "Range", "bounds", "Cache"}
var c34CaseWords = []string{"adds", "removes", "returns nil", "throws", "is empty", "keeps order", "parses", "adds twice"}

type c34Gen struct {
	r      *rand.Rand
	t      *c34Tree
	nextID int
	hookID int
	hooky  bool
	budget int
}

func (g *c34Gen) newCase(parent *c34Node, f *c34File) *c34Node {
	g.nextID++
	n := &c34Node{isCase: true, kw: []string{"should", "test", "it"}[g.r.IntN(3)], word: c34CaseWords[g.r.IntN(len(c34CaseWords))],
		id: g.nextID, parent: parent, file: f}
	switch x := g.r.IntN(10); {
	case x < 6:
		n.outcome = c34Pass
	case x < 8:
		n.outcome = c34Fail
	default:
		n.outcome = c34Error
	}
	if n.outcome == c34Pass && g.r.IntN(8) == 0 {
		n.oneLine = true
	}
	n.filler = g.r.IntN(3)
	g.t.cases = append(g.t.cases, n)
	g.budget--
	return n
}

func (g *c34Gen) newSuite(parent *c34Node, f *c34File, depth int) *c34Node {
	g.nextID++
	kw := "describe"
	if depth > 0 && g.r.IntN(3) > 0 {
		kw = "context"
	}
	n := &c34Node{kw: kw, word: c34SuiteWords[g.r.IntN(len(c34SuiteWords))], id: g.nextID, parent: parent, file: f}
	g.t.suites = append(g.t.suites, n)
	if g.hooky {
		for _, k := range []string{"before_all", "before_each", "after_each", "after_all"} {
			if g.r.IntN(4) == 0 {
				g.hookID++
				h := &c34Hook{kind: k, id: g.hookID}
				n.hooks = append(n.hooks, h)
				g.t.hooks = append(g.t.hooks, h)
			}
		}
	}
	nchild := 1 + g.r.IntN(4)
	for i := 0; i < nchild && g.budget > 0; i++ {
		if depth < 3 && g.r.IntN(3) == 0 {
			n.children = append(n.children, g.newSuite(n, f, depth+1))
		} else {
			n.children = append(n.children, g.newCase(n, f))
		}
	}
	if g.r.IntN(12) == 0 { // an empty nested suite now and then
		n.children = append(n.children, &c34Node{kw: "context", word: "hollow", id: g.nextID + 1000, parent: n, file: f})
	}
	return n
}

func c34GenTree(r *rand.Rand, withLog bool) *c34Tree {
	t := &c34Tree{withLog: withLog, main: "main.elk.test"}
	g := &c34Gen{r: r, t: t, hooky: r.IntN(3) == 0, budget: 6 + r.IntN(14)}
	paths := []string{"a.elk.test", "b_spec.elk.test", "sub/c.elk.test"}
	nf := 1
	if x := r.IntN(10); x >= 8 {
		nf = 3
	} else if x >= 5 {
		nf = 2
	}
	if nf == 2 && r.IntN(2) == 0 {
		paths = []string{"a.elk.test", "sub/c.elk.test"}
	}
	for i := 0; i < nf; i++ {
		f := &c34File{path: paths[i]}
		nitems := 1 + r.IntN(3)
		for j := 0; j < nitems; j++ {
			if r.IntN(7) == 0 {
				f.items = append(f.items, g.newCase(nil, f))
			} else {
				f.items = append(f.items, g.newSuite(nil, f, 0))
			}
			if g.budget <= 0 {
				g.budget = 2
			}
		}
		t.files = append(t.files, f)
	}
	// failing hooks are rare: at most one per tree
	if len(t.hooks) > 0 && r.IntN(3) == 0 {
		h := t.hooks[r.IntN(len(t.hooks))]
		h.outcome = c34Fail + r.IntN(2)
	}
	for _, f := range t.files {
		c34Render(r, t, f)
	}
	var sb strings.Builder
	sb.WriteString("import \"std/test\"\n")
	if nf > 1 && r.IntN(4) == 0 {
		sb.WriteString("import \"./**/*.elk.test\"\n")
	} else {
		for _, f := range t.files {
			fmt.Fprintf(&sb, "import \"./%s\"\n", f.path)
		}
	}
	if withLog {
		sb.WriteString("using Std::Test::*\n\nmodule ::RanLog\n\tconst L: ArrayList[Int] = [0]\nend\n\nafter_all() ->\n\tprintln \"RANLOG #{::RanLog::L.inspect}\"\nend\n")
	}
	t.mainSrc = sb.String()
	return t
}

func c34Outcome(o int, r *rand.Rand, ind string) string {
	switch o {
	case c34Fail:
		return ind + []string{"assert! 1 == 2", "assert_equal 1, 2", "assert! false", "assert_nil 3"}[r.IntN(4)]
	case c34Error:
		return ind + []string{"throw :boom", "throw unchecked Error(\"boom\")", "zero := 0\n" + ind + "println 1 / zero"}[r.IntN(3)]
	}
	return ind + []string{"assert! 1 == 1", "assert_equal 2, 2", "assert! true", "x := 1"}[r.IntN(4)]
}

func c34Render(r *rand.Rand, t *c34Tree, f *c34File) {
	var lines []string
	emit := func(s string) int {
		for _, l := range strings.Split(s, "\n") {
			lines = append(lines, l)
		}
		return len(lines)
	}
	gap := func(owner *c34Node) {
		switch r.IntN(3) {
		case 0:
			ln := emit("")
			if owner != nil {
				owner.gapLines = append(owner.gapLines, ln)
			} else {
				f.gaps = append(f.gaps, ln)
			}
		case 1:
			ln := emit("# note")
			if owner != nil {
				owner.gapLines = append(owner.gapLines, ln)
			} else {
				f.gaps = append(f.gaps, ln)
			}
		}
	}
	f.gaps = append(f.gaps, emit("using Std::Test::Assertions::*"))
	f.gaps = append(f.gaps, emit("using Std::Test::*"))
	f.gaps = append(f.gaps, emit(""))
	var rec func(n *c34Node, depth int)
	rec = func(n *c34Node, depth int) {
		ind := strings.Repeat("\t", depth)
		if n.isCase {
			mark := fmt.Sprintf("println \"RAN %d\"", n.id)
			if t.withLog {
				mark += fmt.Sprintf("; ::RanLog::L << %d", n.id)
			}
			if n.oneLine && !t.withLog {
				n.start = emit(fmt.Sprintf("%s%s \"%s\", -> %s", ind, n.kw, n.name(), mark))
				n.end = n.start
				return
			}
			n.oneLine = false
			n.start = emit(fmt.Sprintf("%s%s \"%s\", ->", ind, n.kw, n.name()))
			emit(ind + "\t" + mark)
			for i := 0; i < n.filler; i++ {
				emit(fmt.Sprintf("%s\tv%d := %d", ind, i, i))
			}
			emit(c34Outcome(n.outcome, r, ind+"\t"))
			n.end = emit(ind + "end")
			return
		}
		n.start = emit(fmt.Sprintf("%s%s \"%s\", ->", ind, n.kw, n.name()))
		for _, h := range n.hooks {
			closeTok := "end"
			if r.IntN(2) == 0 {
				h.startLine = emit(fmt.Sprintf("%s\t%s(|| ->", ind, h.kind))
				closeTok = "end)"
			} else {
				h.startLine = emit(fmt.Sprintf("%s\t%s() ->", ind, h.kind))
			}
			emit(fmt.Sprintf("%s\t\tprintln \"HOOK %d\"", ind, h.id))
			if h.outcome != c34Pass {
				emit(c34Outcome(h.outcome, r, ind+"\t\t"))
			}
			h.endLine = emit(ind + "\t" + closeTok)
		}
		for _, ch := range n.children {
			gap(n)
			rec(ch, depth+1)
		}
		gap(n)
		n.end = emit(ind + "end")
	}
	for _, it := range f.items {
		rec(it, 0)
		gap(nil)
	}
	f.lines = lines
}

func (f *c34File) source() string { return strings.Join(f.lines, "\n") + "\n" }

// ---- filters --------------------------------------------------------------------------------------

type c34Filter struct {
	grep  string // regex source ("" for a path filter)
	re    *regexp.Regexp
	glob  string
	line  int // -1: none
	label string
}

func (f *c34Filter) arg() string {
	if f.line < 0 {
		return f.glob
	}
	return fmt.Sprintf("%s:%d", f.glob, f.line)
}

// c34GlobMatch: tiny independent matcher for the glob forms the generator uses
// (`**` as a whole segment = any number of directories, otherwise path.Match per segment).
func c34GlobMatch(pattern, name string) bool {
	ps, ns := strings.Split(pattern, "/"), strings.Split(name, "/")
	var m func(i, j int) bool
	m = func(i, j int) bool {
		if i == len(ps) {
			return j == len(ns)
		}
		if ps[i] == "**" {
			for k := j; k <= len(ns); k++ {
				if m(i+1, k) {
					return true
				}
			}
			return false
		}
		if j == len(ns) {
			return false
		}
		ok, _ := path.Match(ps[i], ns[j])
		return ok && m(i+1, j+1)
	}
	return m(0, 0)
}

// c34GenGrep draws a regex filter; with a target case most patterns are derived from the target's own names
// (so that combinations of filters keep selecting something).
func c34GenGrep(r *rand.Rand, t *c34Tree, target *c34Node) *c34Filter {
	cs := target
	if cs == nil {
		cs = t.cases[r.IntN(len(t.cases))]
	}
	anc := cs.ancestors()
	var pat string
	switch r.IntN(13) {
	case 0:
		pat = cs.word
	case 1:
		if len(anc) > 0 {
			pat = anc[r.IntN(len(anc))].word
		} else {
			pat = c34SuiteWords[r.IntN(len(c34SuiteWords))]
		}
	case 2:
		pat = fmt.Sprintf("k%d$", cs.id)
	case 3:
		pat = fmt.Sprintf("k%d", cs.id)
	case 4:
		if len(anc) > 0 {
			pat = fmt.Sprintf("s%d > ", anc[r.IntN(len(anc))].id)
		} else {
			pat = "k\\d+$"
		}
	case 5:
		pat = "^" + cs.fullName() + "$"
	case 6:
		if len(anc) > 0 {
			pat = "^" + anc[0].name() + " > "
		} else {
			pat = "^" + cs.displayName()
		}
	case 7:
		switch cs.kw {
		case "should":
			pat = []string{"should ", " > should [a-z]+", "^should |> should "}[r.IntN(3)]
		case "it":
			pat = []string{"> it |^it ", "(^| )it [a-z]"}[r.IntN(2)]
		default:
			pat = "> [a-z ]+ k\\d+$|^[a-z ]+ k\\d+$"
		}
	case 8:
		o := t.cases[r.IntN(len(t.cases))]
		pat = fmt.Sprintf("k%d$|k%d$", cs.id, o.id)
	case 9:
		pat = []string{"nomatch_zz", "^$", "k\\d+ $"}[r.IntN(3)]
	case 10:
		pat = []string{".", "k\\d+", "^.*$", " "}[r.IntN(4)]
	case 11:
		// the whole path of the target written out, unanchored
		pat = cs.fullName()
	default:
		if len(anc) >= 2 {
			pat = anc[len(anc)-2].name() + " > " + anc[len(anc)-1].name()
		} else if len(anc) == 1 {
			pat = anc[0].name() + " > " + cs.displayName()
		} else {
			pat = cs.name()
		}
	}
	return &c34Filter{grep: pat, re: regexp.MustCompile(pat), line: -1, label: "grep"}
}

// c34GenPath draws a --path filter; with a target case the glob matches the target's file and the line is
// mostly inside the target or on the first line of one of its enclosing suites.
func c34GenPath(r *rand.Rand, t *c34Tree, target *c34Node) *c34Filter {
	f := t.files[r.IntN(len(t.files))]
	if target != nil {
		f = target.file
	}
	flt := &c34Filter{line: -1}
	switch r.IntN(8) {
	case 0:
		flt.glob = "**/*.elk.test"
	case 1:
		flt.glob = "**/" + path.Base(f.path)
	case 2:
		flt.glob = "*.elk.test"
	case 3:
		flt.glob = path.Join(path.Dir(f.path), "*.elk.test")
	case 4:
		flt.glob = "nothere.elk.test"
	default:
		flt.glob = f.path
	}
	if target != nil && !c34GlobMatch(flt.glob, f.path) {
		flt.glob = f.path
	}
	var matched []*c34File
	for _, g := range t.files {
		if c34GlobMatch(flt.glob, g.path) {
			matched = append(matched, g)
		}
	}
	if len(matched) == 0 {
		if r.IntN(2) == 0 {
			flt.line = 1 + r.IntN(len(f.lines))
		}
		flt.label = "pathnofile"
		return flt
	}
	// the line (if any) is chosen relative to one of the matched files
	if target == nil {
		f = matched[r.IntN(len(matched))]
	}
	multi := ""
	if len(matched) > 1 {
		multi = "*"
	}
	var cases, suites []*c34Node
	for _, c := range t.cases {
		if c.file == f {
			cases = append(cases, c)
		}
	}
	for _, s := range t.suites {
		if s.file == f {
			suites = append(suites, s)
		}
	}
	if target != nil && r.IntN(10) > 0 {
		cases = []*c34Node{target}
		if a := target.ancestors(); len(a) > 0 {
			suites = a
		}
	}
	switch x := r.IntN(20); {
	case x < 8 && len(cases) > 0:
		c := cases[r.IntN(len(cases))]
		switch r.IntN(3) {
		case 0:
			flt.line = c.start
		case 1:
			flt.line = c.end
		default:
			flt.line = c.start + r.IntN(c.end-c.start+1)
		}
		flt.label = "pathcase" + multi
	case x < 14 && len(suites) > 0:
		s := suites[r.IntN(len(suites))]
		flt.line = s.start
		flt.label = "pathsuite" + multi
	case x < 17:
		var cand []int
		cand = append(cand, f.gaps...)
		for _, s := range suites {
			cand = append(cand, s.gapLines...)
			cand = append(cand, s.end)
			for _, h := range s.hooks {
				cand = append(cand, h.startLine, h.endLine)
			}
		}
		cand = append(cand, len(f.lines)+3, 0)
		flt.line = cand[r.IntN(len(cand))]
		flt.label = "pathmiss" + multi
	default:
		flt.label = "pathfile"
	}
	return flt
}

// satisfies is the reference reading of "a case satisfies a filter".
//   - regex filter: the regex matches the full name (suite names and the case's registered name joined by " > ");
//   - path filter glob[:line]: the glob matches the file of the case and, when a line is given, the line lies
//     within the case (first line of `should …, ->` to its `end`) or is the first line of an enclosing
//     describe/context (which selects the whole suite).
func (f *c34Filter) satisfies(c *c34Node) bool {
	if f.re != nil {
		return f.re.MatchString(c.fullName())
	}
	if !c34GlobMatch(f.glob, c.file.path) {
		return false
	}
	if f.line < 0 {
		return true
	}
	if f.line >= c.start && f.line <= c.end {
		return true
	}
	for _, a := range c.ancestors() {
		if a.start == f.line {
			return true
		}
	}
	return false
}

// ---- model ----------------------------------------------------------------------------------------

type c34Expect struct {
	selected map[int]bool // case ids satisfying every filter
	ran      map[int]int  // case id -> expected number of body executions
	status   map[int]int  // expected status of selected cases (pass/fail/error), -1 = failing, kind undecided
	hookRuns map[int]int  // hook id -> expected runs (valid only when no hook fails)
	noReport map[int]bool // selected cases of a suite whose before_all fails: reported through the suite only
	anyFail  bool
	hookFail string // kind of the failing hook that was reached ("" if none)
	cases    int
	passed   int
	failed   int
	errors   int
	splitOK  bool // failed/errors split is decided (single failure cause per case)
}

func c34Model(t *c34Tree, filters []*c34Filter) *c34Expect {
	e := &c34Expect{selected: map[int]bool{}, ran: map[int]int{}, status: map[int]int{}, hookRuns: map[int]int{}, noReport: map[int]bool{}, splitOK: true}
	for _, c := range t.cases {
		ok := true
		for _, f := range filters {
			if !f.satisfies(c) {
				ok = false
				break
			}
		}
		if ok {
			e.selected[c.id] = true
		}
	}
	var count func(n *c34Node) int
	count = func(n *c34Node) int {
		if n.isCase {
			if e.selected[n.id] {
				return 1
			}
			return 0
		}
		k := 0
		for _, ch := range n.children {
			k += count(ch)
		}
		return k
	}
	worse := func(a, b int) int {
		if a == c34Pass {
			return b
		}
		if b == c34Pass {
			return a
		}
		if a == b {
			return a
		}
		return -1 // mixed failure kinds: the split between "failed" and "errors" is left open
	}
	record := func(st int, n int) {
		e.cases += n
		switch st {
		case c34Pass:
			e.passed += n
		case c34Fail:
			e.failed += n
			e.anyFail = true
		case c34Error:
			e.errors += n
			e.anyFail = true
		default:
			e.splitOK = false
			e.anyFail = true
		}
	}
	var runCase func(c *c34Node)
	runCase = func(c *c34Node) {
		st := c34Pass
		blocked := false
		anc := c.ancestors()
		// before_each hooks of every enclosing suite; a failing one prevents the body
		for _, a := range anc {
			for _, h := range a.hooks {
				if h.kind == "before_each" {
					e.hookRuns[h.id]++
					if h.outcome != c34Pass {
						blocked = true
						st = worse(st, h.outcome)
						e.hookFail = h.kind
					}
				}
			}
		}
		if !blocked {
			e.ran[c.id]++
			st = worse(st, c.outcome)
		}
		for _, a := range anc {
			for _, h := range a.hooks {
				if h.kind == "after_each" {
					e.hookRuns[h.id]++
					if h.outcome != c34Pass {
						st = worse(st, h.outcome)
						e.hookFail = h.kind
					}
				}
			}
		}
		e.status[c.id] = st
		record(st, 1)
	}
	var runSuite func(n *c34Node)
	runSuite = func(n *c34Node) {
		k := count(n)
		if k == 0 {
			return
		}
		for _, h := range n.hooks {
			if h.kind == "before_all" {
				e.hookRuns[h.id]++
				if h.outcome != c34Pass {
					// the suite is reported failed as a whole; none of its cases run
					e.hookFail = h.kind
					var mark func(m *c34Node)
					mark = func(m *c34Node) {
						if m.isCase {
							if e.selected[m.id] {
								e.status[m.id] = h.outcome
								e.noReport[m.id] = true
							}
							return
						}
						for _, ch := range m.children {
							mark(ch)
						}
					}
					mark(n)
					record(h.outcome, k)
					return
				}
			}
		}
		for _, ch := range n.children {
			if ch.isCase {
				if e.selected[ch.id] {
					runCase(ch)
				}
			}
		}
		for _, ch := range n.children {
			if !ch.isCase {
				runSuite(ch)
			}
		}
		for _, h := range n.hooks {
			if h.kind == "after_all" {
				e.hookRuns[h.id]++
				if h.outcome != c34Pass {
					e.anyFail = true
					e.hookFail = h.kind
				}
			}
		}
	}
	for _, f := range t.files {
		for _, it := range f.items {
			if it.isCase {
				if e.selected[it.id] {
					runCase(it)
				}
			}
		}
	}
	for _, f := range t.files {
		for _, it := range f.items {
			if !it.isCase {
				runSuite(it)
			}
		}
	}
	return e
}

// ---- observation ------------------------------------------------------------------------------------

type c34Obs struct {
	mode       string
	problem    string         // the run itself could not be made (diagnostics, top-level error, crash)
	ran        map[int]int    // RAN markers
	hooks      map[int]int    // HOOK markers (in-process only)
	reported   map[int]string // case id -> status name from the report tree (in-process only)
	events     map[int]int    // FINISH_CASE events per case id (in-process only)
	exit       int
	haveSum    bool
	cases      int
	passed     int
	skipped    int
	failed     int
	errors     int
	output     string
	attributed bool // every RAN marker was printed by the report of the case with the same id
	killed     bool // CLI only: the process was terminated by a signal
}

var c34SummaryRe = regexp.MustCompile(`Summary: (\d+) cases, (\d+) passed, (\d+) skipped, (\d+) failed, (\d+) errors`)
var c34RanRe = regexp.MustCompile(`(?m)^\s*RAN (\d+)\s*$`)
var c34HookRe = regexp.MustCompile(`(?m)^\s*HOOK (\d+)\s*$`)
var c34LogRe = regexp.MustCompile(`RANLOG "?\[([^\]]*)\]`)
var c34NumRe = regexp.MustCompile(`\d+`)
var c34CaseIDRe = regexp.MustCompile(` k(\d+)$`)
var c34AnsiRe = regexp.MustCompile("\x1b\\[[0-9;]*m")

func (o *c34Obs) parseSummary(out string) {
	out = c34AnsiRe.ReplaceAllString(out, "")
	if m := c34SummaryRe.FindStringSubmatch(out); m != nil {
		o.haveSum = true
		o.cases, _ = strconv.Atoi(m[1])
		o.passed, _ = strconv.Atoi(m[2])
		o.skipped, _ = strconv.Atoi(m[3])
		o.failed, _ = strconv.Atoi(m[4])
		o.errors, _ = strconv.Atoi(m[5])
	}
}

// teeReporter records the events of a run and forwards them to the real plain reporter.
type c34TeeReporter struct {
	inner  elktest.Reporter
	finish map[int]int
}

func (t *c34TeeReporter) Report(events chan *elktest.ReportEvent, shutdown context.CancelFunc) {
	fwd := make(chan *elktest.ReportEvent, 50)
	done := make(chan struct{})
	go func() {
		t.inner.Report(fwd, func() {})
		close(done)
	}()
	for ev := range events {
		if ev.Type == elktest.REPORT_FINISH_CASE && ev.CaseReport != nil {
			if m := c34CaseIDRe.FindStringSubmatch(ev.CaseReport.Case.Name); m != nil {
				id, _ := strconv.Atoi(m[1])
				t.finish[id]++
			}
		}
		fwd <- ev
	}
	close(fwd)
	<-done
}

func c34StatusName(s elktest.TestStatus) string {
	switch s {
	case elktest.TEST_SUCCESS:
		return "pass"
	case elktest.TEST_FAILED:
		return "fail"
	case elktest.TEST_ERROR:
		return "error"
	case elktest.TEST_SKIPPED:
		return "skipped"
	case elktest.TEST_RUNNING:
		return "running"
	}
	return "pending"
}

// c34RunInProc performs what `elk test --main <main> [--grep …] [--path …]` does (cmd/elk/main.go runTest,
// runTestFile) inside this process, with the working directory set to dir.
func c34RunInProc(dir, mainFile string, filters []*c34Filter, shuffleSeed uint64) (o *c34Obs) {
	o = &c34Obs{mode: "inproc", ran: map[int]int{}, hooks: map[int]int{}, reported: map[int]string{}, events: map[int]int{}, attributed: true}
	cwd, err := os.Getwd()
	if err != nil {
		o.problem = "getwd: " + err.Error()
		return o
	}
	if err := os.Chdir(dir); err != nil {
		o.problem = "chdir: " + err.Error()
		return o
	}
	defer os.Chdir(cwd)

	// fresh global state, as in a fresh process
	elk.InitGlobalEnvironment()
	elktest.Filters = nil
	elktest.RootSuite = elktest.NewSuite("", nil, nil)
	elktest.CurrentSuite = elktest.RootSuite

	// runTest: the regex filter is registered first, then the path filters in order
	for _, f := range filters {
		if f.re != nil {
			rf, err := elktest.NewRegexFilter(f.grep)
			if err != nil {
				o.problem = "regex rejected: " + f.grep + ": " + err.Error()
				return o
			}
			elktest.RegisterFilter(rf)
		}
	}
	for _, f := range filters {
		if f.re == nil {
			pf, err := elktest.NewPathFilter(f.arg())
			if err != nil {
				o.problem = "path filter rejected: " + f.arg() + ": " + err.Error()
				return o
			}
			elktest.RegisterFilter(pf)
		}
	}

	// stdout of the reporter (fmt.Print to os.Stdout) is captured through a scratch file
	capFile, err := os.CreateTemp(dir, "stdout-*.txt")
	if err != nil {
		o.problem = "tempfile: " + err.Error()
		return o
	}
	defer os.Remove(capFile.Name())
	defer capFile.Close()

	var top bytes.Buffer
	phase := "check"
	var report *elktest.SuiteReport
	func() {
		defer func() {
			if r := recover(); r != nil {
				o.problem = fmt.Sprintf("Go panic in phase %s: %v\n%s", phase, r, head(string(debugStack()), 1500))
			}
		}()
		bytecode, diags := checker.CheckFile(mainFile, nil, bitfield.BitField16{}, nil)
		if diags != nil && diags.IsFailure() {
			o.problem = "diagnostics: " + head(diagString(diags), 1500)
			return
		}
		phase = "toplevel"
		ctx, cancel := context.WithCancel(context.Background())
		defer cancel()
		v := vm.New(vm.WithStdout(&top), vm.WithStderr(&top), vm.WithAborter(value.NewAborter(ctx, nil)))
		_, elkErr := v.InterpretTopLevel(bytecode)
		if !elkErr.IsUndefined() {
			o.problem = "top-level error: " + elkErr.Inspect()
			return
		}
		testExt := ext.Map["std/test"]
		if !testExt.Initialised {
			testExt.RuntimeInit()
		}
		phase = "run"
		v2 := vm.New(vm.WithStdout(&top), vm.WithStderr(&top), vm.WithAborter(value.NewAborter(ctx, nil)))
		events := make(chan *elktest.ReportEvent, 50)
		tee := &c34TeeReporter{inner: elktest.NewPlainReporter(), finish: o.events}
		saved := os.Stdout
		os.Stdout = capFile
		func() {
			defer func() { os.Stdout = saved }()
			report = elktest.RunWith(v2, tee, events, shuffleSeed)
		}()
	}()
	if o.problem != "" {
		return o
	}
	capFile.Seek(0, 0)
	var outb bytes.Buffer
	outb.ReadFrom(capFile)
	o.output = outb.String()
	o.parseSummary(o.output)

	// exit status as computed by runTestFile
	if report == nil || report.Status() != elktest.TEST_SUCCESS {
		o.exit = 1
	}
	scan := func(s string, owner int) {
		for _, m := range c34RanRe.FindAllStringSubmatch(s, -1) {
			id, _ := strconv.Atoi(m[1])
			o.ran[id]++
			if owner != id {
				o.attributed = false
			}
		}
		for _, m := range c34HookRe.FindAllStringSubmatch(s, -1) {
			id, _ := strconv.Atoi(m[1])
			o.hooks[id]++
		}
	}
	scan(top.String(), -1)
	if report != nil {
		var walk func(sr *elktest.SuiteReport)
		walk = func(sr *elktest.SuiteReport) {
			for _, cr := range sr.CaseReports {
				id := -1
				if m := c34CaseIDRe.FindStringSubmatch(cr.Case.Name); m != nil {
					id, _ = strconv.Atoi(m[1])
				}
				if _, dup := o.reported[id]; dup {
					o.reported[id] = "duplicate"
				} else {
					o.reported[id] = c34StatusName(cr.Status())
				}
				scan(cr.Stdout().String(), id)
			}
			for _, sub := range sr.SubSuiteReports {
				walk(sub)
			}
		}
		walk(report)
	}
	return o
}

var c34ElkBin string

// c34BuildCLI builds cmd/elk from the worktree once per run (the workers of one run share c.WorkDir).
func c34BuildCLI(c *Ctx) {
	bin := filepath.Join(verifDir, "bin", "elk")
	stamp := filepath.Join(verifDir, "bin", "elk.c34.stamp")
	lock, err := os.OpenFile(filepath.Join(verifDir, "bin", "elk.c34.lock"), os.O_CREATE|os.O_RDWR, 0o644)
	if err != nil {
		c.Inconclusive("cannot open the CLI build lock: " + err.Error())
		return
	}
	defer lock.Close()
	syscall.Flock(int(lock.Fd()), syscall.LOCK_EX)
	defer syscall.Flock(int(lock.Fd()), syscall.LOCK_UN)
	runKey := c.WorkDir
	if b, err := os.ReadFile(stamp); err == nil && string(b) == runKey {
		if _, err := os.Stat(bin); err == nil {
			c34ElkBin = bin
			return
		}
	}
	// built in place under the lock: an up-to-date binary is not linked again
	cmd := exec.Command("go", "build", "-o", bin, "./cmd/elk")
	cmd.Dir = repoDir
	out, err := cmd.CombinedOutput()
	if err != nil {
		c.Inconclusive("go build ./cmd/elk failed: " + head(string(out), 1500) + " " + err.Error())
		return
	}
	os.WriteFile(stamp, []byte(runKey), 0o644)
	c34ElkBin = bin
}

// c34RunCLI runs the real binary in dir and observes the exit status, the Summary line and the run log.
func c34RunCLI(dir string, args []string) *c34Obs {
	o := &c34Obs{mode: "cli", ran: map[int]int{}, attributed: true}
	ctx, cancel := context.WithTimeout(context.Background(), 120*time.Second)
	defer cancel()
	cmd := exec.CommandContext(ctx, c34ElkBin, append([]string{"test"}, args...)...)
	cmd.Dir = dir
	cmd.Env = append(os.Environ(), "ELKPATH="+repoDir, "NO_COLOR=1", "ELKWARN=0")
	var outb, errb bytes.Buffer
	cmd.Stdout = &outb
	cmd.Stderr = &errb
	err := cmd.Run()
	o.output = outb.String()
	if err != nil {
		ee, ok := err.(*exec.ExitError)
		if !ok || ctx.Err() != nil {
			o.problem = "cannot run the CLI: " + err.Error()
			return o
		}
		o.exit = ee.ExitCode()
		if o.exit == -1 { // terminated by a signal from outside (not an outcome of the runner)
			o.killed = true
			o.problem = "CLI process killed by a signal: " + ee.String()
			return o
		}
		if o.exit != 1 {
			o.problem = fmt.Sprintf("CLI exit status %d\nstdout: %s\nstderr: %s", o.exit, head(o.output, 800), head(errb.String(), 1500))
			return o
		}
	}
	o.parseSummary(o.output)
	if !o.haveSum {
		o.problem = fmt.Sprintf("no Summary line (exit %d)\nstdout: %s\nstderr: %s", o.exit, head(o.output, 1200), head(errb.String(), 800))
		return o
	}
	if m := c34LogRe.FindStringSubmatch(o.output); m != nil {
		for _, s := range c34NumRe.FindAllString(m[1], -1) { // long lists are pretty-printed over several lines
			if id, _ := strconv.Atoi(s); id != 0 {
				o.ran[id]++
			}
		}
	} else if o.cases > 0 {
		o.problem = "no RANLOG line in the CLI output: " + head(o.output, 1200)
	}
	return o
}

// ---- comparison --------------------------------------------------------------------------------------

func c34Combo(filters []*c34Filter) string {
	if len(filters) == 0 {
		return "nofilter"
	}
	var ls []string
	for _, f := range filters {
		ls = append(ls, f.label)
	}
	sort.Strings(ls)
	return strings.Join(ls, "+")
}

func c34Describe(t *c34Tree, filters []*c34Filter, e *c34Expect, o *c34Obs, cliArgs []string) string {
	var sb strings.Builder
	fmt.Fprintf(&sb, "mode=%s\n", o.mode)
	for _, f := range filters {
		if f.re != nil {
			fmt.Fprintf(&sb, "filter --grep '%s'\n", f.grep)
		} else {
			fmt.Fprintf(&sb, "filter --path '%s'   (%s)\n", f.arg(), f.label)
		}
	}
	if cliArgs != nil {
		fmt.Fprintf(&sb, "command: elk test %s\n", strings.Join(cliArgs, " "))
	}
	var sel, ran []string
	for _, c := range t.cases {
		if e.selected[c.id] {
			sel = append(sel, fmt.Sprintf("%d[%s:%d %s %s]", c.id, c.file.path, c.start, c.fullName(), []string{"pass", "fail", "error"}[c.outcome]))
		}
	}
	ids := []int{}
	for id := range o.ran {
		ids = append(ids, id)
	}
	sort.Ints(ids)
	for _, id := range ids {
		ran = append(ran, fmt.Sprintf("%dx%d", id, o.ran[id]))
	}
	fmt.Fprintf(&sb, "model selected: %s\n", strings.Join(sel, ", "))
	fmt.Fprintf(&sb, "model: cases=%d passed=%d failed=%d errors=%d exit=%v\n", e.cases, e.passed, e.failed, e.errors, e.anyFail)
	fmt.Fprintf(&sb, "observed RAN (id x times): %s\n", strings.Join(ran, " "))
	fmt.Fprintf(&sb, "observed: exit=%d summary(cases=%d passed=%d skipped=%d failed=%d errors=%d)\n", o.exit, o.cases, o.passed, o.skipped, o.failed, o.errors)
	fmt.Fprintf(&sb, "--- %s\n%s", t.main, t.mainSrc)
	for _, f := range t.files {
		fmt.Fprintf(&sb, "--- %s\n", f.path)
		for i, l := range f.lines {
			fmt.Fprintf(&sb, "%3d %s\n", i+1, l)
		}
	}
	return sb.String()
}

// c34OutcomeCtx names what fails in the expected run (for signatures about exit status / counts):
// failure sources among the selected cases and the kinds of passing per-case hooks that surround failing cases.
func c34OutcomeCtx(t *c34Tree, e *c34Expect) string {
	src := map[string]bool{}
	hooks := map[string]bool{}
	for _, cs := range t.cases {
		if !e.selected[cs.id] {
			continue
		}
		failing := e.status[cs.id] != c34Pass
		if e.ran[cs.id] > 0 && cs.outcome == c34Fail {
			src["case-fails"] = true
		}
		if e.ran[cs.id] > 0 && cs.outcome == c34Error {
			src["case-errors"] = true
		}
		if failing {
			for _, a := range cs.ancestors() {
				for _, h := range a.hooks {
					// only the per-case hooks: they write to the same case report as the body
					if h.outcome == c34Pass && (h.kind == "before_each" || h.kind == "after_each") {
						hooks[h.kind] = true
					}
				}
			}
		}
	}
	if e.hookFail != "" {
		src[e.hookFail+"-fails"] = true
	}
	keys := func(m map[string]bool) string {
		var ks []string
		for k := range m {
			ks = append(ks, k)
		}
		sort.Strings(ks)
		return strings.Join(ks, "+")
	}
	out := keys(src)
	if out == "" {
		out = "nothing-fails"
	}
	if len(hooks) > 0 {
		out += ":with-" + keys(hooks)
	}
	return out
}

// c34Compare checks one observation against the model and reports differences.
func c34Compare(c *Ctx, i int, t *c34Tree, filters []*c34Filter, e *c34Expect, o *c34Obs, cliArgs []string) {
	combo := c34Combo(filters)
	detail := ""
	nviol := 0
	viol := func(sig string) {
		nviol++
		if detail == "" {
			detail = c34Describe(t, filters, e, o, cliArgs)
		}
		c.Violate(sig, detail, i, map[string]any{"replay": fmt.Sprintf("./check C34 --seed %d --case %d", c.Seed, i)})
	}
	c.Eval(1)
	if o.problem != "" {
		detail = o.problem + "\n" + c34Describe(t, filters, e, o, cliArgs)
		viol("run-problem:" + o.mode + ":" + head(strings.SplitN(o.problem, "\n", 2)[0], 60))
		return
	}
	byID := map[int]*c34Node{}
	for _, cs := range t.cases {
		byID[cs.id] = cs
	}
	hookTag := ""
	if e.hookFail != "" {
		hookTag = ":" + e.hookFail + "-fails"
	}
	// 1. executed bodies: exactly once for each expected case, nothing else
	for _, cs := range t.cases {
		want, got := e.ran[cs.id], o.ran[cs.id]
		c.Count("case_executions_compared", 1)
		switch {
		case want == got:
		case got == 0:
			tag := ""
			if cs.depth() == 0 {
				tag = ":top-level-case"
			} else if cs.depth() >= 3 {
				tag = ":depth3"
			}
			viol("selected-not-run:" + combo + tag + hookTag)
		case want == 0 && e.selected[cs.id]:
			viol("ran-despite-failed-hook:" + combo + hookTag)
		case want == 0:
			viol("ran-unselected:" + combo + hookTag)
		default:
			viol("ran-more-than-once:" + combo + hookTag)
		}
	}
	for id := range o.ran {
		if byID[id] == nil {
			viol("ran-unknown-marker:" + combo)
		}
	}
	if nviol > 0 {
		return // later differences are consequences
	}
	// 2. exit status
	wantExit := 0
	if e.anyFail {
		wantExit = 1
	}
	if o.exit != wantExit {
		if wantExit == 1 {
			viol("exit-0-with-failure:" + c34OutcomeCtx(t, e))
		} else if len(e.selected) == 0 {
			viol("exit-1-without-failure:no-case-selected")
			nviol-- // the summary and the report tree are still compared
		} else {
			viol("exit-1-without-failure:" + c34OutcomeCtx(t, e))
		}
	}
	if nviol > 0 {
		return
	}
	// 3. reported counts
	if o.haveSum {
		c.Count("summaries_compared", 1)
		bad := o.cases != e.cases || o.passed != e.passed || o.skipped != 0 || o.failed+o.errors != e.cases-e.passed
		if !bad && e.splitOK && (o.failed != e.failed || o.errors != e.errors) {
			bad = true
		}
		if bad {
			viol("summary-miscount:" + c34OutcomeCtx(t, e))
		}
	} else {
		viol("no-summary-line:" + combo)
	}
	if nviol > 0 {
		return
	}
	// 4. report tree (in-process): one report per selected case with the expected status, attributed output
	if o.mode == "inproc" {
		for _, cs := range t.cases {
			st, rep := o.reported[cs.id]
			if e.noReport[cs.id] {
				if rep {
					viol("reported-despite-failed-before_all:" + combo)
				}
				continue // cases of a suite whose before_all failed have no report of their own
			}
			switch {
			case e.selected[cs.id] && !rep:
				viol("selected-not-reported:" + combo + hookTag)
			case !e.selected[cs.id] && rep:
				viol("reported-unselected:" + combo + hookTag)
			case rep:
				want := e.status[cs.id]
				wantName := "pass"
				if want == c34Fail {
					wantName = "fail"
				} else if want == c34Error {
					wantName = "error"
				}
				if st == "duplicate" {
					viol("reported-twice:" + combo + hookTag)
				} else if want >= 0 && st != wantName {
					viol(fmt.Sprintf("status-wrong:%s-reported-%s:%s", wantName, st, c34OutcomeCtx(t, e)))
				} else if want < 0 && st != "fail" && st != "error" {
					viol(fmt.Sprintf("status-wrong:failing-reported-%s:%s", st, c34OutcomeCtx(t, e)))
				}
				if o.events[cs.id] != 1 {
					viol(fmt.Sprintf("finish-events-%d:%s", o.events[cs.id], c34OutcomeCtx(t, e)))
				}
			}
		}
		if !o.attributed {
			viol("marker-in-foreign-report:" + combo)
		}
		if e.hookFail == "" {
			for _, s := range t.suites {
				for _, h := range s.hooks {
					c.Count("hook_counts_compared", 1)
					if o.hooks[h.id] != e.hookRuns[h.id] {
						viol(fmt.Sprintf("hook-count:%s:%s", h.kind, combo))
					}
				}
			}
		}
	}
}

// ---- the case ------------------------------------------------------------------------------------------

func c34WriteTree(dir string, t *c34Tree) error {
	if err := os.MkdirAll(dir, 0o755); err != nil {
		return err
	}
	if err := os.WriteFile(filepath.Join(dir, t.main), []byte(t.mainSrc), 0o644); err != nil {
		return err
	}
	for _, f := range t.files {
		p := filepath.Join(dir, filepath.FromSlash(f.path))
		os.MkdirAll(filepath.Dir(p), 0o755)
		if err := os.WriteFile(p, []byte(f.source()), 0o644); err != nil {
			return err
		}
	}
	return nil
}

// c34CLIEvery: every n-th case also goes through the real binary; n is odd so that the sample is spread
// over all shards (cases are dealt round-robin to 4..16 workers).
func c34CLIEvery(tier string) int {
	return 9
}

func c34Case(c *Ctx, i int, r *rand.Rand) {
	cli := i%c34CLIEvery(c.Tier) == 0 && c34ElkBin != ""
	t := c34GenTree(r, cli)
	if r.IntN(6) == 0 {
		t.main = "suite.elk.test"
	}
	// filters: most of them are aimed at one target case so that combinations keep selecting something
	var filters []*c34Filter
	var target *c34Node
	if r.IntN(6) > 0 {
		target = t.cases[r.IntN(len(t.cases))]
	}
	aim := func() *c34Node {
		if r.IntN(8) == 0 {
			return nil
		}
		return target
	}
	ngrep := 0
	switch x := r.IntN(10); {
	case x < 5:
		ngrep = 1
	case x == 5 && !cli:
		ngrep = 2 // API level only: the CLI takes a single --grep
	}
	for k := 0; k < ngrep; k++ {
		filters = append(filters, c34GenGrep(r, t, aim()))
	}
	npath := 0
	switch x := r.IntN(20); {
	case x < 8:
		npath = 1
	case x < 13:
		npath = 2
	case x == 13:
		npath = 3
	}
	for k := 0; k < npath; k++ {
		filters = append(filters, c34GenPath(r, t, aim()))
	}
	if npath >= 2 && r.IntN(3) == 0 { // related pair: a suite line and a case inside it
		var inner []*c34Node
		for _, cs := range t.cases {
			if cs.parent != nil {
				inner = append(inner, cs)
			}
		}
		if len(inner) > 0 {
			cs := inner[r.IntN(len(inner))]
			anc := cs.ancestors()
			s := anc[r.IntN(len(anc))]
			filters[len(filters)-2] = &c34Filter{glob: cs.file.path, line: s.start, label: "pathsuite"}
			filters[len(filters)-1] = &c34Filter{glob: cs.file.path, line: cs.start + r.IntN(cs.end-cs.start+1), label: "pathcase"}
			if r.IntN(2) == 0 {
				filters[len(filters)-2], filters[len(filters)-1] = filters[len(filters)-1], filters[len(filters)-2]
			}
		}
	}
	e := c34Model(t, filters)

	dir := filepath.Join(c.WorkDir, fmt.Sprintf("c34-%d", i))
	if err := c34WriteTree(dir, t); err != nil {
		c.Inconclusive("cannot write the suite files: " + err.Error())
		return
	}
	if keep := os.Getenv("C34_KEEP"); keep != "" { // debugging aid: also write the files of this case to $C34_KEEP
		c34WriteTree(keep, t)
	}
	defer os.RemoveAll(dir)

	nsel, nfail := len(e.selected), e.failed+e.errors
	c.Count("suites_generated", 1)
	c.Count("cases_generated", int64(len(t.cases)))
	c.Count("cases_selected", int64(nsel))
	if len(filters) > 0 {
		c.Count("runs_with_filters", 1)
	}
	if nsel > 0 && nsel < len(t.cases) {
		c.Count("runs_selecting_a_proper_subset", 1)
	}
	if nsel == 0 {
		c.Count("runs_selecting_nothing", 1)
	}
	if e.anyFail {
		c.Count("runs_expecting_failure_exit", 1)
	} else {
		c.Count("runs_expecting_success_exit", 1)
	}
	if len(t.hooks) > 0 {
		c.Count("suites_with_hooks", 1)
	}
	if e.hookFail != "" {
		c.Count("runs_with_failing_hook_reached", 1)
	}
	c.Count("combo:"+c34Combo(filters), 1)
	c.Distinct(fmt.Sprintf("%s|sel%d|fail%d|files%d|hook%s", c34Combo(filters), min(nsel, 6), min(nfail, 3), len(t.files), e.hookFail))

	o := c34RunInProc(dir, t.main, filters, r.Uint64())
	c.Count("runs_inproc", 1)
	c34Compare(c, i, t, filters, e, o, nil)

	if cli {
		var args []string
		if t.main != "main.elk.test" || r.IntN(4) == 0 {
			args = append(args, "--main", t.main)
		}
		var paths []string
		for _, f := range filters {
			if f.re != nil {
				if r.IntN(2) == 0 {
					args = append(args, "--grep", f.grep)
				} else {
					args = append(args, "--grep="+f.grep)
				}
			} else {
				paths = append(paths, f.arg())
			}
		}
		switch {
		case len(paths) >= 2 && r.IntN(3) == 0:
			args = append(args, "--path", strings.Join(paths, ","))
		default:
			for _, p := range paths {
				if r.IntN(3) == 0 {
					args = append(args, "-p", p)
				} else {
					args = append(args, "--path", p)
				}
			}
		}
		oc := c34RunCLI(dir, args)
		if oc.killed { // somebody else's signal: try once more, then give up on this sample
			c.Count("cli_runs_killed_by_signal", 1)
			oc = c34RunCLI(dir, args)
			if oc.killed {
				c.Inconclusive(fmt.Sprintf("case %d: the elk test process was killed by a signal twice", i))
				return
			}
		}
		c.Count("runs_cli", 1)
		c34Compare(c, i, t, filters, e, oc, args)
		if oc.problem == "" && o.problem == "" && (oc.exit != o.exit || oc.cases != o.cases || oc.passed != o.passed) {
			c.Violate("cli-differs-from-inproc:"+c34Combo(filters), c34Describe(t, filters, e, oc, args), i, nil)
		}
	}
	if i < 3 {
		c.Sample(map[string]any{"filters": func() []string {
			var s []string
			for _, f := range filters {
				if f.re != nil {
					s = append(s, "--grep "+f.grep)
				} else {
					s = append(s, "--path "+f.arg())
				}
			}
			return s
		}(), "cases": len(t.cases), "selected": nsel, "expect_exit_failure": e.anyFail})
	}
}

func init() {
	register(&Check{
		ID: "C34",
		Rule: "each case = one generated suite tree (1-3 *.elk.test files, describe/context nesting up to 4, should/test/it cases with unique names " +
			"that print RAN <id> and pass / fail an assertion / throw, optional hooks) + a random filter set (0-2 regex filters, 0-3 --path glob[:line] " +
			"filters with the line on a case, a describe line, a gap or outside); the Go model selects the cases satisfying EVERY filter; the real runner " +
			"is run in-process as cmd/elk does (every case) and through the built `elk test` binary (1 case in 9); distinct = filter-kind combination x " +
			"number selected x number failing x files x failing hook kind",
		NumCases: func(tier string) int {
			if tier == "thorough" {
				return 1400
			}
			return 280
		},
		Init: func(c *Ctx) {
			color.NoColor = true
			c34BuildCLI(c)
		},
		Case:        c34Case,
		MinCounters: map[string]int64{"runs_inproc": 250, "runs_cli": 25, "case_executions_compared": 2500, "runs_selecting_a_proper_subset": 60, "runs_expecting_failure_exit": 60, "runs_expecting_success_exit": 40},
		Assumptions: []string{
			"a case satisfies --path glob:line iff the glob matches its file and the line lies within the case (`should …, ->` line to its `end`) or is the first line of an enclosing describe/context; a regex filter is matched against suite names and registered case name joined by ' > '",
			"multiple filters combine with AND (every filter), as the property says; the CLI accepts one --grep (pflag String), several regex filters are exercised through test.RegisterFilter only",
			"hooks: a failing before_all fails its whole suite without running its cases, a failing before_each fails the case without running its body; both count as failures for the exit status; the order of hooks and of cases is not checked",
			"glob and regex semantics are trusted (generated globs/regexes use a small subset evaluated by an independent matcher / Go regexp)",
			"in-process runs reset test.Filters, test.RootSuite, test.CurrentSuite and the global environment by hand; process-level behaviour (flag parsing, exit status) is observed on the CLI sample only",
		},
		Env:       []string{"NO_COLOR=1"},
		CPUBudget: 120,
	})
}
