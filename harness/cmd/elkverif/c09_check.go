package main

// C09 — check registration and the per-batch case logic.

import (
	"fmt"
	"math/rand/v2"
	"os"
	"path/filepath"
	"regexp"
	"strings"
	"sync"
	"syscall"
)

func c09BatchSize(tier string) int {
	if v := os.Getenv("C09_BATCH"); v != "" {
		var n int
		fmt.Sscan(v, &n)
		if n > 0 {
			return n
		}
	}
	if tier == "thorough" {
		return 40
	}
	return 22
}

var c09Confirmed sync.Map // signature -> confirmed alone (bool)

var c09PanicNumRe = regexp.MustCompile(`0x[0-9a-f]+|\d+`)

func c09Sig(d c09Diff, construct string) string {
	s := d.Kind + ":" + construct
	if d.Class != "" {
		s += ":" + d.Class
	}
	return s
}

// c09Warm builds one trivial native program under a file lock so that the shards do not all
// compile the Elk runtime with `-tags native` at the same time when the build cache is cold.
func c09Warm(c *Ctx) {
	lock := filepath.Join(verifDir, "bin", "c09-warm.lock")
	f, err := os.OpenFile(lock, os.O_CREATE|os.O_RDWR, 0o644)
	if err != nil {
		return
	}
	defer f.Close()
	syscall.Flock(int(f.Fd()), syscall.LOCK_EX)
	defer syscall.Flock(int(f.Fd()), syscall.LOCK_UN)
	dir := filepath.Join(c.WorkDir, fmt.Sprintf("c09-warm-%d", os.Getpid()))
	r := c09BuildRunAlone(dir, "println \"warm\"\n")
	os.RemoveAll(dir)
	if r.Status != "ok" || r.Stdout != "warm\n" {
		c.Inconclusive("the native pipeline does not work for `println \"warm\"`: status=" + r.Status + " " + head(r.Detail, 600) + " stdout=" + head(r.Stdout, 100) + " stderr=" + head(r.Stderr, 300))
	}
}

func c09Case(c *Ctx, bi int, r *rand.Rand) {
	n := c09BatchSize(c.Tier)
	var items []c09Item
	var vms []c09VM
	for k := 0; k < n; k++ {
		it := c09GenItem(r, bi*n+k, c.Seed)
		c.Count("programs_generated", 1)
		vm := c09RunVM(it.Src)
		if !vm.Usable {
			if strings.HasPrefix(vm.Why, "rejected") {
				c.Count("programs_rejected_by_checker", 1)
				c.Extra("last_checker_rejection", it.Construct+": "+head(vm.Why, 300))
				if os.Getenv("C09_VERBOSE") != "" {
					fmt.Fprintf(os.Stderr, "REJECTED %s: %s\n%s\n", it.Construct, vm.Why, it.Src)
				}
			} else {
				c.Count("programs_skipped_vm_panic", 1)
				c.Extra("last_vm_panic", it.Construct+": "+head(vm.Why, 300))
			}
			continue
		}
		items = append(items, it)
		vms = append(vms, vm)
	}
	srcs := make([]string, len(items))
	for i, it := range items {
		srcs[i] = it.Src
	}
	dir := filepath.Join(c.WorkDir, fmt.Sprintf("c09-b%d", bi))
	nats := c09BuildRunBatch(dir, srcs)
	defer os.RemoveAll(dir)
	minimised := 0
	for i, it := range items {
		nat, vm := nats[i], vms[i]
		family := it.Construct
		if j := strings.Index(family, ":"); j > 0 {
			family = family[:j]
		}
		switch nat.Status {
		case "rejected":
			c.Count("native_not_in_supported_subset", 1)
			c.Distinct("unsupported|" + it.Construct + "|" + head(nat.Detail, 60))
			c09NoteUnsupported(c, "rejected: "+it.Construct+": "+head(strings.TrimSpace(nat.Detail), 160))
			continue
		case "panic":
			// the backend has no translation and panics instead of reporting a diagnostic: outside the accepted subset
			c.Count("native_backend_panicked", 1)
			first := strings.SplitN(nat.Detail, "\n", 2)[0]
			c09NoteUnsupported(c, "backend panic: "+it.Construct+": "+head(first, 160))
			c.Distinct("backend-panic|" + it.Construct + "|" + c09PanicNumRe.ReplaceAllString(head(first, 80), "N"))
			continue
		case "build-failed":
			c.Inconclusive("go build failed without a per-program error: " + head(nat.Detail, 600))
			continue
		}
		c.Eval(1)
		c.Count("programs_compared", 1)
		c.Count("family_"+family, 1)
		c.Count("stdout_lines_compared", int64(strings.Count(vm.Stdout, "\n")))
		if vm.Exit != 0 {
			c.Count("uncaught_error_programs_compared", 1)
		}
		c.Distinct(it.Construct + "|" + fmt.Sprint(hash64(it.Src)))
		if bi == 0 && i < 3 {
			c.Sample(map[string]string{"construct": it.Construct, "program": head(it.Src, 500), "vm_stdout": head(vm.Stdout, 200), "vm_report": head(vm.Report, 200)})
		}
		diffs := c09Compare(vm, nat)
		if len(diffs) == 0 {
			c.Count("programs_identical", 1)
			continue
		}
		c.Count("programs_diverging", 1)
		construct := it.Construct
		src := it.Src
		// G-prog programs: name the divergence by the shape of a delta-minimised program
		if it.GP != nil {
			coarse := c09Sig(diffs[0], construct)
			// compile errors and crashes carry their own root-cause class; silent divergences are minimised
			if c.matchKnown(c.ID+":"+coarse) == nil && minimised < 2 && diffs[0].Class == "" {
				minimised++
				min := c09Minimise(c, dir+"-min", it.GP, diffs[0].Kind)
				construct = it.Construct + ":" + min.shape()
				src = min.source()
				vm2 := c09RunVM(src)
				nat2 := c09BuildRunAlone(dir+"-alone", src)
				os.RemoveAll(dir + "-alone")
				if d2 := c09Compare(vm2, nat2); len(d2) > 0 {
					diffs = d2
				}
			}
		}
		for _, d := range diffs {
			if it.GP != nil && d.Class != "" {
				// compile errors and crashes are named by their own class, not by the (minimised) shape
				construct = it.Construct
			}
			sig := c09Sig(d, construct)
			detail := fmt.Sprintf("%s\nprogram (%s):\n%s", d.Detail, construct, head(strings.TrimPrefix(src, gPrelude), 1800))
			if c.matchKnown(c.ID+":"+sig) != nil {
				c.Violate(sig, detail, bi, src)
				continue
			}
			// not a listed finding: re-check with the unmodified generated source built alone
			if _, done := c09Confirmed.Load(sig); !done && it.GP == nil {
				alone := c09BuildRunAlone(dir+"-alone", src)
				os.RemoveAll(dir + "-alone")
				ok := false
				for _, d2 := range c09Compare(vm, alone) {
					if c09Sig(d2, construct) == sig {
						ok = true
					}
				}
				c09Confirmed.Store(sig, ok)
				c.Count("divergences_rechecked_alone", 1)
				if !ok {
					c.Count("divergences_not_confirmed_alone", 1)
					c.Inconclusive("divergence seen only in the batch build, not when built alone: " + sig)
					continue
				}
			}
			if v, _ := c09Confirmed.Load(sig); v == false {
				continue
			}
			c.Violate(sig, detail, bi, src)
		}
	}
}

var c09UnsupMu sync.Mutex
var c09Unsup = map[string]int{}

func c09NoteUnsupported(c *Ctx, what string) {
	c09UnsupMu.Lock()
	c09Unsup[what]++
	var list []string
	for k := range c09Unsup {
		list = append(list, k)
	}
	c09UnsupMu.Unlock()
	sortStrings(list)
	if len(list) > 40 {
		list = list[:40]
	}
	c.Extra(fmt.Sprintf("outside_supported_subset_w%d", os.Getpid()%1000), list)
}

// c09Minimise deletes statements while the same kind of divergence stays; every round builds all
// single-deletion candidates in one batch.
func c09Minimise(c *Ctx, dir string, g *gProg, kind string) *gProg {
	cur := g
	for round := 0; round < 4; round++ {
		total := countStmts(cur)
		var cands []*gProg
		var srcs []string
		var vms []c09VM
		for i := 0; i < total && len(cands) < 30; i++ {
			cand := deleteNth(cur, i)
			if cand == nil {
				continue
			}
			vm := c09RunVM(cand.source())
			if !vm.Usable {
				continue
			}
			cands = append(cands, cand)
			srcs = append(srcs, cand.source())
			vms = append(vms, vm)
		}
		if len(cands) == 0 {
			break
		}
		nats := c09BuildRunBatch(dir, srcs)
		os.RemoveAll(dir)
		c.Count("minimisation_candidates_built", int64(len(cands)))
		// prefer the smallest still-failing candidate
		best := -1
		for i := range cands {
			for _, d := range c09Compare(vms[i], nats[i]) {
				if d.Kind == kind && (best < 0 || countStmts(cands[i]) < countStmts(cands[best])) {
					best = i
				}
			}
		}
		if best < 0 {
			break
		}
		cur = cands[best]
	}
	return cur
}

func init() {
	register(&Check{
		ID:   "C09",
		Rule: "batches of generated Elk programs (templates over Int/BigInt/Float/sized-int operators, strings, interpolation, if/unless/while/until/loop/fornum, for-in over range literals, range values and collections, switch, && || ?? nil-safe, do/catch/finally, lists/tuples/maps/sets/ranges, methods with default/named/rest arguments, recursion, classes/attrs/inheritance/modules/mixins/operators, closures, uncaught errors at call depth 0-2; plus G-prog programs restricted to the constructs the backend translates) are run on the bytecode VM (reference) and translated by checker.CheckSourceNative, built with `go build -tags native` against the worktree and executed; compared: generated Go compiles, stdout, uncaught-error report (message and every stack frame's file, line, function) and exit status. Programs the backend rejects with a diagnostic or a panic are counted as outside the supported subset. distinct = program texts compared",
		NumCases: func(tier string) int {
			if tier == "thorough" {
				return 30
			}
			return 6
		},
		Init:        c09Warm,
		Case:        c09Case,
		Shards:      4,
		MinCounters: map[string]int64{"programs_compared": 45, "stdout_lines_compared": 150, "uncaught_error_programs_compared": 2, "family_gprog": 6},
		Assumptions: []string{
			"the bytecode VM (in-process RunElk: stdout, vm.PrintError report, error => exit 1) is the reference, exactly what `elk run` does",
			"the native pipeline of `elk compile` is restated offline: CheckSourceNative + gofmt + `go build -tags native` in a module that replaces github.com/elk-language/elk with the worktree (the CLI's own `go mod tidy`/`go get` needs the network)",
			"programs are linked in batches (package main -> package pK, main -> Main); every unlisted divergence is re-checked with the unmodified source built alone before it is reported",
		},
	})
}

func init() {
	// c09templates: run every template a few times on the VM only (development aid: template typos)
	subcommands["c09templates"] = func(args []string) {
		r := rand.New(rand.NewPCG(1, 2))
		for _, t := range c09Templates {
			for k := 0; k < 3; k++ {
				cons, src := t.gen(r)
				vm := c09RunVM(src)
				if !vm.Usable {
					fmt.Printf("--- %s UNUSABLE %s\n%s\n", cons, vm.Why, src)
					break
				}
				if (vm.Exit != 0) != t.err {
					fmt.Printf("--- %s exit=%d unexpected\n%s\n%s\n%s", cons, vm.Exit, src, vm.Stdout, vm.Report)
					break
				}
				if len(args) > 0 && k == 0 {
					fmt.Printf("--- %s ok\n%s%s", cons, vm.Stdout, vm.Report)
				}
			}
		}
	}
}

func init() {
	// c09survey <dir> [seed]: every template once (several draws for the randomised operator templates) and a
	// few G-prog programs through both back ends in ONE batch; prints the divergence classes (development aid)
	subcommands["c09survey"] = func(args []string) {
		seed := uint64(1)
		if len(args) > 1 {
			fmt.Sscan(args[1], &seed)
		}
		r := rand.New(rand.NewPCG(seed, 99))
		var items []c09Item
		for _, t := range c09Templates {
			n := 1
			switch t.name {
			case "for-in-range-literal":
				n = 4
			case "float-op", "sized-int-op", "for-in-collection", "range-ops", "int-count-loop":
				n = 2
			}
			seen := map[string]bool{}
			for k := 0; k < n*3 && len(seen) < n; k++ {
				cons, src := t.gen(r)
				if seen[cons] {
					continue
				}
				seen[cons] = true
				items = append(items, c09Item{Construct: cons, Src: src})
			}
		}
		for k := 0; k < 6; k++ {
			gp := c09GProg(r, k%3 == 0)
			items = append(items, c09Item{Construct: fmt.Sprintf("gprog:%d", k), Src: gp.source(), GP: gp})
		}
		var srcs []string
		var vms []c09VM
		for _, it := range items {
			srcs = append(srcs, it.Src)
			vms = append(vms, c09RunVM(it.Src))
		}
		nats := c09BuildRunBatch(args[0], srcs)
		for i, it := range items {
			if !vms[i].Usable {
				fmt.Printf("%-40s VM-UNUSABLE %s\n", it.Construct, head(vms[i].Why, 100))
				continue
			}
			if nats[i].Status == "rejected" || nats[i].Status == "panic" || nats[i].Status == "build-failed" {
				fmt.Printf("%-40s %s %s\n", it.Construct, strings.ToUpper(nats[i].Status), head(strings.SplitN(nats[i].Detail, "\n", 2)[0], 150))
				continue
			}
			ds := c09Compare(vms[i], nats[i])
			if len(ds) == 0 {
				fmt.Printf("%-40s same (%d lines, exit %d)\n", it.Construct, strings.Count(vms[i].Stdout, "\n"), vms[i].Exit)
				continue
			}
			for _, d := range ds {
				fmt.Printf("%-40s DIFF %s\n", it.Construct, c09Sig(d, it.Construct))
			}
			os.WriteFile(filepath.Join(args[0], fmt.Sprintf("diff-%d.txt", i)), []byte(it.Src+"\n=====\n"+ds[0].Detail), 0o644)
		}
	}
}

func init() {
	// c09focus <dir> <construct-regexp> <n> [seed]: n programs drawn from the templates whose construct
	// matches, through both back ends in one batch (development aid; used to replay seeded mutations quickly)
	subcommands["c09focus"] = func(args []string) {
		re := regexp.MustCompile(args[1])
		n := 10
		fmt.Sscan(args[2], &n)
		seed := uint64(1)
		if len(args) > 3 {
			fmt.Sscan(args[3], &seed)
		}
		r := rand.New(rand.NewPCG(seed, 7))
		var items []c09Item
		seen := map[string]bool{}
		for tries := 0; tries < 20000 && len(items) < n; tries++ {
			t := c09Templates[r.IntN(len(c09Templates))]
			cons, src := t.gen(r)
			if !re.MatchString(cons) || seen[src] {
				continue
			}
			seen[src] = true
			items = append(items, c09Item{Construct: cons, Src: src})
		}
		var srcs []string
		var vms []c09VM
		for _, it := range items {
			srcs = append(srcs, it.Src)
			vms = append(vms, c09RunVM(it.Src))
		}
		nats := c09BuildRunBatch(args[0], srcs)
		bad := 0
		for i, it := range items {
			ds := c09Compare(vms[i], nats[i])
			if nats[i].Status != "ok" && len(ds) == 0 {
				fmt.Printf("%-34s %s %s\n", it.Construct, nats[i].Status, head(nats[i].Detail, 120))
				continue
			}
			if len(ds) == 0 {
				fmt.Printf("%-34s same (%d lines)\n", it.Construct, strings.Count(vms[i].Stdout, "\n"))
			}
			for _, d := range ds {
				bad++
				fmt.Printf("%-34s DIFF %s\n%s\n", it.Construct, c09Sig(d, it.Construct), head(d.Detail, 500))
			}
		}
		fmt.Printf("diverging observations: %d of %d programs\n", bad, len(items))
	}
}
