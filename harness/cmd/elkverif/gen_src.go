package main

// Seeded generators of hostile source text for the front-end monitors (C03, C04).

import (
	"math/rand/v2"
	"strings"
	"sync"
	"unicode"

	"github.com/elk-language/elk/token"
)

var (
	vocabOnce sync.Once
	vocab     []string
)

// tokenVocabulary harvests every fixed lexeme from the token table of the tree under test and
// adds hand-written fragments for the dynamic token kinds and every lexing-mode opener.
func tokenVocabulary() []string {
	vocabOnce.Do(func() {
		seen := map[string]bool{}
		add := func(s string) {
			if s != "" && !seen[s] {
				seen[s] = true
				vocab = append(vocab, s)
			}
		}
		for t := 0; t < token.Length(); t++ {
			name := token.Type(t).Name()
			if i := strings.Index(name, " ("); i > 0 {
				name = name[:i]
			}
			if name == "" || strings.ContainsAny(name, " ") {
				continue
			}
			allUpper := true
			for _, r := range name {
				if unicode.IsLower(r) || !(unicode.IsLetter(r) || r == '_') {
					allUpper = false
				}
			}
			if allUpper && len(name) > 2 {
				continue // placeholder such as PUBLIC_IDENTIFIER
			}
			add(name)
		}
		for _, s := range []string{
			"foo", "_bar", "Foo", "_Baz", "@ivar", "$dollar", "x", "zażółć", "Ω", "日本",
			"1", "0", "123", "1_000", "0x1f", "0b101", "0o17", "0q123", "0d12", "1u", "1i8", "255u8", "1i64", "1.5", "1e10", "1.5e-3", "1.5bf", "1f32", "2.5f64", "0x", "1__0", "1.", ".5",
			`"str"`, `"a\nb"`, `"a${x}b"`, `"a#{x}b"`, `"$x"`, `"#y"`, `"A"`, `"\xff"`, `"\U0001F600"`, `"unterminated`, `"${"`, `"${"nested ${1 + "deep"}"}"`,
			`'raw'`, `'unterminated`, "`c`", "`\\n`", "`ab`", "`", "r`c`", "``", "```",
			"%/re/", "%/a${x}b/imx", "%/unterminated", "%/(?i:a)/", "%/\\//",
			"\\w[a b c]", "\\s[a b]", "\\x[ff 1a]", "\\b[101 11]", "^w[a b]", "^s[x]", "^x[ff]", "^b[10]", "%w[a b]", "%s[a]", "%x[1f]", "%b[1]", "\\w[unterminated", "\\x[zz]", "%b[12]",
			"# comment", "// comment", "#[ block ]#", "/* block */", "#[ unterminated", "/* unterminated", "##[ doc ]##", "/** doc **/", "##[ unterminated", "#[ #[ nested ]# ]#",
			":sym", `:"quoted sym"`, ":+", ":[]", ":[]=",
			"\n", "\r\n", "\r", "\t", " ", "  ", "\n\n\n", "\\\n", "\\",
			"\xff", "\xc3", "\xe2\x82", "\xf0\x9f\x98", "\x00", "\x1b[31m", "\u200d", "\ufeff", " ", "é", "👍🏽", "é",
			"(", ")", "[", "]", "{", "}", "|", "->", "=>", "||", "&&", "!{", "@{", "?[", "::[",
		} {
			add(s)
		}
	})
	return vocab
}

const specialBytes = "\"'`${}#[]()%/\\\n\r\t |^<>=.:;,@"

func randBytes(r *rand.Rand, n int) string {
	b := make([]byte, n)
	for i := range b {
		switch r.IntN(4) {
		case 0:
			b[i] = byte(r.IntN(256))
		case 1:
			b[i] = specialBytes[r.IntN(len(specialBytes))]
		default:
			b[i] = byte(32 + r.IntN(95))
		}
	}
	return string(b)
}

// genTokenSoup renders a random sequence of vocabulary fragments with random separators.
func genTokenSoup(r *rand.Rand, maxFrags int) string {
	v := tokenVocabulary()
	n := 1 + r.IntN(maxFrags)
	var sb strings.Builder
	seps := []string{"", " ", " ", " ", "\n", "\t", "\r\n", "  "}
	for i := 0; i < n; i++ {
		if r.IntN(12) == 0 {
			sb.WriteString(randBytes(r, 1+r.IntN(6)))
		} else {
			sb.WriteString(v[r.IntN(len(v))])
		}
		sb.WriteString(seps[r.IntN(len(seps))])
	}
	return sb.String()
}

var srcSnippets = []string{
	"def foo(a: Int, b: String = \"x\"): Int\n  a + b.length\nend\n",
	"class Foo < Bar\n  include Baz\n  var @a: Int\n  init(@a); end\n  def +(other: Foo): Foo then Foo(@a + other.a)\nend\n",
	"x := [1, 2.5, \"a#{b}c\", :sym, `c`, %[1, 2], {a: 1, \"b\" => 2}, ^[1], 1...5, ..<3]\n",
	"switch x\ncase [a, *rest] if a > 1 then a\ncase {name: String() as n} then n\ncase 1..<5 || 10 then nil\nelse 3\nend\n",
	"do\n  throw unchecked Error(\"x\")\ncatch ZeroDivisionError() as e\n  println e.inspect\nfinally\n  cleanup()\nend\n",
	"f := |a: Int, b: Int|: Int -> a + b\ng := -> 1\nh := |x| -> do\n  x * 2\nend\n",
	"for i in 1...10\n  next if i % 2 == 0\n  println(\"i=${i} #{i.inspect}\")\nend\n$outer: while true\n  break[outer] 5\nend\n",
	"macro foo(a: ExpressionNode)\n  quote\n    x := !{a}\n    !{unhygienic(a)} + x\n  end\nend\nfoo!(1 + 2)\n",
	"async def fetch(url: String): String ! IOError\n  res := await get(url)\n  res.body\nend\np := go work()\n",
	"module M\n  interface I[T < Comparable[T]]\n    sig cmp(a: T, b: T): Int?\n  end\n  typedef Num = Int | Float & ~nil\nend\n",
	"a ??= b || c && !d\nx = a <=> b\ny = a &~ b >>> 2 <<< 1\nz = a |> f() |> g(1)\n",
	"%/ab+c(?<name>\\d+)${x}/imxs.matches(\"abc#{1}\")\n\\w[foo bar ${baz}]\n%x[ff ab]\n",
	"##[\n  Doc comment `code` here\n]##\nsealed abstract class ::Std::Foo[V, +T, -U] < Value; end\n",
	"var a: List[Int?]? = nil\nval b = a as List[Int] | nil\nc := must a\nd := try e()\nprintln \"a\" \"b\"\n",
	"struct Point\n  x: Int\n  y: Int = 3\nend\nenum Color\n  RED\n  GREEN\nend\n",
}

// mutateSource applies a few byte/line level mutations.
func mutateSource(r *rand.Rand, s string) string {
	b := []byte(s)
	for k := 0; k < 1+r.IntN(3); k++ {
		if len(b) == 0 {
			break
		}
		switch r.IntN(6) {
		case 0: // truncate (REPL-style incomplete input)
			b = b[:r.IntN(len(b)+1)]
		case 1: // delete a span
			i := r.IntN(len(b))
			j := i + r.IntN(8)
			if j > len(b) {
				j = len(b)
			}
			b = append(b[:i:i], b[j:]...)
		case 2: // insert a fragment
			i := r.IntN(len(b) + 1)
			v := tokenVocabulary()
			f := v[r.IntN(len(v))]
			b = append(b[:i:i], append([]byte(f), b[i:]...)...)
		case 3: // flip a byte
			b[r.IntN(len(b))] = byte(r.IntN(256))
		case 4: // duplicate a span
			i := r.IntN(len(b))
			j := i + r.IntN(12)
			if j > len(b) {
				j = len(b)
			}
			b = append(b[:j:j], append(append([]byte{}, b[i:j]...), b[j:]...)...)
		case 5: // LF -> CRLF
			b = []byte(strings.ReplaceAll(string(b), "\n", "\r\n"))
		}
	}
	return string(b)
}

// genHostileSource picks one of the generation strategies.
func genHostileSource(r *rand.Rand) string {
	switch r.IntN(10) {
	case 0:
		return randBytes(r, r.IntN(60))
	case 1, 2, 3:
		return genTokenSoup(r, 14)
	case 4:
		return genTokenSoup(r, 40)
	case 5, 6, 7:
		return mutateSource(r, srcSnippets[r.IntN(len(srcSnippets))])
	case 8:
		return srcSnippets[r.IntN(len(srcSnippets))] + genTokenSoup(r, 6)
	default:
		// nesting
		open := []string{"(", "[", "{", "\"${", "-> ", "!", "-", "[", "%[", "^[", "{a: ", "do ", "if a then ", "\"#{"}[r.IntN(14)]
		n := 1 + r.IntN(40)
		return strings.Repeat(open, n) + "1"
	}
}
