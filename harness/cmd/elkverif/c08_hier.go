package main

// C08, second family: a call bound statically to a bytecode method (CALL_METHOD_BC, inlined getters)
// behaves like the same call resolved at run time. A random chain of user classes K0 <- K1 <- K2
// (plain, generic, or a plain child of an instantiated generic parent) overrides a random subset of
// four methods (a zero-argument method, a one-argument method, an operator method and an attribute
// getter); one object is called through receivers of every static type that admits it. All variants
// must print what the most derived override returns (which the generator also knows: path "model").

import (
	"fmt"
	"math/rand/v2"
	"os"
	"strings"
)

type c08HMethod struct {
	name string // describe | calc | + | tag
	kind string // signature component
}

var c08HMethods = []c08HMethod{{"describe", "method0"}, {"calc", "method1"}, {"+", "operator"}, {"tag", "getter"}}

type c08HVariant struct {
	name, decls, body, expr string
}

func c08HierCase(c *Ctx, caseIdx int, r *rand.Rand) {
	depth := 1 + r.IntN(3) // number of classes in the chain
	if depth == 1 && r.IntN(2) == 0 {
		depth = 2
	}
	shape := []string{"plain", "generic", "generic-then-plain"}[r.IntN(3)]
	// generic[i]: class Ki is declared with a type parameter
	generic := make([]bool, depth)
	for i := range generic {
		switch shape {
		case "generic":
			generic[i] = true
		case "generic-then-plain":
			generic[i] = i == 0 || (i == 1 && depth == 3 && r.IntN(2) == 0)
		}
	}
	if shape == "generic-then-plain" && depth == 1 {
		shape = "generic"
	}
	typeOf := func(i int) string {
		if generic[i] {
			return fmt.Sprintf("K%d[Int]", i)
		}
		return fmt.Sprintf("K%d", i)
	}
	newOf := func(i int) string {
		if generic[i] {
			return fmt.Sprintf("K%d::[Int](7)", i)
		}
		return fmt.Sprintf("K%d(7)", i)
	}
	// overrides[i][m]
	overrides := make([]map[string]bool, depth)
	for i := range overrides {
		overrides[i] = map[string]bool{}
		for _, m := range c08HMethods {
			overrides[i][m.name] = i == 0 || r.IntN(2) == 0
		}
	}
	sealedLeaf := r.IntN(4) == 0
	var sb strings.Builder
	sb.WriteString(c08Prelude)
	sb.WriteString("class U08\n  def describe: String then \"U.describe\"\n  def calc(n: Int): Int then 0 - n\n  def +(o: Int): Int then 0 - o\n  def tag: String then \"U.tag\"\nend\n")
	sb.WriteString("interface I08\n  sig describe: String\n  sig calc(n: Int): Int\n  sig +(o: Int): Int\n  sig tag: String\nend\n")
	for i := 0; i < depth; i++ {
		head := fmt.Sprintf("class K%d", i)
		if generic[i] {
			head += "[T]"
		}
		if i == depth-1 && sealedLeaf {
			head = "sealed " + head
		}
		if i > 0 {
			if generic[i-1] {
				if generic[i] {
					head += fmt.Sprintf(" < K%d[T]", i-1)
				} else {
					head += fmt.Sprintf(" < K%d[Int]", i-1)
				}
			} else {
				head += fmt.Sprintf(" < K%d", i-1)
			}
		}
		sb.WriteString(head + "\n")
		if i == 0 {
			elem := "Int"
			if generic[0] {
				elem = "T"
			}
			fmt.Fprintf(&sb, "  attr tag: String\n  attr item: %s\n  init(@item: %s)\n    @tag = \"K0.tag\"\n  end\n", elem, elem)
			sb.WriteString("  def describe: String then \"K0.describe\"\n  def calc(n: Int): Int then n + 0\n  def +(o: Int): Int then o + 0\n")
			sb.WriteString("  def relay_describe: any then describe()\n  def relay2_describe: any then self.describe\n")
			sb.WriteString("  def relay_calc: any then calc(3)\n  def relay2_calc: any then self.calc(3)\n")
			sb.WriteString("  def relay_plus: any then self + 3\n  def relay2_plus: any then self.+(3)\n")
			sb.WriteString("  def relay_tag: any then tag()\n  def relay2_tag: any then self.tag\n")
		} else {
			if overrides[i]["describe"] {
				fmt.Fprintf(&sb, "  def describe: String then \"K%d.describe\"\n", i)
			}
			if overrides[i]["calc"] {
				fmt.Fprintf(&sb, "  def calc(n: Int): Int then n + %d00\n", i)
			}
			if overrides[i]["+"] {
				fmt.Fprintf(&sb, "  def +(o: Int): Int then o + %d00\n", i)
			}
			if overrides[i]["tag"] {
				fmt.Fprintf(&sb, "  pure def tag: String then \"K%d.tag\"\n", i)
			}
		}
		sb.WriteString("end\n")
	}
	c.Distinct(fmt.Sprintf("hier|%s|%d|%v", shape, depth, overrides))

	type probe struct {
		m       c08HMethod
		objCls  int
		variant string
		want    string
	}
	var probes []probe
	var decls, blocks strings.Builder
	emit := func(m c08HMethod, objCls int, variant, declText, body, expr, want string) {
		id := len(probes)
		probes = append(probes, probe{m, objCls, variant, want})
		decls.WriteString(strings.ReplaceAll(declText, "$ID", fmt.Sprint(id)))
		body = strings.ReplaceAll(body, "$ID", fmt.Sprint(id))
		expr = strings.ReplaceAll(expr, "$ID", fmt.Sprint(id))
		fmt.Fprintf(&blocks, "do\n%s  println(\"R%d.0 \" + c08s(%s))\ncatch ::Std::Error() as e\n  println(\"R%d.0 ERR \" + e.class.name + \": \" + e.message)\ncatch e\n  println(\"R%d.0 THROWN \" + c08s(e))\nend\n", body, id, expr, id, id)
	}
	call := func(m c08HMethod, recv string, dot string) string {
		switch m.name {
		case "describe", "tag":
			return recv + dot + m.name
		case "calc":
			return recv + dot + "calc(3)"
		default:
			return recv + dot + "+(3)"
		}
	}
	for objCls := 0; objCls < depth; objCls++ {
		// a leaf object is the interesting one; ancestors' own instances are probed less often
		if objCls < depth-1 && r.IntN(3) != 0 {
			continue
		}
		nw := newOf(objCls)
		for _, m := range c08HMethods {
			// model: the most derived override at or above the object's class
			top := 0
			for i := 0; i <= objCls; i++ {
				if overrides[i][m.name] {
					top = i
				}
			}
			var want string
			switch m.name {
			case "describe", "tag":
				want = fmt.Sprintf("\"K%d.%s\"", top, m.name)
			default:
				want = fmt.Sprint(3 + top*100)
			}
			emit(m, objCls, "direct", "", "", call(m, nw, "."), want)
			for a := 0; a <= objCls; a++ {
				sfx := "ancestor"
				if a == objCls {
					sfx = "exact"
				}
				T := typeOf(a)
				emit(m, objCls, "typed-"+sfx, "", fmt.Sprintf("  var x$ID: %s = %s\n", T, nw), call(m, "x$ID", "."), want)
				if m.name == "+" {
					emit(m, objCls, "typed-"+sfx+"-opform", "", fmt.Sprintf("  var x$ID: %s = %s\n", T, nw), "(x$ID + 3)", want)
				}
				emit(m, objCls, "param-"+sfx, fmt.Sprintf("def via$ID(x: %s): any then %s\n", T, call(m, "x", ".")), "", "via$ID("+nw+")", want)
				emit(m, objCls, "nilsafe-"+sfx, "", fmt.Sprintf("  var x$ID: %s? = %s\n", T, nw), call(m, "x$ID", "?."), want)
				if r.IntN(2) == 0 {
					emit(m, objCls, "closure-"+sfx, "", fmt.Sprintf("  f$ID := |x: %s|: any -> %s\n", T, call(m, "x", ".")), "f$ID("+nw+")", want)
				}
				if r.IntN(2) == 0 {
					emit(m, objCls, "union-"+sfx, "", fmt.Sprintf("  var x$ID: %s | U08 = %s\n", T, nw), call(m, "x$ID", "."), want)
				}
				if r.IntN(2) == 0 {
					emit(m, objCls, "generic-"+sfx, fmt.Sprintf("def gen$ID[X < %s](x: X): any then %s\n", T, call(m, "x", ".")), "", "gen$ID("+nw+")", want)
				}
			}
			emit(m, objCls, "interface", "", fmt.Sprintf("  var x$ID: I08 = %s\n", nw), call(m, "x$ID", "."), want)
			rn := m.name
			if rn == "+" {
				rn = "plus"
			}
			emit(m, objCls, "implicit-self", "", "", nw+".relay_"+rn, want)
			emit(m, objCls, "explicit-self", "", "", nw+".relay2_"+rn, want)
		}
	}
	src := sb.String() + decls.String() + blocks.String()
	res := RunElk(src, nil)
	c.Count("programs_run", 1)
	c.Count("hier_programs", 1)
	if os.Getenv("VERIF_C08_DEBUG") != "" {
		fmt.Printf("PROGRAM\n%s\nSTDOUT\n%s\n%s\n", src, res.Stdout, diagString(res.Diagnostics))
	}
	if caseIdx%45 == 4 {
		c.Sample(map[string]string{"hier_program_head": head(src, 900)})
	}
	if res.Panic != "" {
		c.Violate("hier:"+shape+":go-panic:"+res.PanicPhase+":"+panicSite1(res.PanicStack), fmt.Sprintf("class-hierarchy program ended in a Go panic: %s\n%s\nprogram:\n%s", head(res.Panic, 300), head(res.PanicStack, 1500), src), caseIdx, src)
		return
	}
	if res.Rejected {
		c.Violate("hier:"+shape+":rejected:"+head(firstDiagMessage(res), 60), fmt.Sprintf("class-hierarchy program built from accepted constructs was rejected:\n%s\nprogram:\n%s", head(diagString(res.Diagnostics), 600), src), caseIdx, src)
		return
	}
	out := map[[2]int]string{}
	c08ParseOut(res.Stdout, out)
	reported := map[string]bool{}
	for id, p := range probes {
		got, ok := out[[2]int{id, 0}]
		c.Eval(1)
		c.Count("hier_calls_compared", 1)
		c.Count("hier_path:"+p.variant, 1)
		if !ok {
			got = "<no output>; error: " + head(res.ErrInspect, 200)
		}
		if got != p.want {
			g := "plain"
			if strings.Contains(typeOf(0), "[") {
				g = "generic-root"
			}
			what := "value"
			if strings.HasPrefix(got, "ERR") || !ok {
				what = "error"
			}
			// one report per method kind and path class: the first disagreeing probe
			cls := "by-name"
			switch {
			case strings.HasSuffix(p.variant, "-self"):
				cls = "self-call"
			case strings.HasPrefix(p.variant, "nilsafe"), strings.HasPrefix(p.variant, "union"), p.variant == "interface":
			case strings.Contains(p.variant, "ancestor"):
				cls = "static-type-ancestor"
			default:
				cls = "static-type-exact"
			}
			if reported[p.m.kind+cls] {
				c.Count("hier_further_disagreements_same_class", 1)
				continue
			}
			reported[p.m.kind+cls] = true
			c.Violate(fmt.Sprintf("hier:%s:%s:%s!=model:%s", g, p.m.kind, cls, what),
				fmt.Sprintf("object of class K%d, method %s, path %s: printed %s, the most derived override returns %s\n(shape %s, depth %d, overrides %v)\nprogram:\n%s\nstdout:\n%s", p.objCls, p.m.name, p.variant, head(got, 200), p.want, shape, depth, overrides, src, head(res.Stdout, 1500)),
				caseIdx, src)
		}
	}
}
