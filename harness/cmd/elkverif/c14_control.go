package main

// C13 / C14 — generated programs run on the real pipeline, printed trace compared with the
// reference interpreter's trace; failing programs are delta-minimised and named by their shape.

import (
	"fmt"
	"math/rand/v2"
	"os"
	"strings"
)

func gprogCase(c *Ctx, caseIdx int, r *rand.Rand, k gKnobs, tag string) {
	var prog *gProg
	var want string
	var feats map[string]bool
	for try := 0; try < 5; try++ {
		prog = genProg(r, k)
		var ok bool
		if want, ok, feats = prog.runFeatures(); ok {
			break
		}
		prog = nil
		c.Count("programs_discarded_by_interpreter_budget", 1)
	}
	if prog == nil {
		return
	}
	src := prog.source()
	c.Eval(1)
	if caseIdx%400 == 0 {
		c.Sample(map[string]string{"program": head(src, 900), "expected_trace_head": head(want, 200)})
	}
	res := RunElk(src, nil)
	if res.Rejected {
		c.Count("programs_rejected_by_checker", 1)
		c.Extra("last_rejection", head(diagString(res.Diagnostics), 300))
		c.Distinct("rejected|" + head(firstDiagMessage(res), 50))
		if os.Getenv("VERIF_DUMP_REJECTED") != "" {
			os.WriteFile(fmt.Sprintf("/tmp/w/rej-%d.elk", caseIdx), []byte(src+"\n# "+diagString(res.Diagnostics)), 0o644)
		}
		return
	}
	c.Count("programs_run", 1)
	sh := prog.shape()
	for _, f := range []string{"closure{", "try{", "finally{", "defer;", "while{", "for{", "loop{", "break", "continue", "return;", "throw;", "catch{", "catchany{", "(clo)", "(??)", "letclo;", "boolcoalesce;", "maker{"} {
		if strings.Contains(sh, f) {
			c.Count("feature_"+strings.Trim(f, "{;()"), 1)
		}
	}
	c.Distinct(sh)
	c.Count("trace_lines_checked", int64(strings.Count(want, "\n")))
	got, bad := outcome(res)
	if !bad && got == want {
		return
	}
	// divergences of programs that exercise a construct with a listed defect are attributed to it
	for f := range prog.staticFeatures() {
		if feats == nil {
			feats = map[string]bool{}
		}
		feats[f] = true
	}
	for _, f := range []string{"abrupt-exit-from-catch-body-with-finally", "defer-and-closure-in-one-function"} {
		if feats[f] {
			c.Violate("feature:"+f, fmt.Sprintf("program exercising %q diverges from the reference\nprogram:\n%s\nreference trace:\n%s\nelk output:\n%s", f, head(src[len(gPrelude):], 2500), head(want, 800), head(got, 800)), caseIdx, src)
			return
		}
	}
	// minimise
	fails := func(p *gProg) bool {
		w, ok := p.run()
		if !ok {
			return false
		}
		r2 := RunElk(p.source(), nil)
		if r2.Rejected {
			return false
		}
		g2, bad2 := outcome(r2)
		return bad2 || g2 != w
	}
	min := prog.minimise(fails, 250)
	mw, _ := min.run()
	mr := RunElk(min.source(), nil)
	mg, _ := outcome(mr)
	kind := "trace-differs"
	if mr.Panic != "" {
		kind = "vm-panic:" + panicSite1(mr.PanicStack)
	} else if !mr.Err.IsUndefined() {
		kind = "uncaught-error"
	}
	c.Violate(kind+":"+min.shape(), fmt.Sprintf("minimised program:\n%s\nreference trace:\n%s\nelk output:\n%s\n(first found in a program of shape %s)", min.source()[len(gPrelude):], mw, mg, head(sh, 300)), caseIdx, min.source())
}

// outcome renders what the run produced as one comparable string.
func outcome(res *ElkResult) (string, bool) {
	if res.Panic != "" {
		return res.Stdout + "PANIC " + head(res.Panic, 200) + "\n", true
	}
	if !res.Err.IsUndefined() {
		return res.Stdout + "UNCAUGHT-ELK-ERROR " + head(res.ErrInspect, 200) + "\n", true
	}
	return res.Stdout, false
}

func init() {
	register(&Check{
		ID:   "C14",
		Rule: "seeded generator of well-typed terminating programs over loop/while/for with labelled and unlabelled break/continue, return, throw, do/catch (literal and typed patterns)/finally, defer, if/else, && || ?? with side-effecting operands (markers print on evaluation), functions; every statement prints a unique marker; the printed trace is compared with a reference interpreter; failing programs are delta-minimised and named by the shape of the minimal program; distinct = program shapes",
		NumCases: func(tier string) int {
			if tier == "thorough" {
				return 30000
			}
			return 5000
		},
		Case: func(c *Ctx, i int, r *rand.Rand) {
			gprogCase(c, i, r, gKnobs{control: true, closures: i%5 == 0, fns: r.IntN(3), depth: 2 + r.IntN(2), stmtsPer: 2 + r.IntN(2)}, "C14")
		},
		MinCounters: map[string]int64{"programs_run": 2000, "feature_finally": 300, "feature_defer": 100, "feature_break": 300, "feature_continue": 300, "feature_catch": 300, "feature_??": 300, "trace_lines_checked": 8000},
		Assumptions: []string{"reference semantics: finally runs exactly once on every exit path (normal, return, break, continue, throw, also out of a catch body); deferred statements run at function exit in reverse registration order, after finally blocks; loop-body locals and for variables are fresh per iteration"},
	})
	register(&Check{
		ID:   "C13",
		Rule: "seeded generator of programs building nested closures (depth <= 3) that capture locals, parameters, loop variables and other closures, read and write them, are called before and after the defining frame/iteration ends, inside functions and loops; the printed trace is compared with a reference interpreter with one shared cell per captured variable per activation; failing programs are delta-minimised; distinct = program shapes",
		NumCases: func(tier string) int {
			if tier == "thorough" {
				return 30000
			}
			return 5000
		},
		Case: func(c *Ctx, i int, r *rand.Rand) {
			gprogCase(c, i, r, gKnobs{control: i%3 == 0, closures: true, fns: r.IntN(3), depth: 2 + r.IntN(2), stmtsPer: 2 + r.IntN(3)}, "C13")
		},
		MinCounters: map[string]int64{"programs_run": 2000, "feature_closure": 1500, "feature_clo": 1000, "trace_lines_checked": 8000},
		Assumptions: []string{"closures capture variables by reference; every activation and every loop iteration has its own cell per declared variable"},
	})
}
