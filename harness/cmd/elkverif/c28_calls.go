package main

// C28 monitor 2 — call monitor. For every namespace with constructible receivers and every callable
// method visible on it, Elk programs `r := recv.m(args); r` are generated with type-directed
// arguments for every admitted argument count and run in-process on the real VM. The top-level result
// value (or the uncaught thrown value) is taken through the Go API and its run-time class is compared
// with the declared return (throw) type.

import (
	"context"
	"fmt"
	"os"
	"math/rand/v2"
	"regexp"
	"sort"
	"strings"
	"time"

	"github.com/elk-language/elk/bitfield"
	"github.com/elk-language/elk/types"
	"github.com/elk-language/elk/types/checker"
	"github.com/elk-language/elk/value"
	"github.com/elk-language/elk/vm"
)

// c28Lit is a constructible value of a std class: used as receiver and (without Setup) as argument.
type c28Lit struct {
	Setup string   // statements run before the call
	Expr  string   // expression denoting the value
	Args  []string // class type arguments, positional, as std class full names ("Std::Int")
	Heavy bool     // huge / unbounded receiver: only zero-parameter and allow-listed operator methods
	Only  string   // when set: receiver is used only for methods matching this regexp
	Not   string   // when set: receiver is not used for methods matching this regexp (avoid rule, see known findings)
}

func lits(args []string, exprs ...string) []c28Lit {
	out := make([]c28Lit, len(exprs))
	for i, e := range exprs {
		out[i] = c28Lit{Expr: e, Args: args}
	}
	return out
}

var c28Int = []string{"Std::Int"}
var c28Str = []string{"Std::String"}
var c28IntStr = []string{"Std::Int", "Std::String"}

const c28Big = "36893488147419173232" // 2**65 + 70000: a BigInt

var c28Lits = map[string][]c28Lit{
	"Std::Int": append(lits(nil, "0", "1", "(-7)", "42", "70000"),
		c28Lit{Expr: "4611686018427387904", Heavy: true}, c28Lit{Expr: c28Big, Heavy: true}, c28Lit{Expr: "(-" + c28Big + ")", Heavy: true}),
	"Std::Float":    lits(nil, "0.0", "1.5", "(-2.25)", "1e20"),
	"Std::BigFloat": lits(nil, "1.5bf", "0.0bf", "(-3.25bf)"),
	"Std::Float64":  lits(nil, "1.5f64", "(-0.5f64)"),
	"Std::Float32":  lits(nil, "2.5f32", "(-0.5f32)"),
	"Std::Int64":    lits(nil, "3i64", "(-5i64)", "9223372036854775807i64"),
	"Std::Int32":    lits(nil, "3i32", "(-5i32)", "2147483647i32"),
	"Std::Int16":    lits(nil, "3i16", "(-5i16)", "32767i16"),
	"Std::Int8":     lits(nil, "3i8", "(-5i8)", "127i8"),
	"Std::UInt64":   lits(nil, "3u64", "0u64", "18446744073709551615u64"),
	"Std::UInt32":   lits(nil, "3u32", "0u32", "4294967295u32"),
	"Std::UInt16":   lits(nil, "3u16", "0u16", "65535u16"),
	"Std::UInt8":    lits(nil, "3u8", "0u8", "255u8"),
	"Std::UInt":     lits(nil, "3u", "0u"),
	"Std::String":   lits(nil, `"foo"`, `""`, `"zażółć gęślą jaźń"`, `"12"`, `"a-b c"`),
	"Std::Char":     lits(nil, "`a`", "`ż`", "`7`"),
	"Std::Symbol":   lits(nil, ":foo", `:"with space"`),
	"Std::Bool":     lits(nil, "true", "false"),
	"Std::True":     lits(nil, "true"),
	"Std::False":    lits(nil, "false"),
	"Std::Nil":      lits(nil, "nil"),
	"Std::ArrayList": append(lits(c28Int, "[1, 2, 3]", "[5]"), append(lits(c28Str, `["a", "b"]`),
		c28Lit{Setup: "var el: ArrayList[Int] = []", Expr: "el", Args: c28Int})...),
	"Std::ArrayTuple":           append(lits(c28Int, "%[1, 2, 3]"), lits(c28Str, `%["a", "b"]`)...),
	"Std::HashMap":              lits(c28IntStr, `{ 1 => "a", 2 => "b" }`),
	"Std::HashRecord":           lits(c28IntStr, `%{ 1 => "a", 2 => "b" }`),
	"Std::HashSet":              lits(c28Int, "^[1, 2, 3]"),
	"Std::ClosedRange":          append(lits(c28Int, "(1...5)", "(3...3)"), lits([]string{"Std::Float"}, "(1.5...3.5)")...),
	"Std::OpenRange":            lits(c28Int, "(1<.<5)"),
	"Std::LeftOpenRange":        lits(c28Int, "(1<..5)"),
	"Std::RightOpenRange":       lits(c28Int, "(1..<5)"),
	"Std::BeginlessClosedRange": lits(c28Int, "(...5)"),
	"Std::BeginlessOpenRange":   lits(c28Int, "(..<5)"),
	"Std::EndlessClosedRange":   []c28Lit{{Expr: "(1...)", Args: c28Int, Heavy: true}},
	"Std::EndlessOpenRange":     []c28Lit{{Expr: "(1<..)", Args: c28Int, Heavy: true}},
	"Std::Pair":                 lits(c28IntStr, `Pair(1, "a")`),
	"Std::Regex":                lits(nil, `%/a+/`, `%/(\d+)-x/i`),
	"Std::Date":                 lits(nil, "Date(2024, 2, 29)", "Date(1970, 1, 1)"),
	"Std::Time":                 lits(nil, "Time(12, 30, 15)", "Time(0, 0, 0)"),
	"Std::DateTime":             lits(nil, "DateTime(2024, 2, 29, 13, 2, 3)", "DateTime(1970, 1, 1, 0, 0, 0)"),
	"Std::Time::Span":           lits(nil, "90.seconds", "2.hours"),
	"Std::Date::Span":           lits(nil, "40.days", "2.years"),
	"Std::DateTime::Span":       lits(nil, "(DateTime(2024, 2, 29, 1, 2, 3) - DateTime(2023, 2, 20, 1, 2, 3))"),
	"Std::Timezone":             lits(nil, "Timezone::UTC"),
	// unlocking an unlocked (RW)Mutex is a Go fatal error that kills the process (known finding,
	// pinned witness): the unlock methods are only called on receivers that hold the lock
	"Std::Sync::Mutex": {{Expr: "Sync::Mutex()", Not: "^unlock$"}, {Setup: "mx := Sync::Mutex()\nmx.lock", Expr: "mx", Only: "^unlock$"}},
	"Std::Sync::RWMutex": {{Expr: "Sync::RWMutex()", Not: "^(unlock|read_unlock)$"}, {Setup: "rw := Sync::RWMutex()\nrw.lock", Expr: "rw", Only: "^unlock$"},
		{Setup: "rw := Sync::RWMutex()\nrw.read_lock", Expr: "rw", Only: "^read_unlock$"}},
	"Std::Sync::WaitGroup":      lits(nil, "Sync::WaitGroup()"),
	"Std::Sync::Once":           lits(nil, "Sync::Once()"),
	"Std::Channel": {
		{Setup: "ch := Channel::[Int](3)\nch << 1\nch << 2", Expr: "ch", Args: c28Int},
		{Setup: "ch := Channel::[Int](3)\nch << 1\nch.close", Expr: "ch", Args: c28Int},
	},
	"Std::Box":          lits(c28Int, "Box(1)"),
	"Std::ImmutableBox": lits(c28Int, "ImmutableBox(1)"),
	"Std::Result": {
		{Setup: "var rs: Result[Int, String] = Result.ok(1)", Expr: "rs", Args: c28IntStr},
		{Setup: "var rs: Result[Int, String] = Result.err(\"e\")", Expr: "rs", Args: c28IntStr},
	},
	"Std::Aborter":                 lits(nil, "Aborter()"),
	"Std::Error":                   lits(nil, `Error("boom")`),
	"Std::ArrayList::Iterator":     lits(c28Int, "[1, 2, 3].iter"),
	"Std::ArrayTuple::Iterator":    lits(c28Int, "%[1, 2, 3].iter"),
	"Std::HashMap::Iterator":       lits(c28IntStr, `{ 1 => "a" }.iter`),
	"Std::HashRecord::Iterator":    lits(c28IntStr, `%{ 1 => "a" }.iter`),
	"Std::HashSet::Iterator":       lits(c28Int, "^[1, 2].iter"),
	"Std::ClosedRange::Iterator":   lits(c28Int, "(1...5).iter"),
	"Std::OpenRange::Iterator":     lits(c28Int, "(1<.<5).iter"),
	"Std::LeftOpenRange::Iterator": lits(c28Int, "(1<..5).iter"),
	"Std::RightOpenRange::Iterator": lits(c28Int, "(1..<5).iter"),
	"Std::EndlessClosedRange::Iterator": lits(c28Int, "(1...).iter"),
	"Std::EndlessOpenRange::Iterator":   lits(c28Int, "(1<..).iter"),
	"Std::String::CharIterator":     lits(nil, `"foo".iter`),
	"Std::String::ByteIterator":     lits(nil, `"foo".byte_iter`),
	"Std::String::GraphemeIterator": lits(nil, `"foo".grapheme_iter`),
	"Std::FS::Path":                 lits(nil, `FS::Path("/nonexistent-c28/a.txt")`),
	"Std::StackTrace":               lits(nil, "Debug.stack_trace"),
}

// interfaces / mixins used as parameter types -> a std class whose literals implement them
var c28Implementers = map[string]string{
	"Std::String::Convertible": "Std::String", "Std::Inspectable": "Std::Int", "Std::Hashable": "Std::Int",
	"Std::Comparable": "Std::Int", "Std::Value": "Std::Int", "Std::Object": "Std::Error",
	"Std::List": "Std::ArrayList", "Std::Tuple": "Std::ArrayTuple", "Std::Map": "Std::HashMap", "Std::Record": "Std::HashRecord",
	"Std::Set": "Std::HashSet", "Std::ImmutableSet": "Std::HashSet", "Std::Collection": "Std::ArrayList", "Std::ImmutableCollection": "Std::ArrayTuple",
	"Std::Iterable": "Std::ArrayList", "Std::PrimitiveIterable": "Std::ArrayList", "Std::Iterator": "Std::ArrayList::Iterator",
	"Std::Range": "Std::ClosedRange", "Std::IterableRange": "Std::ClosedRange", "Std::Container": "Std::ArrayList",
	"Std::Duration": "Std::Time::Span", "Std::BigFloat::Convertible": "Std::Float", "Std::Lockable": "Std::Sync::Mutex",
	"Std::ReadChannel": "Std::Channel", "Std::WriteChannel": "Std::Channel",
}

// Methods that block, exit, touch the file system or the process: never called (listed in evidence).
var c28SkipRe = regexp.MustCompile(`^(Std::Kernel\.(exit|sleep|gets|timeout)|Std::Debug\.(start_cpu_profile|stop_cpu_profile|inspect_call_stack|inspect_value_stack)|` +
	`Std::(Channel|ReadChannel|WriteChannel)#(iter|next)|Std::Sync::WaitGroup#wait|` +
	`Std::Runtime\..*|Std::Promise[#.].*|Std::Thread(Pool)?[#.].*|Std::FS::.*[#.](read|write|delete|create|remove|open|mkdir|rm).*)$`)

// operator methods that are safe to call with BigInt operands / on Heavy receivers
var c28HeavyOps = map[string]bool{"+": true, "-": true, "*": true, "/": true, "%": true, "==": true, "!=": true, "<": true, "<=": true, ">": true, ">=": true,
	"<=>": true, "&": true, "|": true, "^": true, "=~": true, "===": true, "&~": true, "contains": true, "[]": false}

var c28BinaryOps = map[string]bool{"+": true, "-": true, "*": true, "/": true, "**": true, "%": true, "==": true, "!=": true, "=~": true, "!~": true, "===": true, "!==": true,
	"<": true, "<=": true, ">": true, ">=": true, "<=>": true, "<<": true, ">>": true, "<<<": true, ">>>": true, "&": true, "|": true, "^": true, "&~": true, "&&": true, "||": true, "??": true}

type c28Call struct {
	NS        string // namespace the receiver belongs to
	Singleton bool   // receiver is the namespace object itself (class-level / module method)
	M         *types.Method
	DeclNS    string // namespace that declares the method (== NS unless inherited)
	RecvNS    types.Namespace
}

func (cl *c28Call) Label() string {
	sep := "#"
	if cl.Singleton {
		sep = "."
	}
	return cl.NS + sep + cl.M.Name.String()
}

var c28OverloadSuffix = regexp.MustCompile(`@\d+$`)

func c28BaseName(name string) string {
	return c28OverloadSuffix.ReplaceAllString(name, "")
}

// c28BuildCalls derives the call monitor's case list from the environment.
func c28BuildCalls(w *c28World) {
	skipped := map[string]bool{}
	add := func(cl *c28Call) {
		label := cl.Label()
		declLabel := cl.DeclNS + label[len(cl.NS):]
		if c28SkipRe.MatchString(label) || c28SkipRe.MatchString(declLabel) {
			skipped[label+" (blocking / exiting / IO)"] = true
			return
		}
		w.calls = append(w.calls, cl)
	}
	for _, n := range w.namespaces {
		kind := c28NamespaceKind(n)
		name := n.Name()
		if name == "Root" || name == "" || strings.HasPrefix(name, "Std::Elk") || strings.HasPrefix(name, "Std::Test") {
			continue
		}
		// class-level methods, module methods, constructors: the receiver is the constant itself
		if kind == "module" {
			for _, m := range c28SortedMethods(n) {
				if c28Callable(m) {
					add(&c28Call{NS: name, Singleton: true, M: m, DeclNS: name, RecvNS: n})
				}
			}
		} else if s := n.Singleton(); s != nil && kind != "interface" {
			for _, m := range c28SortedMethods(s) {
				if c28Callable(m) {
					add(&c28Call{NS: name, Singleton: true, M: m, DeclNS: name, RecvNS: n})
				}
			}
		}
		if _, ok := c28Lits[name]; !ok {
			if kind == "class" {
				if init := n.Methods()[value.ToSymbol("#init")]; init != nil && c28Callable(init) {
					add(&c28Call{NS: name, Singleton: true, M: init, DeclNS: name, RecvNS: n})
				}
			}
			continue
		}
		seen := map[string]bool{}
		for parent := range types.Parents(n) {
			if _, isIface := parent.(*types.InterfaceProxy); isIface {
				continue
			}
			for _, m := range c28SortedMethods(parent) {
				mn := m.Name.String()
				if seen[mn] {
					continue
				}
				seen[mn] = true
				if !c28Callable(m) {
					continue
				}
				if mn == "#init" {
					if parent == n {
						add(&c28Call{NS: name, Singleton: true, M: m, DeclNS: name, RecvNS: n})
					}
					continue
				}
				add(&c28Call{NS: name, M: m, DeclNS: parent.Name(), RecvNS: n})
			}
		}
	}
	for s := range skipped {
		w.skipped = append(w.skipped, s)
	}
	sort.Strings(w.skipped)
}

// ---- type-directed expression generation ---------------------------------------------------------

type c28Gen struct {
	w        *c28World
	bind     map[string]string // class type parameter name -> std class full name
	selfLits []c28Lit
	heavyOK  bool // BigInt arguments allowed
	unsupp   string
}

func (g *c28Gen) byClass(name string, targs []types.Type, depth int) []string {
	if impl, ok := c28Implementers[name]; ok {
		if _, has := c28Lits[name]; !has {
			name = impl
		}
	}
	el := func(i int) string {
		if i < len(targs) {
			if xs := g.exprs(targs[i], depth+1); len(xs) > 0 {
				return xs[0]
			}
		}
		return "1"
	}
	if len(targs) > 0 && depth < 3 {
		switch name {
		case "Std::ArrayList":
			return []string{"[" + el(0) + "]"}
		case "Std::ArrayTuple":
			return []string{"%[" + el(0) + "]"}
		case "Std::HashSet":
			return []string{"^[" + el(0) + "]"}
		case "Std::HashMap":
			return []string{"{ " + el(0) + " => " + el(1) + " }"}
		case "Std::HashRecord":
			return []string{"%{ " + el(0) + " => " + el(1) + " }"}
		case "Std::Pair":
			return []string{"Pair(" + el(0) + ", " + el(1) + ")"}
		case "Std::Box":
			return []string{"Box(" + el(0) + ")"}
		case "Std::ImmutableBox":
			return []string{"ImmutableBox(" + el(0) + ")"}
		case "Std::ArrayList::Iterator":
			return []string{"[" + el(0) + "].iter"}
		case "Std::Int", "Std::String", "Std::Float":
		}
	}
	var out []string
	for _, l := range c28Lits[name] {
		if l.Setup != "" || (l.Heavy && !g.heavyOK) {
			continue
		}
		out = append(out, l.Expr)
	}
	if name == "Std::Int" && !g.heavyOK {
		out = []string{"0", "1", "2", "(-1)", "7", "64"}
	}
	if len(out) == 0 {
		g.unsupp = name
	}
	return out
}

func (g *c28Gen) exprs(t types.Type, depth int) []string {
	if depth > 4 {
		g.unsupp = "depth"
		return nil
	}
	switch tt := t.(type) {
	case *types.NamedType:
		return g.exprs(tt.Type, depth)
	case *types.Generic:
		var targs []types.Type
		for _, name := range tt.ArgumentOrder {
			if a := tt.ArgumentMap[name]; a != nil {
				targs = append(targs, a.Type)
			}
		}
		return g.byClass(tt.Namespace.Name(), targs, depth)
	case *types.Class:
		return g.byClass(tt.Name(), nil, depth)
	case *types.Mixin:
		return g.byClass(tt.Name(), nil, depth)
	case *types.Interface:
		return g.byClass(tt.Name(), nil, depth)
	case *types.Union:
		var out []string
		for _, e := range tt.Elements {
			out = append(out, g.exprs(e, depth+1)...)
		}
		return out
	case *types.Nilable:
		return append([]string{"nil"}, g.exprs(tt.Type, depth+1)...)
	case *types.TypeParameter:
		if b, ok := g.bind[tt.Name.String()]; ok {
			return g.byClass(b, nil, depth)
		}
		if tt.UpperBound != nil {
			if _, isAny := tt.UpperBound.(types.Any); !isAny {
				return g.exprs(tt.UpperBound, depth+1)
			}
		}
		return []string{"1", "2"}
	case *types.Callable:
		m := tt.Body
		var ps []string
		for i := range m.Params {
			ps = append(ps, fmt.Sprintf("p%d", i))
		}
		body := "nil"
		switch m.ReturnType.(type) {
		case types.Void, nil:
		default:
			rs := g.exprs(m.ReturnType, depth+1)
			if len(rs) == 0 {
				return nil
			}
			body = rs[0]
		}
		if len(ps) == 0 {
			return []string{"(-> " + body + ")"}
		}
		return []string{"(|" + strings.Join(ps, ", ") + "| -> " + body + ")"}
	case types.Self:
		var out []string
		for _, l := range g.selfLits {
			if l.Setup == "" && (!l.Heavy || g.heavyOK) {
				out = append(out, l.Expr)
			}
		}
		if len(out) == 0 {
			g.unsupp = "self"
		}
		return out
	case types.Any:
		return []string{"1", `"s"`, "nil", ":sym", "[1]"}
	case types.Bool:
		return []string{"true", "false"}
	case types.Nil:
		return []string{"nil"}
	case types.True:
		return []string{"true"}
	case types.False:
		return []string{"false"}
	case *types.IntLiteral:
		return []string{types.Inspect(tt)}
	case *types.SymbolLiteral:
		return []string{types.Inspect(tt)}
	case *types.StringLiteral:
		return []string{types.Inspect(tt)}
	case *types.SingletonClass:
		return []string{"::" + tt.AttachedObject.Name()}
	case *types.Not:
		g.unsupp = "not-type"
		return nil
	}
	g.unsupp = fmt.Sprintf("%T", t)
	return nil
}

// ---- run-time conformance of a value to a declared type ----------------------------------------

type c28Conf struct {
	bind      map[string]string
	recvClass *value.Class
	unchecked int
}

func c28RuntimeClass(name string) *value.Class {
	if cls, ok := c28RuntimeNamespace(name).(*value.Class); ok {
		return cls
	}
	return nil
}

// conforms reports whether v is an instance of t; parts that cannot be decided count as conforming.
func (k *c28Conf) conforms(v value.Value, t types.Type) bool {
	switch tt := t.(type) {
	case nil:
		return true
	case *types.NamedType:
		return k.conforms(v, tt.Type)
	case *types.Generic:
		return k.byName(v, tt.Namespace)
	case *types.Class:
		return k.byName(v, tt)
	case *types.Mixin:
		return k.byName(v, tt)
	case *types.Module:
		ref := c28RuntimeNamespace(tt.Name())
		return ref != nil && v.IsReference() && v.AsReference() == ref
	case *types.Union:
		for _, e := range tt.Elements {
			if k.conforms(v, e) {
				return true
			}
		}
		return false
	case *types.Nilable:
		return v.IsNil() || k.conforms(v, tt.Type)
	case *types.TypeParameter:
		if b, ok := k.bind[tt.Name.String()]; ok {
			if cls := c28RuntimeClass(b); cls != nil {
				return value.IsA(v, cls)
			}
		}
		k.unchecked++
		return true
	case types.Self:
		if k.recvClass != nil {
			return value.IsA(v, k.recvClass)
		}
		k.unchecked++
		return true
	case types.Bool:
		return value.IsA(v, value.BoolClass)
	case types.Nil:
		return v.IsNil()
	case types.True:
		return v.Class() == value.TrueClass
	case types.False:
		return v.Class() == value.FalseClass
	case types.Never:
		return false
	case *types.SymbolLiteral:
		return v.Class() == value.SymbolClass && strings.TrimPrefix(v.Inspect(), ":") == strings.TrimPrefix(types.Inspect(tt), ":")
	case *types.IntLiteral:
		return v.Inspect() == types.Inspect(tt)
	case *types.StringLiteral:
		return v.Class() == value.StringClass
	}
	k.unchecked++
	return true
}

func (k *c28Conf) byName(v value.Value, n types.Namespace) bool {
	cls := c28RuntimeClass(n.Name())
	if cls == nil {
		k.unchecked++ // interface or namespace without run-time class
		return true
	}
	return value.IsA(v, cls)
}

// ---- program construction ------------------------------------------------------------------------

type c28Program struct {
	src   string
	nargs int
	recv  string
}

func c28RenderCall(cl *c28Call, recv string, targs string, args []string, named string) (string, bool) {
	name := c28BaseName(cl.M.Name.String())
	all := append([]string{}, args...)
	if named != "" {
		all = append(all, named)
	}
	joined := strings.Join(all, ", ")
	switch {
	case name == "#init":
		return fmt.Sprintf("%s%s(%s)", recv, targs, joined), true
	case name == "[]" && len(args) == 1:
		return fmt.Sprintf("%s[%s]", recv, args[0]), true
	case name == "[]=" && len(args) == 2:
		return fmt.Sprintf("%s[%s] = %s", recv, args[0], args[1]), true
	case c28BinaryOps[name] && len(args) == 1:
		return fmt.Sprintf("%s %s %s", recv, name, args[0]), true
	case name == "-@" || name == "+@":
		return fmt.Sprintf("%s(%s)", name[:1], recv), len(args) == 0
	case name == "~" || name == "!":
		return fmt.Sprintf("%s(%s)", name, recv), len(args) == 0
	case name == "<<@":
		return fmt.Sprintf("<<%s", recv), len(args) == 0
	case name == "++" || name == "--":
		return "", false
	case strings.HasSuffix(name, "=") && len(args) == 1 && regexp.MustCompile(`^[a-z_][a-zA-Z0-9_]*=$`).MatchString(name):
		return fmt.Sprintf("%s.%s = %s", recv, strings.TrimSuffix(name, "="), args[0]), true
	case regexp.MustCompile(`^[a-z_][a-zA-Z0-9_]*[?!]?$`).MatchString(name):
		if len(all) == 0 {
			return fmt.Sprintf("%s.%s", recv, name), true
		}
		return fmt.Sprintf("%s.%s(%s)", recv, name, joined), true
	}
	return "", false
}

var c28ShortTypeName = func(full string) string { return "::" + full }

// c28CallCase runs the calls of one (namespace, method) pair.
func c28CallCase(c *Ctx, i int, r *rand.Rand) {
	w := c28GetWorld()
	if i-2 >= len(w.calls) {
		return
	}
	cl := w.calls[i-2]
	m := cl.M
	label := cl.Label()
	mname := m.Name.String()

	// the table monitor owns methods that do not resolve at run time
	cont, _ := c28RuntimeContainer(cl.NS, cl.Singleton && mname != "#init")
	if cont == nil || (cont.LookupMethod(m.Name) == nil && mname != "#init") {
		c.Count("calls_skipped_unresolved_at_runtime", 1)
		return
	}

	var recvs []c28Lit
	if cl.Singleton {
		recvs = []c28Lit{{Expr: "::" + cl.NS}}
		if mname == "#init" && len(cl.RecvNS.TypeParameters()) > 0 {
			recvs[0].Args = nil
			for range cl.RecvNS.TypeParameters() {
				recvs[0].Args = append(recvs[0].Args, "Std::Int")
			}
		}
	} else {
		for _, l := range c28Lits[cl.NS] {
			if (l.Only != "" && !regexp.MustCompile(l.Only).MatchString(mname)) || (l.Not != "" && regexp.MustCompile(l.Not).MatchString(mname)) {
				c.Count("receivers_avoided_by_rule", 1)
				continue
			}
			recvs = append(recvs, l)
		}
	}

	total, optional, rest, nrest := c28ParamShape(m)
	_ = total
	// positional parameters in order; arities = required .. required+optional (+ rest variants)
	var required, optionals []*types.Parameter
	var restParam, namedRestParam *types.Parameter
	for _, p := range m.Params {
		switch p.Kind {
		case types.NormalParameterKind:
			required = append(required, p)
		case types.DefaultValueParameterKind:
			optionals = append(optionals, p)
		case types.PositionalRestParameterKind:
			restParam = p
		case types.NamedRestParameterKind:
			namedRestParam = p
		}
	}
	if m.PostParamCount > 0 && restParam != nil {
		c.Count("calls_skipped_post_rest_params", 1)
		return
	}
	_ = optional
	_ = rest
	_ = nrest

	type plan struct {
		nopt, nrest int
		named       bool
	}
	var plans []plan
	for k := 0; k <= len(optionals); k++ {
		plans = append(plans, plan{nopt: k})
	}
	if restParam != nil {
		plans = append(plans, plan{nopt: len(optionals), nrest: 1}, plan{nopt: len(optionals), nrest: 3})
	}
	if namedRestParam != nil {
		plans = append(plans, plan{nopt: len(optionals), named: true})
	}

	budget := c.N(14, 60)
	variants := 2
	if len(required)+len(optionals) == 0 && restParam == nil && namedRestParam == nil {
		variants = 1
	}
	type job struct {
		rv   c28Lit
		pl   plan
		vidx int
	}
	var jobs []job
	for _, rv := range recvs {
		for _, pl := range plans {
			for v := 0; v < variants; v++ {
				jobs = append(jobs, job{rv, pl, v})
			}
		}
	}
	if len(jobs) > budget {
		// keep every plan and every receiver at least once, then sample
		keep := map[int]bool{}
		seenPlan := map[plan]bool{}
		seenRecv := map[string]bool{}
		perm := r.Perm(len(jobs))
		for _, j := range perm {
			if !seenPlan[jobs[j].pl] || !seenRecv[jobs[j].rv.Expr+jobs[j].rv.Setup] {
				keep[j] = true
				seenPlan[jobs[j].pl] = true
				seenRecv[jobs[j].rv.Expr+jobs[j].rv.Setup] = true
			}
		}
		for _, j := range perm {
			if len(keep) >= budget {
				break
			}
			keep[j] = true
		}
		var sel []job
		for j := range jobs {
			if keep[j] {
				sel = append(sel, jobs[j])
			}
		}
		jobs = sel
	}

	var built []*c28Job
	builtSeen := map[string]bool{}
	for _, jb := range jobs {
		rv := jb.rv
		heavyOK := c28HeavyOps[c28BaseName(mname)] && (cl.NS == "Std::Int" || cl.NS == "Std::Float" || cl.NS == "Std::BigFloat")
		if rv.Heavy && !(len(m.Params) == 0 || c28HeavyOps[c28BaseName(mname)]) {
			c.Count("calls_skipped_heavy_receiver", 1)
			continue
		}
		if strings.Contains(cl.NS, "Endless") && c28UnboundedRe.MatchString(c28BaseName(mname)) {
			// an endless range / its iterator never finishes an eager whole-collection operation: legitimate non-termination
			c.Count("calls_skipped_heavy_receiver", 1)
			continue
		}
		bind := map[string]string{}
		for k, tp := range cl.RecvNS.TypeParameters() {
			if k < len(rv.Args) {
				bind[tp.Name.String()] = rv.Args[k]
			}
		}
		g := &c28Gen{w: w, bind: bind, selfLits: recvs, heavyOK: heavyOK}
		if cl.Singleton {
			g.selfLits = c28Lits[cl.NS]
		}
		pick := func(p *types.Parameter) (string, bool) {
			xs := g.exprs(p.Type, 0)
			if len(xs) == 0 {
				return "", false
			}
			if jb.vidx == 0 {
				return xs[0], true
			}
			return xs[r.IntN(len(xs))], true
		}
		var args []string
		ok := true
		for _, p := range required {
			a, good := pick(p)
			ok = ok && good
			args = append(args, a)
		}
		for k := 0; k < jb.pl.nopt && ok; k++ {
			a, good := pick(optionals[k])
			ok = ok && good
			args = append(args, a)
		}
		for k := 0; k < jb.pl.nrest && ok; k++ {
			a, good := pick(restParam)
			ok = ok && good
			args = append(args, a)
		}
		named := ""
		if jb.pl.named && ok {
			a, good := pick(namedRestParam)
			ok = ok && good
			named = "c28key: " + a
		}
		if !ok {
			c.Count("calls_skipped_unsupported_argument_type", 1)
			c.Count("unsupported_arg:"+g.unsupp, 1)
			continue
		}
		targs := ""
		if mname == "#init" && len(rv.Args) > 0 {
			var ts []string
			for _, a := range rv.Args {
				ts = append(ts, "::"+a)
			}
			targs = "::[" + strings.Join(ts, ", ") + "]"
		}
		callExpr, good := c28RenderCall(cl, rv.Expr, targs, args, named)
		if !good {
			c.Count("calls_skipped_no_call_syntax", 1)
			continue
		}
		_, throwsNever := m.ThrowType.(types.Never)
		if m.ThrowType != nil && !throwsNever {
			callExpr = "try " + callExpr
		}
		_, isVoid := m.ReturnType.(types.Void)
		base := c28BaseName(mname)
		isSetter := base == "[]=" || (strings.HasSuffix(base, "=") && !c28BinaryOps[base])
		isVoid = (isVoid || m.ReturnType == nil || isSetter) && mname != "#init"
		dupKey := rv.Setup + "\x00" + callExpr
		if builtSeen[dupKey] {
			continue
		}
		builtSeen[dupKey] = true
		built = append(built, &c28Job{rv: rv, bind: bind, call: callExpr, void: isVoid, nargs: len(args)})
	}
	if len(built) == 0 {
		return
	}
	overloaded := c28OverloadSuffix.MatchString(mname) || len(m.Overloads) > 0
	if overloaded || len(built) == 1 {
		for _, jb := range built {
			c28RunSingle(c, i, cl, jb)
		}
		return
	}
	// one program for the whole case; any irregularity falls back to one program per call
	var sb strings.Builder
	sb.WriteString("var c28out: ArrayList[any] = []\n")
	for k, jb := range built {
		sb.WriteString("do\n")
		if jb.rv.Setup != "" {
			sb.WriteString(jb.rv.Setup + "\n")
		}
		if jb.void {
			fmt.Fprintf(&sb, "%s\nc28out << %%[%d, 0, nil]\n", jb.call, k)
		} else {
			fmt.Fprintf(&sb, "c28r := %s\nc28out << %%[%d, 1, c28r]\n", jb.call, k)
		}
		fmt.Fprintf(&sb, "catch c28e\nc28out << %%[%d, 2, c28e]\nend\n", k)
	}
	sb.WriteString("c28out\n")
	src := sb.String()
	res, blocked := c28Exec(src)
	c.Count("programs_generated", 1)
	fallback := func(why string) {
		c.Count("batches_rerun_call_by_call:"+why, 1)
		for _, jb := range built {
			c28RunSingle(c, i, cl, jb)
		}
	}
	switch {
	case blocked:
		fallback("blocked")
		return
	case res.Rejected:
		fallback("rejected")
		return
	case res.Panic != "":
		fallback("panic")
		return
	case !res.Err.IsUndefined():
		fallback("uncaught")
		return
	}
	out, ok := res.Result.SafeAsReference().(value.ArrayTuple)
	if !ok || out.Length() != len(built) {
		fallback("result-shape")
		return
	}
	if c28Debug() {
		fmt.Printf("BATCH %s\n%s=> %s\n", label, src, head(inspectSafe(res.Result), 2000))
	}
	for k := 0; k < out.Length(); k++ {
		tup, ok := out.AtVal(k).SafeAsReference().(value.ArrayTuple)
		if !ok || tup.Length() != 3 || !tup.AtVal(0).IsSmallInt() || !tup.AtVal(1).IsSmallInt() {
			fallback("result-shape")
			return
		}
		jb := built[tup.AtVal(0).AsSmallInt()]
		one := c28SingleSource(jb)
		switch tup.AtVal(1).AsSmallInt() {
		case 0, 1:
			c28Judge(c, i, cl, jb, tup.AtVal(2), value.Undefined, one)
		case 2:
			c28Judge(c, i, cl, jb, value.Undefined, tup.AtVal(2), one)
		}
	}
}

var c28UnboundedRe = regexp.MustCompile(`^(to_\w+|length|count|sum|is_empty|last|max|min|reduce|fold|inspect|reverse|sort\w*|map|filter|reject|each|any|all|none|find\w*|index_of|contains|includes|take_while|drop_while|drop|every|some|first|try_first|try_last|enumerate|zip|\w*_by|group\w*|partition|uniq\w*|join|flat_map|flatten|compact|tally|each_\w+|step|cycle)$`)

type c28Job struct {
	rv    c28Lit
	bind  map[string]string
	call  string
	void  bool
	nargs int
}

func c28SingleSource(jb *c28Job) string {
	var src strings.Builder
	if jb.rv.Setup != "" {
		src.WriteString(jb.rv.Setup + "\n")
	}
	if jb.void {
		src.WriteString(jb.call + "\n:c28_void\n")
	} else {
		src.WriteString("c28r := " + jb.call + "\nc28r\n")
	}
	return src.String()
}

// c28Exec checks, compiles and runs a program against the shared checker environment of this process
// (building the header environment once per program would dominate the run time). The time limit is
// only a guard against calls that block without burning CPU; it is not an oracle.
func c28Exec(src string) (res *ElkResult, blocked bool) {
	done := make(chan *ElkResult, 1)
	go func() { done <- c28ExecSync(src) }()
	select {
	case res = <-done:
		return res, false
	case <-time.After(20 * time.Second):
		return nil, true
	}
}

func c28ExecSync(source string) (res *ElkResult) {
	w := c28GetWorld()
	res = &ElkResult{Result: value.Undefined, Err: value.Undefined}
	phase := "check"
	defer func() {
		if r := recover(); r != nil {
			res.Panic = fmt.Sprint(r)
			res.PanicStack = string(debugStack())
			res.PanicPhase = phase
		}
	}()
	chunk, diags := checker.CheckSource("main.elk", source, w.env, bitfield.BitField16{}, nil)
	res.Diagnostics = diags
	if diags.IsFailure() || chunk == nil {
		res.Rejected = true
		return res
	}
	res.Chunk = chunk
	phase = "run"
	stdout, stderr := &syncBuf{}, &syncBuf{}
	aborter := value.NewAborter(context.Background(), nil)
	tp := vm.NewThreadPool(2, 50, vm.WithStdout(stdout), vm.WithStderr(stderr), vm.WithAborter(aborter))
	defer tp.Close()
	v := vm.New(vm.WithStdout(stdout), vm.WithStderr(stderr), vm.WithThreadPool(tp), vm.WithAborter(aborter))
	r, e := v.InterpretTopLevel(chunk)
	res.Result, res.Err = r, e
	return res
}

var c28NumRe = regexp.MustCompile(`0x[0-9a-f]+|\d+`)

// c28RunSingle runs one call as its own program and judges the outcome.
func c28RunSingle(c *Ctx, caseIdx int, cl *c28Call, jb *c28Job) {
	label := cl.Label()
	m := cl.M
	mname := m.Name.String()
	src := c28SingleSource(jb)
	res, blocked := c28Exec(src)
	if blocked {
		c.Count("calls_blocked_abandoned", 1)
		c.Count("blocked:"+label, 1)
		return
	}
	c.Count("programs_generated", 1)
	if res.Panic != "" && res.PanicPhase == "check" {
		c.Violate(label+":panic:check:"+panicSite1(res.PanicStack), fmt.Sprintf("checker/compiler panicked on a call of %s: %s\nprogram:\n%s\n%s", label, head(res.Panic, 300), src, head(res.PanicStack, 1500)), caseIdx, src)
		return
	}
	if res.Rejected {
		c.Count("programs_rejected_by_checker", 1)
		d := diagString(res.Diagnostics)
		c.Distinct("rejected|" + label)
		c.Sample(map[string]string{"rejected_program": head(src, 300), "diagnostics": head(d, 300)})
		if c28Debug() {
			fmt.Printf("REJECTED %s\n%s%s\n", label, src, d)
		}
		return
	}
	// which overload did the checker bind? (inlined operators leave no call site)
	if c28OverloadSuffix.MatchString(mname) || len(m.Overloads) > 0 {
		base := c28BaseName(mname)
		found, other := false, false
		if res.Chunk != nil {
			for _, v := range res.Chunk.Values {
				var n string
				switch cs := v.SafeAsReference().(type) {
				case *vm.CallSiteInfo:
					n = cs.Name.String()
				case *vm.NativeCallSiteInfo:
					n = cs.Method.Name().String()
				}
				if n == mname {
					found = true
				} else if n != "" && c28BaseName(n) == base {
					other = true
				}
			}
		}
		if !found && other {
			c.Count("calls_bound_to_another_overload", 1)
			return
		}
	}
	if c28Debug() {
		fmt.Printf("RAN %s\n%s=> result=%s err=%s panic=%s\n", label, src, head(inspectSafe(res.Result), 300), head(inspectSafe(res.Err), 300), head(res.Panic, 200))
	}
	if res.Panic != "" {
		c.Eval(1)
		c.Count("calls_run", 1)
		site := panicSite1(res.PanicStack)
		c.Violate(label+":panic:"+site, fmt.Sprintf("Go panic while calling %s (%s): %s\nprogram:\n%s\n%s", label, c28Sig(m), head(res.Panic, 400), src, head(res.PanicStack, 1800)), caseIdx, src)
		c.Distinct(fmt.Sprintf("%s|%d|panic", label, jb.nargs))
		return
	}
	c28Judge(c, caseIdx, cl, jb, res.Result, res.Err, src)
}

// c28Judge is the oracle for one completed call: result (or thrown value) against the header.
func c28Judge(c *Ctx, caseIdx int, cl *c28Call, jb *c28Job, result, thrown value.Value, src string) {
	label := cl.Label()
	m := cl.M
	mname := m.Name.String()
	c.Eval(1)
	c.Count("calls_run", 1)
	c.Count("calls_run:"+c28ShortNS(cl.NS), 1)
	recvClass := c28RuntimeClass(cl.NS)
	if cl.Singleton && mname != "#init" {
		recvClass = nil
	}
	k := &c28Conf{bind: jb.bind, recvClass: recvClass}
	if !thrown.IsUndefined() {
		e := thrown
		c.Count("calls_threw", 1)
		ecls := e.Class().Name
		c.Distinct(fmt.Sprintf("%s|%d|threw|%s", label, jb.nargs, ecls))
		if m.ThrowType != nil {
			if _, never := m.ThrowType.(types.Never); !never && k.conforms(e, m.ThrowType) {
				c.Count("throws_covered_by_declared_type", 1)
				return
			}
		}
		if value.IsA(e, value.ErrorClass) {
			c.Count("throws_unchecked_runtime_error", 1)
			c.Count("unchecked_error:"+ecls, 1)
			return
		}
		if strings.Contains(strings.ToLower(m.DocComment), "unchecked") {
			// the header documents that this method throws unchecked (e.g. Result#unwrap rethrows the stored value)
			c.Count("throws_documented_unchecked_value", 1)
			return
		}
		c.Violate(fmt.Sprintf("%s:throws:%s-declared:%s", label, ecls, types.Inspect(m.ThrowType)),
			fmt.Sprintf("%s threw the non-Error value %s (class %s) which its declared throw type `%s` does not cover\nsignature: %s\nprogram:\n%s", label, head(inspectSafe(e), 200), ecls, types.Inspect(m.ThrowType), c28Sig(m), src), caseIdx, src)
		return
	}
	c.Count("calls_returned", 1)
	if jb.void {
		c.Count("results_void_not_checked", 1)
		c.Distinct(fmt.Sprintf("%s|%d|void", label, jb.nargs))
		return
	}
	v := result
	if v.IsUndefined() {
		c.Violate(label+":returns:undefined", fmt.Sprintf("%s returned the internal `undefined` value\nprogram:\n%s", label, src), caseIdx, src)
		return
	}
	var declared types.Type = m.ReturnType
	if mname == "#init" {
		declared = cl.RecvNS
	}
	c.Count("results_class_checked", 1)
	rcls := v.Class().Name
	c.Distinct(fmt.Sprintf("%s|%d|returned|%s", label, jb.nargs, rcls))
	if !k.conforms(v, declared) {
		c.Violate(fmt.Sprintf("%s:returns:%s-declared:%s", label, rcls, types.Inspect(declared)),
			fmt.Sprintf("%s returned %s, an instance of %s, but the header declares `%s`\nsignature: %s\nreceiver type arguments: %v\nprogram:\n%s", label, head(inspectSafe(v), 200), rcls, types.Inspect(declared), c28Sig(m), jb.bind, src), caseIdx, src)
		return
	}
	if k.unchecked > 0 {
		c.Count("results_partly_undecidable(type-parameter/interface)", 1)
	}
}

func inspectSafe(v value.Value) (s string) {
	defer func() {
		if r := recover(); r != nil {
			s = fmt.Sprintf("<inspect panicked: %v>", r)
		}
	}()
	if v.IsUndefined() {
		return "undefined"
	}
	return v.Inspect()
}

func c28Debug() bool { return os.Getenv("VERIF_C28_DEBUG") != "" }
