package main

// C15 — generators and async functions preserve the semantics of their body.
//
// One G-prog function body (loops, labelled break/continue, do/catch/finally, defer, closures, ??,
// throws) gets "suspension points" inserted at random statement positions and is rendered four ways
// in one Elk program:
//   def f       : every point is a call of a plain function that prints "Y <value>"
//   def *g      : every point is `yield <value>`; the consumer prints "Y <value>"
//   async def a : as f (the body never suspends)
//   async def aw: every point is `await ayld(<value>)`, ayld being an async function that prints
//                 "Y <value>" (the body is suspended and resumed on the pool at every point)
// plus chains a2/a3 (aw2/aw3) that await them from inside other async functions.
// The reference interpreter of G-prog gives the expected trace of f; the expected output of every
// consumer section is derived from it (see c15Expect*). The program runs on a fresh thread pool of
// 1..8 workers with a task queue of chains..50 slots; a watchdog confirms deadlocks by goroutine states.

import (
	"context"
	"fmt"
	"io"
	"math/rand/v2"
	"regexp"
	"runtime"
	"runtime/debug"
	"sort"
	"strconv"
	"strings"
	"sync"
	"time"

	"github.com/elk-language/elk"
	"github.com/elk-language/elk/types/checker"
	"github.com/elk-language/elk/value"
	"github.com/elk-language/elk/vm"
)

const (
	c15YieldFn  = "yld"
	c15IDTrace  = 777776 // reference: id of the suspension point
	c15ValTrace = 777777 // reference: value of the suspension point
	c15ResTrace = 888888
	c15ErrTrace = 999999
)

// ---- suspension points -------------------------------------------------------------------------

type c15Inserter struct {
	r      *rand.Rand
	p      int // probability in percent per position
	max    int
	n      int
	nextID int
	ctx    map[int]string // point id -> enclosing constructs
	ints   []string       // names of helper Int functions with their arity (name/arity)
	fnAr   map[string]int
	noFin  bool // avoid-rule switches (known findings)
	noCat  bool
}

func (s *c15Inserter) point(vars []string, ctx string) gStmt {
	s.n++
	s.nextID++
	id := s.nextID
	s.ctx[id] = ctx
	r := s.r
	var e gExpr
	pick := func() gExpr {
		if len(vars) > 0 && r.IntN(4) != 0 {
			return eVar{vars[r.IntN(len(vars))]}
		}
		return eLit{int64(r.IntN(9))}
	}
	switch x := r.IntN(10); {
	case x < 4:
		e = pick()
	case x < 6:
		e = eBin{"+", pick(), eLit{int64(1 + r.IntN(3))}}
	case x < 8:
		e = eMark{500000 + id, pick()}
	case x < 9 && len(s.ints) > 0:
		fn := s.ints[r.IntN(len(s.ints))]
		args := make([]gExpr, s.fnAr[fn])
		for i := range args {
			args[i] = pick()
		}
		e = eCallFn{fn, args}
	default:
		e = eBin{"-", eLit{int64(r.IntN(5))}, pick()}
	}
	return sExpr{eCallFn{c15YieldFn, []gExpr{eLit{int64(id)}, e}}}
}

// list returns ss with suspension points inserted; vars are the Int variables readable at its start.
func (s *c15Inserter) list(ss []gStmt, vars []string, ctx string) []gStmt {
	vars = append([]string{}, vars...)
	var out []gStmt
	maybe := func() {
		if s.n < s.max && s.r.IntN(100) < s.p {
			out = append(out, s.point(vars, ctx))
		}
	}
	for _, st := range ss {
		maybe()
		switch x := st.(type) {
		case sLet:
			out = append(out, x)
			vars = append(vars, x.name)
			continue
		case sIf:
			x.then = s.list(x.then, vars, ctx+"/if")
			if len(x.els) > 0 {
				x.els = s.list(x.els, vars, ctx+"/else")
			}
			st = x
		case sWhile:
			x.body = s.list(x.body, vars, ctx+"/while")
			st = x
		case sFor:
			x.body = s.list(x.body, append(append([]string{}, vars...), x.v), ctx+"/for")
			st = x
		case sLoop:
			x.body = s.list(x.body, vars, ctx+"/loop")
			st = x
		case sTry:
			tag := "/do"
			if x.finally != nil {
				tag = "/dofin"
			}
			x.body = s.list(x.body, vars, ctx+tag)
			if !s.noCat {
				cs := append([]gCatch{}, x.catches...)
				for i := range cs {
					cv := vars
					if cs[i].pat < 0 {
						cv = append(append([]string{}, vars...), cs[i].bind)
					}
					t := "/catch"
					if x.finally != nil {
						t = "/catchfin"
					}
					cs[i].body = s.list(cs[i].body, cv, ctx+t)
				}
				x.catches = cs
			}
			if x.finally != nil && !s.noFin {
				x.finally = s.list(x.finally, vars, ctx+"/finally")
			}
			st = x
		}
		out = append(out, st)
	}
	if !endsAbruptly(out) {
		maybe()
	}
	return out
}

// ---- rendering -----------------------------------------------------------------------------------

var c15YldLine = regexp.MustCompile(`(?m)^(\s*)yld\((\d+), (.*)\)$`)

func c15FnSrc(header string, f *gFn, mode string) string {
	p := &gPrinter{}
	p.line("%s", header)
	p.ind++
	p.stmts(f.body)
	if !endsAbruptly(f.body) {
		p.line("%s", exprSrc(f.result))
	}
	p.ind--
	p.line("end")
	src := p.sb.String()
	switch mode {
	case "gen":
		src = c15YldLine.ReplaceAllString(src, "${1}yield $3")
	case "await":
		src = c15YldLine.ReplaceAllString(src, "${1}await ayld($2, $3)")
	}
	return src
}

func c15Params(f *gFn) (decl, pass string) {
	var d, u []string
	for _, p := range f.params {
		d = append(d, p+": Int")
		u = append(u, p)
	}
	return strings.Join(d, ", "), strings.Join(u, ", ")
}

func c15Args(args []int64) string {
	s := make([]string, len(args))
	for i, a := range args {
		s[i] = fmt.Sprint(a)
	}
	return strings.Join(s, ", ")
}

const c15Prelude = `def yld(k: Int, v: Int): Int
  println "Y #{v}"
  v
end
async def ayld(k: Int, v: Int): Int
  println "Y #{v}"
  v
end
`

// c15Case is one generated subject: helper functions, the target with its suspension points,
// argument tuples and the reference behaviour for each tuple.
type c15Subject struct {
	helpers []*gFn
	target  *gFn
	ctx     map[int]string
	args    [][]int64
	ref     []*c15Ref
}

type c15Ev struct {
	line  string
	isY   bool
	point int
	val   int64
}

type c15Ref struct {
	evs   []c15Ev
	isErr bool
	val   int64
	feats map[string]bool // dynamic features of the reference execution (attribution to listed defects)
}

func (s *c15Subject) refProg(args []int64) *gProg {
	yl := &gFn{name: c15YieldFn, params: []string{"yk", "yp"}, body: []gStmt{sTrace{c15IDTrace, eVar{"yk"}}, sTrace{c15ValTrace, eVar{"yp"}}}, result: eVar{"yp"}}
	as := make([]gExpr, len(args))
	for i, a := range args {
		as[i] = eLit{a}
	}
	fns := append([]*gFn{yl}, s.helpers...)
	fns = append(fns, s.target)
	main := []gStmt{sTry{body: []gStmt{sTrace{c15ResTrace, eCallFn{s.target.name, as}}}, catches: []gCatch{{pat: -1, bind: "ze", body: []gStmt{sTrace{c15ErrTrace, eVar{"ze"}}}}}}}
	return &gProg{fns: fns, main: main}
}

// reference runs the reference interpreter; ok=false when the subject is unsuitable.
func (s *c15Subject) reference(args []int64) (*c15Ref, bool) {
	out, ok, feats := s.refProg(args).runFeatures()
	if !ok {
		return nil, false
	}
	lines := strings.Split(strings.TrimSuffix(out, "\n"), "\n")
	if len(lines) == 0 {
		return nil, false
	}
	ref := &c15Ref{feats: feats}
	last := lines[len(lines)-1]
	var v int64
	switch {
	case scan1(last, c15ResTrace, &v):
		ref.val = v
	case scan1(last, c15ErrTrace, &v):
		ref.isErr, ref.val = true, v
	default:
		return nil, false
	}
	pending := 0
	for _, ln := range lines[:len(lines)-1] {
		var k int64
		if scan1(ln, c15IDTrace, &k) {
			pending = int(k)
			continue
		}
		if scan1(ln, c15ValTrace, &k) {
			ref.evs = append(ref.evs, c15Ev{line: fmt.Sprintf("Y %d", k), isY: true, point: pending, val: k})
			continue
		}
		ref.evs = append(ref.evs, c15Ev{line: ln})
	}
	return ref, true
}

func scan1(s string, id int, v *int64) bool {
	prefix := fmt.Sprintf("t%d ", id)
	if !strings.HasPrefix(s, prefix) {
		return false
	}
	n, err := strconv.ParseInt(s[len(prefix):], 10, 64)
	if err != nil {
		return false
	}
	*v = n
	return true
}

func (r *c15Ref) lines() []string {
	out := make([]string, len(r.evs))
	for i, e := range r.evs {
		out[i] = e.line
	}
	return out
}

func (r *c15Ref) outcome(prefix string) string {
	if r.isErr {
		return fmt.Sprintf("%sE %d", prefix, r.val)
	}
	return fmt.Sprintf("%sR %d", prefix, r.val)
}

// values the generator hands out: yielded values, then the returned value.
func (r *c15Ref) values() []int64 {
	var v []int64
	for _, e := range r.evs {
		if e.isY {
			v = append(v, e.val)
		}
	}
	if !r.isErr {
		v = append(v, r.val)
	}
	return v
}

// ---- sections ------------------------------------------------------------------------------------

type c15Section struct {
	kind    string // variant:consumer
	src     string
	want    []string   // exact expected lines (sequential sections)
	seqs    [][]string // concurrent section: the output minus `tags` must be an interleaving of these
	tags    []string   // concurrent section: lines that must each appear exactly once
	ref     *c15Ref
	defPool bool
}

func c15Catch(body string) string {
	return "do\n" + body + "catch Int() as e\n  println \"E #{e}\"\nend\n"
}

func c15ExpectPlain(r *c15Ref) []string { return append(r.lines(), r.outcome("")) }

func c15ExpectFor(r *c15Ref) []string {
	out := r.lines()
	if r.isErr {
		return append(out, r.outcome(""))
	}
	return append(out, fmt.Sprintf("Y %d", r.val), "END")
}

func c15ExpectNext(r *c15Ref, k int) []string {
	out := r.lines()
	used := len(r.values())
	if r.isErr {
		out = append(out, r.outcome(""))
		used++
	} else {
		out = append(out, fmt.Sprintf("Y %d", r.val))
	}
	for ; used < k; used++ {
		out = append(out, "STOP")
	}
	return out
}

// take(n), n >= 1: the body runs up to its n-th value, the values are printed afterwards.
func c15ExpectTake(r *c15Ref, n int) []string {
	var out []string
	var vals []int64
	for _, e := range r.evs {
		if e.isY {
			vals = append(vals, e.val)
			if len(vals) == n {
				break
			}
			continue
		}
		out = append(out, e.line)
	}
	if len(vals) < n {
		if r.isErr {
			return append(out, r.outcome(""))
		}
		vals = append(vals, r.val)
	}
	for _, v := range vals {
		out = append(out, fmt.Sprintf("Y %d", v))
	}
	return append(out, "END")
}

type c15Plan struct {
	threads, queue int
	sections       []*c15Section
}

// buildSections decides which consumer sections a case has.
func (s *c15Subject) buildSections(r *rand.Rand, only string, defPoolOK bool) []*c15Section {
	var secs []*c15Section
	A, B := s.args[0], s.args[1]
	rA, rB := s.ref[0], s.ref[1]
	t := s.target.name
	add := func(kind, src string, want []string, ref *c15Ref) {
		secs = append(secs, &c15Section{kind: kind, src: src, want: want, ref: ref})
	}
	n := len(secs)
	_ = n
	uniq := 0
	u := func(p string) string { uniq++; return fmt.Sprintf("%s%d", p, uniq) }

	add("plain:call", c15Catch(fmt.Sprintf("  println \"R #{%s(%s)}\"\n", t, c15Args(A))), c15ExpectPlain(rA), rA)
	add("plain:call", c15Catch(fmt.Sprintf("  println \"R #{%s(%s)}\"\n", t, c15Args(B))), c15ExpectPlain(rB), rB)

	// generator consumers
	add("generator:for", c15Catch(fmt.Sprintf("  for x in g_%s(%s)\n    println \"Y #{x}\"\n  end\n  println \"END\"\n", t, c15Args(A))), c15ExpectFor(rA), rA)
	{
		k := len(rB.values()) + 3
		gv := u("gn")
		src := fmt.Sprintf("%s := g_%s(%s)\nfor i in 1...%d\n  do\n    x := try %s.next\n    println \"Y #{x}\"\n  catch :stop_iteration\n    println \"STOP\"\n  catch Int() as e\n    println \"E #{e}\"\n  end\nend\n", gv, t, c15Args(B), k, gv)
		add("generator:next", src, c15ExpectNext(rB, k), rB)
	}
	{
		ref, args := rA, A
		if r.IntN(2) == 0 {
			ref, args = rB, B
		}
		nv := len(ref.values())
		n := 1 + r.IntN(nv+2)
		add("generator:take", c15Catch(fmt.Sprintf("  for x in g_%s(%s).take(%d)\n    println \"Y #{x}\"\n  end\n  println \"END\"\n", t, c15Args(args), n)), c15ExpectTake(ref, n), ref)
		add("generator:to_list", c15Catch(fmt.Sprintf("  for x in g_%s(%s).to_list\n    println \"Y #{x}\"\n  end\n  println \"END\"\n", t, c15Args(args))), c15ExpectTake(ref, nv+1), ref)
	}

	// async consumers
	variants := []string{"a", "aw", "a2", "aw2", "a3", "aw3"}
	for _, v := range []string{"a", "aw", variants[2+r.IntN(4)]} {
		ref, args := rA, A
		if r.IntN(2) == 0 {
			ref, args = rB, B
		}
		add("async:await:"+c15VarClass(v), c15Catch(fmt.Sprintf("  println \"R #{await %s_%s(%s)}\"\n", v, t, c15Args(args))), c15ExpectPlain(ref), ref)
	}
	{
		v := variants[r.IntN(len(variants))]
		pv := u("pw")
		src := fmt.Sprintf("%s := %s_%s(%s)\ndo\n  await Promise.wait(%s)\n  println \"W ok\"\ncatch Int() as e\n  println \"W #{e}\"\nend\nprintln \"resolved #{%s.is_resolved}\"\n", pv, v, t, c15Args(B), pv, pv)
		want := rB.lines()
		if rB.isErr {
			want = append(want, fmt.Sprintf("W %d", rB.val))
		} else {
			want = append(want, "W ok")
		}
		want = append(want, "resolved true")
		for k := 0; k < 2; k++ {
			src += c15Catch(fmt.Sprintf("  println \"R #{await %s}\"\n", pv))
			want = append(want, rB.outcome(""))
		}
		src += fmt.Sprintf("println \"resolved #{%s.is_resolved}\"\n", pv)
		want = append(want, "resolved true")
		add("async:wait:"+c15VarClass(v), src, want, rB)
	}
	{
		// poll is_resolved while the pool settles the promise: monotone, then the usual result
		v := variants[r.IntN(len(variants))]
		pv, nv := u("pq"), u("np")
		src := fmt.Sprintf("%s := %s_%s(%s)\n%s := 0\nwhile (!%s.is_resolved)\n  %s += 1\nend\nprintln \"resolved #{%s.is_resolved}\"\n", pv, v, t, c15Args(A), nv, pv, nv, pv)
		src += c15Catch(fmt.Sprintf("  println \"R #{await %s}\"\n", pv))
		src += fmt.Sprintf("println \"resolved #{%s.is_resolved}\"\n", pv)
		want := append(rA.lines(), "resolved true", rA.outcome(""), "resolved true")
		add("async:poll:"+c15VarClass(v), src, want, rA)
	}
	{
		// go threads: two await the same promise, one awaits another promise, one calls the async
		// function itself (its promise runs on the default pool)
		v1, v2, v3 := variants[r.IntN(len(variants))], variants[r.IntN(len(variants))], variants[r.IntN(2)]
		p1, p2, wg := u("pg"), u("pg"), u("wg")
		nthreads := 3
		if defPoolOK {
			nthreads = 4
		}
		var sb strings.Builder
		fmt.Fprintf(&sb, "%s := WaitGroup(%d)\n%s := %s_%s(%s)\n%s := %s_%s(%s)\n", wg, nthreads, p1, v1, t, c15Args(A), p2, v2, t, c15Args(B))
		thread := func(i int, expr string) {
			fmt.Fprintf(&sb, "go\n  do\n    println \"G%d R #{await %s}\"\n  catch Int() as e\n    println \"G%d E #{e}\"\n  end\n  %s.end\nend\n", i, expr, i, wg)
		}
		thread(1, p1)
		thread(2, p1)
		thread(3, p2)
		sec := &c15Section{kind: "async:go:" + c15VarClass(v1) + "+" + c15VarClass(v2), ref: rA}
		sec.seqs = [][]string{rA.lines(), rB.lines()}
		sec.tags = []string{rA.outcome("G1 "), rA.outcome("G2 "), rB.outcome("G3 ")}
		if defPoolOK {
			thread(4, fmt.Sprintf("%s_%s(%s)", v3, t, c15Args(B)))
			sec.seqs = append(sec.seqs, rB.lines())
			sec.tags = append(sec.tags, rB.outcome("G4 "))
			sec.defPool = true
		}
		fmt.Fprintf(&sb, "%s.wait\n", wg)
		sec.src = sb.String()
		secs = append(secs, sec)
	}
	if only != "" {
		var f []*c15Section
		for _, x := range secs {
			if x.kind == only {
				f = append(f, x)
			}
		}
		return f
	}
	return secs
}

func c15VarClass(v string) string {
	switch v {
	case "a":
		return "nosuspend"
	case "aw":
		return "suspend"
	case "a2", "a3":
		return "nested-nosuspend"
	}
	return "nested-suspend"
}

// program renders the subject and the given sections.
func (s *c15Subject) program(secs []*c15Section) string {
	var sb strings.Builder
	sb.WriteString("using Std::Sync::WaitGroup\n")
	sb.WriteString((&gProg{fns: s.helpers}).source())
	sb.WriteString(c15Prelude)
	t := s.target
	decl, pass := c15Params(t)
	sb.WriteString(c15FnSrc(fmt.Sprintf("def %s(%s): Int", t.name, decl), t, "plain"))
	sb.WriteString(c15FnSrc(fmt.Sprintf("def *g_%s(%s): Int", t.name, decl), t, "gen"))
	sb.WriteString(c15FnSrc(fmt.Sprintf("async def a_%s(%s): Int", t.name, decl), t, "plain"))
	sb.WriteString(c15FnSrc(fmt.Sprintf("async def aw_%s(%s): Int", t.name, decl), t, "await"))
	for _, p := range [][2]string{{"a2", "a"}, {"a3", "a2"}, {"aw2", "aw"}, {"aw3", "aw2"}} {
		fmt.Fprintf(&sb, "async def %s_%s(%s): Int\n  r := await %s_%s(%s)\n  r\nend\n", p[0], t.name, decl, p[1], t.name, pass)
	}
	for i, sec := range secs {
		fmt.Fprintf(&sb, "println \"== %d\"\n%s", i, sec.src)
	}
	sb.WriteString("println \"== end\"\n")
	return sb.String()
}

// ---- runner with deadlock watchdog ---------------------------------------------------------------

type c15Writer struct {
	mu sync.Mutex
	w  io.Writer
}

func (s *c15Writer) Write(p []byte) (int, error) {
	s.mu.Lock()
	w := s.w
	s.mu.Unlock()
	if w == nil {
		return len(p), nil
	}
	return w.Write(p)
}

func (s *c15Writer) set(w io.Writer) {
	s.mu.Lock()
	s.w = w
	s.mu.Unlock()
}

var c15DefOut, c15DefErr = &c15Writer{}, &c15Writer{}
var c15Poisoned bool // a deadlock left blocked tasks behind in this process

type c15Run struct {
	*ElkResult
	Hang     bool
	HangSite string
	HangDump string
	Slow     bool
}

func c15Exec(src string, threads, queue int) *c15Run {
	run := &c15Run{ElkResult: &ElkResult{Result: value.Undefined, Err: value.Undefined}}
	res := run.ElkResult
	stdout, stderr := &syncBuf{}, &syncBuf{}
	c15DefOut.set(stdout)
	c15DefErr.set(stderr)
	done := make(chan struct{})
	var tp *vm.ThreadPool
	go func() {
		defer close(done)
		phase := "check"
		defer func() {
			if r := recover(); r != nil {
				res.Panic = fmt.Sprint(r)
				res.PanicStack = string(debug.Stack())
				res.PanicPhase = phase
			}
		}()
		elk.InitGlobalEnvironment()
		// method bodies are checked one at a time: races inside the type checker belong to C11
		checker.MethodCheckConcurrencyLimit = 1
		chunk, diags := checker.New().CheckSourceBytecode("main.elk", src)
		res.Diagnostics = diags
		if diags.IsFailure() {
			res.Rejected = true
			return
		}
		phase = "run"
		aborter := value.NewAborter(context.Background(), nil)
		tp = vm.NewThreadPool(threads, queue, vm.WithStdout(stdout), vm.WithStderr(stderr), vm.WithAborter(aborter))
		v := vm.New(vm.WithStdout(stdout), vm.WithStderr(stderr), vm.WithThreadPool(tp), vm.WithAborter(aborter))
		r, e := v.InterpretTopLevel(chunk)
		res.Result, res.Err = r, e
		if !e.IsUndefined() {
			res.ErrInspect = e.Inspect()
			var sb strings.Builder
			vm.PrintError(&sb, v.ErrStackTrace(), e)
			res.Trace = sb.String()
		}
	}()
	start := time.Now()
	wait := 2 * time.Second
loop:
	for {
		select {
		case <-done:
			break loop
		case <-time.After(wait):
		}
		// the wall clock only decides when to look; the verdict is the state of the goroutines
		if site, dump, blocked := c15AllBlocked(); blocked {
			time.Sleep(500 * time.Millisecond)
			select {
			case <-done:
				break loop
			default:
			}
			if site2, _, b2 := c15AllBlocked(); b2 && site2 == site {
				parts := strings.SplitN(site, "#", 2)
				run.Hang, run.HangSite, run.HangDump = true, parts[0], dump
				for _, id := range strings.Split(parts[1], ",") {
					c15Leaked[id] = true
				}
				c15Poisoned = true
				break loop
			}
		}
		if time.Since(start) > 8*time.Minute {
			run.Slow = true
			c15Poisoned = true
			break loop
		}
		wait = 3 * time.Second
	}
	if !run.Hang && !run.Slow && tp != nil {
		tp.Close()
	}
	res.Stdout, res.Stderr = stdout.String(), stderr.String()
	return run
}

var c15GoHdr = regexp.MustCompile(`^goroutine (\d+) \[([^\],]+)`)

// goroutines left behind by earlier deadlocked runs of this process (blocked for ever, inert)
var c15Leaked = map[string]bool{}

// c15AllBlocked inspects the goroutines that execute VM code for the current run: it reports whether
// the goroutine interpreting the program and every other one sit in a blocking primitive (so nothing
// can make progress), and names the innermost VM frames.
func c15AllBlocked() (site, dump string, blocked bool) {
	buf := make([]byte, 8<<20)
	buf = buf[:runtime.Stack(buf, true)]
	sites := map[string]int{}
	runnerBlocked := false
	var ids []string
	var sb strings.Builder
	for _, blk := range strings.Split(string(buf), "\n\n") {
		if !strings.Contains(blk, "elk-language/elk/vm.") {
			if strings.Contains(blk, "main.c15Exec.func1") {
				return "", "", false // still checking / compiling
			}
			continue
		}
		m := c15GoHdr.FindStringSubmatch(blk)
		if m == nil || c15Leaked[m[1]] {
			continue
		}
		state := m[2]
		inner := ""
		for _, ln := range strings.Split(blk, "\n")[1:] {
			if strings.HasPrefix(ln, "github.com/elk-language/elk/vm.") {
				inner = strings.TrimPrefix(ln, "github.com/elk-language/elk/")
				if i := strings.LastIndex(inner, "("); i > 0 {
					inner = inner[:i]
				}
				break
			}
		}
		if inner == "vm.threadWorker" && state == "chan receive" {
			continue // idle worker
		}
		switch state {
		case "chan send", "chan receive", "sync.WaitGroup.Wait", "semacquire", "sync.Mutex.Lock", "sync.RWMutex.Lock", "sync.RWMutex.RLock", "sync.Cond.Wait", "select (no cases)":
			sites[inner+"["+state+"]"]++
			ids = append(ids, m[1])
			if strings.Contains(blk, "main.c15Exec.func1") {
				runnerBlocked = true
			}
			if sb.Len() < 6000 {
				sb.WriteString(head(blk, 900) + "\n\n")
			}
		default:
			return "", "", false
		}
	}
	if !runnerBlocked {
		return "", "", false
	}
	var ks []string
	for k := range sites {
		ks = append(ks, k)
	}
	sort.Strings(ks)
	return strings.Join(ks, "+") + "#" + strings.Join(ids, ","), sb.String(), true
}

// ---- comparison ----------------------------------------------------------------------------------

type c15Diff struct {
	kind   string // section kind
	what   string // classification
	at     int
	want   string
	got    string
	detail string
}

func c15SplitSections(stdout string, n int) ([][]string, bool) {
	out := make([][]string, n)
	cur := -1
	complete := false
	for _, ln := range strings.Split(strings.TrimSuffix(stdout, "\n"), "\n") {
		if strings.HasPrefix(ln, "== ") {
			if ln == "== end" {
				complete = true
				cur = -2
				continue
			}
			var k int
			if _, err := fmt.Sscanf(ln, "== %d", &k); err == nil && k >= 0 && k < n {
				cur = k
				continue
			}
		}
		if cur >= 0 {
			out[cur] = append(out[cur], ln)
		}
	}
	return out, complete
}

func c15LineClass(ln string) string {
	switch {
	case ln == "":
		return "end-of-output"
	case strings.HasPrefix(ln, "Y "):
		return "value"
	case ln == "STOP":
		return "stop"
	case ln == "END":
		return "end"
	case strings.HasPrefix(ln, "E "), strings.HasPrefix(ln, "W "):
		return "error"
	case strings.HasPrefix(ln, "R "):
		return "result"
	case strings.HasPrefix(ln, "resolved"):
		return "is_resolved"
	case strings.HasPrefix(ln, "d"):
		return "deferred"
	}
	return "marker"
}

// c15Compare returns nil when the section output is what the reference demands.
func c15Compare(sec *c15Section, got []string) *c15Diff {
	if sec.seqs != nil {
		return c15CompareConcurrent(sec, got)
	}
	for i := 0; i < len(sec.want) || i < len(got); i++ {
		var w, g string
		if i < len(sec.want) {
			w = sec.want[i]
		}
		if i < len(got) {
			g = got[i]
		}
		if w == g {
			continue
		}
		d := &c15Diff{kind: sec.kind, at: i, want: w, got: g}
		wc, gc := c15LineClass(w), c15LineClass(g)
		switch {
		case wc == "error" && gc != "error":
			d.what = "error-lost:got-" + gc
		case gc == "error" && wc != "error":
			d.what = "unexpected-error:want-" + wc
		case wc == gc:
			d.what = wc + "-differs"
		default:
			d.what = "want-" + wc + ":got-" + gc
		}
		return d
	}
	return nil
}

func c15CompareConcurrent(sec *c15Section, got []string) *c15Diff {
	tagSeen := map[string]int{}
	isTag := map[string]bool{}
	for _, t := range sec.tags {
		isTag[t] = true
	}
	var rest []string
	for _, ln := range got {
		if len(ln) > 1 && ln[0] == 'G' && ln[1] >= '0' && ln[1] <= '9' {
			tagSeen[ln]++
			if !isTag[ln] {
				wantLn := ""
				for _, t := range sec.tags {
					if strings.HasPrefix(t, ln[:3]) {
						wantLn = t
					}
				}
				what := "result-differs"
				if strings.Contains(wantLn, " E ") != strings.Contains(ln, " E ") {
					what = "error-lost-or-invented"
				}
				return &c15Diff{kind: sec.kind, what: what, want: wantLn, got: ln}
			}
			continue
		}
		rest = append(rest, ln)
	}
	for _, t := range sec.tags {
		if tagSeen[t] != 1 {
			return &c15Diff{kind: sec.kind, what: fmt.Sprintf("thread-result-count-%d", tagSeen[t]), want: t}
		}
	}
	// interleaving check: set of reachable position tuples
	type state string
	enc := func(p []int) state { return state(fmt.Sprint(p)) }
	cur := map[state][]int{enc(make([]int, len(sec.seqs))): make([]int, len(sec.seqs))}
	for i, ln := range rest {
		next := map[state][]int{}
		for _, p := range cur {
			for j, sq := range sec.seqs {
				if p[j] < len(sq) && sq[p[j]] == ln {
					q := append([]int{}, p...)
					q[j]++
					next[enc(q)] = q
				}
			}
		}
		if len(next) == 0 {
			return &c15Diff{kind: sec.kind, what: "not-an-interleaving:" + c15LineClass(ln), at: i, got: ln}
		}
		if len(next) > 20000 {
			return nil // too ambiguous to decide cheaply; counted by the caller through lines
		}
		cur = next
	}
	for _, p := range cur {
		fin := true
		for j, sq := range sec.seqs {
			if p[j] != len(sq) {
				fin = false
			}
		}
		if fin {
			return nil
		}
	}
	return &c15Diff{kind: sec.kind, what: "lines-missing", at: len(rest)}
}

// lastPointBefore names the suspension point that was passed last before output line `at`.
func (s *c15Subject) pointCtx(sec *c15Section, at int) string {
	if sec.ref == nil {
		return "?"
	}
	if strings.HasPrefix(sec.kind, "generator:take") || strings.HasPrefix(sec.kind, "generator:to_list") || sec.seqs != nil {
		// the printed lines are not in event order; name the set of contexts instead
		return s.ctxSet()
	}
	ctx := "before-first-point"
	for i, e := range sec.ref.evs {
		if i >= at {
			break
		}
		if e.isY {
			ctx = "after-point-in:" + strings.TrimPrefix(s.ctx[e.point], "/")
			if s.ctx[e.point] == "" {
				ctx = "after-point-in:body"
			}
		}
	}
	return ctx
}

func (s *c15Subject) ctxSet() string {
	set := map[string]bool{}
	c15Walk(s.target.body, func(st gStmt) {
		if id, ok := c15PointID(st); ok {
			c := strings.TrimPrefix(s.ctx[id], "/")
			if c == "" {
				c = "body"
			}
			set[c] = true
		}
	})
	var ks []string
	for k := range set {
		ks = append(ks, k)
	}
	sort.Strings(ks)
	if len(ks) == 0 {
		return "no-points"
	}
	return "points-in:" + strings.Join(ks, ",")
}

func c15PointID(st gStmt) (int, bool) {
	if x, ok := st.(sExpr); ok {
		if c, ok := x.e.(eCallFn); ok && c.fn == c15YieldFn {
			return int(c.args[0].(eLit).v), true
		}
	}
	return 0, false
}

func c15Walk(ss []gStmt, f func(gStmt)) {
	for _, st := range ss {
		f(st)
		switch x := st.(type) {
		case sIf:
			c15Walk(x.then, f)
			c15Walk(x.els, f)
		case sWhile:
			c15Walk(x.body, f)
		case sFor:
			c15Walk(x.body, f)
		case sLoop:
			c15Walk(x.body, f)
		case sClosure:
			c15Walk(x.body, f)
		case sTry:
			c15Walk(x.body, f)
			for _, c := range x.catches {
				c15Walk(c.body, f)
			}
			c15Walk(x.finally, f)
		}
	}
}

// c15Shape is shapeOf with the suspension points made visible.
func c15Shape(ss []gStmt) string {
	return strings.ReplaceAll(shapeOf(ss), "ex(fn);", "POINT;")
}

// ---- generation ----------------------------------------------------------------------------------

func c15Generate(r *rand.Rand, i int) *c15Subject {
	k := gKnobs{control: true, closures: i%3 == 0, fns: 2 + r.IntN(3), depth: 2 + r.IntN(2), stmtsPer: 2 + r.IntN(3)}
	for try := 0; try < 8; try++ {
		p := genProg(r, k)
		// the target is the Int function with the richest body (helpers are all the others)
		var target *gFn
		var helpers []*gFn
		best := -1
		for _, f := range p.fns {
			if f.retClo != nil {
				continue
			}
			// nobody may call the target: its suspension points exist only in its own frame
			called := false
			for _, o := range p.fns {
				if o != f && strings.Contains((&gProg{fns: []*gFn{o}}).source()[len(gPrelude):], f.name+"(") {
					called = true
				}
			}
			if called {
				continue
			}
			sh := shapeOf(f.body)
			score := len(f.body)
			for feat, w := range map[string]int{"closure{": 6, "finally{": 4, "catch": 4, "while{": 2, "for{": 2, "loop{": 2, "defer;": 2, "throw;": 2, "break": 2, "continue": 2, "return;": 1, "(clo)": 2, "letclo;": 2} {
				if strings.Contains(sh, feat) {
					score += w
				}
			}
			if score > best {
				best, target = score, f
			}
		}
		if target == nil {
			continue
		}
		ins := &c15Inserter{r: r, p: 25 + r.IntN(30), max: 2 + r.IntN(5), ctx: map[int]string{}, fnAr: map[string]int{}}
		for _, f := range p.fns {
			if f == target {
				continue
			}
			helpers = append(helpers, f)
			if f.retClo == nil {
				ins.ints = append(ins.ints, f.name)
				ins.fnAr[f.name] = len(f.params)
			}
		}
		nt := *target
		nt.body = ins.list(target.body, target.params, "")
		if ins.n == 0 {
			// at least one point: at the very start
			nt.body = append([]gStmt{ins.point(target.params, "")}, nt.body...)
		}
		// language rule: parameters of a generator cannot be reassigned, so every rendering works on copies
		var pro []gStmt
		nt.params = nil
		for _, p := range target.params {
			nt.params = append(nt.params, "q"+p)
			pro = append(pro, sLet{p, eVar{"q" + p}})
		}
		nt.body = append(pro, nt.body...)
		s := &c15Subject{helpers: helpers, target: &nt, ctx: ins.ctx}
		ok := true
		for a := 0; a < 2; a++ {
			args := make([]int64, len(nt.params))
			for j := range args {
				args[j] = int64(r.IntN(9)) - 2
			}
			ref, good := s.reference(args)
			if !good || len(ref.evs) > 120 {
				ok = false
				break
			}
			s.args = append(s.args, args)
			s.ref = append(s.ref, ref)
		}
		if ok {
			return s
		}
	}
	return nil
}

// ---- the case ------------------------------------------------------------------------------------

func c15Pool(r *rand.Rand) (threads, queue int) {
	threads = 1 + r.IntN(8)
	// scope of the claim (D12): tasks are created only while the queue has room. A section has at most
	// 4 call chains in flight and every chain has at most one task queued, so 4 slots are enough.
	queue = 4 + r.IntN(47)
	if r.IntN(3) == 0 {
		queue = 4 + r.IntN(3)
	}
	return
}

func c15Case(c *Ctx, caseIdx int, r *rand.Rand) {
	s := c15Generate(r, caseIdx)
	if s == nil {
		c.Count("subjects_discarded", 1)
		return
	}
	threads, queue := c15Pool(r)
	secs := s.buildSections(r, "", !c15Poisoned)
	src := s.program(secs)
	c.Eval(1)
	if caseIdx%97 == 0 {
		c.Sample(map[string]any{"program_head": head(src[len(gPrelude):], 1200), "threads": threads, "queue": queue})
	}
	run := c15Exec(src, threads, queue)
	if run.Rejected {
		c.Count("programs_rejected_by_checker", 1)
		c.Extra("last_rejection", head(diagString(run.Diagnostics), 400))
		c.Distinct("rejected|" + head(firstDiagMessage(run.ElkResult), 60))
		return
	}
	c.Count("programs_run", 1)
	tsh := shapeOf(s.target.body)
	for _, f := range []string{"closure{", "finally{", "defer;", "return;", "throw;", "catch", "(clo)", "letclo;", "break", "continue"} {
		if strings.Contains(tsh, f) {
			c.Count("target_has_"+strings.Trim(f, "{;()"), 1)
		}
	}
	c.Count(fmt.Sprintf("pool_threads_%d", threads), 1)
	c.Max("max_queue", int64(queue))
	got, complete := c15SplitSections(run.Stdout, len(secs))
	failed := -1
	var diff *c15Diff
	for i, sec := range secs {
		if i >= len(got) {
			break
		}
		if !complete && !strings.Contains(run.Stdout, fmt.Sprintf("== %d\n", i)) {
			break // the run never reached this section
		}
		d := c15Compare(sec, got[i])
		if d != nil {
			if known := c15KnownPattern(s, sec, d); known != "" {
				c.Violate(known, fmt.Sprintf("section %s: expected %q, got %q at line %d\nprogram:\n%s\nexpected:\n%s\ngot:\n%s", sec.kind, d.want, d.got, d.at, head(s.program([]*c15Section{sec}), 2500), head(strings.Join(sec.want, "\n"), 500), head(strings.Join(got[i], "\n"), 500)), caseIdx, map[string]any{"elk": s.program([]*c15Section{sec}), "threads": threads, "queue": queue})
				c.Count("sections_attributed_to_listed_construct", 1)
				continue
			}
			if failed < 0 {
				failed, diff = i, d
			}
			continue
		}
		c.Count("sections_agree", 1)
		c.Count("sections_"+strings.SplitN(sec.kind, ":", 3)[0]+"_"+strings.SplitN(sec.kind, ":", 3)[1], 1)
		c.Count("lines_compared", int64(len(got[i])))
		if sec.ref != nil {
			for _, e := range sec.ref.evs {
				if e.isY {
					c.Count("suspension_points_passed", 1)
					in := s.ctx[e.point]
					if j := strings.LastIndex(in, "/"); j >= 0 {
						in = in[j+1:]
					} else {
						in = "body"
					}
					c.Count("points_passed_in_"+in, 1)
					c.Distinct(sec.kind + "|" + s.ctx[e.point] + fmt.Sprintf("|t%d", threads))
				}
			}
			if sec.ref.isErr {
				c.Count("sections_ending_in_error", 1)
			}
		}
	}
	abnormal := ""
	switch {
	case run.Hang:
		abnormal = "deadlock"
		c.Count("deadlocks", 1)
	case run.Slow:
		c.Inconclusive(fmt.Sprintf("case %d did not finish in 8 minutes without being deadlocked", caseIdx))
		return
	case run.Panic != "":
		abnormal = "vm-panic"
	case !run.Err.IsUndefined():
		abnormal = "uncaught-error"
	}
	if failed < 0 && abnormal == "" && complete {
		return
	}
	if failed < 0 {
		// the section in which the run stopped: the last one whose header was printed
		failed = 0
		for i := range secs {
			if strings.Contains(run.Stdout, fmt.Sprintf("== %d\n", i)) {
				failed = i
			}
		}
	}
	c15Report(c, caseIdx, s, secs[failed], threads, queue, run, diff, abnormal)
}

// c15KnownPattern attributes a divergence to a construct with a listed defect (narrow: the construct
// must be in the subject AND the divergence must be the listed symptom).
func c15KnownPattern(s *c15Subject, sec *c15Section, d *c15Diff) string {
	sh := shapeOf(s.target.body)
	// an error or jump that leaves a catch body whose do-expression has a finally skips that finally: a listed defect
	// of plain control flow (C14 K50, same witness); every rendering of such a body diverges from the reference
	for _, r := range s.ref {
		if r != nil && r.feats["abrupt-exit-from-catch-body-with-finally"] && !strings.HasPrefix(d.what, "deadlock") && !strings.HasPrefix(d.what, "vm-panic") {
			return "feature:abrupt-exit-from-catch-body-with-finally"
		}
	}
	if strings.HasPrefix(sec.kind, "generator:") && strings.Contains(sh, "defer;") && strings.Contains(sh, "return;") && strings.HasPrefix(d.what, "want-deferred:") {
		return "generator:return-skips-deferred-code"
	}
	// a closure literal of the suspended function shares its captured variables only until the first
	// suspension: afterwards the closure and the body work on separate copies
	suspends := strings.HasPrefix(sec.kind, "generator:") || (strings.HasPrefix(sec.kind, "async:") && strings.Contains(strings.ReplaceAll(sec.kind, "nosuspend", ""), "suspend"))
	if suspends && strings.Contains(sh, "closure{") && !strings.HasPrefix(d.what, "deadlock") && !strings.HasPrefix(d.what, "vm-panic") {
		v := "generator"
		if strings.HasPrefix(sec.kind, "async:") {
			v = "async"
		}
		return v + ":closure-capture-split-by-suspension"
	}
	return ""
}

func c15Abnormal(run *c15Run) string {
	switch {
	case run.Hang:
		return "deadlock:" + run.HangSite
	case run.Panic != "":
		return "vm-panic:" + panicSite1(run.PanicStack)
	case !run.Err.IsUndefined():
		return "uncaught-error"
	}
	return ""
}

// c15Probe runs the subject with only sections of one kind; it returns a description of the failure or "".
func c15Probe(s *c15Subject, kind string, threads, queue int, seed uint64) (what string, sec *c15Section, run *c15Run, diff *c15Diff) {
	r := rand.New(rand.NewPCG(seed, 15))
	secs := s.buildSections(r, kind, !c15Poisoned)
	if len(secs) == 0 {
		return "", nil, nil, nil
	}
	run = c15Exec(s.program(secs), threads, queue)
	if run.Rejected || run.Slow {
		return "", nil, run, nil
	}
	got, complete := c15SplitSections(run.Stdout, len(secs))
	for i, sc := range secs {
		if d := c15Compare(sc, got[i]); d != nil {
			if ab := c15Abnormal(run); ab != "" {
				return ab, sc, run, d
			}
			return d.what, sc, run, d
		}
	}
	if ab := c15Abnormal(run); ab != "" || !complete {
		return ab, secs[len(secs)-1], run, nil
	}
	return "", nil, run, nil
}

var c15Minimised = struct {
	sync.Mutex
	m map[string]int
}{m: map[string]int{}}

func c15Report(c *Ctx, caseIdx int, s *c15Subject, sec *c15Section, threads, queue int, run *c15Run, diff *c15Diff, abnormal string) {
	kind := sec.kind
	seed := uint64(caseIdx)*7919 + 1
	// does the section fail on its own? (otherwise report the whole program)
	what, psec, prun, pdiff := c15Probe(s, kind, threads, queue, seed)
	min := s
	// one delta-minimisation per (section kind, symptom class) and worker process: later instances are
	// reported as they are (their signature still names kind, symptom and point context)
	coarse := kind + "|" + strings.SplitN(what, ":", 2)[0]
	c15Minimised.Lock()
	seen := c15Minimised.m[coarse]
	c15Minimised.m[coarse]++
	c15Minimised.Unlock()
	if what != "" && seen > 0 {
		sec, run, diff = psec, prun, pdiff
		c.Count("violations_reported_unminimised", 1)
	} else if what != "" {
		class := func(w string) string { return strings.SplitN(w, ":", 2)[0] }
		budget := 60
		if strings.HasPrefix(what, "deadlock") {
			budget = 12
		}
		// delta-minimise helpers + target with G-prog's minimiser
		wrap := func(x *c15Subject) *gProg {
			return &gProg{fns: append(append([]*gFn{}, x.helpers...), x.target), main: nil}
		}
		unwrap := func(p *gProg) *c15Subject {
			var t *gFn
			var hs []*gFn
			for _, f := range p.fns {
				if f.name == s.target.name {
					t = f
				} else {
					hs = append(hs, f)
				}
			}
			if t == nil {
				return nil
			}
			x := &c15Subject{helpers: hs, target: t, ctx: s.ctx, args: s.args}
			for _, a := range s.args {
				ref, ok := func() (r *c15Ref, ok bool) {
					defer func() {
						if recover() != nil {
							ok = false
						}
					}()
					return x.reference(a)
				}()
				if !ok {
					return nil
				}
				x.ref = append(x.ref, ref)
			}
			return x
		}
		fails := func(p *gProg) bool {
			x := unwrap(p)
			if x == nil {
				return false
			}
			w, _, _, _ := c15Probe(x, kind, threads, queue, seed)
			return w != "" && class(w) == class(what)
		}
		mp := wrap(s).minimise(fails, budget)
		if x := unwrap(mp); x != nil {
			if w2, sec2, run2, diff2 := c15Probe(x, kind, threads, queue, seed); w2 != "" {
				min, what, psec, prun, pdiff = x, w2, sec2, run2, diff2
			}
		}
		sec, run, diff = psec, prun, pdiff
	} else {
		// only fails in the context of the other sections (or not reproducibly)
		what = abnormal
		if diff != nil && what == "" {
			what = diff.what
		}
		what = "in-full-program:" + what
	}
	at := 0
	if diff != nil {
		at = diff.at
	} else if sec.ref != nil {
		at = len(sec.ref.evs) + 1
	}
	ctx := min.pointCtx(sec, at)
	sig := fmt.Sprintf("%s:%s:%s", kind, what, ctx)
	var sb strings.Builder
	fmt.Fprintf(&sb, "pool threads=%d queue=%d, section %s\n", threads, queue, kind)
	if diff != nil {
		fmt.Fprintf(&sb, "first difference at line %d of the section: expected %q, got %q\n", diff.at, diff.want, diff.got)
	}
	secs := []*c15Section{sec}
	prog := min.program(secs)
	fmt.Fprintf(&sb, "target shape: %s\nminimised program:\n%s\n", c15Shape(min.target.body), head(prog[len("using Std::Sync::WaitGroup\n")+len(gPrelude):], 2200))
	if sec.seqs == nil {
		fmt.Fprintf(&sb, "expected section output:\n%s\n", head(strings.Join(sec.want, "\n"), 700))
	} else {
		fmt.Fprintf(&sb, "expected: an interleaving of %d traces plus the lines %v\n", len(sec.seqs), sec.tags)
	}
	fmt.Fprintf(&sb, "elk stdout:\n%s\n", head(run.Stdout, 700))
	if run.Panic != "" {
		fmt.Fprintf(&sb, "Go panic: %s\n%s\n", head(run.Panic, 300), head(run.PanicStack, 1200))
	}
	if !run.Err.IsUndefined() {
		fmt.Fprintf(&sb, "uncaught Elk error: %s\n", head(run.ErrInspect, 300))
	}
	if run.Hang {
		fmt.Fprintf(&sb, "deadlock: every goroutine running VM code is blocked (%s)\n%s\n", run.HangSite, head(run.HangDump, 1500))
	}
	if run.Stderr != "" {
		fmt.Fprintf(&sb, "elk stderr:\n%s\n", head(run.Stderr, 500))
	}
	c.Violate(sig, sb.String(), caseIdx, map[string]any{"elk": prog, "threads": threads, "queue": queue})
}

func init() {
	register(&Check{
		ID:   "C15",
		Rule: "G-prog function bodies (loops, labelled break/continue, do/catch/finally, defer, closures, ??, throws) get suspension points at random statement positions (also in loops, do/catch/finally bodies; never in closures) and are rendered as plain function (point = call printing the value), generator (point = yield), async function (no suspension) and async function awaiting a pool task at every point, plus async chains of depth 2-3; consumers: for, manual next past the end, take(n), to_list, top-level await, await in async, Promise.wait + repeated await + is_resolved, busy polling of is_resolved, go threads awaiting shared promises and calling the async function themselves; pools of 1..8 workers, queue 4..50; oracle: every section prints what the reference interpreter's trace of the plain function implies; deadlocks confirmed by goroutine states; Go race detector on; failing subjects are delta-minimised; distinct = (section kind, enclosing constructs of a passed suspension point, pool size)",
		NumCases: func(tier string) int {
			if tier == "thorough" {
				return 1500
			}
			return 300
		},
		Init: func(c *Ctx) {
			// promises created by `go` threads run on the process-wide default pool: capture its output
			for _, t := range vm.DefaultThreadPool.Threads {
				t.Stdout = c15DefOut
				t.Stderr = c15DefErr
			}
		},
		Case:        c15Case,
		MinCounters: map[string]int64{"programs_run": 250, "sections_agree": 2500, "suspension_points_passed": 4000, "sections_generator_next": 200, "sections_async_go": 150, "sections_async_wait": 200, "sections_async_poll": 200},
		Assumptions: []string{
			"reference semantics of the body = G-prog reference interpreter (as C14); a generator hands out its yielded values, then the value of its body, then raises :stop_iteration on every further next, also after an error (pinned by the repository's generator tests)",
			"scope (D12): the task queue has room for every call chain in flight (queue >= 4); only the main thread and go threads block in await, pool workers never do",
			"deadlock = every goroutine executing VM code sits in a blocking primitive in two samples; wall-clock time only decides when to sample",
		},
		WorkerTimeout: 30 * time.Minute,
	})
}
