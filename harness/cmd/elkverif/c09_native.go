package main

// C09 — the native Go backend behaves like the bytecode VM (differential run-time monitor).
//
// Every generated Elk program is (1) run in-process on the bytecode VM (RunElk: stdout, printed
// uncaught-error report, success/failure) and (2) translated by the Go backend
// (checker.CheckSourceNative, the function `elk compile` uses), gofmt-ed, built with
// `go build -tags native` in a scratch module that `replace`s github.com/elk-language/elk with the
// worktree, and executed; stdout, stderr and exit status are compared.
//
// Linking a binary that embeds the whole Elk runtime costs >10 s, so programs are built in batches:
// each generated file becomes package pK (`package main` -> `package pK`, `func main()` ->
// `func Main()`, nothing else is touched) and one driver binary dispatches on argv[1]. Every
// divergence seen in a batch is re-checked with the UNMODIFIED generated source built alone as
// `package main`; only the confirmed outcome is reported, so the batching is not trusted.

import (
	"bytes"
	"context"
	"fmt"
	"go/format"
	"os"
	"os/exec"
	"path/filepath"
	"regexp"
	"sort"
	"strings"
	"time"

	"github.com/elk-language/elk"
	"github.com/elk-language/elk/bitfield"
	"github.com/elk-language/elk/types/checker"
)

// c09Generate runs the checker with the native Go backend over src.
// status: "ok" | "rejected" (diagnostics failure) | "panic" (backend panicked) | "format" (gofmt failed)
func c09Generate(src string) (goSrc string, status string, detail string) {
	defer func() {
		if r := recover(); r != nil {
			status = "panic"
			detail = fmt.Sprint(r) + "\n" + string(debugStack())
		}
	}()
	elk.InitGlobalEnvironment()
	var buff bytes.Buffer
	comp, diag := checker.CheckSourceNative("main.elk", src, nil, bitfield.BitField16{}, &buff, nil)
	if diag != nil && diag.IsFailure() {
		return "", "rejected", diagString(diag)
	}
	if comp == nil {
		return "", "rejected", diagString(diag)
	}
	comp.Flush()
	res, err := format.Source(buff.Bytes())
	if err != nil {
		return buff.String(), "format", err.Error()
	}
	return string(res), "ok", ""
}

// c09GenerateAll translates every source in a child process: the backend compiles method bodies on
// other goroutines, so one of its panics cannot be recovered in-process. A child that dies is
// restarted after the program it was working on (that program gets status "panic").
func c09GenerateAll(dir string, srcs []string) []c09Native {
	res := make([]c09Native, len(srcs))
	sd := filepath.Join(dir, "elk")
	os.MkdirAll(sd, 0o755)
	for i, s := range srcs {
		os.WriteFile(filepath.Join(sd, fmt.Sprintf("%d.elk", i)), []byte(s), 0o644)
	}
	from := 0
	for from < len(srcs) {
		ctx, cancel := context.WithTimeout(context.Background(), 10*time.Minute)
		cmd := exec.CommandContext(ctx, selfExe(), "c09genbatch", sd, fmt.Sprint(from), fmt.Sprint(len(srcs)))
		var se bytes.Buffer
		cmd.Stderr = &se
		cmd.Run()
		cancel()
		next := len(srcs)
		for i := from; i < len(srcs); i++ {
			st, err := os.ReadFile(filepath.Join(sd, fmt.Sprintf("%d.st", i)))
			if err != nil {
				// the child died while translating program i
				msg := regexp.MustCompile(`(?m)^panic: .*$`).FindString(se.String())
				site := regexp.MustCompile(`compiler/go_compiler\.go:\d+`).FindString(se.String())
				res[i] = c09Native{Status: "panic", Detail: msg + " @" + site + "\n" + head(se.String(), 1500)}
				next = i + 1
				break
			}
			parts := strings.SplitN(string(st), "\n", 2)
			res[i].Status = parts[0]
			if len(parts) > 1 {
				res[i].Detail = parts[1]
			}
			if g, err := os.ReadFile(filepath.Join(sd, fmt.Sprintf("%d.gosrc", i))); err == nil {
				res[i].GoSrc = string(g)
			}
		}
		from = next
	}
	return res
}

// c09Native is what the native side of one program produced.
type c09Native struct {
	Status  string // ok | rejected | panic | format | compile-error | build-failed | timeout
	Detail  string
	GoSrc   string
	Stdout  string
	Stderr  string
	Exit    int
	Elapsed time.Duration
}

var c09PkgErrRe = regexp.MustCompile(`(?m)^(?:\./)?p(\d+)[/\\]main\.go:(\d+):(\d+): (.*)$`)

func c09GoEnv() []string {
	env := os.Environ()
	// the generated module must resolve offline exactly like the harness itself
	env = append(env, "GOFLAGS=-mod=mod", "GOPROXY=off", "GOSUMDB=off", "GOTOOLCHAIN=local")
	return env
}

func c09WriteModule(dir string) error {
	if err := os.MkdirAll(dir, 0o755); err != nil {
		return err
	}
	mod := fmt.Sprintf("module c09batch\n\ngo 1.25.0\n\nrequire github.com/elk-language/elk v0.0.0\n\nreplace github.com/elk-language/elk => %s\n", repoDir)
	if err := os.WriteFile(filepath.Join(dir, "go.mod"), []byte(mod), 0o644); err != nil {
		return err
	}
	sum, err := os.ReadFile(filepath.Join(repoDir, "go.sum"))
	if err != nil {
		return err
	}
	return os.WriteFile(filepath.Join(dir, "go.sum"), sum, 0o644)
}

func c09GoBuild(dir, out string) (string, error) {
	ctx, cancel := context.WithTimeout(context.Background(), 25*time.Minute)
	defer cancel()
	cmd := exec.CommandContext(ctx, "go", "build", "-tags", "native", "-o", out, ".")
	cmd.Dir = dir
	cmd.Env = c09GoEnv()
	b, err := cmd.CombinedOutput()
	return string(b), err
}

func c09Exec(bin string, arg string) (stdout, stderr string, exit int, timedOut bool, el time.Duration) {
	ctx, cancel := context.WithTimeout(context.Background(), 20*time.Second)
	defer cancel()
	var args []string
	if arg != "" {
		args = append(args, arg)
	}
	cmd := exec.CommandContext(ctx, bin, args...)
	cmd.Env = append(os.Environ(), "ELKPATH="+repoDir, "NO_COLOR=1")
	var so, se bytes.Buffer
	cmd.Stdout, cmd.Stderr = &so, &se
	t0 := time.Now()
	err := cmd.Run()
	el = time.Since(t0)
	exit = 0
	if err != nil {
		exit = -1
		if ee, ok := err.(*exec.ExitError); ok {
			exit = ee.ExitCode()
		}
	}
	return so.String(), se.String(), exit, ctx.Err() != nil, el
}

// c09BuildRunBatch translates, builds (one binary for the batch) and runs every source.
func c09BuildRunBatch(dir string, srcs []string) []c09Native {
	res := make([]c09Native, len(srcs))
	os.RemoveAll(dir)
	if err := c09WriteModule(dir); err != nil {
		for i := range res {
			res[i] = c09Native{Status: "build-failed", Detail: err.Error()}
		}
		return res
	}
	live := map[int]bool{}
	gens := c09GenerateAll(dir, srcs)
	for i := range srcs {
		g, st := gens[i].GoSrc, gens[i].Status
		res[i] = gens[i]
		if st != "ok" {
			continue
		}
		g = strings.Replace(g, "package main\n", fmt.Sprintf("package p%d\n", i), 1)
		g = strings.Replace(g, "\nfunc main() {", "\nfunc Main() {", 1)
		pd := filepath.Join(dir, fmt.Sprintf("p%d", i))
		os.MkdirAll(pd, 0o755)
		os.WriteFile(filepath.Join(pd, "main.go"), []byte(g), 0o644)
		live[i] = true
	}
	bin := filepath.Join(dir, "prog")
	for attempt := 0; len(live) > 0; attempt++ {
		var ks []int
		for k := range live {
			ks = append(ks, k)
		}
		sort.Ints(ks)
		var sb strings.Builder
		sb.WriteString("package main\n\nimport (\n\t\"os\"\n")
		for _, k := range ks {
			fmt.Fprintf(&sb, "\tp%d \"c09batch/p%d\"\n", k, k)
		}
		sb.WriteString(")\n\nfunc main() {\n\tswitch os.Args[1] {\n")
		for _, k := range ks {
			fmt.Fprintf(&sb, "\tcase \"%d\":\n\t\tp%d.Main()\n", k, k)
		}
		sb.WriteString("\tdefault:\n\t\tos.Exit(99)\n\t}\n}\n")
		os.WriteFile(filepath.Join(dir, "main.go"), []byte(sb.String()), 0o644)
		out, err := c09GoBuild(dir, bin)
		if err == nil {
			break
		}
		bad := map[int]string{}
		for _, m := range c09PkgErrRe.FindAllStringSubmatch(out, -1) {
			var k int
			fmt.Sscan(m[1], &k)
			if _, seen := bad[k]; !seen {
				bad[k] = m[0]
			}
		}
		if len(bad) == 0 || attempt > len(srcs) {
			for k := range live {
				res[k].Status = "build-failed"
				res[k].Detail = head(out, 1500)
			}
			live = map[int]bool{}
			break
		}
		for k, msg := range bad {
			res[k].Status = "compile-error"
			res[k].Detail = msg
			delete(live, k)
			os.RemoveAll(filepath.Join(dir, fmt.Sprintf("p%d", k)))
		}
	}
	for k := range live {
		so, se, ex, to, el := c09Exec(bin, fmt.Sprint(k))
		res[k].Stdout, res[k].Stderr, res[k].Exit, res[k].Elapsed = so, se, ex, el
		if to {
			res[k].Status = "timeout"
		}
	}
	return res
}

// c09BuildRunAlone builds the unmodified generated source as its own `package main`.
func c09BuildRunAlone(dir string, src string) c09Native {
	os.RemoveAll(dir)
	if err := c09WriteModule(dir); err != nil {
		return c09Native{Status: "build-failed", Detail: err.Error()}
	}
	r := c09GenerateAll(dir, []string{src})[0]
	if r.Status != "ok" {
		return r
	}
	os.WriteFile(filepath.Join(dir, "main.go"), []byte(r.GoSrc), 0o644)
	bin := filepath.Join(dir, "prog")
	out, err := c09GoBuild(dir, bin)
	if err != nil {
		if m := regexp.MustCompile(`(?m)^(?:\./)?main\.go:\d+:\d+: .*$`).FindString(out); m != "" {
			r.Status, r.Detail = "compile-error", m
		} else {
			r.Status, r.Detail = "build-failed", head(out, 1500)
		}
		return r
	}
	so, se, ex, to, el := c09Exec(bin, "")
	r.Stdout, r.Stderr, r.Exit, r.Elapsed = so, se, ex, el
	if to {
		r.Status = "timeout"
	}
	return r
}

// ---- comparison ------------------------------------------------------------------------------

// c09VM is the reference outcome.
type c09VM struct {
	Usable bool // false: checker rejected the program or the VM itself panicked (not C09's business)
	Why    string
	Stdout string
	Report string // printed uncaught-error report ("" when the program ended normally)
	Exit   int
}

func c09RunVM(src string) c09VM {
	r := RunElk(src, nil)
	switch {
	case r.Rejected:
		return c09VM{Why: "rejected: " + head(diagString(r.Diagnostics), 300)}
	case r.Panic != "":
		return c09VM{Why: "vm-panic: " + head(r.Panic, 200)}
	}
	v := c09VM{Usable: true, Stdout: r.Stdout, Report: r.Stderr}
	if !r.Err.IsUndefined() {
		v.Exit = 1
		v.Report += r.Trace
	}
	return v
}

var c09AnsiRe = regexp.MustCompile("\x1b\\[[0-9;]*m")

// c09NormReport strips ANSI colour sequences (the VM side prints into a buffer, the native binary
// into a pipe; both are non-terminals, the strip only guards against a forced-colour environment)
// and trailing blank space. Nothing else is normalised: file names and line numbers are compared.
func c09NormReport(s string) string {
	return strings.TrimSpace(c09AnsiRe.ReplaceAllString(s, ""))
}

var c09IdentRe = regexp.MustCompile(`\b(l|t|sym|fn_method|const|range|closure|fn|method|upvalue|u|big|float|str|val)_?\d+\b`)
var c09NumRe = regexp.MustCompile(`\d+`)

func c09ErrClass(msg string) string {
	if i := strings.Index(msg, ": "); i >= 0 && strings.Contains(msg[:i], "main.go") {
		msg = msg[i+2:]
	}
	msg = c09IdentRe.ReplaceAllString(msg, "$1#")
	msg = c09NumRe.ReplaceAllString(msg, "N")
	msg = regexp.MustCompile(`"[^"]*"`).ReplaceAllString(msg, `"…"`)
	return head(msg, 90)
}

func c09CrashClass(stderr string) string {
	m := regexp.MustCompile(`(?m)^(panic: .*|fatal error: .*)$`).FindString(stderr)
	m = regexp.MustCompile(`0x[0-9a-f]+|\d+`).ReplaceAllString(m, "N")
	return head(m, 90)
}

type c09Diff struct{ Kind, Class, Detail string }

var c09FrameRe = regexp.MustCompile("(?m)^[ \\t]*(\\d+): (.*):(\\d+), in `(.*)`$")

// c09SplitReport separates the stack-trace frames from the rest (header + error message).
func c09SplitReport(rep string) (frames [][]string, rest string) {
	rep = c09NormReport(rep)
	frames = c09FrameRe.FindAllStringSubmatch(rep, -1)
	rest = strings.TrimSpace(regexp.MustCompile(`\n\s*\n`).ReplaceAllString(c09FrameRe.ReplaceAllString(rep, ""), "\n"))
	return
}

// c09CompareReports compares two uncaught-error reports aspect by aspect so that one deviating
// aspect (say, the label of the top-level frame) does not hide the others.
func c09CompareReports(vmRep, natRep string) []c09Diff {
	if c09NormReport(vmRep) == c09NormReport(natRep) {
		return nil
	}
	both := fmt.Sprintf("VM report:\n%s\nnative stderr:\n%s", head(vmRep, 700), head(natRep, 700))
	vf, vrest := c09SplitReport(vmRep)
	nf, nrest := c09SplitReport(natRep)
	var out []c09Diff
	if vrest != nrest {
		out = append(out, c09Diff{"error-report-differs", "message", both})
	}
	if len(vf) != len(nf) {
		out = append(out, c09Diff{"stack-trace-differs", "frame-count", both})
		return out
	}
	seen := map[string]bool{}
	add := func(cl string) {
		if !seen[cl] {
			seen[cl] = true
			out = append(out, c09Diff{"stack-trace-differs", cl, both})
		}
	}
	for i := range vf {
		v, n := vf[i], nf[i]
		if v[2] != n[2] {
			add("frame-file")
		}
		if v[3] != n[3] {
			add("frame-line")
		}
		if v[4] != n[4] {
			if i == 0 && v[4] == v[2] {
				add("top-level-frame-name")
			} else {
				add("frame-function-name")
			}
		}
	}
	if len(out) == 0 {
		out = append(out, c09Diff{"error-report-differs", "layout", both})
	}
	return out
}

// c09Compare lists what differs between the native outcome and the VM outcome (nil = same):
// go-compile-error / native-crash / stdout-differs / exit-status / error-report-differs /
// stack-trace-differs / timeout.
func c09Compare(vm c09VM, n c09Native) []c09Diff {
	switch n.Status {
	case "format":
		return []c09Diff{{"go-compile-error", "gofmt:" + c09ErrClass(n.Detail), "generated source is not valid Go: " + n.Detail}}
	case "compile-error":
		return []c09Diff{{"go-compile-error", c09ErrClass(n.Detail), "go build: " + n.Detail}}
	case "timeout":
		return []c09Diff{{"timeout", "", "native binary did not finish in 20 s; stdout so far:\n" + head(n.Stdout, 400)}}
	case "ok":
	default:
		return nil
	}
	if strings.Contains(n.Stderr, "\ngoroutine ") || strings.HasPrefix(n.Stderr, "panic: ") || strings.Contains(n.Stderr, "\npanic: ") || strings.Contains(n.Stderr, "fatal error: ") {
		return []c09Diff{{"native-crash", c09CrashClass(n.Stderr), fmt.Sprintf("native binary died with a Go crash (exit %d)\nstdout:\n%s\nstderr:\n%s\nVM stdout:\n%s\nVM report:\n%s", n.Exit, head(n.Stdout, 500), head(n.Stderr, 1200), head(vm.Stdout, 500), head(vm.Report, 400))}}
	}
	var out []c09Diff
	if n.Stdout != vm.Stdout {
		out = append(out, c09Diff{"stdout-differs", "", fmt.Sprintf("VM stdout:\n%s\nnative stdout:\n%s\nVM report: %s\nnative stderr: %s", head(vm.Stdout, 900), head(n.Stdout, 900), head(vm.Report, 300), head(n.Stderr, 300))})
	}
	if (n.Exit != 0) != (vm.Exit != 0) {
		out = append(out, c09Diff{"exit-status", "", fmt.Sprintf("VM exit %d, native exit %d\nVM report:\n%s\nnative stderr:\n%s", vm.Exit, n.Exit, head(vm.Report, 500), head(n.Stderr, 500))})
		return out
	}
	if len(out) == 0 || vm.Exit != 0 {
		out = append(out, c09CompareReports(vm.Report, n.Stderr)...)
	}
	if len(out) == 0 && n.Exit != vm.Exit {
		out = append(out, c09Diff{"exit-status", "code", fmt.Sprintf("VM exit %d, native exit %d", vm.Exit, n.Exit)})
	}
	return out
}

func init() {
	subcommands["c09gen"] = func(args []string) {
		b, err := os.ReadFile(args[0])
		if err != nil {
			panic(err)
		}
		g, st, d := c09Generate(string(b))
		fmt.Fprintln(os.Stderr, "status:", st, d)
		if len(args) > 1 {
			os.WriteFile(args[1], []byte(g), 0o644)
		} else {
			fmt.Print(g)
		}
	}
	subcommands["c09genbatch"] = func(args []string) {
		sd := args[0]
		var from, n int
		fmt.Sscan(args[1], &from)
		fmt.Sscan(args[2], &n)
		for i := from; i < n; i++ {
			b, err := os.ReadFile(filepath.Join(sd, fmt.Sprintf("%d.elk", i)))
			if err != nil {
				panic(err)
			}
			g, st, d := c09Generate(string(b))
			os.WriteFile(filepath.Join(sd, fmt.Sprintf("%d.gosrc", i)), []byte(g), 0o644)
			os.WriteFile(filepath.Join(sd, fmt.Sprintf("%d.st", i)), []byte(st+"\n"+d), 0o644)
		}
	}
	// c09try [-alone] <dir> file.elk... : both back ends side by side (development aid)
	subcommands["c09try"] = func(args []string) {
		alone := false
		if args[0] == "-alone" {
			alone = true
			args = args[1:]
		}
		dir := args[0]
		var srcs []string
		for _, f := range args[1:] {
			b, err := os.ReadFile(f)
			if err != nil {
				panic(err)
			}
			srcs = append(srcs, string(b))
		}
		var res []c09Native
		if alone {
			for _, s := range srcs {
				res = append(res, c09BuildRunAlone(dir, s))
			}
		} else {
			res = c09BuildRunBatch(dir, srcs)
		}
		for i, s := range srcs {
			vm := c09RunVM(s)
			fmt.Printf("=== %s: native status=%s exit=%d (%.1fs) | vm usable=%v exit=%d %s\n", args[1+i], res[i].Status, res[i].Exit, res[i].Elapsed.Seconds(), vm.Usable, vm.Exit, vm.Why)
			if res[i].Status != "ok" {
				fmt.Println(head(res[i].Detail, 1800))
			}
			ds := c09Compare(vm, res[i])
			if len(ds) == 0 {
				fmt.Printf("SAME (stdout %d bytes, report %d bytes)\n", len(vm.Stdout), len(vm.Report))
			}
			for _, d := range ds {
				fmt.Printf("DIFF %s %s\n%s\n", d.Kind, d.Class, d.Detail)
			}
		}
	}
}
