package main

// C23 — Ranges and iterable operations agree with a list model.
//
// Runtime monitoring with a reference model: every case is a generated Elk program that builds
// one or two iterables of a random kind (ArrayList, ArrayTuple, HashSet, HashMap, HashRecord, their
// iterators, the eight range kinds over Int / BigInt / Char / Float / a user-defined comparable class,
// generator functions, closed channels, Int#iter, String#iter and user classes that include
// Iterable::Base / Iterable::FiniteBase / ImmutableCollection::Base / Iterator::Base) and prints
// numbered probes.  The harness knows the materialised element list of every iterable and computes
// what each probe must print with a Go slice model.

import (
	"fmt"
	"math/big"
	"math/rand/v2"
	"sort"
	"strconv"
	"strings"
)

// ---------------------------------------------------------------------------------------------
// element kinds

type c23Pred struct {
	name string
	src  func(ek *c23Elem, t int) string // closure body over x
	fn   func(v, t int) bool
}

type c23Map struct {
	name    string
	src     string // complete closure literal
	fn      func(v int) string
	intLike bool // results are plain integers (sortable textually as numbers)
}

type c23Fold struct {
	name string
	init string // empty for reduce
	src  string
	fn   func(xs []int) string
}

type c23Elem struct {
	name    string
	typ     string
	lit     func(v int) string
	show    func(v int) string
	cmp     string // expression over x used in comparisons
	cmpLit  func(t int) string
	lo, hi  int // value range of random elements
	modOK   bool
	maps    []c23Map
	folds   []c23Fold
	reduces []c23Fold
	decl    string // class declarations needed by the kind
	noEq    bool   // no structural ==: contains / index_of are not generated
	// collections do not use a user-defined inspect: results are projected to plain values before printing
	collPost string // appended to expressions whose value is a collection of elements
	elemPost string // appended to expressions whose value is one element
	accTyp   string // element type of the accumulator of a for-in probe
	accExpr  string // what a for-in probe collects from x
}

const c23BigBase = "18446744073709551616"

func c23BigShow(v int) string {
	b, _ := new(big.Int).SetString(c23BigBase, 10)
	return b.Add(b, big.NewInt(int64(v))).String()
}

func c23HalfShow(v int) string { return strconv.FormatFloat(float64(v)/2, 'f', 1, 64) }

const c23LevelDecl = `class Level
  attr n: Int
  init(@n: Int); end
  def <=>(other: Level): Int?
    @n <=> other.n
  end
  def >(other: Level): bool then @n > other.n
  def >=(other: Level): bool then @n >= other.n
  def <(other: Level): bool then @n < other.n
  def <=(other: Level): bool then @n <= other.n
  def ++: Level then Level(@n + 1)
  def inspect: String then "L#{@n}"
end
`

func c23Lit(v int) string {
	if v < 0 {
		return fmt.Sprintf("(%d)", v)
	}
	return fmt.Sprint(v)
}

func c23JoinShow(ek *c23Elem, xs []int) string {
	parts := make([]string, len(xs))
	for i, x := range xs {
		parts[i] = ek.show(x)
	}
	return "[" + strings.Join(parts, ", ") + "]"
}

var c23Elems = map[string]*c23Elem{}

func init() {
	strShow := func(v int) string { return fmt.Sprintf("\"s%02d\"", v) }
	sumFold := func(f func(a, x int) int, init int) func(xs []int) string {
		return func(xs []int) string {
			a := init
			for _, x := range xs {
				a = f(a, x)
			}
			return fmt.Sprint(a)
		}
	}
	redFold := func(f func(a, x int) int, show func(int) string) func(xs []int) string {
		return func(xs []int) string {
			a := xs[0]
			for _, x := range xs[1:] {
				a = f(a, x)
			}
			return show(a)
		}
	}
	count := func(typ string) c23Fold {
		return c23Fold{"count", "0", "|a: Int, x: " + typ + "|: Int -> a + 1", func(xs []int) string { return fmt.Sprint(len(xs)) }}
	}
	c23Elems["int"] = &c23Elem{
		name: "int", typ: "Int", lit: c23Lit, show: func(v int) string { return fmt.Sprint(v) },
		cmp: "x", cmpLit: c23Lit, lo: -9, hi: 30, modOK: true,
		maps: []c23Map{
			{"affine", "|x: Int|: Int -> x * 2 + 1", func(v int) string { return fmt.Sprint(v*2 + 1) }, true},
			{"to-bool", "|x: Int|: bool -> x > 3", func(v int) string { return fmt.Sprint(v > 3) }, false},
			{"const", "|x: Int|: Int -> 7", func(v int) string { return "7" }, true},
			{"to-string", "|x: Int|: String -> x.inspect + \"!\"", func(v int) string { return fmt.Sprintf("\"%d!\"", v) }, false},
		},
		folds: []c23Fold{
			{"horner", "1", "|a: Int, x: Int|: Int -> a * 3 + x", sumFold(func(a, x int) int { return a*3 + x }, 1)},
			{"sum", "0", "|a: Int, x: Int|: Int -> a + x", sumFold(func(a, x int) int { return a + x }, 0)},
			{"trace", "\"\"", "|a: String, x: Int|: String -> a + x.inspect + \";\"", func(xs []int) string {
				s := ""
				for _, x := range xs {
					s += fmt.Sprint(x) + ";"
				}
				return "\"" + s + "\""
			}},
			count("Int"),
		},
		reduces: []c23Fold{
			{"sub", "", "|a: Int, x: Int|: Int -> a - x", redFold(func(a, x int) int { return a - x }, func(v int) string { return fmt.Sprint(v) })},
			{"sum", "", "|a: Int, x: Int|: Int -> a + x", redFold(func(a, x int) int { return a + x }, func(v int) string { return fmt.Sprint(v) })},
			{"horner", "", "|a: Int, x: Int|: Int -> a * 2 + x", redFold(func(a, x int) int { return a*2 + x }, func(v int) string { return fmt.Sprint(v) })},
		},
	}
	c23Elems["string"] = &c23Elem{
		name: "string", typ: "String", lit: strShow, show: strShow,
		cmp: "x", cmpLit: strShow, lo: 0, hi: 40,
		maps: []c23Map{
			{"concat", "|x: String|: String -> x + \"!\"", func(v int) string { return fmt.Sprintf("\"s%02d!\"", v) }, false},
			{"length", "|x: String|: Int -> x.length", func(v int) string { return "3" }, false},
		},
		folds: []c23Fold{
			{"trace", "\"\"", "|a: String, x: String|: String -> a + x + \";\"", func(xs []int) string {
				s := ""
				for _, x := range xs {
					s += fmt.Sprintf("s%02d;", x)
				}
				return "\"" + s + "\""
			}},
			count("String"),
		},
		reduces: []c23Fold{
			{"concat", "", "|a: String, x: String|: String -> a + x", func(xs []int) string {
				s := ""
				for _, x := range xs {
					s += fmt.Sprintf("s%02d", x)
				}
				return "\"" + s + "\""
			}},
		},
	}
	// floats are multiples of 0.5; the model value is twice the float
	c23Elems["float"] = &c23Elem{
		name: "float", typ: "Float", lit: func(v int) string {
			if v < 0 {
				return "(" + c23HalfShow(v) + ")"
			}
			return c23HalfShow(v)
		}, show: c23HalfShow,
		cmp: "x", lo: -6, hi: 40,
		maps: []c23Map{
			{"double", "|x: Float|: Float -> x * 2.0", func(v int) string { return c23HalfShow(v * 2) }, false},
			{"to-bool", "|x: Float|: bool -> x > 1.5", func(v int) string { return fmt.Sprint(v > 3) }, false},
		},
		folds: []c23Fold{
			{"sum", "0.0", "|a: Float, x: Float|: Float -> a + x", func(xs []int) string {
				a := 0
				for _, x := range xs {
					a += x
				}
				return c23HalfShow(a)
			}},
			count("Float"),
		},
		reduces: []c23Fold{
			{"sub", "", "|a: Float, x: Float|: Float -> a - x", redFold(func(a, x int) int { return a - x }, c23HalfShow)},
		},
	}
	c23Elems["float"].cmpLit = c23Elems["float"].lit
	chShow := func(v int) string { return fmt.Sprintf("`%c`", 'a'+v) }
	c23Elems["char"] = &c23Elem{
		name: "char", typ: "Char", lit: chShow, show: chShow, cmp: "x", cmpLit: chShow, lo: 0, hi: 25,
		maps: []c23Map{
			{"to-bool", "|x: Char|: bool -> x > `f`", func(v int) string { return fmt.Sprint(v > 5) }, false},
		},
		folds: []c23Fold{count("Char")},
	}
	bigLit := func(v int) string { return fmt.Sprintf("(%s + %d)", c23BigBase, v) }
	c23Elems["bigint"] = &c23Elem{
		name: "bigint", typ: "Int", lit: bigLit, show: c23BigShow, cmp: "x", cmpLit: bigLit, lo: 0, hi: 40, modOK: false,
		maps: []c23Map{
			{"offset", "|x: Int|: Int -> x - " + c23BigBase, func(v int) string { return fmt.Sprint(v) }, true},
		},
		folds: []c23Fold{
			{"horner", "1", "|a: Int, x: Int|: Int -> a * 3 + (x - " + c23BigBase + ")", sumFold(func(a, x int) int { return a*3 + x }, 1)},
			count("Int"),
		},
		reduces: []c23Fold{
			{"sub", "", "|a: Int, x: Int|: Int -> a - x + " + c23BigBase, redFold(func(a, x int) int { return a - x }, c23BigShow)},
		},
	}
	const edgeBase = uint64(9223372036854775790) // 2^63 - 18
	edgeLit := func(v int) string { return fmt.Sprintf("(9223372036854775790 + %d)", v) }
	edgeShow := func(v int) string { return fmt.Sprint(edgeBase + uint64(v)) }
	c23Elems["edgeint"] = &c23Elem{
		name: "edgeint", typ: "Int", lit: edgeLit, show: edgeShow, cmp: "x", cmpLit: edgeLit, lo: 0, hi: 40,
		maps: []c23Map{
			{"offset", "|x: Int|: Int -> x - 9223372036854775790", func(v int) string { return fmt.Sprint(v) }, true},
		},
		folds: []c23Fold{
			{"horner", "1", "|a: Int, x: Int|: Int -> a * 3 + (x - 9223372036854775790)", sumFold(func(a, x int) int { return a*3 + x }, 1)},
			count("Int"),
		},
	}
	pairVal := func(k int) int { return (k*7 + 3) % 11 }
	pairShow := func(k int) string { return fmt.Sprintf("Std::Pair(%d, %d)", k, pairVal(k)) }
	c23Elems["pair"] = &c23Elem{
		name: "pair", typ: "Pair[Int, Int]",
		lit:  func(k int) string { return fmt.Sprintf("Pair(%d, %d)", k, pairVal(k)) },
		show: pairShow, cmp: "x.key", cmpLit: c23Lit, lo: 0, hi: 40, modOK: true,
		maps: []c23Map{
			{"key-value", "|x: Pair[Int, Int]|: Int -> x.key * 100 + x.value", func(k int) string { return fmt.Sprint(k*100 + pairVal(k)) }, true},
		},
		folds: []c23Fold{
			{"horner", "1", "|a: Int, x: Pair[Int, Int]|: Int -> a * 3 + x.key", sumFold(func(a, x int) int { return a*3 + x }, 1)},
			count("Pair[Int, Int]"),
		},
	}
	lvShow := func(v int) string { return fmt.Sprint(v) }
	c23Elems["level"] = &c23Elem{
		name: "level", typ: "Level", lit: func(v int) string { return fmt.Sprintf("Level(%s)", c23Lit(v)) }, show: lvShow,
		cmp: "x.n", cmpLit: c23Lit, lo: -5, hi: 30, modOK: true, decl: c23LevelDecl, noEq: true,
		collPost: ".map(|x: Level|: Int -> x.n)", elemPost: ".n", accTyp: "Int", accExpr: "x.n",
		maps: []c23Map{
			{"n", "|x: Level|: Int -> x.n", func(v int) string { return fmt.Sprint(v) }, true},
		},
		folds: []c23Fold{
			{"horner", "1", "|a: Int, x: Level|: Int -> a * 3 + x.n", sumFold(func(a, x int) int { return a*3 + x }, 1)},
			count("Level"),
		},
	}
}

var c23Preds = []c23Pred{
	{"gt", func(ek *c23Elem, t int) string { return ek.cmp + " > " + ek.cmpLit(t) }, func(v, t int) bool { return v > t }},
	{"lt", func(ek *c23Elem, t int) string { return ek.cmp + " < " + ek.cmpLit(t) }, func(v, t int) bool { return v < t }},
	{"ge", func(ek *c23Elem, t int) string { return ek.cmp + " >= " + ek.cmpLit(t) }, func(v, t int) bool { return v >= t }},
	{"le", func(ek *c23Elem, t int) string { return ek.cmp + " <= " + ek.cmpLit(t) }, func(v, t int) bool { return v <= t }},
	{"eq", func(ek *c23Elem, t int) string { return ek.cmp + " == " + ek.cmpLit(t) }, func(v, t int) bool { return v == t }},
	{"ne", func(ek *c23Elem, t int) string { return ek.cmp + " != " + ek.cmpLit(t) }, func(v, t int) bool { return v != t }},
	{"true", func(ek *c23Elem, t int) string { return "true" }, func(v, t int) bool { return true }},
	{"false", func(ek *c23Elem, t int) string { return "false" }, func(v, t int) bool { return false }},
	{"mod", func(ek *c23Elem, t int) string {
		return fmt.Sprintf("(%s * %s) %% 3 == %d", ek.cmp, ek.cmp, ((t%3)+3)%3%2)
	}, func(v, t int) bool { return (v*v)%3 == ((t%3)+3)%3%2 }},
}

// ---------------------------------------------------------------------------------------------
// program under construction

type c23Probe struct {
	src      *c23Src
	sig      string               // op:kind:argclass
	what     string               // the Elk expression / statement probed
	want     func(E []int) string // expected text given the materialised element list
	multiset bool                 // compare the printed collection as a multiset
	// relation used instead of equality when the source has no defined order:
	// "multiset" (same elements in any order), "member" (one of cand(E), else want), "subset" (distinct
	// elements of cand(E), size(E) of them when size(E) >= 0), "index" (a valid index when cand(E) is not empty, else -1)
	rel  string
	cand func(E []int) []int
	size func(E []int) int
}

type c23Src struct {
	kind      string
	ek        *c23Elem
	elems     []int // materialised elements (insertion order for unordered kinds until discovered)
	recv      string
	forRecv   []string // expressions usable in a for-in header
	static    string
	unordered bool
	infinite  bool
	hasLength bool
}

type c23Prog struct {
	decls    strings.Builder
	body     strings.Builder
	probes   []*c23Probe
	nvar     int
	declared map[string]bool
	nextRel  string
	nextCand func(E []int) []int
	nextSize func(E []int) int
}

func (p *c23Prog) fresh(prefix string) string {
	p.nvar++
	return fmt.Sprintf("%s%d", prefix, p.nvar)
}

func (p *c23Prog) needDecl(ek *c23Elem) {
	if ek.decl != "" && !p.declared[ek.name] {
		p.declared[ek.name] = true
		p.decls.WriteString(ek.decl)
	}
}

const c23Helpers = `def shn(v: Value?): String
  if v
    return v.inspect
  end
  return "false" if v == false
  "nil"
end
`

// probeExpr prints the inspected value of expr or the class of the error it raises.
func (p *c23Prog) probeExpr(s *c23Src, sig, expr string, want func(E []int) string) *c23Probe {
	id := len(p.probes)
	fmt.Fprintf(&p.body, "do\n  q%d := %s\n  println(\"P%d #{q%d}\")\ncatch Error() as e%d\n  println(\"P%d ERR #{e%d.class.name}\")\nend\n", id, expr, id, id, id, id, id)
	pr := &c23Probe{src: s, sig: sig, what: expr, want: want}
	p.takeRel(pr)
	p.probes = append(p.probes, pr)
	return pr
}

func (p *c23Prog) takeRel(pr *c23Probe) {
	pr.rel, pr.cand, pr.size = p.nextRel, p.nextCand, p.nextSize
	p.nextRel, p.nextCand, p.nextSize = "", nil, nil
}

// probeNilable is probeExpr for expressions of a nilable type.
func (p *c23Prog) probeNilable(s *c23Src, sig, expr string, want func(E []int) string) *c23Probe {
	id := len(p.probes)
	fmt.Fprintf(&p.body, "do\n  q%d := shn(%s)\n  println(\"P%d \" + q%d)\ncatch Error() as e%d\n  println(\"P%d ERR #{e%d.class.name}\")\nend\n", id, expr, id, id, id, id, id)
	pr := &c23Probe{src: s, sig: sig, what: expr, want: want}
	p.takeRel(pr)
	p.probes = append(p.probes, pr)
	return pr
}

// probeFor collects the elements yielded by a for-in loop (optionally stopping after `limit` elements, limit < 0 = no limit).
func (p *c23Prog) probeFor(s *c23Src, sig, forRecv string, limit int, want func(E []int) string) *c23Probe {
	id := len(p.probes)
	brk := ""
	if limit >= 0 {
		brk = fmt.Sprintf("    break if a%d.length >= %d\n", id, limit)
	}
	accTyp, accExpr := s.ek.typ, "x"
	if s.ek.accTyp != "" {
		accTyp, accExpr = s.ek.accTyp, s.ek.accExpr
	}
	fmt.Fprintf(&p.body, "do\n  var a%d: ArrayList[%s] = []\n  for x in %s\n%s    a%d << %s\n  end\n  println(\"P%d #{a%d}\")\ncatch Error() as e%d\n  println(\"P%d ERR #{e%d.class.name}\")\nend\n", id, accTyp, forRecv, brk, id, accExpr, id, id, id, id, id)
	pr := &c23Probe{src: s, sig: sig, what: fmt.Sprintf("for x in %s (limit %d)", forRecv, limit), want: want}
	p.takeRel(pr)
	p.probes = append(p.probes, pr)
	return pr
}

const (
	c23ErrRange    = `ERR "Std::OutOfRangeError"`
	c23ErrNotFound = `ERR "Std::Iterable::NotFoundError"`
)

// ---------------------------------------------------------------------------------------------
// sources

func c23RandElems(r *rand.Rand, ek *c23Elem, n int, unique bool) []int {
	var xs []int
	seen := map[int]bool{}
	for len(xs) < n {
		v := ek.lo + r.IntN(ek.hi-ek.lo+1)
		if r.IntN(4) == 0 && len(xs) > 0 && !unique {
			v = xs[r.IntN(len(xs))] // duplicates on purpose
		}
		if unique && seen[v] {
			if len(seen) > ek.hi-ek.lo {
				break
			}
			continue
		}
		seen[v] = true
		xs = append(xs, v)
	}
	return xs
}

func c23Lits(ek *c23Elem, xs []int) string {
	parts := make([]string, len(xs))
	for i, x := range xs {
		parts[i] = ek.lit(x)
	}
	return strings.Join(parts, ", ")
}

func c23Len(r *rand.Rand) int {
	switch r.IntN(8) {
	case 0:
		return 0
	case 1:
		return 1
	}
	return 2 + r.IntN(9)
}

func c23PickElem(r *rand.Rand, names ...string) *c23Elem {
	return c23Elems[names[r.IntN(len(names))]]
}

// collection sources: list, tuple, set, map, record and their iterators
func c23CollectionSrc(p *c23Prog, r *rand.Rand) *c23Src {
	n := c23Len(r)
	name := p.fresh("c")
	s := &c23Src{}
	switch which := r.IntN(10); {
	case which < 3: // ArrayList
		s.ek = c23PickElem(r, "int", "int", "string", "float", "char", "bigint", "level")
		s.elems = c23RandElems(r, s.ek, n, false)
		s.kind, s.hasLength = "list", true
		s.static = []string{"ArrayList", "ArrayList", "List", "Tuple", "Collection", "ImmutableCollection", "Iterable"}[r.IntN(7)]
		if n == 0 {
			s.static = "ArrayList"
		}
		if r.IntN(3) == 0 && n > 0 { // built by pushes
			fmt.Fprintf(&p.body, "var %sb: ArrayList[%s] = []\n", name, s.ek.typ)
			for _, x := range s.elems {
				fmt.Fprintf(&p.body, "%sb << %s\n", name, s.ek.lit(x))
			}
			fmt.Fprintf(&p.body, "var %s: %s[%s] = %sb\n", name, s.static, s.ek.typ, name)
		} else {
			fmt.Fprintf(&p.body, "var %s: %s[%s] = [%s]\n", name, s.static, s.ek.typ, c23Lits(s.ek, s.elems))
		}
	case which < 5: // ArrayTuple
		s.ek = c23PickElem(r, "int", "int", "string", "float", "char", "bigint", "level")
		s.elems = c23RandElems(r, s.ek, n, false)
		s.kind, s.hasLength = "tuple", true
		s.static = []string{"ArrayTuple", "ArrayTuple", "Tuple", "ImmutableCollection", "Iterable"}[r.IntN(5)]
		if n == 0 {
			s.static = "ArrayTuple"
		}
		fmt.Fprintf(&p.body, "var %s: %s[%s] = %%[%s]\n", name, s.static, s.ek.typ, c23Lits(s.ek, s.elems))
	case which < 7: // HashSet
		s.ek = c23PickElem(r, "int", "int", "string", "float", "char", "bigint")
		s.elems = c23RandElems(r, s.ek, n, true)
		s.kind, s.hasLength, s.unordered = "set", true, true
		s.static = []string{"HashSet", "HashSet", "Set", "Collection", "ImmutableCollection", "Iterable"}[r.IntN(6)]
		if n == 0 {
			s.static = "HashSet"
		}
		fmt.Fprintf(&p.body, "var %s: %s[%s] = ^[%s]\n", name, s.static, s.ek.typ, c23Lits(s.ek, s.elems))
	default: // HashMap / HashRecord
		s.ek = c23Elems["pair"]
		s.elems = c23RandElems(r, s.ek, n, true)
		s.hasLength, s.unordered = true, true
		var parts []string
		for _, k := range s.elems {
			parts = append(parts, fmt.Sprintf("%d => %d", k, (k*7+3)%11))
		}
		if which < 9 {
			s.kind = "map"
			s.static = []string{"HashMap", "HashMap", "Map", "Record"}[r.IntN(4)]
			fmt.Fprintf(&p.body, "var %s: %s[Int, Int] = {%s}\n", name, s.static, strings.Join(parts, ", "))
		} else {
			s.kind = "record"
			s.static = []string{"HashRecord", "Record"}[r.IntN(2)]
			fmt.Fprintf(&p.body, "var %s: %s[Int, Int] = %%{%s}\n", name, s.static, strings.Join(parts, ", "))
		}
		if s.static == "Record" || s.static == "Map" || s.static == "HashRecord" || s.static == "HashMap" {
			// `Iterable[Pair[..]]` view of the same object
			if r.IntN(4) == 0 {
				fmt.Fprintf(&p.body, "var %sv: Iterable[Pair[Int, Int]] = %s\n", name, name)
				name += "v"
				s.static = "Iterable"
			}
		}
	}
	p.needDecl(s.ek)
	s.recv = name
	s.forRecv = []string{name}
	// a third of the time go through the collection's iterator object instead
	if r.IntN(3) == 0 {
		s.kind += "-iter"
		s.recv = name + ".iter"
		s.forRecv = []string{name + ".iter"}
		s.hasLength = true // Iterable::Base#length counts
	}
	return s
}

var c23RangeKinds = []struct {
	name           string
	op             string
	hasLo, hasHi   bool
	loOpen, hiOpen bool
	class          string
}{
	{"range-closed", "...", true, true, false, false, "ClosedRange"},
	{"range-right-open", "..<", true, true, false, true, "RightOpenRange"},
	{"range-left-open", "<..", true, true, true, false, "LeftOpenRange"},
	{"range-open", "<.<", true, true, true, true, "OpenRange"},
	{"range-endless-closed", "...", true, false, false, false, "EndlessClosedRange"},
	{"range-endless-open", "<..", true, false, true, false, "EndlessOpenRange"},
	{"range-beginless-closed", "...", false, true, false, false, "BeginlessClosedRange"},
	{"range-beginless-open", "..<", false, true, false, true, "BeginlessOpenRange"},
}

// c23RangeSrc declares a range and emits its `contains` probes; it returns an iterable source
// (through `.iter` and for-in) when the range has a start and an incrementable element type.
func c23RangeSrc(c *Ctx, p *c23Prog, r *rand.Rand) *c23Src {
	rk := c23RangeKinds[r.IntN(len(c23RangeKinds))]
	ek := c23PickElem(r, "int", "int", "int", "bigint", "edgeint", "char", "float", "level", "level")
	p.needDecl(ek)
	width := r.IntN(11)
	switch r.IntN(10) {
	case 0:
		width = 0
	case 1:
		width = -1 - r.IntN(3) // descending bounds: empty
	}
	lo := ek.lo + r.IntN(ek.hi-ek.lo-10)
	if ek.name == "char" {
		lo = r.IntN(12)
		if !rk.hasHi {
			lo = r.IntN(5)
		}
	}
	hi := lo + width
	if hi < ek.lo {
		hi = ek.lo
	}
	name := p.fresh("r")
	var lit string
	viaVars := r.IntN(3) == 0
	loS, hiS := ek.lit(lo), ek.lit(hi)
	if viaVars {
		fmt.Fprintf(&p.body, "%slo := %s\n%shi := %s\n", name, loS, name, hiS)
		loS, hiS = name+"lo", name+"hi"
	}
	switch {
	case rk.hasLo && rk.hasHi:
		lit = loS + rk.op + hiS
	case rk.hasLo:
		lit = loS + rk.op
	default:
		lit = rk.op + hiS
	}
	fmt.Fprintf(&p.body, "%s := %s\n", name, lit)
	kind := rk.name
	if ek.name != "int" {
		kind += "/" + ek.name
	}
	s := &c23Src{kind: kind, ek: ek, static: rk.class}
	inRange := func(v int) bool {
		if rk.hasLo && (v < lo || (rk.loOpen && v == lo)) {
			return false
		}
		if rk.hasHi && (v > hi || (rk.hiOpen && v == hi)) {
			return false
		}
		return true
	}
	// contains around the bounds
	qs := map[int]bool{}
	for _, b := range []int{lo, hi} {
		for d := -2; d <= 2; d++ {
			qs[b+d] = true
		}
	}
	qs[0], qs[-1], qs[(lo+hi)/2], qs[ek.hi+3], qs[ek.lo-3] = true, true, true, true, true
	var ql []int
	for q := range qs {
		if (ek.name == "char" && (q < 0 || q > 25)) || (ek.name == "edgeint" && q < 0) {
			continue
		}
		ql = append(ql, q)
	}
	sort.Ints(ql)
	r.Shuffle(len(ql), func(i, j int) { ql[i], ql[j] = ql[j], ql[i] })
	if len(ql) > 9 {
		ql = ql[:9]
	}
	for _, q := range ql {
		q := q
		cls := "inside"
		switch {
		case rk.hasLo && q == lo:
			cls = "at-start"
		case rk.hasHi && q == hi:
			cls = "at-end"
		case rk.hasLo && q < lo:
			cls = "below"
		case rk.hasHi && q > hi:
			cls = "above"
		}
		p.probeExpr(s, "contains:"+kind+":"+cls, fmt.Sprintf("%s.contains(%s)", name, ek.lit(q)), func([]int) string { return fmt.Sprint(inRange(q)) })
		c.Count("range_contains_probes", 1)
	}
	if !rk.hasLo || ek.name == "float" {
		return nil
	}
	start := lo
	if rk.loOpen {
		start++
	}
	if rk.hasHi {
		end := hi
		if rk.hiOpen {
			end--
		}
		for v := start; v <= end; v++ {
			s.elems = append(s.elems, v)
		}
	} else {
		s.infinite = true
		for v := start; v < start+64; v++ {
			s.elems = append(s.elems, v)
		}
	}
	s.recv = name + ".iter"
	s.hasLength = true
	s.forRecv = []string{name, name, lit}
	if !viaVars {
		s.forRecv = append(s.forRecv, "("+lit+")")
	}
	if r.IntN(2) == 0 {
		fmt.Fprintf(&p.body, "var %sp: PrimitiveIterable[%s] = %s\n", name, ek.typ, name)
		s.forRecv = append(s.forRecv, name+"p")
	}
	if r.IntN(2) == 0 {
		fmt.Fprintf(&p.body, "var %sq: IterableRange[%s] = %s\n", name, ek.typ, name)
		s.forRecv = append(s.forRecv, name+"q")
	}
	return s
}

// generators, channels, Int#iter, String#iter and user classes
func c23OtherSrc(p *c23Prog, r *rand.Rand) *c23Src {
	s := &c23Src{}
	name := p.fresh("g")
	n := c23Len(r)
	switch which := r.IntN(12); {
	case which < 3: // generator with explicit yields; the value of the body is the last element
		s.ek = c23PickElem(r, "int", "int", "string", "float", "bigint")
		if n == 0 {
			n = 1
		}
		s.elems = c23RandElems(r, s.ek, n, false)
		s.kind = "generator"
		fmt.Fprintf(&p.decls, "def *%s: %s\n", name, s.ek.typ)
		for _, x := range s.elems[:n-1] {
			fmt.Fprintf(&p.decls, "  yield %s\n", s.ek.lit(x))
		}
		fmt.Fprintf(&p.decls, "  %s\nend\n", s.ek.lit(s.elems[n-1]))
		s.recv = name + "()"
		s.hasLength = true
	case which < 5: // generator with a loop (finite or infinite)
		s.ek = c23Elems["int"]
		a, b := 1+r.IntN(4), r.IntN(7)-3
		s.kind = "generator-loop"
		if r.IntN(3) == 0 {
			s.infinite = true
			s.kind = "generator-infinite"
			for i := 0; i < 64; i++ {
				s.elems = append(s.elems, a*i+b)
			}
			fmt.Fprintf(&p.decls, "def *%s: Int\n  i := 0\n  loop\n    yield i * %d + %s\n    i += 1\n  end\nend\n", name, a, c23Lit(b))
			s.recv = name + "()"
		} else {
			for i := 0; i < n; i++ {
				s.elems = append(s.elems, a*i+b)
			}
			s.elems = append(s.elems, -1)
			fmt.Fprintf(&p.decls, "def *%s(n: Int): Int\n  i := 0\n  while i < n\n    yield i * %d + %s\n    i += 1\n  end\n  -1\nend\n", name, a, c23Lit(b))
			s.recv = fmt.Sprintf("%s(%d)", name, n)
		}
		s.hasLength = true
	case which < 7: // channel, filled then closed
		s.ek = c23PickElem(r, "int", "int", "string", "float")
		s.elems = c23RandElems(r, s.ek, n, false)
		s.kind = "channel"
		fmt.Fprintf(&p.decls, "def %s: Channel[%s]\n  ch := Channel::[%s](%d)\n", name, s.ek.typ, s.ek.typ, n+r.IntN(3))
		for _, x := range s.elems {
			fmt.Fprintf(&p.decls, "  ch << %s\n", s.ek.lit(x))
		}
		fmt.Fprintf(&p.decls, "  ch.close\n  ch\nend\n")
		s.recv = name + "()"
		if r.IntN(3) == 0 {
			s.kind = "read-channel"
			s.recv = name + "().readonly"
		}
	case which < 8: // Int#iter
		s.ek = c23Elems["int"]
		for i := 0; i < n; i++ {
			s.elems = append(s.elems, i)
		}
		s.kind = "int-iter"
		s.recv = fmt.Sprintf("%d.iter", n)
		s.hasLength = true
	case which < 9: // String#iter
		s.ek = c23Elems["char"]
		s.elems = c23RandElems(r, s.ek, n, false)
		var sb strings.Builder
		for _, x := range s.elems {
			sb.WriteByte(byte('a' + x))
		}
		s.kind = "string-iter"
		s.recv = fmt.Sprintf("\"%s\".iter", sb.String())
		s.hasLength = true
	default: // user classes
		s.ek = c23PickElem(r, "int", "int", "string", "float", "level")
		s.elems = c23RandElems(r, s.ek, n, false)
		cls := "U" + name
		typ := s.ek.typ
		lits := c23Lits(s.ek, s.elems)
		switch r.IntN(4) {
		case 0:
			s.kind, s.hasLength = "user-iterable-base", true
			fmt.Fprintf(&p.decls, "class %s\n  include Iterable::Base[%s]\n  def iter: ArrayList::Iterator[%s]\n    var l: ArrayList[%s] = [%s]\n    l.iter\n  end\nend\n", cls, typ, typ, typ, lits)
		case 1:
			s.kind, s.hasLength = "user-finite-base", true
			fmt.Fprintf(&p.decls, "class %s\n  include Iterable::FiniteBase[%s]\n  def iter: ArrayTuple::Iterator[%s]\n    var l: ArrayTuple[%s] = %%[%s]\n    l.iter\n  end\n  def length: Int then %d\nend\n", cls, typ, typ, typ, lits, len(s.elems))
		case 2:
			s.kind, s.hasLength = "user-immutable-collection", true
			fmt.Fprintf(&p.decls, "class %s\n  include ImmutableCollection::Base[%s]\n  def iter: ArrayList::Iterator[%s]\n    var l: ArrayList[%s] = [%s]\n    l.iter\n  end\n  def length: Int then %d\nend\n", cls, typ, typ, typ, lits, len(s.elems))
		default:
			s.kind, s.hasLength = "user-iterator", true
			fmt.Fprintf(&p.decls, "class %[1]s\n  include Iterator::Base[%[2]s]\n  var @i%[4]s: Int\n  var @l%[4]s: ArrayList[%[2]s]\n  init\n    @i%[4]s = 0\n    @l%[4]s = [%[3]s]\n  end\n  def next: %[2]s ! :stop_iteration\n    throw :stop_iteration if @i%[4]s >= @l%[4]s.length\n    @i%[4]s += 1\n    @l%[4]s[@i%[4]s - 1]\n  end\nend\n", cls, typ, lits, name)
		}
		s.recv = cls + "()"
	}
	p.needDecl(s.ek)
	s.forRecv = []string{s.recv}
	return s
}

// ---------------------------------------------------------------------------------------------
// operations

func c23ArgClass(n, length int) string {
	switch {
	case n < 0:
		return "neg-arg"
	case n == 0:
		return "zero-arg"
	case n < length:
		return "in-range"
	case n == length:
		return "eq-len"
	}
	return "gt-len"
}

func c23Filter(xs []int, f func(int) bool) []int {
	out := []int{}
	for _, x := range xs {
		if f(x) {
			out = append(out, x)
		}
	}
	return out
}

func c23Ops(c *Ctx, p *c23Prog, s *c23Src, r *rand.Rand, nops int) {
	ek := s.ek
	seq := func(xs []int) string { return c23JoinShow(ek, xs) }
	sig := func(op, arg string) string { return op + ":" + s.kind + ":" + arg }
	threshold := func() int {
		if len(s.elems) > 0 && r.IntN(4) != 0 {
			n := len(s.elems)
			if s.infinite {
				n = 20
			}
			return s.elems[r.IntN(n)] + r.IntN(3) - 1
		}
		return ek.lo + r.IntN(ek.hi-ek.lo+1)
	}
	pickPred := func() (src string, fn func(int) bool, name string) {
		for {
			pd := c23Preds[r.IntN(len(c23Preds))]
			if pd.name == "mod" && !ek.modOK {
				continue
			}
			t := threshold()
			if ek.name == "char" && (t < 0 || t > 25) {
				t = 3
			}
			if (ek.name == "bigint" || ek.name == "string" || ek.name == "edgeint") && t < 0 {
				t = 0
			}
			return fmt.Sprintf("|x: %s|: bool -> %s", ek.typ, pd.src(ek, t)), func(v int) bool { return pd.fn(v, t) }, pd.name
		}
	}
	nArg := func(length int) int {
		switch r.IntN(9) {
		case 0:
			return -1 - r.IntN(3)
		case 1:
			return 0
		case 2:
			return length
		case 3:
			return length + 1 + r.IntN(8)
		case 4:
			return 1
		}
		if length > 1 {
			return 1 + r.IntN(length-1)
		}
		return r.IntN(3)
	}
	queryVal := func() (int, string) {
		if len(s.elems) > 0 && r.IntN(3) != 0 {
			n := len(s.elems)
			if s.infinite {
				n = 20
			}
			return s.elems[r.IntN(n)], "present"
		}
		for tries := 0; ; tries++ {
			v := ek.lo + r.IntN(ek.hi-ek.lo+1)
			found := false
			for _, x := range s.elems {
				if x == v {
					found = true
				}
			}
			if !found {
				return v, "absent"
			}
			if tries > 20 {
				return v, "present"
			}
		}
	}
	rv := s.recv
	coll := func(expr string) string { return expr + ek.collPost }
	elem := func(expr string) string {
		if ek.elemPost != "" {
			return "(" + expr + ")" + ek.elemPost
		}
		return expr
	}
	nilableOK := ek.elemPost == ""
	un := func(rel string, cand func(E []int) []int, size func(E []int) int) {
		if s.unordered {
			p.nextRel, p.nextCand, p.nextSize = rel, cand, size
		}
	}
	all := func(E []int) []int { return E }
	// recv evaluates to a single-pass object: what one operation consumes is gone for the next
	stateful := strings.HasSuffix(s.kind, "-iter") || strings.HasPrefix(s.kind, "range-") || strings.HasPrefix(s.kind, "generator") ||
		s.kind == "channel" || s.kind == "read-channel" || s.kind == "user-iterator"

	if s.infinite {
		win := 25
		if ek.name == "char" {
			win = 10
		}
		for o := 0; o < nops; o++ {
			switch r.IntN(10) {
			case 0:
				n := nArg(8)
				p.probeExpr(s, sig("take", c23ArgClass(n, 1<<30)), coll(fmt.Sprintf("%s.take(%d)", rv, n)), func(E []int) string {
					if n < 0 {
						return c23ErrRange
					}
					return seq(E[:n])
				})
			case 1: // take_while needs a predicate that eventually fails
				t := s.elems[r.IntN(win)]
				p.probeExpr(s, sig("take_while", "lt"), coll(fmt.Sprintf("%s.take_while(|x: %s|: bool -> %s < %s)", rv, ek.typ, ek.cmp, ek.cmpLit(t))), func(E []int) string {
					i := 0
					for E[i] < t {
						i++
					}
					return seq(E[:i])
				})
			case 2:
				t := s.elems[r.IntN(win)]
				p.probeExpr(s, sig("find", "ge"), elem(fmt.Sprintf("%s.find(|x: %s|: bool -> %s >= %s)", rv, ek.typ, ek.cmp, ek.cmpLit(t))), func(E []int) string { return ek.show(t) })
				p.probeExpr(s, sig("find_index", "ge"), fmt.Sprintf("%s.find_index(|x: %s|: bool -> %s >= %s)", rv, ek.typ, ek.cmp, ek.cmpLit(t)), func(E []int) string {
					for i, x := range E {
						if x >= t {
							return fmt.Sprint(i)
						}
					}
					return "?"
				})
			case 3:
				if ek.noEq {
					continue
				}
				i := r.IntN(win)
				p.probeExpr(s, sig("index_of", "present"), fmt.Sprintf("%s.index_of(%s)", rv, ek.lit(s.elems[i])), func(E []int) string { return fmt.Sprint(i) })
				p.probeExpr(s, sig("contains", "present"), fmt.Sprintf("%s.contains(%s)", rv, ek.lit(s.elems[i])), func(E []int) string { return "true" })
			case 4:
				p.probeExpr(s, sig("first", "infinite"), elem(rv+".first"), func(E []int) string { return ek.show(E[0]) })
				if nilableOK {
					p.probeNilable(s, sig("try_first", "infinite"), rv+".try_first", func(E []int) string { return ek.show(E[0]) })
				}
			case 5:
				p.probeExpr(s, sig("is_empty", "infinite"), rv+".is_empty", func(E []int) string { return "false" })
			case 6:
				t := s.elems[r.IntN(win)]
				p.probeExpr(s, sig("any", "gt"), fmt.Sprintf("%s.any(|x: %s|: bool -> %s > %s)", rv, ek.typ, ek.cmp, ek.cmpLit(t)), func(E []int) string { return "true" })
				p.probeExpr(s, sig("every", "le"), fmt.Sprintf("%s.every(|x: %s|: bool -> %s <= %s)", rv, ek.typ, ek.cmp, ek.cmpLit(t)), func(E []int) string { return "false" })
			case 7:
				id := len(p.probes)
				n, m := r.IntN(9), r.IntN(9)
				fmt.Fprintf(&p.body, "i%d := %s\na%d := i%d.take(%d)\n", id, rv, id, id, n)
				p.probeExpr(s, sig("take", c23ArgClass(n, 1<<30)), coll(fmt.Sprintf("a%d", id)), func(E []int) string { return seq(E[:n]) })
				p.probeExpr(s, sig("rest-after-take", c23ArgClass(n, 1<<30)), coll(fmt.Sprintf("i%d.take(%d)", id, m)), func(E []int) string { return seq(E[n : n+m]) })
				c.Count("continuation_probes", 1)
			default:
				n := r.IntN(12)
				fr := s.forRecv[r.IntN(len(s.forRecv))]
				p.probeFor(s, sig("for-break", c23ArgClass(n, 1<<30)), fr, n, func(E []int) string { return seq(E[:n]) })
				c.Count("for_in_probes", 1)
			}
		}
		return
	}

	for o := 0; o < nops; o++ {
		switch op := r.IntN(35); op {
		case 0:
			un("multiset", nil, nil)
			p.probeExpr(s, sig("to_list", "all"), coll(rv+".to_list"), func(E []int) string { return seq(E) })
		case 1:
			un("multiset", nil, nil)
			p.probeExpr(s, sig("to_tuple", "all"), coll(rv+".to_tuple"), func(E []int) string { return seq(E) })
		case 2, 3:
			fr := s.forRecv[r.IntN(len(s.forRecv))]
			un("multiset", nil, nil)
			p.probeFor(s, sig("for", "all"), fr, -1, func(E []int) string { return seq(E) })
			c.Count("for_in_probes", 1)
		case 4:
			n := r.IntN(len(s.elems) + 3)
			fr := s.forRecv[r.IntN(len(s.forRecv))]
			un("subset", all, func(E []int) int { return min(n, len(E)) })
			p.probeFor(s, sig("for-break", c23ArgClass(n, len(s.elems))), fr, n, func(E []int) string {
				if n > len(E) {
					return seq(E)
				}
				return seq(E[:n])
			})
			c.Count("for_in_probes", 1)
		case 5:
			if s.hasLength {
				p.probeExpr(s, sig("length", "all"), rv+".length", func(E []int) string { return fmt.Sprint(len(E)) })
			}
			p.probeExpr(s, sig("is_empty", "all"), rv+".is_empty", func(E []int) string { return fmt.Sprint(len(E) == 0) })
		case 6:
			cls := "nonempty"
			if len(s.elems) == 0 {
				cls = "empty"
			}
			un("member", all, nil)
			p.probeExpr(s, sig("first", cls), elem(rv+".first"), func(E []int) string {
				if len(E) == 0 {
					return c23ErrNotFound
				}
				return ek.show(E[0])
			})
			if !nilableOK {
				continue
			}
			un("member", all, nil)
			p.probeNilable(s, sig("try_first", cls), rv+".try_first", func(E []int) string {
				if len(E) == 0 {
					return "nil"
				}
				return ek.show(E[0])
			})
		case 7:
			cls := "nonempty"
			if len(s.elems) == 0 {
				cls = "empty"
			}
			un("member", all, nil)
			p.probeExpr(s, sig("last", cls), elem(rv+".last"), func(E []int) string {
				if len(E) == 0 {
					return c23ErrNotFound
				}
				return ek.show(E[len(E)-1])
			})
			if !nilableOK {
				continue
			}
			un("member", all, nil)
			p.probeNilable(s, sig("try_last", cls), rv+".try_last", func(E []int) string {
				if len(E) == 0 {
					return "nil"
				}
				return ek.show(E[len(E)-1])
			})
		case 8, 9:
			if ek.noEq {
				continue
			}
			q, cls := queryVal()
			p.probeExpr(s, sig("contains", cls), fmt.Sprintf("%s.contains(%s)", rv, ek.lit(q)), func(E []int) string {
				for _, x := range E {
					if x == q {
						return "true"
					}
				}
				return "false"
			})
		case 10:
			if ek.noEq {
				continue
			}
			q, cls := queryVal()
			un("index", func(E []int) []int { return c23Filter(E, func(v int) bool { return v == q }) }, nil)
			p.probeExpr(s, sig("index_of", cls), fmt.Sprintf("%s.index_of(%s)", rv, ek.lit(q)), func(E []int) string {
				for i, x := range E {
					if x == q {
						return fmt.Sprint(i)
					}
				}
				return "-1"
			})
		case 11, 12:
			m := ek.maps[r.IntN(len(ek.maps))]
			un("multiset", nil, nil)
			pr := p.probeExpr(s, sig("map", m.name), fmt.Sprintf("%s.map(%s)", rv, m.src), func(E []int) string {
				parts := make([]string, len(E))
				for i, x := range E {
					parts[i] = m.fn(x)
				}
				return "[" + strings.Join(parts, ", ") + "]"
			})
			if s.kind == "set" { // HashSet#map builds a set
				if !m.intLike || m.name == "const" {
					p.probes = p.probes[:len(p.probes)-1]
					// the probe statement stays in the program but is not compared
					p.probes = append(p.probes, &c23Probe{src: s, sig: pr.sig, what: pr.what})
				} else {
					pr.multiset = true
				}
			}
		case 13, 14:
			src, fn, nm := pickPred()
			un("multiset", nil, nil)
			p.probeExpr(s, sig("filter", nm), coll(fmt.Sprintf("%s.filter(%s)", rv, src)), func(E []int) string { return seq(c23Filter(E, fn)) })
		case 15:
			src, fn, nm := pickPred()
			un("multiset", nil, nil)
			p.probeExpr(s, sig("reject", nm), coll(fmt.Sprintf("%s.reject(%s)", rv, src)), func(E []int) string {
				return seq(c23Filter(E, func(v int) bool { return !fn(v) }))
			})
		case 16:
			src, fn, nm := pickPred()
			p.probeExpr(s, sig("count", nm), fmt.Sprintf("%s.count(%s)", rv, src), func(E []int) string { return fmt.Sprint(len(c23Filter(E, fn))) })
		case 17:
			src, fn, nm := pickPred()
			p.probeExpr(s, sig("any", nm), fmt.Sprintf("%s.any(%s)", rv, src), func(E []int) string { return fmt.Sprint(len(c23Filter(E, fn)) > 0) })
			p.probeExpr(s, sig("every", nm), fmt.Sprintf("%s.every(%s)", rv, src), func(E []int) string { return fmt.Sprint(len(c23Filter(E, fn)) == len(E)) })
		case 18:
			src, fn, nm := pickPred()
			un("member", func(E []int) []int { return c23Filter(E, fn) }, nil)
			p.probeExpr(s, sig("find", nm), elem(fmt.Sprintf("%s.find(%s)", rv, src)), func(E []int) string {
				if f := c23Filter(E, fn); len(f) > 0 {
					return ek.show(f[0])
				}
				return c23ErrNotFound
			})
			if !nilableOK {
				continue
			}
			un("member", func(E []int) []int { return c23Filter(E, fn) }, nil)
			p.probeNilable(s, sig("try_find", nm), fmt.Sprintf("%s.try_find(%s)", rv, src), func(E []int) string {
				if f := c23Filter(E, fn); len(f) > 0 {
					return ek.show(f[0])
				}
				return "nil"
			})
		case 19:
			src, fn, nm := pickPred()
			un("index", func(E []int) []int { return c23Filter(E, fn) }, nil)
			p.probeExpr(s, sig("find_index", nm), fmt.Sprintf("%s.find_index(%s)", rv, src), func(E []int) string {
				for i, x := range E {
					if fn(x) {
						return fmt.Sprint(i)
					}
				}
				return "-1"
			})
		case 20, 21:
			n := nArg(len(s.elems))
			if n >= 0 {
				un("subset", all, func(E []int) int { return min(n, len(E)) })
			}
			p.probeExpr(s, sig("take", c23ArgClass(n, len(s.elems))), coll(fmt.Sprintf("%s.take(%d)", rv, n)), func(E []int) string {
				if n < 0 {
					return c23ErrRange
				}
				if n > len(E) {
					return seq(E)
				}
				return seq(E[:n])
			})
		case 22, 23:
			n := nArg(len(s.elems))
			if n >= 0 {
				un("subset", all, func(E []int) int { return max(len(E)-n, 0) })
			}
			p.probeExpr(s, sig("drop", c23ArgClass(n, len(s.elems))), coll(fmt.Sprintf("%s.drop(%d)", rv, n)), func(E []int) string {
				if n < 0 {
					return c23ErrRange
				}
				if n > len(E) {
					return seq(nil)
				}
				return seq(E[n:])
			})
		case 24:
			src, fn, nm := pickPred()
			un("subset", func(E []int) []int { return c23Filter(E, fn) }, func(E []int) int {
				switch len(c23Filter(E, fn)) {
				case 0:
					return 0
				case len(E):
					return len(E)
				}
				return -1
			})
			p.probeExpr(s, sig("take_while", nm), coll(fmt.Sprintf("%s.take_while(%s)", rv, src)), func(E []int) string {
				i := 0
				for i < len(E) && fn(E[i]) {
					i++
				}
				return seq(E[:i])
			})
		case 25:
			src, fn, nm := pickPred()
			un("subset", all, func(E []int) int {
				switch len(c23Filter(E, fn)) {
				case 0:
					return len(E)
				case len(E):
					return 0
				}
				return -1
			})
			p.probeExpr(s, sig("drop_while", nm), coll(fmt.Sprintf("%s.drop_while(%s)", rv, src)), func(E []int) string {
				i := 0
				for i < len(E) && fn(E[i]) {
					i++
				}
				return seq(E[i:])
			})
		case 26:
			f := ek.folds[r.IntN(len(ek.folds))]
			if s.unordered && f.name != "sum" && f.name != "count" {
				continue
			}
			p.probeExpr(s, sig("fold", f.name), fmt.Sprintf("%s.fold(%s, %s)", rv, f.init, f.src), f.fn)
		case 27:
			if len(ek.reduces) == 0 {
				continue
			}
			if len(s.elems) == 0 {
				// reduce over an empty iterable has no value: the model expects an error.  The statement does
				// not print the result because the implementation returns the internal `undefined` value
				// (known finding K-C23-reduce-empty) and printing that kills the VM.
				f := ek.reduces[0]
				id := len(p.probes)
				fmt.Fprintf(&p.body, "do\n  q%d := %s.reduce(%s)\n  println(\"P%d returned\")\ncatch Error() as e%d\n  println(\"P%d ERR #{e%d.class.name}\")\nend\n", id, rv, f.src, id, id, id, id)
				p.probes = append(p.probes, &c23Probe{src: s, sig: sig("reduce", "empty"), what: rv + ".reduce(" + f.src + ")", want: func([]int) string { return c23ErrNotFound }})
				continue
			}
			f := ek.reduces[r.IntN(len(ek.reduces))]
			if s.unordered && f.name != "sum" {
				continue
			}
			cls := f.name
			if len(s.elems) == 1 {
				cls += "-single"
			}
			p.probeExpr(s, sig("reduce", cls), fmt.Sprintf("%s.reduce(%s)", rv, f.src), f.fn)
		case 30: // counts that only fit in a BigInt
			big := "18446744073709551616"
			if r.IntN(3) == 0 {
				big = "36893488147419103232"
			}
			if r.IntN(4) == 0 {
				p.probeExpr(s, sig("take", "neg-big-arg"), coll(fmt.Sprintf("%s.take(-%s)", rv, big)), func(E []int) string { return c23ErrRange })
				p.probeExpr(s, sig("drop", "neg-big-arg"), coll(fmt.Sprintf("%s.drop(-%s)", rv, big)), func(E []int) string { return c23ErrRange })
				continue
			}
			un("multiset", nil, nil)
			p.probeExpr(s, sig("take", "big-arg"), coll(fmt.Sprintf("%s.take(%s)", rv, big)), func(E []int) string { return seq(E) })
			p.probeExpr(s, sig("drop", "big-arg"), coll(fmt.Sprintf("%s.drop(%s)", rv, big)), func(E []int) string { return seq(nil) })
		case 31, 32, 33, 34: // a single-pass iterator continues behind what an operation consumed
			if !stateful || s.unordered {
				continue
			}
			id := len(p.probes)
			iv := fmt.Sprintf("i%d", id)
			fmt.Fprintf(&p.body, "%s := %s\n", iv, rv)
			switch r.IntN(4) {
			case 0, 1:
				n := nArg(len(s.elems))
				if n < 0 {
					n = 0
				}
				fmt.Fprintf(&p.body, "a%d := %s.take(%d)\n", id, iv, n)
				cut := func(E []int) int { return min(n, len(E)) }
				p.probeExpr(s, sig("take", c23ArgClass(n, len(s.elems))), coll(fmt.Sprintf("a%d", id)), func(E []int) string { return seq(E[:cut(E)]) })
				p.probeExpr(s, sig("rest-after-take", c23ArgClass(n, len(s.elems))), coll(iv+".to_list"), func(E []int) string { return seq(E[cut(E):]) })
			case 2:
				fmt.Fprintf(&p.body, "a%d := %s.try_first\n", id, iv)
				p.probeExpr(s, sig("rest-after-try_first", "all"), coll(iv+".to_list"), func(E []int) string { return seq(E[min(1, len(E)):]) })
			default:
				src, fn, nm := pickPred()
				fmt.Fprintf(&p.body, "a%d := %s.try_find(%s)\n", id, iv, src)
				p.probeExpr(s, sig("rest-after-try_find", nm), coll(iv+".to_list"), func(E []int) string {
					for i, x := range E {
						if fn(x) {
							return seq(E[i+1:])
						}
					}
					return seq(nil)
				})
			}
			c.Count("continuation_probes", 1)
		default: // chains of two shape-preserving operations
			src, fn, _ := pickPred()
			n := nArg(len(s.elems))
			if n < 0 {
				n = 0
			}
			switch r.IntN(3) {
			case 0:
				un("subset", func(E []int) []int { return c23Filter(E, fn) }, func(E []int) int { return min(n, len(c23Filter(E, fn))) })
				p.probeExpr(s, sig("chain", "filter-take"), coll(fmt.Sprintf("%s.filter(%s).take(%d)", rv, src, n)), func(E []int) string {
					f := c23Filter(E, fn)
					if n < len(f) {
						f = f[:n]
					}
					return seq(f)
				})
			case 1:
				un("subset", func(E []int) []int { return c23Filter(E, fn) }, func(E []int) int {
					if n == 0 {
						return len(c23Filter(E, fn))
					}
					return -1
				})
				p.probeExpr(s, sig("chain", "drop-filter"), coll(fmt.Sprintf("%s.drop(%d).filter(%s)", rv, n, src)), func(E []int) string {
					if n > len(E) {
						return seq(nil)
					}
					return seq(c23Filter(E[n:], fn))
				})
			default:
				if s.unordered {
					continue
				}
				p.probeExpr(s, sig("chain", "take_while-count"), fmt.Sprintf("%s.take_while(%s).count(%s)", rv, src, src), func(E []int) string {
					i := 0
					for i < len(E) && fn(E[i]) {
						i++
					}
					return fmt.Sprint(i)
				})
			}
		}
	}
}

// ---------------------------------------------------------------------------------------------
// running and comparing

func c23Norm(s string) string {
	s = strings.TrimSpace(s)
	if strings.HasPrefix(s, "%[") || strings.HasPrefix(s, "^[") {
		s = s[1:]
	}
	// ArrayList#inspect appends ":<spare capacity>"
	if j := strings.LastIndex(s, "]:"); j >= 0 && j+2 < len(s) && strings.Trim(s[j+2:], "0123456789") == "" {
		s = s[:j+1]
	}
	return s
}

func c23SortedList(s string) string {
	if !strings.HasPrefix(s, "[") || !strings.HasSuffix(s, "]") {
		return s
	}
	inner := s[1 : len(s)-1]
	if inner == "" {
		return s
	}
	parts := strings.Split(inner, ",")
	sort.Strings(parts)
	return "[" + strings.Join(parts, ",") + "]"
}

func c23Run(c *Ctx, caseIdx int, src string, probes []*c23Probe) {
	res := RunElk(src, nil)
	c.Eval(int64(len(probes)))
	c.Count("programs", 1)
	if res.Panic != "" {
		c.Violate("panic:"+res.PanicPhase+":"+panicSite1(res.PanicStack), fmt.Sprintf("panic %s\n%s\nprogram:\n%s", head(res.Panic, 300), head(res.PanicStack, 1500), head(src, 6000)), caseIdx, src)
		return
	}
	if res.Rejected {
		c.Count("programs_rejected", 1)
		c.Violate("rejected:"+head(firstDiagMessage(res), 60), fmt.Sprintf("generated well-typed program was rejected:\n%s\nprogram:\n%s", head(diagString(res.Diagnostics), 800), head(src, 6000)), caseIdx, src)
		return
	}
	got := map[int]string{}
	cur := -1
	for _, ln := range strings.Split(res.Stdout, "\n") {
		if strings.HasPrefix(ln, "P") {
			if sp := strings.IndexByte(ln, ' '); sp > 1 && strings.Trim(ln[1:sp], "0123456789") == "" {
				k, _ := strconv.Atoi(ln[1:sp])
				got[k] = ln[sp+1:]
				cur = k
				continue
			}
			if strings.Trim(ln[1:], "0123456789") == "" && len(ln) > 1 { // "P7" + empty value (trailing space trimmed)
				k, _ := strconv.Atoi(ln[1:])
				got[k] = ""
				cur = k
				continue
			}
		}
		if cur >= 0 && ln != "" {
			got[cur] += "\n" + ln
		}
	}
	for k, pr := range probes {
		s := pr.src
		g, ok := got[k]
		if !ok {
			c.Violate(pr.sig+":no-output", fmt.Sprintf("probe %d (%s) printed nothing; runtime error: %s\n%s\nprogram:\n%s", k, pr.what, res.ErrInspect, head(res.Trace, 600), head(src, 6000)), caseIdx, src)
			return
		}
		if pr.want == nil {
			continue
		}
		c.Count("probes_compared", 1)
		c.Count("op_"+strings.SplitN(pr.sig, ":", 2)[0], 1)
		want := stripSpace(pr.want(s.elems))
		g = stripSpace(c23Norm(g))
		if pr.multiset {
			g, want = c23SortedList(g), c23SortedList(want)
		}
		if strings.HasPrefix(want, "ERR") {
			c.Count("error_probes", 1)
		}
		ok, relDesc := g == want, "exactly"
		if pr.rel != "" {
			c.Count("unordered_probes", 1)
			ok, relDesc = c23Related(pr, s, g, want)
		}
		if !ok {
			c.Violate(pr.sig, fmt.Sprintf("probe %d `%s` on %s (static type %s) with elements %s: model says %s %s, elk printed %s\nprogram:\n%s", k, pr.what, s.kind, s.static, c23JoinShow(s.ek, s.elems[:min(len(s.elems), 16)]), relDesc, want, g, head(src, 6000)), caseIdx, src)
		}
	}
}

// c23ParseList splits a printed (whitespace-free) list of elements of s into model values.
func c23ParseList(s *c23Src, g string) ([]int, bool) {
	if !strings.HasPrefix(g, "[") || !strings.HasSuffix(g, "]") {
		return nil, false
	}
	rest := g[1 : len(g)-1]
	var out []int
	for rest != "" {
		best, bestLen := 0, -1
		for _, x := range s.elems {
			sh := stripSpace(s.ek.show(x))
			if strings.HasPrefix(rest, sh) && len(sh) > bestLen && (len(rest) == len(sh) || rest[len(sh)] == ',') {
				best, bestLen = x, len(sh)
			}
		}
		if bestLen < 0 {
			return nil, false
		}
		out = append(out, best)
		rest = strings.TrimPrefix(rest[bestLen:], ",")
	}
	return out, true
}

// c23Related decides the order-insensitive relations used for sets and maps.
func c23Related(pr *c23Probe, s *c23Src, g, want string) (bool, string) {
	E := s.elems
	switch pr.rel {
	case "multiset":
		return c23SortedList(g) == c23SortedList(want), "a permutation of"
	case "member":
		cand := pr.cand(E)
		if len(cand) == 0 {
			return g == want, "exactly"
		}
		for _, x := range cand {
			if g == stripSpace(s.ek.show(x)) {
				return true, ""
			}
		}
		return false, fmt.Sprintf("one of %s, in list order", c23JoinShow(s.ek, cand))
	case "index":
		cand := pr.cand(E)
		if len(cand) == 0 {
			return g == "-1", "exactly -1, not"
		}
		i, err := strconv.Atoi(g)
		return err == nil && i >= 0 && i < len(E), fmt.Sprintf("an index in [0, %d), in list order", len(E))
	case "subset":
		xs, ok := c23ParseList(s, g)
		if !ok {
			return false, "a list of elements, in list order"
		}
		cand := map[int]bool{}
		for _, x := range pr.cand(E) {
			cand[x] = true
		}
		seen := map[int]bool{}
		for _, x := range xs {
			if !cand[x] || seen[x] {
				return false, fmt.Sprintf("distinct elements of %s, in list order", c23JoinShow(s.ek, pr.cand(E)))
			}
			seen[x] = true
		}
		if n := pr.size(E); n >= 0 && len(xs) != n {
			return false, fmt.Sprintf("%d distinct elements of %s, in list order", n, c23JoinShow(s.ek, pr.cand(E)))
		}
		return true, ""
	}
	return false, "unknown relation"
}

func c23Case(c *Ctx, i int, r *rand.Rand) {
	p := &c23Prog{declared: map[string]bool{}}
	p.decls.WriteString(c23Helpers)
	nsrc := 1 + r.IntN(2)
	for h := 0; h < nsrc; h++ {
		var s *c23Src
		switch x := r.IntN(10); {
		case x < 3:
			s = c23CollectionSrc(p, r)
		case x < 7:
			s = c23RangeSrc(c, p, r)
		default:
			s = c23OtherSrc(p, r)
		}
		if s == nil {
			continue
		}
		c23Ops(c, p, s, r, 8+r.IntN(14))
		c.Distinct(s.kind + ":" + s.ek.name)
		c.Count("src_"+strings.SplitN(s.kind, "/", 2)[0], 1)
	}
	src := p.decls.String() + p.body.String()
	if i%250 == 0 {
		c.Sample(map[string]string{"program_head": head(src, 700)})
	}
	c23Run(c, i, src, p.probes)
}

func init() {
	register(&Check{
		ID: "C23",
		Rule: "each case is a generated Elk program with 1-2 iterables of a random kind (ArrayList, ArrayTuple, HashSet, HashMap, HashRecord and their iterator objects under several static types; the eight range kinds over Int, BigInt, Char, Float and a user-defined comparable class, held in variables, written as literals and viewed as PrimitiveIterable/IterableRange; generator functions (yield lists, loops, infinite); filled-and-closed channels and read channels; Int#iter; String#iter; user classes including Iterable::Base, Iterable::FiniteBase, ImmutableCollection::Base and Iterator::Base) and 8-21 probes each: for-in (whole, with break), to_list/to_tuple, length, is_empty, first/last/try_*, contains and index_of for present and absent values, range contains on values around both bounds, map, filter, reject, count, any, every, find, try_find, find_index, take/drop with negative, zero, in-range, equal-to-length, larger and BigInt arguments, what a single-pass iterator (collection and range iterators, generators, channels) still yields after take / try_first / try_find consumed a prefix, take_while, drop_while, fold, reduce and two-step chains; " +
			"every probe is compared with the same operation on the materialised element list in a Go model (error class for errors; sets and maps are compared in their own iteration order, which must be a permutation of the inserted elements); distinct = (iterable kind, element kind) cells",
		NumCases: func(tier string) int {
			if tier == "thorough" {
				return 45000
			}
			return 1300
		},
		Case:        c23Case,
		MinCounters: map[string]int64{"probes_compared": 15000, "range_contains_probes": 2000, "for_in_probes": 1000, "error_probes": 200, "unordered_probes": 1500, "continuation_probes": 300},
		Assumptions: []string{
			"the result container class (ArrayList vs ArrayTuple vs HashSet) is not compared, only the elements in order; HashSet#map is compared as a multiset with injective closures",
			"sets and maps have no specified order (the native variants are Go maps and change order between two iterations): order-dependent results are checked up to order (same multiset; take/drop/first/find/index_of return distinct members / a member / a valid index; order-dependent folds are not generated)",
			"descending bounds denote an empty range; take/drop with a negative count raise Std::OutOfRangeError; first/last/find on nothing raise Std::Iterable::NotFoundError (as documented in headers/iterable.elh)",
			"reduce on an empty iterable must raise an error (it has no value in the list model); the probe does not print the result",
		},
	})
}
