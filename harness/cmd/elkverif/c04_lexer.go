package main

// C04 — Lexing partitions the source faithfully; colouring never alters text.

import (
	"fmt"
	"math/rand/v2"
	"strings"
	"unicode/utf8"

	"github.com/elk-language/elk/lexer"
	"github.com/elk-language/elk/token"
	"github.com/fatih/color"
)

// posModel computes (line, column) of a byte offset from the text alone:
// line = 1 + number of '\n' before off; column = 1 + number of runes since the last '\n'
// (an invalid byte counts as one rune).
func posModel(s string, off int) (line, col int) {
	line, col = 1, 1
	i := 0
	for i < off && i < len(s) {
		r, size := utf8.DecodeRuneInString(s[i:])
		if i+size > off {
			break // off points inside this rune: position of the rune itself
		}
		if r == '\n' {
			line++
			col = 1
		} else {
			col++
		}
		i += size
	}
	return
}

// stripsTo reports whether out equals src with only SGR escape sequences (ESC [ digits/; m) inserted.
func stripsTo(out, src string) bool {
	// NFA over (i in out, j in src); memoised failure set
	type st struct{ i, j int }
	dead := map[st]bool{}
	var rec func(i, j int) bool
	rec = func(i, j int) bool {
		for {
			if i == len(out) {
				return j == len(src)
			}
			if dead[st{i, j}] {
				return false
			}
			// option 1: an inserted SGR sequence starts here
			if out[i] == 0x1b && i+1 < len(out) && out[i+1] == '[' {
				k := i + 2
				for k < len(out) && (out[k] == ';' || (out[k] >= '0' && out[k] <= '9')) {
					k++
				}
				if k < len(out) && out[k] == 'm' {
					canCopy := j < len(src) && src[j] == out[i]
					if !canCopy {
						i = k + 1
						continue
					}
					if rec(k+1, j) {
						return true
					}
				}
			}
			// option 2: copy a source byte
			if j < len(src) && src[j] == out[i] {
				i, j = i+1, j+1
				continue
			}
			dead[st{i, j}] = true
			return false
		}
	}
	return rec(0, 0)
}

func asciiOnly(s string) string {
	b := []byte(s)
	for i, ch := range b {
		if ch < 32 || ch > 126 {
			b[i] = '?'
		}
	}
	return string(b)
}

func tokenKind(t *token.Token) string { return t.Type.Name() }

func c04Check(c *Ctx, caseIdx int, s string) {
	c.Eval(1)
	// --- token stream ---
	var toks []*token.Token
	if p := guard(func() {
		l := lexer.New(s)
		for n := 0; ; n++ {
			t := l.Next()
			if t.Type == token.END_OF_FILE {
				break
			}
			toks = append(toks, t)
			if n > len(s)+2 {
				panic("no END_OF_FILE within len(input)+2 tokens")
			}
		}
	}); p != "" {
		c.Violate("lexer-panic:"+head(p, 60), fmt.Sprintf("lexing %q: %s", s, p), caseIdx, s)
		return
	}
	prevEnd := -1
	posBad := false
	prevKind := "start-of-input"
	for _, t := range toks {
		sp := t.Span()
		kind := tokenKind(t)
		if sp == nil || sp.StartPos == nil || sp.EndPos == nil {
			c.Violate("nil-span:"+kind, fmt.Sprintf("token %s of %q has no span", kind, s), caseIdx, s)
			return
		}
		st, en := sp.StartPos.ByteOffset, sp.EndPos.ByteOffset
		c.Count("tokens_checked", 1)
		c.Distinct("tok|" + kind)
		if st < 0 || en >= len(s) || st > en+1 {
			c.Violate("span-outside-input:"+kind, fmt.Sprintf("input %q (len %d): token %s span [%d,%d]", s, len(s), kind, st, en), caseIdx, s)
			return
		}
		if st <= prevEnd {
			c.Violate("overlap-or-order:"+kind, fmt.Sprintf("input %q: token %s starts at %d but the previous token ended at %d", s, kind, st, prevEnd), caseIdx, s)
			return
		}
		if en >= st {
			prevEnd = en
		}
		if posBad {
			continue // positions after the first wrong one are consequences of the same lost count
		}
		kindX := kind
		if t.Type == token.ERROR {
			kindX = "ERROR[" + asciiOnly(head(t.Value, 32)) + "]"
		}
		wl, wc := posModel(s, st)
		if sp.StartPos.Line != wl || sp.StartPos.Column != wc {
			posBad = true
			c.Violate("start-line-col:"+kindX+":after:"+prevKind, fmt.Sprintf("input %q: token %s at byte %d reports %d:%d, byte offset implies %d:%d (previous token %s)", s, kind, st, sp.StartPos.Line, sp.StartPos.Column, wl, wc, prevKind), caseIdx, s)
		} else if en >= st {
			el, ec := posModel(s, en)
			if sp.EndPos.Line != el || sp.EndPos.Column != ec {
				posBad = true
				class := "other"
				if s[en] == '\n' && sp.EndPos.Column == 0 && sp.EndPos.Line == el+1 {
					class = "reported-as-column-0-of-next-line"
					posBad = false // start positions that follow are right again; keep checking
				} else if sp.EndPos.Column <= 0 {
					class = "column-underflow"
				} else if strings.Contains(s[st:en+1], "\n") {
					class = "multi-line-token"
				}
				c.Violate("end-line-col:"+kindX+":"+class, fmt.Sprintf("input %q: token %s ending at byte %d reports end %d:%d, byte offset implies %d:%d", s, kind, en, sp.EndPos.Line, sp.EndPos.Column, el, ec), caseIdx, s)
			}
		}
		prevKind = kindX
	}
	// --- colouring ---
	var col, emb string
	if p := guard(func() { col = lexer.Colorize(s) }); p != "" {
		c.Violate("colorize-panic:"+head(p, 60), fmt.Sprintf("Colorize(%q): %s", s, p), caseIdx, s)
	} else if !stripsTo(col, s) {
		c.Violate("colorize-alters-text", fmt.Sprintf("Colorize(%q) = %q: not the input plus colour codes", s, col), caseIdx, s)
	} else if col != s {
		c.Count("colorized_with_escapes", 1)
	}
	if p := guard(func() { emb = lexer.ColorizeEmbellishedText(s) }); p != "" {
		c.Violate("colorize-embellished-panic:"+head(p, 60), fmt.Sprintf("ColorizeEmbellishedText(%q): %s", s, p), caseIdx, s)
	} else if !stripsTo(emb, s) {
		c.Violate("colorize-embellished-alters-text", fmt.Sprintf("ColorizeEmbellishedText(%q) = %q: not the input plus colour codes", s, emb), caseIdx, s)
	}
	if strings.ContainsAny(s, "\r") {
		c.Count("inputs_with_cr", 1)
	}
	if !utf8.ValidString(s) {
		c.Count("inputs_with_invalid_utf8", 1)
	}
}

func init() {
	register(&Check{
		ID: "C04",
		Rule: "inputs: random bytes, token soup over the whole token vocabulary harvested from the tree plus every lexing-mode opener, mutated realistic snippets (truncate/delete/insert/flip/duplicate/CRLF), nesting bombs; " +
			"per input: spans in order, inside the input, non-overlapping; (line, column) recomputed from the byte offset; Colorize / ColorizeEmbellishedText must equal the input with only SGR sequences inserted (NFA check, inputs containing ESC included); distinct = token kinds observed",
		NumCases: func(tier string) int {
			if tier == "thorough" {
				return 1_500_000
			}
			return 300_000
		},
		Init: func(c *Ctx) { color.NoColor = false },
		Case: func(c *Ctx, i int, r *rand.Rand) {
			s := genHostileSource(r)
			if len(s) > 400 {
				s = s[:400]
			}
			if i%50000 == 0 {
				c.Sample(s)
			}
			c04Check(c, i, s)
		},
		MinCounters: map[string]int64{"tokens_checked": 100000, "colorized_with_escapes": 1000, "inputs_with_cr": 100, "inputs_with_invalid_utf8": 100},
		Assumptions: []string{"column = 1 + runes since the last LF, an invalid byte counting as one rune; EndPos is the position of the rune containing the last byte"},
	})
}

func init() {
	subcommands["lex"] = func(args []string) {
		s := args[0]
		for _, t := range lexer.Lex(s) {
			sp := t.Span()
			l, c := posModel(s, sp.StartPos.ByteOffset)
			el, ec := posModel(s, sp.EndPos.ByteOffset)
			fmt.Printf("%-22s [%d,%d] start %d:%d (model %d:%d) end %d:%d (model %d:%d) %q\n", t.Type.Name(), sp.StartPos.ByteOffset, sp.EndPos.ByteOffset,
				sp.StartPos.Line, sp.StartPos.Column, l, c, sp.EndPos.Line, sp.EndPos.Column, el, ec, t.Value)
		}
	}
}
