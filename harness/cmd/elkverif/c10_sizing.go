package main

// C10 — runtime sizing parameters do not change program results.
//
// Differential run-time monitor: one deterministic Elk program is run under a baseline configuration in
// which the value stack is never reallocated (huge initial stack) and under a grid of sizing
// configurations (initial value-stack size, maximum value-stack size, call-stack size, thread-pool size,
// task-queue size, symbol-table presize). Printed output, result and error must be identical in every
// configuration in which no stack limit was exhausted.
//
// Two execution modes:
//   * in-process: the exported package variables that vm.init()/value.init() fill from the ELK_*
//     environment variables (vm.INIT_VALUE_STACK_SIZE, vm.MAX_VALUE_STACK_SIZE, vm.CALL_STACK_SIZE) are set
//     with the same bytes->slots division the init functions use, the thread pool is built with
//     vm.NewThreadPool(pool, queue) (what initThreadPool does for DefaultThreadPool);
//   * child process `elkverif c10run <file>` started with the real ELK_* environment variables (the only
//     way to vary ELK_SYMBOL_TABLE_INITIAL_SIZE and the DefaultThreadPool, and the faithful path through
//     config.IntFromEnvVar); the child runs the program on DefaultThreadPool exactly like `elk run`.

import (
	"context"
	"encoding/json"
	"fmt"
	"math/rand/v2"
	"os"
	"os/exec"
	"path/filepath"
	"regexp"
	"runtime/debug"
	"sort"
	"strings"
	"sync/atomic"
	"time"
	"unsafe"

	"github.com/elk-language/elk"
	"github.com/elk-language/elk/types/checker"
	"github.com/elk-language/elk/value"
	"github.com/elk-language/elk/vm"
)

// ---- configurations ----------------------------------------------------------------------------

// c10Cfg holds the values of the six environment variables (0 = variable not set).
type c10Cfg struct {
	Init      int           `json:"init,omitempty"`  // ELK_INIT_VALUE_STACK_SIZE (bytes)
	Max       int           `json:"max,omitempty"`   // ELK_MAX_VALUE_STACK_SIZE (bytes)
	Call      int           `json:"call,omitempty"`  // ELK_CALL_STACK_SIZE (bytes)
	Pool      int           `json:"pool,omitempty"`  // ELK_DEFAULT_THREAD_POOL_SIZE
	Queue     int           `json:"queue,omitempty"` // ELK_DEFAULT_THREAD_POOL_QUEUE_SIZE
	Sym       int           `json:"sym,omitempty"`   // ELK_SYMBOL_TABLE_INITIAL_SIZE
	Dim       string        `json:"dim"`             // which dimension this configuration varies (signature part)
	HangAfter time.Duration `json:"-"`               // in-process liveness watchdog (default c10HangAfter)
}

const (
	c10ValueSize    = int(value.ValueSize)
	c10FrameSize    = int(vm.CallFrameSize)
	c10DefInitBytes = 24_000
	c10DefMaxBytes  = 100_000_000
	c10DefCallBytes = 74_000
	c10BaseInit     = 3_000_000 // baseline: 125k slots, no program of the workload needs a reallocation
)

func (c c10Cfg) String() string {
	var p []string
	add := func(k string, v int) {
		if v != 0 {
			p = append(p, fmt.Sprintf("%s=%d", k, v))
		}
	}
	add("ELK_INIT_VALUE_STACK_SIZE", c.Init)
	add("ELK_MAX_VALUE_STACK_SIZE", c.Max)
	add("ELK_CALL_STACK_SIZE", c.Call)
	add("ELK_DEFAULT_THREAD_POOL_SIZE", c.Pool)
	add("ELK_DEFAULT_THREAD_POOL_QUEUE_SIZE", c.Queue)
	add("ELK_SYMBOL_TABLE_INITIAL_SIZE", c.Sym)
	if len(p) == 0 {
		return "(defaults)"
	}
	return strings.Join(p, " ")
}

func (c c10Cfg) env() []string {
	var p []string
	add := func(k string, v int) {
		if v != 0 {
			p = append(p, fmt.Sprintf("%s=%d", k, v))
		}
	}
	add("ELK_INIT_VALUE_STACK_SIZE", c.Init)
	add("ELK_MAX_VALUE_STACK_SIZE", c.Max)
	add("ELK_CALL_STACK_SIZE", c.Call)
	add("ELK_DEFAULT_THREAD_POOL_SIZE", c.Pool)
	add("ELK_DEFAULT_THREAD_POOL_QUEUE_SIZE", c.Queue)
	add("ELK_SYMBOL_TABLE_INITIAL_SIZE", c.Sym)
	return p
}

func (c c10Cfg) initSlots() int {
	if c.Init == 0 {
		return c10DefInitBytes / c10ValueSize
	}
	return c.Init / c10ValueSize
}

// ---- one run -------------------------------------------------------------------------------------

// c10Out is everything the program can observe/produce, in comparable form.
type c10Out struct {
	Rejected bool   `json:"rejected,omitempty"`
	Diag     string `json:"diag,omitempty"`
	Stdout   string `json:"stdout"`
	Result   string `json:"result,omitempty"`
	Err      string `json:"err,omitempty"`
	Panic    string `json:"panic,omitempty"`
	PanicAt  string `json:"panic_at,omitempty"`
	Hang     bool   `json:"hang,omitempty"`
	Crash    string `json:"crash,omitempty"` // child process died: classified crash signature
	// monitor-side observations (not part of the comparison)
	FinalStackSlots int   `json:"final_stack_slots,omitempty"` // len of the main thread's value stack after the run
	MaxFrameDepth   int64 `json:"max_frame_depth,omitempty"`   // deepest sp-fp seen by the instruction hook (all threads)
}

var c10AddrRe = regexp.MustCompile(`0x[0-9a-f]{6,}`)

// limitExhausted reports that the run ended because a configured stack limit was hit. Both limits are
// reported by the VM as Go panics with fixed messages (vm/thread.go growValueStack, cfpIncrementBy).
func (o *c10Out) limitExhausted() string {
	switch {
	case strings.Contains(o.Panic, "maximum value stack size exceeded"), strings.Contains(o.Crash, "maximum value stack size exceeded"):
		return "max_stack"
	case strings.Contains(o.Panic, "call stack overflow"), strings.Contains(o.Crash, "call stack overflow"):
		return "call_stack"
	}
	return ""
}

func (o *c10Out) render() string {
	var sb strings.Builder
	sb.WriteString(o.Stdout)
	if o.Rejected {
		sb.WriteString("\nREJECTED " + head(o.Diag, 300))
	}
	if o.Result != "" {
		sb.WriteString("\n=> " + o.Result)
	}
	if o.Err != "" {
		sb.WriteString("\nERROR " + o.Err)
	}
	if o.Panic != "" {
		sb.WriteString("\nPANIC " + head(o.Panic, 300) + " @ " + o.PanicAt)
	}
	if o.Crash != "" {
		sb.WriteString("\nCRASH " + o.Crash)
	}
	if o.Hang {
		sb.WriteString("\nHANG")
	}
	return sb.String()
}

var c10HookMax atomic.Int64

func c10Hook(fn *vm.BytecodeFunction, ip int, depth int) {
	d := int64(depth)
	for {
		cur := c10HookMax.Load()
		if d <= cur || c10HookMax.CompareAndSwap(cur, d) {
			return
		}
	}
}

// c10Compiled is a program type checked and compiled once; the chunk is run under many configurations
// (the sizing variables are not read by the checker/compiler for the programs of the workload).
type c10Compiled struct {
	chunk *vm.BytecodeFunction
	fail  *c10Out // rejected / checker panic
}

func c10Compile(src string) (cp *c10Compiled) {
	cp = &c10Compiled{}
	elk.InitGlobalEnvironment()
	defer func() {
		if r := recover(); r != nil {
			cp.fail = &c10Out{Panic: c10AddrRe.ReplaceAllString(fmt.Sprint(r), "0xN"), PanicAt: "check:" + panicSite1(string(debug.Stack()))}
		}
	}()
	tc := checker.New()
	chunk, diags := tc.CheckSourceBytecode("main.elk", src)
	if diags.IsFailure() {
		cp.fail = &c10Out{Rejected: true, Diag: diagString(diags)}
		return cp
	}
	cp.chunk = chunk
	return cp
}

func c10RunInProcess(src string, cfg c10Cfg, measure bool) *c10Out {
	return c10Compile(src).run(cfg, measure)
}

// run executes the compiled program with the sizing variables of cfg.
// pool/queue 0 = the defaults of vm.init (4 / 256).
func (cp *c10Compiled) run(cfg c10Cfg, measure bool) (out *c10Out) {
	if cp.fail != nil {
		cpy := *cp.fail
		return &cpy
	}
	out = &c10Out{}
	oldInit, oldMax, oldCall := vm.INIT_VALUE_STACK_SIZE, vm.MAX_VALUE_STACK_SIZE, vm.CALL_STACK_SIZE
	defer func() {
		vm.INIT_VALUE_STACK_SIZE, vm.MAX_VALUE_STACK_SIZE, vm.CALL_STACK_SIZE = oldInit, oldMax, oldCall
	}()
	// same arithmetic as vm.init() / call_frame.go init()
	ib, mb, cb := cfg.Init, cfg.Max, cfg.Call
	if ib == 0 {
		ib = c10DefInitBytes
	}
	if mb == 0 {
		mb = c10DefMaxBytes
	}
	if cb == 0 {
		cb = c10DefCallBytes
	}
	vm.INIT_VALUE_STACK_SIZE = ib / c10ValueSize
	vm.MAX_VALUE_STACK_SIZE = mb / c10ValueSize
	vm.CALL_STACK_SIZE = cb / c10FrameSize
	pool, queue := cfg.Pool, cfg.Queue
	if pool == 0 {
		pool = 4
	}
	if queue == 0 {
		queue = 256
	}

	hangAfter := cfg.HangAfter
	if hangAfter == 0 {
		hangAfter = c10HangAfter
	}
	var th *vm.Thread
	done := make(chan struct{})
	stdout, stderr := &syncBuf{}, &syncBuf{}
	ctx, cancel := context.WithCancel(context.Background())
	defer cancel()
	go func() {
		defer close(done)
		defer func() {
			if r := recover(); r != nil {
				out.Panic = c10AddrRe.ReplaceAllString(fmt.Sprint(r), "0xN")
				out.PanicAt = panicSite1(string(debug.Stack()))
			}
		}()
		aborter := value.NewAborter(ctx, nil)
		tp := vm.NewThreadPool(pool, queue, vm.WithStdout(stdout), vm.WithStderr(stderr), vm.WithAborter(aborter))
		defer tp.Close()
		th = vm.New(vm.WithStdout(stdout), vm.WithStderr(stderr), vm.WithThreadPool(tp), vm.WithAborter(aborter))
		if measure {
			c10HookMax.Store(0)
			vm.VerifInstructionHook = c10Hook
			defer func() { vm.VerifInstructionHook = nil }()
		}
		r, e := th.InterpretTopLevel(cp.chunk)
		if !e.IsUndefined() {
			out.Err = c10AddrRe.ReplaceAllString(e.Inspect(), "0xN")
		} else if !r.IsUndefined() {
			out.Result = c10AddrRe.ReplaceAllString(r.Inspect(), "0xN")
		}
	}()
	select {
	case <-done:
	case <-time.After(hangAfter):
		// liveness watchdog: the workload's programs finish in milliseconds
		out.Hang = true
		cancel()
		select {
		case <-done:
		case <-time.After(2 * time.Second):
		}
		vm.VerifInstructionHook = nil
	}
	out.Stdout = stdout.String()
	if measure {
		out.MaxFrameDepth = c10HookMax.Load()
	}
	if th != nil {
		func() {
			defer func() { recover() }()
			out.FinalStackSlots = cap(th.ValueStack())
		}()
	}
	return out
}

const c10HangAfter = 60 * time.Second

// c10RunChild runs src in a child process started with the real environment variables.
func c10RunChild(c *Ctx, src string, cfg c10Cfg) *c10Out {
	dir := c.WorkDir
	if dir == "" {
		dir = os.TempDir()
	}
	f, err := os.CreateTemp(dir, "c10-*.elk")
	if err != nil {
		return &c10Out{Crash: "tempfile: " + err.Error()}
	}
	defer os.Remove(f.Name())
	f.WriteString(src)
	f.Close()
	cmd := exec.Command("timeout", "-s", "KILL", "120", selfExe(), "c10run", f.Name())
	var env []string
	for _, e := range os.Environ() {
		if !strings.HasPrefix(e, "ELK_") {
			env = append(env, e)
		}
	}
	cmd.Env = append(env, cfg.env()...)
	var so, se strings.Builder
	cmd.Stdout, cmd.Stderr = &so, &se
	rerr := cmd.Run()
	out := &c10Out{}
	s := so.String()
	if i := strings.LastIndex(s, "\x00C10RESULT "); i >= 0 {
		if json.Unmarshal([]byte(s[i+len("\x00C10RESULT "):]), out) == nil {
			return out
		}
	}
	// the child died before printing its record
	out.Stdout = s
	if ee, ok := rerr.(*exec.ExitError); ok && ee.ExitCode() == 137 {
		out.Hang = true
		return out
	}
	out.Crash = crashSignature(se.String())
	if out.Crash == "" {
		out.Crash = "died without record"
	}
	return out
}

func init() {
	// c10run <file>: run a program like `elk run` does (DefaultThreadPool, package variables filled from
	// the environment by the init functions) and print a JSON record after the program's own output.
	subcommands["c10run"] = func(args []string) {
		b, err := os.ReadFile(args[0])
		if err != nil {
			panic(err)
		}
		out := &c10Out{}
		stdout := &syncBuf{}
		emit := func() {
			out.Stdout = stdout.String()
			j, _ := json.Marshal(out)
			fmt.Printf("\x00C10RESULT %s", j)
		}
		elk.InitGlobalEnvironment()
		phase := "check"
		func() {
			defer func() {
				if r := recover(); r != nil {
					out.Panic = c10AddrRe.ReplaceAllString(fmt.Sprint(r), "0xN")
					out.PanicAt = panicSite1(string(debug.Stack()))
					if phase == "check" {
						out.PanicAt = "check:" + out.PanicAt
					}
				}
			}()
			tc := checker.New()
			chunk, diags := tc.CheckSourceBytecode("main.elk", string(b))
			if diags.IsFailure() {
				out.Rejected = true
				out.Diag = diagString(diags)
				return
			}
			phase = "run"
			// worker threads of the default pool were created by vm.init() with os.Stdout: programs of the
			// workload print from the main thread or from `go` threads (which inherit the spawner's Stdout)
			th := vm.New(vm.WithStdout(stdout), vm.WithStderr(os.Stderr))
			r, e := th.InterpretTopLevel(chunk)
			if !e.IsUndefined() {
				out.Err = c10AddrRe.ReplaceAllString(e.Inspect(), "0xN")
			} else if !r.IsUndefined() {
				out.Result = c10AddrRe.ReplaceAllString(r.Inspect(), "0xN")
			}
			out.FinalStackSlots = cap(th.ValueStack())
		}()
		emit()
	}
	_ = unsafe.Sizeof(0)
}

// ---- program templates ---------------------------------------------------------------------------

// c10Prog is one deterministic program of a construct class with numeric knobs (shrunk on failure).
type c10Prog struct {
	Class string
	Knobs []int
	Build func(k []int) string
	// lower bounds of the knobs when shrinking
	Min []int
	// program uses go threads / the thread pool: a stack-limit panic there kills the process, so the
	// max/call limits are not lowered for it
	Threads bool
	Async   bool
	Tasks   int // upper bound of simultaneously queued promises (queue sizes below it may block, see K-C10-queue)
}

func (p *c10Prog) source() string { return p.Build(p.Knobs) }

// common prelude: a recursive method with `loc` locals that needs (loc+3)*n slots of value stack
const c10Prelude = `def deep(n: Int, x: Int): Int
  a := x + 1
  b := a * 2
  if n <= 0
    return a + b
  end
  r := deep(n - 1, x + 1)
  (r + a + b) % 1000003
end

def wide(n: Int, x: Int): Int
  a := x + 1
  b := a + x
  c := b + a
  d := c + b
  e := d + c
  f := e + d
  if n <= 0
    return (a + b + c + d + e + f) % 1000003
  end
  r := wide(n - 1, x + 1)
  (r + a + b + c + d + e + f) % 1000003
end

`

func c10Templates() map[string]func(r *rand.Rand, deepMax int) *c10Prog {
	t := map[string]func(r *rand.Rand, deepMax int) *c10Prog{}
	dp := func(r *rand.Rand, deepMax int) int { return 20 + r.IntN(deepMax-20) }

	// a closure stored in a local keeps OPEN upvalues to locals of a frame that is not at offset 0;
	// the stack is reallocated by a deep call made from that frame; the variables are written through
	// the frame and read through the closure afterwards (and the other way round)
	t["closure-upvalue-after-growth"] = func(r *rand.Rand, deepMax int) *c10Prog {
		return &c10Prog{Class: "closure-upvalue-after-growth", Knobs: []int{dp(r, deepMax), r.IntN(40), r.IntN(3)}, Min: []int{1, 0, 0},
			Build: func(k []int) string {
				top := ""
				switch k[2] {
				case 0:
					top = fmt.Sprintf("println run_clo(%d, %d).inspect\n", k[0], k[1])
				case 1: // top-level frame (offset 0) variant
					top = fmt.Sprintf("var ta = 1\ntf := -> ta\ntg := |d: Int|: Int -> ta = ta + d\nprintln deep(%d, 1).inspect\nta = 42\nprintln tf().inspect\ntg(5)\nprintln ta.inspect\nprintln nest(%d, %d).inspect\n", k[0], k[1], k[0])
				default:
					top = fmt.Sprintf("println nest(%d, %d).inspect\nprintln run_clo(%d, 3).inspect\n", k[1], k[0], k[0]/2+1)
				}
				return c10Prelude + `def run_clo(k: Int, pre: Int): Int
  if pre > 0
    return run_clo(k, pre - 1) + 1
  end
  var acc = 0
  var cnt = 0
  inc := |d: Int|: Int ->
    acc = acc + d
    cnt = cnt + 1
    acc
  end
  get := -> acc * 1000 + cnt
  inc(1)
  r := deep(k, 1)
  acc = acc + 100
  inc(r % 7)
  println "clo #{acc} #{cnt} #{r} #{get()}"
  w := wide(k / 2, 3)
  cnt = cnt + 10
  println "clo2 #{get()} #{inc(w % 5)} #{acc}"
  acc
end

def nest(pre: Int, k: Int): Int
  if pre <= 0
    return deep(k, 2)
  end
  var mine = pre
  bump := ||: Int ->
    mine = mine + 1
    mine
  end
  r := nest(pre - 1, k)
  bump()
  (r + mine) % 1000003
end

` + top
			}}
	}

	// chain of closures, each capturing a local of a different (live) frame and the previous closure;
	// invoked at the bottom of the recursion after a deep call grew the stack; escaped closures
	// (closed upvalues) call deep methods themselves
	t["closure-chain"] = func(r *rand.Rand, deepMax int) *c10Prog {
		return &c10Prog{Class: "closure-chain", Knobs: []int{2 + r.IntN(40), dp(r, deepMax)}, Min: []int{1, 1},
			Build: func(k []int) string {
				return c10Prelude + fmt.Sprintf(`def rec_clo(n: Int, k: Int, f: |x: Int|: Int): Int
  if n <= 0
    d := deep(k, 1)
    return f(d %% 10)
  end
  var local = n
  g := |x: Int|: Int -> f(x + local)
  r := rec_clo(n - 1, k, g)
  local = local + 1
  (r + g(0)) %% 1000003
end

def make_counter(start: Int, k: Int): ||: Int
  var c = start
  step := k
  ->
    c = c + deep(step, c) %% 13
    c
  end
end

ctr := make_counter(5, %d)
println ctr().inspect
println rec_clo(%d, %d, |x: Int|: Int -> x * 2).inspect
println ctr().inspect
c2 := make_counter(7, %d)
both := ctr() + c2()
println both.inspect
`, k[1]/2+1, k[0], k[1], k[1]*3)
			}}
	}

	// generator suspended and resumed across reallocations: the body makes deep calls between yields,
	// the consumer sits at a deeper stack offset on every round
	t["generator-across-growth"] = func(r *rand.Rand, deepMax int) *c10Prog {
		return &c10Prog{Class: "generator-across-growth", Knobs: []int{2 + r.IntN(8), 1 + r.IntN(deepMax/8+1), r.IntN(60)}, Min: []int{1, 0, 0},
			Build: func(k []int) string {
				return c10Prelude + fmt.Sprintf(`def *gen(n: Int, step: Int): Int
  var i = 0
  var keep = 7
  while i < n
    s := deep(i * step, i)
    keep = keep + i
    yield s + keep
    i = i + 1
  end
  0
end

def use_gen(n: Int, step: Int, d: Int): Int
  if d > 0
    return use_gen(n, step, d - 1) + 1
  end
  var t = 0
  for v in gen(n, step)
    t = (t + v + wide(step, v)) %% 1000003
  end
  t
end

def manual(n: Int, step: Int): Int
  g := gen(n, step)
  a := try g.next
  b := deep(step * n, a)
  c := try g.next
  println "gen #{a} #{b} #{c}"
  (a + b + c) %% 1000003
end

println use_gen(%d, %d, %d).inspect
println manual(%d, %d).inspect
`, k[0], k[1], k[2], k[0]+2, k[1])
			}}
	}

	// closures called back by native methods (map / fold) that recurse into the calling method
	t["native-callback"] = func(r *rand.Rand, deepMax int) *c10Prog {
		return &c10Prog{Class: "native-callback", Knobs: []int{1 + r.IntN(7), 1 + r.IntN(deepMax/4+1)}, Min: []int{1, 0},
			Build: func(k []int) string {
				return c10Prelude + fmt.Sprintf(`def cb(n: Int, k: Int): Int
  if n <= 0
    return deep(k, 1) %% 97
  end
  var seen = 0
  r := [n, n + 1].map(|q: Int|: Int ->
    seen = seen + 1
    cb(n - 1, k) + q
  end).fold(0, |acc: Int, q: Int|: Int -> acc + q + seen)
  (r + seen) %% 100003
end

println cb(%d, %d).inspect
`, k[0], k[1])
			}}
	}

	// errors unwinding through frames created after a reallocation; finally blocks; catch in a frame
	// that owns an open upvalue
	t["catch-finally-unwind"] = func(r *rand.Rand, deepMax int) *c10Prog {
		return &c10Prog{Class: "catch-finally-unwind", Knobs: []int{dp(r, deepMax) / 2, r.IntN(30)}, Min: []int{1, 0},
			Build: func(k []int) string {
				return c10Prelude + fmt.Sprintf(`def thrower(n: Int): Int
  if n <= 0
    throw unchecked 7
  end
  a := n * 2
  do
    thrower(n - 1) + a
  finally
    if n %% 50 == 0
      print "f"
    end
  end
end

def catcher(n: Int, pre: Int): Int
  if pre > 0
    return catcher(n, pre - 1) + 1
  end
  var before = 5
  f := -> before
  r := do
    thrower(n)
  catch Int() as e
    e + before
  end
  before = 9
  println ""
  r + f() + deep(n, 1)
end

println catcher(%d, %d).inspect
println catcher(%d, 0).inspect
`, k[0], k[1], k[0]/3+1)
			}}
	}

	// string interpolation and big list literals: many temporaries live in the frame while calls are made
	t["interpolation-and-literal-temporaries"] = func(r *rand.Rand, deepMax int) *c10Prog {
		return &c10Prog{Class: "interpolation-and-literal-temporaries", Knobs: []int{dp(r, deepMax) / 2, 2 + r.IntN(40), r.IntN(20)}, Min: []int{1, 1, 0},
			Build: func(k []int) string {
				var el []string
				for i := 1; i <= k[1]; i++ {
					el = append(el, fmt.Sprintf("deep(%d, %d)", i%5, i))
				}
				return c10Prelude + fmt.Sprintf(`def lit(pre: Int): Int
  if pre > 0
    return lit(pre - 1) + 1
  end
  xs := [%s]
  var s = 0
  for x in xs
    s = (s + x) %% 1000003
  end
  println "lit #{xs.length} #{s}"
  s
end

def interp(k: Int): String
  v := 3
  "a#{deep(k, 1)}b#{v}c#{wide(k, 2)}d#{deep(k / 2, v)}e"
end

println interp(%d)
println lit(%d).inspect
println "#{interp(%d)}|#{lit(0)}"
`, strings.Join(el, ", "), k[0], k[2], k[0]/2)
			}}
	}

	// go threads: the closure of a `go` block holds CLOSED upvalues (capture by value) and runs on a fresh
	// stack of the initial size, which it grows
	t["go-thread-closed-upvalues"] = func(r *rand.Rand, deepMax int) *c10Prog {
		return &c10Prog{Class: "go-thread-closed-upvalues", Threads: true, Knobs: []int{dp(r, deepMax), 1 + r.IntN(3), 2 + r.IntN(30)}, Min: []int{1, 1, 1},
			Build: func(k []int) string {
				var el []string
				for i := 1; i <= k[2]; i++ {
					el = append(el, fmt.Sprintf("deep(%d, %d)", i%4, i))
				}
				return c10Prelude + fmt.Sprintf(`ch := Channel::[Int](%d)
base := 1000
label := "sum"
var i = 0
while i < %d
  off := i
  go
    xs := [%s]
    var s = base + off
    for x in xs
      s = (s + x) %% 1000003
    end
    s = s + deep(%d, off)
    ch << (s + label.length + base)
  end
  i = i + 1
end
var total = 0
i = 0
while i < %d
  total = total + (try ch.next)
  i = i + 1
end
println "#{label}: #{total}"
`, k[1], k[1], strings.Join(el, ", "), k[0], k[1])
			}}
	}

	// async functions awaited on the thread pool: promise bodies are suspended (stack copied out) and
	// resumed (copied in) on worker threads whose stacks start at the initial size
	t["async-await"] = func(r *rand.Rand, deepMax int) *c10Prog {
		n := 1 + r.IntN(6)
		return &c10Prog{Class: "async-await", Threads: true, Async: true, Tasks: n + 3, Knobs: []int{n, 1 + r.IntN(deepMax/4+1)}, Min: []int{1, 0},
			Build: func(k []int) string {
				return c10Prelude + fmt.Sprintf(`async def aw(n: Int, k: Int): Int
  before := n * 3
  if n <= 0
    return deep(k, 1)
  end
  x := await aw(n - 1, k)
  y := deep(k / 2, x)
  (x + y + before) %% 1000003
end

async def leaf(k: Int): Int
  wide(k, 1)
end

p1 := leaf(%d)
p2 := aw(%d, %d)
a := await_sync p2
b := await_sync p1
println "async #{a} #{b}"
`, k[1], k[0], k[1])
			}}
	}

	// fan-out: every task awaits two children, 3*m promises are outstanding at once
	t["async-fanout"] = func(r *rand.Rand, deepMax int) *c10Prog {
		m := 2 + r.IntN(7)
		return &c10Prog{Class: "async-fanout", Threads: true, Async: true, Tasks: 3*m + 2, Knobs: []int{m, 1 + r.IntN(deepMax/4+1)}, Min: []int{1, 0},
			Build: func(k []int) string {
				var ps []string
				for i := 1; i <= k[0]; i++ {
					ps = append(ps, fmt.Sprintf("mid(%d, %d)", i, k[1]))
				}
				return c10Prelude + fmt.Sprintf(`async def leaf(n: Int, k: Int): Int
  deep(k, n) %% 1000
end

async def mid(n: Int, k: Int): Int
  a := leaf(n, k)
  b := leaf(n + 1, k / 2)
  keep := wide(k / 3, n)
  x := await a
  y := await b
  x + y + keep %% 7
end

ps := [%s]
var t = 0
for p in ps
  t = t + (await_sync p)
end
println t.inspect
`, strings.Join(ps, ", "))
			}}
	}

	// many distinct symbols (literal and created at run time) for the symbol-table presize
	t["symbols"] = func(r *rand.Rand, deepMax int) *c10Prog {
		return &c10Prog{Class: "symbols", Knobs: []int{50 + r.IntN(600), 3 + r.IntN(30)}, Min: []int{1, 1},
			Build: func(k []int) string {
				var lits []string
				for i := 0; i < k[1]; i++ {
					lits = append(lits, fmt.Sprintf(":lit_sym_%d", i))
				}
				return c10Prelude + fmt.Sprintf(`lits := [%s]
var i = 0
var acc = 0
var last = :none
while i < %d
  s := "dyn_sym_#{i}".to_symbol
  if s == "dyn_sym_#{i}".to_symbol
    acc = acc + 1
  end
  if s == last
    acc = acc + 1000
  end
  last = s
  i = i + 1
end
println acc.inspect
println last.inspect
println lits.length.inspect
same := lits[0] == :lit_sym_0
println same.inspect
println deep(%d, 1).inspect
`, strings.Join(lits, ", "), k[0], k[1])
			}}
	}
	return t
}

var c10ClassOrder = func() []string {
	var ks []string
	for k := range c10Templates() {
		ks = append(ks, k)
	}
	sort.Strings(ks)
	return ks
}()

// ---- the configuration grid for one program ----------------------------------------------------------

// c10Grid builds the configurations compared for one program. needSlots is the smallest initial stack
// (in slots) for which every frame of the program fits the 30% headroom the VM guarantees at a call
// (see known finding K-C10-headroom): smaller initial stacks are not part of the compared grid.
func c10Grid(r *rand.Rand, p *c10Prog, needSlots int, tier string) []c10Cfg {
	var g []c10Cfg
	slots := []int{8, 16, 33, 64, 100, 150, 240, 400, 700}
	var inits []int
	inits = append(inits, needSlots) // just enough
	for _, s := range slots {
		if s > needSlots {
			inits = append(inits, s)
		}
	}
	// sample: smallest, and a few others
	pick := map[int]bool{inits[0]: true}
	for len(pick) < 4 && len(pick) < len(inits) {
		pick[inits[r.IntN(len(inits))]] = true
	}
	var ps []int
	for s := range pick {
		ps = append(ps, s)
	}
	sort.Ints(ps)
	for _, s := range ps {
		g = append(g, c10Cfg{Init: s*c10ValueSize + r.IntN(c10ValueSize), Dim: "init_stack"})
	}
	g = append(g, c10Cfg{Dim: "defaults"})
	if !p.Threads {
		// maximum sizes: doubling from a small initial stack; exhaustion is legal here and excluded
		s := ps[r.IntN(len(ps))]
		for k := 1; k <= 12; k += 1 + r.IntN(3) {
			g = append(g, c10Cfg{Init: s * c10ValueSize, Max: (s<<k)*c10ValueSize + c10ValueSize, Dim: "max_stack"})
		}
		// call stack sizes
		for _, frames := range []int{20, 60, 150, 400, 1027, 5000} {
			if r.IntN(2) == 0 {
				g = append(g, c10Cfg{Call: frames*c10FrameSize + r.IntN(c10FrameSize), Dim: "call_stack"})
			}
		}
		g = append(g, c10Cfg{Init: ps[0] * c10ValueSize, Call: 5000 * c10FrameSize, Dim: "init_stack+call_stack"})
	}
	if p.Async {
		for i := 0; i < 4; i++ {
			q := p.Tasks + r.IntN(100)
			g = append(g, c10Cfg{Pool: 1 + r.IntN(8), Queue: q, Dim: "pool"})
		}
		g = append(g, c10Cfg{Pool: 1, Queue: p.Tasks, Init: ps[0] * c10ValueSize, Dim: "pool+init_stack"})
		g = append(g, c10Cfg{Pool: 1 + r.IntN(8), Queue: p.Tasks + r.IntN(4), Dim: "queue"})
	}
	return g
}

// ---- the case ------------------------------------------------------------------------------------------

func c10NeedSlots(maxFrameDepth int64) int {
	// a frame may push one more value after the deepest observed instruction; the VM guarantees
	// 30% of the current stack size free at a call
	f := int(maxFrameDepth) + 2
	return f*10/3 + 2
}

type c10Subject struct {
	class  string
	src    func() string
	prog   *c10Prog
	gprog  *gProg
	shrink func(fails func(src string) bool) (string, string) // returns minimal source and a note
}

func c10Compare(c *Ctx, caseIdx int, class string, base, got *c10Out, cfg c10Cfg, mode string) (sig string, detail string) {
	if lim := got.limitExhausted(); lim != "" {
		legal := (lim == "max_stack" && cfg.Max != 0) || (lim == "call_stack" && cfg.Call != 0 && cfg.Call < c10DefCallBytes)
		if legal {
			c.Count("configs_excluded_limit_exhausted_"+lim, 1)
			return "", ""
		}
		return "limit-exhausted-without-lowered-limit:" + lim + ":" + class + ":" + cfg.Dim,
			fmt.Sprintf("the run reports %s exhaustion although that limit was left at its default (the baseline run needs far less)", lim)
	}
	switch {
	case got.Crash != "":
		return "crash:" + class + ":" + cfg.Dim + ":" + got.Crash, "child process crashed"
	case got.Panic != "" && base.Panic == "":
		return "crash:" + class + ":" + cfg.Dim + ":" + got.PanicAt, "Go panic: " + got.Panic
	case got.Hang && !base.Hang:
		return "hang:" + class + ":" + cfg.Dim, "the program did not finish"
	case got.Rejected != base.Rejected:
		return "rejected-differs:" + class + ":" + cfg.Dim, got.Diag
	case got.Stdout != base.Stdout:
		return "stdout-differs:" + class + ":" + cfg.Dim, ""
	case got.Err != base.Err:
		return "error-differs:" + class + ":" + cfg.Dim, ""
	case got.Result != base.Result:
		return "result-differs:" + class + ":" + cfg.Dim, ""
	case got.Panic != base.Panic:
		return "panic-differs:" + class + ":" + cfg.Dim, ""
	}
	return "", ""
}

func c10Case(c *Ctx, i int, r *rand.Rand) {
	deepMax := 260
	if !c.Quick() && i%3 == 0 {
		deepMax = 300 // nested templates multiply the depth; 800 exhausted the default call stack in the baseline (generator artefact)
	}
	var class string
	var prog *c10Prog
	var gp *gProg
	var src string
	if i%8 == 7 {
		class = "gprog"
		for try := 0; try < 5 && gp == nil; try++ {
			cand := genProg(r, gKnobs{control: r.IntN(2) == 0, closures: true, fns: 1 + r.IntN(3), depth: 2 + r.IntN(2), stmtsPer: 2 + r.IntN(3)})
			if _, ok := cand.run(); ok {
				gp = cand
			}
		}
		if gp == nil {
			c.Count("programs_discarded_by_interpreter_budget", 1)
			return
		}
		src = gp.source()
	} else {
		tm := c10Templates()
		class = c10ClassOrder[(i/8*7+i%8)%len(c10ClassOrder)]
		prog = tm[class](r, deepMax)
		src = prog.source()
	}
	c.Eval(1)
	cp := c10Compile(src)
	base := cp.run(c10Cfg{Init: c10BaseInit, Dim: "baseline"}, true)
	if base.Rejected {
		c.Count("programs_rejected_by_checker", 1)
		c.Extra("last_rejection", class+": "+head(base.Diag, 300))
		if class != "gprog" {
			c.Violate("template-rejected:"+class, "generator bug: template does not type check\n"+base.Diag+"\n"+src, i, src)
		}
		return
	}
	if base.Panic != "" || base.Hang {
		// not a sizing matter: the program misbehaves without any reallocation (other properties' findings)
		c.Count("programs_skipped_baseline_abnormal", 1)
		if class != "gprog" {
			c.Violate("template-baseline-abnormal:"+class, "template program fails in the baseline configuration\n"+base.render()+"\n"+src, i, src)
		}
		return
	}
	if base.FinalStackSlots != c10BaseInit/c10ValueSize {
		c.Violate("baseline-reallocated:"+class, "generator bug: the baseline stack was reallocated", i, src)
		return
	}
	c.Count("programs_run", 1)
	c.Count("class_"+class, 1)
	need := c10NeedSlots(base.MaxFrameDepth)
	c.Max("max_frame_depth_slots", base.MaxFrameDepth)
	if gp != nil {
		c.Distinct("gprog|" + gp.shape())
	} else {
		c.Distinct(fmt.Sprintf("%s|%v", class, prog.Knobs))
	}
	if prog == nil {
		prog = &c10Prog{Class: "gprog"}
	}
	grid := c10Grid(r, prog, need, c.Tier)
	if i%200 == 0 {
		c.Sample(map[string]any{"class": class, "program_head": head(src, 600), "baseline": head(base.render(), 200), "grid": fmt.Sprint(grid)})
	}
	check := func(cfg c10Cfg, mode string) bool {
		var got *c10Out
		if mode == "child" {
			got = c10RunChild(c, src, cfg)
			c.Count("runs_child_process_env", 1)
		} else {
			got = cp.run(cfg, false)
			c.Count("runs_in_process", 1)
		}
		c.Count("configs_compared", 1)
		c.Count("dim_"+cfg.Dim, 1)
		if got.FinalStackSlots > cfg.initSlots() {
			c.Count("runs_with_main_stack_reallocated", 1)
			c.Count("reallocated_"+class, 1)
		}
		sig, detail := c10Compare(c, i, class, base, got, cfg, mode)
		if sig == "" {
			return true
		}
		// shrink
		fails := func(s string) bool {
			cp2 := c10Compile(s)
			b2 := cp2.run(c10Cfg{Init: c10BaseInit}, false)
			if b2.Rejected || b2.Panic != "" || b2.Hang {
				return false
			}
			var g2 *c10Out
			if mode == "child" {
				g2 = c10RunChild(c, s, cfg)
			} else {
				g2 = cp2.run(cfg, false)
			}
			s2, _ := c10Compare(c, i, class, b2, g2, cfg, mode)
			return s2 == sig
		}
		minSrc := src
		note := ""
		if gp != nil {
			m := gp.minimise(func(p *gProg) bool {
				if _, ok := p.run(); !ok {
					return false
				}
				return fails(p.source())
			}, 120)
			minSrc = m.source()
			note = "minimal shape " + m.shape()
		} else {
			k := append([]int(nil), prog.Knobs...)
			budget := 60
			for changed := true; changed && budget > 0; {
				changed = false
				for j := range k {
					for _, cand := range []int{prog.Min[j], k[j] / 2, k[j] - 1} {
						if cand >= k[j] || cand < prog.Min[j] || budget <= 0 {
							continue
						}
						old := k[j]
						k[j] = cand
						budget--
						if fails(prog.Build(k)) {
							changed = true
							break
						}
						k[j] = old
					}
				}
			}
			minSrc = prog.Build(k)
			note = fmt.Sprintf("knobs %v -> %v", prog.Knobs, k)
		}
		b2 := c10RunInProcess(minSrc, c10Cfg{Init: c10BaseInit}, false)
		var g2 *c10Out
		if mode == "child" {
			g2 = c10RunChild(c, minSrc, cfg)
		} else {
			g2 = c10RunInProcess(minSrc, cfg, false)
		}
		c.Violate(sig, fmt.Sprintf("%s\nconfiguration (%s): %s\n%s\n--- baseline (no reallocation, ELK_INIT_VALUE_STACK_SIZE=%d):\n%s\n--- under the configuration:\n%s\n--- minimised program:\n%s",
			detail, mode, cfg, note, c10BaseInit, head(b2.render(), 700), head(g2.render(), 700), head(strings.TrimPrefix(minSrc, gPrelude), 2500)), i,
			map[string]any{"elk": minSrc, "env": cfg.env(), "mode": mode})
		return false
	}
	for _, cfg := range grid {
		if !check(cfg, "inproc") {
			return
		}
	}
	// the faithful path: real environment variables in a child process, including the symbol-table presize
	// configurations outside the compared grid, kept under the signature of the finding that excludes them
	if i%40 == 5 && !prog.Threads {
		// an initial stack below the 30%-headroom rule of the deepest frame (child process: the overflow
		// writes past the end of the stack)
		slots := need / 4
		if slots < 3 {
			slots = 3
		}
		cfg := c10Cfg{Init: slots * c10ValueSize, Dim: "init_stack-below-frame-headroom"}
		got := c10RunChild(c, src, cfg)
		c.Count("runs_child_process_env", 1)
		c.Count("probes_below_frame_headroom", 1)
		if s, _ := c10Compare(c, i, class, base, got, cfg, "child"); s != "" {
			c.Violate("headroom:init_stack-below-frame-headroom", fmt.Sprintf("a frame that needs more than 30%% of the current stack overflows it: deepest frame of the program %d slots, ELK_INIT_VALUE_STACK_SIZE=%d (%d slots)\n--- baseline:\n%s\n--- got:\n%s\n--- program:\n%s",
				base.MaxFrameDepth, cfg.Init, slots, head(base.render(), 400), head(got.render(), 600), head(src, 1500)), i, map[string]any{"elk": src, "env": cfg.env()})
		}
	}
	if class == "async-fanout" && r.IntN(4) == 0 {
		// a task queue smaller than the number of outstanding promises
		cfg := c10Cfg{Pool: 1 + r.IntN(2), Queue: 1 + r.IntN(prog.Knobs[0]), Dim: "queue-below-outstanding", HangAfter: 6 * time.Second}
		got := cp.run(cfg, false)
		c.Count("probes_queue_below_outstanding", 1)
		if s, _ := c10Compare(c, i, class, base, got, cfg, "inproc"); s != "" {
			c.Violate(s, fmt.Sprintf("configuration: %s\n--- baseline:\n%s\n--- got:\n%s\n--- program:\n%s", cfg, head(base.render(), 400), head(got.render(), 600), head(src, 2000)), i, map[string]any{"elk": src, "env": cfg.env()})
		}
	}
	childEvery := 8
	if class == "symbols" {
		childEvery = 2
	}
	if i%childEvery == 0 {
		cfg := grid[r.IntN(len(grid))]
		cfg.Sym = []int{1, 2, 7, 64, 128, 1000, 50000}[r.IntN(7)]
		cfg.Dim = "env:" + cfg.Dim + "+symtab"
		if prog.Async && cfg.Pool == 0 {
			cfg.Pool, cfg.Queue = 1+r.IntN(8), prog.Tasks+r.IntN(50)
		}
		check(cfg, "child")
	}
}

func init() {
	register(&Check{
		ID: "C10",
		Rule: "per case one deterministic program: 3 of 4 from nine construct templates with random depth/width knobs (open upvalues of non-top frames read/written after a reallocation, closure chains and escaped closures, generators suspended/resumed across reallocations, closures called back by native map/fold, catch/finally unwinding, interpolation and list-literal temporaries, go threads with closed upvalues, async/await on the pool, symbol-heavy programs), 1 of 4 a G-prog program (closures + control flow). " +
			"The program is run in a baseline configuration whose stack is never reallocated and under 8-20 configurations (initial stack from the smallest size that satisfies the VM's 30% headroom rule for the program's deepest frame up to the default, maximum stack sizes doubling from the initial size, call stack 20..5000 frames, pool 1..8, queue sizes >= number of outstanding promises, symbol-table presize 1..50000); most runs in-process through the package variables that the init functions fill from the environment, one in six cases additionally in a child process with the real ELK_* variables. " +
			"Oracle: stdout, result, error identical to the baseline unless the run ended in 'maximum value stack size exceeded' / 'call stack overflow' with that limit explicitly lowered. Divergent programs are shrunk (knobs / G-prog minimiser). distinct = (class, knobs) or G-prog shape",
		NumCases: func(tier string) int {
			if tier == "thorough" {
				return 1200
			}
			return 240
		},
		Case:        c10Case,
		MinCounters: map[string]int64{"programs_run": 180, "configs_compared": 2000, "runs_with_main_stack_reallocated": 800, "runs_child_process_env": 15},
		Assumptions: []string{
			"stack-limit exhaustion is recognised by the VM's two fixed panic messages and accepted only when that limit was explicitly lowered; with default limits (100 MB / 74 KB) the workload (recursion depth <= 300, < 10k slots) must not exhaust anything",
			"configurations whose initial stack is smaller than (deepest frame + 2) / 0.3 slots are outside the compared grid (known finding K-C10-headroom: the VM reserves no per-function stack space)",
			"task-queue sizes below the number of simultaneously outstanding promises are outside the compared grid (known finding K-C10-queue)",
			"in-process runs set vm.INIT_VALUE_STACK_SIZE / MAX_VALUE_STACK_SIZE / CALL_STACK_SIZE with the arithmetic of the init functions; the env-var parsing itself is covered by the child-process runs only",
			"liveness watchdog: a run that does not finish within 60 s of wall time (programs take milliseconds) is reported as a hang",
		},
		CPUBudget: 240,
	})
}

var _ = filepath.Join
