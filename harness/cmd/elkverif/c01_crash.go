package main

// C01 — programs the type checker accepts never crash the interpreter.
// Crash monitor: generated well-typed programs run on the real VM inside supervised child
// processes; a recovered Go panic, a Go fatal error or the death of the worker is a violation.
// Elk-level errors (caught or uncaught) are the permitted outcome and are only counted.

import (
	"fmt"
	"math/rand/v2"
	"os"
	"regexp"
	"strconv"
	"strings"
)

var c01IntTypes = []struct {
	name, suffix string
	pool         []string
}{
	{"Int", "", []string{"0", "1", "-1", "2", "3", "7", "63", "64", "65", "-64", "255", "256", "4611686018427387903", "4611686018427387904", "9223372036854775807", "-9223372036854775807 - 1", "9223372036854775808", "18446744073709551615", "18446744073709551616", "-18446744073709551616", "340282366920938463463374607431768211456"}},
	{"Int8", "i8", []string{"0i8", "1i8", "-1i8", "127i8", "(-127i8 - 1i8)", "7i8", "8i8", "-8i8", "64i8"}},
	{"Int16", "i16", []string{"0i16", "1i16", "-1i16", "32767i16", "(-32767i16 - 1i16)", "15i16", "16i16", "-16i16"}},
	{"Int32", "i32", []string{"0i32", "1i32", "-1i32", "2147483647i32", "(-2147483647i32 - 1i32)", "31i32", "32i32", "-32i32"}},
	{"Int64", "i64", []string{"0i64", "1i64", "-1i64", "9223372036854775807i64", "(-9223372036854775807i64 - 1i64)", "63i64", "64i64", "-64i64"}},
	{"UInt8", "u8", []string{"0u8", "1u8", "255u8", "7u8", "8u8", "128u8"}},
	{"UInt16", "u16", []string{"0u16", "1u16", "65535u16", "16u16"}},
	{"UInt32", "u32", []string{"0u32", "1u32", "4294967295u32", "32u32"}},
	{"UInt64", "u64", []string{"0u64", "1u64", "18446744073709551615u64", "64u64", "9223372036854775808u64"}},
}

var c01Floats = []string{"0.0", "-0.0", "1.5", "-2.25", "1e308", "1e-320", "Float::INF", "Float::NEG_INF", "Float::NAN", "9007199254740993.0", "1e19", "-1e19"}
var c01Strings = []string{`""`, `"a"`, `"abc"`, `"zażółć"`, `"👨‍👩‍👧"`, `"a\nb"`, `"  x  "`, `"\xff\xfe"`, `"0"`, `"-12"`, `"1e5"`, `"🇵🇱🇵"`, `"é"`}
var c01Chars = []string{"`a`", "`ż`", "`\\n`", "`0`", "` `", "`😀`"}
var c01SmallInts = []string{"0", "1", "-1", "2", "3", "5", "-5", "100", "-100", "9223372036854775807", "-9223372036854775807 - 1", "18446744073709551616"}

type c01Gen struct {
	r *rand.Rand
	n int
}

func (g *c01Gen) pick(s []string) string { return s[g.r.IntN(len(s))] }
func (g *c01Gen) v() string              { g.n++; return fmt.Sprintf("v%d", g.n) }

func (g *c01Gen) intOf(ti int, depth int) string {
	t := c01IntTypes[ti]
	if depth <= 0 || g.r.IntN(3) == 0 {
		return g.pick(t.pool)
	}
	a, b := g.intOf(ti, depth-1), g.intOf(ti, depth-1)
	switch g.r.IntN(16) {
	case 0:
		return "(" + a + " + " + b + ")"
	case 1:
		return "(" + a + " - " + b + ")"
	case 2:
		return "(" + a + " * " + b + ")"
	case 3:
		return "(" + a + " / " + b + ")"
	case 4:
		return "(" + a + " % " + b + ")"
	case 5:
		if ti == 0 {
			return "(" + g.pick(t.pool) + " ** " + g.pick([]string{"0", "1", "2", "3", "-1", "62", "63", "64", "65", "100"}) + ")"
		}
		return "(" + a + " ** " + g.pick(t.pool) + ")"
	case 6, 7:
		tj := g.r.IntN(len(c01IntTypes))
		op := g.pick([]string{"<<", ">>", "<<<", ">>>"})
		if ti == 0 && (op == "<<<" || op == ">>>") {
			op = op[:2]
		}
		// K72: a left shift by a count of 2**31 or more dies in makeslice; counts stay <= 200 here,
		// negative counts (right shifts) keep every extreme value
		sfx := c01IntTypes[tj].suffix
		sh := g.pick([]string{"0", "1", "7", "8", "31", "32", "63", "64", "65", "127", "128", "200"}) + sfx
		if tj >= 1 && tj <= 4 && g.r.IntN(2) == 0 {
			sh = g.pick([]string{c01IntTypes[tj].pool[4], "-1" + sfx, "-8" + sfx, "-64" + sfx})
		}
		if tj == 0 && g.r.IntN(2) == 0 {
			sh = g.pick([]string{"-1", "-63", "-64", "-65", "-200", "-9223372036854775807 - 1", "-18446744073709551616", "18446744073709551616"})
		}
		return "(" + a + " " + op + " " + sh + ")"
	case 8:
		return "(" + a + " & " + b + ")"
	case 9:
		return "(" + a + " | " + b + ")"
	case 10:
		return "(" + a + " ^ " + b + ")"
	case 11:
		return "(-" + a + ")"
	case 12:
		return "(~" + a + ")"
	case 13:
		if ti == 0 {
			return "(" + a + " &~ " + b + ")"
		}
		return a
	case 14:
		// conversion from another integer type
		tj := g.r.IntN(len(c01IntTypes))
		if tj == ti {
			// identity conversions (Int8#to_int8, ...) are declared but have no native (C28 K60, witnessed there)
			return a
		}
		conv := map[string]string{"Int": "to_int", "Int8": "to_int8", "Int16": "to_int16", "Int32": "to_int32", "Int64": "to_int64", "UInt8": "to_uint8", "UInt16": "to_uint16", "UInt32": "to_uint32", "UInt64": "to_uint64"}[t.name]
		return g.intOf(tj, depth-1) + "." + conv
	default:
		if ti == 0 {
			return g.pick([]string{g.str(depth-1) + ".length", g.str(depth-1) + ".byte_count", g.pick([]string{"1.5", "-2.25", "1e19", "-1e19", "9007199254740993.0", "1e308", "0.0"}) + ".to_int", "(" + a + " <=> " + b + ")", g.str(depth-1) + ".grapheme_count"})
		}
		return a
	}
}

func (g *c01Gen) int(depth int) string { return g.intOf(0, depth) }

func (g *c01Gen) smallInt() string { return g.pick(c01SmallInts) }

func (g *c01Gen) float(depth int) string {
	if depth <= 0 || g.r.IntN(3) == 0 {
		return g.pick(c01Floats)
	}
	a, b := g.float(depth-1), g.float(depth-1)
	switch g.r.IntN(9) {
	case 0:
		return "(" + a + " + " + b + ")"
	case 1:
		return "(" + a + " / " + b + ")"
	case 2:
		return "(" + a + " % " + b + ")"
	case 3:
		return "(" + a + " ** " + b + ")"
	case 4:
		return "(" + a + " * " + g.int(depth-1) + ")"
	case 5:
		return g.int(depth-1) + ".to_float"
	case 6:
		return "(" + g.int(depth-1) + " / " + a + ")"
	case 7:
		return "(" + g.pick([]string{"2", "-3", "10", "0"}) + " ** " + a + ")"
	default:
		return "(-" + a + ")"
	}
}

func (g *c01Gen) str(depth int) string {
	if depth <= 0 || g.r.IntN(3) == 0 {
		return g.pick(c01Strings)
	}
	a := g.str(depth - 1)
	switch g.r.IntN(14) {
	case 0:
		return "(" + a + " + " + g.str(depth-1) + ")"
	case 1:
		return "(" + a + " * " + g.pick([]string{"0", "1", "3", "-1", "-5", "17"}) + ")"
	case 2:
		return a + ".rjust(" + g.pick([]string{"0", "-1", "5", "9", "-9223372036854775807", "40"}) + ", " + g.pick(c01Chars) + ")"
	case 3:
		return a + ".ljust(" + g.pick([]string{"0", "-1", "5", "9", "40"}) + ", " + g.pick(c01Chars) + ")"
	case 4:
		return a + ".uppercase"
	case 5:
		return a + ".lowercase"
	case 6:
		return g.int(depth-1) + ".to_string"
	case 7:
		return g.float(depth-1) + ".to_string"
	case 8:
		return a + ".inspect"
	case 9:
		return "(" + a + " - " + g.str(depth-1) + ")"
	case 10:
		return "\"<#{" + g.int(depth-1) + "}|#{" + g.float(depth-1) + "}>\""
	case 11:
		return a + ".char_at(" + g.smallInt() + ").to_string"
	case 12:
		return a + ".grapheme_at(" + g.smallInt() + ")"
	default:
		return a + ".byte_at(" + g.smallInt() + ").to_string"
	}
}

func (g *c01Gen) listLit() string {
	n := g.r.IntN(5)
	el := make([]string, n)
	for i := range el {
		el[i] = g.pick([]string{"1", "2", "3", "-4", "5", "9223372036854775807", "18446744073709551616"})
	}
	return "[" + strings.Join(el, ", ") + "]"
}

// stmts returns a block of statements (each protected so later ones still run).
func (g *c01Gen) stmt() (string, string) {
	x := g.v()
	d := 1 + g.r.IntN(2)
	type tmpl struct {
		tag string
		f   func() string
	}
	ts := []tmpl{
		{"int-expr", func() string { return fmt.Sprintf("%s := %s\nprintln %s.inspect", x, g.int(d+1), x) }},
		{"sized-int-expr", func() string {
			return fmt.Sprintf("%s := %s\nprintln %s.inspect", x, g.intOf(1+g.r.IntN(len(c01IntTypes)-1), d+1), x)
		}},
		{"float-expr", func() string { return fmt.Sprintf("%s := %s\nprintln %s.inspect", x, g.float(d+1), x) }},
		{"string-expr", func() string { return fmt.Sprintf("%s := %s\nprintln %s.inspect", x, g.str(d+1), x) }},
		{"compare", func() string {
			a := g.pick([]string{g.int(d), g.float(d), g.str(d), g.listLit(), ":sym", "nil", g.pick(c01Chars), "1...5", g.intOf(4, d)})
			b := g.pick([]string{g.int(d), g.float(d), g.str(d), g.listLit(), ":sym", "nil", g.pick(c01Chars), "1...5", g.intOf(8, d)})
			return fmt.Sprintf("var %sa: any = %s\nvar %sb: any = %s\nprintln((%sa == %sb).inspect)\nprintln((%sa =~ %sb).inspect)", x, a, x, b, x, x, x, x)
		}},
		{"list-index", func() string {
			return fmt.Sprintf("%s := %s\nprintln %s[%s].inspect", x, g.listLit(), x, g.smallInt())
		}},
		{"list-slice", func() string {
			return fmt.Sprintf("%s := %s\nprintln %s[%s%s%s].inspect", x, g.listLit(), x, g.smallInt(), g.pick([]string{"...", "<..", "..<", "<.<"}), g.smallInt())
		}},
		{"list-mutate", func() string {
			var sb strings.Builder
			fmt.Fprintf(&sb, "var %s: ArrayList[Int] = %s\n", x, g.listLit())
			for k := 0; k < 2+g.r.IntN(6); k++ {
				sb.WriteString(x + g.pick([]string{
					".push(" + g.smallInt() + ")", ".pop", ".clear", ".grow(" + g.pick([]string{"0", "3", "-1", "-100", "1000"}) + ")",
					"[" + g.smallInt() + "] = 7", ".remove(" + g.smallInt() + ")", " << 4", ".append(1, 2, 3)", ".unshift(3)", ".shift",
					".insert(" + g.smallInt() + ", 5)", ".remove_at(" + g.smallInt() + ")", ".sort", ".reverse", ".map_mut(|e| -> e * 2)",
					".first", ".last", " * " + g.pick([]string{"0", "2", "-1"}), " + [1.5, 2]", ".contains(3)", ".length",
				}) + "\n")
			}
			fmt.Fprintf(&sb, "println %s.inspect", x)
			return sb.String()
		}},
		{"list-ctor", func() string {
			return fmt.Sprintf("var %s: ArrayList[Int] = [1, 2]:%s\n%s.push(1)\n%s.grow(%s)\nprintln %s.inspect", x, g.pick([]string{"0", "1", "3", "100"}), x, x, g.pick([]string{"0", "1", "-1", "-9223372036854775807", "100", "9223372036854775807"}), x)
		}},
		{"set-churn", func() string {
			var sb strings.Builder
			fmt.Fprintf(&sb, "var %s: HashSet[Int] = %s\n", x, g.pick([]string{"^[]", "^[1, 2, 3]", "^[1, 2, 3, 4, 5, 6, 7, 8, 9]"}))
			n := 3 + g.r.IntN(30)
			base := g.r.IntN(4) * 100
			for k := 0; k < n; k++ {
				switch g.r.IntN(5) {
				case 0, 1:
					fmt.Fprintf(&sb, "%s.push(%d)\n%s.remove(%d)\n", x, base+k, x, base+k)
				case 2:
					fmt.Fprintf(&sb, "%s.push(%d)\n", x, base+k)
				case 3:
					fmt.Fprintf(&sb, "%s.remove(%d)\n", x, base+g.r.IntN(k+1))
				default:
					fmt.Fprintf(&sb, "println %s.contains(%d).inspect\n", x, base+g.r.IntN(k+1))
				}
			}
			fmt.Fprintf(&sb, "println %s.length.inspect\nfor e%s in %s\n  println e%s.inspect if e%s < 0\nend", x, x, x, x, x)
			return sb.String()
		}},
		{"set-ops", func() string {
			return fmt.Sprintf("var %sa: HashSet[Int] = ^[1, 2, 3]\nvar %sb: HashSet[Int] = %s\nprintln((%sa | %sb).length.inspect)\nprintln((%sa & %sb).length.inspect)\nprintln((%sa == %sb).inspect)", x, x, g.pick([]string{"^[]", "^[3, 4]", "^[1, 2, 3]"}), x, x, x, x, x, x)
		}},
		{"map-churn", func() string {
			var sb strings.Builder
			fmt.Fprintf(&sb, "var %s: HashMap[Int, String] = {}\n", x)
			for k := 0; k < 3+g.r.IntN(25); k++ {
				switch g.r.IntN(4) {
				case 0, 1:
					fmt.Fprintf(&sb, "%s[%d] = \"s%d\"\n", x, g.r.IntN(40)-5, k)
				case 2:
					fmt.Fprintf(&sb, "println %s[%d].inspect\n", x, g.r.IntN(40)-5)
				default:
					fmt.Fprintf(&sb, "println %s.contains_key(%d).inspect\n", x, g.r.IntN(40)-5)
				}
			}
			fmt.Fprintf(&sb, "println %s.length.inspect\nprintln((%s + {1 => \"z\"}).length.inspect)", x, x)
			return sb.String()
		}},
		{"map-ctor", func() string {
			return fmt.Sprintf("var %s: HashMap[Int, Int] = {1 => 2}:%s\n%s[3] = 2\n%s.grow(%s)\nprintln %s.inspect", x, g.pick([]string{"0", "1", "50"}), x, x, g.pick([]string{"0", "1", "-1", "-100", "50"}), x)
		}},
		{"tuple", func() string {
			return fmt.Sprintf("%s := %%%s\nprintln %s[%s].inspect\nprintln((%s + %%[1]).inspect)\nprintln((%s * %s).inspect)", x, g.listLit(), x, g.smallInt(), x, x, g.pick([]string{"0", "2", "-1"}))
		}},
		{"range", func() string {
			op := g.pick([]string{"...", "<..", "..<", "<.<"})
			a, b := g.smallInt(), g.smallInt()
			return fmt.Sprintf("%s := (%s)%s(%s)\nprintln %s.contains(%s).inspect\nprintln %s.inspect\n%sn := 0\nfor e%s in %s\n  %sn += 1\n  break if %sn > 20\nend\nprintln %sn.inspect", x, a, op, b, x, g.smallInt(), x, x, x, x, x, x, x)
		}},
		{"range-float-char", func() string {
			return fmt.Sprintf("println((%s...%s).contains(%s).inspect)\nprintln((`a`...`f`).contains(%s).inspect)\nprintln((...%s).contains(%s).inspect)\nprintln((%s...).contains(%s).inspect)", g.pick(c01Floats), g.pick(c01Floats), g.pick(c01Floats), g.pick(c01Chars), g.smallInt(), g.smallInt(), g.smallInt(), g.smallInt())
		}},
		{"string-iter", func() string {
			s := g.pick(c01Strings)
			return fmt.Sprintf("for %s in %s.%s\n  println %s.inspect\nend", x, s, g.pick([]string{"char_iter", "byte_iter", "grapheme_iter"}), x)
		}},
		{"string-index", func() string {
			return fmt.Sprintf("println((%s)[%s].inspect)", g.str(1), g.smallInt())
		}},
		{"string-compare", func() string {
			return fmt.Sprintf("println((%s <=> %s).inspect)\nprintln((%s < %s).inspect)\nprintln((%s == %s).inspect)", g.str(1), g.str(1), g.str(1), g.pick(c01Chars), g.pick(c01Chars), g.str(1))
		}},
		{"narrowed-reassigned-by-closure", func() string {
			return fmt.Sprintf("var %s: %s = %s\n%sf := || -> %s = nil\nif %s\n  %sf()\n  println((%s %s).inspect)\nend", x, g.pick([]string{"Int?", "String?", "Float?"}), "nil", x, x, x, x, x, ".inspect") + ""
		}},
		// K70: narrowing is not invalidated by a closure that reassigns the variable; the int-specialised
		// variants crash the VM (witness in known_findings.json) and are not regenerated here.
		{"narrowed-int-closure-safe", func() string {
			return fmt.Sprintf("var %s: Int? = %s\n%sf := || -> %s = 4\nif %s\n  %sf()\n  println((%s + 1).inspect)\nend", x, g.smallInt(), x, x, x, x, x)
		}},
		{"narrowed-int-closure-KNOWN", func() string {
			return fmt.Sprintf("var %s: Int? = %s\n%sf := || -> %s = nil\nif %s\n  %sf()\n  println((%s + 1).inspect)\nend", x, g.smallInt(), x, x, x, x, x)
		}},
		{"narrowed-union-KNOWN", func() string {
			return fmt.Sprintf("var %s: Int | String | Float = %s\n%sf := || -> %s = %s\nif %s <: Int\n  %sf()\n  println((%s * 2).inspect)\nend", x, g.smallInt(), x, x, g.pick([]string{`"str"`, "2.5"}), x, x, x)
		}},
		{"mutex-misuse", func() string {
			ops := []string{".lock\n" + x + ".unlock", ".unlock", ".lock\n" + x + ".unlock\n" + x + ".unlock"}
			return fmt.Sprintf("%s := Sync::Mutex()\n%s%s\nprintln \"after\"", x, x, g.pick(ops))
		}},
		{"rwmutex-misuse", func() string {
			ops := []string{".read_unlock", ".unlock", ".read_lock\n" + x + ".unlock", ".lock\n" + x + ".read_unlock", ".read_lock\n" + x + ".read_lock\n" + x + ".read_unlock\n" + x + ".read_unlock\n" + x + ".read_unlock", ".to_read_only.unlock", ".to_read_only.lock\n" + x + ".to_read_only.unlock\n" + x + ".to_read_only.unlock"}
			return fmt.Sprintf("%s := Sync::RWMutex()\n%s%s\nprintln \"after\"", x, x, g.pick(ops))
		}},
		{"waitgroup-misuse", func() string {
			// never blocks: `wait` only when the counter is zero
			ops := []string{".end", ".remove(1)", ".add(-1)", ".add(2)\n" + x + ".remove(3)", ".start\n" + x + ".end\n" + x + ".end", ".wait", ".add(1)\n" + x + ".end\n" + x + ".wait", ".remove(-1)", ".add(9223372036854775807)\n" + x + ".add(9223372036854775807)"}
			return fmt.Sprintf("%s := Sync::WaitGroup(%s)\n%s%s\nprintln \"after\"", x, g.pick([]string{"", "0"}), x, g.pick(ops))
		}},
		{"waitgroup-ctor", func() string {
			return fmt.Sprintf("%s := Sync::WaitGroup(%s)\n%s.end\nprintln \"after\"", x, g.pick([]string{"-1", "1", "-9223372036854775807", "18446744073709551616"}), x)
		}},
		{"once", func() string {
			return fmt.Sprintf("%s := Sync::Once()\n%s.call(|| -> println \"once\")\n%s.call(|| -> println \"twice\")\n%sm := Sync::Once.memo(|| -> %s)\nprintln %sm().inspect\nprintln %sm().inspect", x, x, x, x, g.int(1), x, x)
		}},
		{"once-throwing", func() string {
			return fmt.Sprintf("%s := Sync::Once()\ndo\n  %s.call(||! Int -> throw 5)\ncatch Int() as e\n  println e.inspect\nend\n%s.call(|| -> println \"again\")", x, x, x)
		}},
		{"channel-closed", func() string {
			ops := []string{
				".close\n" + x + ".close",
				".close\n" + x + ".push(1)",
				".close\n" + x + " << 1",
				".close\nprintln " + x + ".pop.inspect",
				".push(1)\n" + x + ".close\nprintln " + x + ".pop.inspect\nprintln " + x + ".pop.inspect",
				".push(1)\n" + x + ".push(2)\n" + x + ".close\nfor e" + x + " in " + x + "\n  println e" + x + ".inspect\nend",
				".close\nprintln((<<" + x + ").inspect)",
				".push(3)\nprintln " + x + ".length.inspect\nprintln " + x + ".left_capacity.inspect\nprintln " + x + ".capacity.inspect",
			}
			return fmt.Sprintf("%s := Channel::[Int](%s)\n%s%s\nprintln \"after\"", x, g.pick([]string{"3", "2", "5"}), x, g.pick(ops))
		}},
		{"channel-ctor", func() string {
			return fmt.Sprintf("%s := Channel::[Int](%s)\nprintln %s.capacity.inspect\n%s.close", x, g.pick([]string{"-1", "0", "-9223372036854775807", "1"}), x, x)
		}},
		{"channel-static-closed", func() string {
			return fmt.Sprintf("%s := Channel.closed::[Int]()\ndo\n  %s.push(1)\ncatch Channel::ClosedError() as e\n  println \"closed\"\nend", x, x)
		}},
		{"go-channel", func() string {
			n := 1 + g.r.IntN(5)
			return fmt.Sprintf("%s := Channel::[Int](%d)\n%swg := Sync::WaitGroup(1)\ngo\n  for i%s in 1...%d\n    %s << i%s\n  end\n  %s.close\n  %swg.end\nend\n%ssum := 0\nfor e%s in %s\n  %ssum += e%s\nend\n%swg.wait\nprintln %ssum.inspect", x, g.r.IntN(3), x, x, n, x, x, x, x, x, x, x, x, x, x, x)
		}},
		{"promise", func() string {
			return fmt.Sprintf("%s := Promise.resolved(%s)\nprintln((await %s).inspect)\nprintln %s.is_resolved.inspect\n%sr := Promise.rejected(:boom)\ndo\n  await %sr\ncatch :boom\n  println \"rejected\"\nend", x, g.int(1), x, x, x, x)
		}},
		{"promise-wait", func() string {
			// K74: Promise.wait resolves to nil although declared Promise[V, E]; the result is not used
			return fmt.Sprintf("%s := Promise.wait(Promise.resolved(1), Promise.resolved(2))\nawait %s\nprintln \"w\"\n%sr := Promise.wait(Promise.resolved(1), Promise.rejected(:boom))\ndo\n  await %sr\ncatch :boom\n  println \"rejected\"\nend", x, x, x, x)
		}},
		{"date-time", func() string {
			return fmt.Sprintf("%s := Date(%s, %s, %s)\nprintln %s.inspect\nprintln((%s + (%s).days).inspect)\nprintln %s.strftime(%s)", x, g.pick([]string{"2024", "0", "-1", "9999", "1000000", "-292277022657"}), g.pick([]string{"1", "0", "13", "-1", "12"}), g.pick([]string{"1", "0", "32", "-1", "31"}), x, x, g.pick([]string{"1", "-1", "100000000000", "9223372036854775807"}), x, g.pick([]string{`"%Y-%m-%d"`, `"%"`, `"%Q"`, `"%-"`, `"%_10Y"`, `"%^a %020d"`, `""`}))
		}},
		{"datetime-parse", func() string {
			return fmt.Sprintf("println DateTime.parse(%s).inspect", g.pick([]string{`"2025-12-23 19:22:05.000000000 +00:00"`, `""`, `"2025"`, `"2025-13-45 99:99:99.0 +99:99"`, `"x"`, `"2025-12-23 19:22:05.000000000 +00:00", "%Y-%m-%d %H:%M:%S.%N %:z"`, `"23", "%"`, `"23", "%d%"`}))
		}},
		{"time-span", func() string {
			unit := g.pick([]string{"seconds", "hours", "days", "nanoseconds", "weeks", "years", "months", "minutes"})
			val := g.pick([]string{"1", "-1", "0", "9223372036854775807", "1.5", "1e300", "18446744073709551616"})
			return fmt.Sprintf("%[1]s := (%[2]s).%[3]s\nprintln %[1]s.inspect\nprintln((%[1]s * %[4]s).inspect)\nprintln((%[1]s / %[5]s).inspect)\nprintln((%[1]s + %[1]s).inspect)", x, val, unit, g.pick([]string{"2", "0", "-1", "1e300", "9223372036854775807"}), g.pick([]string{"2", "0", "0.0", "-1", "2.5bf"}) /* K75: division by 0.0bf is witnessed, not regenerated */)
		}},
		{"regex", func() string {
			return fmt.Sprintf("%s := %%/%s/%s\nprintln %s.matches(%s).inspect\nprintln((%s + %%/b/).inspect)", x, g.pick([]string{"a+", "(a|b)*c", "\\\\d{2,3}", "[a-z&&[^b]]", "\\\\p{L}+", "^$", "a{1000}", "(?i:x)", "(?<n>a)\\\\k<n>", "\\\\u0041", "."}), g.pick([]string{"", "i", "m", "s", "x", "U", "a", "imsxUa"}), x, g.str(1), x)
		}},
		{"symbol-string-conv", func() string {
			return fmt.Sprintf("println %s.to_symbol.inspect\nprintln :foo.to_string.inspect\nprintln %s.to_int.inspect", g.str(1), g.pick([]string{`"12"`, `"x"`, `""`, `"99999999999999999999999"`, `"-0"`, `"1_000"`, `"0x1f"`}))
		}},
		{"float-conv", func() string {
			// K71 (Float::INF/NAN .to_int panics) and K73 (Float#to_bigfloat has no native) are witnessed, not regenerated
			return fmt.Sprintf("%s := %s\nprintln %s.%s.inspect\nprintln %s.to_float32.inspect\nprintln %s.to_float64.inspect", x, g.float(1), x, g.pick([]string{"to_int8", "to_uint8", "to_int64", "to_uint64", "to_int32", "to_uint16"}), x, x)
		}},
		{"bigfloat", func() string {
			return fmt.Sprintf("%s := %s\nprintln((%s %s %s).inspect)\nprintln %s.to_float.inspect", x, g.pick([]string{"1.5bf", "0.0bf", "-1e400bf", "1e-400bf", "BigFloat::INF", "BigFloat::NAN", "BigFloat::NEG_INF"}), x, g.pick([]string{"+", "-", "*", "/", "%", "**", "<=>", "=="}), g.pick([]string{"2.5bf", "0.0bf", "BigFloat::INF", "BigFloat::NAN", "3", "1e400bf", "0.5", "-2bf"}), x)
		}},
		{"int-methods", func() string {
			return fmt.Sprintf("%s := %s\nprintln %s.%s.inspect", x, g.int(1), x, g.pick([]string{"to_float", "to_string", "hash", "inspect", "to_int8", "to_uint64", "to_int64", "abs", "bit_length", "to_float32", "to_float64"}))
		}},
		{"times-loop", func() string {
			return fmt.Sprintf("%s := 0\nfor i%s in %s\n  %s += i%s\n  break if %s > 100\nend\nprintln %s.inspect", x, x, g.pick([]string{"0...3", "5...1", "-2..<2", "1<..4", "[1, 2, 3]", "%[4, 5]", "^[7, 8]", "{1 => 2}.keys", "\"abc\".byte_iter.to_list.map(|b| -> b.to_int)"}), x, x, x, x)
		}},
		{"closure-capture", func() string {
			return fmt.Sprintf("%s := %s\n%sf := ||: Int -> do\n  %s += 1\n  %sg := ||: Int -> %s * 2\n  %sg()\nend\nprintln %sf().inspect\nprintln %sf().inspect", x, g.smallInt(), x, x, x, x, x, x, x)
		}},
		{"must-as", func() string {
			return fmt.Sprintf("var %s: any = %s\nprintln((%s as %s).inspect)", x, g.pick([]string{"1", `"s"`, "nil", "1.5", "[1]", ":s"}), x, g.pick([]string{"Int", "String", "Float", "ArrayList[Int]", "Symbol", "Int?", "Int | String"}))
		}},
		{"must", func() string {
			return fmt.Sprintf("var %s: Int? = %s\nprintln %s.must.inspect", x, g.pick([]string{"nil", "1"}), x)
		}},
		{"box-weak", func() string {
			return fmt.Sprintf("%s := 5\n%sb := &%s\nprintln %sb.get.inspect\n%sb.set(%s)\nprintln %s.inspect\n%sw := Weak(%sb)\nprintln %sw.to_box.inspect", x, x, x, x, x, g.smallInt(), x, x, x, x)
		}},
		{"pair-hash", func() string {
			return fmt.Sprintf("%s := Pair(%s, %s)\nprintln %s.inspect\nprintln %s.hash.inspect\nprintln %s[%s].inspect", x, g.int(1), g.str(1), x, x, x, g.pick([]string{"0", "1", "2", "-1"}))
		}},
		{"throw-kinds", func() string {
			return fmt.Sprintf("do\n  throw unchecked %s\ncatch %s\n  println \"c\"\nfinally\n  println \"f\"\nend", g.pick([]string{"1", `"s"`, ":s", "1.5", "nil", "[1]", "Error(\"x\")"}), g.pick([]string{"1", `String() as e`, ":s", "Float()", "nil", "Error() as e", "e"}))
		}},
		{"deep-collection-inspect", func() string {
			return fmt.Sprintf("%s := [[1, [2, [3, {4 => ^[5, %s]}]]], %%[1.5, :a, `c`, nil, 1...2, Pair(1, 2)]]\nprintln %s.inspect\nprintln %s.hash.inspect\nprintln((%s == %s).inspect)", x, g.int(1), x, x, x, x)
		}},
		{"self-containing-list", func() string {
			return fmt.Sprintf("var %s: ArrayList[any] = [1]\n%s.push(%s)\nprintln %s.length.inspect", x, x, x, x)
		}},
	}
	t := ts[g.r.IntN(len(ts))]
	for strings.HasSuffix(t.tag, "-KNOWN") { // constructs with a listed defect that kills the worker: witnessed, not regenerated
		t = ts[g.r.IntN(len(ts))]
	}
	if fam := os.Getenv("VERIF_C01_FAMILY"); fam != "" { // development aid
		for _, u := range ts {
			if u.tag == fam {
				t = u
			}
		}
	}
	return t.tag, t.f()
}

var c01Contexts = []struct {
	tag  string
	wrap func(body string, n int) string
}{
	{"top-level", func(b string, n int) string { return b }},
	{"do-catch", func(b string, n int) string {
		return "do\n" + indent(b) + "\ncatch e\n  println \"E #{e.class.name}\"\nfinally\n  println \"fin\"\nend"
	}},
	{"function", func(b string, n int) string {
		return fmt.Sprintf("def f%d(p: Int): Int\n%s\n  p\nend\nprintln f%d(3).inspect", n, indent(b), n)
	}},
	{"closure", func(b string, n int) string {
		return fmt.Sprintf("c%d := |p: Int|: Int -> do\n%s\n  p\nend\nprintln c%d(3).inspect", n, indent(b), n)
	}},
	{"generator", func(b string, n int) string {
		lines := strings.Split(b, "\n")
		var sb strings.Builder
		fmt.Fprintf(&sb, "def *g%d(p: Int): Int\n", n)
		depth := 0
		for _, ln := range lines {
			sb.WriteString("  " + ln + "\n")
			depth += blockDelta(ln)
			if depth == 0 {
				sb.WriteString("  yield p\n")
			}
		}
		fmt.Fprintf(&sb, "  -1\nend\nfor y%d in g%d(2)\n  println y%d.inspect\nend", n, n, n)
		return sb.String()
	}},
	{"async", func(b string, n int) string {
		return fmt.Sprintf("async def a%d(p: Int): Int\n%s\n  p\nend\nprintln((await a%d(3)).inspect)", n, indent(b), n)
	}},
	{"method-with-ivars", func(b string, n int) string {
		return fmt.Sprintf("class K%d\n  var @iv: Int\n  init(@iv); end\n  def m(p: Int): Int\n%s\n    @iv += p\n    @iv\n  end\nend\nprintln K%d(4).m(3).inspect", n, indent(indent(b)), n)
	}},
	{"loop-body", func(b string, n int) string {
		return fmt.Sprintf("for it%d in 1...2\n%s\nend", n, indent(b))
	}},
	{"go-thread", func(b string, n int) string {
		return fmt.Sprintf("wg%d := Sync::WaitGroup(1)\ngo\n  do\n%s\n  catch e\n    println \"E\"\n  finally\n    wg%d.end\n  end\nend\nwg%d.wait", n, indent(indent(b)), n, n)
	}},
	{"closure-in-generator", func(b string, n int) string {
		return fmt.Sprintf("def *gc%d: Int\n  q := 1\n  f := ||: Int -> do\n%s\n    q += 1\n    q\n  end\n  yield f()\n  r := f()\n  yield r\n  r\nend\nfor y%d in gc%d()\n  println y%d.inspect\nend", n, indent(indent(b)), n, n, n)
	}},
}

var blockOpenRe = regexp.MustCompile(`^\s*(do|for|while|if|def|class|loop|until|unless)\b|->\s*do\s*$|\bgo$`)

func blockDelta(ln string) int {
	t := strings.TrimSpace(ln)
	d := 0
	if t == "end" {
		d--
	} else if blockOpenRe.MatchString(ln) && !strings.Contains(t, " then ") && !strings.HasSuffix(t, " end") && !(strings.HasPrefix(t, "println") || strings.Contains(t, " if ") && !strings.HasPrefix(t, "if ")) {
		d++
	}
	return d
}

func indent(b string) string {
	return "  " + strings.ReplaceAll(b, "\n", "\n  ")
}

func protect(b string) string {
	return "do\n" + indent(b) + "\ncatch e\n  println \"E\"\nend"
}

func c01Observe(c *Ctx, i int, src string, res *ElkResult, tags string) {
	c.Eval(1)
	switch {
	case res.Panic != "":
		c.Count("go_panics_observed", 1)
		c.Violate("go-panic:"+res.PanicPhase+":"+panicSite1(res.PanicStack), fmt.Sprintf("Go panic while %sing an accepted program: %s\n%s\nprogram (%s):\n%s", res.PanicPhase, head(res.Panic, 300), head(res.PanicStack, 1800), tags, head(src, 3000)), i, src)
	case res.Rejected:
		c.Count("programs_rejected", 1)
	case !res.Err.IsUndefined():
		c.Count("programs_run", 1)
		c.Count("runs_ending_in_uncaught_elk_error", 1)
		c.Distinct("uncaught|" + head(res.ErrInspect, 40))
		if strings.TrimSpace(res.Trace) == "" {
			c.Count("uncaught_errors_without_trace", 1)
		}
	default:
		c.Count("programs_run", 1)
	}
	c.Count("elk_errors_caught_by_program", int64(strings.Count(res.Stdout, "E\n")))
}

func c01Case(c *Ctx, i int, r *rand.Rand) {
	if i%5 == 4 && os.Getenv("VERIF_C01_FAMILY") == "" {
		// structural half: G-prog programs with every construct enabled (no reference comparison here)
		k := gKnobs{control: true, closures: true, fns: r.IntN(4), depth: 2 + r.IntN(3), stmtsPer: 2 + r.IntN(4)}
		src := genProg(r, k).source()
		res := RunElk(src, nil)
		c.Count("gprog_programs", 1)
		c01Observe(c, i, src, res, "G-prog")
		return
	}
	g := &c01Gen{r: r}
	nst := 1 + r.IntN(5)
	var parts, tags []string
	for k := 0; k < nst; k++ {
		tag, s := g.stmt()
		ctx := c01Contexts[r.IntN(len(c01Contexts))]
		if r.IntN(3) == 0 {
			ctx = c01Contexts[0]
		}
		body := s
		if r.IntN(2) == 0 {
			body = protect(s)
		}
		parts = append(parts, ctx.wrap(body, k))
		tags = append(tags, tag+"@"+ctx.tag)
	}
	run := func(src, tg string) {
		res := RunElk(src, nil)
		c01Observe(c, i, src, res, tg)
		if !res.Rejected && res.Panic == "" {
			for _, t := range strings.Split(tg, ",") {
				c.Distinct(t)
				c.Count("stmt_"+strings.SplitN(t, "@", 2)[0], 1)
			}
		} else if res.Rejected {
			for _, t := range strings.Split(tg, ",") {
				c.Count("rejected_"+strings.SplitN(t, "@", 2)[0], 1)
			}
			c.Extra("rejection|"+tg, head(diagString(res.Diagnostics), 200))
		}
	}
	src := strings.Join(parts, "\n") + "\n"
	if os.Getenv("VERIF_PRINT") != "" {
		fmt.Fprintf(os.Stderr, "---- case %d (%s)\n%s\n", i, strings.Join(tags, ","), src)
	}
	res := RunElk(src, nil)
	if res.Rejected && len(parts) > 1 {
		// a template the checker refuses must not hide the others: run the pieces alone
		for k, p := range parts {
			run(p+"\n", tags[k])
		}
		return
	}
	c01Observe(c, i, src, res, strings.Join(tags, ","))
	if !res.Rejected && res.Panic == "" {
		for _, t := range tags {
			c.Distinct(t)
			c.Count("stmt_"+strings.SplitN(t, "@", 2)[0], 1)
		}
	} else if res.Rejected {
		c.Count("rejected_"+strings.SplitN(tags[0], "@", 2)[0], 1)
		c.Extra("rejection|"+tags[0], head(diagString(res.Diagnostics), 200))
	}
}

func init() {
	register(&Check{
		ID:   "C01",
		Rule: "seeded generator of well-typed programs: 50 statement families (boundary-value arithmetic over Int/BigInt/all sized ints/floats/BigFloat incl. shifts by every int type's extremes, strings, collections churn with push/remove/grow/index/slice, ranges of every kind, narrowing defeated by closures, as-casts, Mutex/RWMutex/ROMutex/WaitGroup/Once misuse, channels closed/over-closed/negative capacity, promises, go threads, dates/time spans/regex/strftime with hostile arguments, throw/catch of every value kind) each placed in one of 10 contexts (top level, do/catch/finally, function, closure, generator with yields between statements, async function, method with ivars, loop body, go thread, closure inside generator), plus G-prog programs with all control-flow and closure constructs; programs run in supervised child processes; oracle: no Go panic (recover around check+run), no Go fatal error / process death (journal attributes the case); Elk errors are the allowed outcome; programs the checker rejects are re-run statement by statement and only counted; distinct = statement-family x context pairs run",
		NumCases: func(tier string) int {
			if v, err := strconv.Atoi(os.Getenv("VERIF_C01_N")); err == nil { // development aid
				return v
			}
			if tier == "thorough" {
				return 25000
			}
			return 5000
		},
		Case:        c01Case,
		CPUBudget:   60,
		MinCounters: map[string]int64{"programs_run": 3500, "gprog_programs": 700, "elk_errors_caught_by_program": 700, "runs_ending_in_uncaught_elk_error": 100},
		Assumptions: []string{"exhausting the configured stack limits is exempt by the property and is not generated; blocking forever (deadlock on a mutex locked twice, wait on a positive WaitGroup) is not a crash and is not generated; memory corruption is looked for by the race/ASan variants of other checks, here only through its crashes"},
	})
}
