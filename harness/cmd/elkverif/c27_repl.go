package main

// C27 — REPL sessions behave like batch runs of their accepted inputs.
//
// Runtime monitor with a reference model: the real incremental pipeline (one persistent checker in
// incremental mode + one persistent VM thread, exactly the API sequence of repl.evaluator.evaluate) is
// driven with generated sessions; the model is the batch pipeline (fresh checker, fresh VM) run on the
// program made of the inputs accepted so far followed by the current input.

import (
	"fmt"
	"math/rand/v2"
	"os"
	"runtime/debug"
	"sort"
	"strings"

	"github.com/elk-language/elk"
	"github.com/elk-language/elk/types/checker"
	"github.com/elk-language/elk/vm"
)

// ---------------------------------------------------------------------------------------------
// the monitored system: a REPL session

// replStep is what one REPL input produced.
type replStep struct {
	Src      string
	Rejected bool   // type checker (or parser) reported a failure
	Diags    string // rendered diagnostics
	Stdout   string // what the input printed
	Echo     string // inspect of the value the REPL would echo ("" when the input raised)
	Err      string // inspect of the uncaught runtime error ("" if none)
	Panic    string // Go panic in checker or VM
	Stack    string
	Phase    string
}

// replSession replicates repl.evaluator.evaluate: one persistent checker in incremental mode with
// additional abort checks, one persistent VM thread, CheckSourceBytecode + InterpretREPL per input,
// ClearErrors after diagnostics, ResetError after a runtime error.
type replSession struct {
	tc     *checker.Checker
	th     *vm.Thread
	stdout *syncBuf
	stderr *syncBuf
	idx    int
}

func newReplSession() *replSession {
	elk.InitGlobalEnvironment()
	s := &replSession{stdout: &syncBuf{}, stderr: &syncBuf{}}
	s.tc = checker.New()
	s.tc.SetAdditionalAbortChecks(true)
	s.tc.SetIncremental(true)
	s.th = vm.New(vm.WithStdout(s.stdout), vm.WithStderr(s.stderr))
	return s
}

func (s *replSession) eval(input string) (st replStep) {
	st.Src = input
	st.Phase = "check"
	defer func() {
		if r := recover(); r != nil {
			st.Panic = fmt.Sprint(r)
			st.Stack = string(debug.Stack())
		}
	}()
	name := fmt.Sprintf("<repl:%d>", s.idx)
	s.idx++
	fn, dl := s.tc.CheckSourceBytecode(name, input)
	if dl != nil {
		st.Diags = diagString(dl)
		failure := dl.IsFailure()
		s.tc.ClearErrors()
		if failure {
			st.Rejected = true
			return st
		}
	}
	st.Phase = "run"
	before := len(s.stdout.String())
	val, rerr := s.th.InterpretREPL(fn)
	st.Stdout = s.stdout.String()[before:]
	if !rerr.IsUndefined() {
		st.Err = rerr.Inspect()
		s.th.ResetError()
		return st
	}
	st.Echo = val.Inspect()
	return st
}

// ---------------------------------------------------------------------------------------------
// inputs, judge (the oracle) and minimiser

type c27Input struct {
	Kind string `json:"kind"`
	Src  string `json:"src"`
	// Hist is the form the input takes inside the history of a later batch program ("" = Src). Inputs
	// planned to raise at run time have the raising statement wrapped in do/catch and the unreachable
	// tail dropped, so that the batch model keeps the side effects up to the error and goes on.
	Hist   string `json:"hist,omitempty"`
	Expect string `json:"expect"` // generator's intention: acc | rej | err
}

type c27Finding struct {
	What   string // what differs
	At     int    // index of the input where it shows
	Kind   string
	Detail string
	Stack  string
}

type c27Stats struct {
	batchRuns, verdicts, stdouts, echoes, errors, accepted, rejected, raised int64
	mispredictAcc, mispredictRej, mispredictErr, unplannedErr, modelDiedEarly   int64
}

func c27Marker(k int) string { return fmt.Sprintf("@@%d@@", k) }

// c27Batch builds the batch program: history forms of the accepted inputs, then input k, each preceded
// by a marker line so that the output of one input can be cut out of the program's stdout.
func c27Batch(inputs []c27Input, accepted []int, k int) string {
	var sb strings.Builder
	for _, j := range accepted {
		h := inputs[j].Hist
		if h == "" {
			h = inputs[j].Src
		}
		fmt.Fprintf(&sb, "println %q\n%s\n", c27Marker(j), h)
	}
	fmt.Fprintf(&sb, "println %q\n%s\n", c27Marker(k), inputs[k].Src)
	return sb.String()
}

var c27Basic = map[string]bool{"setup": true, "local-decl": true, "local-reassign": true, "local-typed": true,
	"local-use": true, "def": true, "def-r": true, "class": true, "obj-new": true, "obj-call": true, "const": true,
	"module": true, "state-probe": true, "using-probe": true, "mixin-def": true, "def-thrower": true}

// c27Sig names the root-cause class: what differs, the kind of the input where it shows, and the
// non-basic input kinds of the (minimised) history before it.
func c27Sig(inputs []c27Input, f *c27Finding) string {
	set := map[string]bool{}
	for _, in := range inputs[:f.At] {
		k := in.Kind
		if c27Basic[k] || strings.HasPrefix(k, "probe:") || strings.HasPrefix(k, "define:") {
			continue
		}
		set[k] = true
	}
	var ks []string
	for k := range set {
		ks = append(ks, k)
	}
	sort.Strings(ks)
	return fmt.Sprintf("%s:at=%s:hist=%s", f.What, f.Kind, strings.Join(ks, ","))
}

// c27Judge runs the session, then the batch model for every input, and returns the first discrepancy.
func c27Judge(inputs []c27Input, st *c27Stats) *c27Finding {
	if st == nil {
		st = &c27Stats{}
	}
	s := newReplSession()
	steps := make([]replStep, 0, len(inputs))
	for k, in := range inputs {
		step := s.eval(in.Src)
		steps = append(steps, step)
		if step.Panic != "" {
			return &c27Finding{What: "session-panic:" + step.Phase + ":" + panicSite1(step.Stack), At: k, Kind: in.Kind,
				Detail: fmt.Sprintf("Go panic in the REPL pipeline (%s) on input %d: %s", step.Phase, k, head(step.Panic, 300)), Stack: head(step.Stack, 1500)}
		}
		if step.Err != "" && in.Hist == "" {
			break // unplanned runtime error: the model has no continuation, the session ends here
		}
	}
	var accepted []int
	for k := range steps {
		in, step := inputs[k], steps[k]
		prog := c27Batch(inputs, accepted, k)
		res := RunElk(prog, nil)
		st.batchRuns++
		if res.Panic != "" {
			return &c27Finding{What: "batch-panic:" + res.PanicPhase + ":" + panicSite1(res.PanicStack), At: k, Kind: in.Kind,
				Detail: fmt.Sprintf("Go panic in the batch pipeline (%s): %s\n%s\nprogram:\n%s", res.PanicPhase, head(res.Panic, 300), head(res.PanicStack, 1200), prog)}
		}
		st.verdicts++
		switch in.Expect {
		case "acc", "err":
			if res.Rejected {
				st.mispredictAcc++
			}
		case "rej":
			if !res.Rejected {
				st.mispredictRej++
			}
		}
		if step.Rejected != res.Rejected {
			what := "verdict:repl-accepts-batch-rejects"
			diag := diagString(res.Diagnostics)
			if step.Rejected {
				what = "verdict:repl-rejects-batch-accepts"
				diag = step.Diags
			}
			return &c27Finding{What: what, At: k, Kind: in.Kind,
				Detail: fmt.Sprintf("input %d (%s): REPL rejected=%v, batch program of the accepted inputs + this input rejected=%v\ndiagnostics: %s", k, in.Kind, step.Rejected, res.Rejected, head(diag, 600))}
		}
		if step.Rejected {
			st.rejected++
			continue
		}
		st.accepted++
		mk := c27Marker(k) + "\n"
		pos := strings.LastIndex(res.Stdout, mk)
		if pos < 0 {
			// the batch program ended before reaching this input: an earlier input behaves differently
			// once later definitions are hoisted in front of it (by design) – no comparison possible
			st.modelDiedEarly++
			return nil
		}
		seg := res.Stdout[pos+len(mk):]
		st.stdouts++
		if seg != step.Stdout {
			return &c27Finding{What: "stdout-differs", At: k, Kind: in.Kind,
				Detail: fmt.Sprintf("input %d (%s) printed %q in the REPL session, the batch program prints %q at that point", k, in.Kind, step.Stdout, seg)}
		}
		st.errors++
		if step.Err != res.ErrInspect {
			return &c27Finding{What: "error-differs", At: k, Kind: in.Kind,
				Detail: fmt.Sprintf("input %d (%s): uncaught error in the REPL session %q, in the batch program %q", k, in.Kind, step.Err, res.ErrInspect)}
		}
		if step.Err != "" {
			st.raised++
			if in.Expect != "err" {
				st.mispredictErr++
			}
			if in.Hist == "" {
				st.unplannedErr++
				return nil
			}
		} else {
			if in.Expect == "err" {
				st.mispredictErr++
			}
			if !res.Result.IsUndefined() {
				be := res.Result.Inspect()
				if !strings.Contains(be, "0x") && !strings.Contains(step.Echo, "0x") {
					st.echoes++
					if be != step.Echo {
						return &c27Finding{What: "echo-differs", At: k, Kind: in.Kind,
							Detail: fmt.Sprintf("input %d (%s): the REPL echoes %q, the batch program's value is %q", k, in.Kind, step.Echo, be)}
					}
				}
			}
		}
		accepted = append(accepted, k)
	}
	return nil
}

func c27SameFinding(a, b *c27Finding) bool {
	return b != nil && a.What == b.What && a.Kind == b.Kind
}

// c27Minimise drops inputs while the same discrepancy still shows at the same (last) input.
func c27Minimise(inputs []c27Input, f *c27Finding) ([]c27Input, *c27Finding) {
	cur := append([]c27Input(nil), inputs[:f.At+1]...)
	best := f
	budget := 40
	for changed := true; changed && budget > 0; {
		changed = false
		for i := len(cur) - 2; i >= 0 && budget > 0; i-- {
			cand := append(append([]c27Input(nil), cur[:i]...), cur[i+1:]...)
			budget--
			g := c27Judge(cand, nil)
			if c27SameFinding(best, g) && g.At == len(cand)-1 {
				cur, best, changed = cand, g, true
			}
		}
	}
	return cur, best
}

func c27Render(inputs []c27Input) string {
	var sb strings.Builder
	for i, in := range inputs {
		fmt.Fprintf(&sb, "--- input %d [%s, planned %s]\n%s\n", i, in.Kind, in.Expect, in.Src)
	}
	return sb.String()
}

// ---------------------------------------------------------------------------------------------
// session generator

type c27Class struct {
	name    string
	ints    []string // pure no-arg Int methods
	nils    []string // no-arg Int? getters
	hasSub  bool
	mixins  map[string]bool
	objs    []string
	lowIvar bool
}

type c27Mod struct {
	name, fn, k, cls string
	usedFn, usedK    bool
	usedCls          bool
}

type c27Ghost struct {
	kind   string
	probes []string // statements that mention what the rejected input tried to define / change
	define string   // an input that defines the same name properly ("" if none)
}

type c27Gen struct {
	r        *rand.Rand
	n        int
	locals   []string
	funcs    []string
	rfuncs   []string
	classes  []*c27Class
	consts   []string
	mods     []*c27Mod
	mixins   [][2]string // name, method
	closures []string
	ghosts   []*c27Ghost
	thrower  bool
	pending  *c27Ghost
	afterErr bool
}

func (g *c27Gen) id() int { g.n++; return g.n }
func (g *c27Gen) k() int  { return 1 + g.r.IntN(9) }
func c27Pick[T any](r *rand.Rand, xs []T) T {
	return xs[r.IntN(len(xs))]
}

// intExpr: a pure Int expression over what exists.
func (g *c27Gen) intExpr(depth int) string {
	r := g.r
	var opts []func() string
	opts = append(opts, func() string { return fmt.Sprint(g.k()) })
	if len(g.locals) > 0 {
		opts = append(opts, func() string { return c27Pick(r, g.locals) }, func() string { return c27Pick(r, g.locals) })
	}
	if len(g.consts) > 0 {
		opts = append(opts, func() string { return c27Pick(r, g.consts) })
	}
	if len(g.funcs) > 0 {
		opts = append(opts, func() string { return fmt.Sprintf("%s(%d)", c27Pick(r, g.funcs), g.k()) })
	}
	if len(g.mods) > 0 {
		opts = append(opts, func() string {
			m := c27Pick(r, g.mods)
			if r.IntN(2) == 0 {
				return fmt.Sprintf("%s::%s", m.name, m.k)
			}
			return fmt.Sprintf("%s.%s(%d)", m.name, m.fn, g.k())
		})
	}
	if o, cl := g.anyObj(); o != "" {
		opts = append(opts, func() string { return o + "." + c27Pick(r, cl.ints) })
	}
	// names imported by an accepted using statement are used unqualified from then on
	for _, m := range g.mods {
		m := m
		if m.usedFn {
			f := func() string { return fmt.Sprintf("%s(%d)", m.fn, g.k()) }
			opts = append(opts, f, f)
		}
		if m.usedCls {
			f := func() string { return fmt.Sprintf("%s().q", m.cls) }
			opts = append(opts, f, f)
		}
		if m.usedK {
			opts = append(opts, func() string { return m.k })
		}
	}
	if depth > 0 && r.IntN(2) == 0 {
		return fmt.Sprintf("(%s %s %s)", g.intExpr(depth-1), c27Pick(r, []string{"+", "-", "*"}), g.intExpr(depth-1))
	}
	return c27Pick(r, opts)()
}

func (g *c27Gen) anyObj() (string, *c27Class) {
	var cs []*c27Class
	for _, c := range g.classes {
		if len(c.objs) > 0 {
			cs = append(cs, c)
		}
	}
	if len(cs) == 0 {
		return "", nil
	}
	c := c27Pick(g.r, cs)
	return c27Pick(g.r, c.objs), c
}

// errStmt: an ill-typed statement.
func (g *c27Gen) errStmt() string {
	switch g.r.IntN(5) {
	case 0:
		return fmt.Sprintf("var bad%d: Int = \"s\"", g.id())
	case 1:
		return "1 + \"x\""
	case 2:
		return fmt.Sprintf("nosuch%d(1)", g.id())
	case 3:
		return fmt.Sprintf("println NoSuch%d", g.id())
	}
	return fmt.Sprintf("var bad%d: String = 3", g.id())
}

// withErr puts an ill-typed statement before or after the well-typed part.
func (g *c27Gen) withErr(good string) string {
	if g.r.IntN(4) == 0 {
		return g.errStmt() + "\n" + good
	}
	return good + "\n" + g.errStmt()
}

func (g *c27Gen) classSrc(name string, k1, k2, k3 int) string {
	return fmt.Sprintf("class %s\n  var @n: Int\n  init(@n); end\n  def get: Int then @n\n  def bump: Int\n    @n += 1\n    @n\n  end\n"+
		"  def bumpfail: Int\n    @n += 1\n    throw unchecked @n\n  end\n  def rm: Int then %d\n  const KC = %d\nend\n", name, k1, k2)
}

func (g *c27Gen) newClass() (string, *c27Class) {
	n := g.id()
	cl := &c27Class{name: fmt.Sprintf("C%d", n), ints: []string{"get"}, mixins: map[string]bool{}}
	src := g.classSrc(cl.name, g.k(), g.k(), 0)
	g.classes = append(g.classes, cl)
	return src, cl
}

func (g *c27Gen) newObj(cl *c27Class) string {
	o := fmt.Sprintf("o%d", g.id())
	cl.objs = append(cl.objs, o)
	return fmt.Sprintf("%s := %s(%d)\n", o, cl.name, g.k())
}

func (g *c27Gen) objOf(cl *c27Class) string {
	if len(cl.objs) > 0 {
		return c27Pick(g.r, cl.objs)
	}
	return fmt.Sprintf("%s(%d)", cl.name, g.k())
}

func (g *c27Gen) newModule() string {
	n := g.id()
	m := &c27Mod{name: fmt.Sprintf("M%d", n), fn: fmt.Sprintf("mh%d", n), k: fmt.Sprintf("MK%d", n), cls: fmt.Sprintf("MC%d", n)}
	g.mods = append(g.mods, m)
	return fmt.Sprintf("module %s\n  def %s(x: Int): Int then x + %d\n  const %s = %d\n  class %s\n    def q: Int then %d\n  end\nend\n",
		m.name, m.fn, g.k(), m.k, g.k(), m.cls, g.k())
}

func (g *c27Gen) acc(kind, src string) c27Input { return c27Input{Kind: kind, Src: src, Expect: "acc"} }

func (g *c27Gen) setup() c27Input {
	var sb strings.Builder
	n := g.id()
	a := fmt.Sprintf("a%d", n)
	fmt.Fprintf(&sb, "%s := %d\n", a, g.k())
	g.locals = append(g.locals, a)
	f := fmt.Sprintf("f%d", n)
	fmt.Fprintf(&sb, "def %s(a: Int): Int then a * %d + %d\n", f, g.k(), g.k())
	g.funcs = append(g.funcs, f)
	src, cl := g.newClass()
	sb.WriteString(src)
	sb.WriteString(g.newObj(cl))
	if g.r.IntN(4) > 0 {
		sb.WriteString(g.newModule())
	}
	if g.r.IntN(2) == 0 {
		kn := fmt.Sprintf("K%d", g.id())
		fmt.Fprintf(&sb, "const %s = %d\n", kn, g.k())
		g.consts = append(g.consts, kn)
	}
	fmt.Fprintf(&sb, "println \"setup #{%s}\"", g.intExpr(2))
	return g.acc("setup", sb.String())
}

// accepted input kinds
func (g *c27Gen) genAcc() c27Input {
	r := g.r
	for {
		kind := r.IntN(26)
		if kind >= 22 { // more weight on using and on unqualified uses of imported names
			kind = 17 + kind%2
		}
		switch kind {
		case 0, 1: // local declaration
			a := fmt.Sprintf("a%d", g.id())
			e := g.intExpr(2)
			g.locals = append(g.locals, a)
			if r.IntN(3) == 0 {
				return g.acc("local-typed", fmt.Sprintf("%s %s: Int = %s\nprintln \"ld #{%s}\"", "var", a, e, a))
			}
			return g.acc("local-decl", fmt.Sprintf("%s := %s\nprintln \"ld #{%s}\"", a, e, a))
		case 2, 3: // reassign
			if len(g.locals) == 0 {
				continue
			}
			a := c27Pick(r, g.locals)
			return g.acc("local-reassign", fmt.Sprintf("%s = %s + %s\nprintln \"lr #{%s}\"", a, a, g.intExpr(1), a))
		case 4: // shadowing redeclaration of an existing local
			if len(g.locals) == 0 {
				continue
			}
			a := c27Pick(r, g.locals)
			return g.acc("local-shadow", fmt.Sprintf("%s := %s\nprintln \"ls #{%s}\"", a, g.intExpr(1), a))
		case 5: // use with value echo
			return g.acc("local-use", fmt.Sprintf("println \"lu #{%s}\"\n%s", g.intExpr(2), g.intExpr(2)))
		case 6: // def
			f := fmt.Sprintf("f%d", g.id())
			var src string
			if r.IntN(2) == 0 {
				src = fmt.Sprintf("def %s(a: Int): Int then a * %d + %d\n", f, g.k(), g.k())
			} else {
				src = fmt.Sprintf("def %s(a: Int): Int\n  t := a + %d\n  t * %d\nend\n", f, g.k(), g.k())
			}
			g.funcs = append(g.funcs, f)
			return g.acc("def", src+fmt.Sprintf("println \"df #{%s(%d)}\"", f, g.k()))
		case 7: // redefinable def / redefinition
			if len(g.rfuncs) > 0 && r.IntN(2) == 0 {
				f := c27Pick(r, g.rfuncs)
				return g.acc("redef", fmt.Sprintf("def %s: Int then %d\nprintln \"rd #{%s()}\"", f, 10+g.k(), f))
			}
			f := fmt.Sprintf("r%d", g.id())
			g.rfuncs = append(g.rfuncs, f)
			return g.acc("def-r", fmt.Sprintf("def %s: Int then %d\nprintln \"dr #{%s()}\"", f, g.k(), f))
		case 8: // class
			src, cl := g.newClass()
			src += g.newObj(cl)
			return g.acc("class", src+fmt.Sprintf("println \"cl #{%s.get} #{%s.rm} #{%s::KC}\"", cl.objs[0], cl.objs[0], cl.name))
		case 9: // new object
			if len(g.classes) == 0 {
				continue
			}
			cl := c27Pick(r, g.classes)
			src := g.newObj(cl)
			return g.acc("obj-new", src+fmt.Sprintf("println \"on #{%s.get}\"", cl.objs[len(cl.objs)-1]))
		case 10, 11: // object calls (bump mutates)
			o, cl := g.anyObj()
			if o == "" {
				continue
			}
			src := fmt.Sprintf("println \"oc #{%s.bump} #{%s.%s} #{%s.rm}\"", o, o, c27Pick(r, cl.ints), o)
			if len(cl.nils) > 0 {
				src += fmt.Sprintf("\nprintln \"ocn #{%s.%s}\"", o, c27Pick(r, cl.nils))
			}
			for _, rf := range g.rfuncs {
				src += fmt.Sprintf("\nprintln \"rf #{%s()}\"", rf)
			}
			for _, h := range g.closures {
				src += fmt.Sprintf("\nprintln \"h #{%s()}\"", h)
			}
			return g.acc("obj-call", src)
		case 12: // reopen: new method
			if len(g.classes) == 0 {
				continue
			}
			cl := c27Pick(r, g.classes)
			m := fmt.Sprintf("m%d", g.id())
			src := fmt.Sprintf("class %s\n  def %s: Int then @n * 2 + %d\nend\nprintln \"rom #{%s.%s}\"", cl.name, m, g.k(), g.objOf(cl), m)
			cl.ints = append(cl.ints, m)
			return g.acc("reopen-method", src)
		case 13: // reopen: redefine rm
			if len(g.classes) == 0 {
				continue
			}
			cl := c27Pick(r, g.classes)
			return g.acc("reopen-redef", fmt.Sprintf("class %s\n  def rm: Int then %d\nend\nprintln \"ror #{%s.rm}\"", cl.name, 20+g.k(), g.objOf(cl)))
		case 14: // reopen: new instance variable
			if len(g.classes) == 0 {
				continue
			}
			cl := c27Pick(r, g.classes)
			n := g.id()
			p, kind := "z", "reopen-ivar-high"
			if r.IntN(3) == 0 {
				p, kind = "a", "reopen-ivar-low"
			}
			if cl.hasSub {
				kind = "reopen-ivar-super"
			}
			o := g.objOf(cl)
			src := fmt.Sprintf("class %s\n  var @%s%d: Int?\n  def set%d(v: Int) then @%s%d = v\n  def get%d: Int? then @%s%d\nend\n", cl.name, p, n, n, p, n, n, p, n)
			if len(cl.objs) > 0 {
				src += fmt.Sprintf("%s.set%d(%d)\nprintln \"roi #{%s.get%d} #{%s.get}\"", o, n, g.k(), o, n, o)
				cl.nils = append(cl.nils, fmt.Sprintf("get%d", n))
			} else {
				src += fmt.Sprintf("println \"roi #{%s.get}\"", o)
			}
			return g.acc(kind, src)
		case 15: // subclass
			if len(g.classes) == 0 {
				continue
			}
			cl := c27Pick(r, g.classes)
			n := g.id()
			sub := &c27Class{name: fmt.Sprintf("D%d", n), ints: append([]string{}, cl.ints...), mixins: map[string]bool{}}
			src := fmt.Sprintf("class %s < %s\n", sub.name, cl.name)
			if r.IntN(2) == 0 {
				src += fmt.Sprintf("  var @k%d: Int?\n  def setk%d(v: Int) then @k%d = v\n  def getk%d: Int? then @k%d\n", n, n, n, n, n)
				sub.nils = append(sub.nils, fmt.Sprintf("getk%d", n))
				cl.hasSub = true
			}
			src += fmt.Sprintf("  def sub%d: Int then get + %d\nend\n", n, g.k())
			sub.ints = append(sub.ints, fmt.Sprintf("sub%d", n))
			g.classes = append(g.classes, sub)
			src += g.newObj(sub)
			o := sub.objs[0]
			if len(sub.nils) > 0 {
				src += fmt.Sprintf("%s.setk%d(%d)\n", o, n, g.k())
			}
			return g.acc("subclass", src+fmt.Sprintf("println \"sc #{%s.sub%d} #{%s.get}\"", o, n, o))
		case 16: // module
			src := g.newModule()
			m := g.mods[len(g.mods)-1]
			return g.acc("module", src+fmt.Sprintf("println \"md #{%s.%s(1)} #{%s::%s} #{%s::%s().q}\"", m.name, m.fn, m.name, m.k, m.name, m.cls))
		case 17: // using
			if len(g.mods) == 0 {
				continue
			}
			m := c27Pick(r, g.mods)
			var src, kind string
			switch r.IntN(4) {
			case 0:
				src, kind = fmt.Sprintf("using %s::*", m.name), "using-all"
				m.usedFn, m.usedK, m.usedCls = true, true, true
			case 1:
				src, kind = fmt.Sprintf("using %s::%s", m.name, m.fn), "using-method"
				m.usedFn = true
			case 2:
				src, kind = fmt.Sprintf("using %s::%s", m.name, m.k), "using-const"
				m.usedK = true
			default:
				src, kind = fmt.Sprintf("using %s::%s", m.name, m.cls), "using-class"
				m.usedCls = true
			}
			if r.IntN(2) == 0 || kind == "using-const" {
				src += "\n" + g.usingProbe(m)
			}
			return g.acc(kind, src)
		case 18: // unqualified use of imported names
			var ms []*c27Mod
			for _, m := range g.mods {
				if m.usedFn || m.usedK || m.usedCls {
					ms = append(ms, m)
				}
			}
			if len(ms) == 0 {
				continue
			}
			return g.acc("using-probe", g.usingProbe(c27Pick(r, ms)))
		case 19: // constant
			kn := fmt.Sprintf("K%d", g.id())
			e := fmt.Sprint(g.k())
			if len(g.consts) > 0 && r.IntN(2) == 0 {
				e = fmt.Sprintf("%s + %d", c27Pick(r, g.consts), g.k())
			}
			g.consts = append(g.consts, kn)
			return g.acc("const", fmt.Sprintf("const %s = %s\nprintln \"k #{%s}\"", kn, e, kn))
		case 20: // mixin definition / inclusion into an existing class
			if len(g.mixins) > 0 && len(g.classes) > 0 && r.IntN(2) == 0 {
				mx := c27Pick(r, g.mixins)
				cl := c27Pick(r, g.classes)
				if cl.mixins[mx[0]] {
					continue
				}
				cl.mixins[mx[0]] = true
				cl.ints = append(cl.ints, mx[1])
				return g.acc("reopen-include", fmt.Sprintf("class %s\n  include %s\nend\nprintln \"inc #{%s.%s}\"", cl.name, mx[0], g.objOf(cl), mx[1]))
			}
			n := g.id()
			mx := [2]string{fmt.Sprintf("X%d", n), fmt.Sprintf("mx%d", n)}
			g.mixins = append(g.mixins, mx)
			return g.acc("mixin-def", fmt.Sprintf("mixin %s\n  def %s: Int then %d\nend", mx[0], mx[1], g.k()))
		case 21: // closure over a top-level local
			if len(g.locals) == 0 {
				continue
			}
			h := fmt.Sprintf("h%d", g.id())
			a := c27Pick(r, g.locals)
			g.closures = append(g.closures, h)
			return g.acc("closure", fmt.Sprintf("%s := -> %s + %d\nprintln \"cz #{%s()}\"", h, a, g.k(), h))
		}
	}
}

func (g *c27Gen) usingProbe(m *c27Mod) string {
	var parts []string
	if m.usedFn {
		parts = append(parts, fmt.Sprintf("#{%s(%d)}", m.fn, g.k()))
	}
	if m.usedK {
		parts = append(parts, fmt.Sprintf("#{%s}", m.k))
	}
	if m.usedCls {
		parts = append(parts, fmt.Sprintf("#{%s().q}", m.cls))
	}
	return fmt.Sprintf("println \"up %s\"", strings.Join(parts, " "))
}

// rejected input kinds: something well-typed that would define or change state + a type error
func (g *c27Gen) genRej() c27Input {
	r := g.r
	for {
		n := g.id()
		gh := &c27Ghost{}
		var src string
		switch r.IntN(17) {
		case 0: // class body with one good and one ill-typed method
			gh.kind = "rej-class-body"
			name := fmt.Sprintf("GC%d", n)
			src = fmt.Sprintf("class %s\n  def ok: Int then %d\n  def bad: Int then \"x\"\n  const GKC = 1\nend", name, g.k())
			gh.probes = []string{fmt.Sprintf("println \"p #{%s().ok}\"", name), fmt.Sprintf("println \"p #{%s::GKC}\"", name), fmt.Sprintf("var t%d: %s? = nil", n, name)}
			gh.define = fmt.Sprintf("class %s\n  def ok: Int then %d\nend\nprintln \"gd #{%s().ok}\"", name, 30+g.k(), name)
		case 1: // good def + ill-typed statement
			gh.kind = "rej-def-stmt"
			f := fmt.Sprintf("gf%d", n)
			src = g.withErr(fmt.Sprintf("def %s: Int then %d", f, g.k()))
			gh.probes = []string{fmt.Sprintf("println \"p #{%s()}\"", f)}
			gh.define = fmt.Sprintf("def %s: Int then %d\nprintln \"gd #{%s()}\"", f, 30+g.k(), f)
		case 2: // constant + type error
			gh.kind = "rej-const-stmt"
			kn := fmt.Sprintf("GK%d", n)
			src = g.withErr(fmt.Sprintf("const %s = %d", kn, g.k()))
			gh.probes = []string{fmt.Sprintf("println \"p #{%s}\"", kn)}
			gh.define = fmt.Sprintf("const %s = %d\nprintln \"gd #{%s}\"", kn, 30+g.k(), kn)
		case 3: // new local + type error
			gh.kind = "rej-local-stmt"
			a := fmt.Sprintf("gl%d", n)
			src = fmt.Sprintf("%s := %d\n%s", a, g.k(), g.errStmt())
			gh.probes = []string{fmt.Sprintf("println \"p #{%s}\"", a)}
			gh.define = fmt.Sprintf("%s := %d\nprintln \"gd #{%s}\"", a, 30+g.k(), a)
		case 4: // reopen an existing class with a new method + error (in the body or after it)
			if len(g.classes) == 0 {
				continue
			}
			gh.kind = "rej-reopen-method"
			cl := c27Pick(r, g.classes)
			m := fmt.Sprintf("gm%d", n)
			if r.IntN(2) == 0 {
				src = fmt.Sprintf("class %s\n  def %s: Int then %d\n  def bad%d: Int then \"x\"\nend", cl.name, m, g.k(), n)
			} else {
				src = g.withErr(fmt.Sprintf("class %s\n  def %s: Int then %d\nend", cl.name, m, g.k()))
			}
			gh.probes = []string{fmt.Sprintf("println \"p #{%s.%s}\"", g.objOf(cl), m)}
			gh.define = fmt.Sprintf("class %s\n  def %s: Int then %d\nend\nprintln \"gd #{%s.%s}\"", cl.name, m, 30+g.k(), g.objOf(cl), m)
		case 5: // redefine an existing method with another body + error: the old body must stay
			if len(g.funcs) == 0 {
				continue
			}
			gh.kind = "rej-redef-body"
			f := c27Pick(r, g.funcs)
			src = g.withErr(fmt.Sprintf("def %s(a: Int): Int then a + 999", f))
			gh.probes = []string{fmt.Sprintf("println \"p #{%s(2)}\"", f)}
		case 6: // redefine an existing method with another return type: declared type must stay
			if len(g.funcs) == 0 {
				continue
			}
			gh.kind = "rej-redef-type"
			f := c27Pick(r, g.funcs)
			src = fmt.Sprintf("def %s(a: Int): String then \"s\"", f)
			if r.IntN(2) == 0 {
				src = g.withErr(src)
			}
			gh.probes = []string{fmt.Sprintf("var t%d: Int = %s(2)\nprintln \"p #{t%d}\"", n, f, n)}
		case 7: // using + error
			if len(g.mods) == 0 {
				continue
			}
			m := c27Pick(r, g.mods)
			if m.usedFn || m.usedK || m.usedCls {
				continue
			}
			gh.kind = "rej-using"
			src = g.withErr(fmt.Sprintf("using %s::*", m.name))
			gh.probes = []string{fmt.Sprintf("println \"p #{%s(1)}\"", m.fn), fmt.Sprintf("println \"p #{%s}\"", m.k), fmt.Sprintf("println \"p #{%s().q}\"", m.cls)}
		case 8: // reopen with a new instance variable + error
			if len(g.classes) == 0 {
				continue
			}
			gh.kind = "rej-reopen-ivar"
			cl := c27Pick(r, g.classes)
			p := c27Pick(r, []string{"a", "z"})
			src = g.withErr(fmt.Sprintf("class %s\n  var @%sg%d: Int?\n  def gget%d: Int? then @%sg%d\nend", cl.name, p, n, n, p, n))
			o := g.objOf(cl)
			gh.probes = []string{fmt.Sprintf("println \"p #{%s.gget%d}\"", o, n), fmt.Sprintf("println \"p #{%s.get} #{%s.bump}\"", o, o)}
		case 9: // assign a value of another type to an existing local
			if len(g.locals) == 0 {
				continue
			}
			gh.kind = "rej-local-retype"
			a := c27Pick(r, g.locals)
			if r.IntN(2) == 0 {
				src = fmt.Sprintf("%s = \"str\"", a)
			} else {
				src = fmt.Sprintf("%s := \"str\"\n%s", a, g.errStmt()) // shadow with another type, then fail
			}
			gh.probes = []string{fmt.Sprintf("println \"p #{%s + 1}\"", a), fmt.Sprintf("var t%d: Int = %s\nprintln \"p #{t%d}\"", n, a, n)}
		case 10: // plain type error, nothing defined
			gh.kind = "rej-plain"
			src = g.errStmt()
			gh.probes = nil
		case 11: // parse error after a complete definition
			gh.kind = "rej-parse"
			name := fmt.Sprintf("GP%d", n)
			src = fmt.Sprintf("def gpf%d: Int then 1\nclass %s\n  def ok: Int then 1\n", n, name)
			gh.probes = []string{fmt.Sprintf("println \"p #{%s().ok}\"", name), fmt.Sprintf("println \"p #{gpf%d()}\"", n)}
		case 12: // module + error
			gh.kind = "rej-module"
			name := fmt.Sprintf("GM%d", n)
			src = g.withErr(fmt.Sprintf("module %s\n  def gh: Int then %d\n  const GK = %d\nend", name, g.k(), g.k()))
			gh.probes = []string{fmt.Sprintf("println \"p #{%s.gh}\"", name), fmt.Sprintf("println \"p #{%s::GK}\"", name)}
			gh.define = fmt.Sprintf("module %s\n  def gh: Int then %d\nend\nprintln \"gd #{%s.gh}\"", name, 30+g.k(), name)
		case 13: // subclass of an existing class + error
			if len(g.classes) == 0 {
				continue
			}
			gh.kind = "rej-subclass"
			cl := c27Pick(r, g.classes)
			name := fmt.Sprintf("GD%d", n)
			src = g.withErr(fmt.Sprintf("class %s < %s\n  def s: Int then get + 1\nend", name, cl.name))
			gh.probes = []string{fmt.Sprintf("println \"p #{%s(1).s}\"", name)}
			gh.define = fmt.Sprintf("class %s < %s\n  def s: Int then get + %d\nend\nprintln \"gd #{%s(1).s}\"", name, cl.name, 30+g.k(), name)
		case 14: // include an existing mixin into an existing class + error
			if len(g.classes) == 0 || len(g.mixins) == 0 {
				continue
			}
			cl := c27Pick(r, g.classes)
			mx := c27Pick(r, g.mixins)
			if cl.mixins[mx[0]] {
				continue
			}
			gh.kind = "rej-include"
			src = g.withErr(fmt.Sprintf("class %s\n  include %s\nend", cl.name, mx[0]))
			o := g.objOf(cl)
			gh.probes = []string{fmt.Sprintf("println \"p #{%s.%s}\"", o, mx[1]), fmt.Sprintf("println \"p #{%s.get} #{%s.bump}\"", o, o)}
		case 15: // the error is inside the body of the only method
			gh.kind = "rej-def-body"
			f := fmt.Sprintf("gb%d", n)
			src = fmt.Sprintf("def %s: Int then nosuch%d()", f, n)
			gh.probes = []string{fmt.Sprintf("println \"p #{%s()}\"", f)}
			gh.define = fmt.Sprintf("def %s: Int then %d\nprintln \"gd #{%s()}\"", f, 30+g.k(), f)
		case 16: // redefine a method of an existing class with another return type + error
			if len(g.classes) == 0 {
				continue
			}
			gh.kind = "rej-reopen-redef"
			cl := c27Pick(r, g.classes)
			src = g.withErr(fmt.Sprintf("class %s\n  def rm: Int then 777\nend", cl.name))
			o := g.objOf(cl)
			gh.probes = []string{fmt.Sprintf("println \"p #{%s.rm} #{%s.get}\"", o, o)}
		}
		g.ghosts = append(g.ghosts, gh)
		if len(gh.probes) > 0 {
			g.pending = gh
		}
		return c27Input{Kind: gh.kind, Src: src, Expect: "rej"}
	}
}

func c27Wrap(stmt string) string { return "do\n  " + stmt + "\ncatch c27e\nend" }

// accepted inputs that raise midway: side effects up to the error persist
func (g *c27Gen) genErr() c27Input {
	r := g.r
	tail := ""
	if r.IntN(2) == 0 {
		tail = "\nprintln \"unreached\""
	}
	mk := func(kind, prefix, stmt string) c27Input {
		g.afterErr = true
		return c27Input{Kind: kind, Src: prefix + stmt + tail, Hist: prefix + c27Wrap(stmt), Expect: "err"}
	}
	if !g.thrower {
		g.thrower = true
		return mk("rt-def-throw", fmt.Sprintf("def thrower(x: Int): Int\n  throw unchecked x\nend\nprintln \"t\"\n"), fmt.Sprintf("thrower(%d)", g.k()))
	}
	for {
		n := g.id()
		switch r.IntN(7) {
		case 0:
			pre := fmt.Sprintf("println \"m%d\"\n", n)
			if len(g.locals) > 0 {
				a := c27Pick(r, g.locals)
				pre += fmt.Sprintf("%s = %s + 1\n", a, a)
			}
			return mk("rt-top-throw", pre, fmt.Sprintf("throw unchecked %d", g.k()))
		case 1: // temporaries on the value stack when the error is raised; a new local declared before
			a := fmt.Sprintf("a%d", n)
			g.locals = append(g.locals, a)
			return mk("rt-temps", fmt.Sprintf("%s := %d\n", a, g.k()), fmt.Sprintf("println([1, 2, thrower(%d)].inspect)", g.k()))
		case 2: // method mutates the receiver, then raises
			o, _ := g.anyObj()
			if o == "" {
				continue
			}
			return mk("rt-method-sidefx", "", o+".bumpfail")
		case 3: // assignment whose right side raises
			if len(g.locals) == 0 {
				continue
			}
			a := c27Pick(r, g.locals)
			return mk("rt-assign", "", fmt.Sprintf("%s = %s + thrower(%d)", a, a, g.k()))
		case 4: // raise below several frames; the input also defines the recursive method
			return mk("rt-deep", fmt.Sprintf("def deep%d(i: Int): Int\n  if i == 0 then return thrower(%d)\n  1 + deep%d(i - 1)\nend\n", n, g.k(), n), fmt.Sprintf("println deep%d(%d)", n, 3+r.IntN(12)))
		case 5: // raise inside string interpolation
			return mk("rt-interp", "", fmt.Sprintf("println \"x #{%s + thrower(%d)}\"", g.intExpr(1), g.k()))
		case 6: // the input defines a class, then raises at top level: the class persists
			src, cl := g.newClass()
			src += g.newObj(cl)
			return mk("rt-class-throw", src, fmt.Sprintf("thrower(%d)", g.k()))
		}
	}
}

func (g *c27Gen) stateProbe() c27Input {
	var parts []string
	for _, a := range g.locals {
		parts = append(parts, fmt.Sprintf("#{%s}", a))
	}
	for _, cl := range g.classes {
		for _, o := range cl.objs {
			parts = append(parts, fmt.Sprintf("#{%s.get}", o))
		}
	}
	src := fmt.Sprintf("println \"st %s\"", strings.Join(parts, " "))
	if g.r.IntN(2) == 0 { // a new local after the error must get a fresh slot
		a := fmt.Sprintf("a%d", g.id())
		src = fmt.Sprintf("%s := %d\n%s\nprintln \"st2 #{%s}\"", a, g.k(), src, a)
		g.locals = append(g.locals, a)
	}
	return g.acc("state-probe", src)
}

func c27GenSession(r *rand.Rand) []c27Input {
	g := &c27Gen{r: r}
	n := 3 + r.IntN(10)
	var out []c27Input
	if r.IntN(3) > 0 {
		out = append(out, g.setup())
	}
	for len(out) < n {
		switch {
		case g.pending != nil && r.IntN(5) > 0:
			gh := g.pending
			g.pending = nil
			// the probe is planned to be rejected when it names something only the rejected input defined
			exp := "rej"
			switch gh.kind {
			case "rej-redef-body", "rej-redef-type", "rej-local-retype", "rej-reopen-redef":
				exp = "acc"
			}
			p := c27Pick(r, gh.probes)
			if strings.Contains(p, ".get}") {
				exp = "acc"
			}
			out = append(out, c27Input{Kind: "probe:" + gh.kind, Src: p, Expect: exp})
		case g.afterErr && r.IntN(4) > 0:
			g.afterErr = false
			out = append(out, g.stateProbe())
		default:
			g.pending, g.afterErr = nil, false
			x := r.IntN(100)
			switch {
			case x < 52:
				out = append(out, g.genAcc())
			case x < 80:
				out = append(out, g.genRej())
			case x < 90:
				out = append(out, g.genErr())
			case x < 94 && len(g.ghosts) > 0: // a later probe of an old ghost
				gh := c27Pick(r, g.ghosts)
				if len(gh.probes) == 0 {
					continue
				}
				out = append(out, c27Input{Kind: "probe:" + gh.kind, Src: c27Pick(r, gh.probes), Expect: "any"})
			case len(g.ghosts) > 0: // define properly what a rejected input tried to define
				gh := c27Pick(r, g.ghosts)
				if gh.define == "" {
					continue
				}
				out = append(out, c27Input{Kind: "define:" + gh.kind, Src: gh.define, Expect: "acc"})
				gh.define, gh.probes = "", nil
			default:
				out = append(out, g.genAcc())
			}
		}
	}
	return out
}

// ---------------------------------------------------------------------------------------------

func c27Case(c *Ctx, i int, r *rand.Rand) {
	inputs := c27GenSession(r)
	var st c27Stats
	f := c27Judge(inputs, &st)
	c.Eval(st.verdicts + st.stdouts)
	c.Count("sessions", 1)
	c.Count("inputs", int64(len(inputs)))
	c.Count("batch_runs", st.batchRuns)
	c.Count("verdicts_compared", st.verdicts)
	c.Count("stdout_segments_compared", st.stdouts)
	c.Count("echo_values_compared", st.echoes)
	c.Count("inputs_accepted", st.accepted)
	c.Count("inputs_rejected", st.rejected)
	c.Count("inputs_raised_at_run_time", st.raised)
	c.Count("gen_planned_accept_but_rejected", st.mispredictAcc)
	c.Count("gen_planned_reject_but_accepted", st.mispredictRej)
	c.Count("gen_planned_error_mismatch", st.mispredictErr)
	c.Count("sessions_cut_by_unplanned_error", st.unplannedErr)
	c.Count("sessions_cut_model_ended_early", st.modelDiedEarly)
	var kinds []string
	for _, in := range inputs {
		kinds = append(kinds, in.Kind)
		c.Distinct("kind|" + in.Kind)
		if strings.HasPrefix(in.Kind, "probe:") {
			c.Count("leak_probes", 1)
		}
	}
	for j := 1; j < len(kinds); j++ {
		c.Distinct("pair|" + kinds[j-1] + ">" + kinds[j])
	}
	c.Distinct("seq|" + strings.Join(kinds, ">"))
	if i%500 == 0 {
		c.Sample(map[string]any{"case": i, "session": c27Render(inputs)})
	}
	if f == nil {
		return
	}
	c.Count("discrepancies", 1)
	if sig0 := c27Sig(inputs, f); c.matchKnown("C27:"+sig0) != nil {
		// already explained by a listed finding: no need to minimise
		c.Violate(sig0, f.Detail, i, nil)
		return
	}
	min, mf := c27Minimise(inputs, f)
	sig := c27Sig(min, mf)
	c.Violate(sig, mf.Detail+"\nminimised session:\n"+c27Render(min)+mf.Stack, i, map[string]any{"inputs": min})
}

func init() {
	register(&Check{
		ID: "C27",
		Rule: "each case is a seeded REPL session of 3..12 inputs over a generated vocabulary (top-level locals incl. typed/shadowing/closures, def and redefinition, classes with ivars/constants/methods, reopening (new method, redefined method, new ivar, include), subclasses, modules, using, constants; inputs built to be rejected after part of them was checked: class body with a good and an ill-typed method, def/const/local/module/subclass/using/include/reopen followed or preceded by an ill-typed statement, redefinitions with another body or type, parse error after a definition; inputs that raise midway with side effects before the error; probes naming what a rejected input tried to define or change, and proper definitions of the same names later). " +
			"The session is run through the REPL's API sequence (persistent checker in incremental mode with abort checks, CheckSourceBytecode, persistent thread InterpretREPL, ClearErrors/ResetError). Oracle per input k: accept/reject verdict == verdict of the batch program made of the inputs accepted so far + input k; stdout of step k == the part of the batch program's stdout after the marker printed in front of input k; uncaught error inspect equal; echoed value == value of the batch program (unless it contains an address). " +
			"Discrepant sessions are delta-minimised (inputs dropped) and signed by what differs + kind of the input + non-basic kinds of the remaining history. distinct = input kinds, adjacent kind pairs and kind sequences.",
		NumCases: func(tier string) int {
			if tier == "thorough" {
				return 1500
			}
			return 300
		},
		Case:        c27Case,
		MinCounters: map[string]int64{"sessions": 250, "inputs_rejected": 350, "leak_probes": 150, "stdout_segments_compared": 800, "inputs_raised_at_run_time": 50},
		Assumptions: []string{
			"the batch pipeline (fresh checker + fresh VM on one source) is the reference; its own correctness is the subject of other properties",
			"restated: after an accepted input that raises at run time the batch program would have ended; the model continues with the raising statement wrapped in do/catch and the unreachable rest of that input dropped; locals whose initialiser raised and declarations after the raising statement are not generated",
			"restated: only the output of the current input is compared (marker-delimited); earlier output of the batch program may differ by design because method definitions are hoisted (a later redefinition is in force from the start of a batch program); methods that get redefined are only used in print statements so that the state cannot depend on them",
			"names imported by using are unique to their module, so hoisting using statements cannot change the meaning of earlier inputs",
		},
		CPUBudget: 120,
	})
	// repl <file>: inputs separated by lines "---"; prints what each input does in a REPL session and what the judge says
	subcommands["repl"] = func(args []string) {
		b, err := os.ReadFile(args[0])
		if err != nil {
			panic(err)
		}
		var inputs []c27Input
		for _, p := range strings.Split(string(b), "\n---\n") {
			if p = strings.TrimSpace(p); p != "" {
				inputs = append(inputs, c27Input{Kind: "manual", Src: p, Expect: "any"})
			}
		}
		s := newReplSession()
		for i, in := range inputs {
			st := s.eval(in.Src)
			fmt.Printf("[%d] %s\n", i, strings.ReplaceAll(in.Src, "\n", "\n    "))
			switch {
			case st.Panic != "":
				fmt.Printf("  PANIC(%s) %s\n%s\n", st.Phase, st.Panic, st.Stack)
			case st.Rejected:
				fmt.Printf("  REJECTED %s\n", strings.ReplaceAll(st.Diags, "\n", "\n    "))
			default:
				fmt.Printf("  out=%q echo=%q err=%q\n", st.Stdout, st.Echo, st.Err)
			}
		}
		if f := c27Judge(inputs, nil); f != nil {
			fmt.Printf("JUDGE: %s at input %d\n%s\n", f.What, f.At, f.Detail)
		} else {
			fmt.Println("JUDGE: no discrepancy")
		}
	}
	// c27gen <seed> <n>: print generated sessions
	subcommands["c27gen"] = func(args []string) {
		var seed, n int
		fmt.Sscan(args[0], &seed)
		fmt.Sscan(args[1], &n)
		for i := 0; i < n; i++ {
			fmt.Printf("===== case %d\n%s", i, c27Render(c27GenSession(caseRng(int64(seed), "C27", i))))
		}
	}
}
