package main

// C09 — program families fed to both back ends. Every template is one small program whose
// `construct` name is the root-cause class used in violation signatures.

import (
	"fmt"
	"math/rand/v2"
	"strings"
)

type c09Item struct {
	Construct string
	Src       string
	GP        *gProg // set for G-prog programs (delta-minimisable)
	ErrorCase bool   // the program is expected to end with an uncaught error
}

var c09IntPool = []string{"0", "1", "-1", "2", "7", "-7", "10", "63", "64", "100", "-100",
	"4611686018427387903", "4611686018427387904", "-4611686018427387904", "9223372036854775807", "9223372036854775808",
	"-9223372036854775808", "-9223372036854775809", "18446744073709551615", "18446744073709551616", "18446744073709551617",
	"-18446744073709551616", "1000000000000000000000000000000", "-1000000000000000000000000000000"}

var c09SmallPool = []string{"0", "1", "-1", "2", "3", "5", "7", "-7", "10", "12", "63", "-100"}

func c09pick(r *rand.Rand, pool []string) string { return pool[r.IntN(len(pool))] }

func c09lit(s string) string {
	if strings.HasPrefix(s, "-") {
		return "(" + s + ")"
	}
	return s
}

type c09Template struct {
	name string
	gen  func(r *rand.Rand) (construct string, src string)
	err  bool
}

func c09sub(tpl string, kv ...string) string { return strings.NewReplacer(kv...).Replace(tpl) }

var c09IntOps = []struct{ op, ret, name string }{
	{"+", "Int", "add"}, {"-", "Int", "sub"}, {"*", "Int", "mul"}, {"/", "Int", "div"}, {"%", "Int", "mod"}, {"**", "Int", "pow"},
	{"<", "Bool", "lt"}, {"<=", "Bool", "le"}, {">", "Bool", "gt"}, {">=", "Bool", "ge"}, {"==", "Bool", "eq"}, {"!=", "Bool", "ne"},
	{"&", "Int", "and"}, {"|", "Int", "or"}, {"^", "Int", "xor"}, {"<<", "Int", "shl"}, {">>", "Int", "shr"}, {"<=>", "Int", "cmp"},
}

var c09FloatOps = []struct{ op, ret, name string }{
	{"+", "Float", "add"}, {"-", "Float", "sub"}, {"*", "Float", "mul"}, {"/", "Float", "div"},
	{"<", "Bool", "lt"}, {"<=", "Bool", "le"}, {">", "Bool", "gt"}, {">=", "Bool", "ge"}, {"==", "Bool", "eq"},
}

var c09Templates = []c09Template{
	// ---- Int operators (three groups) through methods and on locals: see c09IntGroupTemplates ----
	// ---- counting loops whose bounds are (big) Ints ----
	{name: "int-count-loop", gen: func(r *rand.Rand) (string, string) {
		base := c09pick(r, c09IntPool)
		n := 1 + r.IntN(4)
		var sb strings.Builder
		fmt.Fprintf(&sb, "a := %s\nlim := a + %d\n", base, n)
		for k, cmp := range []string{"<=", "<", "!="} {
			fmt.Fprintf(&sb, "i%d := a\ncount%d := 0\nwhile i%d %s lim\n  count%d += 1\n  i%d += 1\nend\nprintln \"%s count #{count%d} i #{i%d}\"\n", k, k, k, cmp, k, k, cmp, k, k)
		}
		sb.WriteString("j := lim\ndown := 0\nuntil j <= a\n  j -= 1\n  down += 1\nend\nprintln \"down #{down} j #{j}\"\nq := lim\nup := 0\nuntil q >= lim + 2\n  q += 1\n  up += 1\nend\nprintln \"up #{up} q #{q}\"\n")
		return "int-count-loop", sb.String()
	}},
	{name: "int-unary-incdec", gen: func(r *rand.Rand) (string, string) {
		a := c09pick(r, c09IntPool)
		src := c09sub(`a := A
b := -a
println "neg #{b}"
c := +a
println "pos #{c}"
println "not #{~a}"
a++
println "inc #{a}"
a--
a--
println "dec #{a}"
a += 5
a -= 2
a *= 3
println "cmp #{a}"
a /= 2
a %= 1000
println "cmp2 #{a}"
a **= 2
a <<= 3
a >>= 1
a |= 5
a &= 4095
a ^= 9
println "cmp3 #{a}"
`, "A", a)
		return "int-unary-incdec", src
	}},
	{name: "float-op", gen: func(r *rand.Rand) (string, string) {
		o := c09FloatOps[r.IntN(len(c09FloatOps))]
		fl := []string{"0.0", "1.5", "-2.25", "3.0", "100.125", "0.5", "1e10", "-7.75"}
		var sb strings.Builder
		fmt.Fprintf(&sb, "def opf(a: Float, b: Float): %s\n  a %s b\nend\n", o.ret, o.op)
		for k := 0; k < 5; k++ {
			a, b := c09pick(r, fl), c09pick(r, fl)
			if o.op == "/" && b == "0.0" {
				b = "0.5"
			}
			fmt.Fprintf(&sb, "println \"r%d #{opf(%s, %s)}\"\n", k, c09lit(a), c09lit(b))
			fmt.Fprintf(&sb, "x%d := %s\ny%d := %s\nprintln \"l%d #{x%d %s y%d}\"\n", k, a, k, b, k, k, o.op, k)
		}
		return "float-op:" + o.name, sb.String()
	}},
	{name: "float-int-mixed", gen: func(r *rand.Rand) (string, string) {
		a := c09pick(r, c09SmallPool)
		src := c09sub(`i := A
f := 2.5
println "m1 #{f + i}"
println "m2 #{f * i}"
println "m3 #{i.to_float + f}"
println "m4 #{f.to_int + i}"
println "m5 #{f > i}"
println "m6 #{(f - 0.5).to_int == 2}"
`, "A", a)
		return "float-int-mixed", src
	}},
	{name: "sized-int-op", gen: func(r *rand.Rand) (string, string) {
		suf := []string{"i8", "i16", "i32", "i64", "u8", "u16", "u32", "u64"}[r.IntN(8)]
		typ := map[string]string{"i8": "Int8", "i16": "Int16", "i32": "Int32", "i64": "Int64", "u8": "UInt8", "u16": "UInt16", "u32": "UInt32", "u64": "UInt64"}[suf]
		op := []string{"+", "-", "*", "/", "%", "<", "==", "&", "|", "^"}[r.IntN(10)]
		ret := typ
		if op == "<" || op == "==" {
			ret = "Bool"
		}
		a, b := 1+r.IntN(120), 1+r.IntN(120)
		src := c09sub(`def opf(a: TYP, b: TYP): RET
  a OP b
end
println "r #{opf(ASUF, BSUF)}"
x := ASUF
y := BSUF
println "l #{x OP y}"
println "w #{opf(100SUF, 100SUF)}"
`, "TYP", typ, "RET", ret, "OP", op, "SUF", suf, "A", fmt.Sprint(a), "B", fmt.Sprint(b))
		return "sized-int-op:" + typ + ":" + op, src
	}},
	// ---- strings ----
	{name: "string-ops", gen: func(r *rand.Rand) (string, string) {
		w := []string{"abc", "Hello", "", "zażółć", "a b", "x"}
		a, b := c09pick(r, w), c09pick(r, w)
		src := c09sub(`a := "AA"
b := "BB"
println a + b
println "len #{a.length} #{b.length}"
println a.uppercase
println b.lowercase
println "eq #{a == b} lt #{a < b}"
println "rep #{a * 2}"
println "emp #{a.is_empty}"
c := a + "-" + b
println c
println "ch #{c.char_count}"
`, "AA", a, "BB", b)
		return "string-ops", src
	}},
	{name: "string-interp", gen: func(r *rand.Rand) (string, string) {
		a := c09pick(r, c09IntPool)
		src := c09sub(`i := A
f := 1.5
s := "str"
y := :sym
c := `+"`c`"+`
t := true
println "i=#{i} f=#{f} s=#{s} y=#{y} c=#{c} t=#{t} n=#{nil}"
println "sum #{i + 1} #{i * 2} #{f * 2.0} #{s + s}"
println i.inspect
println f.inspect
println s.inspect
println y.inspect
println c.inspect
println t.inspect
`, "A", a)
		return "string-interp", src
	}},
	{name: "char-symbol", gen: func(r *rand.Rand) (string, string) {
		src := "a := `a`\nb := `b`\nprintln \"lt #{a < b} eq #{a == a}\"\nprintln a.to_string + b.to_string\nprintln \"up #{a.uppercase}\"\ns := :foo\nprintln \"sym #{s == :foo} #{s == :bar}\"\nprintln s.to_string\n"
		return "char-symbol", src
	}},
	// ---- control flow ----
	{name: "if-unless", gen: func(r *rand.Rand) (string, string) {
		a := c09pick(r, c09SmallPool)
		src := c09sub(`def cls(x: Int): String
  if x < 0
    "neg"
  else if x == 0
    "zero"
  else if x < 10
    "small"
  else
    "big"
  end
end
x := A
println cls(x)
println cls(x - 10)
println cls(x * 5)
unless x > 3
  println "not>3"
else
  println ">3"
end
r := if x % 2 == 0 then "even" else "odd"
println r
println("m") if x > 0
println("u") unless x > 0
v := if x > 100 then 5 else x + 1
println "v #{v}"
`, "A", a)
		return "if-unless", src
	}},
	{name: "while-until-loop", gen: func(r *rand.Rand) (string, string) {
		n := 2 + r.IntN(5)
		src := c09sub(`i := 0
s := 0
while i < N
  i += 1
  next := i * 2
  continue if i == 2
  s += next
end
println "w #{s} #{i}"
until i == 0
  i -= 1
  break if i == 1
end
println "u #{i}"
k := 0
v := loop
  k += 1
  break k * 10 if k > N
end
println "l #{v}"
$outer: loop
  k -= 1
  j := 0
  while true
    j += 1
    break[outer] if k < 2
    continue[outer] if j > 1
  end
end
println "o #{k}"
fornum q := 0; q < N; q += 1
  println "q #{q}"
end
`, "N", fmt.Sprint(n))
		return "while-until-loop", src
	}},
	{name: "for-in-range-literal", gen: func(r *rand.Rand) (string, string) {
		op := []string{"...", "..<", "<..", "<.<"}[r.IntN(4)]
		lo := r.IntN(4)
		hi := lo + r.IntN(5)
		src := c09sub(`s := 0
n := 0
for i in LOOPHI
  s += i
  n += 1
end
println "s #{s} n #{n}"
for j in LOOPHI
  continue if j % 2 == 0
  println "j #{j}"
  break if j > 4
end
`, "LOOPHI", fmt.Sprintf("%d%s%d", lo, op, hi))
		return "for-in-range-literal:" + op, src
	}},
	{name: "for-in-endless-range", gen: func(r *rand.Rand) (string, string) {
		op := []string{"...", "<.."}[r.IntN(2)]
		src := c09sub(`rg := 3OP
n := 0
for i in rg
  n += i
  break if i > 6
end
println "n #{n}"
for k in 2OP
  break if k >= 5
  println "k #{k}"
end
`, "OP", op)
		return "for-in-endless-range:" + op, src
	}},
	{name: "for-in-collection", gen: func(r *rand.Rand) (string, string) {
		kind := r.IntN(4)
		lit := []string{"[3, 1, 4, 1, 5]", "%[3, 1, 4, 1, 5]", "^[3, 1, 4]", "[3, 1, 4, 1, 5]"}[kind]
		name := []string{"list", "tuple", "set", "list-break"}[kind]
		src := c09sub(`c := LIT
s := 0
for e in c
  s += e
  BRK
end
println "s #{s}"
`, "LIT", lit, "BRK", map[bool]string{true: "break if e == 4", false: "continue if e == 1"}[kind == 3])
		return "for-in-collection:" + name, src
	}},
	{name: "for-in-map-string", gen: func(r *rand.Rand) (string, string) {
		src := `m := { 1 => 10 }
for p in m
  println "k #{p.key} v #{p.value}"
end
n := 0
for ch in "héllo"
  n += 1
  println ch.to_string
end
println "n #{n}"
`
		return "for-in-map-string", src
	}},
	{name: "switch", gen: func(r *rand.Rand) (string, string) {
		src := `def k(x: Int): String
  switch x
  case 1 then "one"
  case 2 || 3 then "two-three"
  case 4...6 then "four-six"
  case > 100 then "big"
  case < 0 then "neg"
  else "other"
  end
end
println k(1)
println k(3)
println k(5)
println k(101)
println k(-4)
println k(50)
def s(v: String | Int | nil): String
  switch v
  case "a" then "str-a"
  case String() then "str"
  case Int() as i then "int #{i + 1}"
  case nil then "nil"
  else "never"
  end
end
println s("a")
println s("b")
println s(4)
println s(nil)
`
		return "switch", src
	}},
	{name: "logical-ops", gen: func(r *rand.Rand) (string, string) {
		a := c09pick(r, c09SmallPool)
		src := c09sub(`def t(k: Int): Bool
  println "t#{k}"
  true
end
def f(k: Int): Bool
  println "f#{k}"
  false
end
def n(k: Int, v: Int): Int?
  println "n#{k}"
  return nil if v % 2 == 0
  v
end
x := A
println "a #{t(1) && f(2)}"
println "b #{f(3) && t(4)}"
println "c #{f(5) || t(6)}"
println "d #{t(7) || f(8)}"
println "e #{n(9, x) ?? 77}"
println "g #{n(10, x + 1) ?? 78}"
println "h #{!t(11)}"
println "i #{(x > 2) && (x < 9) || f(12)}"
var y: Int? = nil
y ||= 5
println "y #{y}"
y &&= 6
println "y #{y}"
var z: Int? = n(13, x)
z ??= 9
println "z #{z}"
`, "A", a)
		return "logical-ops", src
	}},
	{name: "nil-safe", gen: func(r *rand.Rand) (string, string) {
		src := `def m(x: Int): String?
  return nil if x == 0
  "s#{x}"
end
a := m(0)?.length
println "a #{a}"
b := m(12)?.length
println "b #{b}"
v := m(0)
if v
  println v
else
  println "nil!"
end
w := m(3)
if w
  println w.uppercase
end
println(m(0) ?? "dflt")
println m(5).must
`
		return "nil-safe", src
	}},
	{name: "do-catch", gen: func(r *rand.Rand) (string, string) {
		where := r.IntN(2)
		body := `do
    a := [1]
    println "in #{a[x]}"
    RET
  catch Std::IndexError() as e
    println "caught #{e.message}"
    -1
  finally
    println "fin"
  end`
		var src string
		if where == 0 {
			src = "def f(x: Int): Int\n  " + strings.Replace(body, "RET", "x + 10", 1) + "\nend\nprintln \"r #{f(0)}\"\nprintln \"r #{f(3)}\"\n"
		} else {
			src = "x := 3\nr := " + strings.Replace(strings.ReplaceAll(body, "\n  ", "\n"), "RET", "x + 10", 1) + "\nprintln \"r #{r}\"\n"
		}
		return "do-catch:" + []string{"method", "top-level"}[where], src
	}},
	{name: "do-finally-no-error", gen: func(r *rand.Rand) (string, string) {
		src := `def f(x: Int): Int
  do
    println "body"
    return x * 2 if x > 1
    x + 1
  finally
    println "fin"
  end
end
println "r #{f(1)}"
println "r #{f(2)}"
i := 0
while i < 3
  i += 1
  do
    continue if i == 1
    break if i == 3
    println "i #{i}"
  finally
    println "f #{i}"
  end
end
`
		return "do-finally-no-error", src
	}},
	// ---- collections ----
	{name: "list-ops", gen: func(r *rand.Rand) (string, string) {
		src := c09sub(`b := [1, 2, 3]
b << 4
b[0] = AAA
b.push(9)
println "e #{b[1]} #{b[0]} #{b[-1]}"
println "len #{b.length}"
println "has #{b.contains(9)} #{b.contains(100)}"
c := b + [7]
println "c #{c.length} #{c[5]}"
b[1] += 5
b[2] *= 3
println "u #{b[1]} #{b[2]}"
var e: ArrayList[String] = []
e << "x"
println "e #{e.length} #{e[0]}"
`, "AAA", c09pick(r, c09SmallPool))
		return "list-ops", src
	}},
	{name: "list-closure-methods", gen: func(r *rand.Rand) (string, string) {
		src := `b := [1, 2, 3, 4]
d := b.map(|x: Int|: Int -> x * 2)
println "d #{d[0]} #{d[3]}"
f := b.filter(|x: Int|: Bool -> x % 2 == 0)
t := 0
for e in f
  t += e
end
println "t #{t}"
`
		return "list-closure-methods", src
	}},
	{name: "list-inspect", gen: func(r *rand.Rand) (string, string) {
		return "list-inspect", "b := [1, 2, 3]\nprintln b.inspect\nt := %[1, 2]\nprintln t.inspect\n"
	}},
	{name: "tuple-ops", gen: func(r *rand.Rand) (string, string) {
		src := `t := %[1, 2, 3]
println "e #{t[1]} #{t[-1]} len #{t.length}"
u := t + %[4]
println "u #{u.length} #{u[3]}"
w := %w[foo bar]
println "w #{w[0]} #{w[1]}"
y := %s[foo bar]
println "y #{y[0]}"
`
		return "tuple-ops", src
	}},
	{name: "hashmap-ops", gen: func(r *rand.Rand) (string, string) {
		src := `m := { 1 => 2, 3 => 4 }
println "g #{m[1]} #{m[3]} #{m[9]}"
m[5] = 6
m[1] = 7
println "len #{m.length} #{m[1]} #{m[5]}"
var h: HashMap[String, Int] = {}
h["a"] = 1
h["b"] = 2
ha := h["a"]
println "h #{ha} #{h.length}"
println "has #{m.contains_key(5)} #{m.contains_key(6)}"
rec := %{ 1 => "x" }
println "rec #{rec[1]}"
st := ^[1, 2, 2, 3]
println "set #{st.length} #{st.contains(2)} #{st.contains(5)}"
`
		return "hashmap-ops", src
	}},
	{name: "range-ops", gen: func(r *rand.Rand) (string, string) {
		op := []string{"...", "..<", "<..", "<.<"}[r.IntN(4)]
		src := c09sub(`rg := 2OP8
println "s #{rg.start} e #{rg.end}"
println "c #{rg.contains(2)} #{rg.contains(5)} #{rg.contains(8)} #{rg.contains(9)}"
`, "OP", op)
		return "range-ops:" + op, src
	}},
	// ---- methods, classes ----
	{name: "method-positional-named-args", gen: func(r *rand.Rand) (string, string) {
		src := `def pos(a: Int, b: Int, c: Int): Int
  a * 100 + b * 10 + c
end
println "p #{pos(1, 2, 3)}"
println "n #{pos(c: 1, a: 2, b: 3)}"
println "m #{pos(4, c: 5, b: 6)}"
`
		return "method-positional-named-args", src
	}},
	{name: "method-default-args", gen: func(r *rand.Rand) (string, string) {
		src := `def dflt(a: Int, b: Int = 5, c: Int = a + b): Int
  a * 100 + b * 10 + c
end
println "d #{dflt(1)} #{dflt(1, 2)} #{dflt(1, 2, 3)} #{dflt(1, c: 9)}"
`
		return "method-default-args", src
	}},
	{name: "method-rest-args", gen: func(r *rand.Rand) (string, string) {
		src := `def rest(a: Int, *b: Int): Int
  s := a
  for e in b
    s += e
  end
  s
end
println "r #{rest(1)} #{rest(1, 2, 3)}"
`
		return "method-rest-args", src
	}},
	{name: "recursion", gen: func(r *rand.Rand) (string, string) {
		n := 5 + r.IntN(20)
		src := c09sub(`def fib(n: Int): Int
  return n if n < 2
  fib(n - 1) + fib(n - 2)
end
def fact(n: Int): Int
  return 1 if n <= 1
  n * fact(n - 1)
end
def even(n: Int): Bool
  return true if n == 0
  odd(n - 1)
end
def odd(n: Int): Bool
  return false if n == 0
  even(n - 1)
end
println "fib #{fib(N)}"
println "fact #{fact(N + 10)}"
println "even #{even(N)}"
`, "N", fmt.Sprint(n))
		return "recursion", src
	}},
	{name: "class-attr", gen: func(r *rand.Rand) (string, string) {
		src := `class Foo
  attr a: Int
  init(@a); end
  def bar(x: Int): Int
    @a + x
  end
end
f := Foo(4)
println "bar #{f.bar(2)}"
f.a = 9
println "a #{f.a}"
`
		return "class-attr", src
	}},
	{name: "class-ivar-getter", gen: func(r *rand.Rand) (string, string) {
		src := `class Counter
  getter n: Int
  init(@n); end
  def bump(d: Int): Int
    @n = @n + d
    @n
  end
  def double: Int then @n * 2
end
c := Counter(1)
c.bump(2)
println "n #{c.n} #{c.bump(3)} #{c.double}"
d := Counter(10)
println "d #{d.n} c #{c.n}"
`
		return "class-ivar-getter", src
	}},
	{name: "class-inherit", gen: func(r *rand.Rand) (string, string) {
		src := `class A
  def hi: String then "A.hi"
  def who: String then "A"
end
class B < A
  def who: String then "B"
end
var x: A = B()
println x.hi
println x.who
println A().who
println B().hi
`
		return "class-inherit", src
	}},
	{name: "module-method", gen: func(r *rand.Rand) (string, string) {
		src := `module M
  def twice(x: Int): Int
    x * 2
  end
  def thrice(x: Int): Int then twice(x) + x
end
println "m #{M.twice(4)} #{M.thrice(5)}"
const LIM = 3
println "c #{LIM} #{M.twice(LIM)}"
`
		return "module-method", src
	}},
	{name: "mixin", gen: func(r *rand.Rand) (string, string) {
		src := `abstract mixin Greets
  def greet: String then "hi " + self.name
  sig name: String
end
class P
  include Greets
  def name: String then "P"
end
println P().greet
`
		return "mixin", src
	}},
	{name: "operator-method", gen: func(r *rand.Rand) (string, string) {
		src := `class V
  getter x: Int
  init(@x); end
  def +(o: V): V then V(@x + o.x)
  def -(o: V): V then V(@x - o.x)
  def <(o: V): Bool then @x < o.x
end
a := V(1) + V(2)
b := a - V(5)
println "x #{a.x} #{b.x} #{a < b} #{b < a}"
`
		return "operator-method", src
	}},
	{name: "closure-call", gen: func(r *rand.Rand) (string, string) {
		src := c09sub(`def top(x: Int): Int
  f := |y: Int|: Int -> x + y
  f(3)
end
println "top #{top(AAA)}"
g := |y: Int|: Int -> y * 2
println "g #{g(4)} #{g.call(5)}"
`, "AAA", c09pick(r, c09SmallPool))
		return "closure-call", src
	}},
	{name: "closure-capture", gen: func(r *rand.Rand) (string, string) {
		src := `n := 0
inc := |d: Int|: Int -> do
  n += d
  n
end
inc(2)
inc(3)
println "n #{n}"
def counter(start: Int): |d: Int|: Int
  c := start
  |d: Int|: Int -> do
    c += d
    c
  end
end
k := counter(10)
k(1)
println "k #{k(5)}"
k2 := counter(0)
println "k2 #{k2(1)} #{k(0)}"
fs := [|z: Int|: Int -> z + 1]
for i in 1...3
  fs << |z: Int|: Int -> z * i
end
println "fs #{fs[0].call(5)} #{fs[1].call(5)} #{fs[3].call(5)}"
`
		return "closure-capture", src
	}},
	{name: "closure-passed-to-std", gen: func(r *rand.Rand) (string, string) {
		src := `b := [1, 2, 3, 4]
k := 3
d := b.map(|x: Int|: Int -> x * k)
println "d #{d[0]} #{d[3]} #{d.length}"
`
		return "closure-passed-to-std", src
	}},
	{name: "bool-nil-coalesce", gen: func(r *rand.Rand) (string, string) {
		src := `def bf(v: Int): Bool?
  return nil if v % 3 == 0
  v % 3 == 1
end
println "a #{bf(3) ?? true} #{bf(4) ?? false} #{bf(5) ?? true}"
bf(6) ?? bf(7)
`
		return "bool-nil-coalesce", src
	}},
	// ---- uncaught errors (report + exit status) ----
	{name: "uncaught-index", err: true, gen: func(r *rand.Rand) (string, string) {
		depth := r.IntN(3)
		return "uncaught-error:index:" + fmt.Sprintf("depth%d", depth), c09ErrAtDepth(depth, "a := [1, 2]\nprintln \"v #{a[5]}\"")
	}},
	{name: "uncaught-zerodiv", err: true, gen: func(r *rand.Rand) (string, string) {
		depth := r.IntN(3)
		return "uncaught-error:zero-division:" + fmt.Sprintf("depth%d", depth), c09ErrAtDepth(depth, "z := 3\nz -= 3\nprintln \"v #{7 / z}\"")
	}},
	{name: "uncaught-must", err: true, gen: func(r *rand.Rand) (string, string) {
		depth := r.IntN(3)
		return "uncaught-error:must:" + fmt.Sprintf("depth%d", depth), c09ErrAtDepth(depth, "var o: Int? = nil\nprintln \"v #{o.must}\"")
	}},
	{name: "uncaught-as", err: true, gen: func(r *rand.Rand) (string, string) {
		depth := r.IntN(3)
		return "uncaught-error:as:" + fmt.Sprintf("depth%d", depth), c09ErrAtDepth(depth, "var o: Int | String = 3\ns := o as String\nprintln s")
	}},
	{name: "uncaught-in-loop-closure", err: true, gen: func(r *rand.Rand) (string, string) {
		src := `println "start"
f := |i: Int|: Int -> do
  a := [1, 2, 3]
  a[i]
end
for i in 0...5
  println "v #{f(i)}"
end
println "unreachable"
`
		return "uncaught-error:index:closure-in-loop", src
	}},
}

// c09ErrAtDepth wraps the failing statements in `depth` nested method calls.
func c09ErrAtDepth(depth int, stmts string) string {
	ind := func(s, p string) string { return p + strings.ReplaceAll(s, "\n", "\n"+p) }
	switch depth {
	case 0:
		return "println \"start\"\n" + stmts + "\nprintln \"unreachable\"\n"
	case 1:
		return "def inner(q: Int): Int\n  println \"inner\"\n" + ind(stmts, "  ") + "\n  q\nend\nprintln \"start\"\nprintln \"r #{inner(1)}\"\nprintln \"unreachable\"\n"
	default:
		return "def inner(q: Int): Int\n  println \"inner\"\n" + ind(stmts, "  ") + "\n  q\nend\ndef middle(q: Int): Int\n  println \"middle\"\n  w := inner(q + 1)\n  w + 1\nend\nclass Outer\n  def run(q: Int): Int\n    middle(q) + 1\n  end\nend\nprintln \"start\"\nprintln \"r #{Outer().run(1)}\"\nprintln \"unreachable\"\n"
	}
}

// ---- G-prog restricted to what the backend claims to translate ------------------------------------

// (`Bool? ?? Bool` does not compile natively: listed finding with its own template `bool-nil-coalesce`.)
// c09Strip removes throw and defer (the backend has no translation for them: "invalid expression
// node") and flattens do/catch/finally into body + finally (G-prog's only error source is throw).
func c09Strip(ss []gStmt) []gStmt { return c09StripIn(ss, false) }

// inFor: inside the body of a `for x in a...b` loop; `continue` is dropped there (avoid-rule for listed finding
// K6: continue in a for-in over a range literal never increments natively; template for-in-range-literal keeps reproducing it)
func c09StripIn(ss []gStmt, inFor bool) []gStmt {
	var out []gStmt
	for _, s := range ss {
		switch x := s.(type) {
		case sThrow, sDefer, sBoolCoalesce:
			continue
		case sContinue:
			if inFor {
				continue
			}
			out = append(out, s)
		case sTry:
			out = append(out, c09StripIn(x.body, inFor)...)
			if !endsAbruptly(out) {
				out = append(out, c09StripIn(x.finally, inFor)...)
			}
		case sIf:
			x.then, x.els = c09StripIn(x.then, inFor), c09StripIn(x.els, inFor)
			out = append(out, x)
		case sWhile:
			x.body = c09StripIn(x.body, inFor)
			out = append(out, x)
		case sFor:
			x.body = c09StripIn(x.body, true)
			out = append(out, x)
		case sLoop:
			x.body = c09StripIn(x.body, inFor)
			out = append(out, x)
		case sClosure:
			x.body = c09StripIn(x.body, false)
			out = append(out, x)
		default:
			out = append(out, s)
		}
		if endsAbruptly(out) {
			break
		}
	}
	return out
}

func c09GProg(r *rand.Rand, closures bool) *gProg {
	p := genProg(r, gKnobs{control: true, closures: closures, fns: 1 + r.IntN(2), depth: 2 + r.IntN(2), stmtsPer: 2 + r.IntN(2)})
	q := &gProg{main: c09Strip(p.main)}
	for _, f := range p.fns {
		nf := *f
		nf.body = c09Strip(f.body)
		if f.retClo != nil {
			rc := *f.retClo
			rc.body = c09Strip(rc.body)
			nf.retClo = &rc
		}
		q.fns = append(q.fns, &nf)
	}
	return q
}

func c09IntGroupTemplates() []c09Template {
	groups := []struct {
		name string
		ops  []int
	}{{"arith", []int{0, 1, 2, 3, 4, 5}}, {"cmp", []int{6, 7, 8, 9, 10, 11}}, {"bits", []int{12, 13, 14, 15, 16, 17}}}
	var out []c09Template
	for _, g := range groups {
		g := g
		operands := func(r *rand.Rand, op string, k int) (string, string) {
			a, b := c09pick(r, c09IntPool), c09pick(r, c09IntPool)
			if k%3 == 2 {
				b = a
			}
			switch op {
			case "/", "%":
				if b == "0" {
					b = "7"
				}
			case "**":
				b = fmt.Sprint(r.IntN(5))
			case "<<", ">>":
				b = fmt.Sprint(r.IntN(70))
			}
			return a, b
		}
		out = append(out, c09Template{name: "int-" + g.name + "-method", gen: func(r *rand.Rand) (string, string) {
			var sb strings.Builder
			for _, oi := range g.ops {
				o := c09IntOps[oi]
				ret := o.ret
				if o.op == "<=>" {
					ret = "Int?"
				}
				fmt.Fprintf(&sb, "def op_%s(a: Int, b: Int): %s\n  a %s b\nend\n", o.name, ret, o.op)
			}
			for _, oi := range g.ops {
				o := c09IntOps[oi]
				for k := 0; k < 4; k++ {
					a, b := operands(r, o.op, k+2)
					fmt.Fprintf(&sb, "println \"%s%d #{op_%s(%s, %s)}\"\n", o.name, k, o.name, c09lit(a), c09lit(b))
				}
			}
			return "int-" + g.name + "-method", sb.String()
		}})
		out = append(out, c09Template{name: "int-" + g.name + "-local", gen: func(r *rand.Rand) (string, string) {
			var sb strings.Builder
			n := 0
			for _, oi := range g.ops {
				o := c09IntOps[oi]
				for k := 0; k < 3; k++ {
					a, b := operands(r, o.op, k)
					n++
					fmt.Fprintf(&sb, "a%d := %s\nb%d := %s\n", n, a, n, b)
					if k == 1 && o.op != "**" && o.op != "<<" && o.op != ">>" && !((o.op == "/" || o.op == "%") && a == "0") {
						// equal operands built at run time (a BigInt equal to, but not identical with, the other)
						fmt.Fprintf(&sb, "b%d = a%d + 0\n", n, n)
					}
					fmt.Fprintf(&sb, "println \"%s%d #{a%d %s b%d}\"\n", o.name, k, n, o.op, n)
				}
			}
			return "int-" + g.name + "-local", sb.String()
		}})
	}
	return out
}

// for-in over a range VALUE (local, parameter, BigInt bounds): one template per range kind so that every quick
// run draws all four (one program holding all four kinds makes the backend panic with a nil dereference)
func c09RangeValueTemplates() []c09Template {
	var out []c09Template
	types := map[string]string{"...": "ClosedRange[Int]", "..<": "RightOpenRange[Int]", "<..": "LeftOpenRange[Int]", "<.<": "OpenRange[Int]"}
	for _, op := range []string{"...", "..<", "<..", "<.<"} {
		op := op
		out = append(out, c09Template{name: "for-in-range-value:" + op, gen: func(r *rand.Rand) (string, string) {
			lo := r.IntN(4)
			hi := lo + 1 + r.IntN(5)
			src := c09sub(`rg := RNG
s := 0
n := 0
for i in rg
  s += i
  n += 1
end
println "s #{s} n #{n}"
def total(q: QT): Int
  t := 0
  for e in q
    t += e
  end
  t
end
println "t #{total(rg)}"
b := BIG
rb := bOP(b + 3)
m := 0
for w in rb
  m += 1
end
println "m #{m}"
`, "RNG", fmt.Sprintf("%d%s%d", lo, op, hi), "OP", op, "BIG", c09pick(r, c09IntPool), "QT", types[op])
			return "for-in-range-value:" + op, src
		}})
	}
	return out
}

func init() {
	c09Templates = append(c09Templates, c09IntGroupTemplates()...)
	c09Templates = append(c09Templates, c09RangeValueTemplates()...)
}

// c09GenItem produces program k (global index over the whole run) : every 4th program is a G-prog program, the
// others walk round-robin through a seed-dependent permutation of the templates so that a quick run draws every
// template at least twice.
func c09GenItem(r *rand.Rand, k int, seed int64) c09Item {
	if k%4 == 3 {
		closures := r.IntN(4) == 0
		gp := c09GProg(r, closures)
		name := "gprog:control"
		if closures {
			name = "gprog:closures"
		}
		return c09Item{Construct: name, Src: gp.source(), GP: gp}
	}
	tk := k - k/4 // number of template programs before this one
	perm := rand.New(rand.NewPCG(uint64(seed), 0xC09)).Perm(len(c09Templates))
	t := c09Templates[perm[tk%len(perm)]]
	cons, src := t.gen(r)
	return c09Item{Construct: cons, Src: src, ErrorCase: t.err}
}
