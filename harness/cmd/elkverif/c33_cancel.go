package main

// C33: cancellation stops any running program.
//
// Runner half: compile a program the way the REPL does (checker with additional abort checks), run
// it on a VM thread whose Aborter wraps a cancellable context, cancel the context at a LOGICAL time
// (after N executed VM instructions, counted through vm.VerifInstructionHook, or when the program
// has become quiescent, i.e. is blocked) and observe what happens afterwards:
//   - how many instructions all threads of the run execute after the cancel (bound K),
//   - what InterpretTopLevel returns (must be Std::ExecutionAbortedError, never a value, no Go panic),
//   - whether instructions are still executed after the main thread has returned,
//   - if nothing is executed any more and the run does not return: the goroutine dump tells
//     whether the main goroutine is PARKED in a blocking operation (violation "hangs") or still
//     runnable in native code.
// Wall-clock time is used only to decide when to look (sampling period, quiescence), never as verdict.

import (
	"context"
	"fmt"
	"os"
	"regexp"
	"runtime"
	"runtime/debug"
	"strconv"
	"strings"
	"sync"
	"sync/atomic"
	"time"

	"github.com/elk-language/elk"
	"github.com/elk-language/elk/types/checker"
	"github.com/elk-language/elk/value"
	"github.com/elk-language/elk/vm"
)

// c33K is the logical promptness bound: instructions all threads of one run may execute after the
// cancel was issued. Generated loop bodies are < 400 instructions long between two abort polls and a
// run has at most 6 threads, unwinding runs a few finally/defer blocks.
const c33K = 20000

const (
	c33CancelQuiescent = int64(-1) // cancel once the program executes no instructions any more (blocked)
)

type c33run struct {
	total       atomic.Int64 // instructions executed by all threads of this run
	cancelAt    int64
	cancelled   atomic.Bool
	atCancel    atomic.Int64
	after       atomic.Int64 // instructions executed after the cancel was issued
	returned    atomic.Bool
	afterReturn atomic.Int64 // instructions executed after the main thread returned
	kill        atomic.Bool  // verdict reached: every thread of this run that reaches the hook exits
	cancel      context.CancelFunc
	fns         sync.Map        // *vm.BytecodeFunction -> true: functions first seen executing in this run
	timerDone   <-chan struct{} // deadline kinds: the context is made done by the Go runtime timer
	mainGID     atomic.Value    // string: id of the goroutine of the main VM thread
}

func (r *c33run) doCancel() {
	if r.cancelled.CompareAndSwap(false, true) {
		r.atCancel.Store(r.total.Load())
		r.cancel()
	}
}

var c33cur atomic.Pointer[c33run]
var c33dirty atomic.Pointer[[]*c33run] // earlier runs that left goroutines behind (hung / killed)

func c33Hook(fn *vm.BytecodeFunction, ip int, depth int) {
	cur := c33cur.Load()
	run := cur
	if dl := c33dirty.Load(); dl != nil && len(*dl) > 0 {
		if cur != nil {
			if _, ok := cur.fns.Load(fn); ok {
				goto found
			}
		}
		for _, d := range *dl {
			if _, ok := d.fns.Load(fn); ok {
				run = d
				goto found
			}
		}
	}
	if cur != nil {
		if _, ok := cur.fns.Load(fn); !ok {
			cur.fns.Store(fn, true)
		}
	}
found:
	if run == nil {
		return
	}
	if run.kill.Load() {
		runtime.Goexit()
	}
	n := run.total.Add(1)
	if run.timerDone != nil {
		if !run.cancelled.Load() {
			select {
			case <-run.timerDone:
				run.doCancel()
			default:
			}
		}
	} else if run.cancelAt >= 0 && n > run.cancelAt {
		run.doCancel()
	}
	if run.cancelled.Load() {
		run.after.Add(1)
		if run.returned.Load() {
			run.afterReturn.Add(1)
		}
	}
}

type c33Outcome struct {
	Rejected     bool
	Diag         string
	CompilePanic string

	Cancelled   bool   // cancel was issued before the main thread returned
	CancelMode  string // "count" | "quiescent" | "none"
	AtCancel    int64
	After       int64
	AfterReturn int64
	Total       int64
	Returned    bool
	Killed      bool // main goroutine was stopped by the monitor
	ErrIsAbort  bool
	HasErr      bool
	ErrInspect  string
	ValInspect  string
	Panic       string
	PanicStack  string
	Stdout      string
	Stderr      string

	RunsOn        bool   // > K instructions after cancel, main thread not returned
	Hang          bool   // parked after cancel, no instructions flowing
	HangState     string // goroutine state of the main goroutine, e.g. "chan receive"
	HangFrame     string // innermost elk frame of the parked goroutine
	HangStack     string
	NativeSpin    bool     // main goroutine runnable in native code, no VM instructions flowing
	ThreadsRunOn  bool     // > K instructions after main returned
	ThreadsParked []string // VM goroutines of `go` threads still parked after main returned
	NeverBlocked  bool     // quiescent mode: program ended by itself before a cancel could be issued
	Inconclusive  string
}

type c33Opts struct {
	CancelAt int64 // >=0: after that many instructions; c33CancelQuiescent
	Threads  int
	Queue    int
	// how the context becomes done: "cancel" (explicit), "parent" (parent context cancelled),
	// "deadline" (context.WithDeadline whose deadline is moved into the past by cancelling a
	// context that carries DeadlineExceeded as its error)
	CtxKind string
	// the program starts threads (go / async): observe them after the main thread returned
	HasThreads bool
}

var c33goroutineHdr = regexp.MustCompile(`^goroutine (\d+) \[([^\]]*)\]:`)

type c33g struct {
	id    string
	state string
	text  string
}

func c33Goroutines() []c33g {
	buf := make([]byte, 1<<20)
	for {
		n := runtime.Stack(buf, true)
		if n < len(buf) {
			buf = buf[:n]
			break
		}
		buf = make([]byte, 2*len(buf))
	}
	var out []c33g
	for _, blk := range strings.Split(string(buf), "\n\n") {
		m := c33goroutineHdr.FindStringSubmatch(blk)
		if m == nil {
			continue
		}
		st := m[2]
		if i := strings.Index(st, ","); i >= 0 {
			st = st[:i]
		}
		out = append(out, c33g{m[1], st, blk})
	}
	return out
}

func c33Parked(state string) bool {
	switch state {
	case "running", "runnable", "syscall":
		return false
	}
	return true
}

// innermost frame that belongs to the elk module
func c33ElkFrame(stack string) string {
	for _, ln := range strings.Split(stack, "\n") {
		if strings.HasPrefix(ln, "github.com/elk-language/elk/") {
			f := strings.TrimPrefix(ln, "github.com/elk-language/elk/")
			if i := strings.LastIndex(f, "("); i > 0 {
				f = f[:i]
			}
			return f
		}
	}
	return "?"
}

// c33MakeCtx returns the context of the run, the function that makes it done at the logical cancel
// time (nil for the deadline kinds: a real context.WithTimeout is used, because only contexts of the
// standard library propagate their cancellation synchronously to the child contexts the VM derives
// for go threads; the timer duration is derived from the seed, the instruction count at which it
// fired is observed by the hook) and a cleanup function.
func c33MakeCtx(kind string, timer time.Duration) (context.Context, context.CancelFunc, func()) {
	switch kind {
	case "parent":
		parent, cancelParent := context.WithCancel(context.Background())
		ctx, cancel := context.WithCancel(parent)
		return ctx, cancelParent, func() { cancel(); cancelParent() }
	case "deadline":
		ctx, cancel := context.WithTimeout(context.Background(), timer)
		return ctx, nil, cancel
	case "deadline-child":
		parent, cancelParent := context.WithTimeout(context.Background(), timer)
		ctx, cancel := context.WithCancel(parent)
		return ctx, nil, func() { cancel(); cancelParent() }
	default:
		ctx, cancel := context.WithCancel(context.Background())
		return ctx, cancel, cancel
	}
}

var c33runMu sync.Mutex

// c33Exec runs one program under the monitor.
func c33Exec(src string, o c33Opts) (out *c33Outcome) {
	c33runMu.Lock()
	defer c33runMu.Unlock()
	out = &c33Outcome{}
	elk.InitGlobalEnvironment()
	// Earlier cases of this worker that reproduce a listed uncancellable operation leave tasks parked for ever on
	// the process-wide default thread pool, which the checker also uses to expand macros: once every default worker
	// is parked, the next program with a macro call would block in the checker (a harness artefact of running many
	// programs in one process). Every case therefore starts with a fresh default pool; the parked workers are leaked.
	*vm.DefaultThreadPool = *vm.NewThreadPool(vm.DEFAULT_THREAD_POOL_SIZE, vm.DEFAULT_THREAD_POOL_QUEUE_SIZE)
	var chunk *vm.BytecodeFunction
	func() {
		defer func() {
			if r := recover(); r != nil {
				out.CompilePanic = fmt.Sprint(r) + "\n" + string(debug.Stack())
			}
		}()
		tc := checker.New()
		tc.SetAdditionalAbortChecks(true)
		var dl = tc.ClearErrors
		_ = dl
		c, diags := tc.CheckSourceBytecode("main.elk", src)
		if diags.IsFailure() {
			out.Rejected = true
			out.Diag = diagString(diags)
			return
		}
		chunk = c
	}()
	if chunk == nil {
		return out
	}

	timer := 60 * time.Millisecond
	if o.CancelAt >= 0 {
		timer = time.Duration(1+o.CancelAt/1000) * time.Millisecond
	}
	ctx, trigger, cleanup := c33MakeCtx(o.CtxKind, timer)
	defer cleanup()
	run := &c33run{cancelAt: o.CancelAt, cancel: trigger}
	if trigger == nil {
		run.cancel = func() {}
		run.timerDone = ctx.Done()
	}
	stdout, stderr := &syncBuf{}, &syncBuf{}
	aborter := value.NewAborter(ctx, nil)
	th, q := o.Threads, o.Queue
	if th == 0 {
		th = 2
	}
	if q == 0 {
		q = 50
	}
	tp := vm.NewThreadPool(th, q, vm.WithStdout(stdout), vm.WithStderr(stderr), vm.WithAborter(aborter))
	v := vm.New(vm.WithStdout(stdout), vm.WithStderr(stderr), vm.WithThreadPool(tp), vm.WithAborter(aborter))

	vm.VerifInstructionHook = c33Hook
	c33cur.Store(run)

	type mres struct {
		val, err value.Value
		finished bool
		panicMsg string
		stack    string
	}
	done := make(chan mres, 1)
	go c33Main(v, chunk, run, func(val, err value.Value, finished bool, p, st string) {
		done <- mres{val, err, finished, p, st}
	})

	const tick = 10 * time.Millisecond
	var res mres
	got := false
	lastTotal := int64(-1)
	stable := 0
	dirty := false
	hangTicks := 0
loop:
	for {
		select {
		case res = <-done:
			got = true
			break loop
		case <-time.After(tick):
		}
		t := run.total.Load()
		if t == lastTotal {
			stable++
		} else {
			stable = 0
			lastTotal = t
		}
		if run.timerDone != nil && !run.cancelled.Load() {
			select {
			case <-run.timerDone:
				out.CancelMode = "timer"
				run.doCancel()
				stable = 0
			default:
			}
			continue
		}
		if !run.cancelled.Load() {
			if stable >= 8 {
				// the program executes nothing: it is blocked (or starved). Cancel now.
				if o.CancelAt == c33CancelQuiescent {
					out.CancelMode = "quiescent"
				} else {
					out.CancelMode = "quiescent-before-count"
				}
				run.doCancel()
				stable = 0
			}
			continue
		}
		if run.after.Load() > c33K {
			out.RunsOn = true
			dirty = true
			run.kill.Store(true)
			// the runaway thread exits at its next instruction
			select {
			case res = <-done:
				got = true
			case <-time.After(5 * time.Second):
			}
			break loop
		}
		if stable >= 30 {
			// cancelled, no instruction executed for 30 sampling periods, main thread not back:
			// look at the goroutine
			hangTicks++
			mainID, _ := run.mainGID.Load().(string)
			for _, g := range c33Goroutines() {
				if g.id != mainID {
					continue
				}
				out.HangState = g.state
				out.HangFrame = c33ElkFrame(g.text)
				out.HangStack = g.text
				if c33Parked(g.state) {
					if hangTicks >= 3 {
						out.Hang = true
					}
				} else if hangTicks >= 12 {
					out.NativeSpin = true
				}
			}
			if out.Hang || out.NativeSpin {
				dirty = true
				run.kill.Store(true)
				break loop
			}
			stable = 20
		}
	}
	if run.timerDone != nil {
		// a blocked program aborted by the timer returns without executing another instruction
		select {
		case <-run.timerDone:
			if !run.cancelled.Load() {
				out.CancelMode = "timer"
			}
			run.doCancel()
		default:
		}
	}
	out.Cancelled = run.cancelled.Load()
	if out.CancelMode == "" {
		if out.Cancelled {
			out.CancelMode = "count"
			if run.timerDone != nil {
				out.CancelMode = "timer"
			}
		} else {
			out.CancelMode = "none"
		}
	}
	if got {
		out.Returned = res.finished
		out.Killed = !res.finished && res.panicMsg == ""
		out.Panic, out.PanicStack = res.panicMsg, res.stack
		if res.finished {
			if !res.err.IsUndefined() {
				out.HasErr = true
				out.ErrIsAbort = value.IsA(res.err, value.ExecutionAbortedErrorClass)
				out.ErrInspect = guardInspect(res.err)
			} else if !res.val.IsUndefined() {
				out.ValInspect = guardInspect(res.val)
			}
		}
	}
	if !out.Cancelled {
		out.NeverBlocked = true
	}
	// grace period: do other threads of the run still execute instructions after main returned?
	if got && res.finished && o.HasThreads {
		run.doCancel() // a program that ended by itself: stop its threads too
		cleanup()
		last := int64(-1)
		st := 0
		for i := 0; i < 400; i++ {
			a := run.afterReturn.Load()
			if a > c33K {
				out.ThreadsRunOn = true
				dirty = true
				break
			}
			if a == last {
				st++
				if st >= 5 {
					break
				}
			} else {
				st = 0
				last = a
			}
			time.Sleep(tick)
		}
	}
	if o.HasThreads || dirty {
		// go threads of this run that are still parked (older leaked ones are remembered by id)
		for _, g := range c33Goroutines() {
			if strings.Contains(g.text, "vm.(*Thread).GoBytecode") && c33Parked(g.state) && c33OwnedBy(g.text, run) {
				if got && res.finished {
					out.ThreadsParked = append(out.ThreadsParked, g.state+" in "+c33ElkFrame(g.text))
				}
			}
		}
		if len(out.ThreadsParked) > 0 {
			dirty = true
		}
	}
	run.kill.Store(true)
	out.AtCancel = run.atCancel.Load()
	out.After = run.after.Load()
	out.AfterReturn = run.afterReturn.Load()
	out.Total = run.total.Load()
	out.Stdout, out.Stderr = stdout.String(), stderr.String()
	if dirty {
		var nl []*c33run
		if dl := c33dirty.Load(); dl != nil {
			nl = append(nl, *dl...)
		}
		if len(nl) > 16 {
			nl = nl[len(nl)-16:]
		}
		nl = append(nl, run)
		c33dirty.Store(&nl)
		// give killed threads the time to reach the hook and exit before the global environment is rebuilt
		time.Sleep(5 * tick)
	} else {
		guard(func() { tp.Close() })
	}
	c33cur.Store(nil)
	return out
}

// goroutines started by `go` carry no link to the run; with one run at a time every parked
// GoBytecode goroutine that was not there before belongs to the current run. Older leaked ones are
// remembered by id.
var c33knownLeaks = map[string]bool{}

func c33OwnedBy(text string, run *c33run) bool {
	m := c33goroutineHdr.FindStringSubmatch(text)
	if m == nil {
		return false
	}
	if c33knownLeaks[m[1]] {
		return false
	}
	c33knownLeaks[m[1]] = true
	return true
}

func guardInspect(v value.Value) (s string) {
	defer func() {
		if r := recover(); r != nil {
			s = fmt.Sprintf("<inspect panicked: %v>", r)
		}
	}()
	return v.Inspect()
}

// c33Main is the goroutine of the main VM thread (its name is looked up in goroutine dumps).
func c33Main(v *vm.Thread, chunk *vm.BytecodeFunction, run *c33run, report func(val, err value.Value, finished bool, p, st string)) {
	finished := false
	var val, err value.Value = value.Undefined, value.Undefined
	{
		var hb [64]byte
		h := string(hb[:runtime.Stack(hb[:], false)])
		if f := strings.Fields(h); len(f) > 1 {
			run.mainGID.Store(f[1])
		}
	}
	defer func() {
		if r := recover(); r != nil {
			report(value.Undefined, value.Undefined, false, fmt.Sprint(r), string(debug.Stack()))
			return
		}
		report(val, err, finished, "", "")
	}()
	val, err = v.InterpretTopLevel(chunk)
	run.returned.Store(true)
	finished = true
}

func init() {
	// c33probe <file> [cancelAt|q] [ctxkind]: run one program under the monitor and print the outcome
	subcommands["c33probe"] = func(args []string) {
		b, err := os.ReadFile(args[0])
		if err != nil {
			panic(err)
		}
		o := c33Opts{CancelAt: 1000}
		if len(args) > 1 {
			if args[1] == "q" {
				o.CancelAt = c33CancelQuiescent
			} else {
				o.CancelAt, _ = strconv.ParseInt(args[1], 10, 64)
			}
		}
		if len(args) > 2 {
			o.CtxKind = args[2]
		}
		out := c33Exec(string(b), o)
		hs := out.HangStack
		out.HangStack = ""
		fmt.Printf("%+v\n", *out)
		if hs != "" {
			fmt.Println(head(hs, 1500))
		}
	}
}
