package main

// C18 — Equality, hashing and ordering are mutually consistent.
// Pool values are produced by the real compiler+VM from Elk literal source, then all pairs are
// pushed through vm.Equal / vm.LaxEqual / vm.Hash / vm.LessThan … and the laws are checked on the
// resulting relation matrices (symmetry, reflexivity, hash law, trichotomy, agreement, transitivity).

import (
	"fmt"
	"math/big"
	"math/rand/v2"
	"os"
	"strings"

	"github.com/elk-language/elk/value"
	"github.com/elk-language/elk/vm"
)

type c18Val struct {
	src     string
	kind    string // int, float, bigfloat, f32, f64, i8.., string, char, symbol, list, ...
	numeric bool
	nan     bool
	v       value.Value
}

func c18NumericSources(r *rand.Rand, extra int) []c18Val {
	var out []c18Val
	add := func(kind, src string) { out = append(out, c18Val{src: src, kind: kind, numeric: true}) }
	bounds := []*big.Int{big.NewInt(0), big.NewInt(1), big.NewInt(2), bigPow2(24), bigPow2(53), bigPow2(62), bigPow2(63), bigPow2(64),
		new(big.Int).Exp(big.NewInt(10), big.NewInt(22), nil), big.NewInt(127), big.NewInt(128), big.NewInt(255), big.NewInt(256), big.NewInt(65535), big.NewInt(2147483647)}
	emit := func(n *big.Int) {
		neg := n.Sign() < 0
		abs := new(big.Int).Abs(n)
		wrap := func(s string) string {
			if neg {
				return "(-" + s + ")"
			}
			return s
		}
		add("int", wrap(abs.String()))
		add("float", wrap(abs.String()+".0"))
		add("bigfloat", wrap(abs.String()+".0bf"))
		if abs.BitLen() < 120 {
			add("f32", wrap(abs.String()+".0f32"))
		}
		add("f64", wrap(abs.String()+".0f64"))
		if abs.IsInt64() {
			add("i64", wrap(abs.String()+"i64"))
		}
		if abs.IsUint64() && !neg {
			add("u64", abs.String()+"u64")
			add("uint", abs.String()+"u")
		}
		if abs.BitLen() <= 31 {
			add("i32", wrap(abs.String()+"i32"))
		}
		if abs.BitLen() <= 32 && !neg {
			add("u32", abs.String()+"u32")
		}
		if abs.BitLen() <= 15 {
			add("i16", wrap(abs.String()+"i16"))
		}
		if abs.BitLen() <= 16 && !neg {
			add("u16", abs.String()+"u16")
		}
		if abs.BitLen() <= 7 {
			add("i8", wrap(abs.String()+"i8"))
		}
		if abs.BitLen() <= 8 && !neg {
			add("u8", abs.String()+"u8")
		}
	}
	for _, b := range bounds {
		for _, d := range []int64{-1, 0, 1} {
			n := new(big.Int).Add(b, big.NewInt(d))
			emit(n)
			if n.Sign() > 0 {
				emit(new(big.Int).Neg(n))
			}
		}
	}
	for i := 0; i < extra; i++ {
		n := randBig(r)
		if n.BitLen() > 100 {
			continue
		}
		emit(n)
	}
	for _, s := range []string{"0.5", "1.5", "(-1.5)", "0.1", "0.25", "1e300", "1e-300", "3.4028234663852886e38", "16777216.5"} {
		add("float", s)
		add("bigfloat", strings.TrimSuffix(strings.TrimPrefix(s, "("), ")")+"bf")
		add("f64", strings.TrimSuffix(s, ")")+"f64"+map[bool]string{true: ")", false: ""}[strings.HasSuffix(s, ")")])
	}
	add("float", "(-0.0)")
	add("float", "Float::INF")
	add("float", "Float::NEG_INF")
	out = append(out, c18Val{src: "Float::NAN", kind: "float", numeric: true, nan: true})
	// fix the accidental malformed bigfloat for negatives
	var clean []c18Val
	seen := map[string]bool{}
	for _, v := range out {
		if strings.Contains(v.src, "(-") && !strings.HasSuffix(v.src, ")") {
			continue
		}
		if strings.HasPrefix(v.src, "-") {
			continue
		}
		if seen[v.src] {
			continue
		}
		seen[v.src] = true
		clean = append(clean, v)
	}
	return clean
}

func c18OtherSources() []c18Val {
	var out []c18Val
	add := func(kind string, srcs ...string) {
		for _, s := range srcs {
			out = append(out, c18Val{src: s, kind: kind})
		}
	}
	add("string", `""`, `"a"`, `"a" + ""`, `"b"`, `"ab"`, `"é"`, `"a\n"`, `"1"`)
	add("char", "`a`", "`b`", "`é`", "`1`")
	add("symbol", ":a", ":b", `:"a b"`, ":ab")
	add("nilbool", "nil", "true", "false")
	add("list", "[]", "[1]", "[1, 2]", "[2, 1]", "[1.0]", "[1, [2]]", `["a"]`, "[nil]", "[1, 2] + []")
	add("tuple", "%[]", "%[1]", "%[1, 2]", "%[2, 1]", "%[1.0]", `%["a"]`)
	add("map", "{}", "{1 => 2}", "{1 => 2, 3 => 4}", "{3 => 4, 1 => 2}", "{1 => nil}", "{2 => nil}", `{"a" => 1}`, "{1 => 2.0}")
	add("record", "%{}", "%{1 => 2}", "%{1 => 2, 3 => 4}", "%{3 => 4, 1 => 2}", "%{1 => nil}", "%{2 => nil}")
	add("set", "^[]", "^[1]", "^[1, 2]", "^[2, 1]", `^["a"]`, "^[1.0]")
	add("range", "1...3", "1..<3", "1<..3", "1<.<3", "...3", "..<3", "1...", "1<..", "1...4", "1.0...3.0", "2...3", "`a`...`c`")
	add("pair", "Pair(1, 2)", "Pair(2, 1)", "Pair(1, 2.0)")
	add("date", "Date(2020, 1, 2)", "Date(2020, 1, 3)", "Date(-5, 12, 31)", "Date(2020, 1, 2) + 0.days")
	return out
}

// evalPool evaluates the sources and returns the values together with a live thread.
func c18EvalPool(c *Ctx, pool []c18Val) ([]c18Val, *vm.Thread, *vm.ThreadPool) {
	var ok []c18Val
	// evaluate in chunks; a chunk that fails to compile is retried element-wise so that one
	// unsupported literal form does not lose the rest
	var thread *vm.Thread
	var tp *vm.ThreadPool
	var sb strings.Builder
	// built element by element: one list literal with this many non-static elements needs more than the
	// 30% frame headroom of the default value stack (listed finding K-C10-headroom of C10), which is not
	// this property's subject
	sb.WriteString("var pool: ArrayList[any] = []\n")
	for _, p := range pool {
		fmt.Fprintf(&sb, "pool << (%s)\n", p.src)
	}
	sb.WriteString("pool\n")
	res := RunElk(sb.String(), &ElkOpts{KeepThread: true})
	if res.Panic != "" {
		c.Violate("pool:panic:"+panicSite(res.PanicStack), "building the value pool panicked: "+res.Panic+"\n"+head(res.PanicStack, 1200), -1, nil)
		return nil, nil, nil
	}
	if res.Rejected || !res.Err.IsUndefined() {
		// drop offenders one by one (slow path, only for diagnosis)
		os.WriteFile("/tmp/c18_pool_rejected.elk", []byte(sb.String()), 0o644)
		c.Inconclusive("pool program rejected: " + head(diagString(res.Diagnostics), 400) + res.ErrInspect)
		return nil, nil, nil
	}
	thread, tp = res.Thread, res.Pool
	lst, isList := res.Result.SafeAsReference().(value.ArrayList)
	if !isList || lst.Length() != len(pool) {
		c.Inconclusive("pool program did not return a list of the expected length")
		return nil, nil, nil
	}
	for i, p := range pool {
		p.v = lst.AtVal(i)
		ok = append(ok, p)
	}
	return ok, thread, tp
}

// exactNum is the exact mathematical value of a numeric Elk value.
type exactNum struct {
	r   *big.Rat
	inf int // -1, +1 for infinities
}

func exactOf(v value.Value) (e exactNum, ok bool) {
	defer func() {
		if recover() != nil {
			ok = false
		}
	}()
	fromF := func(f float64) (exactNum, bool) {
		if f != f {
			return exactNum{}, false
		}
		if f > 1.7976931348623157e308 {
			return exactNum{inf: 1}, true
		}
		if f < -1.7976931348623157e308 {
			return exactNum{inf: -1}, true
		}
		return exactNum{r: new(big.Rat).SetFloat64(f)}, true
	}
	if v.IsSmallInt() {
		return exactNum{r: new(big.Rat).SetInt64(int64(v.AsSmallInt()))}, true
	}
	if v.IsFloat() {
		return fromF(float64(v.AsFloat()))
	}
	if v.IsFloat32() {
		return fromF(float64(v.AsFloat32()))
	}
	if v.IsInlineFloat64() {
		return fromF(float64(v.AsInlineFloat64()))
	}
	if v.IsReference() {
		switch x := v.AsReference().(type) {
		case *value.BigInt:
			return exactNum{r: new(big.Rat).SetInt(x.ToGoBigInt())}, true
		case *value.BigFloat:
			g := x.ToGoBigFloat()
			if g.IsInf() {
				if g.Sign() > 0 {
					return exactNum{inf: 1}, true
				}
				return exactNum{inf: -1}, true
			}
			r, _ := g.Rat(nil)
			return exactNum{r: r}, r != nil
		case value.Float64:
			return fromF(float64(x))
		case value.Int64:
			return exactNum{r: new(big.Rat).SetInt64(int64(x))}, true
		case value.UInt64:
			return exactNum{r: new(big.Rat).SetInt(new(big.Int).SetUint64(uint64(x)))}, true
		}
		return exactNum{}, false
	}
	// remaining inline sized integers: parse the inspect output (digits + suffix)
	str := v.Inspect()
	i := 0
	for i < len(str) && (str[i] == '-' || (str[i] >= '0' && str[i] <= '9')) {
		i++
	}
	n, good := new(big.Int).SetString(str[:i], 10)
	if !good {
		return exactNum{}, false
	}
	return exactNum{r: new(big.Rat).SetInt(n)}, true
}

func (a exactNum) cmp(b exactNum) int {
	if a.inf != 0 || b.inf != 0 {
		switch {
		case a.inf == b.inf:
			return 0
		case a.inf < b.inf:
			return -1
		default:
			return 1
		}
	}
	return a.r.Cmp(b.r)
}

// explainedByRounding reports whether the observed (wrong) result of a mixed-kind comparison is what
// one gets after rounding both operands to the narrowest binary floating format among the operand
// kinds (float32 or float64). Such results are one root cause (comparison through float conversion);
// any other wrong result is a logic error and keeps its own site.
func explainedByRounding(op, ka, kb string, a, b exactNum, obs int) bool {
	isF32 := ka == "f32" || kb == "f32"
	isF64 := ka == "float" || kb == "float" || ka == "f64" || kb == "f64" || ka == "bigfloat" || kb == "bigfloat"
	if !isF32 && !isF64 {
		return false
	}
	round := func(e exactNum) float64 {
		if e.inf != 0 {
			return float64(e.inf) * 1e308 * 10
		}
		if isF32 {
			f, _ := e.r.Float32()
			return float64(f)
		}
		f, _ := e.r.Float64()
		return f
	}
	x, y := round(a), round(b)
	var r bool
	switch op {
	case "=~":
		r = x == y
	case "<":
		r = x < y
	case "<=":
		r = x <= y
	case ">":
		r = x > y
	case ">=":
		r = x >= y
	case "<=>":
		c := 0
		if x < y {
			c = -1
		} else if x > y {
			c = 1
		}
		return c == obs
	}
	return r == (obs == 1)
}

type tri int8 // -1 error/undefined, 0 false, 1 true

func toTri(v, err value.Value) tri {
	if !err.IsUndefined() || v.IsUndefined() {
		return -1
	}
	if v == value.True.ToValue() {
		return 1
	}
	if v == value.False.ToValue() {
		return 0
	}
	return -1
}

func c18Run(c *Ctx) {
	r := caseRng(c.Seed, "C18", 0)
	extra := c.N(12, 60)
	pool := append(c18NumericSources(r, extra), c18OtherSources()...)
	vals, th, tp := c18EvalPool(c, pool)
	if vals == nil {
		return
	}
	defer tp.Close()
	n := len(vals)
	c.Count("pool_values", int64(n))
	for i := 0; i < 4 && i < n; i++ {
		c.Sample(map[string]string{"source": vals[i*7%n].src, "kind": vals[i*7%n].kind})
	}
	eq := make([][]tri, n)
	lax := make([][]tri, n)
	lt := make([][]tri, n)
	le := make([][]tri, n)
	gt := make([][]tri, n)
	ge := make([][]tri, n)
	cmp := make([][]int8, n) // -2 undefined
	hashes := make([]uint64, n)
	hashOK := make([]bool, n)
	call := func(f func() (value.Value, value.Value), what string, a, b *c18Val) tri {
		var v, e value.Value
		if p := guard(func() { v, e = f() }); p != "" {
			c.Violate(fmt.Sprintf("panic:%s:%s/%s", what, a.kind, b.kind), fmt.Sprintf("%s %s %s panicked: %s", a.src, what, b.src, p), -1, nil)
			return -1
		}
		return toTri(v, e)
	}
	for i := range vals {
		a := &vals[i]
		if p := guard(func() {
			h, e := vm.Hash(th, a.v)
			if e.IsUndefined() {
				hashes[i], hashOK[i] = uint64(h), true
			}
		}); p != "" {
			c.Violate("panic:hash:"+a.kind, fmt.Sprintf("hash of %s panicked: %s", a.src, p), -1, nil)
		}
		eq[i], lax[i], lt[i], le[i], gt[i], ge[i], cmp[i] = make([]tri, n), make([]tri, n), make([]tri, n), make([]tri, n), make([]tri, n), make([]tri, n), make([]int8, n)
		for j := range vals {
			b := &vals[j]
			eq[i][j] = call(func() (value.Value, value.Value) { return vm.Equal(th, a.v, b.v) }, "==", a, b)
			lax[i][j] = call(func() (value.Value, value.Value) { return vm.LaxEqual(th, a.v, b.v) }, "=~", a, b)
			c.Eval(2)
			cmp[i][j] = -2
			if a.numeric && b.numeric {
				lt[i][j] = call(func() (value.Value, value.Value) { return vm.LessThan(th, a.v, b.v) }, "<", a, b)
				le[i][j] = call(func() (value.Value, value.Value) { return vm.LessThanEqual(th, a.v, b.v) }, "<=", a, b)
				gt[i][j] = call(func() (value.Value, value.Value) { return vm.GreaterThan(th, a.v, b.v) }, ">", a, b)
				ge[i][j] = call(func() (value.Value, value.Value) { return vm.GreaterThanEqual(th, a.v, b.v) }, ">=", a, b)
				var cv, ce value.Value
				if p := guard(func() { cv, ce = value.CompareVal(a.v, b.v) }); p != "" {
					c.Violate(fmt.Sprintf("panic:<=>:%s/%s", a.kind, b.kind), fmt.Sprintf("%s <=> %s panicked: %s", a.src, b.src, p), -1, nil)
				} else if ce.IsUndefined() && cv.IsSmallInt() {
					cmp[i][j] = int8(cv.AsSmallInt())
				}
				c.Eval(5)
			} else {
				lt[i][j], le[i][j], gt[i][j], ge[i][j] = -1, -1, -1, -1
			}
		}
	}
	exact := make([]exactNum, n)
	exactOK := make([]bool, n)
	for i := range vals {
		if vals[i].numeric && !vals[i].nan {
			exact[i], exactOK[i] = exactOf(vals[i].v)
			if !exactOK[i] {
				c.Count("numeric_values_without_exact_value", 1)
			}
		}
	}
	type opij struct {
		op   string
		i, j int
	}
	// wrong reports whether the observed result of op(i, j) disagrees with exact arithmetic.
	wrong := func(o opij) bool {
		if !exactOK[o.i] || !exactOK[o.j] {
			return false
		}
		x := exact[o.i].cmp(exact[o.j])
		var obs tri
		var want bool
		switch o.op {
		case "=~":
			obs, want = lax[o.i][o.j], x == 0
		case "<":
			obs, want = lt[o.i][o.j], x < 0
		case "<=":
			obs, want = le[o.i][o.j], x <= 0
		case ">":
			obs, want = gt[o.i][o.j], x > 0
		case ">=":
			obs, want = ge[o.i][o.j], x >= 0
		case "<=>":
			if cmp[o.i][o.j] == -2 {
				return false
			}
			return int(cmp[o.i][o.j]) != x
		default:
			return false
		}
		return obs >= 0 && (obs == 1) != want
	}
	observed := func(o opij) int {
		switch o.op {
		case "=~":
			return int(lax[o.i][o.j])
		case "<":
			return int(lt[o.i][o.j])
		case "<=":
			return int(le[o.i][o.j])
		case ">":
			return int(gt[o.i][o.j])
		case ">=":
			return int(ge[o.i][o.j])
		}
		return int(cmp[o.i][o.j])
	}
	// lawSite names a law violation by its root cause: the first involved comparison whose result is
	// wrong against exact arithmetic (so all laws broken by one inexact comparison share one site);
	// otherwise by the law and the operand kinds.
	lawSite := func(law string, fallbackKinds string, involved ...opij) string {
		for _, o := range involved {
			if wrong(o) {
				class := "inexact"
				if explainedByRounding(o.op, vals[o.i].kind, vals[o.j].kind, exact[o.i], exact[o.j], observed(o)) {
					class = "inexact-rounding"
				}
				return fmt.Sprintf("%s:%s:%s/%s", class, o.op, vals[o.i].kind, vals[o.j].kind)
			}
		}
		return law + ":" + fallbackKinds
	}
	pairSite := func(law string, a, b *c18Val) string { return fmt.Sprintf("%s:%s/%s", law, a.kind, b.kind) }
	eqTrue, laxCross := 0, 0
	for i := range vals {
		a := &vals[i]
		if !a.nan {
			if eq[i][i] != 1 {
				c.Violate("reflexive-==:"+a.kind, fmt.Sprintf("%s == itself is %d", a.src, eq[i][i]), -1, a.src)
			}
			if lax[i][i] != 1 {
				c.Violate("reflexive-=~:"+a.kind, fmt.Sprintf("%s =~ itself is %d", a.src, lax[i][i]), -1, a.src)
			}
		}
		for j := range vals {
			b := &vals[j]
			in := map[string]string{"a": a.src, "b": b.src}
			if eq[i][j] != eq[j][i] {
				c.Violate(pairSite("symmetric-==", a, b), fmt.Sprintf("%s == %s is %d but reversed is %d", a.src, b.src, eq[i][j], eq[j][i]), -1, in)
			}
			if lax[i][j] != lax[j][i] {
				c.Violate(lawSite("symmetric-=~", a.kind+"/"+b.kind, opij{"=~", i, j}, opij{"=~", j, i}), fmt.Sprintf("%s =~ %s is %d but reversed is %d", a.src, b.src, lax[i][j], lax[j][i]), -1, in)
			}
			if eq[i][j] == 1 {
				eqTrue++
				c.Distinct("eq|" + a.kind + "|" + b.kind)
				if hashOK[i] && hashOK[j] && hashes[i] != hashes[j] {
					c.Violate(pairSite("hash", a, b), fmt.Sprintf("%s == %s but hashes differ: %d vs %d", a.src, b.src, hashes[i], hashes[j]), -1, in)
				}
				if hashOK[i] != hashOK[j] {
					c.Violate(pairSite("hashable", a, b), fmt.Sprintf("%s == %s but only one of them is hashable", a.src, b.src), -1, in)
				}
			}
			if !(a.numeric && b.numeric) || a.nan || b.nan {
				continue
			}
			if lax[i][j] == 1 && a.kind != b.kind {
				laxCross++
			}
			// comparison defined?
			defined := 0
			for _, t := range []tri{lt[i][j], le[i][j], gt[i][j], ge[i][j]} {
				if t >= 0 {
					defined++
				}
			}
			if defined == 0 {
				continue
			}
			c.Distinct("ord|" + a.kind + "|" + b.kind)
			if defined != 4 {
				c.Violate(pairSite("partial-order-ops", a, b), fmt.Sprintf("%s vs %s: only %d of < <= > >= are defined (%d %d %d %d)", a.src, b.src, defined, lt[i][j], le[i][j], gt[i][j], ge[i][j]), -1, in)
				continue
			}
			L, G, E := lt[i][j] == 1, gt[i][j] == 1, lax[i][j] == 1
			cnt := 0
			for _, x := range []bool{L, G, E} {
				if x {
					cnt++
				}
			}
			if cnt != 1 {
				c.Violate(lawSite("trichotomy", a.kind+"/"+b.kind, opij{"=~", i, j}, opij{"<", i, j}, opij{">", i, j}), fmt.Sprintf("%s vs %s: <=%v >=%v =~=%v (exactly one must hold)", a.src, b.src, L, G, E), -1, in)
			}
			if (le[i][j] == 1) != (L || E) {
				c.Violate(lawSite("le-agrees", a.kind+"/"+b.kind, opij{"<=", i, j}, opij{"=~", i, j}, opij{"<", i, j}), fmt.Sprintf("%s <= %s is %v but < is %v and =~ is %v", a.src, b.src, le[i][j] == 1, L, E), -1, in)
			}
			if (ge[i][j] == 1) != (G || E) {
				c.Violate(lawSite("ge-agrees", a.kind+"/"+b.kind, opij{">=", i, j}, opij{"=~", i, j}, opij{">", i, j}), fmt.Sprintf("%s >= %s is %v but > is %v and =~ is %v", a.src, b.src, ge[i][j] == 1, G, E), -1, in)
			}
			if lt[i][j] != gt[j][i] && gt[j][i] >= 0 {
				c.Violate(lawSite("lt-gt-mirror", a.kind+"/"+b.kind, opij{"<", i, j}, opij{">", j, i}), fmt.Sprintf("%s < %s is %d but %s > %s is %d", a.src, b.src, lt[i][j], b.src, a.src, gt[j][i]), -1, in)
			}
			if cmp[i][j] != -2 {
				want := int8(0)
				if L {
					want = -1
				} else if G {
					want = 1
				}
				if cmp[i][j] != want && cnt == 1 {
					c.Violate(lawSite("cmp-agrees", a.kind+"/"+b.kind, opij{"<=>", i, j}, opij{"<", i, j}, opij{">", i, j}), fmt.Sprintf("%s <=> %s is %d but < is %v, > is %v", a.src, b.src, cmp[i][j], L, G), -1, in)
				}
			}
		}
	}
	c.Count("equal_pairs", int64(eqTrue))
	c.Count("cross_kind_lax_equal_pairs", int64(laxCross))
	// transitivity over the matrices
	type rel struct {
		name string
		m    [][]tri
		num  bool
	}
	triples := int64(0)
	for _, rl := range []rel{{"==", eq, false}, {"=~", lax, true}, {"<", lt, true}, {"<=", le, true}} {
		for i := 0; i < n; i++ {
			if vals[i].nan {
				continue
			}
			for j := 0; j < n; j++ {
				if rl.m[i][j] != 1 || vals[j].nan {
					continue
				}
				for k := 0; k < n; k++ {
					if rl.m[j][k] != 1 || vals[k].nan {
						continue
					}
					triples++
					if rl.m[i][k] == 0 {
						a, b, d := &vals[i], &vals[j], &vals[k]
						c.Violate(lawSite("transitive-"+rl.name, a.kind+"/"+b.kind+"/"+d.kind, opij{rl.name, i, j}, opij{rl.name, j, k}, opij{rl.name, i, k}),
							fmt.Sprintf("%s %s %s and %s %s %s but not %s %s %s", a.src, rl.name, b.src, b.src, rl.name, d.src, a.src, rl.name, d.src), -1,
							map[string]string{"a": a.src, "b": b.src, "c": d.src})
					}
				}
			}
		}
	}
	c.Count("transitivity_triples_with_both_premises", triples)
	c.Eval(triples)
}

func init() {
	register(&Check{
		ID: "C18",
		Rule: "pool of literal-built values of every numeric kind straddling 2^24, 2^53, 2^63, 2^64, 10^22 (n, n±1 in Int, Float, BigFloat, Float32/64, sized ints, UInt), ±0, ±Inf, NaN, plus strings, chars, symbols, collections, ranges, pairs, dates; " +
			"all ordered pairs through vm.Equal/LaxEqual/Hash/LessThan…/CompareVal; laws checked on the relation matrices, transitivity on every triple with both premises true; distinct = (law, kind, kind) cells exercised with a true premise",
		Run:         c18Run,
		MinCounters: map[string]int64{"equal_pairs": 100, "cross_kind_lax_equal_pairs": 50, "transitivity_triples_with_both_premises": 10000},
		Assumptions: []string{"pure consistency laws; no external truth except reflexivity of non-NaN values"},
	})
}
