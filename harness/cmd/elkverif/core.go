package main

// Core of the monitoring harness: check registry, sharded child-process
// supervision with a write-ahead journal, violation / known-finding handling,
// evidence writer.

import (
	"bufio"
	"crypto/sha256"
	"encoding/hex"
	"encoding/json"
	"fmt"
	"hash/fnv"
	"math/rand/v2"
	"os"
	"os/exec"
	"path/filepath"
	"regexp"
	"runtime"
	"runtime/debug"
	"sort"
	"strconv"
	"strings"
	"sync"
	"sync/atomic"
	"syscall"
	"time"
)

// verifDir / repoDir default to the registered locations; the environment overrides exist only so a
// private copy of the harness can be developed against a scratch worktree.
var verifDir = envOr("VERIF_DIR", "/verif")
var repoDir = envOr("VERIF_ELKPATH", "/repo")

func envOr(k, d string) string {
	if v := os.Getenv(k); v != "" {
		return v
	}
	return d
}

// Check describes one property check.
type Check struct {
	ID   string
	Rule string // how cases are generated and what makes one distinct / non-trivial
	// NumCases returns the size of the fixed case list for a tier.
	NumCases func(tier string) int
	// Init runs once per worker process before any case.
	Init func(c *Ctx)
	// Case runs case i. It reports through c. Must be deterministic in (seed, i).
	Case func(c *Ctx, i int, r *rand.Rand)
	// Run, when set, replaces the sharded case loop: the parent calls it directly.
	Run func(c *Ctx)
	// Post runs in the parent after the merge (thresholds, extra coverage keys).
	Post func(c *Ctx)
	// Shards is the number of worker processes (default: min(16, NumCPU)).
	Shards int
	// InProcess: run cases in the parent process (no children). For pure Go-level checks that also
	// want crash isolation leave it false.
	InProcess bool
	// Minimum observation thresholds: counter name -> minimum. Below it the run is inconclusive.
	MinCounters map[string]int64
	// Exhaustive marks that the tier enumerates a finite space completely (map tier -> bool).
	Exhaustive  map[string]bool
	Assumptions []string
	// Timeout per worker process (watchdog; firing = inconclusive unless check says otherwise).
	WorkerTimeout time.Duration
	// Env adds environment variables to worker processes.
	Env []string
	// CPUBudget (seconds of process CPU time per case) turns "never hangs" into a logical bound:
	// a case that burns more is reported as a hang with the stack of the running goroutine.
	CPUBudget float64
}

var registry = map[string]*Check{}

func register(c *Check) { registry[c.ID] = c }

// Violation is one refuting observation.
type Violation struct {
	Signature string `json:"signature"` // narrow site identity used for known-finding matching and dedup
	Detail    string `json:"detail"`
	Case      int    `json:"case"`
	Input     any    `json:"input,omitempty"`
}

type KnownFinding struct {
	Property  string `json:"property"`
	ID        string `json:"id"`
	Status    string `json:"status"` // known | fixed
	Commit    string `json:"commit,omitempty"`
	What      string `json:"what"`
	Signature string `json:"signature,omitempty"` // exact signature (or regexp when SigRe is set)
	SigRe     bool   `json:"sig_re,omitempty"`
	Witness   any    `json:"witness,omitempty"`
}

// Ctx is handed to checks; it accumulates observations in a goroutine-safe way.
type Ctx struct {
	Check *Check
	ID    string
	Tier  string
	Seed  int64

	mu         sync.Mutex
	evals      int64
	distinct   map[uint64]struct{}
	counters   map[string]int64
	samples    []any
	violations []Violation
	knownHits  map[string]int64
	extra      map[string]any
	inconcl    []string

	known      []KnownFinding
	knownSeen  map[string]bool // known finding ids whose witness/signature was observed in this run
	singleCase bool
	WorkDir    string // scratch directory for this run (outside /repo and /verif)
	worker     bool
}

func newCtx(ch *Check, tier string, seed int64) *Ctx {
	c := &Ctx{Check: ch, ID: ch.ID, Tier: tier, Seed: seed,
		distinct: map[uint64]struct{}{}, counters: map[string]int64{}, knownHits: map[string]int64{},
		extra: map[string]any{}, knownSeen: map[string]bool{}}
	c.known = loadKnown(ch.ID)
	return c
}

func loadKnown(prop string) []KnownFinding {
	if os.Getenv("VERIF_NO_KNOWN") != "" { // development aid: list every signature, including the known ones
		return nil
	}
	b, err := os.ReadFile(filepath.Join(verifDir, "known_findings.json"))
	if err != nil {
		return nil
	}
	var all []KnownFinding
	if err := json.Unmarshal(b, &all); err != nil {
		fmt.Fprintf(os.Stderr, "known_findings.json: %v\n", err)
		os.Exit(3)
	}
	var out []KnownFinding
	for _, k := range all {
		if k.Property == prop && k.Status == "known" {
			out = append(out, k)
		}
	}
	return out
}

func (c *Ctx) Quick() bool { return c.Tier != "thorough" }

// N picks a tier dependent number.
func (c *Ctx) N(quick, thorough int) int {
	if c.Quick() {
		return quick
	}
	return thorough
}

func (c *Ctx) Eval(n int64) {
	c.mu.Lock()
	c.evals += n
	c.mu.Unlock()
}

func maxViolations() int {
	if v := os.Getenv("VERIF_MAXVIOL"); v != "" {
		if n, err := strconv.Atoi(v); err == nil {
			return n
		}
	}
	return 40
}

func hash64(s string) uint64 {
	h := fnv.New64a()
	h.Write([]byte(s))
	return h.Sum64()
}

// Distinct records a distinct-non-trivial key.
func (c *Ctx) Distinct(key string) {
	h := hash64(key)
	c.mu.Lock()
	if len(c.distinct) < 4_000_000 {
		c.distinct[h] = struct{}{}
	}
	c.mu.Unlock()
}

func (c *Ctx) Count(name string, n int64) {
	c.mu.Lock()
	c.counters[name] += n
	c.mu.Unlock()
}

// Max records a maximum under a counter name.
func (c *Ctx) Max(name string, n int64) {
	c.mu.Lock()
	if n > c.counters[name] {
		c.counters[name] = n
	}
	c.mu.Unlock()
}

func (c *Ctx) Sample(s any) {
	c.mu.Lock()
	if len(c.samples) < 6 {
		c.samples = append(c.samples, s)
	}
	c.mu.Unlock()
}

func (c *Ctx) Extra(k string, v any) {
	c.mu.Lock()
	c.extra[k] = v
	c.mu.Unlock()
}

func (c *Ctx) Inconclusive(why string) {
	c.mu.Lock()
	c.inconcl = append(c.inconcl, why)
	c.mu.Unlock()
}

// matchKnown returns the known finding matching the signature, if any.
func (c *Ctx) matchKnown(sig string) *KnownFinding {
	for i := range c.known {
		k := &c.known[i]
		if k.Signature == "" {
			continue
		}
		if k.SigRe {
			if ok, _ := regexp.MatchString("^(?:"+k.Signature+")$", sig); ok {
				return k
			}
		} else if k.Signature == sig {
			return k
		}
	}
	return nil
}

// Violate records a violation (or a known-finding hit when the signature is listed).
func (c *Ctx) Violate(sig, detail string, caseIdx int, input any) {
	sig = c.ID + ":" + sig
	if k := c.matchKnown(sig); k != nil {
		c.mu.Lock()
		c.knownHits[k.ID]++
		c.knownSeen[k.ID] = true
		c.mu.Unlock()
		return
	}
	c.mu.Lock()
	defer c.mu.Unlock()
	for _, v := range c.violations {
		if v.Signature == sig {
			c.counters["violations_duplicate_signature"]++
			return
		}
	}
	if len(c.violations) < maxViolations() {
		if len(detail) > 4000 {
			detail = detail[:4000] + "…"
		}
		c.violations = append(c.violations, Violation{Signature: sig, Detail: detail, Case: caseIdx, Input: input})
	}
}

// caseRng derives the PRNG of case i from (seed, check, i) only, so sharding does not matter.
func caseRng(seed int64, id string, i int) *rand.Rand {
	return rand.New(rand.NewPCG(uint64(seed)*0x9E3779B97F4A7C15+hash64(id), uint64(i)*0xD1342543DE82EF95+1))
}

// ---- worker result file ----------------------------------------------------------------------

type workerResult struct {
	Evals      int64            `json:"evals"`
	Distinct   []uint64         `json:"distinct"`
	Counters   map[string]int64 `json:"counters"`
	Samples    []any            `json:"samples"`
	Violations []Violation      `json:"violations"`
	KnownHits  map[string]int64 `json:"known_hits"`
	Extra      map[string]any   `json:"extra"`
	Inconcl    []string         `json:"inconclusive"`
	Done       bool             `json:"done"`
	Next       int              `json:"next"` // next case index not yet finished
}

func (c *Ctx) snapshot(done bool, next int) *workerResult {
	c.mu.Lock()
	defer c.mu.Unlock()
	r := &workerResult{Evals: c.evals, Counters: c.counters, Samples: c.samples, Violations: c.violations,
		KnownHits: c.knownHits, Extra: c.extra, Inconcl: c.inconcl, Done: done, Next: next}
	r.Distinct = make([]uint64, 0, len(c.distinct))
	for h := range c.distinct {
		r.Distinct = append(r.Distinct, h)
	}
	return r
}

func writeJSONAtomic(path string, v any) {
	b, err := json.Marshal(v)
	if err != nil {
		// fall back to a printable form
		b, _ = json.Marshal(fmt.Sprintf("%v", v))
	}
	tmp := path + ".tmp"
	os.WriteFile(tmp, b, 0o644)
	os.Rename(tmp, path)
}

func (c *Ctx) merge(r *workerResult) {
	c.mu.Lock()
	defer c.mu.Unlock()
	c.evals += r.Evals
	for _, h := range r.Distinct {
		c.distinct[h] = struct{}{}
	}
	for k, v := range r.Counters {
		if strings.HasPrefix(k, "max_") {
			if v > c.counters[k] {
				c.counters[k] = v
			}
		} else {
			c.counters[k] += v
		}
	}
	for _, s := range r.Samples {
		if len(c.samples) < 6 {
			c.samples = append(c.samples, s)
		}
	}
	for _, v := range r.Violations {
		dup := false
		for _, w := range c.violations {
			if w.Signature == v.Signature {
				dup = true
			}
		}
		if !dup {
			c.violations = append(c.violations, v)
		}
	}
	for k, v := range r.KnownHits {
		c.knownHits[k] += v
		c.knownSeen[k] = true
	}
	for k, v := range r.Extra {
		c.extra[k] = v
	}
	c.inconcl = append(c.inconcl, r.Inconcl...)
}

// ---- worker main -----------------------------------------------------------------------------

// workerMain runs cases i = shard, shard+n, ... starting at >= from.
func workerMain(ch *Check, tier string, seed int64, shard, nshards, from int, outFile, journal string) {
	c := newCtx(ch, tier, seed)
	c.worker = true
	c.WorkDir = filepath.Dir(outFile)
	jf, err := os.OpenFile(journal, os.O_CREATE|os.O_WRONLY|os.O_APPEND, 0o644)
	if err != nil {
		panic(err)
	}
	if ch.Init != nil {
		ch.Init(c)
	}
	if ch.CPUBudget > 0 {
		startCPUMonitor(ch.CPUBudget)
	}
	n := ch.NumCases(tier)
	lastSnap := time.Now()
	i := shard
	for ; i < n; i += nshards {
		if i < from {
			continue
		}
		fmt.Fprintf(jf, "B %d\n", i)
		cpuCaseStart(i)
		ch.Case(c, i, caseRng(seed, ch.ID, i))
		cpuCaseEnd()
		fmt.Fprintf(jf, "E %d\n", i)
		if time.Since(lastSnap) > 2*time.Second {
			writeJSONAtomic(outFile, c.snapshot(false, i+nshards))
			lastSnap = time.Now()
		}
	}
	writeJSONAtomic(outFile, c.snapshot(true, i))
}

// ---- CPU budget monitor (worker side) -----------------------------------------------------------

var (
	cpuCase      atomic.Int64 // current case or -1
	cpuCaseBegin atomic.Int64 // process CPU nanoseconds at case start
)

func processCPU() int64 {
	var ru syscall.Rusage
	syscall.Getrusage(syscall.RUSAGE_SELF, &ru)
	return ru.Utime.Nano() + ru.Stime.Nano()
}

func cpuCaseStart(i int) {
	cpuCaseBegin.Store(processCPU())
	cpuCase.Store(int64(i))
}

func cpuCaseEnd() { cpuCase.Store(-1) }

func startCPUMonitor(budgetSec float64) {
	cpuCase.Store(-1)
	debug.SetTraceback("crash")
	go func() {
		for {
			time.Sleep(250 * time.Millisecond)
			i := cpuCase.Load()
			if i < 0 {
				continue
			}
			used := float64(processCPU()-cpuCaseBegin.Load()) / 1e9
			if used > budgetSec && cpuCase.Load() == i {
				fmt.Fprintf(os.Stderr, "\nVERIF-CPU-BUDGET-EXCEEDED case=%d cpu=%.1fs budget=%.1fs\n", i, used, budgetSec)
				syscall.Kill(os.Getpid(), syscall.SIGQUIT)
				time.Sleep(30 * time.Second)
				os.Exit(97)
			}
		}
	}()
}

// mainGoroutineFrames extracts the innermost elk frames of goroutine 1 from a SIGQUIT dump.
func mainGoroutineFrames(stderr string) string {
	idx := strings.Index(stderr, "\ngoroutine 1 ")
	if idx < 0 {
		return "?"
	}
	var frames []string
	for _, ln := range strings.Split(stderr[idx+1:], "\n")[1:] {
		if strings.HasPrefix(ln, "goroutine ") || ln == "" {
			break
		}
		if strings.HasPrefix(ln, "github.com/elk-language/elk/") {
			fn := ln
			if i := strings.LastIndex(fn, "("); i > 0 {
				fn = fn[:i]
			}
			frames = append(frames, strings.TrimPrefix(fn, "github.com/elk-language/elk/"))
			if len(frames) == 3 {
				break
			}
		}
	}
	if len(frames) == 0 {
		return "?"
	}
	return strings.Join(frames, "<")
}

// ---- parent: sharded supervision -------------------------------------------------------------

var crashClassRe = regexp.MustCompile(`(?m)^(panic: .*|fatal error: .*|SIGSEGV.*|.*AddressSanitizer.*|unexpected signal.*|signal: .*)$`)

// classifyCrash extracts a short message and the innermost repo frames from a Go crash dump.
func classifyCrash(stderr string) (msg string, frames []string) {
	m := crashClassRe.FindString(stderr)
	if m == "" {
		m = "process died without a Go crash header"
	}
	// strip addresses / numbers to make the message class stable
	msg = regexp.MustCompile(`0x[0-9a-f]+|\b\d{4,}\b`).ReplaceAllString(m, "N")
	msg = regexp.MustCompile(`(of class: \S+) \(.*$`).ReplaceAllString(msg, "$1")
	msg = strings.TrimSuffix(msg, " [recovered, repanicked]")
	if len(msg) > 160 {
		msg = msg[:160]
	}
	// The first goroutine dump after the header: collect function names that belong to elk.
	// After "[recovered, repanicked]" dumps the interesting frames follow the panic() frames.
	lines := strings.Split(stderr, "\n")
	seenGoroutine := false
	for _, ln := range lines {
		if strings.HasPrefix(ln, "goroutine ") {
			if seenGoroutine {
				break
			}
			seenGoroutine = true
			continue
		}
		if !seenGoroutine {
			continue
		}
		if strings.HasPrefix(ln, "github.com/elk-language/elk") {
			fn := ln
			if i := strings.LastIndex(fn, "("); i > 0 {
				fn = fn[:i]
			}
			fn = strings.TrimPrefix(fn, "github.com/elk-language/elk/")
			// skip generic re-panic frames of the VM run loop
			if strings.Contains(fn, "(*Thread).run.func") || strings.Contains(fn, "Thread).InterpretTopLevel.func") {
				continue
			}
			// everything from the interpreter loop outwards is the same for every crash
			if fn == "vm.(*Thread).run" && len(frames) > 0 {
				break
			}
			frames = append(frames, fn)
			if len(frames) >= 3 {
				break
			}
		}
	}
	return msg, frames
}

func crashSignature(stderr string) string {
	msg, frames := classifyCrash(stderr)
	return "crash:" + msg + "@" + strings.Join(frames, "<")
}

func tail(s string, n int) string {
	if len(s) <= n {
		return s
	}
	return s[len(s)-n:]
}

func head(s string, n int) string {
	if len(s) <= n {
		return s
	}
	return s[:n]
}

func selfExe() string {
	p, err := os.Executable()
	if err != nil {
		panic(err)
	}
	return p
}

// lastOpenCase returns the case after the last B without E, or -1.
func lastOpenCase(journal string) int {
	f, err := os.Open(journal)
	if err != nil {
		return -1
	}
	defer f.Close()
	open := -1
	sc := bufio.NewScanner(f)
	for sc.Scan() {
		t := sc.Text()
		if len(t) < 3 {
			continue
		}
		n, err := strconv.Atoi(t[2:])
		if err != nil {
			continue
		}
		if t[0] == 'B' {
			open = n
		} else if t[0] == 'E' && n == open {
			open = -1
		}
	}
	return open
}

// runSharded drives worker processes over the case list and merges their results into c.
func runSharded(c *Ctx) {
	ch := c.Check
	nshards := ch.Shards
	if nshards <= 0 {
		nshards = runtime.NumCPU()
		if nshards > 16 {
			nshards = 16
		}
	}
	if v, err := strconv.Atoi(os.Getenv("VERIF_SHARDS")); err == nil && v > 0 && v < nshards {
		nshards = v // development aid: the case list and per-case PRNG do not depend on the shard count
	}
	n := ch.NumCases(c.Tier)
	if n < nshards {
		nshards = n
	}
	if nshards < 1 {
		nshards = 1
	}
	timeout := ch.WorkerTimeout
	if timeout == 0 {
		timeout = 40 * time.Minute
	}
	var wg sync.WaitGroup
	for s := 0; s < nshards; s++ {
		wg.Add(1)
		go func(s int) {
			defer wg.Done()
			from := 0
			crashes := 0
			for attempt := 0; ; attempt++ {
				out := filepath.Join(c.WorkDir, fmt.Sprintf("w%d.%d.json", s, attempt))
				journal := filepath.Join(c.WorkDir, fmt.Sprintf("w%d.%d.journal", s, attempt))
				errFile := filepath.Join(c.WorkDir, fmt.Sprintf("w%d.%d.stderr", s, attempt))
				ef, _ := os.Create(errFile)
				cmd := exec.Command("timeout", "-s", "QUIT", fmt.Sprintf("%d", int(timeout.Seconds())),
					selfExe(), "worker", c.ID, "--tier", c.Tier, "--seed", fmt.Sprint(c.Seed),
					"--shard", fmt.Sprint(s), "--nshards", fmt.Sprint(nshards), "--from", fmt.Sprint(from),
					"--out", out, "--journal", journal)
				cmd.Stdout = ef
				cmd.Stderr = ef
				cmd.Env = append(os.Environ(), ch.Env...)
				cmd.Env = append(cmd.Env, fmt.Sprintf("GORACE=halt_on_error=0 exitcode=0 log_path=%s/race.w%d.%d", c.WorkDir, s, attempt))
				err := cmd.Run()
				ef.Close()
				var res workerResult
				if b, rerr := os.ReadFile(out); rerr == nil {
					json.Unmarshal(b, &res)
					c.merge(&res)
				}
				if err == nil && res.Done {
					return
				}
				// worker died
				stderrB, _ := os.ReadFile(errFile)
				stderr := string(stderrB)
				open := lastOpenCase(journal)
				exit := -1
				if ee, ok := err.(*exec.ExitError); ok {
					exit = ee.ExitCode()
				}
				if strings.Contains(stderr, "VERIF-CPU-BUDGET-EXCEEDED") && open >= 0 {
					c.Count("cpu_budget_exceeded", 1)
					c.Violate("hang:"+mainGoroutineFrames(stderr), fmt.Sprintf("case %d exceeded its CPU budget (restated termination: %gs of process CPU for one input)\n%s", open, ch.CPUBudget, head(stderr[strings.Index(stderr, "VERIF-CPU-BUDGET-EXCEEDED"):], 2500)), open,
						map[string]any{"case": open, "replay": fmt.Sprintf("./check %s --tier %s --seed %d --case %d", c.ID, c.Tier, c.Seed, open)})
					from = open + 1
					continue
				}
				if exit == 124 || strings.Contains(head(stderr, 4000), "SIGQUIT: quit") {
					c.Inconclusive(fmt.Sprintf("worker %d watchdog fired at case %d", s, open))
					saveArtifact(c, fmt.Sprintf("watchdog-w%d.stderr", s), head(stderr, 200000))
					if open < 0 {
						return
					}
					from = open + 1
					continue
				}
				if open < 0 {
					c.Inconclusive(fmt.Sprintf("worker %d died outside a case (exit %d): %s", s, exit, tail(stderr, 600)))
					return
				}
				crashes++
				c.Count("worker_crashes", 1)
				saveArtifact(c, fmt.Sprintf("crash-case%d.stderr", open), head(stderr, 400000))
				c.Violate(crashSignature(stderr), fmt.Sprintf("worker process died (exit %d) while running case %d\n%s", exit, open, head(stderr, 24000)), open,
					map[string]any{"case": open, "replay": fmt.Sprintf("./check %s --tier %s --seed %d --case %d", c.ID, c.Tier, c.Seed, open)})
				if crashes > 30 {
					c.Inconclusive(fmt.Sprintf("worker %d: too many crashes, shard abandoned at case %d", s, open))
					return
				}
				from = open + 1
			}
		}(s)
	}
	wg.Wait()
	collectRaceLogs(c)
}

func saveArtifact(c *Ctx, name, content string) string {
	dir := filepath.Join(verifDir, "replays", c.ID)
	os.MkdirAll(dir, 0o755)
	p := filepath.Join(dir, name)
	os.WriteFile(p, []byte(content), 0o644)
	return p
}

// ---- race logs -------------------------------------------------------------------------------

var raceFrameRe = regexp.MustCompile(`^\s+(\S+)\(`)

// collectRaceLogs parses race.* files in the work dir: each "WARNING: DATA RACE" block becomes a
// violation whose signature is the pair of innermost elk frames of the two accesses.
func collectRaceLogs(c *Ctx) {
	files, _ := filepath.Glob(filepath.Join(c.WorkDir, "race.*"))
	blocks := 0
	for _, f := range files {
		b, err := os.ReadFile(f)
		if err != nil {
			continue
		}
		for _, blk := range strings.Split(string(b), "WARNING: DATA RACE")[1:] {
			blocks++
			sig, first := raceSignature(blk)
			if !first {
				continue
			}
			c.Violate("race:"+sig, "WARNING: DATA RACE"+head(blk, 3500), -1, nil)
		}
	}
	c.Count("race_report_blocks", int64(blocks))
}

// raceSignature returns the innermost elk frame of each of the two access stacks.
func raceSignature(blk string) (string, bool) {
	var sites []string
	sections := regexp.MustCompile(`(?m)^(?:Read|Write|Previous read|Previous write|Atomic read|Atomic write|Previous atomic read|Previous atomic write) at .*$`).FindAllStringIndex(blk, -1)
	for _, loc := range sections {
		rest := blk[loc[1]:]
		site := "?"
		for _, ln := range strings.Split(rest, "\n")[1:] {
			if strings.TrimSpace(ln) == "" {
				break
			}
			m := raceFrameRe.FindStringSubmatch(ln)
			if m == nil {
				continue
			}
			if strings.HasPrefix(m[1], "github.com/elk-language/elk/") {
				site = strings.TrimPrefix(m[1], "github.com/elk-language/elk/")
				break
			}
		}
		sites = append(sites, site)
	}
	if len(sites) < 2 {
		return "unparsed", true
	}
	sort.Strings(sites)
	return sites[0] + "|" + sites[1], true
}

// ---- evidence --------------------------------------------------------------------------------

func (c *Ctx) writeEvidence(wall float64) {
	if c.singleCase {
		return // a --case / --cases / --replay run is a diagnosis, not a check run: it must not replace the evidence
	}
	cov := map[string]any{
		"evaluations":         c.evals,
		"distinct_nontrivial": len(c.distinct),
		"rule":                c.Check.Rule,
		"samples":             c.samples,
		"counters":            c.counters,
		"known_finding_hits":  c.knownHits,
		"inconclusive":        c.inconcl,
	}
	if c.Check.Exhaustive[c.Tier] {
		cov["exhaustive"] = true
	}
	for k, v := range c.extra {
		cov[k] = v
	}
	if len(c.samples) == 0 {
		cov["samples"] = []any{"(no samples recorded)"}
	}
	var vs []any
	for _, v := range c.violations {
		vs = append(vs, map[string]any{"signature": v.Signature, "detail": head(v.Detail, 600), "case": v.Case})
	}
	cov["violation_list"] = vs
	ev := map[string]any{
		"property_id": c.ID,
		"tier":        c.Tier,
		"seed":        c.Seed,
		"level":       "exploration",
		"coverage":    cov,
		"assumptions": append([]string{"executions observed by the monitors only; no claim beyond them"}, c.Check.Assumptions...),
		"wall_s":      wall,
		"violations":  len(c.violations),
	}
	os.MkdirAll(filepath.Join(verifDir, "evidence"), 0o755)
	b, _ := json.MarshalIndent(ev, "", " ")
	os.WriteFile(filepath.Join(verifDir, "evidence", c.ID+".json"), b, 0o644)
}

// finish prints verdict lines and returns the exit code.
func (c *Ctx) finish(start time.Time) int {
	ch := c.Check
	if ch.Post != nil {
		ch.Post(c)
	}
	for name, min := range ch.MinCounters {
		if c.counters[name] < min {
			c.Inconclusive(fmt.Sprintf("monitor observed too little: %s=%d < %d", name, c.counters[name], min))
		}
	}
	if c.evals == 0 {
		c.Inconclusive("no evaluations")
	}
	c.writeEvidence(time.Since(start).Seconds())
	// known findings observed
	for _, k := range c.known {
		if c.knownSeen[k.ID] {
			fmt.Printf("KNOWN-FINDING: property=%s %s [%s] hits=%d\n", c.ID, k.What, k.ID, c.knownHits[k.ID])
		}
	}
	keys := make([]string, 0, len(c.counters))
	for k := range c.counters {
		keys = append(keys, k)
	}
	sort.Strings(keys)
	fmt.Printf("%s tier=%s seed=%d evaluations=%d distinct=%d wall=%.1fs\n", c.ID, c.Tier, c.Seed, c.evals, len(c.distinct), time.Since(start).Seconds())
	for _, k := range keys {
		fmt.Printf("  %s=%d\n", k, c.counters[k])
	}
	if len(c.violations) > 0 {
		for _, v := range c.violations {
			h := sha256.Sum256([]byte(v.Signature))
			name := hex.EncodeToString(h[:6]) + ".json"
			b, _ := json.MarshalIndent(map[string]any{"property": c.ID, "tier": c.Tier, "seed": c.Seed, "violation": v}, "", " ")
			p := saveArtifact(c, name, string(b))
			fmt.Printf("--- %s\n%s\n", v.Signature, head(v.Detail, 1500))
			fmt.Printf("VIOLATION property=%s replay=%s\n", c.ID, p)
		}
		return 1
	}
	if len(c.inconcl) > 0 {
		for _, s := range c.inconcl {
			fmt.Printf("INCONCLUSIVE %s: %s\n", c.ID, head(s, 800))
		}
		return 2
	}
	fmt.Printf("HELD %s on everything observed\n", c.ID)
	return 0
}

// replayWitnesses re-runs the pinned witness of every listed finding of this property that has an Elk
// witness program: while it still misbehaves the finding is "seen" (KNOWN-FINDING line); once it
// behaves as expected nothing is printed and the entry suppresses nothing that the run observes.
func replayWitnesses(c *Ctx) {
	for _, k := range c.known {
		w, ok := k.Witness.(map[string]any)
		if !ok {
			continue
		}
		src, _ := w["elk"].(string)
		want, hasWant := w["expected_stdout"].(string)
		crashWitness, _ := w["crash_witness"].(bool)
		if src == "" || (!hasWant && !crashWitness) {
			continue
		}
		out := runWitnessChild(src)
		c.Count("known_finding_witnesses_replayed", 1)
		reproduced := out != want
		if crashWitness {
			// the program ends with `println "done"`: it reproduces while the interpreter dies before that
			// line (Go panic / fatal error) and the checker still accepts the program
			reproduced = !strings.Contains(out, "done\n") && !strings.Contains(out, "REJECTED")
		}
		if reproduced {
			c.mu.Lock()
			c.knownSeen[k.ID] = true
			c.knownHits[k.ID]++
			c.mu.Unlock()
		}
	}
}

// runWitnessChild runs an Elk program in a child process (a witness may crash the VM) and returns
// stdout followed by a one-line summary of an abnormal end.
func runWitnessChild(src string) string {
	f, err := os.CreateTemp("", "witness-*.elk")
	if err != nil {
		return "<tempfile error>"
	}
	defer os.Remove(f.Name())
	f.WriteString(src)
	f.Close()
	cmd := exec.Command("timeout", "60", selfExe(), "elkout", f.Name())
	out, _ := cmd.Output()
	return string(out)
}

func runCheck(ch *Check, tier string, seed int64, oneCase int) int {
	start := time.Now()
	c := newCtx(ch, tier, seed)
	wd, err := os.MkdirTemp("", "elkverif-"+ch.ID+"-")
	if err != nil {
		panic(err)
	}
	c.WorkDir = wd
	defer os.RemoveAll(wd)
	if oneCase < 0 {
		replayWitnesses(c)
	}
	switch {
	case oneCase >= 0:
		c.singleCase = true
		if ch.Init != nil {
			ch.Init(c)
		}
		ch.Case(c, oneCase, caseRng(seed, ch.ID, oneCase))
	case ch.Run != nil:
		ch.Run(c)
	case ch.InProcess:
		if ch.Init != nil {
			ch.Init(c)
		}
		n := ch.NumCases(tier)
		for i := 0; i < n; i++ {
			ch.Case(c, i, caseRng(seed, ch.ID, i))
		}
	default:
		runSharded(c)
	}
	return c.finish(start)
}

func debugStack() []byte { return debug.Stack() }
