package main

// C33 generator half: non-terminating and blocking program shapes, the case driver and the oracle.

import (
	"fmt"
	"math/rand/v2"
	"strings"
)

// ---- spinning cores ---------------------------------------------------------------------------
// A core is a block that never terminates by itself. It may use the Int local `a` and the String
// local `s` (declared by the placement) and may need top level definitions.

type c33core struct {
	name  string
	defs  string
	block func(body string) string // nil body use: "" allowed
	// noBody: the core takes no body
	noBody bool
	// topOnly: only sensible directly as a statement sequence (all placements allow that)
	weight int
}

const c33Defs = `def helper(x: Int): Int then x + 1
def *gen: Int
  i := 0
  loop
    yield i
    i += 1
  end
end
macro forever(body: ExpressionNode)
  quote
    while true
      !{unhygienic(body)}
    end
  end
end
def spin_explicit(n: Int): Int
  return spin_explicit(n + 1)
end
def spin_implicit(n: Int): Int then spin_implicit(n + 1)
def ping(n: Int): Int then pong(n + 1)
def pong(n: Int): Int then ping(n + 1)
def ping2(n: Int): Int
  return pong2(n + 1) if n % 2 == 0
  pong2(n + 3)
end
def pong2(n: Int): Int
  m := n + 1
  ping2(m)
end
def fib(n: Int): Int
  return n if n < 2
  fib(n - 1) + fib(n - 2)
end
`

func ind(s, p string) string {
	if s == "" {
		return ""
	}
	ls := strings.Split(strings.TrimRight(s, "\n"), "\n")
	for i := range ls {
		ls[i] = p + ls[i]
	}
	return strings.Join(ls, "\n") + "\n"
}

func c33wrap(head, tail string) func(string) string {
	return func(b string) string { return head + "\n" + ind(b, "  ") + tail + "\n" }
}

var c33bodies = []struct{ name, src string }{
	{"incr", "a += 1"},
	{"empty", ""},
	{"only-continue", "continue"},
	{"incr-continue", "a += 1\ncontinue"},
	{"cond-continue", "a += 1\ncontinue if a % 2 == 0\na += 2"},
	{"native-call", "a.to_string"},
	{"string-build", "s = \"#{a}\" + \"x\"\na += 1"},
	{"switch", "a += 1\nswitch a % 3\ncase 0 then a += 2\ncase 1 then a += 1\nelse a += 3\nend"},
	{"pattern", "a += 1\nif [a, 1] match [x, 1]\n  a += 1\nend"},
	{"do-catch", "do\n  a += 1\ncatch e\n  a = 0\nend"},
	{"do-finally", "do\n  a += 1\nfinally\n  a += 1\nend"},
	{"method-call", "a = helper(a)"},
	{"if", "if a > 1000000 then a = 0 else a += 1"},
	{"closure-call", "f0 := |x: Int|: Int -> x + 1\na = f0(a)"},
	{"inner-finite-loop", "for k in 1...3\n  a += k\nend"},
	{"list", "a = [a, 1, 2].length + a"},
}

var c33cores = []c33core{
	{name: "loop", block: c33wrap("loop", "end"), weight: 4},
	{name: "while-true", block: c33wrap("while true", "end"), weight: 3},
	{name: "until-false", block: c33wrap("until false", "end"), weight: 3},
	{name: "while-cond", block: c33wrap("while a >= 0", "end"), weight: 3},
	{name: "until-cond", block: c33wrap("until a < 0", "end"), weight: 3},
	{name: "for-endless-range", block: c33wrap("for i in 1...", "end"), weight: 4},
	{name: "for-endless-range-var", block: func(b string) string { return "r := 5...\n" + c33wrap("for i in r", "end")(b) }, weight: 3},
	{name: "for-endless-open-range", block: c33wrap("for i in 1<..", "end"), weight: 2},
	{name: "fornum-no-cond", block: c33wrap("fornum i := 0;; i += 1", "end"), weight: 4},
	{name: "fornum-cond", block: c33wrap("fornum i := 0; i >= 0; i += 1", "end"), weight: 3},
	{name: "fornum-no-incr", block: c33wrap("fornum i := 0; i >= 0;", "end"), weight: 2},
	{name: "closed-range-restarted", block: func(b string) string { return c33wrap("loop", "end")(c33wrap("for i in 1...20", "end")(b)) }, weight: 2},
	{name: "list-restarted", block: func(b string) string { return c33wrap("while true", "end")(c33wrap("for i in [1, 2, 3]", "end")(b)) }, weight: 2},
	{name: "for-in-generator", block: c33wrap("for x in gen()", "end"), weight: 3},
	{name: "modifier-while", noBody: true, block: func(string) string { return "a += 1 while true\n" }, weight: 2},
	{name: "modifier-until", noBody: true, block: func(string) string { return "a += 1 until false\n" }, weight: 2},
	{name: "modifier-while-cond", noBody: true, block: func(string) string { return "a += 1 while a >= 0\n" }, weight: 1},
	{name: "do-while", block: c33wrap("do", "end while true"), weight: 2},
	{name: "do-until", block: c33wrap("do", "end until false"), weight: 1},
	{name: "labelled-continue-loop", noBody: true, block: func(string) string {
		return "$outer: loop\n  loop\n    a += 1\n    continue[outer] if a % 3 == 0\n  end\nend\n"
	}, weight: 2},
	{name: "labelled-continue-while-for", noBody: true, block: func(string) string {
		return "$outer: while true\n  for i in 1...\n    a += i\n    continue[outer] if i > 3\n  end\nend\n"
	}, weight: 2},
	{name: "labelled-continue-only", noBody: true, block: func(string) string {
		return "$outer: until false\n  fornum i := 0;; i += 1\n    continue[outer]\n  end\nend\n"
	}, weight: 2},
	{name: "macro-while", noBody: true, block: func(string) string { return "forever!(a += 1)\n" }, weight: 3},
	{name: "tail-recursion-explicit-return", noBody: true, block: func(string) string { return "a = spin_explicit(0)\n" }, weight: 2},
	{name: "tail-recursion-implicit-return", noBody: true, block: func(string) string { return "a = spin_implicit(0)\n" }, weight: 2},
	{name: "mutual-tail-recursion", noBody: true, block: func(string) string { return "a = ping(0)\n" }, weight: 2},
	{name: "mutual-tail-recursion-mixed", noBody: true, block: func(string) string { return "a = ping2(0)\n" }, weight: 2},
	{name: "deep-slow-recursion-fib", noBody: true, block: func(string) string { return "a = fib(70)\n" }, weight: 2},
	{name: "native-iterator-map", noBody: true, block: func(string) string { return "(1...).iter.map(|x: Int|: Int -> x + 1)\n" }, weight: 1},
	{name: "native-iterator-filter", noBody: true, block: func(string) string { return "(1...).iter.filter(|x: Int|: bool -> x < 0)\n" }, weight: 1},
	{name: "native-iterator-count", noBody: true, block: func(string) string { return "a = (1...).iter.count(|x: Int|: bool -> x < 0)\n" }, weight: 1},
	{name: "native-iterator-any", noBody: true, block: func(string) string { return "(1...).iter.any(|x: Int|: bool -> x < 0)\n" }, weight: 1},
	{name: "native-iterator-every", noBody: true, block: func(string) string { return "(1...).iter.every(|x: Int|: bool -> x > 0)\n" }, weight: 1},
	{name: "native-iterator-fold", noBody: true, block: func(string) string { return "a = (1...).iter.fold(0, |acc: Int, x: Int|: Int -> acc + 1)\n" }, weight: 1},
	{name: "native-iterator-generator-count", noBody: true, block: func(string) string { return "a = gen().count(|x: Int|: bool -> x < 0)\n" }, weight: 1},
	{name: "channel-fed-for-in", noBody: true, block: func(string) string {
		return "chf := Channel::[Int](2)\ngo\n  k := 0\n  loop\n    k += 1\n    chf << k\n  end\nend\nfor x in chf\n  a += x\nend\n"
	}, weight: 2},
	{name: "channel-ping-pong", noBody: true, block: func(string) string {
		return "c1 := Channel::[Int](0)\nc2 := Channel::[Int](0)\ngo\n  loop\n    v := try c1.pop\n    try c2.push(v + 1)\n  end\nend\nloop\n  try c1.push(a)\n  a = try c2.pop\nend\n"
	}, weight: 2},
	{name: "sleep-loop", noBody: true, block: func(string) string { return "loop\n  sleep(1.millisecond)\n  a += 1\nend\n" }, weight: 1},
}

// ---- placements ---------------------------------------------------------------------------------

type c33placement struct {
	name    string
	threads bool
	build   func(defs, core string) string
	weight  int
}

const c33Locals = "s := \"\"\n"

var c33placements = []c33placement{
	{name: "top-level", weight: 5, build: func(d, c string) string { return d + "a := 0\n" + c33Locals + c }},
	{name: "method", weight: 4, build: func(d, c string) string {
		return d + "def run(n: Int): Int\n  a := n\n" + ind(c33Locals+c, "  ") + "  a\nend\nrun(0)\n"
	}},
	{name: "closure", weight: 4, build: func(d, c string) string {
		return d + "f := ||: Int ->\n  a := 0\n" + ind(c33Locals+c, "  ") + "  a\nend\nf()\n"
	}},
	{name: "instance-method", weight: 2, build: func(d, c string) string {
		return d + "class Foo\n  def run(n: Int): Int\n    a := n\n" + ind(c33Locals+c, "    ") + "    a\n  end\nend\nFoo().run(0)\n"
	}},
	{name: "module-method", weight: 2, build: func(d, c string) string {
		return d + "module Mod\n  def run(n: Int): Int\n    a := n\n" + ind(c33Locals+c, "    ") + "    a\n  end\nend\nMod.run(0)\n"
	}},
	{name: "class-body", weight: 1, build: func(d, c string) string {
		return d + "class Baz\n  a := 0\n" + ind(c33Locals+c, "  ") + "end\n"
	}},
	{name: "native-callback", weight: 3, build: func(d, c string) string {
		return d + "cb := |y: Int|: Int ->\n  a := y\n" + ind(c33Locals+c, "  ") + "  a\nend\n[1, 2, 3].map(cb)\n"
	}},
	{name: "nested-closure-in-method", weight: 2, build: func(d, c string) string {
		return d + "def outer(n: Int): Int\n  g := |y: Int|: Int ->\n    a := y\n" + ind(c33Locals+c, "    ") + "    a\n  end\n  g(n) + 1\nend\nouter(1)\n"
	}},
	{name: "finally-block", weight: 1, build: func(d, c string) string {
		return d + "a := 0\n" + c33Locals + "do\n  a = 1\nfinally\n" + ind(c, "  ") + "end\n"
	}},
	{name: "catch-block", weight: 1, build: func(d, c string) string {
		return d + "a := 0\n" + c33Locals + "do\n  throw unchecked 7\ncatch 7\n" + ind(c, "  ") + "end\n"
	}},
	{name: "generator-body", weight: 2, build: func(d, c string) string {
		return d + "def *g2: Int\n  a := 0\n" + ind(c33Locals, "  ") + "  yield 0\n" + ind(c, "  ") + "  a\nend\nfor v in g2()\n  println v.inspect\nend\n"
	}},
	{name: "async-awaited", threads: true, weight: 4, build: func(d, c string) string {
		return d + "async def run(n: Int): Int\n  a := n\n" + ind(c33Locals+c, "  ") + "  a\nend\nawait run(0)\n"
	}},
	{name: "async-nested-await", threads: true, weight: 3, build: func(d, c string) string {
		return d + "async def run(n: Int): Int\n  a := n\n" + ind(c33Locals+c, "  ") + "  a\nend\nasync def mid(n: Int): Int\n  r := await run(n)\n  r + 1\nend\nawait mid(0)\n"
	}},
	{name: "async-unawaited-main-spins", threads: true, weight: 2, build: func(d, c string) string {
		return d + "async def run(n: Int): Int\n  a := n\n" + ind(c33Locals+c, "  ") + "  a\nend\nrun(0)\nb := 0\nloop\n  b += 1\nend\n"
	}},
	{name: "go-thread-main-pops", threads: true, weight: 4, build: func(d, c string) string {
		return d + "chm := Channel::[Int](0)\ngo\n  a := 0\n" + ind(c33Locals+c, "  ") + "end\ntry chm.pop\n"
	}},
	{name: "go-thread-main-sleeps", threads: true, weight: 2, build: func(d, c string) string {
		return d + "go\n  a := 0\n" + ind(c33Locals+c, "  ") + "end\nsleep(1.hour)\n"
	}},
	{name: "go-thread-main-awaits-timeout", threads: true, weight: 2, build: func(d, c string) string {
		return d + "go\n  a := 0\n" + ind(c33Locals+c, "  ") + "end\nawait timeout(1.hour)\n"
	}},
	{name: "go-thread-main-selects", threads: true, weight: 2, build: func(d, c string) string {
		return d + "cs1 := Channel::[Int](0)\ncs2 := Channel::[Int](0)\ngo\n  a := 0\n" + ind(c33Locals+c, "  ") + "end\nselect\ncase v := <<cs1\n  println v.inspect\ncase v := <<cs2\n  println v.inspect\nend\n"
	}},
	{name: "go-thread-main-spins", threads: true, weight: 2, build: func(d, c string) string {
		return d + "go\n  a := 0\n" + ind(c33Locals+c, "  ") + "end\nb := 0\nwhile b >= 0\n  b += 1\nend\n"
	}},
	{name: "two-go-threads-main-pops", threads: true, weight: 2, build: func(d, c string) string {
		t := "go\n  a := 0\n" + ind(c33Locals+c, "  ") + "end\n"
		return d + "chm := Channel::[Int](0)\n" + t + t + "try chm.pop\n"
	}},
}

// ---- blocking operations --------------------------------------------------------------------------

type c33blockOp struct {
	name   string
	setup  string // top level declarations
	op     string // the blocking statement(s)
	weight int
	// parameters when the operation is moved into a function: name: type
	params, args string
}

var c33blockOps = []c33blockOp{
	{name: "channel-pop", setup: "ch := Channel::[Int](0)\n", op: "v := try ch.pop\nprintln v.inspect\n", weight: 4, params: "ch: Channel[Int]", args: "ch"},
	{name: "channel-pop-operator", setup: "ch := Channel::[Int](0)\n", op: "v := <<ch\nprintln v.inspect\n", weight: 3, params: "ch: Channel[Int]", args: "ch"},
	{name: "channel-push", setup: "ch := Channel::[Int](0)\n", op: "try ch.push(1)\nprintln \"pushed\"\n", weight: 3, params: "ch: Channel[Int]", args: "ch"},
	{name: "channel-push-operator", setup: "ch := Channel::[Int](0)\n", op: "ch << 1\nprintln \"pushed\"\n", weight: 3, params: "ch: Channel[Int]", args: "ch"},
	{name: "buffered-channel-full-push", setup: "ch := Channel::[Int](1)\nch << 1\n", op: "ch << 2\nprintln \"pushed\"\n", weight: 2, params: "ch: Channel[Int]", args: "ch"},
	{name: "for-in-channel", setup: "ch := Channel::[Int](0)\n", op: "for x in ch\n  println x.inspect\nend\n", weight: 4, params: "ch: Channel[Int]", args: "ch"},
	{name: "for-in-read-channel", setup: "ch := Channel::[Int](0)\nrch := ch.readonly\n", op: "for x in rch\n  println x.inspect\nend\n", weight: 2, params: "rch: ReadChannel[Int]", args: "rch"},
	{name: "read-channel-pop", setup: "ch := Channel::[Int](0)\nrch := ch.readonly\n", op: "v := try rch.pop\nprintln v.inspect\n", weight: 2, params: "rch: ReadChannel[Int]", args: "rch"},
	{name: "write-channel-push", setup: "ch := Channel::[Int](0)\nwch := ch.writeonly\n", op: "try wch.push(3)\nprintln \"pushed\"\n", weight: 2, params: "wch: WriteChannel[Int]", args: "wch"},
	{name: "channel-next", setup: "ch := Channel::[Int](0)\n", op: "v := try ch.next\nprintln v.inspect\n", weight: 2, params: "ch: Channel[Int]", args: "ch"},
	{name: "select", setup: "ch := Channel::[Int](0)\nch2 := Channel::[Int](0)\n", op: "select\ncase v := <<ch\n  println v.inspect\ncase w := <<ch2\n  println w.inspect\nend\n", weight: 3, params: "ch: Channel[Int], ch2: Channel[Int]", args: "ch, ch2"},
	{name: "select-send", setup: "ch := Channel::[Int](0)\nch2 := Channel::[Int](0)\n", op: "select\ncase ch << 1\n  println \"sent\"\ncase w := <<ch2\n  println w.inspect\nend\n", weight: 2, params: "ch: Channel[Int], ch2: Channel[Int]", args: "ch, ch2"},
	{name: "aborter-closed-channel-pop", setup: "ab := Aborter()\n", op: "<<ab.closed\nprintln \"closed\"\n", weight: 1, params: "ab: Aborter", args: "ab"},
	{name: "sleep", setup: "", op: "sleep(1.hour)\nprintln \"woke\"\n", weight: 4},
	{name: "await-timeout", setup: "", op: "await timeout(1.hour)\nprintln \"woke\"\n", weight: 4},
	{name: "await-async-blocked-on-pop", setup: "ch := Channel::[Int](0)\nasync def waiter(c: Channel[Int]): Int\n  try c.pop\nend\n", op: "v := await waiter(ch)\nprintln v.inspect\n", weight: 3, params: "ch: Channel[Int]", args: "ch"},
	{name: "await-promise-wait", setup: "", op: "await Promise.wait(timeout(1.hour), timeout(2.hours))\nprintln \"woke\"\n", weight: 2},
	{name: "await-chain", setup: "async def slow: Int\n  await timeout(1.hour)\n  1\nend\nasync def mid2: Int\n  r := await slow()\n  r + 1\nend\n", op: "v := await mid2()\nprintln v.inspect\n", weight: 3},
	{name: "waitgroup-wait", setup: "wg := Sync::WaitGroup(1)\n", op: "wg.wait\nprintln \"done\"\n", weight: 1, params: "wg: Sync::WaitGroup", args: "wg"},
	{name: "mutex-lock", setup: "mu := Sync::Mutex()\nmu.lock\n", op: "mu.lock\nprintln \"locked\"\n", weight: 1, params: "mu: Sync::Mutex", args: "mu"},
	{name: "rwmutex-lock", setup: "rw := Sync::RWMutex()\nrw.read_lock\n", op: "rw.lock\nprintln \"locked\"\n", weight: 1, params: "rw: Sync::RWMutex", args: "rw"},
	{name: "rwmutex-read-lock", setup: "rw := Sync::RWMutex()\nrw.lock\n", op: "rw.read_lock\nprintln \"locked\"\n", weight: 1, params: "rw: Sync::RWMutex", args: "rw"},
}

type c33blockPlacement struct {
	name    string
	threads bool
	weight  int
	build   func(o c33blockOp) string
}

var c33blockPlacements = []c33blockPlacement{
	{name: "top-level", weight: 5, build: func(o c33blockOp) string { return o.setup + o.op }},
	{name: "method", weight: 3, build: func(o c33blockOp) string {
		return o.setup + "def blocked(" + o.params + "): Int\n" + ind(o.op, "  ") + "  1\nend\nblocked(" + o.args + ")\n"
	}},
	{name: "closure", weight: 2, build: func(o c33blockOp) string {
		return o.setup + "bf := ||: Int ->\n" + ind(o.op, "  ") + "  1\nend\nbf()\n"
	}},
	{name: "inside-loop", weight: 2, build: func(o c33blockOp) string {
		return o.setup + "loop\n" + ind(o.op, "  ") + "end\n"
	}},
	{name: "async-awaited", threads: true, weight: 2, build: func(o c33blockOp) string {
		return o.setup + "async def blocked(" + o.params + "): Int\n" + ind(o.op, "  ") + "  1\nend\nawait blocked(" + o.args + ")\n"
	}},
	{name: "go-thread-and-main", threads: true, weight: 3, build: func(o c33blockOp) string {
		return o.setup + "go\n" + ind(o.op, "  ") + "end\n" + o.op
	}},
	{name: "go-thread-main-spins", threads: true, weight: 2, build: func(o c33blockOp) string {
		return o.setup + "go\n" + ind(o.op, "  ") + "end\nb := 0\nloop\n  b += 1\nend\n"
	}},
}

func c33pickW[T any](r *rand.Rand, xs []T, w func(T) int) T {
	t := 0
	for _, x := range xs {
		t += w(x)
	}
	k := r.IntN(t)
	for _, x := range xs {
		k -= w(x)
		if k < 0 {
			return x
		}
	}
	return xs[len(xs)-1]
}

type c33case struct {
	Family    string `json:"family"`
	Shape     string `json:"shape"`
	Placement string `json:"placement"`
	Body      string `json:"body,omitempty"`
	CancelAt  int64  `json:"cancel_at"`
	CtxKind   string `json:"ctx"`
	Src       string `json:"elk"`
	threads   bool
}

func c33cancelTime(r *rand.Rand) int64 {
	switch r.IntN(10) {
	case 0:
		return 0
	case 1:
		return 1
	case 2, 3:
		return int64(2 + r.IntN(60))
	case 4, 5, 6:
		return int64(60 + r.IntN(2000))
	default:
		return int64(2000 + r.IntN(30000))
	}
}

func c33ctxKind(r *rand.Rand) string {
	return []string{"cancel", "cancel", "cancel", "parent", "deadline", "deadline-child"}[r.IntN(6)]
}

func c33gen(r *rand.Rand) *c33case {
	cs := &c33case{CtxKind: c33ctxKind(r)}
	if r.IntN(100) < 62 {
		cs.Family = "spin"
		core := c33pickW(r, c33cores, func(c c33core) int { return c.weight })
		pl := c33pickW(r, c33placements, func(p c33placement) int { return p.weight })
		body := c33bodies[r.IntN(len(c33bodies))]
		if r.IntN(3) == 0 {
			body = c33bodies[r.IntN(5)] // the short ones more often
		}
		if core.noBody {
			body.name, body.src = "", ""
		}
		if strings.HasPrefix(core.name, "do-") && strings.Contains(body.src, "continue") {
			body = c33bodies[0]
		}
		cs.Shape, cs.Placement, cs.Body = core.name, pl.name, body.name
		cs.Src = pl.build(c33Defs, core.block(body.src))
		cs.CancelAt = c33cancelTime(r)
		cs.threads = pl.threads || strings.HasPrefix(core.name, "channel-")
		return cs
	}
	cs.Family = "block"
	op := c33pickW(r, c33blockOps, func(o c33blockOp) int { return o.weight })
	pl := c33pickW(r, c33blockPlacements, func(p c33blockPlacement) int { return p.weight })
	if op.params == "" && op.args == "" {
		// nothing to pass
	}
	cs.Shape, cs.Placement = op.name, pl.name
	cs.Src = pl.build(op)
	cs.threads = pl.threads || strings.HasPrefix(op.name, "await")
	if r.IntN(2) == 0 || pl.name == "go-thread-main-spins" {
		cs.CancelAt = int64(r.IntN(80))
		if pl.name == "go-thread-main-spins" {
			cs.CancelAt = c33cancelTime(r)
		}
	} else {
		cs.CancelAt = c33CancelQuiescent
	}
	return cs
}

func c33bucket(n int64) string {
	switch {
	case n < 0:
		return "quiescent"
	case n < 2:
		return fmt.Sprint(n)
	case n < 60:
		return "small"
	case n < 2000:
		return "medium"
	}
	return "large"
}

func c33judge(c *Ctx, i int, cs *c33case, out *c33Outcome) {
	shape := cs.Shape + "@" + cs.Placement
	detail := func(msg string) string {
		return fmt.Sprintf("%s\nshape=%s body=%s cancel_at=%d (%s) ctx=%s; instructions: at cancel %d, after cancel %d, after main returned %d\nstdout: %s\nstderr: %s",
			msg, shape, cs.Body, cs.CancelAt, out.CancelMode, cs.CtxKind, out.AtCancel, out.After, out.AfterReturn, head(out.Stdout, 300), head(out.Stderr, 600))
	}
	switch {
	case out.CompilePanic != "":
		c.Violate("compile-panic:"+shape, detail("the checker/compiler panicked: "+head(out.CompilePanic, 1500)), i, cs)
		return
	case out.Rejected:
		c.Count("rejected_programs", 1)
		c.Violate("harness:generated-program-rejected:"+shape, detail("generator bug, the program was rejected:\n"+out.Diag), i, cs)
		return
	}
	c.Eval(1)
	c.Count("programs_run", 1)
	c.Count("family_"+cs.Family, 1)
	c.Count("instructions_observed", out.Total)
	c.Max("max_instructions_after_cancel", out.After)
	if out.Panic != "" {
		c.Violate("go-panic:"+shape, detail("Go panic in the main thread: "+out.Panic+"\n"+head(out.PanicStack, 2000)), i, cs)
		return
	}
	if !out.Cancelled {
		// the program ended by itself before the cancel point
		c.Count("ended_before_cancel", 1)
		return
	}
	c.Count("cancelled_runs", 1)
	c.Count("cancel_"+c33bucket(cs.CancelAt), 1)
	c.Count("ctx_"+cs.CtxKind, 1)
	c.Distinct(shape + "|" + cs.Body + "|" + c33bucket(cs.CancelAt) + "|" + cs.CtxKind)
	switch {
	case out.RunsOn:
		c.Violate("runs-on:"+shape, detail(fmt.Sprintf("the program executed more than %d instructions after its context was cancelled and was still running", c33K)), i, cs)
	case out.Hang:
		c.Violate("hangs:"+shape, detail(fmt.Sprintf("after the cancel no instruction is executed any more and the main thread does not return: its goroutine is parked [%s] in %s\n%s", out.HangState, out.HangFrame, head(out.HangStack, 1800))), i, cs)
	case out.NativeSpin:
		c.Violate("runs-on-native:"+shape, detail(fmt.Sprintf("after the cancel the main thread keeps running native code without executing instructions [%s] in %s\n%s", out.HangState, out.HangFrame, head(out.HangStack, 1800))), i, cs)
	case !out.Returned:
		c.Inconclusive(fmt.Sprintf("case %d: no verdict (%s)", i, shape))
	case !out.HasErr:
		c.Violate("no-error-returned:"+shape, detail("the run returned the value "+out.ValInspect+" instead of Std::ExecutionAbortedError although its context had been cancelled while it was running"), i, cs)
	case !out.ErrIsAbort:
		c.Violate("wrong-error:"+shape, detail("the run returned the error "+out.ErrInspect+" instead of Std::ExecutionAbortedError"), i, cs)
	default:
		c.Count("aborted_with_error", 1)
	}
	if out.ThreadsRunOn {
		c.Violate("thread-runs-on:"+shape, detail(fmt.Sprintf("another thread of the program executed more than %d instructions after the main thread had returned from the cancelled run", c33K)), i, cs)
	}
	if len(out.ThreadsParked) > 0 {
		c.Violate("thread-hangs:"+shape, detail("after the main thread returned, threads started with go are still parked: "+strings.Join(out.ThreadsParked, "; ")), i, cs)
	}
	if cs.threads {
		c.Count("runs_with_threads", 1)
	}
}

func init() {
	register(&Check{
		ID:   "C33",
		Rule: "Each case is a generated non-terminating Elk program: a spinning core (every loop form, modifier loops, labelled continue, endless ranges, infinite generator, native iterator methods driven by closures, macro-expanded loop, tail/mutual/deep recursion, channel-fed loops) with a random body, or a blocking operation (channel pop/push/for-in/next/select, sleep, await of a promise that does not settle, WaitGroup, Mutex, RWMutex), placed at top level, in a method/closure/constructor/class body/native callback/generator/finally, in an async function awaited from main or in go threads while main blocks. The program is compiled like the REPL does (additional abort checks) and run on a VM thread + thread pool sharing one Aborter; the context is made done (explicit cancel, parent cancel, deadline) at a logical time: after N executed instructions (N from the seed: 0, 1, small, medium, large; counted by the verif instruction hook) or when the program has become quiescent (blocked). Oracle: the main thread returns Std::ExecutionAbortedError (not a value, not another error, no Go panic) after at most K=20000 further instructions of all threads; if no instruction is executed any more and the thread is parked in a blocking operation that is a hang; after the return no thread of the run keeps executing instructions or stays parked. Distinct = shape x placement x body x cancel-time bucket x context kind.",
		NumCases: func(tier string) int {
			if tier == "thorough" {
				return 4500
			}
			return 900
		},
		Case: func(c *Ctx, i int, r *rand.Rand) {
			cs := c33gen(r)
			out := c33Exec(cs.Src, c33Opts{CancelAt: cs.CancelAt, CtxKind: cs.CtxKind, HasThreads: cs.threads})
			if i < 3 {
				c.Sample(map[string]any{"shape": cs.Shape + "@" + cs.Placement, "cancel_at": cs.CancelAt, "after": out.After, "err": out.ErrInspect})
			}
			c33judge(c, i, cs, out)
		},
		MinCounters: map[string]int64{"cancelled_runs": 800, "aborted_with_error": 750, "family_block": 250, "runs_with_threads": 250},
		Assumptions: []string{
			"promptness is restated logically: at most 20000 VM instructions (all threads) after the cancel; wall-clock time only schedules the sampling",
			"a hang is reported only when, after the cancel, no instruction was executed during 30+ sampling periods AND the goroutine dump shows the main VM goroutine parked (chan receive/send, select, sync.*, sleep); a runnable goroutine is never reported as a hang",
			"the thread pool shares the Aborter of the main thread (as in RunElk); the REPL's default pool keeps its own aborter, which is outside this check",
			"purely native endless loops ((1...).iter.length) cannot be stopped from inside the process and are covered by a witness only",
		},
		CPUBudget: 120,
	})
}
