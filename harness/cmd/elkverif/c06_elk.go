package main

import (
	"fmt"
	"math/big"
	"math/rand/v2"
	"strings"
)

// Elk-level probes for C06: one program with many probes, each printing "P<k> <result>".

type elkIntProbe struct {
	op      string
	variant string // lit | typed | generic | call
	a, b    *big.Int
	want    string
}

var c06ElkOps = []string{"+", "-", "*", "/", "%", "**", "<<", ">>", "&", "|", "^", "&~", "<=>", "<", "<=", ">", ">=", "==", "-@", "~"}

func c06Want(op string, a, b *big.Int) (string, bool) {
	for i := range intOps {
		if intOps[i].name != op {
			continue
		}
		w := intOps[i].ref(a, b)
		switch x := w.(type) {
		case nil:
			return "", false
		case string:
			return x, true
		case bool:
			return fmt.Sprint(x), true
		case *big.Int:
			return x.String(), true
		}
	}
	return "", false
}

func lit(x *big.Int) string { return "(" + x.String() + ")" }

func c06ElkCase(c *Ctx, caseIdx int, r *rand.Rand) {
	var probes []elkIntProbe
	var sb strings.Builder
	for k := 0; k < 40; k++ {
		op := c06ElkOps[r.IntN(len(c06ElkOps))]
		var a, b *big.Int
		if r.IntN(2) == 0 {
			a = intPool[r.IntN(len(intPool))]
		} else {
			a = randBig(r)
		}
		if r.IntN(2) == 0 {
			b = intPool[r.IntN(len(intPool))]
		} else {
			b = randBig(r)
		}
		if op == "**" {
			b = big.NewInt(int64(r.IntN(12)))
			if a.BitLen() > 100 {
				a = big.NewInt(int64(r.IntN(2000) - 1000))
			}
		}
		if op == "<<" || op == ">>" {
			b = big.NewInt(int64(r.IntN(400) - 200))
		}
		want, ok := c06Want(op, a, b)
		if !ok {
			continue
		}
		variant := []string{"lit", "typed", "generic", "call"}[r.IntN(4)]
		unary := op == "-@" || op == "~"
		generic := variant == "generic"
		if generic && (unary || op == "&" || op == "|" || op == "^" || op == "&~" || op == "<<" || op == ">>") {
			variant = "typed"
		}
		id := len(probes)
		var expr string
		switch variant {
		case "lit":
			if unary {
				expr = strings.TrimSuffix(op, "@") + lit(a)
			} else {
				expr = lit(a) + " " + op + " " + lit(b)
			}
		case "typed", "call", "generic":
			typ := "Int"
			if variant == "generic" {
				typ = "CoercibleNumeric"
			}
			fmt.Fprintf(&sb, "var a%d: %s = %s\nvar b%d: %s = %s\n", id, typ, a, id, typ, b)
			switch {
			case variant == "call" && unary:
				expr = fmt.Sprintf("a%d.%s", id, op)
			case variant == "call":
				expr = fmt.Sprintf("a%d.%s(b%d)", id, op, id)
			case unary:
				expr = fmt.Sprintf("%sa%d", strings.TrimSuffix(op, "@"), id)
			default:
				expr = fmt.Sprintf("a%d %s b%d", id, op, id)
			}
		}
		if want == "zde" {
			fmt.Fprintf(&sb, "do\n  println(\"P%d #{%s}\")\ncatch ZeroDivisionError()\n  println(\"P%d zde\")\nend\n", id, expr, id)
		} else {
			fmt.Fprintf(&sb, "println(\"P%d #{%s}\")\n", id, expr)
		}
		if op == "<=>" && want != "zde" {
			// nothing special: prints -1/0/1
		}
		probes = append(probes, elkIntProbe{op, variant, a, b, want})
	}
	src := sb.String()
	if caseIdx%97 == 0 {
		c.Sample(map[string]string{"elk_program_head": head(src, 400)})
	}
	res := RunElk(src, nil)
	c.Eval(int64(len(probes)))
	if res.Panic != "" {
		c.Violate("elk:panic:"+res.PanicPhase+":"+panicSite(res.PanicStack), fmt.Sprintf("panic %s\n%s\nprogram:\n%s", res.Panic, head(res.PanicStack, 1500), src), caseIdx, src)
		return
	}
	if res.Rejected {
		// The constant folder may reject some literal probes (e.g. literal division by zero); count, do not judge.
		c.Count("elk_programs_rejected", 1)
		c.Extra("elk_last_rejection", head(diagString(res.Diagnostics), 300))
		return
	}
	got := map[int]string{}
	for _, ln := range strings.Split(res.Stdout, "\n") {
		var k int
		var rest string
		if n, _ := fmt.Sscanf(ln, "P%d %s", &k, &rest); n == 2 {
			got[k] = rest
		}
	}
	for k, p := range probes {
		c.Count("elk_probes", 1)
		g, ok := got[k]
		site := fmt.Sprintf("elk:%s:%s:%s/%s", p.variant, p.op, intRepr(p.a), intRepr(p.b))
		if !ok {
			c.Violate(site+":no-output", fmt.Sprintf("probe %d (%s %s %s, %s) printed nothing; err=%s\n%s", k, p.a, p.op, p.b, p.variant, res.ErrInspect, head(res.Trace, 500)), caseIdx, src)
			break
		}
		if g != p.want {
			c.Violate(site+":wrong", fmt.Sprintf("%s %s %s via %s: want %s got %s", p.a, p.op, p.b, p.variant, p.want, g), caseIdx,
				map[string]string{"a": p.a.String(), "b": p.b.String(), "op": p.op, "variant": p.variant})
		}
		c.Distinct(fmt.Sprintf("elk|%s|%s|%s|%s", p.variant, p.op, intRepr(p.a), intRepr(p.b)))
	}
}

// panicSite extracts the innermost elk frames below the panic from a debug.Stack() dump.
func panicSite(stack string) string {
	lines := strings.Split(stack, "\n")
	var frames []string
	// skip everything up to the last "panic(" frame
	start := 0
	for i, ln := range lines {
		if strings.HasPrefix(ln, "panic(") {
			start = i
		}
	}
	for _, ln := range lines[start:] {
		if strings.HasPrefix(ln, "github.com/elk-language/elk/") {
			fn := ln
			if i := strings.LastIndex(fn, "("); i > 0 {
				fn = fn[:i]
			}
			fn = strings.TrimPrefix(fn, "github.com/elk-language/elk/")
			if strings.Contains(fn, ".func") && strings.Contains(fn, "Thread).run") {
				continue
			}
			frames = append(frames, fn)
			if len(frames) == 2 {
				break
			}
		}
	}
	if len(frames) == 0 {
		return "?"
	}
	return strings.Join(frames, "<")
}
