package main

// C06 — Int arithmetic is exact and independent of integer representation.
// Go-level monitor: every generic / Int-typed helper of package value that the VM's opcodes call is
// run next to a math/big reference over boundary-pool pairs (exhaustive) and seeded random operands.
// Elk-level monitor: the same operand pairs go through the constant folder, typed opcodes, generic
// opcodes and explicit method calls as batched probe programs.

import (
	"fmt"
	"math/big"
	"math/rand/v2"
	"strings"

	"github.com/elk-language/elk/value"
)

func bigPow2(k int) *big.Int { return new(big.Int).Lsh(big.NewInt(1), uint(k)) }

var intPool = func() []*big.Int {
	var p []*big.Int
	add := func(x *big.Int) {
		p = append(p, new(big.Int).Set(x), new(big.Int).Neg(x))
	}
	for _, s := range []int64{0, 1, 2, 3, 7, 10, 63, 64, 65, 255} {
		add(big.NewInt(s))
	}
	for _, k := range []int{7, 8, 15, 16, 31, 32, 53, 62, 63, 64, 65, 127, 128} {
		x := bigPow2(k)
		add(x)
		add(new(big.Int).Sub(x, big.NewInt(1)))
		add(new(big.Int).Add(x, big.NewInt(1)))
	}
	for _, e := range []int64{18, 19, 20, 30} {
		add(new(big.Int).Exp(big.NewInt(10), big.NewInt(e), nil))
	}
	// dedupe
	seen := map[string]bool{}
	var out []*big.Int
	for _, x := range p {
		if !seen[x.String()] {
			seen[x.String()] = true
			out = append(out, x)
		}
	}
	return out
}()

func randBig(r *rand.Rand) *big.Int {
	bits := []int{1, 8, 16, 31, 32, 33, 62, 63, 64, 65, 70, 100, 128, 200, 256}[r.IntN(15)]
	x := new(big.Int)
	for i := 0; i < (bits+63)/64; i++ {
		x.Lsh(x, 64)
		x.Or(x, new(big.Int).SetUint64(r.Uint64()))
	}
	x.Rsh(x, uint((64-bits%64)%64))
	switch r.IntN(6) {
	case 0: // near a power of two
		x = new(big.Int).Add(bigPow2(bits), big.NewInt(int64(r.IntN(5))-2))
	}
	if r.IntN(2) == 0 {
		x.Neg(x)
	}
	return x
}

// toElkInt builds the canonical Elk representation of x.
func toElkInt(x *big.Int) value.Value {
	if x.IsInt64() {
		return value.SmallInt(x.Int64()).ToValue()
	}
	return value.Ref(value.ToElkBigInt(new(big.Int).Set(x)))
}

func intRepr(x *big.Int) string {
	if x.IsInt64() {
		return "small"
	}
	return "big"
}

// elkIntToBig extracts the mathematical value and whether the representation is canonical.
func elkIntToBig(v value.Value) (x *big.Int, canonical bool, ok bool) {
	if v.IsSmallInt() {
		return big.NewInt(int64(v.AsSmallInt())), true, true
	}
	if v.IsReference() {
		if b, isBig := v.AsReference().(*value.BigInt); isBig {
			g := b.ToGoBigInt()
			return new(big.Int).Set(g), !g.IsInt64(), true
		}
	}
	return nil, false, false
}

type intImpl struct {
	name string
	f    func(l, r value.Value) (value.Value, value.Value)
}

func noErr(f func(l, r value.Value) value.Value) func(l, r value.Value) (value.Value, value.Value) {
	return func(l, r value.Value) (value.Value, value.Value) { return f(l, r), value.Undefined }
}
func boolRes(f func(l, r value.Value) bool) func(l, r value.Value) (value.Value, value.Value) {
	return func(l, r value.Value) (value.Value, value.Value) {
		return value.BoolVal(f(l, r)), value.Undefined
	}
}
func boolErrRes(f func(l, r value.Value) (bool, value.Value)) func(l, r value.Value) (value.Value, value.Value) {
	return func(l, r value.Value) (value.Value, value.Value) {
		b, e := f(l, r)
		if !e.IsUndefined() {
			return value.Undefined, e
		}
		return value.BoolVal(b), value.Undefined
	}
}

type intOp struct {
	name  string
	unary bool
	// ref returns the expected result: *big.Int, bool, or the string "zde"; nil = skip this pair
	ref   func(a, b *big.Int) any
	impls []intImpl
}

func truncShift(a *big.Int, n int64) *big.Int {
	if n >= 0 {
		return new(big.Int).Lsh(a, uint(n))
	}
	return new(big.Int).Rsh(a, uint(-n)) // big.Int.Rsh is arithmetic (floor), like >> on two's complement
}

func smallShiftCount(b *big.Int) (int64, bool) {
	if !b.IsInt64() {
		return 0, false
	}
	n := b.Int64()
	if n > 300 || n < -300 {
		return 0, false
	}
	return n, true
}

var intOps = []intOp{
	{name: "+", ref: func(a, b *big.Int) any { return new(big.Int).Add(a, b) },
		impls: []intImpl{{"AddVal", value.AddVal}, {"AddInt", value.AddInt}, {"AddInts", noErr(value.AddInts)}}},
	{name: "-", ref: func(a, b *big.Int) any { return new(big.Int).Sub(a, b) },
		impls: []intImpl{{"SubtractVal", value.SubtractVal}, {"SubtractInt", value.SubtractInt}, {"SubtractInts", noErr(value.SubtractInts)}}},
	{name: "*", ref: func(a, b *big.Int) any { return new(big.Int).Mul(a, b) },
		impls: []intImpl{{"MultiplyVal", value.MultiplyVal}, {"MultiplyInt", value.MultiplyInt}, {"MultiplyInts", noErr(value.MultiplyInts)}}},
	{name: "/", ref: func(a, b *big.Int) any {
		if b.Sign() == 0 {
			return "zde"
		}
		return new(big.Int).Quo(a, b)
	}, impls: []intImpl{{"DivideVal", value.DivideVal}, {"DivideInt", value.DivideInt}, {"DivideInts", value.DivideInts}}},
	{name: "%", ref: func(a, b *big.Int) any {
		if b.Sign() == 0 {
			return "zde"
		}
		return new(big.Int).Rem(a, b)
	}, impls: []intImpl{{"ModuloVal", value.ModuloVal}, {"ModuloInt", value.ModuloInt}, {"ModuloInts", value.ModuloInts}}},
	{name: "**", ref: func(a, b *big.Int) any {
		if b.Sign() < 0 || !b.IsInt64() || b.Int64() > 40 || a.BitLen() > 140 {
			return nil
		}
		return new(big.Int).Exp(a, b, nil)
	}, impls: []intImpl{{"ExponentiateVal", value.ExponentiateVal}, {"ExponentiateInt", value.ExponentiateInt}, {"ExponentiateInts", noErr(value.ExponentiateInts)}}},
	{name: "<<", ref: func(a, b *big.Int) any {
		n, ok := smallShiftCount(b)
		if !ok {
			return nil
		}
		return truncShift(a, n)
	}, impls: []intImpl{{"LeftBitshiftVal", value.LeftBitshiftVal}, {"LeftBitshiftInt", value.LeftBitshiftInt}, {"LeftBitshiftInts", noErr(value.LeftBitshiftInts)}}},
	{name: ">>", ref: func(a, b *big.Int) any {
		n, ok := smallShiftCount(b)
		if !ok {
			return nil
		}
		return truncShift(a, -n)
	}, impls: []intImpl{{"RightBitshiftVal", value.RightBitshiftVal}, {"RightBitshiftInt", value.RightBitshiftInt}, {"RightBitshiftInts", noErr(value.RightBitshiftInts)}}},
	{name: "&", ref: func(a, b *big.Int) any { return new(big.Int).And(a, b) },
		impls: []intImpl{{"BitwiseAndVal", value.BitwiseAndVal}, {"BitwiseAndInt", value.BitwiseAndInt}, {"BitwiseAndInts", noErr(value.BitwiseAndInts)}}},
	{name: "|", ref: func(a, b *big.Int) any { return new(big.Int).Or(a, b) },
		impls: []intImpl{{"BitwiseOrVal", value.BitwiseOrVal}, {"BitwiseOrInt", value.BitwiseOrInt}, {"BitwiseOrInts", noErr(value.BitwiseOrInts)}}},
	{name: "^", ref: func(a, b *big.Int) any { return new(big.Int).Xor(a, b) },
		impls: []intImpl{{"BitwiseXorVal", value.BitwiseXorVal}, {"BitwiseXorInts", noErr(value.BitwiseXorInts)}}},
	{name: "&~", ref: func(a, b *big.Int) any { return new(big.Int).AndNot(a, b) },
		impls: []intImpl{{"BitwiseAndNotVal", value.BitwiseAndNotVal}, {"BitwiseAndNotInt", value.BitwiseAndNotInt}, {"BitwiseAndNotInts", noErr(value.BitwiseAndNotInts)}}},
	{name: "<=>", ref: func(a, b *big.Int) any { return big.NewInt(int64(a.Cmp(b))) },
		impls: []intImpl{{"CompareVal", value.CompareVal}, {"CompareInt", value.CompareInt},
			{"CompareInts", func(l, r value.Value) (value.Value, value.Value) {
				return value.CompareInts(l, r).ToValue(), value.Undefined
			}}}},
	{name: "<", ref: func(a, b *big.Int) any { return a.Cmp(b) < 0 },
		impls: []intImpl{{"LessThanVal", value.LessThanVal}, {"LessThan", boolErrRes(value.LessThan)}, {"LessThanInt", value.LessThanInt}, {"LessThanInts", boolRes(value.LessThanInts)}}},
	{name: "<=", ref: func(a, b *big.Int) any { return a.Cmp(b) <= 0 },
		impls: []intImpl{{"LessThanEqualVal", value.LessThanEqualVal}, {"LessThanEqual", boolErrRes(value.LessThanEqual)}, {"LessThanEqualInt", value.LessThanEqualInt}, {"LessThanEqualInts", boolRes(value.LessThanEqualInts)}}},
	{name: ">", ref: func(a, b *big.Int) any { return a.Cmp(b) > 0 },
		impls: []intImpl{{"GreaterThanVal", value.GreaterThanVal}, {"GreaterThan", boolErrRes(value.GreaterThan)}, {"GreaterThanInt", value.GreaterThanInt}, {"GreaterThanInts", boolRes(value.GreaterThanInts)}}},
	{name: ">=", ref: func(a, b *big.Int) any { return a.Cmp(b) >= 0 },
		impls: []intImpl{{"GreaterThanEqualVal", value.GreaterThanEqualVal}, {"GreaterThanEqual", boolErrRes(value.GreaterThanEqual)}, {"GreaterThanEqualInt", value.GreaterThanEqualInt}, {"GreaterThanEqualInts", boolRes(value.GreaterThanEqualInts)}}},
	{name: "==", ref: func(a, b *big.Int) any { return a.Cmp(b) == 0 },
		impls: []intImpl{{"EqualVal", noErr(value.EqualVal)}, {"Equal", boolRes(value.Equal)}, {"EqualInt", boolRes(value.EqualInt)}, {"EqualInts", boolRes(value.EqualInts)},
			{"LaxEqualVal", noErr(value.LaxEqualVal)}, {"LaxEqual", boolRes(value.LaxEqual)}, {"StrictEqualVal", noErr(value.StrictEqualVal)}, {"StrictEqual", boolRes(value.StrictEqual)}}},
	{name: "!=", ref: func(a, b *big.Int) any { return a.Cmp(b) != 0 },
		impls: []intImpl{{"NotEqualVal", noErr(value.NotEqualVal)}, {"LaxNotEqualVal", noErr(value.LaxNotEqualVal)}, {"StrictNotEqualVal", noErr(value.StrictNotEqualVal)}}},
	{name: "-@", unary: true, ref: func(a, _ *big.Int) any { return new(big.Int).Neg(a) },
		impls: []intImpl{{"NegateVal", func(l, _ value.Value) (value.Value, value.Value) { return value.NegateVal(l), value.Undefined }},
			{"NegateInt", func(l, _ value.Value) (value.Value, value.Value) { return value.NegateInt(l), value.Undefined }}}},
	{name: "~", unary: true, ref: func(a, _ *big.Int) any { return new(big.Int).Not(a) },
		impls: []intImpl{{"BitwiseNotVal", func(l, _ value.Value) (value.Value, value.Value) { return value.BitwiseNotVal(l), value.Undefined }}}},
	{name: "++", unary: true, ref: func(a, _ *big.Int) any { return new(big.Int).Add(a, big.NewInt(1)) },
		impls: []intImpl{{"IncrementVal", func(l, _ value.Value) (value.Value, value.Value) { return value.IncrementVal(l), value.Undefined }},
			{"IncrementInt", func(l, _ value.Value) (value.Value, value.Value) { return value.IncrementInt(l), value.Undefined }}}},
	{name: "--", unary: true, ref: func(a, _ *big.Int) any { return new(big.Int).Sub(a, big.NewInt(1)) },
		impls: []intImpl{{"DecrementVal", func(l, _ value.Value) (value.Value, value.Value) { return value.DecrementVal(l), value.Undefined }},
			{"DecrementInt", func(l, _ value.Value) (value.Value, value.Value) { return value.DecrementInt(l), value.Undefined }}}},
}

func isZDE(err value.Value) bool {
	if err.IsUndefined() {
		return false
	}
	return strings.Contains(err.Inspect(), "ZeroDivisionError")
}

// checkIntResult compares an implementation result with the reference.
func checkIntResult(c *Ctx, caseIdx int, op *intOp, im *intImpl, a, b *big.Int, want any, got, err value.Value) {
	site := fmt.Sprintf("%s:%s/%s", im.name, intRepr(a), intRepr(b))
	if op.unary {
		site = fmt.Sprintf("%s:%s", im.name, intRepr(a))
	}
	in := map[string]string{"op": op.name, "impl": im.name, "a": a.String(), "b": b.String()}
	switch w := want.(type) {
	case string: // zde
		if !isZDE(err) {
			c.Violate(site+":no-zero-division-error", fmt.Sprintf("%s %s %s: want ZeroDivisionError, got value=%s err=%s", a, op.name, b, safeInspect(got), safeInspect(err)), caseIdx, in)
		}
		return
	case bool:
		if !err.IsUndefined() {
			c.Violate(site+":unexpected-error", fmt.Sprintf("%s %s %s: unexpected error %s", a, op.name, b, safeInspect(err)), caseIdx, in)
			return
		}
		if got != value.BoolVal(w) {
			c.Violate(site+":wrong-bool", fmt.Sprintf("%s %s %s: want %v, got %s", a, op.name, b, w, safeInspect(got)), caseIdx, in)
		}
		return
	case *big.Int:
		if !err.IsUndefined() {
			c.Violate(site+":unexpected-error", fmt.Sprintf("%s %s %s: unexpected error %s", a, op.name, b, safeInspect(err)), caseIdx, in)
			return
		}
		g, canonical, ok := elkIntToBig(got)
		if !ok {
			c.Violate(site+":not-an-int", fmt.Sprintf("%s %s %s: want %s, got non-Int %s", a, op.name, b, w, safeInspect(got)), caseIdx, in)
			return
		}
		if g.Cmp(w) != 0 {
			c.Violate(site+":wrong-value", fmt.Sprintf("%s %s %s: want %s, got %s", a, op.name, b, w, g), caseIdx, in)
			return
		}
		if !canonical {
			c.Violate(site+":not-normalised", fmt.Sprintf("%s %s %s = %s fits a machine word but is a BigInt", a, op.name, b, w), caseIdx, in)
			return
		}
		if s := got.Inspect(); s != w.String() {
			c.Violate(site+":inspect", fmt.Sprintf("%s %s %s: inspect %q want %q", a, op.name, b, s, w.String()), caseIdx, in)
		}
		c.Distinct(fmt.Sprintf("%s|%s|%s|%s", op.name, intRepr(a), intRepr(b), intRepr(w)))
	}
}

func safeInspect(v value.Value) (s string) {
	defer func() {
		if r := recover(); r != nil {
			s = fmt.Sprintf("<inspect panicked: %v>", r)
		}
	}()
	if v.IsUndefined() {
		return "undefined"
	}
	return v.Inspect()
}

func c06Pair(c *Ctx, caseIdx int, a, b *big.Int) {
	for oi := range intOps {
		op := &intOps[oi]
		want := op.ref(a, b)
		if want == nil {
			continue
		}
		for ii := range op.impls {
			im := &op.impls[ii]
			l, r := toElkInt(a), toElkInt(b)
			var got, err value.Value
			panicked := ""
			func() {
				defer func() {
					if p := recover(); p != nil {
						panicked = fmt.Sprint(p)
					}
				}()
				got, err = im.f(l, r)
			}()
			c.Eval(1)
			if panicked != "" {
				site := fmt.Sprintf("%s:%s/%s", im.name, intRepr(a), intRepr(b))
				c.Violate(site+":panic", fmt.Sprintf("%s %s %s panicked: %s", a, op.name, b, panicked), caseIdx,
					map[string]string{"op": op.name, "impl": im.name, "a": a.String(), "b": b.String()})
				continue
			}
			checkIntResult(c, caseIdx, op, im, a, b, want, got, err)
			// operands must not be mutated
			if la, _, _ := elkIntToBig(l); la.Cmp(a) != 0 {
				c.Violate(im.name+":mutates-left-operand", fmt.Sprintf("%s %s %s changed the left operand to %s", a, op.name, b, la), caseIdx, nil)
			}
			if rb, _, _ := elkIntToBig(r); rb.Cmp(b) != 0 {
				c.Violate(im.name+":mutates-right-operand", fmt.Sprintf("%s %s %s changed the right operand to %s", a, op.name, b, rb), caseIdx, nil)
			}
		}
	}
	// division identity through the implementation itself
	if b.Sign() != 0 {
		l, r := toElkInt(a), toElkInt(b)
		func() {
			defer func() { recover() }()
			q, e1 := value.DivideVal(l, r)
			m, e2 := value.ModuloVal(l, r)
			if !e1.IsUndefined() || !e2.IsUndefined() {
				return
			}
			p, e3 := value.MultiplyVal(q, r)
			if !e3.IsUndefined() {
				return
			}
			s, e4 := value.AddVal(p, m)
			if !e4.IsUndefined() {
				return
			}
			c.Count("division_identities", 1)
			if !value.Equal(s, l) {
				c.Violate(fmt.Sprintf("div-identity:%s/%s", intRepr(a), intRepr(b)), fmt.Sprintf("a=%s b=%s: (a/b)*b + a%%b = %s", a, b, safeInspect(s)), caseIdx, nil)
			}
		}()
	}
	// hash / equality of the same number obtained through a big route: (a + 2^80) - 2^80
	func() {
		defer func() { recover() }()
		l := toElkInt(a)
		k := toElkInt(bigPow2(80))
		t, e := value.AddVal(l, k)
		if !e.IsUndefined() {
			return
		}
		back, e := value.SubtractVal(t, k)
		if !e.IsUndefined() {
			return
		}
		h1, _ := value.Hash(l)
		h2, _ := value.Hash(back)
		c.Count("roundtrip_through_big", 1)
		if !value.Equal(l, back) || h1 != h2 || l.Inspect() != back.Inspect() || l.IsSmallInt() != back.IsSmallInt() {
			c.Violate("big-route:"+intRepr(a), fmt.Sprintf("a=%s: (a+2^80)-2^80 = %s; equal=%v hash %d vs %d", a, safeInspect(back), value.Equal(l, back), h1, h2), caseIdx, nil)
		}
	}()
}

func init() {
	P := len(intPool)
	register(&Check{
		ID: "C06",
		Rule: "operand pairs: boundary pool (0, ±1, 2^k-1/2^k/2^k+1 for k in 7..128, 10^18..10^30) pairwise exhaustively, then seeded random 1..256-bit operands; " +
			"every value.*Val / *Int / *Ints helper the VM opcodes call is compared with math/big (Quo/Rem for / and %); Elk-level probes through the constant folder, typed opcodes, generic opcodes and method calls; " +
			"distinct = (operator, left repr, right repr, result repr) cells at Go level plus distinct Elk-level (variant, operator, reprs) cells",
		NumCases: func(tier string) int {
			if tier == "thorough" {
				return P*P + 1_000_000 + 4000
			}
			return P*P + 40_000 + 160
		},
		Case: func(c *Ctx, i int, r *rand.Rand) {
			elkCases := 160
			if c.Tier == "thorough" {
				elkCases = 4000
			}
			n := c.Check.NumCases(c.Tier)
			switch {
			case i < P*P:
				c06Pair(c, i, intPool[i/P], intPool[i%P])
				c.Count("pool_pairs", 1)
			case i < n-elkCases:
				a, b := randBig(r), randBig(r)
				if r.IntN(4) == 0 {
					b = intPool[r.IntN(P)]
				}
				if r.IntN(8) == 0 {
					a = intPool[r.IntN(P)]
				}
				if i%5000 == 0 {
					c.Sample(map[string]string{"a": a.String(), "b": b.String()})
				}
				c06Pair(c, i, a, b)
				c.Count("random_pairs", 1)
			default:
				c06ElkCase(c, i, r)
			}
		},
		Exhaustive:  map[string]bool{},
		MinCounters: map[string]int64{"pool_pairs": int64(P * P), "elk_probes": 1000, "division_identities": 1000},
		Assumptions: []string{"math/big is the reference for integer semantics", "shift counts limited to |n| <= 300, exponents to 0..40"},
	})
}
