package main

// C25 — Channels and sync primitives keep their contracts under any schedule.
//
// Runtime monitoring on the RACE build. Two families of cases:
//  (1) generated Elk programs (this file) run on the real VM: producer/consumer workloads over
//      channels with unique values, `select` workloads (shared select site on private channels, send
//      cases, readiness probes followed by a model), lock-protected counters with an enter/exit log,
//      misuse sequences of Mutex/RWMutex/ROMutex/WaitGroup/closed channels followed by a sequential
//      model, WaitGroup ordering and Once run-once workloads. The printed observations are decided
//      offline.
//  (2) Go-API-level concurrent histories (c25_sync_go.go) with client-boundary stamps.
// Race detector reports of the worker processes are collected by the harness (collectRaceLogs).

import (
	"context"
	"fmt"
	"math/rand/v2"
	"os"
	"regexp"
	"sort"
	"strconv"
	"strings"
	"syscall"
	"time"
)

const c25ElkTimeout = 60 * time.Second

type c25Run struct {
	res      *ElkResult
	finished bool
}

// c25RunElk runs a generated program with a watchdog. ok=false means a violation / inconclusive was
// already recorded and the output must not be interpreted.
func c25RunElk(c *Ctx, caseIdx int, kind, src string, r *rand.Rand) (*ElkResult, bool) {
	threads := 2 + r.IntN(7)
	ctx, cancel := context.WithCancel(context.Background())
	defer cancel()
	ch := make(chan *ElkResult, 1)
	go func() {
		ch <- RunElk(src, &ElkOpts{Threads: threads, Queue: 50, Ctx: ctx})
	}()
	var res *ElkResult
	select {
	case res = <-ch:
	case <-time.After(c25ElkTimeout):
		cancel() // abort: blocked channel operations return ExecutionAbortedError
		select {
		case res = <-ch:
		case <-time.After(10 * time.Second):
		}
		out := ""
		if res != nil {
			out = head(res.Stdout, 600)
		}
		c.Violate(kind+":program-did-not-terminate", fmt.Sprintf("the generated program did not finish within %s (deadlock: a thread waits for a value, lock or counter that never comes)\nstdout so far:\n%s\nprogram:\n%s", c25ElkTimeout, out, head(src, 3500)), caseIdx, src)
		return nil, false
	}
	c.Count("elk_programs", 1)
	c.Count("elk_programs_"+kind, 1)
	if res.Panic != "" {
		c.Violate(kind+":go-panic:"+res.PanicPhase+":"+panicSite1(res.PanicStack), fmt.Sprintf("Go panic instead of an Elk error: %s\n%s\nprogram:\n%s", head(res.Panic, 300), head(res.PanicStack, 1500), head(src, 3000)), caseIdx, src)
		return res, false
	}
	if res.Rejected {
		c.Count("elk_programs_rejected", 1)
		c.Inconclusive(fmt.Sprintf("generator bug (%s): program rejected by the checker: %s\n%s", kind, head(diagString(res.Diagnostics), 400), head(src, 1500)))
		return res, false
	}
	if !res.Err.IsUndefined() {
		c.Violate(kind+":uncaught-error:"+c25ErrClass(res.ErrInspect), fmt.Sprintf("the main thread ended with an uncaught error %s\n%s\nstdout:\n%s\nprogram:\n%s", head(res.ErrInspect, 300), head(res.Trace, 600), head(res.Stdout, 500), head(src, 3000)), caseIdx, src)
		return res, false
	}
	if strings.TrimSpace(res.Stderr) != "" {
		c.Violate(kind+":thread-died:"+c25ErrClass(res.Stderr), fmt.Sprintf("a thread ended with an uncaught error:\n%s\nprogram:\n%s", head(res.Stderr, 1200), head(src, 3000)), caseIdx, src)
		return res, false
	}
	return res, true
}

var c25ClassRe = regexp.MustCompile(`Std::[A-Za-z:]+`)

func c25ErrClass(s string) string {
	if m := c25ClassRe.FindString(s); m != "" {
		return m
	}
	return head(strings.Fields(s + " ?")[0], 40)
}

// noise renders an optional statement that perturbs the schedule; derived from the case PRNG only.
func c25Sleep(r *rand.Rand, iv string) string {
	switch r.IntN(5) {
	case 0:
		return ""
	case 1:
		return fmt.Sprintf("sleep %d.microseconds", 1+r.IntN(30))
	case 2:
		return fmt.Sprintf("sleep %d.microseconds if %s %% %d == %d", 1+r.IntN(50), iv, 2+r.IntN(4), r.IntN(2))
	case 3:
		return fmt.Sprintf("sleep %d.nanoseconds if %s %% 2 == 0", 100+r.IntN(900), iv)
	}
	return fmt.Sprintf("sleep %d.microseconds if %s %% 7 == 3", 50+r.IntN(200), iv)
}

// lines of the form "<tag> a b c" -> [][]int64
func c25Lines(out, tag string) [][]int64 {
	var rows [][]int64
	for _, ln := range strings.Split(out, "\n") {
		f := strings.Fields(ln)
		if len(f) == 0 || f[0] != tag {
			continue
		}
		row := make([]int64, 0, len(f)-1)
		for _, x := range f[1:] {
			n, err := strconv.ParseInt(x, 10, 64)
			if err != nil {
				n = -999999
			}
			row = append(row, n)
		}
		rows = append(rows, row)
	}
	return rows
}

func c25Line(out, tag string) (string, bool) {
	for _, ln := range strings.Split(out, "\n") {
		if strings.HasPrefix(ln, tag+" ") {
			return strings.TrimPrefix(ln, tag+" "), true
		}
		if ln == tag {
			return "", true
		}
	}
	return "", false
}

// ---- (E1) producers / consumers ------------------------------------------------------------------

func c25ElkProdCons(c *Ctx, caseIdx int, r *rand.Rand) {
	capacity := r.IntN(5)
	P := 1 + r.IntN(4)
	C := 1 + r.IntN(4)
	N := 4 + r.IntN(30)
	views := r.IntN(2) == 0
	closeRace := r.IntN(3) == 0 // the channel is closed while the producers are still pushing
	var sb strings.Builder
	w := func(f string, a ...any) { fmt.Fprintf(&sb, f+"\n", a...) }
	w("using Std::Sync::WaitGroup")
	w("ch := Channel::[Int](%d)", capacity)
	w("acc := ArrayList::[ArrayList[Int]]()")
	w("p0 := 0")
	w("while p0 < %d", P)
	w("  acc << ArrayList::[Int]()")
	w("  p0++")
	w("end")
	w("dead := Channel::[Int](%d)", r.IntN(2))
	wch, rch := "ch", "ch"
	if views {
		w("wch := ch.writeonly")
		w("rch := ch.readonly")
		wch, rch = "wch", "rch"
	}
	w("pwg := WaitGroup()")
	w("cwg := WaitGroup()")
	w("dead_taken := [0]")
	for k := 0; k < C; k++ {
		w("got%d := ArrayList::[Int]()", k)
		w("end%d := [\"\"]", k)
	}
	w("p := 0")
	w("while p < %d", P)
	w("  pid := p + 1")
	w("  pwg.start")
	w("  mine := acc[p]")
	w("  go")
	w("    i := 0")
	if closeRace {
		w("    open := true")
		w("    while open && i < %d", N)
		w("      do")
		w("        %s << pid * 1000 + i", wch)
		w("        mine << pid * 1000 + i")
		w("      catch Channel::ClosedError() as e")
		w("        open = false")
		w("      end")
		if s := c25Sleep(r, "i"); s != "" {
			w("      %s", s)
		}
		w("      i++")
		w("    end")
	} else {
		w("    while i < %d", N)
		if r.IntN(3) == 0 {
			w("      do")
			w("        %s.push(pid * 1000 + i)", wch)
			w("        mine << pid * 1000 + i")
			w("      catch Channel::ClosedError() as e")
			w("        println \"PUSHERR #{pid}\"")
			w("      end")
		} else {
			w("      %s << pid * 1000 + i", wch)
			w("      mine << pid * 1000 + i")
		}
		if s := c25Sleep(r, "i"); s != "" {
			w("      %s", s)
		}
		w("      i++")
		w("    end")
	}
	w("    pwg.end")
	w("  end")
	w("  p++")
	w("end")
	styles := make([]string, C)
	for k := 0; k < C; k++ {
		style := []string{"for", "pop", "result", "select", "next"}[r.IntN(5)]
		styles[k] = style
		w("cwg.start")
		w("go")
		switch style {
		case "for":
			w("  for v in %s", rch)
			w("    got%d << v", k)
			if s := c25Sleep(r, "v"); s != "" {
				w("    %s", s)
			}
			w("  end")
			w("  end%d[0] = \"loop-ended\"", k)
		case "pop":
			w("  loop")
			w("    do")
			w("      v := %s.pop", rch)
			w("      got%d << v", k)
			if s := c25Sleep(r, "v"); s != "" {
				w("      %s", s)
			}
			w("    catch Channel::ClosedError() as e")
			w("      end%d[0] = e.class.name", k)
			w("      break")
			w("    end")
			w("  end")
		case "result":
			w("  loop")
			w("    res := <<%s", rch)
			w("    if res.ok")
			w("      got%d << res.unwrap", k)
			if s := c25Sleep(r, "res.unwrap"); s != "" {
				w("      %s", s)
			}
			w("    else")
			w("      end%d[0] = (res.err as Channel::ClosedError).class.name", k)
			w("      break")
			w("    end")
			w("  end")
		case "select":
			w("  running := true")
			w("  while running")
			w("    select")
			w("    case res := <<%s", rch)
			w("      if res.ok")
			w("        got%d << res.unwrap", k)
			w("      else")
			w("        end%d[0] = (res.err as Channel::ClosedError).class.name", k)
			w("        running = false")
			w("      end")
			w("    case res2 := <<dead")
			w("      dead_taken[0] = dead_taken[0] + 1")
			w("      running = false")
			w("    end")
			w("  end")
		case "next":
			w("  loop")
			w("    do")
			w("      v := %s.next", rch)
			w("      got%d << v", k)
			w("    catch :stop_iteration")
			w("      end%d[0] = \"stop_iteration\"", k)
			w("      break")
			w("    end")
			w("  end")
		}
		w("  cwg.end")
		w("end")
	}
	closeVia := "ch"
	if views && r.IntN(2) == 0 {
		closeVia = "wch"
	}
	if closeRace {
		w("sleep %d.microseconds", r.IntN(1+N*P*8))
		w("%s.close", closeVia)
		w("pwg.wait")
	} else {
		w("pwg.wait")
		w("%s.close", closeVia)
	}
	// after close: pushes are rejected (concurrently with the consumers still draining)
	w("do")
	w("  %s << 7", wch)
	w("  println \"PAC accepted\"")
	w("catch Channel::ClosedError() as e")
	w("  println \"PAC #{e.class.name}\"")
	w("end")
	w("do")
	w("  ch.close")
	w("  println \"CAC accepted\"")
	w("catch Channel::ClosedError() as e")
	w("  println \"CAC #{e.class.name}\"")
	w("end")
	w("cwg.wait")
	w("println \"LEN #{ch.length}\"")
	w("late := <<%s", rch)
	w("println \"LATE #{late.ok}\"")
	w("do")
	w("  v := %s.pop", rch)
	w("  println \"LATEPOP #{v}\"")
	w("catch Channel::ClosedError() as e")
	w("  println \"LATEPOP #{e.class.name}\"")
	w("end")
	w("println \"DEAD #{dead_taken[0]}\"")
	w("for l in acc")
	w("  for v in l")
	w("    println \"A #{v}\"")
	w("  end")
	w("end")
	for k := 0; k < C; k++ {
		w("println \"END %d #{end%d[0]}\"", k, k)
		w("for v in got%d", k)
		w("  println \"R %d #{v}\"", k)
		w("end")
	}
	w("println \"done\"")
	src := sb.String()
	res, ok := c25RunElk(c, caseIdx, "channel", src, r)
	if !ok {
		return
	}
	tag := fmt.Sprintf("cap%d", capacity)
	if closeRace {
		tag += ":close-race"
	}
	viol := func(contract, detail string) {
		c.Violate("channel:"+contract+":elk:"+tag, fmt.Sprintf("%s\n(capacity %d, %d producers x %d values, consumers %v, views=%v)\nstdout:\n%s\nprogram:\n%s", detail, capacity, P, N, styles, views, head(res.Stdout, 1200), head(src, 3500)), caseIdx, src)
	}
	out := res.Stdout
	if _, done := c25Line(out, "done"); !done {
		viol("program-ended-early", "the program did not reach its last statement")
		return
	}
	accepted := map[int64]bool{}
	for _, row := range c25Lines(out, "A") {
		if len(row) == 1 {
			accepted[row[0]] = true
		}
	}
	if !closeRace && len(accepted) != P*N {
		viol("push-count", fmt.Sprintf("%d pushes returned normally, expected %d", len(accepted), P*N))
	}
	if closeRace {
		c.Count("elk_channel_close_race_programs", 1)
		if len(accepted) < P*N {
			c.Count("elk_channel_close_race_cut_producers_short", 1)
		}
	}
	seen := map[int64]int64{}
	last := map[[2]int64]int64{}
	rows := c25Lines(out, "R")
	c.Eval(int64(len(rows)) + 6)
	for _, row := range rows {
		if len(row) != 2 {
			continue
		}
		k, v := row[0], row[1]
		pid, seq := v/1000, v%1000
		if pid < 1 || pid > int64(P) || seq >= int64(N) || v < 0 {
			viol("value-invented", fmt.Sprintf("consumer %d received %d, which no producer pushed", k, v))
			continue
		}
		if !accepted[v] {
			viol("rejected-push-delivered", fmt.Sprintf("consumer %d received %d, but the push of that value did not return normally (ClosedError)", k, v))
			continue
		}
		if prev, dup := seen[v]; dup {
			viol("value-duplicated", fmt.Sprintf("value %d was received by consumer %d and by consumer %d", v, prev, k))
		}
		seen[v] = k
		key := [2]int64{k, pid}
		if l, ok := last[key]; ok && l >= seq {
			viol("fifo-order", fmt.Sprintf("consumer %d received %d after %d, both pushed by producer %d in the opposite order", k, v, pid*1000+l, pid))
		}
		last[key] = seq
	}
	if len(seen) != len(accepted) {
		var missing []string
		for p := 1; p <= P && len(missing) < 8; p++ {
			for i := 0; i < N && len(missing) < 8; i++ {
				if _, ok := seen[int64(p*1000+i)]; !ok && accepted[int64(p*1000+i)] {
					missing = append(missing, fmt.Sprint(p*1000+i))
				}
			}
		}
		if len(missing) > 0 {
			viol("value-lost", fmt.Sprintf("%d of %d accepted values were never received: %s…", len(accepted)-len(seen), len(accepted), strings.Join(missing, ", ")))
		}
	}
	c.Count("elk_channel_values_matched", int64(len(seen)))
	expect := func(tagName, want, contract string) {
		got, ok := c25Line(out, tagName)
		if !ok || got != want {
			viol(contract, fmt.Sprintf("%s printed %q, expected %q", tagName, got, want))
		}
	}
	const ce = `"Std::Channel::ClosedError"`
	expect("PAC", ce, "push-after-close-not-rejected")
	expect("CAC", ce, "close-after-close-not-rejected")
	expect("LEN", "0", "closed-channel-not-drained")
	expect("LATE", "false", "pop-after-drain-not-rejected")
	expect("LATEPOP", ce, "pop-after-drain-not-rejected")
	expect("DEAD", "0", "select-took-unready-case")
	if _, bad := c25Line(out, "PUSHERR"); bad {
		viol("push-rejected-before-close", "a producer's push raised ClosedError although the channel is closed only after all producers finished")
	}
	for k, st := range styles {
		want := map[string]string{"for": "loop-ended", "pop": "Std::Channel::ClosedError", "result": "Std::Channel::ClosedError", "select": "Std::Channel::ClosedError", "next": "stop_iteration"}[st]
		got, _ := c25Line(out, fmt.Sprintf("END %d", k))
		if strings.Trim(got, `"`) != want {
			viol("consumer-end:"+st, fmt.Sprintf("consumer %d (%s) ended with %q, expected %q", k, st, got, want))
		}
	}
	c.Distinct(fmt.Sprintf("elkpc|cap%d|p%d|c%d|%s|v%v|cr%v", capacity, P, C, strings.Join(styles, ","), views, closeRace))
	if caseIdx%97 == 0 {
		c.Sample(map[string]any{"kind": "elk producers/consumers", "capacity": capacity, "producers": P, "consumers": styles, "values": P * N})
	}
}

// ---- (E2) one select site shared by several threads, each on private channels ---------------------

func c25ElkSelectShared(c *Ctx, caseIdx int, r *rand.Rand) {
	K := 2 + r.IntN(4)
	N := 15 + r.IntN(50)
	capA, capB := r.IntN(4), r.IntN(4)
	sendVariant := r.IntN(3) == 0
	var sb strings.Builder
	w := func(f string, a ...any) { fmt.Fprintf(&sb, f+"\n", a...) }
	w("using Std::Sync::WaitGroup")
	w("wg := WaitGroup()")
	w("la := ArrayList::[ArrayList[Int]]()")
	w("lb := ArrayList::[ArrayList[Int]]()")
	w("lc := ArrayList::[ArrayList[Int]]()")
	w("k := 0")
	w("while k < %d", K)
	w("  la << ArrayList::[Int]()")
	w("  lb << ArrayList::[Int]()")
	w("  lc << ArrayList::[Int]()")
	w("  k++")
	w("end")
	w("k = 0")
	w("while k < %d", K)
	w("  ch_a := Channel::[Int](%d)", capA)
	w("  ch_b := Channel::[Int](%d)", capB)
	w("  lo := (k + 1) * 100000")
	w("  ga := la[k]")
	w("  gb := lb[k]")
	w("  gc := lc[k]")
	if !sendVariant {
		// two producers, one selecting consumer (same go block => same select site for all k)
		for _, side := range []string{"a", "b"} {
			off := map[string]int{"a": 0, "b": 50000}[side]
			w("  wg.start")
			w("  go")
			w("    i := 0")
			w("    while i < %d", N)
			w("      ch_%s << lo + %d + i", side, off)
			if s := c25Sleep(r, "i"); s != "" {
				w("      %s", s)
			}
			w("      i++")
			w("    end")
			w("    wg.end")
			w("  end")
		}
		w("  wg.start")
		w("  go")
		w("    n := 0")
		w("    while n < %d", 2*N)
		w("      select")
		w("      case res := <<ch_a")
		w("        ga << res.unwrap")
		w("      case res := <<ch_b")
		w("        gb << res.unwrap")
		w("      end")
		w("      n++")
		w("    end")
		w("    wg.end")
		w("  end")
	} else {
		// one selecting producer (send cases), two consumers
		w("  wg.start")
		w("  go")
		w("    ia := 0")
		w("    ib := 0")
		w("    while ia + ib < %d", N)
		w("      select")
		w("      case ch_a << lo + ia")
		w("        ia++")
		w("      case ch_b << lo + 50000 + ib")
		w("        ib++")
		w("      end")
		if s := c25Sleep(r, "ia"); s != "" {
			w("      %s", s)
		}
		w("    end")
		w("    gc << ia")
		w("    gc << ib")
		w("    ch_a.close")
		w("    ch_b.close")
		w("    wg.end")
		w("  end")
		for _, side := range []string{"a", "b"} {
			w("  wg.start")
			w("  go")
			w("    for v in ch_%s", side)
			w("      g%s << v", side)
			if s := c25Sleep(r, "v"); s != "" {
				w("      %s", s)
			}
			w("    end")
			w("    wg.end")
			w("  end")
		}
	}
	w("  k++")
	w("end")
	w("wg.wait")
	w("k = 0")
	w("while k < %d", K)
	w("  for v in la[k]")
	w("    println \"A #{k} #{v}\"")
	w("  end")
	w("  for v in lb[k]")
	w("    println \"B #{k} #{v}\"")
	w("  end")
	w("  for v in lc[k]")
	w("    println \"N #{k} #{v}\"")
	w("  end")
	w("  k++")
	w("end")
	w("println \"done\"")
	src := sb.String()
	kind := "select"
	res, ok := c25RunElk(c, caseIdx, kind, src, r)
	if !ok {
		return
	}
	variant := "recv"
	if sendVariant {
		variant = "send"
	}
	viol := func(contract, detail string) {
		c.Violate("select:"+contract+":shared-site:"+variant, fmt.Sprintf("%s\n(%d threads run the same select expression on private channels of capacity %d/%d, %d values each)\nstdout:\n%s\nprogram:\n%s", detail, K, capA, capB, N, head(res.Stdout, 800), head(src, 3500)), caseIdx, src)
	}
	out := res.Stdout
	if _, done := c25Line(out, "done"); !done {
		viol("program-ended-early", "the program did not reach its last statement")
		return
	}
	counts := map[[2]int64][]int64{} // (k, side) -> values in order
	for side, tagName := range map[int64]string{0: "A", 1: "B", 2: "N"} {
		for _, row := range c25Lines(out, tagName) {
			if len(row) == 2 {
				counts[[2]int64{row[0], side}] = append(counts[[2]int64{row[0], side}], row[1])
			}
		}
	}
	total := 0
	for k := int64(0); k < int64(K); k++ {
		wantA, wantB := int64(N), int64(N)
		if sendVariant {
			n := counts[[2]int64{k, 2}]
			if len(n) != 2 || n[0]+n[1] != int64(N) {
				viol("send-count", fmt.Sprintf("thread %d: the selecting producer reported send counts %v, expected two numbers summing to %d", k, n, N))
				continue
			}
			wantA, wantB = n[0], n[1]
		}
		for side, want := range map[int64]int64{0: wantA, 1: wantB} {
			got := counts[[2]int64{k, side}]
			base := (k+1)*100000 + side*50000
			total += len(got)
			for i, v := range got {
				if v < base || v >= base+50000 {
					viol("value-from-foreign-channel", fmt.Sprintf("thread %d, case %d received %d; only values %d.. are ever pushed to the channel of that case", k, side, v, base))
					return
				}
				if v != base+int64(i) {
					viol("order-or-duplicate", fmt.Sprintf("thread %d, case %d: element %d is %d, expected %d (per-channel push order)", k, side, i, v, base+int64(i)))
					return
				}
			}
			if int64(len(got)) != want {
				viol("value-count", fmt.Sprintf("thread %d, case %d delivered %d values, %d were sent", k, side, len(got), want))
				return
			}
		}
	}
	c.Eval(int64(total))
	c.Count("elk_select_values_matched", int64(total))
	c.Distinct(fmt.Sprintf("elksel|k%d|%d/%d|%s", K, capA, capB, variant))
}

// ---- (E3) select readiness followed by a sequential model ---------------------------------------

type c25ModelChan struct {
	cap    int
	q      []int
	closed bool
}

func c25ElkSelectReady(c *Ctx, caseIdx int, r *rand.Rand) {
	nch := 1 + r.IntN(3)
	chans := make([]*c25ModelChan, nch)
	var sb strings.Builder
	w := func(f string, a ...any) { fmt.Fprintf(&sb, f+"\n", a...) }
	for i := range chans {
		chans[i] = &c25ModelChan{cap: r.IntN(4)}
		w("c%d := Channel::[Int](%d)", i, chans[i].cap)
	}
	type caseSpec struct {
		dir string // recv | send | else
		ch  int
		val int
	}
	type step struct {
		kind  string // select | push | pop | close
		cases []caseSpec
		ch    int
		val   int
	}
	var steps []step
	next := 100
	nsteps := 6 + r.IntN(14)
	// the program is straight-line; the model is advanced while parsing the output because the
	// choice among several ready cases is free
	for s := 0; s < nsteps; s++ {
		switch x := r.IntN(10); {
		case x < 6:
			ncase := 1 + r.IntN(3)
			st := step{kind: "select"}
			used := map[string]bool{}
			for j := 0; j < ncase; j++ {
				cs := caseSpec{dir: []string{"recv", "send"}[r.IntN(2)], ch: r.IntN(nch)}
				key := fmt.Sprint(cs.dir, cs.ch)
				if used[key] {
					continue
				}
				used[key] = true
				if cs.dir == "send" {
					next++
					cs.val = next
				}
				st.cases = append(st.cases, cs)
			}
			st.cases = append(st.cases, caseSpec{dir: "else"})
			steps = append(steps, st)
			w("select")
			for j, cs := range st.cases {
				switch cs.dir {
				case "recv":
					w("case res := <<c%d", cs.ch)
					w("  if res.ok")
					w("    println \"S %d %d #{res.unwrap}\"", s, j)
					w("  else")
					w("    println \"S %d %d -1\"", s, j)
					w("  end")
				case "send":
					w("case c%d << %d", cs.ch, cs.val)
					w("  println \"S %d %d 0\"", s, j)
				case "else":
					w("else")
					w("  println \"S %d %d 0\"", s, j)
				}
			}
			w("end")
		case x < 8:
			next++
			steps = append(steps, step{kind: "push", ch: r.IntN(nch), val: next})
			st := steps[len(steps)-1]
			// a plain push is only emitted when the model will know it cannot block: decided at parse time,
			// so emit it guarded by left_capacity
			w("if c%d.left_capacity > 0", st.ch)
			w("  do")
			w("    c%d << %d", st.ch, st.val)
			w("    println \"S %d 0 1\"", s)
			w("  catch Channel::ClosedError() as e")
			w("    println \"S %d 0 -1\"", s)
			w("  end")
			w("else")
			w("  println \"S %d 0 0\"", s)
			w("end")
		case x < 9:
			steps = append(steps, step{kind: "close", ch: r.IntN(nch)})
			st := steps[len(steps)-1]
			w("do")
			w("  c%d.close", st.ch)
			w("  println \"S %d 0 1\"", s)
			w("catch Channel::ClosedError() as e")
			w("  println \"S %d 0 -1\"", s)
			w("end")
		default:
			steps = append(steps, step{kind: "len", ch: r.IntN(nch)})
			st := steps[len(steps)-1]
			w("println \"S %d 0 #{c%d.length}\"", s, st.ch)
		}
	}
	w("println \"done\"")
	src := sb.String()
	// a select whose send case targets a closed channel is documented to raise ClosedError; whether the
	// model reaches it is only known at parse time, so the program is run as is
	res, ok := c25RunElkAllowError(c, caseIdx, "select-ready", src, r)
	if res == nil {
		return
	}
	rows := c25Lines(res.Stdout, "S")
	viol := func(contract, detail string) {
		c.Violate("select:"+contract+":readiness", fmt.Sprintf("%s\nstdout:\n%s\nprogram:\n%s", detail, head(res.Stdout, 800), head(src, 3500)), caseIdx, src)
	}
	ri := 0
	for s, st := range steps {
		if ri >= len(rows) {
			// the program stopped: acceptable only if this step is a select with a send case on a closed channel
			// (documented: pushing to a closed channel throws ClosedError)
			sendOnClosed := false
			if st.kind == "select" {
				for _, cs := range st.cases {
					if cs.dir == "send" && chans[cs.ch].closed {
						sendOnClosed = true
					}
				}
			}
			if sendOnClosed && strings.Contains(res.ErrInspect, "Std::Channel::ClosedError") {
				c.Count("elk_select_send_on_closed_raised", 1)
				return
			}
			if sendOnClosed {
				viol("send-case-on-closed-channel", fmt.Sprintf("step %d: a select with a send case on a closed channel ended the program with %q instead of Std::Channel::ClosedError", s, head(res.ErrInspect+res.Panic, 200)))
				return
			}
			if !ok {
				return // already reported by the runner
			}
			viol("program-ended-early", fmt.Sprintf("step %d printed nothing", s))
			return
		}
		row := rows[ri]
		ri++
		if len(row) != 3 || row[0] != int64(s) {
			viol("output-out-of-step", fmt.Sprintf("expected the observation of step %d, got %v", s, row))
			return
		}
		c.Eval(1)
		j, v := int(row[1]), row[2]
		switch st.kind {
		case "select":
			var ready []int
			for idx, cs := range st.cases {
				m := chans[cs.ch]
				switch cs.dir {
				case "recv":
					if len(m.q) > 0 || m.closed {
						ready = append(ready, idx)
					}
				case "send":
					if m.closed || len(m.q) < m.cap {
						ready = append(ready, idx)
					}
				}
			}
			if j < 0 || j >= len(st.cases) {
				viol("bad-case-index", fmt.Sprintf("step %d took case %d", s, j))
				return
			}
			cs := st.cases[j]
			if len(ready) == 0 {
				c.Count("elk_select_nothing_ready", 1)
				if cs.dir != "else" {
					viol("took-unready-case", fmt.Sprintf("step %d: no case was ready (model %s) but case %d (%s c%d) ran instead of else", s, c25ModelStr(chans), j, cs.dir, cs.ch))
					return
				}
				continue
			}
			c.Count("elk_select_some_ready", 1)
			if len(ready) > 1 {
				c.Count("elk_select_several_ready", 1)
			}
			if cs.dir == "else" {
				viol("else-taken-although-ready", fmt.Sprintf("step %d: cases %v were ready (model %s) but else ran", s, ready, c25ModelStr(chans)))
				return
			}
			isReady := false
			for _, x := range ready {
				if x == j {
					isReady = true
				}
			}
			if !isReady {
				viol("took-unready-case", fmt.Sprintf("step %d: case %d (%s c%d) ran, ready cases were %v (model %s)", s, j, cs.dir, cs.ch, ready, c25ModelStr(chans)))
				return
			}
			m := chans[cs.ch]
			if cs.dir == "recv" {
				if len(m.q) > 0 {
					if v != int64(m.q[0]) {
						viol("recv-wrong-value", fmt.Sprintf("step %d: received %d from c%d, model head is %d", s, v, cs.ch, m.q[0]))
						return
					}
					m.q = m.q[1:]
				} else if v != -1 {
					viol("recv-from-closed-not-error", fmt.Sprintf("step %d: receive from closed and drained c%d yielded %d instead of an error result", s, cs.ch, v))
					return
				}
			} else {
				if m.closed {
					viol("send-case-on-closed-channel-accepted", fmt.Sprintf("step %d: send case on closed c%d ran its body", s, cs.ch))
					return
				}
				m.q = append(m.q, cs.val)
			}
		case "push":
			m := chans[st.ch]
			switch {
			case len(m.q) >= m.cap:
				if v != 0 {
					viol("left-capacity", fmt.Sprintf("step %d: c%d is full in the model (%s) but left_capacity > 0", s, st.ch, c25ModelStr(chans)))
					return
				}
			case m.closed:
				if v != -1 {
					viol("push-after-close-not-rejected", fmt.Sprintf("step %d: push to closed c%d printed %d", s, st.ch, v))
					return
				}
			default:
				if v != 1 {
					viol("push-rejected", fmt.Sprintf("step %d: push to open c%d with room printed %d", s, st.ch, v))
					return
				}
				m.q = append(m.q, st.val)
			}
		case "close":
			m := chans[st.ch]
			want := int64(1)
			if m.closed {
				want = -1
			}
			if v != want {
				viol("close-result", fmt.Sprintf("step %d: close of c%d printed %d, expected %d", s, st.ch, v, want))
				return
			}
			m.closed = true
		case "len":
			if v != int64(len(chans[st.ch].q)) {
				viol("length", fmt.Sprintf("step %d: c%d.length is %d, model %s", s, st.ch, v, c25ModelStr(chans)))
				return
			}
		}
	}
	if !ok {
		return
	}
	if _, done := c25Line(res.Stdout, "done"); !done {
		viol("program-ended-early", "the program did not reach its last statement")
	}
	c.Distinct(fmt.Sprintf("elkselready|n%d|steps%d", nch, nsteps/4))
}

func c25ModelStr(chans []*c25ModelChan) string {
	var parts []string
	for i, m := range chans {
		parts = append(parts, fmt.Sprintf("c%d{cap %d, %v, closed=%v}", i, m.cap, m.q, m.closed))
	}
	return strings.Join(parts, " ")
}

// c25RunElkAllowError is c25RunElk for programs whose main thread may legitimately end with an Elk
// error: ok=false and res!=nil in that case, nothing is reported for the error itself.
func c25RunElkAllowError(c *Ctx, caseIdx int, kind, src string, r *rand.Rand) (*ElkResult, bool) {
	threads := 2 + r.IntN(7)
	ctx, cancel := context.WithCancel(context.Background())
	defer cancel()
	ch := make(chan *ElkResult, 1)
	go func() { ch <- RunElk(src, &ElkOpts{Threads: threads, Queue: 50, Ctx: ctx}) }()
	var res *ElkResult
	select {
	case res = <-ch:
	case <-time.After(c25ElkTimeout):
		cancel()
		c.Violate(kind+":program-did-not-terminate", fmt.Sprintf("the generated single-threaded program blocked (a select with an else branch or a guarded push waited)\nprogram:\n%s", head(src, 3500)), caseIdx, src)
		return nil, false
	}
	c.Count("elk_programs", 1)
	c.Count("elk_programs_"+kind, 1)
	if res.Panic != "" {
		c.Violate(kind+":go-panic:"+res.PanicPhase+":"+panicSite1(res.PanicStack), fmt.Sprintf("Go panic instead of an Elk error: %s\n%s\nstdout:\n%s\nprogram:\n%s", head(res.Panic, 300), head(res.PanicStack, 1500), head(res.Stdout, 600), head(src, 3000)), caseIdx, src)
		return nil, false
	}
	if res.Rejected {
		c.Inconclusive(fmt.Sprintf("generator bug (%s): program rejected by the checker: %s\n%s", kind, head(diagString(res.Diagnostics), 400), head(src, 1500)))
		return nil, false
	}
	return res, res.Err.IsUndefined()
}

// ---- (E3b) polling loop: select with an else branch executed many times ---------------------------

func c25ElkSelectElseLoop(c *Ctx, caseIdx int, r *rand.Rand) {
	N := 900 + r.IntN(2500)
	K := r.IntN(40)
	// the producer must never block: if the main thread dies the harness starts the next program and a
	// thread left behind would race with the re-initialisation of the global environment
	capacity := K + 1 + r.IntN(4)
	var sb strings.Builder
	w := func(f string, a ...any) { fmt.Fprintf(&sb, f+"\n", a...) }
	w("using Std::Sync::WaitGroup")
	w("ch := Channel::[Int](%d)", capacity)
	w("got := ArrayList::[Int]()")
	w("wg := WaitGroup()")
	w("wg.start")
	w("go")
	w("  i := 0")
	w("  while i < %d", K)
	w("    ch << 500 + i")
	if s := c25Sleep(r, "i"); s != "" {
		w("    %s", s)
	}
	w("    i++")
	w("  end")
	w("  wg.end")
	w("end")
	w("wg.wait")
	w("misses := 0")
	w("while misses < %d || got.length < %d", N, K)
	w("  select")
	w("  case res := <<ch")
	w("    got << res.unwrap")
	w("  else")
	w("    misses++")
	w("  end")
	w("end")
	w("println \"M #{misses}\"")
	w("for v in got")
	w("  println \"R #{v}\"")
	w("end")
	w("println \"done\"")
	src := sb.String()
	res, ok := c25RunElkAllowError(c, caseIdx, "select-else-loop", src, r)
	if res == nil {
		// a Go panic was reported by the runner under select-else-loop:go-panic:...
		return
	}
	viol := func(contract, detail string) {
		c.Violate("select:"+contract+":else-loop", fmt.Sprintf("%s\nstdout:\n%s\nprogram:\n%s", detail, head(res.Stdout, 500), head(src, 2000)), caseIdx, src)
	}
	if !ok {
		viol("uncaught-error", "the polling loop ended with "+head(res.ErrInspect, 300))
		return
	}
	rows := c25Lines(res.Stdout, "R")
	c.Eval(int64(len(rows)) + 1)
	if len(rows) != K {
		viol("value-count", fmt.Sprintf("%d values received, %d pushed", len(rows), K))
		return
	}
	for i, row := range rows {
		if row[0] != int64(500+i) {
			viol("order", fmt.Sprintf("element %d is %d, expected %d", i, row[0], 500+i))
			return
		}
	}
	if _, done := c25Line(res.Stdout, "done"); !done {
		viol("program-ended-early", "the program did not reach its last statement")
	}
	c.Count("elk_select_else_loop_iterations", int64(N))
	c.Distinct(fmt.Sprintf("elkelse|%d|%d", N/500, K/10))
}

// ---- (E4) lock-protected counter with an enter/exit log -----------------------------------------

func c25ElkLocks(c *Ctx, caseIdx int, r *rand.Rand) {
	kind := []string{"mutex", "rwmutex-write", "rwmutex-mixed", "romutex-mixed"}[r.IntN(4)]
	T := 2 + r.IntN(6)
	N := 5 + r.IntN(40)
	var sb strings.Builder
	w := func(f string, a ...any) { fmt.Fprintf(&sb, f+"\n", a...) }
	w("using Std::Sync::*")
	if kind == "mutex" {
		w("m := Mutex()")
	} else {
		w("m := RWMutex()")
		w("ro := m.to_read_only")
	}
	w("cnt := [0]")
	w("log := ArrayList::[Int]()")
	w("bad := ArrayList::[ArrayList[Int]]()")
	w("wg := WaitGroup()")
	w("t := 0")
	w("while t < %d", T)
	w("  bad << [0, 0]")
	w("  t++")
	w("end")
	w("t = 0")
	w("while t < %d", T)
	w("  tid := t")
	w("  mybad := bad[t]")
	w("  wg.start")
	w("  go")
	w("    i := 0")
	w("    while i < %d", N)
	mixed := strings.HasSuffix(kind, "mixed")
	if mixed {
		w("      if (i + tid) %% 3 == 0")
	} else {
		w("      if true")
	}
	w("        m.lock")
	w("        log << tid * 2")
	w("        c := cnt[0]")
	w("        cnt[0] = c + 1")
	if s := c25Sleep(r, "i"); s != "" {
		w("        %s", s)
	}
	w("        cnt[0] = cnt[0] + 1")
	w("        log << tid * 2 + 1")
	w("        m.unlock")
	w("      else")
	rl, ru := "m.read_lock", "m.read_unlock"
	if kind == "romutex-mixed" {
		rl, ru = "ro.lock", "ro.unlock"
	}
	if kind == "mutex" {
		rl, ru = "m.lock", "m.unlock"
	}
	w("        %s", rl)
	w("        a := cnt[0]")
	if s := c25Sleep(r, "i"); s != "" {
		w("        %s", s)
	}
	w("        b := cnt[0]")
	w("        mybad[0] = mybad[0] + 1 if a != b")
	w("        mybad[1] = mybad[1] + 1 if a %% 2 != 0")
	w("        %s", ru)
	w("      end")
	w("      i++")
	w("    end")
	w("    wg.end")
	w("  end")
	w("  t++")
	w("end")
	w("wg.wait")
	w("println \"CNT #{cnt[0]}\"")
	w("for e in log")
	w("  println \"L #{e}\"")
	w("end")
	w("for b in bad")
	w("  println \"BAD #{b[0]} #{b[1]}\"")
	w("end")
	w("println \"done\"")
	src := sb.String()
	res, ok := c25RunElk(c, caseIdx, "locks", src, r)
	if !ok {
		return
	}
	prim := strings.SplitN(kind, "-", 2)[0]
	viol := func(contract, detail string) {
		c.Violate(prim+":"+contract+":elk", fmt.Sprintf("%s\n(%s, %d threads x %d sections)\nstdout:\n%s\nprogram:\n%s", detail, kind, T, N, head(res.Stdout, 600), head(src, 3500)), caseIdx, src)
	}
	out := res.Stdout
	if _, done := c25Line(out, "done"); !done {
		viol("program-ended-early", "the program did not reach its last statement")
		return
	}
	writes := 0
	for t := 0; t < T; t++ {
		for i := 0; i < N; i++ {
			if !mixed || (i+t)%3 == 0 {
				writes++
			}
		}
	}
	cnt, _ := c25Line(out, "CNT")
	c.Eval(int64(T * N))
	if cnt != fmt.Sprint(2*writes) {
		viol("lost-update", fmt.Sprintf("%d write sections each add 2 to a plain counter inside lock/unlock; final value %s, expected %d", writes, cnt, 2*writes))
	}
	logRows := c25Lines(out, "L")
	if len(logRows) != 2*writes {
		viol("log-length", fmt.Sprintf("the enter/exit log has %d entries, expected %d", len(logRows), 2*writes))
	}
	for i := 0; i+1 < len(logRows); i += 2 {
		a, b := logRows[i][0], logRows[i+1][0]
		if a%2 != 0 || b != a+1 {
			viol("writer-overlap", fmt.Sprintf("log entries %d,%d are %d,%d: a writer entered while thread %d was inside its critical section", i, i+1, a, b, a/2))
			break
		}
	}
	for t, row := range c25Lines(out, "BAD") {
		if len(row) == 2 && (row[0] != 0 || row[1] != 0) {
			viol("reader-saw-write", fmt.Sprintf("thread %d: %d read sections saw the counter change, %d saw a half-done write (odd value)", t, row[0], row[1]))
		}
	}
	c.Count("elk_lock_sections", int64(T*N))
	c.Distinct(fmt.Sprintf("elklock|%s|t%d", kind, T))
}

// ---- (E5) misuse sequences followed by a sequential model ---------------------------------------

func c25ElkMisuse(c *Ctx, caseIdx int, r *rand.Rand) {
	p := &seqProg{}
	w := func(f string, a ...any) { fmt.Fprintf(&p.sb, f+"\n", a...) }
	w("using Std::Sync::*")
	const mErr = `ERR "Std::Sync::Mutex::UnlockedError"`
	const rwErr = `ERR "Std::Sync::RWMutex::UnlockedError"`
	const oorErr = `ERR "Std::OutOfRangeError"`
	const clErr = `ERR "Std::Channel::ClosedError"`
	what := []string{"mutex", "rwmutex", "waitgroup", "channel"}[r.IntN(4)]
	switch what {
	case "mutex":
		w("m := Mutex()")
		locked := false
		for i := 0; i < 6+r.IntN(14); i++ {
			if r.IntN(5) < 2 && !locked {
				p.probeStmt("m.lock", "ok", "lock of a free mutex", "mutex:lock")
				locked = true
			} else {
				want := "ok"
				if !locked {
					want = mErr
				}
				p.probeStmt("m.unlock", want, fmt.Sprintf("unlock (held=%v)", locked), "mutex:unlock-unlocked")
				locked = false
			}
		}
	case "rwmutex":
		w("m := RWMutex()")
		w("ro := m.to_read_only")
		w("ro2 := ROMutex(m)")
		w("ro3 := ROMutex()")
		wl, rd, rd3 := false, 0, 0
		for i := 0; i < 8+r.IntN(16); i++ {
			switch x := r.IntN(9); {
			case x == 0 && !wl && rd == 0:
				p.probeStmt("m.lock", "ok", "write lock of a free rwmutex", "rwmutex:lock")
				wl = true
			case x <= 2 && !wl:
				stmt := []string{"m.read_lock", "ro.lock", "ro2.lock"}[r.IntN(3)]
				p.probeStmt(stmt, "ok", "read lock", "rwmutex:read-lock")
				rd++
			case x <= 4:
				want := "ok"
				if !wl {
					want = rwErr
				}
				p.probeStmt("m.unlock", want, fmt.Sprintf("write unlock (write-held=%v, readers=%d)", wl, rd), "rwmutex:unlock-unlocked")
				wl = false
			case x <= 7:
				stmt := []string{"m.read_unlock", "ro.unlock", "ro2.unlock", "ro.rwmutex.read_unlock"}[r.IntN(4)]
				want := "ok"
				if rd == 0 {
					want = rwErr
				}
				p.probeStmt(stmt, want, fmt.Sprintf("read unlock (write-held=%v, readers=%d)", wl, rd), "rwmutex:read-unlock-unlocked")
				if rd > 0 {
					rd--
				}
			default:
				if rd3 == 0 && r.IntN(2) == 0 {
					p.probeStmt("ro3.lock", "ok", "lock of a ROMutex with its own rwmutex", "romutex:lock")
					rd3++
				} else {
					want := "ok"
					if rd3 == 0 {
						want = rwErr
					}
					p.probeStmt("ro3.unlock", want, fmt.Sprintf("unlock of a ROMutex with its own rwmutex (readers=%d)", rd3), "romutex:unlock-unlocked")
					if rd3 > 0 {
						rd3--
					}
				}
			}
		}
	case "waitgroup":
		init := r.IntN(3)
		w("wg := WaitGroup(%d)", init)
		cnt := init
		for i := 0; i < 6+r.IntN(14); i++ {
			switch x := r.IntN(8); {
			case x == 0:
				p.probeStmt("wg.start", "ok", "start", "waitgroup:start")
				cnt++
			case x <= 2:
				want := "ok"
				if cnt == 0 {
					want = oorErr
				} else {
					cnt--
				}
				p.probeStmt("wg.end", want, fmt.Sprintf("end (counter=%d before)", cnt), "waitgroup:end-below-zero")
			case x == 3:
				n := r.IntN(4)
				want := "ok"
				if n > cnt {
					want = oorErr
				} else {
					cnt -= n
				}
				p.probeStmt(fmt.Sprintf("wg.remove(%d)", n), want, fmt.Sprintf("remove(%d)", n), "waitgroup:remove-below-zero")
			case x == 4:
				n := r.IntN(5) - 2
				want := "ok"
				if cnt+n < 0 {
					want = oorErr
				} else {
					cnt += n
				}
				p.probeStmt(fmt.Sprintf("wg.add(%d)", n), want, fmt.Sprintf("add(%d)", n), "waitgroup:add-below-zero")
			default:
				if cnt == 0 {
					p.probeStmt("wg.wait", "ok", "wait with counter 0 returns at once", "waitgroup:wait-at-zero")
				}
			}
		}
	case "channel":
		capacity := 1 + r.IntN(4)
		w("ch := Channel::[Int](%d)", capacity)
		w("wv := ch.writeonly")
		w("rv := ch.readonly")
		var q []int
		closed := false
		next := 10
		for i := 0; i < 8+r.IntN(16); i++ {
			switch x := r.IntN(12); {
			case x <= 2:
				if !closed && len(q) >= capacity {
					continue
				}
				next++
				target := []string{"ch", "wv"}[r.IntN(2)]
				stmt := fmt.Sprintf("%s << %d", target, next)
				if r.IntN(3) == 0 {
					stmt = fmt.Sprintf("%s.push(%d)", target, next)
				}
				want := "ok"
				if closed {
					want = clErr
				} else {
					q = append(q, next)
				}
				p.probeStmt(stmt, want, fmt.Sprintf("push (closed=%v, length=%d)", closed, len(q)), "channel:push-after-close")
			case x <= 5:
				if len(q) == 0 && !closed {
					continue
				}
				target := []string{"ch", "rv"}[r.IntN(2)]
				if len(q) > 0 {
					p.probeExpr(target+".pop", fmt.Sprint(q[0]), fmt.Sprintf("pop (closed=%v, buffered=%v)", closed, q), "channel:pop-drains-in-order")
					q = q[1:]
				} else {
					p.probeExpr(target+".pop", clErr, "pop from a closed and drained channel", "channel:pop-after-drain")
				}
			case x == 6:
				if len(q) == 0 && !closed {
					continue
				}
				target := []string{"ch", "rv"}[r.IntN(2)]
				if len(q) > 0 {
					p.probeExpr("(<<"+target+").unwrap", fmt.Sprint(q[0]), "<<ch yields the oldest buffered value", "channel:pop-drains-in-order")
					q = q[1:]
				} else {
					p.probeExpr("(<<"+target+").ok", "false", "<<ch on a closed and drained channel is an error result", "channel:pop-after-drain")
				}
			case x <= 8:
				target := []string{"ch", "wv", "wv"}[r.IntN(3)]
				want := "ok"
				if closed {
					want = clErr
				}
				p.probeStmt(target+".close", want, fmt.Sprintf("close through %s (closed=%v)", target, closed), "channel:close-twice:"+target)
				closed = true
			case x == 9:
				p.probeExpr("ch.length", fmt.Sprint(len(q)), "length", "channel:length")
			case x == 10:
				p.probeExpr("ch.left_capacity", fmt.Sprint(capacity-len(q)), "left_capacity", "channel:left-capacity")
			default:
				if closed {
					// iteration drains what is left and stops
					id := len(p.probes)
					w("acc%d := ArrayList::[Int]()", id)
					w("for v in %s", []string{"ch", "rv"}[r.IntN(2)])
					w("  acc%d << v", id)
					w("end")
					var parts []string
					for _, v := range q {
						parts = append(parts, fmt.Sprint(v))
					}
					p.probeExpr(fmt.Sprintf("acc%d.length", id), fmt.Sprint(len(q)), "for-in over a closed channel yields the buffered values and ends", "channel:iterate-closed")
					q = nil
				}
			}
		}
		// Channel.closed
		if r.IntN(3) == 0 {
			w("cc := Channel.closed::[Int]()")
			p.probeStmt("cc << 1", clErr, "push to Channel.closed", "channel:closed-constructor")
			p.probeExpr("(<<cc).ok", "false", "pop from Channel.closed", "channel:closed-constructor")
		}
	}
	w("println \"done\"")
	c.Count("elk_misuse_programs_"+what, 1)
	c25RunProbes(c, caseIdx, what, p.sb.String(), p.probes, r)
	c.Distinct(fmt.Sprintf("elkmisuse|%s|%d", what, len(p.probes)/4))
}

// c25RunProbes is runProbeProgram with a watchdog (a corrupted primitive blocks instead of failing)
// and signatures that name the primitive and the contract.
func c25RunProbes(c *Ctx, caseIdx int, what, src string, probes []c17Probe, r *rand.Rand) {
	res, ok := c25RunElkAllowError(c, caseIdx, "misuse-"+what, src, r)
	if res == nil {
		return
	}
	c.Eval(int64(len(probes)))
	got := map[int]string{}
	for _, ln := range strings.Split(res.Stdout, "\n") {
		if strings.HasPrefix(ln, "P") {
			if sp := strings.IndexByte(ln, ' '); sp > 1 && strings.Trim(ln[1:sp], "0123456789") == "" {
				k, _ := strconv.Atoi(ln[1:sp])
				got[k] = ln[sp+1:]
			}
		}
	}
	for k, pr := range probes {
		c.Count("elk_misuse_probes", 1)
		g, has := got[k]
		if !has {
			c.Violate(pr.site+":no-output", fmt.Sprintf("probe %d (%s) printed nothing; the program ended with %s\n%s\nprogram:\n%s", k, pr.what, head(res.ErrInspect, 200), head(res.Trace, 500), head(src, 3000)), caseIdx, src)
			return
		}
		if g != pr.want {
			c.Violate(pr.site+":wrong", fmt.Sprintf("probe %d (%s): the contract says %s, elk printed %s\nprogram:\n%s", k, pr.what, pr.want, g, head(src, 3000)), caseIdx, src)
			return
		}
	}
	if !ok {
		c.Violate(what+":misuse-sequence-uncaught-error:"+c25ErrClass(res.ErrInspect), fmt.Sprintf("the program ended with %s\nprogram:\n%s", head(res.ErrInspect, 300), head(src, 3000)), caseIdx, src)
	}
}

// ---- (E6) WaitGroup ordering ---------------------------------------------------------------------

func c25ElkWaitGroup(c *Ctx, caseIdx int, r *rand.Rand) {
	T := 1 + r.IntN(8)
	phases := 1 + r.IntN(3)
	waiters := r.IntN(3)
	useSpawn := r.IntN(3) == 0
	var sb strings.Builder
	w := func(f string, a ...any) { fmt.Fprintf(&sb, f+"\n", a...) }
	w("using Std::Sync::*")
	if useSpawn {
		w("using Std::Sync::WaitGroup::spawn!")
	}
	w("m := Mutex()")
	w("log := ArrayList::[Int]()")
	w("wg := WaitGroup()")
	w("outer := WaitGroup()")
	w("ph := 0")
	w("while ph < %d", phases)
	w("  phase := ph")
	if !useSpawn && r.IntN(2) == 0 {
		w("  wg.add(%d)", T)
		w("  t := 0")
		w("  while t < %d", T)
		w("    tid := t")
	} else if !useSpawn {
		w("  t := 0")
		w("  while t < %d", T)
		w("    tid := t")
		w("    wg.start")
	} else {
		w("  t := 0")
		w("  while t < %d", T)
		w("    tid := t")
	}
	if useSpawn {
		w("    spawn! wg, go")
	} else {
		w("    go")
	}
	w("      d := (tid * %d + %d) %% %d", 1+r.IntN(40), r.IntN(50), 20+r.IntN(300))
	w("      sleep d.microseconds")
	w("      m.lock")
	w("      log << phase * 100 + tid")
	w("      m.unlock")
	if !useSpawn {
		w("      wg.end")
	}
	w("    end")
	w("    t++")
	w("  end")
	for k := 0; k < waiters; k++ {
		w("  outer.start")
		w("  go")
		w("    wg.wait")
		w("    m.lock")
		w("    log << 0 - (phase * 100 + %d)", 50+k)
		w("    m.unlock")
		w("    outer.end")
		w("  end")
	}
	w("  wg.wait")
	w("  m.lock")
	w("  log << 0 - (phase * 100 + 99)")
	w("  m.unlock")
	w("  outer.wait")
	w("  ph++")
	w("end")
	w("for e in log")
	w("  println \"L #{e}\"")
	w("end")
	w("println \"done\"")
	src := sb.String()
	res, ok := c25RunElk(c, caseIdx, "waitgroup", src, r)
	if !ok {
		return
	}
	viol := func(contract, detail string) {
		c.Violate("waitgroup:"+contract+":elk", fmt.Sprintf("%s\n(%d workers, %d phases, %d extra waiters, spawn!=%v)\nstdout:\n%s\nprogram:\n%s", detail, T, phases, waiters, useSpawn, head(res.Stdout, 600), head(src, 3000)), caseIdx, src)
	}
	if _, done := c25Line(res.Stdout, "done"); !done {
		viol("program-ended-early", "the program did not reach its last statement")
		return
	}
	rows := c25Lines(res.Stdout, "L")
	c.Eval(int64(len(rows)))
	ended := map[int64]int{}
	for _, row := range rows {
		v := row[0]
		if v >= 0 {
			ended[v/100]++
			continue
		}
		ph := (-v) / 100
		if ended[ph] != T {
			viol("wait-returned-before-last-end", fmt.Sprintf("phase %d: a `wait` returned (log entry %d) when only %d of %d workers had reached `end`", ph, v, ended[ph], T))
			return
		}
	}
	if len(rows) != phases*(T+1+waiters) {
		viol("log-length", fmt.Sprintf("log has %d entries, expected %d", len(rows), phases*(T+1+waiters)))
	}
	c.Count("elk_waitgroup_waits_checked", int64(phases*(1+waiters)))
	c.Distinct(fmt.Sprintf("elkwg|t%d|ph%d|w%d|%v", T, phases, waiters, useSpawn))
}

// ---- (E7) Once -----------------------------------------------------------------------------------

func c25ElkOnce(c *Ctx, caseIdx int, r *rand.Rand) {
	kind := []string{"call", "memo", "fn", "call-throws", "memo-throws", "fn-throws"}[r.IntN(6)]
	T := 2 + r.IntN(7)
	var sb strings.Builder
	w := func(f string, a ...any) { fmt.Fprintf(&sb, f+"\n", a...) }
	w("using Std::Sync::*")
	w("cnt := [0]")
	w("fin := [0]")
	w("wg := WaitGroup()")
	w("obs := ArrayList::[ArrayList[Int]]()")
	w("t := 0")
	w("while t < %d", T)
	w("  obs << ArrayList::[Int]()")
	w("  t++")
	w("end")
	body := func(ind string) {
		w(ind+"cnt[0] = cnt[0] + 1")
		w(ind+"sleep %d.microseconds", 20+r.IntN(400))
		w(ind + "fin[0] = fin[0] + 1")
	}
	// closures handed to other threads must not have open upvalues (calling one raises OpenClosureError),
	// so the wrapped functions are built inside methods that have returned
	switch kind {
	case "call", "call-throws":
		w("once := Once()")
	case "memo":
		w("def make_f(cnt: ArrayList[Int], fin: ArrayList[Int]): ||: Int")
		w("  Once.memo() ->")
		body("    ")
		w("    cnt[0] * 10 + 7")
		w("  end")
		w("end")
		w("f := make_f(cnt, fin)")
	case "memo-throws":
		w("def make_f(cnt: ArrayList[Int], fin: ArrayList[Int]): ||: Int ! Symbol")
		w("  Once.memo() ->")
		body("    ")
		w("    throw :boom")
		w("  end")
		w("end")
		w("f := make_f(cnt, fin)")
	case "fn", "fn-throws":
		w("def make_f(cnt: ArrayList[Int], fin: ArrayList[Int]): ||: void")
		w("  Once.fn ->")
		body("    ")
		if kind == "fn-throws" {
			w("    throw unchecked :boom")
		}
		w("  end")
		w("end")
		w("f := make_f(cnt, fin)")
	}
	w("t = 0")
	w("while t < %d", T)
	w("  mine := obs[t]")
	w("  tid := t")
	w("  wg.start")
	w("  go")
	w("    d := tid %% 3")
	w("    sleep d.microseconds")
	switch kind {
	case "call":
		w("    once() ->")
		body("      ")
		w("    end")
		w("    mine << fin[0]")
		w("    mine << 0")
	case "call-throws":
		w("    do")
		w("      once() ->")
		body("        ")
		w("        throw :boom")
		w("      end")
		w("      mine << fin[0]")
		w("      mine << 0")
		w("    catch Symbol() as sym")
		w("      mine << fin[0]")
		w("      mine << 1")
		w("    end")
	case "memo":
		w("    v := f()")
		w("    mine << fin[0]")
		w("    mine << v")
	case "memo-throws":
		w("    do")
		w("      f()")
		w("      mine << fin[0]")
		w("      mine << 0")
		w("    catch Symbol() as sym")
		w("      mine << fin[0]")
		w("      mine << 1")
		w("    end")
	case "fn":
		w("    f()")
		w("    mine << fin[0]")
		w("    mine << 0")
	case "fn-throws":
		w("    do")
		w("      f()")
		w("      mine << fin[0]")
		w("      mine << 0")
		w("    catch Symbol() as sym")
		w("      mine << fin[0]")
		w("      mine << 1")
		w("    end")
	}
	w("    wg.end")
	w("  end")
	w("  t++")
	w("end")
	w("wg.wait")
	w("println \"CNT #{cnt[0]} #{fin[0]}\"")
	w("for o in obs")
	w("  println \"O #{o[0]} #{o[1]}\"")
	w("end")
	w("println \"done\"")
	src := sb.String()
	res, ok := c25RunElk(c, caseIdx, "once", src, r)
	if !ok {
		return
	}
	viol := func(contract, detail string) {
		c.Violate("once:"+contract+":"+kind+":elk", fmt.Sprintf("%s\n(%d concurrent callers)\nstdout:\n%s\nprogram:\n%s", detail, T, head(res.Stdout, 600), head(src, 3000)), caseIdx, src)
	}
	if _, done := c25Line(res.Stdout, "done"); !done {
		viol("program-ended-early", "the program did not reach its last statement")
		return
	}
	cnt := c25Lines(res.Stdout, "CNT")
	c.Eval(int64(T + 1))
	if len(cnt) != 1 || len(cnt[0]) != 2 || cnt[0][0] != 1 || cnt[0][1] != 1 {
		viol("ran-not-exactly-once", fmt.Sprintf("the body ran %v times (started, finished), expected [1 1]", cnt))
		return
	}
	rows := c25Lines(res.Stdout, "O")
	if len(rows) != T {
		viol("callers-missing", fmt.Sprintf("%d of %d callers reported", len(rows), T))
		return
	}
	second := int64(0)
	for t, row := range rows {
		if row[0] != 1 {
			viol("caller-returned-before-body-finished", fmt.Sprintf("caller %d returned when the body had finished %d times", t, row[0]))
			return
		}
		second += row[1]
	}
	switch kind {
	case "memo":
		if second != int64(T)*17 {
			viol("memo-different-values", fmt.Sprintf("callers received %v, expected 17 each", rows))
		}
	case "memo-throws", "fn-throws":
		if second != int64(T) {
			viol("error-not-memoized", fmt.Sprintf("%d of %d callers of the wrapped throwing function caught the error (the header says the throw value is memoized)", second, T))
		}
	case "call-throws":
		if second != 1 {
			viol("call-error-delivered-to-wrong-number-of-callers", fmt.Sprintf("the body threw once; %d callers caught an error, expected 1 (the caller that ran it)", second))
		}
	}
	c.Count("elk_once_callers", int64(T))
	c.Distinct(fmt.Sprintf("elkonce|%s|t%d", kind, T))
}

// ---- dispatch -------------------------------------------------------------------------------------

func c25Case(c *Ctx, i int, r *rand.Rand) {
	switch i % 20 {
	case 0, 1, 2:
		c25ElkProdCons(c, i, r)
	case 3, 4:
		c25ElkSelectShared(c, i, r)
	case 5:
		if i%40 == 5 {
			c25ElkSelectElseLoop(c, i, r)
		} else {
			c25ElkSelectReady(c, i, r)
		}
	case 6, 7:
		c25ElkLocks(c, i, r)
	case 8:
		c25ElkMisuse(c, i, r)
	case 9:
		if i%40 == 9 {
			c25ElkWaitGroup(c, i, r)
		} else {
			c25ElkOnce(c, i, r)
		}
	case 10, 11, 12, 13, 14:
		c25ChannelHistory(c, i, r)
	case 15, 16:
		c25MutexHistory(c, i, r)
	case 17:
		c25UnlockRace(c, i, r)
	case 18:
		c25WaitGroupHistory(c, i, r)
	case 19:
		c25OnceHistory(c, i, r)
	}
}

// c25Post drops one family of race detector reports that is not a violation of the property: Go's
// detector models close(ch) as a write and ch <- v as a read of the channel to flag the *possibility*
// of a send-on-closed panic. Elk's channels turn exactly that panic into Channel::ClosedError by design
// (value/channel_of_value.go Push/PushCtx + recover), both outcomes of a push racing with close are
// allowed by the contract, and no Elk memory is involved. Every other report stays a violation.
func c25Post(c *Ctx) {
	c.mu.Lock()
	defer c.mu.Unlock()
	kept := c.violations[:0]
	for _, v := range c.violations {
		if strings.HasPrefix(v.Signature, "C25:race:") && c25IsCloseVsSend(v.Detail) {
			c.counters["race_reports_close_vs_send_by_design"]++
			continue
		}
		// harness artifact: RunElk re-initialises the global environment for the next program while a thread
		// of a previous program that was abandoned (deadlock watchdog, main thread died) is still alive; a real
		// process initialises once. Only seen after another violation of the same run.
		if strings.HasPrefix(v.Signature, "C25:race:") && strings.Contains(v.Detail, "elk.InitGlobalEnvironment()") {
			c.counters["race_reports_harness_reinit_after_abandoned_program"]++
			continue
		}
		kept = append(kept, v)
	}
	c.violations = kept
}

var c25RaceTopRe = regexp.MustCompile(`(?m)^(?:Read|Write|Previous read|Previous write) at .*\n\s+(\S+)\(`)

func c25IsCloseVsSend(detail string) bool {
	tops := c25RaceTopRe.FindAllStringSubmatch(detail, -1)
	if len(tops) != 2 {
		return false
	}
	a, b := tops[0][1], tops[1][1]
	isClose := func(s string) bool { return s == "runtime.closechan" }
	isSend := func(s string) bool { return s == "runtime.chansend" || s == "runtime.selectgo" || s == "runtime.chansend1" }
	return (isClose(a) && isSend(b)) || (isClose(b) && isSend(a))
}

// c25Init: a race-built worker that has printed any report exits with status 66 even after finishing
// all its cases, which the supervisor would count as "worker died outside a case". Reports are expected
// here (the listed inline-cache race, close-vs-send), they are collected from the log files, so the
// worker re-executes itself once with exitcode=0 added to the GORACE settings the supervisor chose.
func c25Init(c *Ctx) {
	if !c.worker {
		return
	}
	g := os.Getenv("GORACE")
	if g == "" || strings.Contains(g, "exitcode=") {
		return
	}
	var env []string
	for _, kv := range os.Environ() {
		if !strings.HasPrefix(kv, "GORACE=") {
			env = append(env, kv)
		}
	}
	env = append(env, "GORACE="+g+" exitcode=0")
	if err := syscall.Exec(selfExe(), os.Args, env); err != nil {
		c.Inconclusive("could not re-exec the worker with GORACE exitcode=0: " + err.Error())
	}
}

func init() {
	_ = sort.Ints
	register(&Check{
		ID: "C25",
		Rule: "cases alternate between (1) generated Elk programs run on the real VM (thread pool 2..8, schedule noise from seeded microsecond sleeps): P producers push unique values (producer*1000+seq) into a channel of capacity 0..4 (directly or through writeonly/readonly views), C consumers drain it with for-in / pop+catch / <<ch / select (with a never-ready case) / next, close after the producers' WaitGroup, post-close probes; " +
			"K threads running one shared select expression on private channels (receive cases; send cases); straight-line select readiness probes with else followed by a sequential model; lock-protected plain counter with an enter/exit log for Mutex, RWMutex and ROMutex (readers check for torn/half-done writes); misuse sequences (unlock unlocked, read_unlock, ROMutex, WaitGroup below zero, closed channels and views) against a sequential model; WaitGroup ordering over several phases and waiters; Once call/memo/fn with N concurrent callers incl. throwing bodies; " +
			"and (2) Go-API histories of value.ChannelOfValue / NativeChannel (2..12 goroutines, <=560 values, close after / racing / double, views) stamped with one atomic counter and decided exactly (each pop identifies its push: invention, duplication, loss, pop-before-push, FIFO real-time order, buffer level <= capacity, close contract) plus porcupine against a bounded FIFO queue model, Mutex/RWMutex/ROMutex section overlap, unlock races (exactly `held` unlocks succeed), WaitGroup and Once histories. " +
			"Race detector reports of the workers are violations keyed by the innermost elk frames. distinct = workload kind x parameters",
		NumCases: func(tier string) int {
			if tier == "thorough" {
				return 2000
			}
			return 400
		},
		Case: c25Case,
		Init: c25Init,
		Post: c25Post,
		MinCounters: map[string]int64{
			"elk_programs":                            100,
			"elk_channel_values_matched":              1000,
			"elk_select_values_matched":               1000,
			"elk_lock_sections":                       1000,
			"elk_misuse_probes":                       100,
			"go_channel_histories":                    60,
			"go_channel_values_matched":               10000,
			"go_channel_histories_filling_the_buffer": 5,
			"go_reader_sections_overlapping":          1,
			"go_unlock_races":                         200,
			"porcupine_ok":                            10,
		},
		Assumptions: []string{
			"timestamps of the Go-level histories come from one atomic counter taken at the client boundary",
			"termination is restated as a 60 s watchdog per generated program / 60 s per Go history (a blocked program is reported as a deadlock)",
			"porcupine v1.3.0 is used only as a cross-check of the exact checkers on small buffered histories",
			"Elk-level observations are collected in per-thread lists or under the primitive under test and printed by the main thread after the final WaitGroup#wait",
		},
	})
}
