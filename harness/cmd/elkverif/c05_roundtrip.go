package main

// C05 — Printing a syntax tree and reparsing it gives the same tree.

import (
	"fmt"
	"math/rand/v2"
	"os"
	"path/filepath"
	"reflect"
	"sort"
	"strings"
	"sync"

	"github.com/elk-language/elk/parser"
	"github.com/elk-language/elk/parser/ast"
	"github.com/elk-language/elk/token"
)

// dumpAST renders a location-free canonical form of a tree by reflection over exported fields.
// Unexported fields (locations, cached types, static flags) are skipped.
func dumpAST(v reflect.Value, sb *strings.Builder, depth int) {
	if depth > 400 {
		sb.WriteString("<deep>")
		return
	}
	switch v.Kind() {
	case reflect.Interface:
		if v.IsNil() {
			sb.WriteString("nil")
			return
		}
		dumpAST(v.Elem(), sb, depth+1)
	case reflect.Ptr:
		if v.IsNil() {
			sb.WriteString("nil")
			return
		}
		if tok, ok := v.Interface().(*token.Token); ok {
			fmt.Fprintf(sb, "tok(%s,%q)", tok.Type.Name(), tok.Value)
			return
		}
		dumpAST(v.Elem(), sb, depth+1)
	case reflect.Struct:
		t := v.Type()
		if t.Name() == "ProgramNode" {
			sb.WriteString("ProgramNode{Body:")
			dumpAST(v.FieldByName("Body"), sb, depth+1)
			sb.WriteString("}")
			return
		}
		sb.WriteString(t.Name())
		sb.WriteString("{")
		for i := 0; i < t.NumField(); i++ {
			f := t.Field(i)
			if !f.IsExported() {
				continue
			}
			if f.Anonymous {
				// embedded bases: only exported content matters
				dumpAST(v.Field(i), sb, depth+1)
				continue
			}
			sb.WriteString(f.Name)
			sb.WriteString(":")
			dumpAST(v.Field(i), sb, depth+1)
			sb.WriteString(",")
		}
		sb.WriteString("}")
	case reflect.Slice, reflect.Array:
		sb.WriteString("[")
		for i := 0; i < v.Len(); i++ {
			el := v.Index(i)
			// blank lines / stray separators are not structure
			if el.Kind() == reflect.Interface && !el.IsNil() {
				if _, empty := el.Interface().(*ast.EmptyStatementNode); empty {
					continue
				}
			}
			dumpAST(el, sb, depth+1)
			sb.WriteString(",")
		}
		sb.WriteString("]")
	case reflect.String:
		str := v.String()
		if strings.Contains(str, "\n") {
			// multi-line text (doc comments) is re-indented by the printer: compare modulo leading/trailing blanks per line
			lines := strings.Split(str, "\n")
			for i := range lines {
				lines[i] = strings.TrimSpace(lines[i])
			}
			str = strings.TrimSpace(strings.Join(lines, "\n"))
		}
		fmt.Fprintf(sb, "%q", str)
	case reflect.Bool:
		fmt.Fprintf(sb, "%v", v.Bool())
	case reflect.Int, reflect.Int8, reflect.Int16, reflect.Int32, reflect.Int64:
		fmt.Fprintf(sb, "%d", v.Int())
	case reflect.Uint, reflect.Uint8, reflect.Uint16, reflect.Uint32, reflect.Uint64:
		fmt.Fprintf(sb, "%d", v.Uint())
	case reflect.Float32, reflect.Float64:
		fmt.Fprintf(sb, "%v", v.Float())
	case reflect.Map:
		keys := v.MapKeys()
		sort.Slice(keys, func(i, j int) bool { return fmt.Sprint(keys[i]) < fmt.Sprint(keys[j]) })
		sb.WriteString("map[")
		for _, k := range keys {
			fmt.Fprintf(sb, "%v:", k)
			dumpAST(v.MapIndex(k), sb, depth+1)
			sb.WriteString(",")
		}
		sb.WriteString("]")
	default:
		sb.WriteString("?" + v.Kind().String())
	}
}

func dumpNode(n ast.Node) string {
	var sb strings.Builder
	dumpAST(reflect.ValueOf(n), &sb, 0)
	return sb.String()
}

// divergence returns the struct type name enclosing the first differing byte of two dumps.
func divergence(a, b string) string {
	i := 0
	for i < len(a) && i < len(b) && a[i] == b[i] {
		i++
	}
	// walk back to the nearest "Name{" that is still open
	depth := 0
	for j := i - 1; j >= 0; j-- {
		switch a[j] {
		case '}':
			depth++
		case '{':
			if depth == 0 {
				k := j
				for k > 0 && (a[k-1] == '_' || (a[k-1] >= 'A' && a[k-1] <= 'Z') || (a[k-1] >= 'a' && a[k-1] <= 'z') || (a[k-1] >= '0' && a[k-1] <= '9')) {
					k--
				}
				return a[k:j]
			}
			depth--
		}
	}
	return "?"
}

// nodeTypesIn collects the distinct node type names of a dump (for coverage evidence).
func nodeTypesIn(c *Ctx, dump string) {
	start := -1
	for i := 0; i < len(dump); i++ {
		ch := dump[i]
		isName := ch == '_' || (ch >= 'A' && ch <= 'Z') || (ch >= 'a' && ch <= 'z') || (ch >= '0' && ch <= '9')
		if isName {
			if start < 0 {
				start = i
			}
			continue
		}
		if ch == '{' && start >= 0 && i-start > 3 && dump[start] >= 'A' && dump[start] <= 'Z' {
			c.Distinct("node|" + dump[start:i])
		}
		start = -1
	}
}

func c05Check(c *Ctx, caseIdx int, src, origin string) {
	var a *ast.ProgramNode
	var printed string
	if p := guard(func() {
		tree, diags := parser.Parse("m.elk", src)
		if len(diags) > 0 || tree == nil {
			return
		}
		a = tree
	}); p != "" || a == nil {
		c.Count("inputs_not_parsing", 1)
		return
	}
	c.Eval(1)
	c.Count("trees_"+origin, 1)
	da := dumpNode(a)
	nodeTypesIn(c, da)
	if p := guard(func() { printed = a.String() }); p != "" {
		c.Violate("print-panic:"+head(p, 50), fmt.Sprintf("String() of the tree of %q panicked: %s", head(src, 400), p), caseIdx, src)
		return
	}
	var b *ast.ProgramNode
	var diags2 string
	if p := guard(func() {
		tree, diags := parser.Parse("m.elk", printed)
		for _, d := range diags {
			diags2 += d.Message + "; "
		}
		b = tree
	}); p != "" {
		c.Violate("reparse-panic:"+head(p, 50), fmt.Sprintf("reparsing printed tree panicked: %s\nsource: %q\nprinted: %q", p, head(src, 400), head(printed, 400)), caseIdx, src)
		return
	}
	if diags2 != "" || b == nil {
		c.Violate("printed-source-has-errors:"+divergenceHint(a), fmt.Sprintf("source %q\nprinted as %q\nwhich does not parse: %s", head(src, 500), head(printed, 500), head(diags2, 300)), caseIdx, src)
		return
	}
	db := dumpNode(b)
	if da != db {
		where := divergence(da, db)
		c.Violate("reparsed-tree-differs:"+where, fmt.Sprintf("source %q\nprinted as %q\ntrees differ inside a %s node\n orig: …%s\n back: …%s", head(src, 500), head(printed, 500), where, ctxAround(da, db), ctxAround(db, da)), caseIdx, src)
		return
	}
}

func divergenceHint(a *ast.ProgramNode) string {
	if len(a.Body) == 0 {
		return "empty"
	}
	last := a.Body[len(a.Body)-1]
	if es, ok := last.(*ast.ExpressionStatementNode); ok && es.Expression != nil {
		return reflect.TypeOf(es.Expression).Elem().Name()
	}
	return reflect.TypeOf(last).Elem().Name()
}

func ctxAround(a, b string) string {
	i := 0
	for i < len(a) && i < len(b) && a[i] == b[i] {
		i++
	}
	s := i - 80
	if s < 0 {
		s = 0
	}
	e := i + 120
	if e > len(a) {
		e = len(a)
	}
	return a[s:e]
}

// ---- fully parenthesised expression generator ------------------------------------------------

var c05Binary = []string{"+", "-", "*", "/", "**", "%", "<<", ">>", "<<<", ">>>", "&", "|", "^", "&~", "&&", "||", "??", "==", "!=", "===", "!==", "=~", "!~", "<", "<=", ">", ">=", "<=>", "<:", ":>", "<<:", ":>>", "|>", "...", "..<", "<..", "<.<"}
var c05Assign = []string{"=", ":=", "+=", "-=", "*=", "/=", "**=", "%=", "<<=", ">>=", "&=", "|=", "^=", "&&=", "||=", "??="}
var c05Prefix = []string{"-", "+", "!", "~", "try ", "must ", "await ", "typeof ", "throw ", "return ", "break ", "go ", "&"}
var c05Leaves = []string{"a", "b", "c", "1", "2.5", "\"s\"", ":s", "nil", "true", "Foo", "[1, 2]", "foo(1)", "self", "@iv", "x.y", "%[1]", "{1 => 2}", "`c`", "1i8", "Foo::Bar", "f()"}

// exprTree is a generated expression with explicit structure, so that a failing round trip can be
// attributed to its smallest failing sub-expression.
type exprTree struct {
	shape string // operator / construct name
	fmtS  string // rendering format with one %s per child (children are rendered parenthesised)
	kids  []*exprTree
}

func (e *exprTree) render() string {
	if len(e.kids) == 0 {
		return e.fmtS
	}
	args := make([]any, len(e.kids))
	for i, k := range e.kids {
		args[i] = k.render()
	}
	return fmt.Sprintf(e.fmtS, args...)
}

// signature of a minimal failing tree: its construct and the constructs of its children
func (e *exprTree) sig() string {
	var ks []string
	for _, k := range e.kids {
		if len(k.kids) == 0 {
			ks = append(ks, "leaf")
		} else {
			ks = append(ks, k.shape)
		}
	}
	return e.shape + "(" + strings.Join(ks, ",") + ")"
}

func (e *exprTree) contains(shape string) bool {
	if e.shape == shape {
		return true
	}
	for _, k := range e.kids {
		if k.contains(shape) {
			return true
		}
	}
	return false
}

// without returns a copy where every sub-tree of the given shape is replaced by the leaf "a".
func (e *exprTree) without(shape string) *exprTree {
	if e.shape == shape {
		return &exprTree{shape: "leaf:a", fmtS: "a"}
	}
	n := &exprTree{shape: e.shape, fmtS: e.fmtS}
	for _, k := range e.kids {
		n.kids = append(n.kids, k.without(shape))
	}
	return n
}

func genExprTree(r *rand.Rand, depth int) *exprTree {
	if depth <= 0 || r.IntN(4) == 0 {
		l := c05Leaves[r.IntN(len(c05Leaves))]
		return &exprTree{shape: "leaf:" + l, fmtS: strings.ReplaceAll(l, "%", "%%")}
	}
	esc := func(s string) string { return strings.ReplaceAll(s, "%", "%%") }
	switch r.IntN(12) {
	case 0, 1, 2, 3, 4, 5:
		op := c05Binary[r.IntN(len(c05Binary))]
		l, rt := genExprTree(r, depth-1), genExprTree(r, depth-1)
		if op == "|>" {
			rt = &exprTree{shape: "leaf:f()", fmtS: "f()"}
		}
		return &exprTree{shape: "bin" + op, fmtS: "(%s) " + esc(op) + " (%s)", kids: []*exprTree{l, rt}}
	case 6:
		op := c05Prefix[r.IntN(len(c05Prefix))]
		return &exprTree{shape: "pre:" + strings.TrimSpace(op), fmtS: esc(op) + "(%s)", kids: []*exprTree{genExprTree(r, depth-1)}}
	case 7:
		return &exprTree{shape: "as", fmtS: "(%s) as Foo", kids: []*exprTree{genExprTree(r, depth-1)}}
	case 8:
		lhs := []string{"a", "b", "x.y", "@iv", "a[0]"}[r.IntN(5)]
		op := c05Assign[r.IntN(len(c05Assign))]
		if op == ":=" {
			lhs = "a"
		}
		return &exprTree{shape: "assign" + op, fmtS: lhs + " " + esc(op) + " (%s)", kids: []*exprTree{genExprTree(r, depth-1)}}
	case 9:
		post := []string{"foo", "bar(1)", "[0]", "baz(a, b: 2)", "+(1)"}[r.IntN(5)]
		return &exprTree{shape: "post." + post, fmtS: "(%s)." + esc(post), kids: []*exprTree{genExprTree(r, depth-1)}}
	case 10:
		return &exprTree{shape: "modifier-if", fmtS: "(%s) if (%s)", kids: []*exprTree{genExprTree(r, depth-1), genExprTree(r, depth-1)}}
	default:
		kinds := []string{"-> (%s)", "|q| -> (%s)", "[(%s), 1]", "foo((%s), 2)", "{k: (%s)}", "\"i${(%s)}j\"", "do; (%s); end"}
		k := kinds[r.IntN(len(kinds))]
		return &exprTree{shape: "wrap:" + strings.ReplaceAll(k, "(%s)", "_"), fmtS: k, kids: []*exprTree{genExprTree(r, depth-1)}}
	}
}

// roundTripOK reports whether src survives print + reparse (parse failures of src itself count as OK:
// the expression is then not in the property's domain).
func roundTripOK(src string) (ok bool) {
	ok = true
	guard(func() {
		tree, diags := parser.Parse("m.elk", src)
		if len(diags) > 0 || tree == nil {
			return
		}
		printed := tree.String()
		tree2, diags2 := parser.Parse("m.elk", printed)
		if len(diags2) > 0 || tree2 == nil || dumpNode(tree) != dumpNode(tree2) {
			ok = false
		}
	})
	return
}

// minimalFailing finds a smallest sub-expression that fails the round trip on its own.
func minimalFailing(e *exprTree) *exprTree {
	for _, k := range e.kids {
		if !roundTripOK(k.render() + "\n") {
			return minimalFailing(k)
		}
	}
	return e
}

func genParenExpr(r *rand.Rand, depth int) string {
	if depth <= 0 || r.IntN(4) == 0 {
		return c05Leaves[r.IntN(len(c05Leaves))]
	}
	switch r.IntN(12) {
	case 0, 1, 2, 3, 4, 5:
		op := c05Binary[r.IntN(len(c05Binary))]
		l, rt := genParenExpr(r, depth-1), genParenExpr(r, depth-1)
		if op == "|>" {
			rt = "f()"
		}
		return "(" + l + ") " + op + " (" + rt + ")"
	case 6:
		op := c05Prefix[r.IntN(len(c05Prefix))]
		return op + "(" + genParenExpr(r, depth-1) + ")"
	case 7:
		return "(" + genParenExpr(r, depth-1) + ") as Foo"
	case 8:
		lhs := []string{"a", "b", "x.y", "@iv", "a[0]"}[r.IntN(5)]
		op := c05Assign[r.IntN(len(c05Assign))]
		if op == ":=" {
			lhs = "a"
		}
		return lhs + " " + op + " (" + genParenExpr(r, depth-1) + ")"
	case 9:
		return "(" + genParenExpr(r, depth-1) + ")." + []string{"foo", "bar(1)", "[0]", "baz(a, b: 2)", "+(1)"}[r.IntN(5)]
	case 10:
		return "(" + genParenExpr(r, depth-1) + ") if (" + genParenExpr(r, depth-1) + ")"
	default:
		kinds := []string{"-> (%s)", "|q| -> (%s)", "[(%s), 1]", "foo((%s), 2)", "{k: (%s)}", "\"i${(%s)}j\"", "do; (%s); end", "(%s) ? 1 : 2"}
		k := kinds[r.IntN(len(kinds)-1)]
		return fmt.Sprintf(k, genParenExpr(r, depth-1))
	}
}

var (
	corpusOnce  sync.Once
	corpusFiles []string
)

func elkCorpus() []string {
	corpusOnce.Do(func() {
		filepath.WalkDir(repoDir, func(p string, d os.DirEntry, err error) error {
			if err != nil {
				return nil
			}
			if d.IsDir() && (d.Name() == ".git" || d.Name() == "node_modules") {
				return filepath.SkipDir
			}
			if strings.HasSuffix(p, ".elk") || strings.HasSuffix(p, ".elk.test") || strings.HasSuffix(p, ".elh") {
				corpusFiles = append(corpusFiles, p)
			}
			return nil
		})
		sort.Strings(corpusFiles)
	})
	return corpusFiles
}

func init() {
	register(&Check{
		ID: "C05",
		Rule: "trees from: every .elk/.elk.test/.elh file of the repository (whole file and each top-level statement), fully parenthesised random expressions over all binary/assignment/prefix/postfix operators (precedence and associativity stress), realistic snippets and their token-level mutations that still parse; " +
			"oracle: reflective location-free comparison of the original tree and the tree of its printed form, plus print idempotence; distinct = AST node types printed",
		NumCases: func(tier string) int {
			if tier == "thorough" {
				return len(elkCorpus()) + 600_000
			}
			return len(elkCorpus()) + 120_000
		},
		Case: func(c *Ctx, i int, r *rand.Rand) {
			files := elkCorpus()
			if i < len(files) {
				b, err := os.ReadFile(files[i])
				if err != nil {
					return
				}
				c05Check(c, i, string(b), "corpus_file")
				// also every top-level statement on its own (smaller witnesses)
				if tree, diags := parser.Parse("m.elk", string(b)); len(diags) == 0 && tree != nil {
					for _, st := range tree.Body {
						var s string
						if guard(func() { s = st.String() }) == "" {
							c05Check(c, i, s, "corpus_statement")
						}
					}
				}
				return
			}
			switch r.IntN(10) {
			case 0, 1, 2, 3, 4, 5:
				et := genExprTree(r, 1+r.IntN(4))
				e := et.render()
				if i%40000 == 0 {
					c.Sample(e)
				}
				if roundTripOK(e + "\n") {
					c05Check(c, i, e+"\n", "generated_expression") // counts, collects node types
				} else {
					c.Eval(1)
					c.Count("trees_generated_expression", 1)
					m := minimalFailing(et)
					ms := m.render()
					sig := m.sig()
					// root cause attribution: does the failure disappear when every prefix-keyword operand of one
					// kind is replaced by a plain leaf? then that unparenthesised prefix operand is the cause
					for _, k := range []string{"pre:await", "pre:&", "pre:try", "pre:must", "pre:typeof", "pre:throw", "pre:return", "pre:break", "pre:go", "modifier-if", "wrap:-> _", "wrap:|q| -> _", "wrap:do; _; end"} {
						if m.shape != k && m.contains(k) && roundTripOK(m.without(k).render()+"\n") {
							sig = "operand:" + k
							break
						}
					}
					var printed string
					guard(func() {
						if t, d := parser.Parse("m.elk", ms+"\n"); len(d) == 0 && t != nil {
							printed = t.String()
						}
					})
					c.Violate("expr:"+sig, fmt.Sprintf("minimal failing sub-expression %q prints as %q, which does not reparse to the same tree (found inside %q)", ms, printed, head(e, 300)), i, ms)
				}
			case 6, 7:
				c05Check(c, i, mutateTokens(r, checkerSnippets[r.IntN(len(checkerSnippets))]), "mutated_snippet")
			default:
				c05Check(c, i, checkerSnippets[r.IntN(len(checkerSnippets))], "snippet")
			}
		},
		MinCounters: map[string]int64{"trees_corpus_file": 100, "trees_generated_expression": 10000},
		Assumptions: []string{"tree identity = equality of all exported fields reachable from the root (tokens by type and value); unexported fields (locations, cached types) ignored"},
	})
}
