package main

// C26 — Symbol interning is a bijection under concurrency.
// Histories of Add/ToSymbol, Get, GetName, Symbol#String are recorded at the client boundary with
// one monotonic counter and checked offline: porcupine linearizability per name against a register
// model, global injectivity, and recoverability of names. Built with -race.

import (
	"fmt"
	"math/rand/v2"
	"sort"
	"sync"
	"sync/atomic"
	"time"

	"github.com/anishathalye/porcupine"
	"github.com/elk-language/elk/value"
)

type symOp struct {
	Kind string // add | get | name
	Name string // partition name (for "name": owner of the id, filled post hoc)
	ID   int64  // argument of "name"
}

type symOut struct {
	ID   int64
	OK   bool
	Name string
}

type symEvent struct {
	client     int
	op         symOp
	out        symOut
	call, ret  int64
	viaGlobal  bool
	viaHelpers bool
}

var symModel = porcupine.Model{
	Init: func() any { return int64(-1) },
	Step: func(st, in, out any) (bool, any) {
		s := st.(int64)
		op := in.(symOp)
		o := out.(symOut)
		switch op.Kind {
		case "add":
			if s == -1 {
				return o.ID >= 0, o.ID
			}
			return o.ID == s, s
		case "get":
			if s == -1 {
				return !o.OK, s
			}
			return o.OK && o.ID == s, s
		case "name":
			if s == -1 {
				return false, s
			}
			return o.OK && o.Name == op.Name && op.ID == s, s
		}
		return false, s
	},
	DescribeOperation: func(in, out any) string {
		return fmt.Sprintf("%+v -> %+v", in, out)
	},
}

// symIntervalCheck decides linearizability of per-name sub-histories against the write-once register
// model exactly: all Adds/positive lookups must agree on one id, and there must be a point p (when the
// first Add takes effect) with  call(first add) <= p <= every add's return,  every negative Get
// called before p, every positive Get / name lookup returning after p.
func symIntervalCheck(parts [][]porcupine.Operation) (bool, string) {
	for _, part := range parts {
		id := int64(-1)
		lo, hi := int64(-1), int64(1)<<62 // p must satisfy lo < p' region: p > lo and p < hi (strictly inside)
		minAddCall := int64(1) << 62
		adds := 0
		for _, o := range part {
			in, out := o.Input.(symOp), o.Output.(symOut)
			switch in.Kind {
			case "add":
				adds++
				if id == -1 {
					id = out.ID
				} else if id != out.ID {
					return false, "adds of one name returned different ids"
				}
				if o.Call < minAddCall {
					minAddCall = o.Call
				}
				if o.Return < hi {
					hi = o.Return
				}
			}
		}
		for _, o := range part {
			in, out := o.Input.(symOp), o.Output.(symOut)
			switch in.Kind {
			case "get":
				if !out.OK {
					if o.Call > lo {
						lo = o.Call
					}
				} else {
					if id != -1 && out.ID != id {
						return false, "get returned an id no add returned"
					}
					if adds == 0 {
						return false, "positive get without any add"
					}
					if o.Return < hi {
						hi = o.Return
					}
				}
			case "name":
				if !out.OK || out.Name != in.Name || in.ID != id {
					return false, "name lookup returned a different name"
				}
				if o.Return < hi {
					hi = o.Return
				}
			}
		}
		if adds == 0 {
			continue
		}
		if minAddCall > lo {
			lo = minAddCall
		}
		if !(lo < hi) {
			return false, fmt.Sprintf("no linearization point: needs p in (%d,%d)", lo, hi)
		}
	}
	return true, ""
}

func c26History(c *Ctx, caseIdx int, r *rand.Rand) {
	gs := []int{2, 8, 32, 128}[r.IntN(4)]
	useGlobal := r.IntN(2) == 0
	opsPer := 2000 / gs
	if opsPer < 6 {
		opsPer = 6
	}
	var table *value.SymbolTableStruct
	if useGlobal {
		table = value.SymbolTable
	} else {
		old := value.SYMBOL_TABLE_INITIAL_SIZE
		value.SYMBOL_TABLE_INITIAL_SIZE = []int{0, 1, 128}[r.IntN(3)]
		table = value.NewSymbolTable()
		value.SYMBOL_TABLE_INITIAL_SIZE = old
	}
	prefix := fmt.Sprintf("c26_%d_%d_%d_", c.Seed, caseIdx, time.Now().UnixNano()%1000)
	if !useGlobal {
		prefix = fmt.Sprintf("n%d_", caseIdx)
	}
	shared := 1 + r.IntN(6)
	var clock atomic.Int64
	// ids learned by any goroutine (from completed Adds), shared log
	var learnedMu sync.Mutex
	var learned []int64
	events := make([][]symEvent, gs)
	seeds := make([]uint64, gs)
	for g := range seeds {
		seeds[g] = r.Uint64()
	}
	var wg sync.WaitGroup
	start := make(chan struct{})
	for g := 0; g < gs; g++ {
		wg.Add(1)
		go func(g int) {
			defer wg.Done()
			rr := rand.New(rand.NewPCG(seeds[g], uint64(g)))
			<-start
			for k := 0; k < opsPer; k++ {
				var name string
				if rr.IntN(4) != 0 {
					name = fmt.Sprintf("%ss%d", prefix, rr.IntN(shared))
				} else {
					name = fmt.Sprintf("%su%d_%d", prefix, g, k)
				}
				ev := symEvent{client: g, viaGlobal: useGlobal}
				switch x := rr.IntN(10); {
				case x < 5:
					ev.op = symOp{Kind: "add", Name: name}
					ev.call = clock.Add(1)
					var id value.Symbol
					if useGlobal && rr.IntN(2) == 0 {
						id = value.ToSymbol(name)
						ev.viaHelpers = true
					} else {
						id = table.Add(name)
					}
					ev.ret = clock.Add(1)
					ev.out = symOut{ID: int64(id), OK: true}
					learnedMu.Lock()
					learned = append(learned, int64(id))
					learnedMu.Unlock()
				case x < 8:
					ev.op = symOp{Kind: "get", Name: name}
					ev.call = clock.Add(1)
					id, ok := table.Get(name)
					ev.ret = clock.Add(1)
					ev.out = symOut{ID: int64(id), OK: ok}
				default:
					learnedMu.Lock()
					var id int64 = -5
					if len(learned) > 0 {
						id = learned[rr.IntN(len(learned))]
					}
					learnedMu.Unlock()
					if id < 0 {
						continue
					}
					ev.op = symOp{Kind: "name", ID: id}
					ev.call = clock.Add(1)
					var nm string
					var ok bool
					if useGlobal && rr.IntN(2) == 0 {
						nm, ok = value.Symbol(id).String(), true
						ev.viaHelpers = true
					} else {
						nm, ok = table.GetName(value.Symbol(id))
					}
					ev.ret = clock.Add(1)
					ev.out = symOut{OK: ok, Name: nm}
				}
				events[g] = append(events[g], ev)
				if rr.IntN(16) == 0 {
					time.Sleep(time.Microsecond)
				}
			}
		}(g)
	}
	close(start)
	wg.Wait()

	// ---- offline checks ----
	var all []symEvent
	for _, e := range events {
		all = append(all, e...)
	}
	c.Eval(int64(len(all)))
	c.Count("histories", 1)
	c.Max("max_goroutines", int64(gs))
	idOwner := map[int64]string{}
	nameID := map[string]int64{}
	tableKind := "fresh"
	if useGlobal {
		tableKind = "global"
	}
	for _, e := range all {
		if e.op.Kind != "add" {
			continue
		}
		if prev, ok := nameID[e.op.Name]; ok && prev != e.out.ID {
			c.Violate("same-name-two-symbols:"+tableKind, fmt.Sprintf("name %q interned to symbols %d and %d (%d goroutines, %s table)", e.op.Name, prev, e.out.ID, gs, tableKind), caseIdx, nil)
		}
		nameID[e.op.Name] = e.out.ID
		if owner, ok := idOwner[e.out.ID]; ok && owner != e.op.Name {
			c.Violate("two-names-one-symbol:"+tableKind, fmt.Sprintf("symbol %d returned for names %q and %q (%d goroutines, %s table)", e.out.ID, owner, e.op.Name, gs, tableKind), caseIdx, nil)
		}
		idOwner[e.out.ID] = e.op.Name
	}
	// contended first adds
	firstRet := map[string]int64{}
	for _, e := range all {
		if e.op.Kind == "add" {
			if t, ok := firstRet[e.op.Name]; !ok || e.ret < t {
				firstRet[e.op.Name] = e.ret
			}
		}
	}
	contended := map[string]int{}
	for _, e := range all {
		if e.op.Kind == "add" && e.call < firstRet[e.op.Name] {
			contended[e.op.Name]++
		}
	}
	for _, n := range contended {
		if n >= 2 {
			c.Count("contended_first_adds", 1)
		}
	}
	var ops []porcupine.Operation
	for _, e := range all {
		op := e.op
		if op.Kind == "name" {
			owner, ok := idOwner[op.ID]
			if !ok {
				continue
			}
			op.Name = owner
			c.Count("name_lookups_of_learned_ids", 1)
		}
		ops = append(ops, porcupine.Operation{ClientId: e.client, Input: op, Call: e.call, Output: e.out, Return: e.ret})
	}
	model := symModel
	model.Partition = func(history []porcupine.Operation) [][]porcupine.Operation {
		m := map[string][]porcupine.Operation{}
		var keys []string
		for _, o := range history {
			k := o.Input.(symOp).Name
			if _, ok := m[k]; !ok {
				keys = append(keys, k)
			}
			m[k] = append(m[k], o)
		}
		sort.Strings(keys)
		out := make([][]porcupine.Operation, 0, len(keys))
		for _, k := range keys {
			out = append(out, m[k])
		}
		return out
	}
	res, info := porcupine.CheckOperationsVerbose(model, ops, 3*time.Second)
	_ = info
	// independent exact decision for this particular model (write-once register per name)
	intervalOK, intervalWhy := symIntervalCheck(model.Partition(ops))
	switch {
	case res == porcupine.Ok && !intervalOK, res == porcupine.Illegal && intervalOK:
		c.Inconclusive(fmt.Sprintf("oracle disagreement on history %d: porcupine=%v interval-checker=%v (%s)", caseIdx, res, intervalOK, intervalWhy))
		return
	case res == porcupine.Unknown:
		c.Count("porcupine_timeouts_decided_by_interval_checker", 1)
		if intervalOK {
			res = porcupine.Ok
		} else {
			res = porcupine.Illegal
		}
	}
	switch res {
	case porcupine.Ok:
		c.Count("porcupine_ok", 1)
	case porcupine.Illegal:
		// find a small witness: the partition that is illegal
		witness := ""
		for _, part := range model.Partition(ops) {
			if r2, _ := symIntervalCheck([][]porcupine.Operation{part}); !r2 {
				sort.Slice(part, func(i, j int) bool { return part[i].Call < part[j].Call })
				for i, o := range part {
					if i > 24 {
						witness += "…\n"
						break
					}
					witness += fmt.Sprintf("  client %d [%d,%d] %+v -> %+v\n", o.ClientId, o.Call, o.Return, o.Input, o.Output)
				}
				break
			}
		}
		c.Violate("not-linearizable:"+tableKind, fmt.Sprintf("history %d (%d goroutines, %s table) is not linearizable against the intern-register model; illegal per-name sub-history:\n%s", caseIdx, gs, tableKind, witness), caseIdx, nil)
	}
	c.Distinct(fmt.Sprintf("%s|g=%d|shared=%d|contended=%v", tableKind, gs, shared, len(contended) > 0))
	if caseIdx%40 == 0 && len(all) > 3 {
		c.Sample(map[string]any{"goroutines": gs, "table": tableKind, "first_events": fmt.Sprintf("%+v", all[:3])})
	}
}

func init() {
	register(&Check{
		ID: "C26",
		Rule: "each case is one concurrent history (2..128 goroutines, ≤2000 ops) of Add/ToSymbol, Get, GetName/Symbol#String on a fresh table (presize 0/1/128) or the global table, few shared names + unique names, lookups of ids learned from other goroutines; " +
			"offline: porcupine per-name register model, global injectivity; race detector on; distinct = (table kind, goroutines, shared-name count, contention seen)",
		NumCases: func(tier string) int {
			if tier == "thorough" {
				return 4000
			}
			return 400
		},
		Case:        c26History,
		MinCounters: map[string]int64{"contended_first_adds": 20, "porcupine_ok": 100, "name_lookups_of_learned_ids": 1000},
		Assumptions: []string{"timestamps from one atomic counter taken at the client boundary", "porcupine v1.3.0 as linearizability checker"},
	})
}
