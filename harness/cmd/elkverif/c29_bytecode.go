package main

// C29 — Compiled bytecode is structurally valid. Structure monitor run on every function
// reachable from a compiled program: disassembles, instruction boundaries, jump / loop / catch
// targets, value-pool indices and call-site kinds, line table, no fall-through off the end.

import (
	"encoding/binary"
	"fmt"
	"io"
	"math/rand/v2"
	"os"
	"strings"

	"github.com/elk-language/elk"
	"github.com/elk-language/elk/bytecode"
	"github.com/elk-language/elk/types/checker"
	"github.com/elk-language/elk/vm"
)

func opName(b byte) string { return bytecode.OpCode(b).String() }

// checkFunction verifies one function and returns its nested functions.
func checkFunction(c *Ctx, caseIdx int, f *vm.BytecodeFunction, src string) (nested []*vm.BytecodeFunction) {
	ins := f.Instructions
	n := len(ins)
	name := f.Name().String()
	c.Count("functions_checked", 1)
	viol := func(site, msg string) {
		dis, _ := f.DisassembleString()
		c.Violate(site, fmt.Sprintf("function %s: %s\n%s\nsource:\n%s", name, msg, head(dis, 2500), head(src, 1500)), caseIdx, src)
	}
	boundary := make([]bool, n+1)
	var offsets []int
	for off := 0; off < n; {
		boundary[off] = true
		offsets = append(offsets, off)
		var next int
		var err error
		if p := guard(func() { next, err = f.DisassembleInstruction(io.Discard, off) }); p != "" {
			viol("disassembler-panic", fmt.Sprintf("disassembling offset %d panicked: %s", off, p))
			return
		}
		if err != nil {
			viol("disassemble-error:"+opName(ins[off]), fmt.Sprintf("offset %d: %v", off, err))
			return
		}
		if next <= off || next > n {
			viol("operands-run-past-end:"+opName(ins[off]), fmt.Sprintf("instruction at %d ends at %d, function length %d", off, next, n))
			return
		}
		off = next
	}
	boundary[n] = true
	c.Count("instructions_checked", int64(len(offsets)))
	for i, off := range offsets {
		op := bytecode.OpCode(ins[off])
		on := op.String()
		c.Distinct("op|" + on)
		next := n
		if i+1 < len(offsets) {
			next = offsets[i+1]
		}
		isJump := (strings.HasPrefix(on, "JUMP") && on != "JUMP_TO_FINALLY") || on == "FOR_IN" || on == "FOR_IN_BUILTIN"
		switch {
		case isJump && next-off == 3:
			target := next + int(binary.BigEndian.Uint16(ins[off+1:]))
			c.Count("jumps_checked", 1)
			if target > n || !boundary[target] {
				viol("jump-target-not-a-boundary:"+on, fmt.Sprintf("%s at %d jumps to %d (function length %d)", on, off, target, n))
			} else if target == n {
				viol("jump-target-past-last-instruction:"+on, fmt.Sprintf("%s at %d jumps to %d = end of the function: execution would run off the end", on, off, target))
			}
		case on == "LOOP" && next-off == 3:
			target := next - int(binary.BigEndian.Uint16(ins[off+1:]))
			c.Count("jumps_checked", 1)
			if target < 0 || !boundary[target] {
				viol("loop-target-not-a-boundary", fmt.Sprintf("LOOP at %d jumps back to %d", off, target))
			}
		}
		// value-pool operands
		idx := -1
		switch op {
		case bytecode.LOAD_VALUE8, bytecode.CALL_METHOD8, bytecode.CALL_METHOD_TCO8, bytecode.CALL_METHOD_BC8, bytecode.CALL_METHOD_NT8, bytecode.CALL8, bytecode.GET_CONST8, bytecode.NEXT8:
			idx = int(ins[off+1])
		case bytecode.LOAD_VALUE16, bytecode.CALL_METHOD16, bytecode.CALL_METHOD_TCO16, bytecode.CALL_METHOD_BC16, bytecode.CALL_METHOD_NT16, bytecode.CALL16, bytecode.GET_CONST16, bytecode.NEXT16:
			idx = int(binary.BigEndian.Uint16(ins[off+1:]))
		case bytecode.LOAD_VALUE_0:
			idx = 0
		case bytecode.LOAD_VALUE_1:
			idx = 1
		case bytecode.LOAD_VALUE_2:
			idx = 2
		case bytecode.LOAD_VALUE_3:
			idx = 3
		}
		if idx >= 0 {
			c.Count("value_operands_checked", 1)
			if idx >= len(f.Values) {
				viol("value-index-out-of-range:"+on, fmt.Sprintf("%s at %d uses value %d of %d", on, off, idx, len(f.Values)))
				continue
			}
			ref := f.Values[idx].SafeAsReference()
			want := ""
			switch op {
			case bytecode.CALL_METHOD8, bytecode.CALL_METHOD16, bytecode.CALL_METHOD_TCO8, bytecode.CALL_METHOD_TCO16, bytecode.CALL8, bytecode.CALL16, bytecode.NEXT8, bytecode.NEXT16:
				want = "*vm.CallSiteInfo"
			case bytecode.CALL_METHOD_BC8, bytecode.CALL_METHOD_BC16:
				want = "*vm.BytecodeCallSiteInfo"
			case bytecode.CALL_METHOD_NT8, bytecode.CALL_METHOD_NT16:
				want = "*vm.NativeCallSiteInfo"
			}
			if want != "" {
				c.Count("call_sites_checked", 1)
				if got := fmt.Sprintf("%T", ref); got != want {
					viol("call-site-kind-mismatch:"+on, fmt.Sprintf("%s at %d uses value %d which is a %s, not a %s", on, off, idx, got, want))
				}
			}
		}
	}
	if len(offsets) > 0 {
		c.Distinct("last-op|" + opName(ins[offsets[len(offsets)-1]]))
	}
	isGenerator := false
	for _, off := range offsets {
		if bytecode.OpCode(ins[off]) == bytecode.GENERATOR {
			isGenerator = true
		}
	}
	for ci, ce := range f.CatchEntries {
		c.Count("catch_entries_checked", 1)
		// A generator's first entry is not a catch range: the compiler registers (-1,-1,resume address)
		// and Generator#reset reads only its JumpAddress; prepLocals shifts the sentinel with the code.
		sentinel := isGenerator && ci == 0 && ce.From == ce.To && !ce.Finally
		for what, v := range map[string]int{"from": ce.From, "to": ce.To, "jump": ce.JumpAddress} {
			if sentinel && what != "jump" {
				c.Count("generator_sentinel_entries", 1)
				continue
			}
			if v < 0 || v > n || !boundary[v] {
				viol("catch-entry-not-a-boundary:"+what, fmt.Sprintf("catch entry %d:%d -> %d: %s = %d is not an instruction boundary (length %d)", ce.From, ce.To, ce.JumpAddress, what, v, n))
			}
		}
		if ce.JumpAddress == n {
			viol("catch-entry-jump-past-end", fmt.Sprintf("catch entry jumps to %d = end of the function", ce.JumpAddress))
		}
	}
	total := 0
	for _, li := range f.LineInfoList {
		total += li.InstructionCount
	}
	if total != n {
		viol("line-table-length", fmt.Sprintf("line table covers %d bytes, the function has %d", total, n))
	}
	for _, v := range f.Values {
		switch g := v.SafeAsReference().(type) {
		case *vm.BytecodeFunction:
			nested = append(nested, g)
		}
	}
	return nested
}

func checkChunk(c *Ctx, caseIdx int, chunk *vm.BytecodeFunction, src string) {
	seen := map[*vm.BytecodeFunction]bool{}
	queue := []*vm.BytecodeFunction{chunk}
	for len(queue) > 0 {
		f := queue[0]
		queue = queue[1:]
		if seen[f] || f == nil {
			continue
		}
		seen[f] = true
		// library functions compiled from lib/builtin are part of every chunk; check them once per process
		queue = append(queue, checkFunction(c, caseIdx, f, src)...)
	}
}

var lastDiag string
var rejSeen = map[string]bool{}

func compileOnly(src string) (chunk *vm.BytecodeFunction, rejected bool, panicMsg, stack string) {
	defer func() {
		if r := recover(); r != nil {
			panicMsg = fmt.Sprint(r)
			stack = string(debugStack())
		}
	}()
	elk.InitGlobalEnvironment()
	tc := checker.New()
	ch, diags := tc.CheckSourceBytecode("main.elk", src)
	if diags.IsFailure() {
		lastDiag = diagString(diags)
		return nil, true, "", ""
	}
	return ch, false, "", ""
}

func c29Case(c *Ctx, i int, r *rand.Rand) {
	files := elkCorpus()
	var src, origin string
	switch {
	case i < len(files):
		b, err := os.ReadFile(files[i])
		if err != nil || strings.HasSuffix(files[i], ".elh") {
			return
		}
		src, origin = string(b), "corpus"
	case i%16 == 3:
		src, origin = genBigPool(r), "big_pool_mutual_calls"
	case i%8 == 2:
		src, origin = genValueLoop(r), "value_loops"
	case i%4 == 0:
		src, origin = mutateTokens(r, checkerSnippets[r.IntN(len(checkerSnippets))]), "mutated_snippet"
	case i%4 == 1:
		src, origin = checkerSnippets[r.IntN(len(checkerSnippets))], "snippet"
	default:
		k := gKnobs{control: true, closures: r.IntN(2) == 0, fns: r.IntN(3), depth: 2 + r.IntN(2), stmtsPer: 2 + r.IntN(3)}
		src, origin = genProg(r, k).source(), "generated"
	}
	chunk, rejected, pmsg, stack := compileOnly(src)
	c.Eval(1)
	if pmsg != "" {
		c.Violate("compiler-panic:"+panicSite1(stack), fmt.Sprintf("compiling panicked: %s\n%s\nsource:\n%s", head(pmsg, 200), head(stack, 1200), head(src, 1500)), i, src)
		return
	}
	if rejected || chunk == nil {
		c.Count("programs_rejected", 1)
		c.Count("rejected_"+origin, 1)
		if origin != "mutated_snippet" && !rejSeen[origin+head(lastDiag, 60)] {
			rejSeen[origin+head(lastDiag, 60)] = true
			if os.Getenv("VERIF_DEBUG") != "" {
				fmt.Fprintf(os.Stderr, "REJECTED %s\n%s\n%s\n----\n", origin, head(lastDiag, 500), head(src, 700))
			}
			c.Sample(map[string]string{"rejected_origin": origin, "diagnostics": head(lastDiag, 400), "source_head": head(src, 600)})
		}
		return
	}
	c.Count("programs_"+origin, 1)
	if i%500 == 0 {
		c.Sample(map[string]string{"origin": origin, "source_head": head(src, 300)})
	}
	checkChunk(c, i, chunk, src)
	if origin == "mutated_snippet" || origin == "corpus" {
		return // may not terminate / may need files; structure only
	}
	// run-time half: execute under the instruction hook
	c29mon.reset()
	res := RunElk(src, nil)
	viol, events, points, rechecks := c29mon.drain()
	c.Count("programs_executed_under_trace_monitor", 1)
	c.Count("instructions_executed_monitored", events)
	c.Count("program_points_with_depth_recorded", points)
	c.Count("depth_rechecks_at_revisited_points", rechecks)
	if res.Panic != "" {
		c.Count("executions_ending_in_go_panic", 1)
	}
	for _, v := range viol {
		site := v.site
		if strings.HasPrefix(site, "inconsistent-stack-depth:") && (loopJumpInCatchBody(src) || strings.Contains(src, "\n  catch ") || strings.Contains(src, "\ncatch ") || strings.Contains(src, "  catch ")) {
			// root-cause class named instead of the opcode at the join: the values a catch handler holds (caught error,
			// stack trace, pending finally state) are not popped on every path that leaves it (listed finding). Programs
			// without a catch clause (value loops, templates) keep the opcode signature.
			site = "inconsistent-stack-depth:after-catch-handler"
		}
		c.Violate(site, fmt.Sprintf("%s\nsource:\n%s", v.msg, head(src, 1800)), i, src)
	}
}

func init() {
	register(&Check{
		ID:   "C29",
		Rule: "every function reachable from the compiled chunk of: every .elk/.elk.test file of the repository, realistic snippets, their token-level mutations that still type-check, and G-prog generated programs (closures, loops, labelled jumps, catch/finally, defer, generators, async in the snippets); trace monitor (verif-tagged VM hook, generated programs, snippets and value-loop / >255-constant mutual-call templates are executed): every executed offset is an instruction boundary, operand stack depth relative to the frame is never negative and identical each time an instruction is reached; structure monitor: disassembles without error, every instruction inside the function, jump/loop/for-in targets and catch entries on instruction boundaries and not past the last instruction, value-pool indices in range, call-site value kind matches the call opcode, line table length; distinct = opcodes seen",
		NumCases: func(tier string) int {
			if tier == "thorough" {
				return len(elkCorpus()) + 20000
			}
			return len(elkCorpus()) + 4000
		},
		Case:        c29Case,
		Init:        func(c *Ctx) { vm.VerifInstructionHook = c29mon.hook },
		CPUBudget:   60,
		MinCounters: map[string]int64{"functions_checked": 5000, "jumps_checked": 20000, "call_sites_checked": 20000, "catch_entries_checked": 1000, "depth_rechecks_at_revisited_points": 100000, "programs_big_pool_mutual_calls": 50, "programs_value_loops": 100},
		Assumptions: []string{"instruction boundaries come from the repository's own disassembler (an unknown opcode or short operand is itself reported); operand-stack depth is observed on executed paths only (dynamic), not on all static paths; mutated snippets and repository files are compiled and structure-checked but not executed"},
	})
}

// loopJumpInCatchBody reports whether a `continue` or `break` occurs lexically inside a catch body
// (programs printed with two-space indentation: the catch body is everything more indented than the
// `catch` line up to the next line at its indentation).
func loopJumpInCatchBody(src string) bool {
	lines := strings.Split(src, "\n")
	indentOf := func(l string) int { return len(l) - len(strings.TrimLeft(l, " ")) }
	for i, l := range lines {
		t := strings.TrimSpace(l)
		if !strings.HasPrefix(t, "catch") {
			continue
		}
		ind := indentOf(l)
		for _, m := range lines[i+1:] {
			if strings.TrimSpace(m) == "" {
				continue
			}
			if indentOf(m) <= ind {
				break
			}
			w := strings.TrimSpace(m)
			if strings.HasPrefix(w, "continue") || strings.HasPrefix(w, "break") {
				return true
			}
		}
	}
	return false
}
