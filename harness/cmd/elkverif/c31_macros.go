package main

// C31 — Macro expansion is hygienic except where explicitly unhygienic.
//
// A seeded generator builds abstract Int-only programs with 1–3 macros whose quoted bodies declare,
// assign and read locals named from a tiny pool (a, b, tmp, i) that collides with the locals of the
// calling scopes. The abstract program has three renderings:
//   (1) the Elk program that uses the macros,
//   (2) the hand expansion: every call replaced by a `do … end` block holding the macro body with the
//       macro's own locals renamed to fresh names (a__x3) and the arguments spliced in,
//   (3) the trace a reference interpreter computes for (2).
// The reference resolver is a small hygienic expander: names written in a quote resolve inside the
// expansion only; arguments spliced with `!{p}` resolve inside the expansion only; arguments spliced
// with `!{unhygienic(p)}` resolve in the scope in which the argument was written.
// (1) must get the same verdict and the same stdout as (3); (2) must agree with (3) as well (that
// validates the model against plain Elk scoping). Negative variants (a macro local read after the
// call, a free name inside a quote that collides with a caller local) must be rejected.

import (
	"fmt"
	"math/rand/v2"
	"os"
	"regexp"
	"sort"
	"strings"
)

// ---- abstract syntax -----------------------------------------------------------------------------

type mExpr interface{}
type mStmt interface{}

type (
	mxLit struct{ v int64 }
	mxVar struct{ name string }
	mxBin struct {
		op   string
		l, r mExpr
	}
	mxMk struct { // mk(k, e): prints "m<k> <e>", returns e
		k int
		e mExpr
	}
	mxDecl struct { // (name := e)
		name string
		e    mExpr
	}
	mxAssign struct { // (name = e)
		name string
		e    mExpr
	}
	mxCall struct { // f(arg): local closure, else method
		fn     string
		arg    mExpr
		method bool // set by the resolver
	}
	mxMacro struct { // name!(args)
		m    int
		args []mExpr
	}
	mxSplice struct { // in quotes only: !{p} or !{unhygienic(p)}
		p     int
		unhyg bool
	}
	// produced by the expander only
	mxBlock struct{ body []mStmt } // do … end used as a value
	mxUnhyg struct {
		e      mExpr
		origin rCtx
	}
	mxPlain struct{ e mExpr }
)

type mCond struct {
	l        mExpr
	op       string // < > <= >=
	r        mExpr
	viaMacro int  // 1: below!(l match op r) — unhygienic splices in expression and pattern position; 2: belowv!(l match op r) > 0 — the same with statements after the pattern splice
	marked   bool // resolved form of 2: prints m8000 <0|1> after the comparison
}

type (
	msExpr struct{ e mExpr }
	msDecl struct {
		name string
		e    mExpr
	}
	msAssign struct {
		name string
		e    mExpr
	}
	msDo struct{ body []mStmt }
	msIf struct {
		c         mCond
		then, els []mStmt
	}
	msWhile struct { // ctr := 0; while ctr < n; ctr += 1; body; end
		ctr  string
		n    int
		body []mStmt
	}
	msClosure struct { // name := |param: Int|: Int -> body end   (last statement of body is its value)
		name, param string
		body        []mStmt
	}
)

type mMacro struct {
	name   string
	params []string
	body   []mStmt
}
type mMethod struct {
	name, param string
	body        []mStmt
}
type mProg struct {
	macros   []*mMacro
	methods  []*mMethod
	main     []mStmt
	markKind map[int]string
	// negative variant: the quote of belowv reads this name (which it does not declare) after its pattern splice
	belowvFree string
}

// ---- deep copy -----------------------------------------------------------------------------------

func m31CloneExpr(e mExpr) mExpr {
	switch e := e.(type) {
	case *mxLit:
		c := *e
		return &c
	case *mxVar:
		c := *e
		return &c
	case *mxBin:
		return &mxBin{e.op, m31CloneExpr(e.l), m31CloneExpr(e.r)}
	case *mxMk:
		return &mxMk{e.k, m31CloneExpr(e.e)}
	case *mxDecl:
		return &mxDecl{e.name, m31CloneExpr(e.e)}
	case *mxAssign:
		return &mxAssign{e.name, m31CloneExpr(e.e)}
	case *mxCall:
		return &mxCall{e.fn, m31CloneExpr(e.arg), e.method}
	case *mxMacro:
		n := &mxMacro{m: e.m}
		for _, a := range e.args {
			n.args = append(n.args, m31CloneExpr(a))
		}
		return n
	case *mxSplice:
		c := *e
		return &c
	case *mxBlock:
		return &mxBlock{m31CloneStmts(e.body)}
	case *mxUnhyg:
		return &mxUnhyg{e.e, e.origin} // argument trees are never mutated
	case *mxPlain:
		return &mxPlain{e.e}
	}
	panic(fmt.Sprintf("clone: %T", e))
}

func m31CloneStmts(l []mStmt) []mStmt {
	out := make([]mStmt, 0, len(l))
	for _, s := range l {
		switch s := s.(type) {
		case *msExpr:
			out = append(out, &msExpr{m31CloneExpr(s.e)})
		case *msDecl:
			out = append(out, &msDecl{s.name, m31CloneExpr(s.e)})
		case *msAssign:
			out = append(out, &msAssign{s.name, m31CloneExpr(s.e)})
		case *msDo:
			out = append(out, &msDo{m31CloneStmts(s.body)})
		case *msIf:
			out = append(out, &msIf{mCond{m31CloneExpr(s.c.l), s.c.op, m31CloneExpr(s.c.r), s.c.viaMacro, s.c.marked}, m31CloneStmts(s.then), m31CloneStmts(s.els)})
		case *msWhile:
			out = append(out, &msWhile{s.ctr, s.n, m31CloneStmts(s.body)})
		case *msClosure:
			out = append(out, &msClosure{s.name, s.param, m31CloneStmts(s.body)})
		default:
			panic(fmt.Sprintf("clone: %T", s))
		}
	}
	return out
}

func (p *mProg) clone() *mProg {
	q := &mProg{markKind: p.markKind, belowvFree: p.belowvFree}
	for _, m := range p.macros {
		q.macros = append(q.macros, &mMacro{m.name, append([]string(nil), m.params...), m31CloneStmts(m.body)})
	}
	for _, m := range p.methods {
		q.methods = append(q.methods, &mMethod{m.name, m.param, m31CloneStmts(m.body)})
	}
	q.main = m31CloneStmts(p.main)
	return q
}

// ---- printer -------------------------------------------------------------------------------------

// pn is the printed part of a resolved name ("a__x3#17" -> "a__x3").
func pn(name string) string {
	if i := strings.IndexByte(name, '#'); i >= 0 {
		return name[:i]
	}
	return name
}

type m31Printer struct {
	p  *mProg
	sb strings.Builder
}

func (pr *m31Printer) expr(e mExpr, ind string) string {
	switch e := e.(type) {
	case *mxLit:
		if e.v < 0 {
			return fmt.Sprintf("(%d)", e.v)
		}
		return fmt.Sprint(e.v)
	case *mxVar:
		return pn(e.name)
	case *mxBin:
		return "(" + pr.expr(e.l, ind) + " " + e.op + " " + pr.expr(e.r, ind) + ")"
	case *mxMk:
		return fmt.Sprintf("mk(%d, %s)", e.k, pr.expr(e.e, ind))
	case *mxDecl:
		return "(" + pn(e.name) + " := " + pr.expr(e.e, ind) + ")"
	case *mxAssign:
		return "(" + pn(e.name) + " = " + pr.expr(e.e, ind) + ")"
	case *mxCall:
		if e.method && e.fn == "f" {
			// the hand expansion cannot name a method that a closure local `f` shadows: call it through an alias
			return "f__method(" + pr.expr(e.arg, ind) + ")"
		}
		return pn(e.fn) + "(" + pr.expr(e.arg, ind) + ")"
	case *mxMacro:
		var a []string
		for _, x := range e.args {
			a = append(a, pr.expr(x, ind))
		}
		return pr.p.macros[e.m].name + "!(" + strings.Join(a, ", ") + ")"
	case *mxSplice:
		panic("splice outside of a macro printer")
	case *mxBlock:
		sub := &m31Printer{p: pr.p}
		sub.stmts(e.body, ind+"  ", nil)
		return "(do\n" + sub.sb.String() + ind + "end)"
	}
	panic(fmt.Sprintf("print: %T", e))
}

// inQuote != nil: printing the body of that macro (splices allowed)
func (pr *m31Printer) qexpr(e mExpr, ind string, mac *mMacro) string {
	if mac == nil {
		return pr.expr(e, ind)
	}
	switch e := e.(type) {
	case *mxSplice:
		if e.unhyg {
			return "!{unhygienic(" + mac.params[e.p] + ")}"
		}
		return "!{" + mac.params[e.p] + "}"
	case *mxBin:
		return "(" + pr.qexpr(e.l, ind, mac) + " " + e.op + " " + pr.qexpr(e.r, ind, mac) + ")"
	case *mxMk:
		return fmt.Sprintf("mk(%d, %s)", e.k, pr.qexpr(e.e, ind, mac))
	case *mxDecl:
		return "(" + e.name + " := " + pr.qexpr(e.e, ind, mac) + ")"
	case *mxAssign:
		return "(" + e.name + " = " + pr.qexpr(e.e, ind, mac) + ")"
	case *mxCall:
		return e.fn + "(" + pr.qexpr(e.arg, ind, mac) + ")"
	case *mxMacro:
		var a []string
		for _, x := range e.args {
			a = append(a, pr.qexpr(x, ind, mac))
		}
		return pr.p.macros[e.m].name + "!(" + strings.Join(a, ", ") + ")"
	}
	return pr.expr(e, ind)
}

func (pr *m31Printer) stmts(l []mStmt, ind string, mac *mMacro) {
	w := func(f string, a ...any) { fmt.Fprintf(&pr.sb, ind+f+"\n", a...) }
	for _, s := range l {
		switch s := s.(type) {
		case *msExpr:
			if b, ok := s.e.(*mxBlock); ok && mac == nil {
				w("do")
				pr.stmts(b.body, ind+"  ", nil)
				w("end")
				continue
			}
			w("%s", pr.qexpr(s.e, ind, mac))
		case *msDecl:
			w("%s := %s", pn(s.name), pr.qexpr(s.e, ind, mac))
		case *msAssign:
			w("%s = %s", pn(s.name), pr.qexpr(s.e, ind, mac))
		case *msDo:
			w("do")
			pr.stmts(s.body, ind+"  ", mac)
			w("end")
		case *msIf:
			if s.c.viaMacro == 1 {
				w("if below!(%s match %s %s)", pr.qexpr(s.c.l, ind, mac), s.c.op, pr.qexpr(s.c.r, ind, mac))
			} else if s.c.viaMacro == 2 {
				w("if belowv!(%s match %s %s) > 0", pr.qexpr(s.c.l, ind, mac), s.c.op, pr.qexpr(s.c.r, ind, mac))
			} else if s.c.marked {
				w("if (do")
				w("  r__v := 0")
				w("  if %s %s %s", pr.qexpr(s.c.l, ind, mac), s.c.op, pr.qexpr(s.c.r, ind, mac))
				w("    r__v = 1")
				w("  end")
				w("  mk(8000, r__v)")
				w("  r__v")
				w("end) > 0")
			} else {
				w("if %s %s %s", pr.qexpr(s.c.l, ind, mac), s.c.op, pr.qexpr(s.c.r, ind, mac))
			}
			pr.stmts(s.then, ind+"  ", mac)
			if len(s.els) > 0 {
				w("else")
				pr.stmts(s.els, ind+"  ", mac)
			}
			w("end")
		case *msWhile:
			w("%s := 0", pn(s.ctr))
			w("while %s < %d", pn(s.ctr), s.n)
			w("  %s += 1", pn(s.ctr))
			pr.stmts(s.body, ind+"  ", mac)
			w("end")
		case *msClosure:
			w("%s := |%s: Int|: Int ->", pn(s.name), pn(s.param))
			pr.stmts(s.body, ind+"  ", mac)
			w("end")
		default:
			panic(fmt.Sprintf("print: %T", s))
		}
	}
}

const m31Prelude = "using Std::Elk::AST::*\n\ndef mk(k: Int, v: Int): Int\n  println \"m#{k} #{v}\"\n  v\nend\n\n"
const m31Below = "macro below(m: MatchExpressionNode)\n  quote\n    !{unhygienic(m.expression)} match !{unhygienic(m.pattern_node)}\n  end\nend\n\n"

func m31UsesBelow(l []mStmt, kind int) bool {
	found := false
	m31WalkStmts(l, func(s mStmt) {
		if i, ok := s.(*msIf); ok && i.c.viaMacro == kind {
			found = true
		}
	}, nil)
	return found
}

func (p *mProg) usesBelow(kind int) bool {
	uses := m31UsesBelow(p.main, kind)
	for _, m := range p.methods {
		uses = uses || m31UsesBelow(m.body, kind)
	}
	return uses
}

func (p *mProg) belowvSource() string {
	free := ""
	if p.belowvFree != "" {
		free = "    mk(8001, " + p.belowvFree + ")\n"
	}
	return "macro belowv(m: MatchExpressionNode)\n  quote\n    r__v := 0\n    if !{unhygienic(m.expression)} match !{unhygienic(m.pattern_node)}\n      r__v = 1\n    end\n    mk(8000, r__v)\n" + free + "    r__v\n  end\nend\n\n"
}

// source renders the program; with macros (the program under test) or, for a resolved program, without.
func (p *mProg) source(withMacros bool) string {
	pr := &m31Printer{p: p}
	pr.sb.WriteString(m31Prelude)
	if withMacros {
		if p.usesBelow(1) {
			pr.sb.WriteString(m31Below)
		}
		if p.usesBelow(2) {
			pr.sb.WriteString(p.belowvSource())
		}
		for _, m := range p.macros {
			var ps []string
			for _, q := range m.params {
				ps = append(ps, q+": ExpressionNode")
			}
			fmt.Fprintf(&pr.sb, "macro %s(%s)\n  quote\n", m.name, strings.Join(ps, ", "))
			pr.stmts(m.body, "    ", m)
			pr.sb.WriteString("  end\nend\n\n")
		}
	}
	for _, m := range p.methods {
		fmt.Fprintf(&pr.sb, "def %s(%s: Int): Int\n", m.name, pn(m.param))
		pr.stmts(m.body, "  ", nil)
		pr.sb.WriteString("end\n\n")
		if !withMacros && m.name == "f" {
			pr.sb.WriteString("def f__method(v: Int): Int\n  f(v)\nend\n\n")
		}
	}
	pr.stmts(p.main, "", nil)
	return pr.sb.String()
}

// ---- walking -------------------------------------------------------------------------------------

func m31WalkExpr(e mExpr, fs func(mStmt), fe func(mExpr)) {
	if fe != nil {
		fe(e)
	}
	switch e := e.(type) {
	case *mxBin:
		m31WalkExpr(e.l, fs, fe)
		m31WalkExpr(e.r, fs, fe)
	case *mxMk:
		m31WalkExpr(e.e, fs, fe)
	case *mxDecl:
		m31WalkExpr(e.e, fs, fe)
	case *mxAssign:
		m31WalkExpr(e.e, fs, fe)
	case *mxCall:
		m31WalkExpr(e.arg, fs, fe)
	case *mxMacro:
		for _, a := range e.args {
			m31WalkExpr(a, fs, fe)
		}
	case *mxBlock:
		m31WalkStmts(e.body, fs, fe)
	}
}

func m31WalkStmts(l []mStmt, fs func(mStmt), fe func(mExpr)) {
	for _, s := range l {
		if fs != nil {
			fs(s)
		}
		switch s := s.(type) {
		case *msExpr:
			m31WalkExpr(s.e, fs, fe)
		case *msDecl:
			m31WalkExpr(s.e, fs, fe)
		case *msAssign:
			m31WalkExpr(s.e, fs, fe)
		case *msDo:
			m31WalkStmts(s.body, fs, fe)
		case *msIf:
			m31WalkExpr(s.c.l, fs, fe)
			m31WalkExpr(s.c.r, fs, fe)
			m31WalkStmts(s.then, fs, fe)
			m31WalkStmts(s.els, fs, fe)
		case *msWhile:
			m31WalkStmts(s.body, fs, fe)
		case *msClosure:
			m31WalkStmts(s.body, fs, fe)
		}
	}
}

// ---- reference expander / resolver ---------------------------------------------------------------

type rScope struct {
	parent   *rScope
	names    map[string]string
	boundary bool // macro boundary: a hygienic lookup does not continue above this scope
}

type rCtx struct {
	sc       *rScope
	suffix   string // "" in code written by the caller, "__x<n>" in code written in a quote
	inSplice bool   // code written at the call site, spliced with !{p}
	unhyg    bool   // (as-built model only) inside an unhygienic splice
	leak     bool   // (as-built model only) expansion nested in an unhygienic splice
	ideal    *rCtx  // (as-built model only) where the reference would resolve this code
}

type m31Resolver struct {
	p         *mProg
	asBuilt   bool // model of the known defect: an unhygienic splice resolves innermost-first, the flag is inherited by nested expansions
	nextExp   int
	nextBind  int
	rejected  bool
	reason    string
	events    map[string]bool
	expCount  int
	collDecl  int // macro local declared while a same-named local is visible at the call site
	collUnhyg int // name inside an unhygienic splice that is also a visible local of the expansion
	depth     int
	tooDeep   bool
}

func (r *m31Resolver) reject(reason string) {
	if !r.rejected {
		r.rejected = true
		r.reason = reason
	}
}

func m31Lookup(sc *rScope, name string, through bool) (string, bool, bool) {
	crossed := false
	for s := sc; s != nil; s = s.parent {
		if v, ok := s.names[name]; ok {
			return v, true, crossed
		}
		if s.boundary {
			if !through {
				return "", false, crossed
			}
			crossed = true
		}
	}
	return "", false, crossed
}

func (r *m31Resolver) lookup(name string, ctx rCtx, write bool) (string, bool) {
	v, ok, crossed := m31Lookup(ctx.sc, name, ctx.unhyg || ctx.leak)
	if r.asBuilt {
		if ok && crossed && !ctx.unhyg {
			r.events["leak"] = true
		}
		if ctx.ideal != nil {
			iv, iok, _ := m31Lookup(ctx.ideal.sc, name, false)
			if iok != ok || iv != v {
				if write {
					r.events["capture-write"] = true
				} else {
					r.events["capture"] = true
				}
			}
		}
	}
	return v, ok
}

func (r *m31Resolver) undefined(name string, ctx rCtx, what string) string {
	switch {
	case ctx.inSplice:
		r.reject("plain-splice-" + what + "-caller-local")
	case ctx.suffix != "":
		r.reject("free-name-in-quote:" + what)
	default:
		r.reject("undefined-in-caller:" + what)
	}
	return name + "__undef"
}

func (r *m31Resolver) declare(name string, ctx rCtx) (string, bool) {
	if v, ok := ctx.sc.names[name]; ok {
		return v, false
	}
	if ctx.suffix != "" {
		// is a local with this name visible where the macro was called?
		for s := ctx.sc; s != nil; s = s.parent {
			if s.boundary {
				if _, ok, _ := m31Lookup(s.parent, name, true); ok {
					r.collDecl++
				}
				break
			}
		}
	}
	r.nextBind++
	v := fmt.Sprintf("%s%s#%d", name, ctx.suffix, r.nextBind) // printed name # binding identity
	ctx.sc.names[name] = v
	return v, true
}

func (r *m31Resolver) expr(e mExpr, ctx rCtx) mExpr {
	switch e := e.(type) {
	case *mxLit:
		return e
	case *mxVar:
		v, ok := r.lookup(e.name, ctx, false)
		if !ok {
			v = r.undefined(e.name, ctx, "reads")
		}
		return &mxVar{v}
	case *mxBin:
		l := r.expr(e.l, ctx)
		return &mxBin{e.op, l, r.expr(e.r, ctx)}
	case *mxMk:
		return &mxMk{e.k, r.expr(e.e, ctx)}
	case *mxDecl:
		v := r.expr(e.e, ctx)
		n, fresh := r.declare(e.name, ctx)
		if !fresh {
			return &mxAssign{n, v}
		}
		return &mxDecl{n, v}
	case *mxAssign:
		v := r.expr(e.e, ctx)
		n, ok := r.lookup(e.name, ctx, true)
		if !ok {
			n = r.undefined(e.name, ctx, "assigns")
		}
		return &mxAssign{n, v}
	case *mxCall:
		n, ok := r.lookup(e.fn, ctx, false)
		arg := r.expr(e.arg, ctx)
		if ok {
			return &mxCall{n, arg, false}
		}
		for _, m := range r.p.methods {
			if m.name == e.fn {
				return &mxCall{e.fn, arg, true}
			}
		}
		return &mxCall{r.undefined(e.fn, ctx, "calls"), arg, false}
	case *mxMacro:
		return r.expand(e, ctx)
	case *mxUnhyg:
		if !r.asBuilt {
			if m := r.countUnhygCollisions(e.e, ctx); m > 0 {
				r.collUnhyg += m
			}
			return r.expr(e.e, e.origin)
		}
		origin := e.origin
		return r.expr(e.e, rCtx{sc: ctx.sc, suffix: ctx.suffix, unhyg: true, leak: ctx.leak, ideal: &origin})
	case *mxPlain:
		c := ctx
		c.inSplice = true
		return r.expr(e.e, c)
	case *mxSplice:
		panic("unsubstituted splice")
	}
	panic(fmt.Sprintf("resolve: %T", e))
}

func (r *m31Resolver) countUnhygCollisions(e mExpr, ctx rCtx) int {
	n := 0
	m31WalkExpr(e, nil, func(x mExpr) {
		var name string
		switch x := x.(type) {
		case *mxVar:
			name = x.name
		case *mxAssign:
			name = x.name
		default:
			return
		}
		if _, ok, _ := m31Lookup(ctx.sc, name, false); ok {
			n++
		}
	})
	return n
}

func (r *m31Resolver) expand(e *mxMacro, ctx rCtx) mExpr {
	r.depth++
	defer func() { r.depth-- }()
	if r.depth > 12 {
		r.tooDeep = true
		return &mxLit{0}
	}
	mac := r.p.macros[e.m]
	r.nextExp++
	r.expCount++
	nctx := rCtx{
		sc:     &rScope{parent: ctx.sc, names: map[string]string{}, boundary: true},
		suffix: fmt.Sprintf("__x%d", r.nextExp),
		leak:   false, // an expansion nested in an unhygienic splice is hygienic on its own (fixed in the checker)
	}
	origin := ctx
	if r.asBuilt && ctx.ideal != nil {
		// code inside an unhygienic splice: the reference resolves it where it was written
		origin = *ctx.ideal
	}
	body := m31SubstStmts(mac.body, e.args, origin)
	return &mxBlock{r.stmts(body, nctx)}
}

func m31SubstExpr(e mExpr, args []mExpr, origin rCtx) mExpr {
	switch e := e.(type) {
	case *mxSplice:
		if e.p >= len(args) {
			return &mxLit{0}
		}
		if e.unhyg {
			return &mxUnhyg{args[e.p], origin}
		}
		return &mxPlain{args[e.p]}
	case *mxBin:
		return &mxBin{e.op, m31SubstExpr(e.l, args, origin), m31SubstExpr(e.r, args, origin)}
	case *mxMk:
		return &mxMk{e.k, m31SubstExpr(e.e, args, origin)}
	case *mxDecl:
		return &mxDecl{e.name, m31SubstExpr(e.e, args, origin)}
	case *mxAssign:
		return &mxAssign{e.name, m31SubstExpr(e.e, args, origin)}
	case *mxCall:
		return &mxCall{e.fn, m31SubstExpr(e.arg, args, origin), false}
	case *mxMacro:
		n := &mxMacro{m: e.m}
		for _, a := range e.args {
			n.args = append(n.args, m31SubstExpr(a, args, origin))
		}
		return n
	}
	return e
}

func m31SubstStmts(l []mStmt, args []mExpr, origin rCtx) []mStmt {
	out := make([]mStmt, 0, len(l))
	for _, s := range l {
		switch s := s.(type) {
		case *msExpr:
			out = append(out, &msExpr{m31SubstExpr(s.e, args, origin)})
		case *msDecl:
			out = append(out, &msDecl{s.name, m31SubstExpr(s.e, args, origin)})
		case *msAssign:
			out = append(out, &msAssign{s.name, m31SubstExpr(s.e, args, origin)})
		case *msDo:
			out = append(out, &msDo{m31SubstStmts(s.body, args, origin)})
		case *msIf:
			out = append(out, &msIf{mCond{m31SubstExpr(s.c.l, args, origin), s.c.op, m31SubstExpr(s.c.r, args, origin), s.c.viaMacro, false}, m31SubstStmts(s.then, args, origin), m31SubstStmts(s.els, args, origin)})
		case *msWhile:
			out = append(out, &msWhile{s.ctr, s.n, m31SubstStmts(s.body, args, origin)})
		case *msClosure:
			out = append(out, &msClosure{s.name, s.param, m31SubstStmts(s.body, args, origin)})
		}
	}
	return out
}

func (ctx rCtx) child() rCtx {
	c := ctx
	c.sc = &rScope{parent: ctx.sc, names: map[string]string{}}
	return c
}

func (r *m31Resolver) stmts(l []mStmt, ctx rCtx) []mStmt {
	out := make([]mStmt, 0, len(l))
	for _, s := range l {
		switch s := s.(type) {
		case *msExpr:
			out = append(out, &msExpr{r.expr(s.e, ctx)})
		case *msDecl:
			v := r.expr(s.e, ctx)
			n, fresh := r.declare(s.name, ctx)
			if fresh {
				out = append(out, &msDecl{n, v})
			} else {
				out = append(out, &msAssign{n, v})
			}
		case *msAssign:
			v := r.expr(s.e, ctx)
			n, ok := r.lookup(s.name, ctx, true)
			if !ok {
				n = r.undefined(s.name, ctx, "assigns")
			}
			out = append(out, &msAssign{n, v})
		case *msDo:
			out = append(out, &msDo{r.stmts(s.body, ctx.child())})
		case *msIf:
			cl := r.expr(s.c.l, ctx)
			cr := r.expr(s.c.r, ctx)
			th := r.stmts(s.then, ctx.child())
			el := r.stmts(s.els, ctx.child())
			if s.c.viaMacro == 2 && r.p.belowvFree != "" {
				r.reject("free-name-in-quote:reads")
			}
			out = append(out, &msIf{mCond{cl, s.c.op, cr, 0, s.c.viaMacro == 2}, th, el})
		case *msWhile:
			n, _ := r.declare(s.ctr, ctx)
			out = append(out, &msWhile{n, s.n, r.stmts(s.body, ctx.child())})
		case *msClosure:
			n, _ := r.declare(s.name, ctx)
			bc := ctx.child()
			prm, _ := r.declare(s.param, bc)
			body := r.stmts(s.body, bc)
			out = append(out, &msClosure{n, prm, body})
		default:
			panic(fmt.Sprintf("resolve: %T", s))
		}
	}
	return out
}

// resolve expands all macro calls; the result has no macros and globally meaningful names.
func (p *mProg) resolve(asBuilt bool) (*mProg, *m31Resolver) {
	r := &m31Resolver{p: p, asBuilt: asBuilt, events: map[string]bool{}}
	q := &mProg{markKind: p.markKind}
	for _, m := range p.methods {
		ctx := rCtx{sc: &rScope{names: map[string]string{m.param: m.param + "#m"}}}
		q.methods = append(q.methods, &mMethod{m.name, m.param + "#m", r.stmts(m.body, ctx)})
	}
	q.main = r.stmts(p.main, rCtx{sc: &rScope{names: map[string]string{}}})
	return q, r
}

// ---- reference interpreter (resolved programs) ---------------------------------------------------

type m31Env struct {
	parent *m31Env
	vars   map[string]*int64
	clos   map[string]*m31Closure
}
type m31Closure struct {
	def *msClosure
	env *m31Env
}
type m31Interp struct {
	p     *mProg
	out   strings.Builder
	steps int
	fail  string
}

func (e *m31Env) cell(name string) *int64 {
	for s := e; s != nil; s = s.parent {
		if c, ok := s.vars[name]; ok {
			return c
		}
	}
	return nil
}
func (e *m31Env) clo(name string) *m31Closure {
	for s := e; s != nil; s = s.parent {
		if c, ok := s.clos[name]; ok {
			return c
		}
	}
	return nil
}
func m31NewEnv(parent *m31Env) *m31Env {
	return &m31Env{parent: parent, vars: map[string]*int64{}, clos: map[string]*m31Closure{}}
}

type m31Abort struct{}

func (it *m31Interp) abort(why string) {
	if it.fail == "" {
		it.fail = why
	}
	panic(m31Abort{})
}

func (it *m31Interp) eval(e mExpr, env *m31Env) int64 {
	it.steps++
	if it.steps > 20000 {
		it.abort("budget")
	}
	switch e := e.(type) {
	case *mxLit:
		return e.v
	case *mxVar:
		c := env.cell(e.name)
		if c == nil {
			it.abort("unbound " + e.name)
		}
		return *c
	case *mxBin:
		l := it.eval(e.l, env)
		r := it.eval(e.r, env)
		var v int64
		switch e.op {
		case "+":
			v = l + r
		case "-":
			v = l - r
		case "*":
			v = l * r
			if l != 0 && v/l != r {
				it.abort("magnitude")
			}
		}
		if v > 1<<60 || v < -(1<<60) {
			it.abort("magnitude")
		}
		return v
	case *mxMk:
		v := it.eval(e.e, env)
		fmt.Fprintf(&it.out, "m%d %d\n", e.k, v)
		return v
	case *mxDecl:
		v := it.eval(e.e, env)
		if c, ok := env.vars[e.name]; ok {
			*c = v
		} else {
			env.vars[e.name] = &v
		}
		return v
	case *mxAssign:
		v := it.eval(e.e, env)
		c := env.cell(e.name)
		if c == nil {
			it.abort("unbound " + e.name)
		}
		*c = v
		return v
	case *mxCall:
		arg := it.eval(e.arg, env)
		if e.method {
			for _, m := range it.p.methods {
				if m.name == e.fn {
					ne := m31NewEnv(nil)
					ne.vars[m.param] = &arg
					return it.block(m.body, ne)
				}
			}
			it.abort("no method " + e.fn)
		}
		c := env.clo(e.fn)
		if c == nil {
			it.abort("unbound closure " + e.fn)
		}
		ne := m31NewEnv(c.env)
		ne.vars[c.def.param] = &arg
		return it.block(c.def.body, ne)
	case *mxBlock:
		return it.block(e.body, m31NewEnv(env))
	}
	panic(fmt.Sprintf("interp: %T", e))
}

func m31Cmp(op string, l, r int64) bool {
	switch op {
	case "<":
		return l < r
	case ">":
		return l > r
	case "<=":
		return l <= r
	case ">=":
		return l >= r
	}
	return false
}

// block runs statements in env and returns the value of the last one (0 when it has none).
func (it *m31Interp) block(l []mStmt, env *m31Env) int64 {
	var last int64
	for _, s := range l {
		last = 0
		switch s := s.(type) {
		case *msExpr:
			last = it.eval(s.e, env)
		case *msDecl:
			last = it.eval(&mxDecl{s.name, s.e}, env)
		case *msAssign:
			last = it.eval(&mxAssign{s.name, s.e}, env)
		case *msDo:
			last = it.block(s.body, m31NewEnv(env))
		case *msIf:
			l := it.eval(s.c.l, env)
			r := it.eval(s.c.r, env)
			if s.c.marked {
				v := 0
				if m31Cmp(s.c.op, l, r) {
					v = 1
				}
				fmt.Fprintf(&it.out, "m8000 %d\n", v)
			}
			if m31Cmp(s.c.op, l, r) {
				it.block(s.then, m31NewEnv(env))
			} else {
				it.block(s.els, m31NewEnv(env))
			}
		case *msWhile:
			var z int64
			if c, ok := env.vars[s.ctr]; ok {
				*c = 0
			} else {
				env.vars[s.ctr] = &z
			}
			c := env.vars[s.ctr]
			for *c < int64(s.n) {
				*c++
				it.block(s.body, m31NewEnv(env))
			}
		case *msClosure:
			env.clos[s.name] = &m31Closure{s, env}
		}
	}
	return last
}

func (p *mProg) interpret() (out string, ok bool) {
	it := &m31Interp{p: p}
	defer func() {
		if r := recover(); r != nil {
			if _, is := r.(m31Abort); !is {
				panic(r)
			}
			out, ok = it.fail, false
		}
	}()
	it.block(p.main, m31NewEnv(nil))
	return it.out.String(), true
}

// ---- generator -----------------------------------------------------------------------------------

var m31Pool = []string{"a", "b", "tmp", "i"}

type m31Scope struct {
	parent *m31Scope
	ints   []string // declared in this scope
	clos   []string
	block  string // body of the closure with this name: a call of that name would be a recursive call
}

func (s *m31Scope) visibleInts() []string {
	seen := map[string]bool{}
	var out []string
	for x := s; x != nil; x = x.parent {
		for _, n := range x.ints {
			if !seen[n] {
				seen[n] = true
				out = append(out, n)
			}
		}
	}
	sort.Strings(out)
	return out
}
func (s *m31Scope) visibleClos() []string {
	seen := map[string]bool{}
	var out []string
	for x := s; x != nil; x = x.parent {
		if x.block != "" {
			seen[x.block] = true
		}
		for _, n := range x.clos {
			if !seen[n] {
				seen[n] = true
				out = append(out, n)
			}
		}
	}
	sort.Strings(out)
	return out
}
func (s *m31Scope) has(name string) bool {
	for _, n := range s.ints {
		if n == name {
			return true
		}
	}
	return false
}

type m31Gen struct {
	r        *rand.Rand
	p        *mProg
	nextMk   int
	nextCtr  int
	mac      *mMacro // macro whose quote is being generated (nil: caller code)
	macIdx   int
	stmtsPer int
	budget   int // remaining macro calls to place in caller code
	// either quotes call the method or the method calls macros (never both: no recursion)
	quoteCallsMethod bool
	inArg            int // > 0 while generating a macro argument (no closure or method calls there)
	noMethod         int // > 0 inside a closure named like the method (a call would be a recursive closure call)
}

func (g *m31Gen) mk(kind string, e mExpr) *mxMk {
	g.nextMk++
	g.p.markKind[g.nextMk] = kind
	return &mxMk{g.nextMk, e}
}

func (g *m31Gen) pick(l []string) string { return l[g.r.IntN(len(l))] }

func (g *m31Gen) callable() int {
	if g.mac != nil {
		return g.macIdx // only macros defined earlier
	}
	return len(g.p.macros)
}

// atom over visible names (and splices inside a quote)
func (g *m31Gen) atom(sc *m31Scope) mExpr {
	vis := sc.visibleInts()
	if g.mac != nil && g.r.IntN(100) < 45 {
		return &mxSplice{g.r.IntN(len(g.mac.params)), g.r.IntN(100) < 88}
	}
	if len(vis) > 0 && g.r.IntN(100) < 70 {
		return &mxVar{g.pick(vis)}
	}
	return &mxLit{int64(g.r.IntN(9) + 1)}
}

func (g *m31Gen) expr(sc *m31Scope, depth int, sideEffects bool) mExpr {
	if depth <= 0 {
		return g.atom(sc)
	}
	k := g.r.IntN(100)
	switch {
	case k < 30:
		return g.atom(sc)
	case k < 60:
		op := "+"
		switch g.r.IntN(6) {
		case 0:
			op = "-"
		case 1:
			op = "*"
		}
		l := g.expr(sc, depth-1, sideEffects)
		var rr mExpr
		if op == "*" {
			rr = &mxLit{int64(g.r.IntN(2) + 2)}
		} else {
			rr = g.expr(sc, depth-1, sideEffects)
		}
		return &mxBin{op, l, rr}
	case k < 70 && sideEffects:
		return g.mk(g.kind("value"), g.expr(sc, depth-1, sideEffects))
	case k < 78 && sideEffects:
		if vis := sc.visibleInts(); len(vis) > 0 {
			n := g.pick(vis)
			return &mxAssign{n, &mxBin{"+", &mxVar{n}, g.expr(sc, depth-1, false)}}
		}
	case k < 90:
		if g.callable() > 0 && (g.mac != nil || g.budget > 0) {
			return g.macroCall(sc, depth-1)
		}
	case k < 96 && g.inArg == 0:
		if cl := sc.visibleClos(); len(cl) > 0 {
			return &mxCall{g.pick(cl), g.expr(sc, depth-1, false), false}
		}
		if len(g.p.methods) > 0 && g.noMethod == 0 && (g.mac == nil || g.quoteCallsMethod) {
			return &mxCall{g.p.methods[0].name, g.expr(sc, 0, false), false}
		}
	}
	return g.atom(sc)
}

func (g *m31Gen) kind(k string) string {
	if g.mac != nil {
		return "in-quote-" + k
	}
	return "caller-" + k
}

// argument written at a call site
func (g *m31Gen) arg(sc *m31Scope, depth int) mExpr {
	switch k := g.r.IntN(100); {
	case k < 12:
		return &mxLit{int64(g.r.IntN(9) + 1)}
	case k < 22:
		if vis := sc.visibleInts(); len(vis) > 0 { // side effect on a caller local, visible only through an unhygienic splice
			n := g.pick(vis)
			return &mxAssign{n, &mxBin{"+", &mxVar{n}, &mxLit{int64(g.r.IntN(5) + 1)}}}
		}
	}
	return g.expr(sc, depth, true)
}

func (g *m31Gen) macroCall(sc *m31Scope, depth int) mExpr {
	if g.mac == nil {
		g.budget--
	}
	m := g.r.IntN(g.callable())
	call := &mxMacro{m: m}
	g.inArg++
	for range g.p.macros[m].params {
		call.args = append(call.args, g.arg(sc, depth))
	}
	g.inArg--
	return call
}

func (g *m31Gen) freshName(sc *m31Scope, preferShadow bool) string {
	// a pool name not yet declared in this very scope
	var cand []string
	for _, n := range m31Pool {
		if !sc.has(n) {
			cand = append(cand, n)
		}
	}
	if len(cand) == 0 {
		return ""
	}
	return g.pick(cand)
}

func (g *m31Gen) postCallMarks(sc *m31Scope, out []mStmt) []mStmt {
	if g.mac != nil {
		return out
	}
	for _, n := range sc.visibleInts() {
		out = append(out, &msExpr{g.mk("caller-local-after-call", &mxVar{n})})
	}
	return out
}

func (g *m31Gen) stmts(sc *m31Scope, depth, n int) []mStmt {
	var out []mStmt
	for j := 0; j < n; j++ {
		k := g.r.IntN(100)
		switch {
		case k < 22: // declaration
			if name := g.freshName(sc, true); name != "" {
				out = append(out, &msDecl{name, g.expr(sc, 2, true)})
				sc.ints = append(sc.ints, name)
				continue
			}
			fallthrough
		case k < 34: // assignment
			if vis := sc.visibleInts(); len(vis) > 0 {
				name := g.pick(vis)
				out = append(out, &msAssign{name, g.expr(sc, 2, true)})
				out = append(out, &msExpr{g.mk(g.kind("local"), &mxVar{name})})
				continue
			}
			fallthrough
		case k < 46:
			out = append(out, &msExpr{g.mk(g.kind("value"), g.expr(sc, 2, true))})
		case k < 66: // macro call as a statement / as an initialiser
			if g.callable() == 0 || (g.mac == nil && g.budget <= 0) {
				out = append(out, &msExpr{g.mk(g.kind("value"), g.expr(sc, 1, false))})
				continue
			}
			call := g.macroCall(sc, 1)
			switch g.r.IntN(3) {
			case 0:
				out = append(out, &msExpr{call})
			case 1:
				out = append(out, &msExpr{g.mk(g.kind("call-result"), call)})
			default:
				if name := g.freshName(sc, true); name != "" {
					out = append(out, &msDecl{name, call})
					sc.ints = append(sc.ints, name)
				} else {
					out = append(out, &msExpr{call})
				}
			}
			out = g.postCallMarks(sc, out)
		case k < 74 && depth > 0:
			out = append(out, &msDo{g.stmts(&m31Scope{parent: sc}, depth-1, 1+g.r.IntN(g.stmtsPer))})
			out = g.postCallMarks(sc, out)
		case k < 82 && depth > 0:
			c := mCond{l: g.expr(sc, 1, false), op: []string{"<", ">", "<=", ">="}[g.r.IntN(4)], r: g.expr(sc, 1, false)}
			if g.mac == nil && g.r.IntN(100) < 40 {
				c.viaMacro = 1 + g.r.IntN(2)
				c.l, c.r = g.simple(sc), g.simple(sc)
			}
			s := &msIf{c: c, then: g.stmts(&m31Scope{parent: sc}, depth-1, 1+g.r.IntN(g.stmtsPer))}
			if g.r.IntN(2) == 0 {
				s.els = g.stmts(&m31Scope{parent: sc}, depth-1, 1+g.r.IntN(2))
			}
			out = append(out, s)
		case k < 90 && depth > 0:
			g.nextCtr++
			ctr := fmt.Sprintf("k%d", g.nextCtr)
			out = append(out, &msWhile{ctr, 1 + g.r.IntN(2), g.stmts(&m31Scope{parent: sc}, depth-1, 1+g.r.IntN(g.stmtsPer))})
			out = g.postCallMarks(sc, out)
		case depth > 0:
			var name string
			for _, c := range []string{"f", "g"} {
				used := false
				for _, d := range sc.clos {
					used = used || d == c
				}
				if !used {
					name = c
					break
				}
			}
			if name == "" {
				out = append(out, &msExpr{g.mk(g.kind("value"), g.expr(sc, 1, true))})
				continue
			}
			param := g.pick(m31Pool)
			bsc := &m31Scope{parent: sc, ints: []string{param}, block: name}
			if name == "f" {
				g.noMethod++
			}
			body := g.stmts(bsc, depth-1, 1+g.r.IntN(g.stmtsPer))
			body = append(body, &msExpr{g.expr(bsc, 2, true)})
			if name == "f" {
				g.noMethod--
			}
			out = append(out, &msClosure{name, param, body})
			sc.clos = append(sc.clos, name)
			out = append(out, &msExpr{g.mk(g.kind("closure-result"), &mxCall{name, g.expr(sc, 1, false), false})})
			out = g.postCallMarks(sc, out)
		default:
			out = append(out, &msExpr{g.mk(g.kind("value"), g.expr(sc, 2, true))})
		}
	}
	return out
}

// operand that is legal on both sides of `match <op>`
func (g *m31Gen) simple(sc *m31Scope) mExpr {
	vis := sc.visibleInts()
	at := func() mExpr {
		if len(vis) > 0 && g.r.IntN(4) > 0 {
			return &mxVar{g.pick(vis)}
		}
		return &mxLit{int64(g.r.IntN(9) + 1)}
	}
	if g.r.IntN(3) == 0 {
		return &mxBin{"+", at(), at()}
	}
	return at()
}

func m31Generate(r *rand.Rand) *mProg {
	p := &mProg{markKind: map[int]string{}}
	g := &m31Gen{r: r, p: p, stmtsPer: 2 + r.IntN(2)}
	nm := 1 + r.IntN(3)
	var meth *mMethod
	if r.IntN(100) < 35 {
		name := "h"
		if r.IntN(3) == 0 {
			name = "f" // collides with closure locals named f
		}
		meth = &mMethod{name: name, param: m31Pool[r.IntN(4)]}
		p.methods = append(p.methods, meth)
		g.quoteCallsMethod = r.IntN(2) == 0
	}
	for j := 0; j < nm; j++ {
		mac := &mMacro{name: fmt.Sprintf("m%d", j+1)}
		np := 1 + r.IntN(2)
		names := []string{"p", "q"}
		if r.IntN(4) == 0 { // parameter named like a local of the quote / of the caller
			names = []string{m31Pool[r.IntN(4)], "q"}
			if names[0] == "q" {
				names[0] = "p"
			}
		}
		mac.params = names[:np]
		g.mac, g.macIdx = mac, j
		sc := &m31Scope{}
		if r.IntN(100) < 22 {
			// single-expression expansion, e.g. (tmp := !{unhygienic(p)}) * tmp
			name := g.pick(m31Pool)
			sc.ints = append(sc.ints, name)
			var use mExpr = &mxVar{name}
			if r.IntN(2) == 0 {
				use = &mxBin{"+", &mxVar{name}, g.atom(sc)}
			}
			sc.ints = nil
			init := g.expr(sc, 1, true)
			mac.body = []mStmt{&msExpr{&mxBin{[]string{"*", "+"}[r.IntN(2)], &mxDecl{name, init}, use}}}
		} else {
			mac.body = g.stmts(sc, 2, 1+r.IntN(g.stmtsPer+1))
			mac.body = append(mac.body, &msExpr{g.expr(sc, 2, true)})
		}
		p.macros = append(p.macros, mac)
	}
	g.mac = nil
	if meth != nil {
		g.budget = 2
		if g.quoteCallsMethod {
			g.budget = 0
		}
		sc := &m31Scope{ints: []string{meth.param}}
		p.methods = nil // the method does not call itself
		body := g.stmts(sc, 1, 1+r.IntN(3))
		body = append(body, &msExpr{g.expr(sc, 2, true)})
		meth.body = body
		p.methods = []*mMethod{meth}
	}
	g.budget = 3 + r.IntN(3)
	sc := &m31Scope{}
	// the caller starts with some of the colliding names declared
	for _, n := range m31Pool {
		if r.IntN(100) < 55 {
			p.main = append(p.main, &msDecl{n, &mxLit{int64(10 * (1 + r.IntN(9)))}})
			sc.ints = append(sc.ints, n)
		}
	}
	p.main = append(p.main, g.stmts(sc, 2, 3+r.IntN(4))...)
	// one more call at the top level, as a statement or as a value
	g.budget = 1
	if call := g.macroCall(sc, 1); r.IntN(2) == 0 {
		p.main = append(p.main, &msExpr{call})
	} else {
		p.main = append(p.main, &msExpr{g.mk("caller-call-result", call)})
	}
	p.main = g.postCallMarks(sc, p.main)
	// declarations after the calls
	for _, n := range m31Pool {
		if !sc.has(n) && r.IntN(2) == 0 {
			p.main = append(p.main, &msDecl{n, &mxLit{int64(r.IntN(9) + 1)}})
			sc.ints = append(sc.ints, n)
			p.main = append(p.main, &msExpr{g.mk("caller-local", &mxVar{n})})
		}
	}
	return p
}

// ---- negative variants ---------------------------------------------------------------------------

// topLevelDecls lists names a macro body declares at the top level of its quote.
func m31TopLevelDecls(mac *mMacro) []string {
	var out []string
	for _, s := range mac.body {
		switch s := s.(type) {
		case *msDecl:
			out = append(out, s.name)
		case *msExpr:
			m31WalkExpr(s.e, nil, func(e mExpr) {
				if d, ok := e.(*mxDecl); ok {
					out = append(out, d.name)
				}
			})
		}
	}
	return out
}

// variantReadAfterCall inserts, after a top-level macro call statement of main, a read of a name the
// macro declared that the caller has not declared at that point. Returns nil when there is none.
func (p *mProg) variantReadAfterCall(r *rand.Rand) *mProg {
	q := p.clone()
	declared := map[string]bool{}
	type spot struct {
		idx  int
		name string
	}
	var spots []spot
	for i, s := range q.main {
		var call *mxMacro
		switch s := s.(type) {
		case *msDecl:
			if c, ok := s.e.(*mxMacro); ok {
				call = c
			}
		case *msExpr:
			switch e := s.e.(type) {
			case *mxMacro:
				call = e
			case *mxMk:
				if c, ok := e.e.(*mxMacro); ok {
					call = c
				}
			}
		}
		if d, ok := s.(*msDecl); ok {
			declared[d.name] = true
		}
		if call != nil {
			for _, n := range m31TopLevelDecls(q.macros[call.m]) {
				if !declared[n] {
					spots = append(spots, spot{i, n})
				}
			}
		}
	}
	if len(spots) == 0 {
		return nil
	}
	sp := spots[r.IntN(len(spots))]
	ins := &msExpr{&mxMk{9000, &mxVar{sp.name}}}
	q.main = append(q.main[:sp.idx+1], append([]mStmt{ins}, q.main[sp.idx+1:]...)...)
	return q
}

// variantFreeName makes one macro read or assign, at the start of its quote, a name it does not declare.
func (p *mProg) variantFreeName(r *rand.Rand) *mProg {
	q := p.clone()
	mac := q.macros[r.IntN(len(q.macros))]
	name := m31Pool[r.IntN(len(m31Pool))]
	var ins mStmt
	if r.IntN(2) == 0 {
		ins = &msExpr{&mxMk{9001, &mxVar{name}}}
	} else {
		ins = &msAssign{name, &mxLit{0}}
	}
	if len(mac.body) == 1 {
		if r.IntN(2) == 0 {
			// keep the expansion a single expression
			mac.body = []mStmt{&msExpr{&mxBin{"+", &mxVar{name}, mac.body[0].(*msExpr).e}}}
			return q
		}
	}
	mac.body = append([]mStmt{ins}, mac.body...)
	return q
}

// ---- oracle --------------------------------------------------------------------------------------

type m31Verdict struct {
	sig, detail string
}

var m31NameRe = regexp.MustCompile("`[^`]*`")

func m31Features(p *mProg) string {
	f := map[string]bool{}
	for _, m := range p.macros {
		if len(m.body) == 1 {
			f["single-expression-expansion"] = true
		}
		m31WalkStmts(m.body, func(s mStmt) {
			switch s.(type) {
			case *msDecl:
				f["decl-in-quote"] = true
			case *msAssign:
				f["assign-in-quote"] = true
			case *msWhile:
				f["loop-in-quote"] = true
			case *msClosure:
				f["closure-in-quote"] = true
			case *msDo:
				f["block-in-quote"] = true
			case *msIf:
				f["if-in-quote"] = true
			}
		}, func(e mExpr) {
			switch e := e.(type) {
			case *mxDecl:
				f["decl-expr-in-quote"] = true
			case *mxAssign:
				f["assign-in-quote"] = true
			case *mxMacro:
				f["macro-in-quote"] = true
			case *mxSplice:
				if e.unhyg {
					f["unhygienic-splice"] = true
				} else {
					f["plain-splice"] = true
				}
			}
		})
	}
	callFeat := func(l []mStmt, where string) {
		m31WalkStmts(l, func(s mStmt) {
			switch s := s.(type) {
			case *msClosure:
				m31WalkStmts(s.body, nil, func(e mExpr) {
					if _, ok := e.(*mxMacro); ok {
						f["call-in-closure"] = true
					}
				})
			case *msWhile:
				m31WalkStmts(s.body, nil, func(e mExpr) {
					if _, ok := e.(*mxMacro); ok {
						f["call-in-loop"] = true
					}
				})
			}
		}, func(e mExpr) {
			if c, ok := e.(*mxMacro); ok {
				if where != "" {
					f[where] = true
				}
				for _, a := range c.args {
					m31WalkExpr(a, nil, func(x mExpr) {
						switch x.(type) {
						case *mxMacro:
							f["call-in-argument"] = true
						case *mxAssign:
							f["assign-in-argument"] = true
						}
					})
				}
			}
		})
	}
	callFeat(p.main, "")
	for _, m := range p.methods {
		callFeat(m.body, "call-in-method")
	}
	var l []string
	for k := range f {
		l = append(l, k)
	}
	sort.Strings(l)
	return strings.Join(l, "+")
}

func m31FirstDiff(want, got string) (string, string) {
	w, g := strings.Split(want, "\n"), strings.Split(got, "\n")
	for i := 0; i < len(w) || i < len(g); i++ {
		var a, b string
		if i < len(w) {
			a = w[i]
		}
		if i < len(g) {
			b = g[i]
		}
		if a != b {
			return a, b
		}
	}
	return "", ""
}

// judge runs the macro program and compares it with the reference. "" = agreement.
// class is a coarse kind used while minimising; the final signature adds the features of the minimal program.
func (p *mProg) judge(c *Ctx) (class string, detail string, known bool) {
	ideal, ri := p.resolve(false)
	if ri.tooDeep {
		return "", "", false
	}
	var want string
	if !ri.rejected {
		var ok bool
		if want, ok = ideal.interpret(); !ok {
			return "", "", false // over the interpreter's budget: not a usable case
		}
	}
	// avoid rule tied to the known finding: when the as-built resolution (unhygienic splices captured
	// innermost-first) makes the program recurse without bound, elk would only exhaust its value stack
	if built, rb := p.resolve(true); !rb.tooDeep && !rb.rejected {
		if why, ok := built.interpret(); !ok && why == "budget" {
			if c != nil {
				c.Count("programs_skipped_known_capture_would_not_terminate", 1)
			}
			return "", "", false
		} else if !ok && len(rb.events) > 0 {
			// the known capture applies and its outcome is beyond the interpreter's Int range: undecidable here
			if c != nil {
				c.Count("programs_skipped_known_capture_beyond_int_range", 1)
			}
			return "", "", false
		}
	}
	src := p.source(true)
	if d := os.Getenv("VERIF_C31_DUMP"); d != "" {
		os.WriteFile(d+"/last.elk", []byte(src), 0o644)
	}
	res := RunElk(src, nil)
	if c != nil {
		c.Eval(1)
	}
	if res.Panic != "" {
		// a Go panic of the VM must be reproducible to be attributed to this program
		if again := RunElk(src, nil); again.Panic == "" {
			// not attributable to this program (and not this property: crashes are C01's subject); counted and sampled
			if c != nil {
				c.Count("vm_panics_not_reproduced_on_rerun", 1)
				c.Sample(map[string]string{"non_reproducible_panic": head(res.Panic, 200), "site": panicSite1(res.PanicStack), "program": head(src, 600)})
			}
			res = again
		}
	}
	got, bad := outcome(res)
	show := func(extra string) string {
		exp := "REJECTED (" + ri.reason + ")"
		if !ri.rejected {
			exp = want
		}
		act := got
		if res.Rejected {
			act = "REJECTED: " + head(diagString(res.Diagnostics), 400)
		}
		hand := ""
		if !ri.rejected {
			hand = "\nhand expansion:\n" + strings.TrimPrefix(ideal.source(false), m31Prelude)
		}
		return fmt.Sprintf("%sprogram:\n%s\nreference says:\n%s\nelk says:\n%s%s", extra, strings.TrimPrefix(src, m31Prelude), head(exp, 700), head(act, 700), head(hand, 1500))
	}
	if res.Panic != "" {
		return "panic:" + res.PanicPhase + ":" + panicSite1(res.PanicStack), show(head(res.Panic, 300) + "\n"), false
	}
	agree := false
	switch {
	case ri.rejected && res.Rejected:
		agree = true
	case !ri.rejected && !res.Rejected && !bad && got == want:
		agree = true
	}
	if agree {
		return "", "", false
	}
	// does the as-built model (known defect) explain the observation?
	built, rb := p.resolve(true)
	if !rb.tooDeep {
		explained := false
		if rb.rejected {
			explained = res.Rejected
		} else if !res.Rejected && !bad {
			if bw, ok := built.interpret(); ok && bw == got {
				explained = true
			}
		}
		if os.Getenv("VERIF_C31_DEBUG") != "" {
			bw, ok := "", false
			if !rb.rejected {
				bw, ok = built.interpret()
			}
			fmt.Fprintf(os.Stderr, "as-built model: rejected=%v (%s) events=%v ok=%v out:\n%s\n", rb.rejected, rb.reason, rb.events, ok, bw)
		}
		if explained {
			var ev []string
			for k := range rb.events {
				ev = append(ev, k)
			}
			sort.Strings(ev)
			if len(ev) > 0 {
				return "unhygienic-splice-resolves-innermost-first:" + strings.Join(ev, "+"), show(""), true
			}
		}
	}
	switch {
	case ri.rejected && !res.Rejected:
		return "accepted-but-reference-rejects:" + ri.reason, show(""), false
	case !ri.rejected && res.Rejected:
		return "rejected-but-reference-accepts:" + m31NameRe.ReplaceAllString(head(firstDiagMessage(res), 60), "`_`"), show(""), false
	case bad:
		return "runtime-error:" + m31NameRe.ReplaceAllString(head(res.ErrInspect, 50), "`_`"), show(""), false
	}
	a, b := m31FirstDiff(want, got)
	kind := "output-differs"
	var k int
	line := a
	if line == "" {
		line = b
	}
	if _, err := fmt.Sscanf(line, "m%d", &k); err == nil {
		switch mk := p.markKind[k]; {
		case mk == "caller-local-after-call":
			kind = "caller-local-overwritten"
		case strings.HasPrefix(mk, "in-quote"):
			kind = "expansion-local-wrong"
		case strings.HasSuffix(mk, "call-result"):
			kind = "expansion-result-wrong"
		case mk != "":
			kind = "caller-value-wrong"
		}
	}
	return kind, show(fmt.Sprintf("first difference: reference %q, elk %q\n", a, b)), false
}

// ---- minimiser -----------------------------------------------------------------------------------

func m31Slots(p *mProg) []*[]mStmt {
	var out []*[]mStmt
	var walk func(l *[]mStmt)
	var walkE func(e mExpr)
	walkE = func(e mExpr) {
		m31WalkExpr(e, nil, nil)
	}
	walk = func(l *[]mStmt) {
		out = append(out, l)
		for _, s := range *l {
			switch s := s.(type) {
			case *msDo:
				walk(&s.body)
			case *msIf:
				walk(&s.then)
				walk(&s.els)
			case *msWhile:
				walk(&s.body)
			case *msClosure:
				walk(&s.body)
			}
		}
	}
	_ = walkE
	for _, m := range p.macros {
		walk(&m.body)
	}
	for _, m := range p.methods {
		walk(&m.body)
	}
	walk(&p.main)
	return out
}

func m31ExprSlots(p *mProg) []*mExpr {
	var out []*mExpr
	var we func(e *mExpr)
	var ws func(l []mStmt)
	we = func(e *mExpr) {
		out = append(out, e)
		switch x := (*e).(type) {
		case *mxBin:
			we(&x.l)
			we(&x.r)
		case *mxMk:
			we(&x.e)
		case *mxDecl:
			we(&x.e)
		case *mxAssign:
			we(&x.e)
		case *mxCall:
			we(&x.arg)
		case *mxMacro:
			for i := range x.args {
				we(&x.args[i])
			}
		}
	}
	ws = func(l []mStmt) {
		for _, s := range l {
			switch s := s.(type) {
			case *msExpr:
				we(&s.e)
			case *msDecl:
				we(&s.e)
			case *msAssign:
				we(&s.e)
			case *msDo:
				ws(s.body)
			case *msIf:
				we(&s.c.l)
				we(&s.c.r)
				ws(s.then)
				ws(s.els)
			case *msWhile:
				ws(s.body)
			case *msClosure:
				ws(s.body)
			}
		}
	}
	for _, m := range p.macros {
		ws(m.body)
	}
	for _, m := range p.methods {
		ws(m.body)
	}
	ws(p.main)
	return out
}

func m31Sub(e mExpr) []mExpr {
	switch x := e.(type) {
	case *mxBin:
		return []mExpr{x.l, x.r}
	case *mxMk:
		return []mExpr{x.e}
	case *mxCall:
		return []mExpr{x.arg, &mxLit{1}}
	case *mxMacro:
		return append([]mExpr{&mxLit{1}}, x.args...)
	case *mxAssign:
		return []mExpr{x.e, &mxLit{1}}
	case *mxDecl:
		return nil
	case *mxLit:
		return nil
	case *mxVar, *mxSplice:
		return []mExpr{&mxLit{1}}
	}
	return nil
}

func (p *mProg) minimise(same func(*mProg) bool, budget int) *mProg {
	cur := p
	for changed := true; changed && budget > 0; {
		changed = false
		// drop statements (and flatten blocks)
		for si := 0; si < len(m31Slots(cur)) && budget > 0; si++ {
			for j := 0; j < len(*m31Slots(cur)[si]) && budget > 0; j++ {
				cand := cur.clone()
				sl := m31Slots(cand)[si]
				removed := (*sl)[j]
				rest := append(append([]mStmt{}, (*sl)[:j]...), (*sl)[j+1:]...)
				*sl = rest
				budget--
				if same(cand) {
					cur, changed = cand, true
					j--
					continue
				}
				var inner []mStmt
				switch s := removed.(type) {
				case *msDo:
					inner = s.body
				case *msIf:
					inner = s.then
				case *msWhile:
					inner = s.body
				}
				if inner != nil {
					cand = cur.clone()
					sl = m31Slots(cand)[si]
					var flat []mStmt
					switch s := (*sl)[j].(type) {
					case *msDo:
						flat = s.body
					case *msIf:
						flat = s.then
					case *msWhile:
						flat = s.body
					}
					*sl = append(append(append([]mStmt{}, (*sl)[:j]...), flat...), (*sl)[j+1:]...)
					budget--
					if same(cand) {
						cur, changed = cand, true
					}
				}
			}
		}
		// drop unused trailing macros and methods
		for len(cur.macros) > 1 && budget > 0 {
			cand := cur.clone()
			last := len(cand.macros) - 1
			used := false
			chk := func(e mExpr) {
				if c, ok := e.(*mxMacro); ok && c.m == last {
					used = true
				}
			}
			for _, m := range cand.macros {
				m31WalkStmts(m.body, nil, chk)
			}
			for _, m := range cand.methods {
				m31WalkStmts(m.body, nil, chk)
			}
			m31WalkStmts(cand.main, nil, chk)
			if used {
				break
			}
			cand.macros = cand.macros[:last]
			budget--
			if !same(cand) {
				break
			}
			cur, changed = cand, true
		}
		if len(cur.methods) > 0 && budget > 0 {
			cand := cur.clone()
			cand.methods = nil
			budget--
			if same(cand) {
				cur, changed = cand, true
			}
		}
		// simplify expressions
		for ei := 0; ei < len(m31ExprSlots(cur)) && budget > 0; ei++ {
			for _, sub := range m31Sub(*m31ExprSlots(cur)[ei]) {
				if budget <= 0 {
					break
				}
				cand := cur.clone()
				*m31ExprSlots(cand)[ei] = m31CloneExpr(sub)
				budget--
				if same(cand) {
					cur, changed = cand, true
					break
				}
			}
		}
	}
	return cur
}

var m31Minimised = map[string]int{}

// ---- case ----------------------------------------------------------------------------------------

func m31Report(c *Ctx, p *mProg, class, detail string, known bool, caseIdx int, variant string) {
	if known {
		c.Violate(class, detail, caseIdx, p.source(true))
		return
	}
	coarse := class
	m31Minimised[coarse]++
	if m31Minimised[coarse] > 2 {
		c.Count("violations_not_minimised_same_class", 1)
		return
	}
	min := p.minimise(func(q *mProg) bool {
		cl, _, kn := q.judge(nil)
		return cl == coarse && !kn
	}, 220)
	cl, det, _ := min.judge(nil)
	if cl != coarse {
		min, det = p, detail
	}
	sig := coarse
	if !strings.HasPrefix(coarse, "panic:") {
		sig += ":" + m31Features(min)
		if min.belowvFree != "" && min.usesBelow(2) {
			sig += "+free-name-after-pattern-splice"
		}
	}
	c.Violate(sig, variant+det, caseIdx, min.source(true))
}

func c31Case(c *Ctx, caseIdx int, r *rand.Rand) {
	p := m31Generate(r)
	ideal, ri := p.resolve(false)
	if ri.tooDeep {
		c.Count("programs_discarded_expansion_depth", 1)
		return
	}
	c.Count("programs", 1)
	c.Count("expansions_in_reference", int64(ri.expCount))
	c.Count("collisions_macro_local_vs_caller_local", int64(ri.collDecl))
	c.Count("collisions_unhygienic_name_vs_macro_local", int64(ri.collUnhyg))
	feats := m31Features(p)
	for _, f := range strings.Split(feats, "+") {
		c.Count("feature_"+f, 1)
	}
	c.Distinct(feats + "|" + ri.reason)
	if caseIdx%500 == 0 {
		c.Sample(map[string]string{"program": head(strings.TrimPrefix(p.source(true), m31Prelude), 1200)})
	}
	if ri.rejected {
		c.Count("reference_rejects", 1)
		c.Count("reference_rejects_"+strings.SplitN(ri.reason, ":", 2)[0], 1)
	} else {
		want, ok := ideal.interpret()
		if !ok {
			c.Count("programs_discarded_by_interpreter_budget", 1)
			return
		}
		c.Count("reference_accepts", 1)
		c.Count("trace_lines_checked", int64(strings.Count(want, "\n")))
		// (2) the hand expansion must behave like the reference says (validates the model on plain Elk)
		hs := ideal.source(false)
		hres := RunElk(hs, nil)
		c.Eval(1)
		hgot, hbad := outcome(hres)
		switch {
		case hres.Panic != "":
			c.Violate("hand-expansion:panic:"+hres.PanicPhase+":"+panicSite1(hres.PanicStack), "the macro-free hand expansion panics\n"+hs+"\n"+head(hres.Panic, 300), caseIdx, hs)
		case hres.Rejected:
			c.Violate("hand-expansion:rejected:"+m31NameRe.ReplaceAllString(head(firstDiagMessage(hres), 60), "`_`"), "the macro-free hand expansion is rejected\n"+hs+"\n"+head(diagString(hres.Diagnostics), 500), caseIdx, hs)
		case hbad || hgot != want:
			a, b := m31FirstDiff(want, hgot)
			c.Violate("hand-expansion:output-differs-from-reference-interpreter", fmt.Sprintf("first difference: reference %q, elk %q\n%s\nreference:\n%s\nelk:\n%s", a, b, hs, head(want, 600), head(hgot, 600)), caseIdx, hs)
		default:
			c.Count("hand_expansions_agree", 1)
		}
	}
	// (1) the program with macros
	if class, detail, known := p.judge(c); class != "" {
		m31Report(c, p, class, detail, known, caseIdx, "")
	} else if !ri.rejected {
		c.Count("macro_programs_agree", 1)
	} else {
		c.Count("macro_programs_rejected_as_expected", 1)
	}
	// negative variants
	if v := p.variantReadAfterCall(r); v != nil {
		_, rv := v.resolve(false)
		if rv.rejected && strings.HasPrefix(rv.reason, "undefined-in-caller") {
			c.Count("variant_macro_local_read_after_call", 1)
			res := RunElk(v.source(true), nil)
			c.Eval(1)
			if res.Panic != "" {
				c.Violate("panic:"+res.PanicPhase+":"+panicSite1(res.PanicStack), head(res.Panic, 300)+"\n"+v.source(true), caseIdx, v.source(true))
			} else if !res.Rejected {
				min := v.minimise(func(q *mProg) bool {
					_, rq := q.resolve(false)
					if !rq.rejected || !strings.HasPrefix(rq.reason, "undefined-in-caller") {
						return false
					}
					r2 := RunElk(q.source(true), nil)
					return r2.Panic == "" && !r2.Rejected
				}, 150)
				c.Violate("macro-local-visible-after-call:"+m31Features(min), "a local declared only inside the expansion can be read after the call (m9000 reads it):\n"+strings.TrimPrefix(min.source(true), m31Prelude), caseIdx, min.source(true))
			}
		}
	}
	if p.usesBelow(2) {
		c.Count("feature_match-macro-with-statements-after-pattern-splice", 1)
		// the quote of belowv reads, after its unhygienic pattern splice, a name that only its callers declare
		v := p.clone()
		v.belowvFree = m31Pool[r.IntN(len(m31Pool))]
		for _, s := range v.main {
			if d, ok := s.(*msDecl); ok {
				v.belowvFree = d.name
				break
			}
		}
		if _, rv := v.resolve(false); rv.rejected && strings.HasPrefix(rv.reason, "free-name-in-quote") {
			c.Count("variant_free_name_after_pattern_splice", 1)
			if class, detail, known := v.judge(c); class != "" {
				m31Report(c, v, class, detail, known, caseIdx, "(variant: the quote of belowv reads `"+v.belowvFree+"`, which it does not declare, after its unhygienic pattern splice)\n")
			}
		}
	}
	if p.usesBelow(1) {
		c.Count("feature_match-macro", 1)
	}
	if v := p.variantFreeName(r); v != nil && caseIdx%2 == 0 {
		_, rv := v.resolve(false)
		if rv.rejected && strings.HasPrefix(rv.reason, "free-name-in-quote") && !rv.tooDeep {
			c.Count("variant_free_name_in_quote", 1)
			if class, detail, known := v.judge(c); class != "" {
				m31Report(c, v, class, detail, known, caseIdx, "(variant: a quote uses a name it does not declare)\n")
			}
		}
	}
}

func init() {
	register(&Check{
		ID: "C31",
		Rule: "seeded generator of Int-only programs with 1-3 macros (quote bodies that declare/assign/read locals named a, b, tmp, i, nest blocks, ifs, loops, closures, call earlier macros, splice parameters with !{p} and !{unhygienic(p)}, single-expression expansions such as (tmp := !{unhygienic(p)}) * tmp) called at statement and expression position, in initialisers, arguments of other calls, closures, loops and a method, from scopes that declare the same names before and after the call; every statement prints a marker; " +
			"oracle: a reference hygienic expander (macro locals renamed per expansion; names in a quote and in !{p} splices resolve inside the expansion only, names in unhygienic splices resolve where the argument was written) + reference interpreter; the program with macros must have the reference's verdict and trace, the printed hand expansion (plain Elk) must have it too; variants that read a macro local after the call or use a caller's local as a free name in a quote (also after an unhygienic pattern splice `x match !{unhygienic(m.pattern_node)}`) must be rejected; " +
			"failing programs are delta-minimised, signature = kind of first difference + constructs of the minimal program; distinct = construct sets x verdict",
		NumCases: func(tier string) int {
			if tier == "thorough" {
				return 40000
			}
			return 1000
		},
		Case:      c31Case,
		CPUBudget: 60,
		MinCounters: map[string]int64{
			"programs": 800, "reference_accepts": 400, "reference_rejects": 80, "hand_expansions_agree": 400,
			"expansions_in_reference": 4000, "collisions_macro_local_vs_caller_local": 4000, "collisions_unhygienic_name_vs_macro_local": 800,
			"variant_macro_local_read_after_call": 100, "variant_free_name_in_quote": 300, "variant_free_name_after_pattern_splice": 30, "feature_match-macro": 30, "trace_lines_checked": 8000,
			"feature_single-expression-expansion": 150, "feature_macro-in-quote": 150, "feature_closure-in-quote": 100, "feature_call-in-closure": 100, "feature_call-in-loop": 100,
		},
		Assumptions: []string{
			"reference semantics restated from the property: a plain !{p} splice is resolved inside the expansion only (it sees a macro local of the same name, otherwise the program is rejected); an unhygienic splice is resolved in the scope where the argument was written and never sees the expansion's own locals",
			"Int-only values; programs whose values exceed 2^60 or that need more than 20000 interpreter steps are discarded",
			"the hand expansion is produced by the check's own expander, not by printing elk's expanded tree",
		},
	})
}
