package main

// c12Templates: typed base programs for the text-level edits of C12 (narrowing, generics, classes with ivars,
// pattern matching, generators, async, macros, closures, do/catch/finally, labelled loops).
var c12Templates = []string{
	`def pick(a: Int | String | nil): Int
  if a <: Int
    b := a + 1
    return b * 2
  elsif a <: String
    n := a.length
    return n
  end
  0
end
println pick(3).inspect
println pick("abc").inspect
println pick(nil).inspect
`,
	`def first_or(xs: ArrayList[Int], d: Int): Int
  var r: Int? = nil
  for x in xs
    r = x
    break
  end
  if r
    s := r + 1
    return s - 1
  end
  d
end
println first_or([4, 5], 9).inspect
println first_or([], 9).inspect
`,
	`class Box[T]
  var @v: T
  var @n: Int
  init(@v, @n = 0); end
  def get: T
    @n += 1
    @v
  end
  def count: Int then @n
  def set(v: T): T
    old := @v
    @v = v
    old
  end
end
b := Box::[Int](3)
x := b.get
y := b.set(x + 4)
println y.inspect
println b.get.inspect
println b.count.inspect
`,
	`class Counter
  var @hits: Int
  var @name: String
  init(@name)
    @hits = 0
  end
  def hit(by: Int = 1): Int
    step := by * 2
    @hits += step
    @hits
  end
  def label: String
    prefix := "c:"
    prefix + @name
  end
end
c := Counter("a")
c.hit
k := c.hit(3)
println k.inspect
println c.label
`,
	`def classify(v: Int | String | Float | nil): String
  switch v
  case Int() as i
    d := i * 2
    "int #{d}"
  case String() as s
    u := s + "!"
    u
  case nil
    "nil"
  else
    "other"
  end
end
println classify(2)
println classify("x")
println classify(nil)
println classify(1.5)
`,
	`def shape(v: ArrayList[Int]): Int
  switch v
  case [a, b]
    t := a + b
    t
  case [a, *rest]
    w := a * 100
    w + rest.length
  case []
    -1
  else
    0
  end
end
println shape([1, 2]).inspect
println shape([3, 4, 5]).inspect
println shape([]).inspect
`,
	`def *countdown(n: Int): Int
  i := n
  while i > 0
    step := i
    yield step
    i -= 1
  end
  0
end
total := 0
for v in countdown(3)
  w := v * 2
  total += w
  println v.inspect
end
println total.inspect
`,
	`async def double(a: Int): Int
  t := a * 2
  t
end
async def sum2(a: Int, b: Int): Int
  x := await double(a)
  y := await double(b)
  x + y
end
p := sum2(2, 3)
r := await p
println r.inspect
`,
	`macro twice(e: ExpressionNode)
  quote
    !{e}
    !{e}
  end
end
macro add_tmp(e: ExpressionNode)
  quote
    tmp := 5
    tmp + !{unhygienic(e)}
  end
end
def run(a: Int): Int
  tmp := a + 10
  r := add_tmp!(tmp + 1)
  r
end
twice!(println("x"))
println run(1).inspect
`,
	`def apply(f: |x: Int|: Int, v: Int): Int
  r := f(v)
  r + 1
end
def make(k: Int): |x: Int|: Int
  base := k * 10
  |x: Int|: Int -> x + base
end
g := make(2)
h := |x: Int|: Int -> do
  m := x * 3
  m - 1
end
println apply(g, 1).inspect
println apply(h, 2).inspect
`,
	`def safe_div(a: Int, b: Int): Int
  do
    q := a / b
    q
  catch ZeroDivisionError() as e
    m := -1
    m
  finally
    z := 0
    println "fin"
  end
end
println safe_div(6, 3).inspect
println safe_div(1, 0).inspect
`,
	`def find(xs: ArrayList[Int], t: Int): Int?
  i := 0
  while i < xs.length
    cur := xs[i]
    return i if cur == t
    i += 1
  end
  nil
end
r := find([5, 6, 7], 6)
if r
  println((r + 10).inspect)
else
  println "none"
end
q := find([5], 1) ?? -5
println q.inspect
`,
	`interface Shape
  sig area: Float
end
class Sq
  implement Shape
  var @s: Float
  init(@s); end
  def area: Float
    a := @s * @s
    a
  end
end
class Circle
  implement Shape
  var @r: Float
  init(@r); end
  def area: Float then 3.0 * @r * @r
end
def total(xs: ArrayList[Shape]): Float
  acc := 0.0
  for s in xs
    part := s.area
    acc += part
  end
  acc
end
var shapes: ArrayList[Shape] = [Sq(2.0), Circle(1.0)]
println total(shapes).inspect
`,
	`def id[T](v: T): T
  w := v
  w
end
def pair_first[A, B](a: A, b: B): A
  keep := a
  keep
end
n := id(3)
s := id("s")
println((n + 1).inspect)
println s + "t"
println pair_first(1, "x").inspect
`,
	`def acc(xs: ArrayList[Int]): Int
  sum := 0
  add := |v: Int| -> do
    sum += v
  end
  for x in xs
    add(x)
  end
  sum
end
println acc([1, 2, 3]).inspect
counter := 0
inc := ||: Int -> do
  counter += 1
  counter
end
inc()
inc()
println counter.inspect
`,
	`def depth(v: Int?, w: String?): Int
  return -1 unless v
  a := v + 1
  if w
    l := w.length
    return a + l
  end
  a
end
println depth(nil, nil).inspect
println depth(1, nil).inspect
println depth(1, "ab").inspect
`,
	`module Geo
  def scale(v: Int, k: Int = 2): Int
    r := v * k
    r
  end
  def neg(v: Int): Int
    m := -v
    m
  end
end
println Geo.scale(4).inspect
println Geo.neg(4 -1).inspect
u := 4
println((u -1).inspect)
`,
	`struct P
  x: Int
  y: Int = 3
end
def norm1(p: P): Int
  a := p.x
  b := p.y
  a + b
end
p := P(1)
println norm1(p).inspect
m := { "a" => 1, "b" => 2 }
t := m["a"]
if t
  println((t + 1).inspect)
end
`,
	`def outer(n: Int): Int
  r := 0
  $rows: for i in 1...n
    for j in 1...n
      continue if j == 2
      break[rows] if i == 3
      c := i * j
      r += c
    end
  end
  r
end
println outer(4).inspect
k := 0
until k >= 2
  k += 1
end
println k.inspect
`,
	`typedef N = Int | Float
def h(x: N): String
  if x <: Int
    i := x + 1
    return "i#{i}"
  end
  f := x * 2.0
  "f#{f}"
end
println h(1)
println h(1.5)
val names = ["a", "b"]
for nm in names
  up := nm + nm
  println up
end
`,
}
