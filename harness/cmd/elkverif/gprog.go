package main

// G-prog: a typed mini-language whose every construct has a direct Elk spelling, with
//   * a seeded generator (well-typed and terminating by construction, unique variable names),
//   * a printer to Elk source,
//   * a reference interpreter (by-reference closure capture, fresh cells per loop iteration,
//     structured control flow with catch / finally / defer, short-circuit operators),
//   * delta-minimisation of failing programs and a shape signature for root-cause naming.
// All data values are Ints; conditions are Bools built from comparisons.

import (
	"fmt"
	"math/rand/v2"
	"strings"
)

// ---- AST -------------------------------------------------------------------------------------

type gExpr interface{ isExpr() }
type gCond interface{ isCond() }
type gStmt interface{ isStmt() }

type (
	eLit struct{ v int64 }
	eVar struct{ name string }
	eBin struct {
		op   string
		l, r gExpr
	}
	eCallFn struct {
		fn   string
		args []gExpr
	}
	eCallClo struct {
		name string
		args []gExpr
	}
	eMark struct { // mk(k, e): prints "m<k>=<e>", returns e
		k int
		e gExpr
	}
	eCoalesce struct { // mb(k, v) ?? alt ; mb prints "y<k>", returns nil when v is odd
		k      int
		v, alt gExpr
	}
)

func (eLit) isExpr()      {}
func (eVar) isExpr()      {}
func (eBin) isExpr()      {}
func (eCallFn) isExpr()   {}
func (eCallClo) isExpr()  {}
func (eMark) isExpr()     {}
func (eCoalesce) isExpr() {}

type (
	cCmp struct {
		op   string
		l, r gExpr
	}
	cAnd struct{ l, r gCond }
	cOr  struct{ l, r gCond }
	cNot struct{ c gCond }
)

func (cCmp) isCond() {}
func (cAnd) isCond() {}
func (cOr) isCond()  {}
func (cNot) isCond() {}

type gCatch struct {
	pat  int64 // literal to match, or -1: any Int (bound to `bind`)
	bind string
	body []gStmt
}

type (
	sLet struct {
		name string
		e    gExpr
	}
	sAssign struct {
		name string
		e    gExpr
	}
	sTrace struct {
		id int
		e  gExpr
	}
	sIf struct {
		c         gCond
		then, els []gStmt
	}
	sWhile struct { // ctr := 0 (declared before); while ctr < n && c { ctr += 1; body }
		label string
		ctr   string
		n     int64
		c     gCond
		body  []gStmt
	}
	sFor struct {
		label  string
		v      string
		lo, hi int64
		body   []gStmt
	}
	sLoop struct { // loop { ctr += 1; break if ctr > n; body }
		label string
		ctr   string
		n     int64
		body  []gStmt
	}
	sBreak    struct{ label string }
	sContinue struct{ label string }
	sReturn   struct{ e gExpr }
	sThrow    struct{ v int64 }
	sTry      struct {
		body    []gStmt
		catches []gCatch
		finally []gStmt
	}
	sDefer   struct{ id int } // defer println("d<id>")
	sClosure struct {
		name   string
		params []string
		body   []gStmt
		result gExpr
	}
	sExpr struct{ e gExpr }
	// bf(k, v) ?? mkb(j)   — Bool?-typed ?? ; as a statement (value ignored) or printed
	sBoolCoalesce struct {
		k    int
		v    gExpr
		j    int
		used bool
	}
	// name := maker(args)   — a closure returned by a function (escapes its defining frame)
	sLetClo struct {
		name string
		fn   string
		args []gExpr
	}
)

func (sLet) isStmt()          {}
func (sAssign) isStmt()       {}
func (sTrace) isStmt()        {}
func (sIf) isStmt()           {}
func (sWhile) isStmt()        {}
func (sFor) isStmt()          {}
func (sLoop) isStmt()         {}
func (sBreak) isStmt()        {}
func (sContinue) isStmt()     {}
func (sReturn) isStmt()       {}
func (sThrow) isStmt()        {}
func (sTry) isStmt()          {}
func (sDefer) isStmt()        {}
func (sClosure) isStmt()      {}
func (sExpr) isStmt()         {}
func (sBoolCoalesce) isStmt() {}
func (sLetClo) isStmt()       {}

type gFn struct {
	name   string
	params []string
	body   []gStmt
	result gExpr
	retClo *sClosure // maker: the function returns this closure literal instead of an Int
}

type gProg struct {
	fns  []*gFn
	main []gStmt
}

// ---- printer ---------------------------------------------------------------------------------

const gPrelude = `def mk(k: Int, v: Int): Int
  println "m#{k}=#{v}"
  v
end
def mb(k: Int, v: Int): Int?
  println "y#{k}"
  return nil if v % 2 != 0
  v
end
def bf(k: Int, v: Int): Bool?
  println "f#{k}"
  r := v % 3
  return nil if r == 0
  return false if r == 1 || r == -1
  true
end
def mkb(k: Int): Bool
  println "g#{k}"
  true
end
`

type gPrinter struct {
	sb  strings.Builder
	ind int
}

func (p *gPrinter) line(f string, a ...any) {
	p.sb.WriteString(strings.Repeat("  ", p.ind))
	fmt.Fprintf(&p.sb, f, a...)
	p.sb.WriteByte('\n')
}

func exprSrc(e gExpr) string {
	switch x := e.(type) {
	case eLit:
		if x.v < 0 {
			return fmt.Sprintf("(%d)", x.v)
		}
		return fmt.Sprint(x.v)
	case eVar:
		return x.name
	case eBin:
		return "(" + exprSrc(x.l) + " " + x.op + " " + exprSrc(x.r) + ")"
	case eCallFn:
		return x.fn + "(" + argsSrc(x.args) + ")"
	case eCallClo:
		return x.name + "(" + argsSrc(x.args) + ")"
	case eMark:
		return fmt.Sprintf("mk(%d, %s)", x.k, exprSrc(x.e))
	case eCoalesce:
		return fmt.Sprintf("(mb(%d, %s) ?? %s)", x.k, exprSrc(x.v), exprSrc(x.alt))
	}
	panic("expr")
}

func argsSrc(as []gExpr) string {
	parts := make([]string, len(as))
	for i, a := range as {
		parts[i] = exprSrc(a)
	}
	return strings.Join(parts, ", ")
}

func condSrc(c gCond) string {
	switch x := c.(type) {
	case cCmp:
		return "(" + exprSrc(x.l) + " " + x.op + " " + exprSrc(x.r) + ")"
	case cAnd:
		return "(" + condSrc(x.l) + " && " + condSrc(x.r) + ")"
	case cOr:
		return "(" + condSrc(x.l) + " || " + condSrc(x.r) + ")"
	case cNot:
		return "(!" + condSrc(x.c) + ")"
	}
	panic("cond")
}

func labelPrefix(l string) string {
	if l == "" {
		return ""
	}
	return "$" + l + ": "
}

func labelSuffix(l string) string {
	if l == "" {
		return ""
	}
	return "[" + l + "]"
}

func (p *gPrinter) stmts(ss []gStmt) {
	for _, s := range ss {
		p.stmt(s)
	}
}

func (p *gPrinter) stmt(s gStmt) {
	switch x := s.(type) {
	case sLet:
		p.line("%s := %s", x.name, exprSrc(x.e))
	case sAssign:
		p.line("%s = %s", x.name, exprSrc(x.e))
	case sTrace:
		p.line("println \"t%d #{%s}\"", x.id, exprSrc(x.e))
	case sIf:
		p.line("if %s", condSrc(x.c))
		p.ind++
		p.stmts(x.then)
		p.ind--
		if len(x.els) > 0 {
			p.line("else")
			p.ind++
			p.stmts(x.els)
			p.ind--
		}
		p.line("end")
	case sWhile:
		p.line("%swhile (%s < %d) && %s", labelPrefix(x.label), x.ctr, x.n, condSrc(x.c))
		p.ind++
		p.line("%s += 1", x.ctr)
		p.stmts(x.body)
		p.ind--
		p.line("end")
	case sFor:
		p.line("%sfor %s in %d...%d", labelPrefix(x.label), x.v, x.lo, x.hi)
		p.ind++
		p.stmts(x.body)
		p.ind--
		p.line("end")
	case sLoop:
		p.line("%sloop", labelPrefix(x.label))
		p.ind++
		p.line("%s += 1", x.ctr)
		p.line("break if %s > %d", x.ctr, x.n)
		p.stmts(x.body)
		p.ind--
		p.line("end")
	case sBreak:
		p.line("break%s", labelSuffix(x.label))
	case sContinue:
		p.line("continue%s", labelSuffix(x.label))
	case sReturn:
		p.line("return %s", exprSrc(x.e))
	case sThrow:
		p.line("throw unchecked %d", x.v)
	case sTry:
		p.line("do")
		p.ind++
		p.stmts(x.body)
		p.ind--
		for _, c := range x.catches {
			if c.pat >= 0 {
				p.line("catch %d", c.pat)
			} else {
				p.line("catch Int() as %s", c.bind)
			}
			p.ind++
			p.stmts(c.body)
			p.ind--
		}
		if x.finally != nil {
			p.line("finally")
			p.ind++
			p.stmts(x.finally)
			p.ind--
		}
		p.line("end")
	case sDefer:
		p.line("defer println(\"d%d\")", x.id)
	case sClosure:
		ps := make([]string, len(x.params))
		for i, n := range x.params {
			ps[i] = n + ": Int"
		}
		p.line("%s := |%s|: Int -> do", x.name, strings.Join(ps, ", "))
		p.ind++
		p.stmts(x.body)
		if !endsAbruptly(x.body) {
			p.line("%s", exprSrc(x.result))
		}
		p.ind--
		p.line("end")
	case sExpr:
		p.line("%s", exprSrc(x.e))
	case sBoolCoalesce:
		if x.used {
			p.line("println \"b%d #{bf(%d, %s) ?? mkb(%d)}\"", x.k, x.k, exprSrc(x.v), x.j)
		} else {
			p.line("bf(%d, %s) ?? mkb(%d)", x.k, exprSrc(x.v), x.j)
		}
	case sLetClo:
		p.line("%s := %s(%s)", x.name, x.fn, argsSrc(x.args))
	default:
		panic("stmt")
	}
}

func endsAbruptly(ss []gStmt) bool {
	if len(ss) == 0 {
		return false
	}
	switch ss[len(ss)-1].(type) {
	case sReturn, sThrow, sBreak, sContinue:
		return true
	}
	return false
}

func (g *gProg) source() string {
	p := &gPrinter{}
	p.sb.WriteString(gPrelude)
	for _, f := range g.fns {
		ps := make([]string, len(f.params))
		for i, n := range f.params {
			ps[i] = n + ": Int"
		}
		if f.retClo != nil {
			cps := make([]string, len(f.retClo.params))
			cts := make([]string, len(f.retClo.params))
			for i, n := range f.retClo.params {
				cps[i] = n + ": Int"
				cts[i] = fmt.Sprintf("x%d: Int", i)
			}
			p.line("def %s(%s): |%s|: Int", f.name, strings.Join(ps, ", "), strings.Join(cts, ", "))
			p.ind++
			p.stmts(f.body)
			p.line("|%s|: Int -> do", strings.Join(cps, ", "))
			p.ind++
			p.stmts(f.retClo.body)
			p.line("%s", exprSrc(f.retClo.result))
			p.ind--
			p.line("end")
			p.ind--
			p.line("end")
			continue
		}
		p.line("def %s(%s): Int", f.name, strings.Join(ps, ", "))
		p.ind++
		p.stmts(f.body)
		if !endsAbruptly(f.body) {
			p.line("%s", exprSrc(f.result))
		}
		p.ind--
		p.line("end")
	}
	p.stmts(g.main)
	return p.sb.String()
}

// ---- reference interpreter -------------------------------------------------------------------

type gCell struct{ v any } // int64 or *gClosure

type gClosure struct {
	def *sClosure
	env *gEnv
}

type gEnv struct {
	vars   map[string]*gCell
	parent *gEnv
}

func newEnv(parent *gEnv) *gEnv { return &gEnv{vars: map[string]*gCell{}, parent: parent} }

func (e *gEnv) lookup(n string) *gCell {
	for s := e; s != nil; s = s.parent {
		if c, ok := s.vars[n]; ok {
			return c
		}
	}
	panic("reference interpreter: undefined variable " + n)
}

type gSignal int

const (
	sigNone gSignal = iota
	sigBreak
	sigContinue
	sigReturn
	sigThrow
)

type gCtl struct {
	sig   gSignal
	label string
	val   int64
}

type gInterp struct {
	prog   *gProg
	out    strings.Builder
	steps  int
	defers [][]int // per function activation
	fuel   bool    // exhausted
	big    bool    // value left the safe range
	feats  map[string]bool
}

func (in *gInterp) feat(f string) {
	if in.feats == nil {
		in.feats = map[string]bool{}
	}
	in.feats[f] = true
}

const gMaxSteps = 200000

func (in *gInterp) tick() bool {
	in.steps++
	if in.steps > gMaxSteps {
		in.fuel = true
		return false
	}
	return true
}

func (in *gInterp) chk(v int64) int64 {
	if v > 1e15 || v < -1e15 {
		in.big = true
	}
	return v
}

// eval returns (value, thrown?, thrown value)
func (in *gInterp) eval(e gExpr, env *gEnv) (int64, *gCtl) {
	if !in.tick() {
		return 0, &gCtl{sig: sigThrow, val: -999}
	}
	switch x := e.(type) {
	case eLit:
		return x.v, nil
	case eVar:
		return env.lookup(x.name).v.(int64), nil
	case eBin:
		l, c := in.eval(x.l, env)
		if c != nil {
			return 0, c
		}
		r, c := in.eval(x.r, env)
		if c != nil {
			return 0, c
		}
		switch x.op {
		case "+":
			return in.chk(l + r), nil
		case "-":
			return in.chk(l - r), nil
		case "*":
			return in.chk(l * r), nil
		}
	case eMark:
		v, c := in.eval(x.e, env)
		if c != nil {
			return 0, c
		}
		fmt.Fprintf(&in.out, "m%d=%d\n", x.k, v)
		return v, nil
	case eCoalesce:
		v, c := in.eval(x.v, env)
		if c != nil {
			return 0, c
		}
		fmt.Fprintf(&in.out, "y%d\n", x.k)
		if v%2 != 0 {
			return in.eval(x.alt, env)
		}
		return v, nil
	case eCallFn:
		args := make([]int64, len(x.args))
		for i, a := range x.args {
			v, c := in.eval(a, env)
			if c != nil {
				return 0, c
			}
			args[i] = v
		}
		var fn *gFn
		for _, f := range in.prog.fns {
			if f.name == x.fn {
				fn = f
			}
		}
		fenv := newEnv(nil)
		for i, p := range fn.params {
			fenv.vars[p] = &gCell{args[i]}
		}
		in.defers = append(in.defers, nil)
		ctl := in.block(fn.body, fenv, false)
		var ret int64
		if ctl == nil {
			ret, ctl = in.eval(fn.result, fenv)
		} else if ctl.sig == sigReturn {
			ret, ctl = ctl.val, nil
		}
		// deferred statements run on every exit, last registered first
		ds := in.defers[len(in.defers)-1]
		in.defers = in.defers[:len(in.defers)-1]
		for i := len(ds) - 1; i >= 0; i-- {
			fmt.Fprintf(&in.out, "d%d\n", ds[i])
		}
		if ctl != nil {
			return 0, ctl
		}
		return ret, nil
	case eCallClo:
		cl := env.lookup(x.name).v.(*gClosure)
		args := make([]int64, len(x.args))
		for i, a := range x.args {
			v, c := in.eval(a, env)
			if c != nil {
				return 0, c
			}
			args[i] = v
		}
		cenv := newEnv(cl.env)
		for i, p := range cl.def.params {
			cenv.vars[p] = &gCell{args[i]}
		}
		ctl := in.block(cl.def.body, cenv, false)
		if ctl == nil {
			return in.eval(cl.def.result, cenv)
		}
		if ctl.sig == sigReturn {
			return ctl.val, nil
		}
		return 0, ctl
	}
	panic("eval")
}

func (in *gInterp) cond(c gCond, env *gEnv) (bool, *gCtl) {
	switch x := c.(type) {
	case cCmp:
		l, ctl := in.eval(x.l, env)
		if ctl != nil {
			return false, ctl
		}
		r, ctl := in.eval(x.r, env)
		if ctl != nil {
			return false, ctl
		}
		switch x.op {
		case "<":
			return l < r, nil
		case "<=":
			return l <= r, nil
		case ">":
			return l > r, nil
		case ">=":
			return l >= r, nil
		case "==":
			return l == r, nil
		case "!=":
			return l != r, nil
		}
	case cAnd:
		l, ctl := in.cond(x.l, env)
		if ctl != nil || !l {
			return false, ctl
		}
		return in.cond(x.r, env)
	case cOr:
		l, ctl := in.cond(x.l, env)
		if ctl != nil || l {
			return l, ctl
		}
		return in.cond(x.r, env)
	case cNot:
		v, ctl := in.cond(x.c, env)
		return !v, ctl
	}
	panic("cond")
}

// block executes statements in a fresh scope when scoped is true.
func (in *gInterp) block(ss []gStmt, env *gEnv, scoped bool) *gCtl {
	if scoped {
		env = newEnv(env)
	}
	for _, s := range ss {
		if ctl := in.exec(s, env); ctl != nil {
			return ctl
		}
	}
	return nil
}

func (in *gInterp) exec(s gStmt, env *gEnv) *gCtl {
	if !in.tick() {
		return &gCtl{sig: sigThrow, val: -999}
	}
	switch x := s.(type) {
	case sLet:
		v, c := in.eval(x.e, env)
		if c != nil {
			return c
		}
		env.vars[x.name] = &gCell{v}
	case sAssign:
		v, c := in.eval(x.e, env)
		if c != nil {
			return c
		}
		env.lookup(x.name).v = v
	case sTrace:
		v, c := in.eval(x.e, env)
		if c != nil {
			return c
		}
		fmt.Fprintf(&in.out, "t%d %d\n", x.id, v)
	case sExpr:
		_, c := in.eval(x.e, env)
		return c
	case sIf:
		b, c := in.cond(x.c, env)
		if c != nil {
			return c
		}
		if b {
			return in.block(x.then, env, true)
		}
		return in.block(x.els, env, true)
	case sWhile:
		for {
			ctr := env.lookup(x.ctr)
			if ctr.v.(int64) >= x.n {
				return nil
			}
			b, c := in.cond(x.c, env)
			if c != nil {
				return c
			}
			if !b {
				return nil
			}
			it := newEnv(env)
			ctr.v = ctr.v.(int64) + 1
			if ctl := in.block(x.body, it, false); ctl != nil {
				if done, out := loopCtl(ctl, x.label); done {
					return out
				}
			}
		}
	case sFor:
		for i := x.lo; i <= x.hi; i++ {
			it := newEnv(env)
			it.vars[x.v] = &gCell{i}
			if ctl := in.block(x.body, it, false); ctl != nil {
				if done, out := loopCtl(ctl, x.label); done {
					return out
				}
			}
		}
	case sLoop:
		for {
			if !in.tick() {
				return &gCtl{sig: sigThrow, val: -999}
			}
			ctr := env.lookup(x.ctr)
			ctr.v = ctr.v.(int64) + 1
			if ctr.v.(int64) > x.n {
				return nil
			}
			it := newEnv(env)
			if ctl := in.block(x.body, it, false); ctl != nil {
				if done, out := loopCtl(ctl, x.label); done {
					return out
				}
			}
		}
	case sBreak:
		return &gCtl{sig: sigBreak, label: x.label}
	case sContinue:
		return &gCtl{sig: sigContinue, label: x.label}
	case sReturn:
		v, c := in.eval(x.e, env)
		if c != nil {
			return c
		}
		return &gCtl{sig: sigReturn, val: v}
	case sThrow:
		return &gCtl{sig: sigThrow, val: x.v}
	case sDefer:
		in.defers[len(in.defers)-1] = append(in.defers[len(in.defers)-1], x.id)
	case sClosure:
		def := x
		env.vars[x.name] = &gCell{&gClosure{def: &def, env: env}}
	case sBoolCoalesce:
		v, c := in.eval(x.v, env)
		if c != nil {
			return c
		}
		fmt.Fprintf(&in.out, "f%d\n", x.k)
		res := "true"
		switch v % 3 {
		case 0:
			fmt.Fprintf(&in.out, "g%d\n", x.j)
		case 1, -1:
			res = "false"
		}
		if x.used {
			fmt.Fprintf(&in.out, "b%d %s\n", x.k, res)
		}
	case sLetClo:
		args := make([]int64, len(x.args))
		for i, a := range x.args {
			v, c := in.eval(a, env)
			if c != nil {
				return c
			}
			args[i] = v
		}
		var fn *gFn
		for _, f := range in.prog.fns {
			if f.name == x.fn {
				fn = f
			}
		}
		fenv := newEnv(nil)
		for i, p := range fn.params {
			fenv.vars[p] = &gCell{args[i]}
		}
		in.defers = append(in.defers, nil)
		ctl := in.block(fn.body, fenv, false)
		in.defers = in.defers[:len(in.defers)-1]
		if ctl != nil {
			return ctl
		}
		env.vars[x.name] = &gCell{&gClosure{def: fn.retClo, env: fenv}}
	case sTry:
		ctl := in.block(x.body, env, true)
		if ctl != nil && ctl.sig == sigThrow && ctl.val != -999 {
			for _, ct := range x.catches {
				if ct.pat >= 0 && ct.pat != ctl.val {
					continue
				}
				cenv := newEnv(env)
				if ct.pat < 0 {
					cenv.vars[ct.bind] = &gCell{ctl.val}
				}
				ctl = in.block(ct.body, cenv, false)
				if ctl != nil && x.finally != nil {
					in.feat("abrupt-exit-from-catch-body-with-finally")
				}
				break
			}
		}
		if x.finally != nil {
			// the finally body runs exactly once on every exit path; an abrupt exit of the finally
			// body itself replaces the pending one
			if fctl := in.block(x.finally, env, true); fctl != nil {
				return fctl
			}
		}
		return ctl
	default:
		panic("exec")
	}
	return nil
}

// loopCtl decides what a control signal means for the loop with the given label.
// done=false: continue with the next iteration.
func loopCtl(ctl *gCtl, label string) (done bool, out *gCtl) {
	switch ctl.sig {
	case sigBreak:
		if ctl.label == "" || ctl.label == label {
			return true, nil
		}
		return true, ctl
	case sigContinue:
		if ctl.label == "" || ctl.label == label {
			return false, nil
		}
		return true, ctl
	}
	return true, ctl
}

// run interprets the program; ok=false when the program is unsuitable (fuel, value range).
func (g *gProg) run() (out string, ok bool) {
	out, ok, _ = g.runFeatures()
	return
}

// runFeatures also reports dynamic features of the reference execution (used to attribute
// divergences to known root causes).
func (g *gProg) runFeatures() (out string, ok bool, feats map[string]bool) {
	in := &gInterp{prog: g}
	defer func() { feats = in.feats }()
	in.defers = append(in.defers, nil)
	defer func() {
		if r := recover(); r != nil {
			ok = false
			out = fmt.Sprint(r)
		}
	}()
	ctl := in.block(g.main, newEnv(nil), false)
	if ctl != nil && ctl.sig == sigThrow {
		fmt.Fprintf(&in.out, "UNCAUGHT %d\n", ctl.val)
	}
	return in.out.String(), !in.fuel && !in.big, in.feats
}

// ---- generator -------------------------------------------------------------------------------

type gKnobs struct {
	closures   bool // closure family (C13)
	control    bool // loops / labelled break-continue / try / finally / defer (C14)
	fns        int  // number of top-level functions
	depth      int
	stmtsPer   int
	noTryInFin bool
}

type gGen struct {
	r      *rand.Rand
	k      gKnobs
	next   int
	fns    []*gFn // Int-returning functions (callable from expressions)
	makers []*gFn // closure-returning functions
}

type gScope struct {
	ints     []string // assignable int variables in scope
	consts   []string // readable but not assignable (loop variables are assignable in Elk? keep read-only)
	clos     map[string]int
	loops    []string // labels of enclosing loops ("" for unlabelled), innermost last
	inFn     bool     // return allowed
	inFin    bool     // inside a finally body: no abrupt exits generated
	quiet    bool     // no abrupt exits and no calls (avoid-rule for catch bodies of a try with finally)
	noClo    bool     // no closure literals (avoid-rule for functions that use defer)
	noDefer  bool
	canDefer bool
	depth    int
}

func (s *gScope) child() *gScope {
	c := &gScope{ints: append([]string{}, s.ints...), consts: append([]string{}, s.consts...), clos: map[string]int{}, loops: append([]string{}, s.loops...), inFn: s.inFn, inFin: s.inFin, quiet: s.quiet, noClo: s.noClo, noDefer: s.noDefer, canDefer: s.canDefer, depth: s.depth + 1}
	for k, v := range s.clos {
		c.clos[k] = v
	}
	return c
}

func (g *gGen) fresh(p string) string {
	g.next++
	return fmt.Sprintf("%s%d", p, g.next)
}

func (g *gGen) id() int { g.next++; return g.next }

func (g *gGen) expr(sc *gScope, depth int) gExpr {
	r := g.r
	readable := append(append([]string{}, sc.ints...), sc.consts...)
	if depth <= 0 || r.IntN(3) == 0 {
		if len(readable) > 0 && r.IntN(3) != 0 {
			return eVar{readable[r.IntN(len(readable))]}
		}
		return eLit{int64(r.IntN(7))}
	}
	switch x := r.IntN(12); {
	case x < 5:
		op := []string{"+", "-", "+", "*"}[r.IntN(4)]
		rt := g.expr(sc, depth-1)
		if op == "*" {
			rt = eLit{int64(r.IntN(4))}
		}
		return eBin{op, g.expr(sc, depth-1), rt}
	case x < 7:
		return eMark{g.id(), g.expr(sc, depth-1)}
	case x < 8:
		return eCoalesce{g.id(), g.expr(sc, depth-1), g.expr(sc, depth-1)}
	case x < 10 && len(g.fns) > 0 && !sc.quiet:
		f := g.fns[r.IntN(len(g.fns))]
		args := make([]gExpr, len(f.params))
		for i := range args {
			args[i] = g.expr(sc, depth-1)
		}
		return eCallFn{f.name, args}
	case len(sc.clos) > 0 && !sc.quiet:
		names := make([]string, 0, len(sc.clos))
		for n := range sc.clos {
			names = append(names, n)
		}
		sortStrings(names)
		n := names[r.IntN(len(names))]
		args := make([]gExpr, sc.clos[n])
		for i := range args {
			args[i] = g.expr(sc, depth-1)
		}
		return eCallClo{n, args}
	}
	return eBin{"+", g.expr(sc, depth-1), eLit{1}}
}

func sortStrings(a []string) {
	for i := 1; i < len(a); i++ {
		for j := i; j > 0 && a[j] < a[j-1]; j-- {
			a[j], a[j-1] = a[j-1], a[j]
		}
	}
}

// guard is a condition the compiler cannot fold (avoid-rule: statically decidable conditions around
// abrupt exits are mis-compiled on the pinned tree, see known findings).
func (g *gGen) guard(sc *gScope) gCond {
	return cCmp{[]string{"<", "<=", ">", ">=", "==", "!="}[g.r.IntN(6)], eMark{g.id(), g.expr(sc, 1)}, g.expr(sc, 1)}
}

// noTail keeps a returned call out of tail position (avoid-rule, see known findings).
func (g *gGen) noTail(e gExpr) gExpr {
	switch e.(type) {
	case eCallFn, eCallClo, eMark, eCoalesce:
		return eBin{"+", e, eLit{0}}
	}
	return e
}

func (g *gGen) cond(sc *gScope, depth int) gCond {
	r := g.r
	if depth <= 0 || r.IntN(2) == 0 {
		return cCmp{[]string{"<", "<=", ">", ">=", "==", "!="}[r.IntN(6)], g.expr(sc, 1), g.expr(sc, 1)}
	}
	switch r.IntN(3) {
	case 0:
		return cAnd{g.cond(sc, depth-1), g.cond(sc, depth-1)}
	case 1:
		return cOr{g.cond(sc, depth-1), g.cond(sc, depth-1)}
	}
	return cNot{g.cond(sc, depth-1)}
}

// stmts generates a statement list; declared names are added to sc (the caller passes a child scope
// for nested blocks).
func (g *gGen) stmts(sc *gScope, n int) []gStmt {
	var out []gStmt
	for i := 0; i < n; i++ {
		out = append(out, g.stmt(sc)...)
		if endsAbruptly(out) {
			break // nothing after an unconditional exit (no unreachable code)
		}
	}
	return out
}

func (g *gGen) stmt(sc *gScope) []gStmt {
	r := g.r
	deep := sc.depth >= g.k.depth
	for {
		switch x := r.IntN(24); {
		case x < 3:
			n := g.fresh("v")
			s := sLet{n, g.expr(sc, 2)}
			sc.ints = append(sc.ints, n)
			return []gStmt{s}
		case x < 6 && len(sc.ints) > 0:
			return []gStmt{sAssign{sc.ints[r.IntN(len(sc.ints))], g.expr(sc, 2)}}
		case x < 9:
			return []gStmt{sTrace{g.id(), g.expr(sc, 2)}}
		case x < 11 && !deep:
			c := sc.child()
			then := g.stmts(c, 1+r.IntN(g.k.stmtsPer))
			var els []gStmt
			if r.IntN(2) == 0 {
				els = g.stmts(sc.child(), 1+r.IntN(2))
			}
			return []gStmt{sIf{g.cond(sc, 2), then, els}}
		case x < 13 && !deep && g.k.control:
			label := ""
			if r.IntN(2) == 0 {
				label = g.fresh("l")
			}
			ctr := g.fresh("w")
			pre := sLet{ctr, eLit{0}}
			switch r.IntN(3) {
			case 0:
				c := sc.child()
				c.loops = append(c.loops, label)
				cond := g.cond(sc, 1)
				return []gStmt{pre, sWhile{label, ctr, int64(1 + r.IntN(3)), cond, g.stmts(c, 1+r.IntN(g.k.stmtsPer))}}
			case 1:
				c := sc.child()
				c.loops = append(c.loops, label)
				v := g.fresh("i")
				c.consts = append(c.consts, v)
				lo := int64(r.IntN(3))
				return []gStmt{sFor{label, v, lo, lo + int64(r.IntN(3)), g.stmts(c, 1+r.IntN(g.k.stmtsPer))}}
			default:
				c := sc.child()
				c.loops = append(c.loops, label)
				return []gStmt{pre, sLoop{label, ctr, int64(1 + r.IntN(3)), g.stmts(c, 1+r.IntN(g.k.stmtsPer))}}
			}
		case x < 15 && len(sc.loops) > 0 && g.k.control && !sc.quiet:
			// guarded break / continue so that the rest of the body stays reachable
			label := sc.loops[r.IntN(len(sc.loops))]
			var s gStmt = sBreak{label}
			if r.IntN(2) == 0 {
				s = sContinue{label}
			}
			if r.IntN(4) == 0 {
				return []gStmt{s}
			}
			return []gStmt{sIf{g.guard(sc), []gStmt{s}, nil}}
		case x < 16 && sc.inFn && !sc.quiet:
			// always guarded: a body never ends with an explicit return statement (avoid-rule)
			return []gStmt{sIf{g.guard(sc), []gStmt{sReturn{g.noTail(g.expr(sc, 2))}}, nil}}
		case x < 17 && g.k.control && !sc.inFin && !sc.quiet:
			s := sThrow{int64(1 + r.IntN(4))}
			if r.IntN(4) == 0 {
				return []gStmt{s}
			}
			return []gStmt{sIf{g.guard(sc), []gStmt{s}, nil}}
		case x < 19 && !deep && g.k.control && !sc.quiet:
			ncatch := r.IntN(3)
			withFinally := ncatch == 0 || r.IntN(2) == 0
			bsc := sc.child()
			if withFinally {
				bsc.inFn = false // avoid-rule: no return out of a do body that has a finally
			}
			body := g.stmts(bsc, 1+r.IntN(g.k.stmtsPer))
			var catches []gCatch
			for k := 0; k < ncatch; k++ {
				c := sc.child()
				c.quiet = c.quiet || withFinally
				ct := gCatch{pat: int64(1 + r.IntN(4))}
				if r.IntN(3) == 0 {
					ct.pat = -1
					ct.bind = g.fresh("e")
					c.consts = append(c.consts, ct.bind)
				}
				ct.body = g.stmts(c, 1+r.IntN(2))
				catches = append(catches, ct)
				if ct.pat < 0 {
					break
				}
			}
			var fin []gStmt
			if withFinally {
				fc := sc.child()
				fc.loops = nil  // no break/continue out of finally
				fc.inFn = false // no return out of finally
				fc.inFin = true
				fc.quiet = true // avoid-rule: nothing that can throw inside a finally body
				fin = g.stmts(fc, 1+r.IntN(2))
				if fin == nil {
					fin = []gStmt{sTrace{g.id(), eLit{0}}}
				}
			}
			return []gStmt{sTry{body, catches, fin}}
		case x < 20 && sc.canDefer && sc.depth <= 1 && g.k.control && !sc.noDefer:
			return []gStmt{sDefer{g.id()}}
		case x < 22 && !deep && g.k.closures && !sc.noClo:
			name := g.fresh("c")
			np := r.IntN(3)
			c := sc.child()
			c.loops = nil
			c.inFn = true
			c.canDefer = false
			params := make([]string, np)
			for i := range params {
				params[i] = g.fresh("p")
				c.ints = append(c.ints, params[i])
			}
			body := g.stmts(c, 1+r.IntN(g.k.stmtsPer))
			res := g.noTail(g.expr(c, 2))
			sc.clos[name] = np
			return []gStmt{sClosure{name, params, body, res}}
		case x < 23 && g.k.control && r.IntN(2) == 0:
			return []gStmt{sBoolCoalesce{g.id(), g.expr(sc, 1), g.id(), r.IntN(2) == 0}}
		case x < 23 && g.k.closures && len(g.makers) > 0 && !sc.quiet:
			f := g.makers[r.IntN(len(g.makers))]
			args := make([]gExpr, len(f.params))
			for i := range args {
				args[i] = g.expr(sc, 1)
			}
			name := g.fresh("h")
			sc.clos[name] = len(f.retClo.params)
			return []gStmt{sLetClo{name, f.name, args}}
		case x < 24:
			e := g.expr(sc, 2)
			if _, isVar := e.(eVar); isVar {
				continue
			}
			if _, isLit := e.(eLit); isLit {
				continue
			}
			return []gStmt{sExpr{e}}
		}
	}
}

func genProg(r *rand.Rand, k gKnobs) *gProg {
	g := &gGen{r: r, k: k}
	for i := 0; i < k.fns; i++ {
		f := &gFn{name: g.fresh("f")}
		np := r.IntN(3)
		sc := &gScope{clos: map[string]int{}, inFn: true, canDefer: k.control, depth: 0}
		if k.closures && r.IntN(2) == 0 {
			sc.noDefer = true
		} else {
			sc.noClo = true
		}
		for j := 0; j < np; j++ {
			p := g.fresh("a")
			f.params = append(f.params, p)
			sc.ints = append(sc.ints, p)
		}
		if k.closures && r.IntN(2) == 0 {
			// maker: locals and inner closures first, then the returned closure capturing them
			sc.noDefer, sc.noClo, sc.inFn = true, false, false
			f.body = g.stmts(sc, 1+r.IntN(k.stmtsPer+1))
			c := sc.child()
			c.loops, c.inFn, c.canDefer = nil, true, false
			rc := &sClosure{name: "<ret>"}
			for j := 0; j < r.IntN(3); j++ {
				p := g.fresh("p")
				rc.params = append(rc.params, p)
				c.ints = append(c.ints, p)
			}
			rc.body = g.stmts(c, 1+r.IntN(k.stmtsPer))
			rc.result = g.noTail(g.expr(c, 2))
			f.retClo = rc
			g.makers = append(g.makers, f)
			continue
		}
		f.body = g.stmts(sc, 1+r.IntN(k.stmtsPer+1))
		f.result = g.noTail(g.expr(sc, 2))
		g.fns = append(g.fns, f) // later functions may call earlier ones
	}
	sc := &gScope{clos: map[string]int{}}
	main := g.stmts(sc, 2+r.IntN(k.stmtsPer+2))
	// everything inside one do/catch so that an uncaught throw is observable as output
	e := g.fresh("e")
	top := sTry{body: main, catches: []gCatch{{pat: -1, bind: e, body: []gStmt{sTrace{g.id(), eVar{e}}}}}}
	return &gProg{fns: append(append([]*gFn{}, g.fns...), g.makers...), main: []gStmt{top}}
}

// ---- shape signature and delta-minimisation ---------------------------------------------------

func shapeOf(ss []gStmt) string {
	var sb strings.Builder
	for _, s := range ss {
		switch x := s.(type) {
		case sLet:
			sb.WriteString("let" + exprShape(x.e) + ";")
		case sAssign:
			sb.WriteString("set" + exprShape(x.e) + ";")
		case sTrace:
			sb.WriteString("tr" + exprShape(x.e) + ";")
		case sExpr:
			sb.WriteString("ex" + exprShape(x.e) + ";")
		case sBoolCoalesce:
			sb.WriteString("boolcoalesce;")
		case sLetClo:
			sb.WriteString("letclo;")
		case sIf:
			sb.WriteString("if{" + shapeOf(x.then) + "}")
			if len(x.els) > 0 {
				sb.WriteString("else{" + shapeOf(x.els) + "}")
			}
		case sWhile:
			sb.WriteString(lbl(x.label) + "while{" + shapeOf(x.body) + "}")
		case sFor:
			sb.WriteString(lbl(x.label) + "for{" + shapeOf(x.body) + "}")
		case sLoop:
			sb.WriteString(lbl(x.label) + "loop{" + shapeOf(x.body) + "}")
		case sBreak:
			sb.WriteString("break" + lbl(x.label) + ";")
		case sContinue:
			sb.WriteString("continue" + lbl(x.label) + ";")
		case sReturn:
			sb.WriteString("return;")
		case sThrow:
			sb.WriteString("throw;")
		case sDefer:
			sb.WriteString("defer;")
		case sClosure:
			sb.WriteString("closure{" + shapeOf(x.body) + "}")
		case sTry:
			sb.WriteString("try{" + shapeOf(x.body) + "}")
			for _, c := range x.catches {
				if c.pat < 0 {
					sb.WriteString("catchany{" + shapeOf(c.body) + "}")
				} else {
					sb.WriteString("catch{" + shapeOf(c.body) + "}")
				}
			}
			if x.finally != nil {
				sb.WriteString("finally{" + shapeOf(x.finally) + "}")
			}
		}
	}
	return sb.String()
}

func lbl(l string) string {
	if l == "" {
		return ""
	}
	return "@"
}

func exprShape(e gExpr) string {
	has := map[string]bool{}
	var walk func(e gExpr)
	walk = func(e gExpr) {
		switch x := e.(type) {
		case eBin:
			walk(x.l)
			walk(x.r)
		case eCallFn:
			has["fn"] = true
			for _, a := range x.args {
				walk(a)
			}
		case eCallClo:
			has["clo"] = true
			for _, a := range x.args {
				walk(a)
			}
		case eMark:
			walk(x.e)
		case eCoalesce:
			has["??"] = true
			walk(x.v)
			walk(x.alt)
		}
	}
	walk(e)
	var ks []string
	for k := range has {
		ks = append(ks, k)
	}
	sortStrings(ks)
	if len(ks) == 0 {
		return ""
	}
	return "(" + strings.Join(ks, ",") + ")"
}

// staticFeatures reports program-level features used for root-cause attribution.
func (g *gProg) staticFeatures() map[string]bool {
	f := map[string]bool{}
	for _, fn := range g.fns {
		sh := shapeOf(fn.body)
		if strings.Contains(sh, "defer;") && strings.Contains(sh, "closure{") {
			f["defer-and-closure-in-one-function"] = true
		}
	}
	return f
}

func (g *gProg) shape() string {
	var sb strings.Builder
	for _, f := range g.fns {
		if f.retClo != nil {
			sb.WriteString("maker{" + shapeOf(f.body) + "ret{" + shapeOf(f.retClo.body) + "}}")
			continue
		}
		sb.WriteString("fn{" + shapeOf(f.body) + "}")
	}
	sb.WriteString("main{" + shapeOf(g.main) + "}")
	return sb.String()
}

// minimise greedily deletes statements (and unused functions) while `fails` stays true.
func (g *gProg) minimise(fails func(*gProg) bool, budget int) *gProg {
	cur := g
	for changed := true; changed && budget > 0; {
		changed = false
		// candidate edits: delete the i-th statement in pre-order
		total := countStmts(cur)
		for i := 0; i < total && budget > 0; i++ {
			cand := deleteNth(cur, i)
			if cand == nil {
				continue
			}
			budget--
			if fails(cand) {
				cur = cand
				changed = true
				break
			}
		}
		if !changed {
			for i := range cur.fns {
				cand := &gProg{main: cur.main}
				cand.fns = append(append([]*gFn{}, cur.fns[:i]...), cur.fns[i+1:]...)
				budget--
				if budget > 0 && fails(cand) {
					cur = cand
					changed = true
					break
				}
			}
		}
	}
	return cur
}

func countStmts(g *gProg) int {
	n := 0
	for _, f := range g.fns {
		n += countList(f.body)
	}
	return n + countList(g.main)
}

func countList(ss []gStmt) int {
	n := 0
	for _, s := range ss {
		n++
		switch x := s.(type) {
		case sIf:
			n += countList(x.then) + countList(x.els)
		case sWhile:
			n += countList(x.body)
		case sFor:
			n += countList(x.body)
		case sLoop:
			n += countList(x.body)
		case sClosure:
			n += countList(x.body)
		case sTry:
			n += countList(x.body) + countList(x.finally)
			for _, c := range x.catches {
				n += countList(c.body)
			}
		}
	}
	return n
}

// deleteNth returns a copy of the program without the n-th statement (pre-order), or with a
// compound statement replaced by its body when that is the n-th statement's "unwrap" variant.
func deleteNth(g *gProg, n int) *gProg {
	idx := 0
	var del func(ss []gStmt) ([]gStmt, bool)
	del = func(ss []gStmt) ([]gStmt, bool) {
		for i, s := range ss {
			if idx == n {
				idx++
				out := append(append([]gStmt{}, ss[:i]...), ss[i+1:]...)
				return out, true
			}
			idx++
			var done bool
			switch x := s.(type) {
			case sIf:
				var a, b []gStmt
				if a, done = del(x.then); done {
					x.then = a
				} else if b, done = del(x.els); done {
					x.els = b
				}
				if done {
					out := append([]gStmt{}, ss...)
					out[i] = x
					return out, true
				}
			case sWhile:
				if b, d := del(x.body); d {
					x.body = b
					out := append([]gStmt{}, ss...)
					out[i] = x
					return out, true
				}
			case sFor:
				if b, d := del(x.body); d {
					x.body = b
					out := append([]gStmt{}, ss...)
					out[i] = x
					return out, true
				}
			case sLoop:
				if b, d := del(x.body); d {
					x.body = b
					out := append([]gStmt{}, ss...)
					out[i] = x
					return out, true
				}
			case sClosure:
				if b, d := del(x.body); d {
					x.body = b
					out := append([]gStmt{}, ss...)
					out[i] = x
					return out, true
				}
			case sTry:
				if b, d := del(x.body); d {
					x.body = b
					done = true
				} else if x.finally != nil {
					if b, d := del(x.finally); d {
						if len(b) == 0 {
							b = []gStmt{}
						}
						x.finally = b
						done = true
					}
				}
				if !done {
					cs := append([]gCatch{}, x.catches...)
					for ci := range cs {
						if b, d := del(cs[ci].body); d {
							cs[ci].body = b
							x.catches = cs
							done = true
							break
						}
					}
				}
				if done {
					out := append([]gStmt{}, ss...)
					out[i] = x
					return out, true
				}
			}
		}
		return ss, false
	}
	out := &gProg{}
	found := false
	for _, f := range g.fns {
		nf := *f
		if !found {
			if b, d := del(f.body); d {
				nf.body = b
				found = true
			}
		}
		out.fns = append(out.fns, &nf)
	}
	out.main = g.main
	if !found {
		if b, d := del(g.main); d {
			out.main = b
			found = true
		}
	}
	if !found {
		return nil
	}
	return out
}
