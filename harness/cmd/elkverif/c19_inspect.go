package main

// C19 — inspect output is Elk source that evaluates back to an equal value; integer literals in
// every base and String#to_int denote exactly the written value.

import (
	"fmt"
	"math"
	"math/big"
	"math/rand/v2"
	"strings"
	"unicode/utf8"

	"github.com/elk-language/elk/bitfield"
	"github.com/elk-language/elk/value"
	"github.com/elk-language/elk/vm"
)

type c19Val struct {
	kind string
	v    value.Value
}

func genScalar(r *rand.Rand) c19Val {
	switch r.IntN(16) {
	case 0: // strings over every byte class
		n := r.IntN(6)
		b := make([]byte, 0, n*4)
		for i := 0; i < n; i++ {
			switch r.IntN(6) {
			case 0:
				b = append(b, byte(r.IntN(256)))
			case 1:
				b = append(b, byte(r.IntN(32)))
			case 2:
				b = utf8.AppendRune(b, rune(0x80+r.IntN(0x80)))
			case 3:
				b = utf8.AppendRune(b, []rune{0xFFFD, 0xFFFE, 0x2028, 0x200D, 0x1F600, 0xE000, 0x10FFFF, '"', '\\', '$', '#', '{', '`', '\''}[r.IntN(14)])
			default:
				b = append(b, strAtoms[r.IntN(len(strAtoms))]...)
			}
		}
		kind := "string"
		if !utf8.Valid(b) {
			kind = "string-invalid-utf8"
		}
		return c19Val{kind, value.String(b).ToValue()}
	case 1: // chars
		var ch rune
		switch r.IntN(5) {
		case 0:
			ch = rune(r.IntN(0x100))
		case 1:
			ch = []rune{'`', '\\', '\n', 0, 0x7f, 0x80, 0x85, 0xa0, 0xad, 0xFFFD, 0x2028, 0x1F600, 0x10FFFF, 0xE000}[r.IntN(14)]
		default:
			ch = rune(r.IntN(0x3000))
			if ch >= 0xD800 && ch <= 0xDFFF {
				ch = 'x'
			}
		}
		return c19Val{"char", value.Char(ch).ToValue()}
	case 2: // symbols
		names := []string{"a", "foo_bar", "Foo", "a b", "", "+", "[]=", "1a", "é", "a\nb", "\"q\"", "a\\b", "nil", "if", "@iv", "$d", "a:b", "with space", "\x01"}
		return c19Val{"symbol", value.ToSymbol(names[r.IntN(len(names))]).ToValue()}
	case 3:
		return c19Val{"float", value.Float(randFloat(r)).ToValue()}
	case 4:
		return c19Val{"float64", value.Float64(randFloat(r)).ToValue()}
	case 5:
		return c19Val{"float32", value.Float32(float32(randFloat(r))).ToValue()}
	case 6:
		f := randFloat(r)
		if math.IsNaN(f) {
			f = 1.5
		}
		return c19Val{"bigfloat", value.Ref(value.NewBigFloat(f))}
	case 7:
		return c19Val{"int", toElkInt(randBig(r))}
	case 8:
		t := &fwTypes[r.IntN(len(fwTypes))]
		return c19Val{"sized-int", t.mk(t.rand(r))}
	case 9:
		return c19Val{"nil-bool", []value.Value{value.Nil, value.True.ToValue(), value.False.ToValue()}[r.IntN(3)]}
	case 10: // regex
		srcs := []string{"a", "a/b", "\\d+", "[a-z]", "a b", "(?i:x)", "\\/", "é", "^$", "a|b", "\\n", "x{2,3}"}
		re, err := value.CompileRegex(srcs[r.IntN(len(srcs))], bitfield.BitField8FromInt(uint8(r.IntN(64))))
		if err != nil {
			return c19Val{"int", value.SmallInt(1).ToValue()}
		}
		return c19Val{"regex", value.Ref(re)}
	default:
		return c19Val{"int", toElkInt(intPool[r.IntN(len(intPool))])}
	}
}

func genRangeVal(r *rand.Rand) c19Val {
	mk := func() value.Value {
		switch r.IntN(3) {
		case 0:
			return value.Float(float64(r.IntN(100)) / 4).ToValue()
		case 1:
			return value.Char(rune('a' + r.IntN(26))).ToValue()
		}
		return toElkInt(big.NewInt(int64(r.IntN(2000) - 1000)))
	}
	a, b := mk(), mk()
	if a.Class() != b.Class() {
		b = a
	}
	switch r.IntN(8) {
	case 0:
		return c19Val{"range", value.Ref(value.NewClosedRange(a, b))}
	case 1:
		return c19Val{"range", value.Ref(value.NewOpenRange(a, b))}
	case 2:
		return c19Val{"range", value.Ref(value.NewLeftOpenRange(a, b))}
	case 3:
		return c19Val{"range", value.Ref(value.NewRightOpenRange(a, b))}
	case 4:
		return c19Val{"range", value.Ref(value.NewBeginlessClosedRange(b))}
	case 5:
		return c19Val{"range", value.Ref(value.NewBeginlessOpenRange(b))}
	case 6:
		return c19Val{"range", value.Ref(value.NewEndlessClosedRange(a))}
	default:
		return c19Val{"range", value.Ref(value.NewEndlessOpenRange(a))}
	}
}

func genValue(r *rand.Rand, depth int) c19Val {
	if depth <= 0 || r.IntN(3) != 0 {
		if r.IntN(8) == 0 {
			return genRangeVal(r)
		}
		return genScalar(r)
	}
	n := r.IntN(4)
	elems := make([]value.Value, n)
	for i := range elems {
		e := genValue(r, depth-1)
		elems[i] = e.v
	}
	switch r.IntN(2) {
	case 0:
		return c19Val{"list", value.Ref(value.NewArrayListOfValueWithElements(0, elems...))}
	default:
		return c19Val{"tuple", value.Ref(value.NewArrayTupleOfValueWithElements(0, elems...))}
	}
}

func sameValue(th *vm.Thread, a, b value.Value) (bool, string) {
	if a.Class() != b.Class() {
		return false, fmt.Sprintf("class %s vs %s", a.Class().Name, b.Class().Name)
	}
	switch {
	case a.IsFloat():
		return sameFloat(float64(a.AsFloat()), float64(b.AsFloat())), "float bits"
	case a.IsFloat32():
		return sameFloat(float64(a.AsFloat32()), float64(b.AsFloat32())), "float32 bits"
	case a.IsInlineFloat64():
		return b.IsInlineFloat64() && sameFloat(float64(a.AsInlineFloat64()), float64(b.AsInlineFloat64())), "float64 bits"
	}
	if as, ok := a.SafeAsReference().(value.String); ok {
		bs, _ := b.SafeAsReference().(value.String)
		return string(as) == string(bs), "string bytes"
	}
	if at, ok := a.SafeAsReference().(value.ArrayTuple); ok {
		bt, ok2 := b.SafeAsReference().(value.ArrayTuple)
		if !ok2 || at.Length() != bt.Length() {
			return false, "sequence length"
		}
		for i := 0; i < at.Length(); i++ {
			if same, why := sameValue(th, at.AtVal(i), bt.AtVal(i)); !same {
				if strings.HasPrefix(why, "leaf ") {
					return false, why
				}
				return false, "leaf " + at.AtVal(i).Class().Name + ": " + why
			}
		}
		return true, ""
	}
	if ab, ok := a.SafeAsReference().(*value.BigFloat); ok {
		bb, _ := b.SafeAsReference().(*value.BigFloat)
		if ab.IsNaN() || bb == nil {
			return bb != nil && bb.IsNaN(), "bigfloat nan"
		}
		// otherwise equality as the language defines it (==)
	}
	eq, err := vm.Equal(th, a, b)
	if !err.IsUndefined() {
		return false, "== raised " + safeInspect(err)
	}
	return value.Truthy(eq), "=="
}

// suspectClass names value classes whose inspect output is known not to round-trip on the pinned
// tree (each is a known finding). They are kept out of the 24-value batches (one failing value would
// force a one-by-one re-evaluation of the whole batch) and evaluated on their own instead, under a
// signature that names the class, so the finding stays visible and anything else stays judged.
func suspectClass(v value.Value, src string) string {
	switch {
	case strings.Contains(src, "::INF") || strings.Contains(src, "::NEG_INF") || strings.Contains(src, "::NAN"):
		if !v.IsFloat() {
			return "non-finite-sized-float"
		}
	}
	if str, ok := v.SafeAsReference().(value.String); ok {
		if !utf8.ValidString(string(str)) {
			return "string-invalid-utf8"
		}
		if highHexEscape(src) {
			return "string-with-hex-escape>=0x80"
		}
		return ""
	}
	if v.IsChar() {
		if highHexEscape(src) {
			return "char-with-hex-escape>=0x80"
		}
		return ""
	}
	if v.ValueFlag() == value.SYMBOL_FLAG {
		name := strings.TrimPrefix(src, ":")
		if strings.HasPrefix(name, "\"") {
			name = "$" // quoted form: look at the source text below
			if !strings.ContainsAny(src, "$#") && src != ":\"\"" {
				name = "ok"
			}
		}
		if name == "" || strings.ContainsAny(name, "$#") {
			return "symbol-empty-or-with-interpolation-chars"
		}
		return ""
	}
	if _, ok := v.SafeAsReference().(*value.BigFloat); ok {
		return "bigfloat"
	}
	if re, ok := v.SafeAsReference().(*value.Regex); ok {
		_ = re
		return "regex"
	}
	if strings.HasPrefix(src, "-") && (strings.HasSuffix(src, "i8") || strings.HasSuffix(src, "i16") || strings.HasSuffix(src, "i32") || strings.HasSuffix(src, "i64")) {
		t := strings.TrimLeft(src, "-0123456789")
		if m := map[string]string{"i8": "-128", "i16": "-32768", "i32": "-2147483648", "i64": "-9223372036854775808"}[t]; m != "" && strings.HasPrefix(src, m) {
			return "minimum-sized-int"
		}
	}
	switch v.SafeAsReference().(type) {
	case *value.ClosedRange, *value.OpenRange, *value.LeftOpenRange, *value.RightOpenRange, *value.BeginlessClosedRange, *value.BeginlessOpenRange, *value.EndlessClosedRange, *value.EndlessOpenRange:
		if strings.Contains(src, ".-") || strings.Contains(src, "<-") {
			return "range-with-negative-end"
		}
	}
	return ""
}

// highHexEscape reports a \\xNN escape with NN >= 0x80 in inspect output.
func highHexEscape(src string) bool {
	for i := 0; i+3 < len(src); i++ {
		if src[i] == '\\' && src[i+1] == 'x' && strings.IndexByte("89abcdefABCDEF", src[i+2]) >= 0 {
			// make sure the backslash itself is not escaped
			n := 0
			for j := i - 1; j >= 0 && src[j] == '\\'; j-- {
				n++
			}
			if n%2 == 0 {
				return true
			}
		}
	}
	return false
}

// suspectIn looks for a suspect leaf anywhere in a value.
func suspectIn(v value.Value) (string, value.Value) {
	if t, ok := v.SafeAsReference().(value.ArrayTuple); ok {
		for i := 0; i < t.Length(); i++ {
			if s, leaf := suspectIn(t.AtVal(i)); s != "" {
				return s, leaf
			}
		}
		return "", v
	}
	return suspectClass(v, safeInspect(v)), v
}

func c19InspectBatch(c *Ctx, caseIdx int, r *rand.Rand) {
	const N = 24
	vals := make([]c19Val, 0, N)
	srcs := make([]string, 0, N)
	var suspects []c19Val
	for len(vals) < N {
		v := genValue(r, 2)
		var src string
		if p := guard(func() { src = v.v.Inspect() }); p != "" {
			c.Violate("inspect-panic:"+v.kind, "inspect panicked: "+p, caseIdx, nil)
			continue
		}
		if sc, leaf := suspectIn(v.v); sc != "" {
			if len(suspects) < 2 {
				suspects = append(suspects, c19Val{sc, leaf})
			}
			continue
		}
		vals = append(vals, v)
		srcs = append(srcs, src)
	}
	// suspects: one program each, judged under the class signature
	for _, sv := range suspects {
		src := safeInspect(sv.v)
		res := RunElk("("+src+")\n", &ElkOpts{KeepThread: true})
		c.Eval(1)
		c.Count("suspect_class_values", 1)
		if res.Panic != "" || res.Rejected || !res.Err.IsUndefined() {
			c.Violate("suspect:"+sv.kind+":not-evaluable", fmt.Sprintf("value of class %q inspects as %s, which does not evaluate (%s%s%s)", sv.kind, head(src, 200), head(res.Panic, 100), head(firstDiagMessage(res), 100), res.ErrInspect), caseIdx, src)
			if res.Pool != nil {
				res.Pool.Close()
			}
			continue
		}
		if same, why := sameValue(res.Thread, sv.v, res.Result); !same {
			c.Violate("suspect:"+sv.kind+":differs", fmt.Sprintf("value of class %q inspects as %s, which evaluates to %s (%s)", sv.kind, head(src, 200), head(safeInspect(res.Result), 200), why), caseIdx, src)
		} else {
			c.Count("suspect_class_values_round_tripping", 1)
		}
		res.Pool.Close()
	}
	run := func(idx []int) (*ElkResult, bool) {
		var sb strings.Builder
		sb.WriteString("%[\n")
		for _, i := range idx {
			sb.WriteString("  (" + srcs[i] + "),\n")
		}
		sb.WriteString("]\n")
		res := RunElk(sb.String(), &ElkOpts{KeepThread: true})
		ok := res.Panic == "" && !res.Rejected && res.Err.IsUndefined()
		if !ok && res.Pool != nil {
			res.Pool.Close()
		}
		return res, ok
	}
	check := func(idx []int, res *ElkResult) {
		defer res.Pool.Close()
		tup, isT := res.Result.SafeAsReference().(value.ArrayTuple)
		if !isT || tup.Length() != len(idx) {
			c.Inconclusive("batch did not return a tuple of the expected length")
			return
		}
		for k, i := range idx {
			c.Eval(1)
			c.Count("values_"+vals[i].kind, 1)
			c.Distinct(vals[i].kind + "|" + escapeForms(srcs[i]))
			if same, why := sameValue(res.Thread, vals[i].v, tup.AtVal(k)); !same {
				site := vals[i].kind + ":" + why
				if strings.HasPrefix(why, "leaf ") {
					site = why
				}
				c.Violate("roundtrip-differs:"+site, fmt.Sprintf("%s value inspects as %s which evaluates to %s (%s)", vals[i].kind, head(srcs[i], 300), head(safeInspect(tup.AtVal(k)), 300), why), caseIdx, srcs[i])
			}
		}
	}
	all := make([]int, len(vals))
	for i := range all {
		all[i] = i
	}
	if res, ok := run(all); ok {
		check(all, res)
		return
	}
	// some inspect output is not valid Elk: evaluate one by one to find which
	for i := 0; i < len(vals); i++ {
		res, ok := run([]int{i})
		if ok {
			check([]int{i}, res)
			continue
		}
		c.Eval(1)
		c.Count("values_"+vals[i].kind, 1)
		why := "runtime error " + res.ErrInspect
		switch {
		case res.Panic != "":
			why = "panic " + head(res.Panic, 80)
		case res.Rejected:
			why = "rejected: " + head(firstDiagMessage(res), 60)
		}
		c.Violate("inspect-not-evaluable:"+vals[i].kind+":"+head(why, 40), fmt.Sprintf("%s value inspects as %s, which is not an evaluable expression: %s", vals[i].kind, head(srcs[i], 300), why), caseIdx, srcs[i])
	}
}

// escapeForms summarises which escape syntaxes occur (coverage evidence).
func escapeForms(s string) string {
	var f []string
	for _, e := range []string{"\\n", "\\x", "\\u", "\\U", "\\t", "\\\"", "\\\\", "\\0", "\\e"} {
		if strings.Contains(s, e) {
			f = append(f, e)
		}
	}
	return strings.Join(f, "")
}

// ---- integer literals ----------------------------------------------------------------------

var intBases = []struct {
	prefix string
	base   int
}{{"", 10}, {"0x", 16}, {"0X", 16}, {"0b", 2}, {"0B", 2}, {"0o", 8}, {"0O", 8}, {"0q", 4}, {"0Q", 4}, {"0d", 12}, {"0D", 12}}

func c19Literals(c *Ctx, caseIdx int, r *rand.Rand) {
	type lit struct {
		src  string
		want string
		site string
	}
	var lits []lit
	var sb strings.Builder
	sb.WriteString("%[\n")
	for k := 0; k < 30; k++ {
		b := intBases[r.IntN(len(intBases))]
		n := 1 + r.IntN(24)
		digits := make([]byte, 0, n+4)
		for i := 0; i < n; i++ {
			d := r.IntN(b.base)
			ch := "0123456789abcdefghijklmnopqrstuvwxyz"[d]
			if b.base == 12 {
				ch = "0123456789ab"[d]
			}
			if r.IntN(2) == 0 && ch >= 'a' {
				ch = ch - 'a' + 'A'
			}
			if i > 0 && r.IntN(6) == 0 {
				digits = append(digits, '_')
			}
			digits = append(digits, ch)
		}
		if b.base == 10 && digits[0] == '0' && len(digits) > 1 {
			digits[0] = '1'
		}
		clean := strings.ReplaceAll(string(digits), "_", "")
		want, ok := new(big.Int).SetString(strings.ToLower(clean), b.base)
		if !ok {
			continue
		}
		suffix := ""
		wantS := want.String()
		if r.IntN(3) == 0 {
			t := &fwTypes[r.IntN(len(fwTypes))]
			lim := new(big.Int).Lsh(big.NewInt(1), t.bits)
			if t.signed {
				lim.Rsh(lim, 1)
			}
			if want.Cmp(lim) >= 0 {
				continue
			}
			if b.base == 16 && (t.suffix[0] == 'f') {
				continue
			}
			suffix = t.suffix
			wantS += t.suffix
		}
		if b.base == 16 && suffix != "" {
			// hex digits swallow b/d/e/f suffix letters only for float suffixes; iN/uN are unambiguous
		}
		src := b.prefix + string(digits) + suffix
		lits = append(lits, lit{src, wantS, fmt.Sprintf("literal:base%d:%s", b.base, suffix)})
		sb.WriteString("  " + src + ",\n")
	}
	sb.WriteString("]\n")
	res := RunElk(sb.String(), nil)
	if res.Panic != "" {
		c.Violate("literal-panic:"+panicSite1(res.PanicStack), fmt.Sprintf("%s\n%s", res.Panic, sb.String()), caseIdx, sb.String())
		return
	}
	if res.Rejected || !res.Err.IsUndefined() {
		// find the offender one by one
		for _, l := range lits {
			r1 := RunElk(l.src+"\n", nil)
			if r1.Rejected || r1.Panic != "" || !r1.Err.IsUndefined() {
				c.Violate(l.site+":not-accepted", fmt.Sprintf("literal %s (= %s) is not accepted: %s%s", l.src, l.want, head(diagString(r1.Diagnostics), 200), r1.Panic), caseIdx, l.src)
			}
		}
		return
	}
	tup, ok := res.Result.SafeAsReference().(value.ArrayTuple)
	if !ok || tup.Length() != len(lits) {
		c.Inconclusive("literal batch shape")
		return
	}
	for i, l := range lits {
		c.Eval(1)
		c.Count("literals", 1)
		c.Distinct(l.site)
		if g := safeInspect(tup.AtVal(i)); g != l.want {
			c.Violate(l.site+":wrong", fmt.Sprintf("literal %s evaluates to %s, the digits denote %s", l.src, g, l.want), caseIdx, l.src)
		}
	}
	// boundary literals of the sized types: max is accepted and exact, max+1 must be rejected
	{
		t := &fwTypes[r.IntN(len(fwTypes))]
		b := intBases[r.IntN(len(intBases))]
		lim := new(big.Int).Lsh(big.NewInt(1), t.bits)
		if t.signed {
			lim.Rsh(lim, 1)
		}
		render := func(x *big.Int) string {
			d := x.Text(b.base)
			return b.prefix + d + t.suffix
		}
		max := new(big.Int).Sub(lim, big.NewInt(1))
		site := fmt.Sprintf("literal-boundary:base%d:%s", b.base, t.suffix)
		rMax := RunElk(render(max)+"\n", nil)
		c.Eval(2)
		c.Count("boundary_literals", 2)
		if rMax.Rejected || rMax.Panic != "" || !rMax.Err.IsUndefined() {
			c.Violate(site+":max-rejected", fmt.Sprintf("literal %s (the maximum of its type) is not accepted: %s", render(max), head(diagString(rMax.Diagnostics), 200)), caseIdx, render(max))
		} else if g := safeInspect(rMax.Result); g != max.String()+t.suffix {
			c.Violate(site+":max-wrong", fmt.Sprintf("literal %s evaluates to %s", render(max), g), caseIdx, render(max))
		}
		rOver := RunElk(render(lim)+"\n", nil)
		if !rOver.Rejected && rOver.Panic == "" {
			c.Violate(site+":overflow-accepted", fmt.Sprintf("literal %s does not fit its type but is accepted and evaluates to %s", render(lim), safeInspect(rOver.Result)), caseIdx, render(lim))
		}
	}
	// String#to_int through the Go API the native wraps
	for k := 0; k < 20; k++ {
		base := []int{2, 4, 8, 10, 12, 16, 36}[r.IntN(7)]
		n := 1 + r.IntN(30)
		var d strings.Builder
		if r.IntN(4) == 0 {
			d.WriteByte('-')
		}
		for i := 0; i < n; i++ {
			d.WriteByte("0123456789abcdefghijklmnopqrstuvwxyz"[r.IntN(base)])
		}
		want, ok := new(big.Int).SetString(d.String(), base)
		if !ok {
			continue
		}
		var got, err value.Value
		if p := guard(func() { got, err = value.String(d.String()).ToInt(base) }); p != "" {
			c.Violate(fmt.Sprintf("to_int:base%d:panic", base), p, caseIdx, d.String())
			continue
		}
		c.Eval(1)
		c.Count("to_int_calls", 1)
		if !err.IsUndefined() {
			c.Violate(fmt.Sprintf("to_int:base%d:error", base), fmt.Sprintf("%q.to_int(%d) raised %s", d.String(), base, safeInspect(err)), caseIdx, d.String())
			continue
		}
		if g, _, isInt := elkIntToBig(got); !isInt || g.Cmp(want) != 0 {
			c.Violate(fmt.Sprintf("to_int:base%d:wrong", base), fmt.Sprintf("%q.to_int(%d) = %s, want %s", d.String(), base, safeInspect(got), want), caseIdx, d.String())
		}
	}
}

func init() {
	register(&Check{
		ID:   "C19",
		Rule: "values built through the Go API (no literal needed): strings and chars over every byte / code-point class incl. invalid UTF-8, symbols needing quotes, Float/Float32/Float64/BigFloat incl. ±0, subnormals, ±Inf, NaN, big and fixed-width ints at their limits, regexes x 64 flag sets, all eight range kinds, lists/tuples nested <= 2; inspect output is compiled and evaluated by the real pipeline (24 per program) and compared bit-for-bit / byte-for-byte / by == and class; integer literals in every base prefix with _ separators and suffixes, String#to_int in bases 2..36 against math/big; distinct = (kind, escape forms) and (base, suffix) cells",
		NumCases: func(tier string) int {
			if tier == "thorough" {
				return 8000
			}
			return 1600
		},
		Case: func(c *Ctx, i int, r *rand.Rand) {
			if i%4 == 3 {
				c19Literals(c, i, r)
			} else {
				c19InspectBatch(c, i, r)
			}
		},
		MinCounters: map[string]int64{"suspect_class_values": 300, "values_string": 500, "values_char": 500, "values_float": 500, "values_range": 300, "literals": 5000, "to_int_calls": 3000},
		Assumptions: []string{"maps, records and sets of these values are not generated (their element order makes byte comparison of inspect output meaningless; they are covered by C17 through ==)"},
	})
}
