package main

// C25 (part 2) — Go-API-level concurrent histories of value.Channel / Mutex / RWMutex / ROMutex /
// WaitGroup / Once. Every call is stamped at the client boundary with one atomic counter; the
// histories are decided offline by exact checkers that exploit unique values (each pop identifies
// its push) and, for small buffered-channel histories, cross-checked with porcupine against a
// bounded FIFO queue model.

import (
	"context"
	"fmt"
	"math/rand/v2"
	"runtime"
	"sort"
	"strings"
	"sync"
	"sync/atomic"
	"time"

	"github.com/anishathalye/porcupine"
	"github.com/elk-language/elk/position"
	"github.com/elk-language/elk/value"
	"github.com/elk-language/elk/vm"
)

// ---- channel histories -----------------------------------------------------------------------

type chEv struct {
	kind      string // push | pop | close
	client    int
	v         int64 // pushed / popped value
	ok        bool  // push accepted / pop delivered a value / close succeeded
	closedErr bool  // the call reported Channel::ClosedError (or stop_iteration for next/iterate)
	other     string
	call, ret int64
}

type c25Noise struct {
	r *rand.Rand
	p int // 1/p chance of a perturbation per call
}

func (n *c25Noise) maybe() {
	switch n.r.IntN(n.p * 3) {
	case 0:
		time.Sleep(time.Microsecond)
	case 1:
		runtime.Gosched()
	case 2:
		time.Sleep(time.Duration(1+n.r.IntN(40)) * time.Microsecond)
	}
}

func c25IsClass(err value.Value, class *value.Class) bool {
	if err.IsUndefined() {
		return false
	}
	return err.Class() == class
}

func c25ErrName(err value.Value) string {
	if err.IsUndefined() {
		return "<none>"
	}
	return guardStr(func() string { return err.Inspect() })
}

func guardStr(f func() string) (s string) {
	defer func() {
		if r := recover(); r != nil {
			s = fmt.Sprintf("<panic %v>", r)
		}
	}()
	return f()
}

type c25ChanSetup struct {
	impl      string // ofvalue | native
	cap       int
	producers int
	consumers int
	perProd   int
	closeMode string // after | racing | double
	pushVia   string // chan | view
	popVia    string // chan | view
	closeVia  string // chan | view
}

func (s c25ChanSetup) key() string {
	return fmt.Sprintf("%s|cap%d|p%d|c%d|%s|%s%s%s", s.impl, s.cap, s.producers, s.consumers, s.closeMode, s.pushVia[:1], s.popVia[:1], s.closeVia[:1])
}

func c25ChannelHistory(c *Ctx, caseIdx int, r *rand.Rand) {
	s := c25ChanSetup{
		impl:      []string{"ofvalue", "ofvalue", "native"}[r.IntN(3)],
		cap:       []int{0, 0, 1, 1, 2, 3, 4, 16}[r.IntN(8)],
		producers: 1 + r.IntN(6),
		consumers: 1 + r.IntN(6),
		closeMode: []string{"after", "after", "racing", "double"}[r.IntN(4)],
		pushVia:   []string{"chan", "view"}[r.IntN(2)],
		popVia:    []string{"chan", "view"}[r.IntN(2)],
		closeVia:  []string{"chan", "view"}[r.IntN(2)],
	}
	total := 60 + r.IntN(500)
	s.perProd = total/s.producers + 1

	var full value.Channel
	if s.impl == "native" {
		full = value.MakeNativeChannel[value.SmallInt](s.cap)
	} else {
		full = value.NewChannelOfValue(s.cap)
	}
	var pusher value.WriteChannel = full
	var closer value.WriteChannel = full
	var popper value.ReadChannel = full
	if s.pushVia == "view" {
		pusher = full.ToWriteChannel()
	}
	if s.closeVia == "view" {
		closer = full.ToWriteChannel()
	}
	if s.popVia == "view" {
		popper = full.ToReadChannel()
	}

	var clock atomic.Int64
	ctx := context.Background()
	nClients := s.producers + s.consumers + 2
	events := make([][]chEv, nClients)
	seeds := make([]uint64, nClients)
	for i := range seeds {
		seeds[i] = r.Uint64()
	}
	start := make(chan struct{})
	var pwg, cwg, closeWg sync.WaitGroup
	var producersDone atomic.Int64

	for p := 0; p < s.producers; p++ {
		pwg.Add(1)
		go func(p int) {
			defer pwg.Done()
			defer producersDone.Add(1)
			rr := rand.New(rand.NewPCG(seeds[p], 1))
			nz := &c25Noise{rr, 6}
			<-start
			for k := 0; k < s.perProd; k++ {
				v := int64(p+1)*100000 + int64(k)
				ev := chEv{kind: "push", client: p, v: v}
				useCtx := rr.IntN(2) == 0
				ev.call = clock.Add(1)
				var err value.Value
				if useCtx {
					err = pusher.PushCtx(ctx, value.SmallInt(v).ToValue())
				} else {
					err = pusher.Push(value.SmallInt(v).ToValue())
				}
				ev.ret = clock.Add(1)
				switch {
				case err.IsUndefined():
					ev.ok = true
				case err == value.ChannelClosedPushError.ToValue():
					ev.closedErr = true
				default:
					ev.other = c25ErrName(err)
				}
				events[p] = append(events[p], ev)
				if !ev.ok {
					return
				}
				nz.maybe()
			}
		}(p)
	}
	for q := 0; q < s.consumers; q++ {
		cwg.Add(1)
		id := s.producers + q
		go func(id int) {
			defer cwg.Done()
			rr := rand.New(rand.NewPCG(seeds[id], 2))
			nz := &c25Noise{rr, 6}
			<-start
			style := rr.IntN(4)
			if style == 3 {
				// native iteration protocol
				for {
					ev := chEv{kind: "pop", client: id}
					ev.call = clock.Add(1)
					val, err := popper.NextValueCtx(ctx)
					ev.ret = clock.Add(1)
					if err.IsUndefined() {
						ev.ok = true
						ev.v = c25IntOf(val)
					} else if err == value.ToSymbol("stop_iteration").ToValue() {
						ev.closedErr = true
					} else {
						ev.other = c25ErrName(err)
					}
					events[id] = append(events[id], ev)
					if !ev.ok {
						return
					}
					nz.maybe()
				}
			}
			for {
				ev := chEv{kind: "pop", client: id}
				var val, err value.Value
				ev.call = clock.Add(1)
				if style == 0 {
					val, err = popper.Pop()
				} else {
					val, err = popper.PopCtx(ctx)
				}
				ev.ret = clock.Add(1)
				switch {
				case err.IsUndefined():
					ev.ok = true
					ev.v = c25IntOf(val)
				case err == value.ChannelClosedPopError.ToValue():
					ev.closedErr = true
				default:
					ev.other = c25ErrName(err)
				}
				events[id] = append(events[id], ev)
				if !ev.ok {
					return
				}
				nz.maybe()
			}
		}(id)
	}
	closers := 1
	if s.closeMode == "double" {
		closers = 2
	}
	for k := 0; k < closers; k++ {
		closeWg.Add(1)
		id := s.producers + s.consumers + k
		go func(id int) {
			defer closeWg.Done()
			rr := rand.New(rand.NewPCG(seeds[id], 3))
			<-start
			if s.closeMode == "racing" {
				// close somewhere in the middle of the producers' work
				target := int64(rr.IntN(2*total + 2))
				for clock.Load() < target && producersDone.Load() < int64(s.producers) {
					runtime.Gosched()
				}
			} else {
				pwg.Wait()
			}
			var cl value.WriteChannel = closer
			if s.closeMode == "double" && id%2 == 0 {
				cl = full // the two closers may go through different objects sharing one native channel
			}
			ev := chEv{kind: "close", client: id}
			ev.call = clock.Add(1)
			err := cl.Close()
			ev.ret = clock.Add(1)
			switch {
			case err.IsUndefined():
				ev.ok = true
			case err == value.ChannelClosedCloseError.ToValue():
				ev.closedErr = true
			default:
				ev.other = c25ErrName(err)
			}
			events[id] = append(events[id], ev)
		}(id)
	}
	close(start)
	done := make(chan struct{})
	go func() { pwg.Wait(); closeWg.Wait(); cwg.Wait(); close(done) }()
	select {
	case <-done:
	case <-time.After(60 * time.Second):
		c.Violate("channel:go-history-deadlock:"+s.impl+fmt.Sprintf(":cap%d:", s.cap)+s.closeMode, fmt.Sprintf("history %d (%s) did not finish within 60 s: producers, consumers or closer blocked forever", caseIdx, s.key()), caseIdx, nil)
		return
	}

	var all []chEv
	for _, e := range events {
		all = append(all, e...)
	}
	c.Eval(int64(len(all)))
	c.Count("go_channel_histories", 1)
	tag := fmt.Sprintf("%s:cap%d:%s", s.impl, minInt(s.cap, 5), s.closeMode)
	c25CheckChannelHistory(c, caseIdx, all, s.cap, tag, s.key(), true)
	c.Distinct("gochan|" + s.key())
}

func minInt(a, b int) int {
	if a < b {
		return a
	}
	return b
}

func c25IntOf(v value.Value) int64 {
	if v.IsSmallInt() {
		return int64(v.AsSmallInt())
	}
	return -1
}

func c25FmtEv(e chEv) string {
	res := "ok"
	if e.closedErr {
		res = "ClosedError"
	} else if e.other != "" {
		res = e.other
	}
	switch e.kind {
	case "push":
		return fmt.Sprintf("client %d [%d,%d] push(%d) -> %s", e.client, e.call, e.ret, e.v, res)
	case "pop":
		if e.ok {
			return fmt.Sprintf("client %d [%d,%d] pop -> %d", e.client, e.call, e.ret, e.v)
		}
		return fmt.Sprintf("client %d [%d,%d] pop -> %s", e.client, e.call, e.ret, res)
	}
	return fmt.Sprintf("client %d [%d,%d] close -> %s", e.client, e.call, e.ret, res)
}

// c25CheckChannelHistory is the exact offline decision for one channel history with unique values.
// drained: every consumer ran until it saw the channel closed (so accepted values must all be delivered).
func c25CheckChannelHistory(c *Ctx, caseIdx int, all []chEv, capacity int, tag, what string, drained bool) {
	viol := func(contract string, lines ...string) {
		c.Violate("channel:"+contract+":"+tag, fmt.Sprintf("history %d (%s): %s\n  %s", caseIdx, what, contract, strings.Join(lines, "\n  ")), caseIdx, nil)
	}
	pushes := map[int64]chEv{}
	pops := map[int64]chEv{}
	var closedPops, closes, rejectedPushes []chEv
	for _, e := range all {
		if e.other != "" {
			viol("unexpected-error", c25FmtEv(e))
			continue
		}
		switch e.kind {
		case "push":
			if prev, dup := pushes[e.v]; dup {
				c.Inconclusive(fmt.Sprintf("driver bug: value %d pushed twice (%s)", e.v, c25FmtEv(prev)))
				return
			}
			pushes[e.v] = e
			if !e.ok {
				rejectedPushes = append(rejectedPushes, e)
			}
		case "pop":
			if !e.ok {
				closedPops = append(closedPops, e)
				continue
			}
			if prev, dup := pops[e.v]; dup {
				viol("value-duplicated", c25FmtEv(prev), c25FmtEv(e))
				continue
			}
			pops[e.v] = e
		case "close":
			closes = append(closes, e)
		}
	}
	c.Count("go_channel_values_matched", int64(len(pops)))
	for v, pe := range pops {
		pu, ok := pushes[v]
		if !ok {
			viol("value-invented", c25FmtEv(pe))
			continue
		}
		if !pu.ok {
			viol("rejected-push-delivered", c25FmtEv(pu), c25FmtEv(pe))
		}
		if pe.ret < pu.call {
			viol("pop-before-push", c25FmtEv(pu), c25FmtEv(pe))
		}
	}
	if drained {
		for v, pu := range pushes {
			if _, ok := pops[v]; pu.ok && !ok {
				viol("value-lost", c25FmtEv(pu), "never popped although every consumer drained the channel until it was closed")
			}
		}
	}
	// FIFO: push(a) wholly before push(b) forbids pop(b) wholly before pop(a)
	type pair struct{ pu, po chEv }
	var ps []pair
	for v, pu := range pushes {
		if po, ok := pops[v]; ok && pu.ok {
			ps = append(ps, pair{pu, po})
		}
	}
	sort.Slice(ps, func(i, j int) bool { return ps[i].pu.call < ps[j].pu.call })
	// sweep: for b in call order, compare against the a with the largest pop.call among those whose push returned before b's push was called
	{
		byRet := append([]pair(nil), ps...)
		sort.Slice(byRet, func(i, j int) bool { return byRet[i].pu.ret < byRet[j].pu.ret })
		k := 0
		var worst *pair // a with max pop.call
		for i := range ps {
			b := ps[i]
			for k < len(byRet) && byRet[k].pu.ret < b.pu.call {
				if worst == nil || byRet[k].po.call > worst.po.call {
					w := byRet[k]
					worst = &w
				}
				k++
			}
			if worst != nil && b.po.ret < worst.po.call {
				viol("fifo-order", "pushed first: "+c25FmtEv(worst.pu), "pushed later: "+c25FmtEv(b.pu), "popped first: "+c25FmtEv(b.po), "popped later: "+c25FmtEv(worst.po))
				break
			}
		}
		c.Count("go_channel_fifo_pairs_ordered", int64(k))
	}
	// capacity: at the moment push(v) returns, values whose push has returned and whose pop has not been called sit in the buffer
	{
		type pt struct {
			t     int64
			delta int
			ev    chEv
		}
		var pts []pt
		for _, p := range ps {
			if p.po.call > p.pu.ret {
				pts = append(pts, pt{p.pu.ret, +1, p.pu}, pt{p.po.call, -1, p.po})
			}
		}
		if drained {
			// accepted but never popped values were reported as lost already
		}
		sort.Slice(pts, func(i, j int) bool { return pts[i].t < pts[j].t })
		lvl := 0
		maxLvl := 0
		for _, p := range pts {
			lvl += p.delta
			if lvl > maxLvl {
				maxLvl = lvl
			}
			if lvl > capacity {
				contract := "capacity-exceeded"
				if capacity == 0 {
					contract = "unbuffered-push-returned-without-receiver"
				}
				viol(contract, fmt.Sprintf("%d accepted values were held by the channel (capacity %d) when this push returned:", lvl, capacity), c25FmtEv(p.ev))
				break
			}
		}
		c.Max("max_go_channel_buffer_level_seen", int64(maxLvl))
		if capacity > 0 && maxLvl == capacity {
			c.Count("go_channel_histories_filling_the_buffer", 1)
		}
	}
	// close contract
	okCloses := 0
	firstCloseCall, okCloseRet := int64(1)<<62, int64(1)<<62
	for _, e := range closes {
		if e.ok {
			okCloses++
			okCloseRet = e.ret
		}
		if e.call < firstCloseCall {
			firstCloseCall = e.call
		}
	}
	if len(closes) > 0 && okCloses != 1 {
		lines := []string{fmt.Sprintf("%d of %d close calls succeeded", okCloses, len(closes))}
		for _, e := range closes {
			lines = append(lines, c25FmtEv(e))
		}
		viol("close-not-exactly-once", lines...)
	}
	if len(closes) > 1 {
		c.Count("go_channel_concurrent_double_close", 1)
	}
	for _, e := range rejectedPushes {
		if e.ret < firstCloseCall {
			viol("push-rejected-before-close", c25FmtEv(e))
		}
		c.Count("go_channel_pushes_rejected_by_close", 1)
	}
	for _, e := range pushes {
		if e.ok && e.call > okCloseRet {
			viol("push-accepted-after-close", c25FmtEv(e), fmt.Sprintf("close returned at %d", okCloseRet))
		}
	}
	for _, e := range closedPops {
		if e.ret < firstCloseCall {
			viol("pop-closed-before-close", c25FmtEv(e))
		}
		for _, p := range ps {
			if p.po.call > e.ret {
				viol("closed-reported-before-drained", c25FmtEv(e), "later delivered: "+c25FmtEv(p.po))
				break
			}
		}
	}
	if len(closedPops) > 0 {
		c.Count("go_channel_closed_pops", int64(len(closedPops)))
	}

	// porcupine cross-check (buffered channels, small histories): bounded FIFO queue with close
	if capacity > 0 && len(all) <= 400 {
		var ops []porcupine.Operation
		for _, e := range all {
			if e.other != "" {
				continue
			}
			ops = append(ops, porcupine.Operation{ClientId: e.client, Input: chIn{e.kind, e.v}, Call: e.call, Output: chOut{e.ok, e.v}, Return: e.ret})
		}
		model := c25QueueModel(capacity)
		res := porcupine.CheckOperationsTimeout(model, ops, 2*time.Second)
		switch res {
		case porcupine.Ok:
			c.Count("porcupine_ok", 1)
		case porcupine.Unknown:
			c.Count("porcupine_timeouts", 1)
		case porcupine.Illegal:
			var lines []string
			sort.Slice(all, func(i, j int) bool { return all[i].call < all[j].call })
			for i, e := range all {
				if i > 40 {
					lines = append(lines, "…")
					break
				}
				lines = append(lines, c25FmtEv(e))
			}
			viol("not-linearizable", lines...)
		}
	}
}

type chIn struct {
	kind string
	v    int64
}
type chOut struct {
	ok bool
	v  int64
}
type chState struct {
	q      string // comma separated values (comparable state)
	n      int
	closed bool
}

func c25QueueModel(capacity int) porcupine.Model {
	return porcupine.Model{
		Init: func() any { return chState{} },
		Step: func(st, in, out any) (bool, any) {
			s := st.(chState)
			i := in.(chIn)
			o := out.(chOut)
			switch i.kind {
			case "push":
				if !o.ok {
					return s.closed, s
				}
				if s.closed || s.n >= capacity {
					return false, s
				}
				s.q += fmt.Sprintf("%d,", i.v)
				s.n++
				return true, s
			case "pop":
				if !o.ok {
					return s.closed && s.n == 0, s
				}
				head := fmt.Sprintf("%d,", o.v)
				if s.n == 0 || !strings.HasPrefix(s.q, head) {
					return false, s
				}
				s.q = s.q[len(head):]
				s.n--
				return true, s
			case "close":
				if !o.ok {
					return s.closed, s
				}
				if s.closed {
					return false, s
				}
				s.closed = true
				return true, s
			}
			return false, s
		},
		Equal: func(a, b any) bool { return a.(chState) == b.(chState) },
		DescribeOperation: func(in, out any) string {
			return fmt.Sprintf("%+v -> %+v", in, out)
		},
	}
}

// ---- mutual exclusion histories ---------------------------------------------------------------

type lockEv struct {
	client      int
	writer      bool
	enter, exit int64
}

func c25MutexHistory(c *Ctx, caseIdx int, r *rand.Rand) {
	kind := []string{"mutex", "rwmutex", "rwmutex", "romutex"}[r.IntN(4)]
	gs := 2 + r.IntN(10)
	per := 400 / gs
	var mu value.Mutex
	var rw value.RWMutex
	ro := value.NewROMutex(&rw)
	var clock atomic.Int64
	plain := 0 // deliberately not atomic: protected only by the lock under test
	events := make([][]lockEv, gs)
	var torn atomic.Int64
	var wg sync.WaitGroup
	start := make(chan struct{})
	seeds := make([]uint64, gs)
	for i := range seeds {
		seeds[i] = r.Uint64()
	}
	var unexpected atomic.Value
	for g := 0; g < gs; g++ {
		wg.Add(1)
		go func(g int) {
			defer wg.Done()
			rr := rand.New(rand.NewPCG(seeds[g], 9))
			nz := &c25Noise{rr, 5}
			<-start
			for k := 0; k < per; k++ {
				writer := kind == "mutex" || rr.IntN(3) == 0
				ev := lockEv{client: g, writer: writer}
				var err value.Value
				switch {
				case kind == "mutex":
					mu.Lock()
					ev.enter = clock.Add(1)
					plain++
					nz.maybe()
					ev.exit = clock.Add(1)
					err = mu.Unlock()
				case writer:
					rw.Lock()
					ev.enter = clock.Add(1)
					plain++
					nz.maybe()
					ev.exit = clock.Add(1)
					err = rw.Unlock()
				default:
					viaRO := kind == "romutex" || rr.IntN(2) == 0
					if viaRO {
						ro.Lock()
					} else {
						rw.ReadLock()
					}
					ev.enter = clock.Add(1)
					a := plain
					nz.maybe()
					if plain != a {
						torn.Add(1)
					}
					ev.exit = clock.Add(1)
					if viaRO {
						err = ro.Unlock()
					} else {
						err = rw.ReadUnlock()
					}
				}
				if !err.IsUndefined() {
					unexpected.Store(fmt.Sprintf("goroutine %d: unlocking a held %s (writer=%v) returned %s", g, kind, writer, c25ErrName(err)))
				}
				events[g] = append(events[g], ev)
				nz.maybe()
			}
		}(g)
	}
	close(start)
	done := make(chan struct{})
	go func() { wg.Wait(); close(done) }()
	select {
	case <-done:
	case <-time.After(60 * time.Second):
		c.Violate(kind+":go-history-deadlock", fmt.Sprintf("history %d: %d goroutines locking/unlocking one %s did not finish within 60 s", caseIdx, gs, kind), caseIdx, nil)
		return
	}
	var all []lockEv
	writers := 0
	for _, e := range events {
		all = append(all, e...)
	}
	for _, e := range all {
		if e.writer {
			writers++
		}
	}
	c.Eval(int64(len(all)))
	c.Count("go_lock_histories", 1)
	if s, _ := unexpected.Load().(string); s != "" {
		c.Violate(kind+":unlock-of-held-lock-rejected", fmt.Sprintf("history %d: %s", caseIdx, s), caseIdx, nil)
	}
	if plain != writers {
		c.Violate(kind+":lost-update", fmt.Sprintf("history %d: %d goroutines incremented a plain counter %d times inside lock/unlock, final value %d", caseIdx, gs, writers, plain), caseIdx, nil)
	}
	if torn.Load() != 0 {
		c.Violate(kind+":reader-saw-write", fmt.Sprintf("history %d: %d read sections saw the counter change while holding the read lock", caseIdx, torn.Load()), caseIdx, nil)
	}
	overlapW, overlapR := c25Overlaps(all)
	if overlapW != "" {
		sig := kind + ":writer-overlap"
		c.Violate(sig, fmt.Sprintf("history %d (%d goroutines): critical sections overlap: %s", caseIdx, gs, overlapW), caseIdx, nil)
	}
	if overlapR > 0 {
		c.Count("go_reader_sections_overlapping", int64(overlapR))
	}
	c.Distinct(fmt.Sprintf("golock|%s|g%d|ro=%v", kind, gs, overlapR > 0))
}

// c25Overlaps returns a description of a writer section overlapping any other section ("" if none)
// and the number of reader/reader overlaps (allowed; counted as evidence that readers do share).
func c25Overlaps(all []lockEv) (string, int) {
	sort.Slice(all, func(i, j int) bool { return all[i].enter < all[j].enter })
	readerOverlaps := 0
	var maxExit int64 = -1
	var maxEv lockEv
	var maxWExit int64 = -1
	var maxWEv lockEv
	for _, e := range all {
		if e.writer && e.enter < maxExit {
			return fmt.Sprintf("writer of goroutine %d [%d,%d] entered while goroutine %d (writer=%v) was inside [%d,%d]", e.client, e.enter, e.exit, maxEv.client, maxEv.writer, maxEv.enter, maxEv.exit), readerOverlaps
		}
		if !e.writer && e.enter < maxWExit {
			return fmt.Sprintf("reader of goroutine %d [%d,%d] entered while writer of goroutine %d was inside [%d,%d]", e.client, e.enter, e.exit, maxWEv.client, maxWEv.enter, maxWEv.exit), readerOverlaps
		}
		if !e.writer && e.enter < maxExit {
			readerOverlaps++
		}
		if e.exit > maxExit {
			maxExit, maxEv = e.exit, e
		}
		if e.writer && e.exit > maxWExit {
			maxWExit, maxWEv = e.exit, e
		}
	}
	return "", readerOverlaps
}

// c25UnlockRace: a lock held k times is unlocked by n > k goroutines at once: exactly k unlocks may
// succeed, the others must return the documented UnlockedError value (and the process must survive).
func c25UnlockRace(c *Ctx, caseIdx int, r *rand.Rand) {
	rounds := 40
	for round := 0; round < rounds; round++ {
		kind := []string{"mutex", "rw-write", "rw-read", "ro-read", "rw-read-while-write", "rw-write-while-read"}[r.IntN(6)]
		n := 2 + r.IntN(6)
		var mu value.Mutex
		var rw value.RWMutex
		ro := value.NewROMutex(&rw)
		held := 1
		wantClass := value.RWMutexUnlockedErrorClass
		var unlock func() value.Value
		switch kind {
		case "mutex":
			if r.IntN(4) != 0 {
				mu.Lock()
			} else {
				held = 0
			}
			wantClass = value.MutexUnlockedErrorClass
			unlock = mu.Unlock
		case "rw-write":
			if r.IntN(4) != 0 {
				rw.Lock()
			} else {
				held = 0
			}
			unlock = rw.Unlock
		case "rw-read", "ro-read":
			held = r.IntN(n)
			for i := 0; i < held; i++ {
				if i%2 == 0 {
					rw.ReadLock()
				} else {
					ro.Lock()
				}
			}
			unlock = rw.ReadUnlock
			if kind == "ro-read" {
				unlock = ro.Unlock
			}
		case "rw-read-while-write":
			rw.Lock()
			held = 0
			unlock = rw.ReadUnlock
		case "rw-write-while-read":
			rw.ReadLock()
			held = 0
			unlock = rw.Unlock
		}
		var okN, errN, wrongN atomic.Int64
		var wrong atomic.Value
		var wg sync.WaitGroup
		start := make(chan struct{})
		for g := 0; g < n; g++ {
			wg.Add(1)
			go func() {
				defer wg.Done()
				<-start
				err := unlock()
				switch {
				case err.IsUndefined():
					okN.Add(1)
				case c25IsClass(err, wantClass):
					errN.Add(1)
				default:
					wrongN.Add(1)
					wrong.Store(c25ErrName(err))
				}
			}()
		}
		close(start)
		wg.Wait()
		c.Eval(int64(n))
		c.Count("go_unlock_races", 1)
		if wrongN.Load() > 0 {
			c.Violate("unlock-misuse:"+kind+":wrong-error", fmt.Sprintf("round %d: unlock of a lock that is not held returned %v instead of %s", round, wrong.Load(), wantClass.Name), caseIdx, nil)
		}
		if int(okN.Load()) != held {
			c.Violate("unlock-misuse:"+kind+":wrong-number-of-successful-unlocks", fmt.Sprintf("round %d: lock held %d time(s), %d goroutines unlocked it at once: %d succeeded, %d got UnlockedError", round, held, n, okN.Load(), errN.Load()), caseIdx, nil)
		}
		// the lock must be usable afterwards (a corrupted sync primitive would block or crash here)
		switch kind {
		case "mutex":
			mu.Lock()
			if e := mu.Unlock(); !e.IsUndefined() {
				c.Violate("unlock-misuse:mutex:unusable-afterwards", "lock/unlock after the race returned "+c25ErrName(e), caseIdx, nil)
			}
		case "rw-read-while-write":
			if e := rw.Unlock(); !e.IsUndefined() {
				c.Violate("unlock-misuse:"+kind+":unusable-afterwards", "write unlock after rejected read unlocks returned "+c25ErrName(e), caseIdx, nil)
			}
		case "rw-write-while-read":
			if e := rw.ReadUnlock(); !e.IsUndefined() {
				c.Violate("unlock-misuse:"+kind+":unusable-afterwards", "read unlock after rejected write unlocks returned "+c25ErrName(e), caseIdx, nil)
			}
		default:
			rw.Lock()
			if e := rw.Unlock(); !e.IsUndefined() {
				c.Violate("unlock-misuse:"+kind+":unusable-afterwards", "lock/unlock after the race returned "+c25ErrName(e), caseIdx, nil)
			}
		}
		c.Distinct(fmt.Sprintf("unlockrace|%s|n%d|held%d", kind, n, held))
	}
}

// ---- WaitGroup --------------------------------------------------------------------------------

func c25WaitGroupHistory(c *Ctx, caseIdx int, r *rand.Rand) {
	for round := 0; round < 12; round++ {
		wgv := &value.WaitGroup{}
		n := 1 + r.IntN(12)
		waiters := 1 + r.IntN(4)
		extra := 0
		if r.IntN(3) == 0 {
			extra = 1 + r.IntN(3) // more `end`s than the counter holds: the surplus must be rejected
		}
		useAdd := r.IntN(2) == 0
		if useAdd {
			if e := wgv.Add(n); !e.IsUndefined() {
				c.Violate("waitgroup:add-rejected", "Add("+fmt.Sprint(n)+") returned "+c25ErrName(e), caseIdx, nil)
			}
		} else {
			for i := 0; i < n; i++ {
				wgv.Start()
			}
		}
		var clock atomic.Int64
		endCalls := make([]int64, n+extra)
		endOK := make([]bool, n+extra)
		endErr := make([]string, n+extra)
		waitRets := make([]int64, waiters)
		var workers, ws sync.WaitGroup
		start := make(chan struct{})
		seeds := make([]uint64, n+extra)
		for i := range seeds {
			seeds[i] = r.Uint64()
		}
		for w := 0; w < waiters && extra == 0; w++ {
			ws.Add(1)
			go func(w int) {
				defer ws.Done()
				<-start
				wgv.Wait()
				waitRets[w] = clock.Add(1)
			}(w)
		}
		for k := 0; k < n+extra; k++ {
			workers.Add(1)
			go func(k int) {
				defer workers.Done()
				rr := rand.New(rand.NewPCG(seeds[k], 4))
				nz := &c25Noise{rr, 2}
				<-start
				nz.maybe()
				endCalls[k] = clock.Add(1)
				var e value.Value
				if rr.IntN(3) == 0 {
					e = wgv.Remove(1)
				} else {
					e = wgv.End()
				}
				if e.IsUndefined() {
					endOK[k] = true
				} else if !c25IsClass(e, value.OutOfRangeErrorClass) {
					endErr[k] = c25ErrName(e)
				}
			}(k)
		}
		close(start)
		done := make(chan struct{})
		go func() { workers.Wait(); ws.Wait(); close(done) }()
		select {
		case <-done:
		case <-time.After(60 * time.Second):
			c.Violate("waitgroup:wait-never-returned", fmt.Sprintf("counter %d, %d end calls, %d waiters: not finished within 60 s", n, n+extra, waiters), caseIdx, nil)
			return
		}
		c.Eval(int64(n + extra + waiters))
		c.Count("go_waitgroup_rounds", 1)
		oks := 0
		var maxEnd int64
		for k := range endCalls {
			if endOK[k] {
				oks++
			}
			if endErr[k] != "" {
				c.Violate("waitgroup:negative-counter-wrong-error", "end below zero returned "+endErr[k]+" instead of Std::OutOfRangeError", caseIdx, nil)
			}
			if endCalls[k] > maxEnd {
				maxEnd = endCalls[k]
			}
		}
		if oks != n {
			c.Violate("waitgroup:wrong-number-of-accepted-ends", fmt.Sprintf("counter %d, %d concurrent end/remove(1) calls: %d accepted", n, n+extra, oks), caseIdx, nil)
		}
		if extra == 0 {
			for w, t := range waitRets {
				if t < maxEnd {
					c.Violate("waitgroup:wait-returned-before-last-end", fmt.Sprintf("counter %d: waiter %d returned at %d, the last end was called at %d", n, w, t, maxEnd), caseIdx, nil)
				}
			}
		} else {
			c.Count("go_waitgroup_negative_rounds", 1)
		}
		c.Distinct(fmt.Sprintf("gowg|n%d|w%d|x%d|%v", n, waiters, extra, useAdd))
	}
}

// ---- Once -------------------------------------------------------------------------------------

func c25OnceHistory(c *Ctx, caseIdx int, r *rand.Rand) {
	for round := 0; round < 6; round++ {
		kind := []string{"call", "memo", "fn", "call-throws", "memo-throws", "fn-throws"}[r.IntN(6)]
		n := 2 + r.IntN(10)
		var clock atomic.Int64
		var runs atomic.Int64
		var bodyEnd atomic.Int64
		plainRuns := 0
		throws := strings.HasSuffix(kind, "-throws")
		thrown := value.ToSymbol("c25_boom").ToValue()
		bodySleep := time.Duration(r.IntN(200)) * time.Microsecond
		body := vm.NewNativeClosure(func(_ *vm.Thread, _ []value.Value) (value.Value, value.Value) {
			runs.Add(1)
			plainRuns++
			time.Sleep(bodySleep)
			bodyEnd.Store(clock.Add(1))
			if throws {
				return value.Undefined, thrown
			}
			return value.SmallInt(4200 + caseIdx%7).ToValue(), value.Undefined
		}, 0, position.ZeroLocation)
		once := value.NewOnce()
		var wrapped *vm.NativeClosure
		switch kind {
		case "memo", "memo-throws":
			wrapped = vm.OnceMemo(value.Ref(body))
		case "fn", "fn-throws":
			wrapped = vm.OnceFn(value.Ref(body))
		}
		rets := make([]int64, n)
		vals := make([]value.Value, n)
		errs := make([]value.Value, n)
		var wg sync.WaitGroup
		start := make(chan struct{})
		for g := 0; g < n; g++ {
			wg.Add(1)
			go func(g int) {
				defer wg.Done()
				th := vm.New()
				<-start
				if wrapped != nil {
					vals[g], errs[g] = wrapped.Function(th, nil)
				} else {
					vals[g], errs[g] = value.Nil, vm.OnceDo(th, once, value.Ref(body))
				}
				rets[g] = clock.Add(1)
			}(g)
		}
		close(start)
		wg.Wait()
		c.Eval(int64(n))
		c.Count("go_once_rounds", 1)
		if runs.Load() != 1 || plainRuns != 1 {
			c.Violate("once:ran-"+fmt.Sprint(runs.Load())+"-times:"+kind, fmt.Sprintf("%d concurrent callers of Once (%s): body ran %d times", n, kind, runs.Load()), caseIdx, nil)
		}
		for g := range rets {
			if rets[g] < bodyEnd.Load() {
				c.Violate("once:caller-returned-before-body-finished:"+kind, fmt.Sprintf("%d concurrent callers (%s): caller %d returned at %d, the body finished at %d", n, kind, g, rets[g], bodyEnd.Load()), caseIdx, nil)
			}
		}
		errCount := 0
		for g := range errs {
			if !errs[g].IsUndefined() {
				errCount++
				if errs[g] != thrown {
					c.Violate("once:wrong-error:"+kind, "caller got "+c25ErrName(errs[g]), caseIdx, nil)
				}
			}
		}
		switch kind {
		case "memo":
			for g := range vals {
				if vals[g] != vals[0] || errCount != 0 {
					c.Violate("once:memo-different-values", fmt.Sprintf("callers got %s and %s", c25ErrName(vals[0]), c25ErrName(vals[g])), caseIdx, nil)
				}
			}
		case "memo-throws", "fn-throws":
			if errCount != n {
				c.Violate("once:error-not-memoized:"+kind, fmt.Sprintf("%d of %d callers of a wrapped throwing function received the error (the header says the throw value is memoized)", errCount, n), caseIdx, nil)
			}
		case "call-throws":
			if errCount != 1 {
				c.Violate("once:call-error-delivered-to-"+fmt.Sprint(errCount)+"-callers", fmt.Sprintf("%d callers, body threw once: %d callers saw an error", n, errCount), caseIdx, nil)
			}
		case "call", "fn":
			if errCount != 0 {
				c.Violate("once:unexpected-error:"+kind, "a caller of a non-throwing body got an error", caseIdx, nil)
			}
		}
		c.Distinct(fmt.Sprintf("goonce|%s|n%d", kind, n))
	}
}
