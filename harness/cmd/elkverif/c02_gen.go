package main

// C02 generator: typed snippet families. Every snippet knows the Elk type names of the things it builds, so the
// programs are well-typed by construction (a rejected program is counted per family, never reported).

import (
	"fmt"
	"math/rand/v2"
	"strings"
)

// c02Atom is one member type of the generated unions.
type c02Atom struct {
	Name   string   // key
	Type   string   // Elk type
	Vals   []string // value expressions
	Supers []string // atom names / class names it is an instance of (besides itself)
	Falsy  bool     // every value is falsy
	MaybeF bool     // some values are falsy (Bool)
	Uses   []string // expressions over %s that are typed for this atom (result probed)
	Rt     string   // run-time class usable on the right of <: (empty: none)
	Class  bool     // Rt is a class (usable with <<:)
}

const c02Big = "36893488147419173232" // 2**65 + 70000

var c02Atoms = map[string]*c02Atom{
	"Int":    {Type: "Int", Vals: []string{"3", "0", "-7", c02Big, "4611686018427387904"}, Uses: []string{"%s + 1", "%s * 2", "%s - 1", "-%s", "%s.to_string"}, Rt: "Int", Class: true},
	"Float":  {Type: "Float", Vals: []string{"2.5", "0.0", "-1e20"}, Uses: []string{"%s * 2.0", "%s + 1.5", "%s.to_int"}, Rt: "Float", Class: true},
	"String": {Type: "String", Vals: []string{`"s"`, `""`, `"łódź"`}, Uses: []string{`%s + "z"`, "%s.length", "%s.to_symbol"}, Rt: "String", Class: true},
	"Symbol": {Type: "Symbol", Vals: []string{":foo", ":bar"}, Uses: []string{"%s.to_string"}, Rt: "Symbol", Class: true},
	"Char":   {Type: "Char", Vals: []string{"`c`", "`ś`"}, Uses: []string{"%s.to_string"}, Rt: "Char", Class: true},
	"Bool":   {Type: "Bool", Vals: []string{"true", "false"}, MaybeF: true, Rt: "Bool", Class: true},
	"nil":    {Type: "nil", Vals: []string{"nil"}, Falsy: true},
	"A":      {Type: "A", Vals: []string{"A()"}, Uses: []string{"%s.name"}, Rt: "A", Class: true},
	"B":      {Type: "B", Vals: []string{"B()"}, Supers: []string{"A"}, Uses: []string{"%s.name", "%s.bonly"}, Rt: "B", Class: true},
	"C":      {Type: "C", Vals: []string{"C()"}, Supers: []string{"M"}, Uses: []string{"%s.mm"}, Rt: "C", Class: true},
	"D":      {Type: "D", Vals: []string{"D()"}, Supers: []string{"M"}, Uses: []string{"%s.mm", "%s.donly"}, Rt: "D", Class: true},
	"Int8":   {Type: "Int8", Vals: []string{"5i8", "-127i8"}, Uses: []string{"%s + 1i8", "%s.to_int"}, Rt: "Int8", Class: true},
	"UInt8":  {Type: "UInt8", Vals: []string{"5u8", "255u8"}, Uses: []string{"%s + 1u8", "%s.to_int"}, Rt: "UInt8", Class: true},
	"Int64":  {Type: "Int64", Vals: []string{"7i64", "-9223372036854775807i64"}, Uses: []string{"%s + 1i64", "%s.to_int"}, Rt: "Int64", Class: true},
	"UInt64": {Type: "UInt64", Vals: []string{"7u64", "18446744073709551615u64"}, Uses: []string{"%s + 1u64"}, Rt: "UInt64", Class: true},
	"Float64": {Type: "Float64", Vals: []string{"1.5f64"}, Uses: []string{"%s + 1.0f64"}, Rt: "Float64", Class: true},
	"BigFloat": {Type: "BigFloat", Vals: []string{"1.5bf"}, Uses: []string{"%s + 1.0bf"}, Rt: "BigFloat", Class: true},
	"ListInt": {Type: "ArrayList[Int]", Vals: []string{"[1, 2]", "[7]"}, Uses: []string{"%s.length", "%s[0]"}, Rt: "ArrayList", Class: true},
	"TupStr":  {Type: "ArrayTuple[String]", Vals: []string{`%["a", "b"]`}, Uses: []string{"%s.length", "%s[0]"}, Rt: "ArrayTuple", Class: true},
	"MapSI":   {Type: "HashMap[String, Int]", Vals: []string{`{"a" => 1}`}, Uses: []string{"%s.length"}, Rt: "HashMap", Class: true},
	"BxInt":   {Type: "Bx[Int]", Vals: []string{"Bx(4)"}, Uses: []string{"%s.get", "%s.get + 1"}, Rt: "Bx", Class: true},
}

var c02AtomNames = []string{"Int", "Int", "Float", "String", "String", "Symbol", "Char", "Bool", "nil", "nil", "nil", "A", "B", "C", "D", "Int8", "UInt8", "Int64", "UInt64", "Float64", "BigFloat", "ListInt", "TupStr", "MapSI", "BxInt"}

func init() {
	for n, a := range c02Atoms {
		a.Name = n
	}
}

const c02Decls = `class A
  def name: String then "a"
end
class B < A
  def bonly: Int then 7
end
mixin M
  def mm: Int then 1
end
class C
  include M
end
class D
  include M
  def donly: String then "d"
end
class Bx[T]
  attr v: T
  init(@v); end
  def get: T then @v
  def map[U](f: |x: T|: U): Bx[U]
    Bx::[U](f.call(@v))
  end
  def pair_with[W](w: W): Pr[T, W]
    Pr::[T, W](@v, w)
  end
end
class Pr[K, V]
  attr a: K, b: V
  init(@a, @b); end
  def swap: Pr[V, K] then Pr::[V, K](@b, @a)
end
def ident[T](x: T): T then x
def first_of[T](l: ArrayList[T]): T?
  return nil if l.length == 0
  l[0]
end
def rt_int(x: Int): Int then x
def rt_float(x: Float): Float then x
def rt_str(x: String): String then x
async def slow_int(i: Int): Int
  i * 2
end
async def slow_str(i: Int): String
  i.to_string
end
def *gen_ints(n: Int): Int
  i := 0
  while i < n
    yield i
    i += 1
  end
  n
end
`

type c02Gen struct {
	r      *rand.Rand
	decls  strings.Builder
	nid    int
	pid    int
	probes map[int]*c02Probe
	fams   []string
	// lines with family tags
	runLines []c02Line // body of def run(sel: Int)
	topLines []c02Line // top level
	declFam  []c02Line
	mayThrow map[string]bool
	stdDone  map[string]bool
}

type c02Line struct{ s, fam string }

func (g *c02Gen) id() int { g.nid++; return g.nid }

func (g *c02Gen) pick(xs []string) string { return xs[g.r.IntN(len(xs))] }

// probe allocates a probe id for expression e in family fam.
func (g *c02Gen) probe(fam, e string) int {
	g.pid++
	g.probes[g.pid] = &c02Probe{Fam: fam, Expr: e}
	return g.pid
}

func (g *c02Gen) rec(fam, e string) string { return fmt.Sprintf("R.rec(%d, %s)", g.probe(fam, e), e) }
func (g *c02Gen) tap(fam, e string) string { return fmt.Sprintf("R.tap(%d, %s)", g.probe(fam, e), e) }

// snippet output: where = "run" (inside def run(sel)), "top" or either
type c02Snip struct {
	fam   string
	lines []string
	decl  string
}

// union picks 2..4 distinct atoms.
func (g *c02Gen) union() []*c02Atom {
	n := 2 + g.r.IntN(3)
	seen := map[string]bool{}
	var out []*c02Atom
	for len(out) < n {
		a := c02Atoms[g.pick(c02AtomNames)]
		if seen[a.Name] {
			continue
		}
		seen[a.Name] = true
		out = append(out, a)
	}
	return out
}

func c02UnionType(u []*c02Atom) string {
	parts := make([]string, len(u))
	for i, a := range u {
		parts[i] = a.Type
	}
	return strings.Join(parts, " | ")
}

// pickFn declares def pkN(i: Int): U returning member i % n and returns its name.
func (g *c02Gen) pickFn(u []*c02Atom) string {
	name := fmt.Sprintf("pk%d", g.id())
	// avoid rule: no guarded `return` followed by a call in tail position (known finding K55 / K52 of C13/C14:
	// the method runs past the end of its bytecode); the member is chosen by an if/elsif chain into a typed local
	var b strings.Builder
	U := c02UnionType(u)
	fmt.Fprintf(&b, "def %s(i: Int): %s\n  j := i %% %d\n  var r: %s = %s\n", name, U, len(u), U, g.pick(u[len(u)-1].Vals))
	for k, a := range u[:len(u)-1] {
		kw := "elsif"
		if k == 0 {
			kw = "if"
		}
		fmt.Fprintf(&b, "  %s j == %d\n    r = %s\n", kw, k, g.pick(a.Vals))
	}
	b.WriteString("  end\n  r\nend\n")
	g.decls.WriteString(b.String())
	return name
}

func (a *c02Atom) isA(t string) bool {
	if a.Name == t || a.Rt == t {
		return true
	}
	for _, s := range a.Supers {
		if s == t {
			return true
		}
	}
	return t == "Value" && a.Name != "nil" && false
}

// ---- narrowing ---------------------------------------------------------------------------------------

type c02Cond struct {
	kind string
	src  string
	// then / els: predicted members when the condition holds / fails (nil = unknown)
	then, els []*c02Atom
}

func (g *c02Gen) cond(x string, u []*c02Atom) c02Cond {
	filter := func(f func(a *c02Atom) bool) (in, out []*c02Atom) {
		for _, a := range u {
			if f(a) {
				in = append(in, a)
			} else {
				out = append(out, a)
			}
		}
		return
	}
	// candidate right-hand sides for <:
	var rts []string
	for _, a := range u {
		if a.Rt != "" {
			rts = append(rts, a.Rt)
		}
		for _, s := range a.Supers {
			rts = append(rts, s)
		}
	}
	switch k := g.r.IntN(12); {
	case k < 4 && len(rts) > 0:
		t := g.pick(rts)
		in, out := filter(func(a *c02Atom) bool { return a.isA(t) })
		kind, src := "isa", fmt.Sprintf("%s <: %s", x, t)
		if g.r.IntN(4) == 0 {
			kind, src = "isa-rev", fmt.Sprintf("%s :> %s", t, x)
		}
		return c02Cond{kind: kind, src: src, then: in, els: out}
	case k < 5 && len(rts) > 0:
		t := g.pick(rts)
		if t == "M" {
			t = "C"
		}
		// instance-of: subclasses are excluded; prediction only when no member is a proper subclass
		// (true / false are instances of True / False, never of Bool itself)
		if t == "Bool" {
			return c02Cond{kind: "instof", src: fmt.Sprintf("%s <<: %s", x, t)}
		}
		in, out := filter(func(a *c02Atom) bool { return a.Rt == t })
		for _, a := range u {
			if a.Rt != t && a.isA(t) {
				return c02Cond{kind: "instof", src: fmt.Sprintf("%s <<: %s", x, t)}
			}
		}
		return c02Cond{kind: "instof", src: fmt.Sprintf("%s <<: %s", x, t), then: in, els: out}
	case k < 7:
		in, out := filter(func(a *c02Atom) bool { return !a.Falsy })
		for _, a := range u {
			if a.MaybeF {
				return c02Cond{kind: "truthy", src: x}
			}
		}
		return c02Cond{kind: "truthy", src: x, then: in, els: out}
	case k < 8:
		in, out := filter(func(a *c02Atom) bool { return a.Falsy })
		for _, a := range u {
			if a.MaybeF {
				return c02Cond{kind: "not", src: "!" + x}
			}
		}
		return c02Cond{kind: "not", src: "!" + x, then: in, els: out}
	case k < 9:
		a := u[g.r.IntN(len(u))]
		if len(a.Vals[0]) > 12 || strings.Contains(a.Vals[0], "(") || strings.Contains(a.Vals[0], "[") || strings.Contains(a.Vals[0], "{") {
			return c02Cond{kind: "neq-nil", src: x + " != nil"}
		}
		op := g.pick([]string{"==", "===", "!=", "!=="})
		kind := "eq"
		if op[0] == '!' {
			kind = "neq"
		}
		return c02Cond{kind: kind, src: fmt.Sprintf("%s %s %s", x, op, g.pick(a.Vals))}
	case k < 10:
		return c02Cond{kind: "neq-nil", src: x + " != nil"}
	case k < 11 && len(rts) > 0:
		// conjunction / disjunction of two simple conditions
		t1, t2 := g.pick(rts), g.pick(rts)
		if g.r.IntN(2) == 0 {
			return c02Cond{kind: "and", src: fmt.Sprintf("%s && %s <: %s", x, x, t1)}
		}
		in, out := filter(func(a *c02Atom) bool { return a.isA(t1) || a.isA(t2) })
		return c02Cond{kind: "or", src: fmt.Sprintf("%s <: %s || %s <: %s", x, t1, x, t2), then: in, els: out}
	default:
		if len(rts) > 0 {
			t := g.pick(rts)
			in, out := filter(func(a *c02Atom) bool { return a.isA(t) })
			return c02Cond{kind: "not-isa", src: fmt.Sprintf("(!(%s <: %s))", x, t), then: out, els: in}
		}
		return c02Cond{kind: "neq-nil", src: x + " != nil"}
	}
}

// uses returns probe expressions for local x narrowed to exactly one known atom.
func (g *c02Gen) uses(fam, x string, members []*c02Atom) []string {
	if len(members) != 1 || len(members[0].Uses) == 0 || g.r.IntN(3) == 0 {
		return nil
	}
	e := fmt.Sprintf(g.pick(members[0].Uses), x)
	return []string{g.rec(fam+"/use", e)}
}

var c02Ctxs = []string{"if", "if-else", "unless", "unless-else", "mod-if", "mod-unless", "while", "until", "and", "or", "if-then-expr",
	"list-if", "list-unless", "list-ifelse", "tuple-if", "tuple-unless", "set-if", "map-if", "map-unless", "map-ifelse", "record-if", "record-unless",
	"return-unless", "return-if", "elsif", "nested-if", "closure-body"}

var c02Muts = []string{"none", "none", "none", "reassign", "reassign-nested", "reassign-loop", "reassign-while", "closure-call", "capture-then-reassign", "reassign-catch"}

func c02Indent(lines []string, n int) []string {
	out := make([]string, len(lines))
	p := strings.Repeat("  ", n)
	for i, l := range lines {
		out[i] = p + l
	}
	return out
}

// narrow builds one narrowing snippet. sel is the expression selecting the union member.
func (g *c02Gen) narrow(sel string) *c02Snip {
	u := g.union()
	pk := g.pickFn(u)
	x := fmt.Sprintf("x%d", g.id())
	cd := g.cond(x, u)
	ctx := g.pick(c02Ctxs)
	mut := g.pick(c02Muts)
	stmtCtx := map[string]bool{"if": true, "if-else": true, "unless": true, "unless-else": true, "while": true, "until": true, "elsif": true, "nested-if": true, "return-unless": true, "return-if": true}
	if cd.kind == "instof" && cd.then == nil && !stmtCtx[ctx] {
		// avoid rule (known finding K-C02-instance-of-else): in a collection literal the value that slips through
		// the falsy branch is stored into a typed native array and ends the program with a TypeError
		ctx = "if-else"
	}
	if !stmtCtx[ctx] {
		mut = "none"
	}
	fam := fmt.Sprintf("narrow:%s:%s:%s", cd.kind, ctx, mut)
	s := &c02Snip{fam: fam}
	other := func() string { // a value of another member of the union, for reassignment
		a := u[g.r.IntN(len(u))]
		return g.pick(a.Vals)
	}
	// the branch body: probes of x (+ uses), then the mutation and probes after it
	body := func(branch string, members []*c02Atom) []string {
		bf := fam + ":" + branch
		ls := []string{g.rec(bf, x)}
		ls = append(ls, g.uses(bf, x, members)...)
		switch mut {
		case "reassign":
			ls = append(ls, fmt.Sprintf("%s = %s", x, other()), g.rec(bf+"/after", x))
		case "reassign-nested":
			ls = append(ls, fmt.Sprintf("if %s %% 2 == 0", sel), fmt.Sprintf("  %s = %s", x, other()), "end", g.rec(bf+"/after", x))
		case "reassign-loop":
			ls = append(ls, fmt.Sprintf("for q%d in [1, 2]", g.id()), "  "+g.rec(bf+"/in-loop", x), fmt.Sprintf("  %s = %s", x, other()), "end", g.rec(bf+"/after", x))
		case "reassign-while":
			n := g.id()
			ls = append(ls, fmt.Sprintf("n%d := 0", n), fmt.Sprintf("while n%d < 2", n), "  "+g.rec(bf+"/in-loop", x), fmt.Sprintf("  %s = %s", x, other()), fmt.Sprintf("  n%d += 1", n), "end", g.rec(bf+"/after", x))
		case "closure-call":
			ls = append(ls, fmt.Sprintf("f%s()", x), g.rec(bf+"/after", x))
		case "capture-then-reassign":
			n := g.id()
			ls = append(ls, fmt.Sprintf("h%d := || -> %s", n, g.tap(bf+"/captured", x)), fmt.Sprintf("%s = %s", x, other()), fmt.Sprintf("h%d()", n), g.rec(bf+"/after", x))
		case "reassign-catch":
			ls = append(ls, "do", fmt.Sprintf("  %s = %s", x, other()), "  throw unchecked 7 if "+sel+" % 2 == 0", "catch Int() as e"+x, "  "+g.rec(bf+"/in-catch", x), "end", g.rec(bf+"/after", x))
		}
		return ls
	}
	decl := fmt.Sprintf("var %s: %s = %s(%s)", x, c02UnionType(u), pk, sel)
	if g.r.IntN(3) == 0 {
		decl = fmt.Sprintf("var %s = %s(%s)", x, pk, sel)
	}
	L := []string{decl}
	if mut == "closure-call" {
		L = append(L, fmt.Sprintf("f%s := || -> %s = %s", x, x, other()))
	}
	L = append(L, g.rec(fam+":before", x))
	c := cd.src
	exprProbe := func(branch string, members []*c02Atom) string { // probe in expression position
		if len(members) == 1 && len(members[0].Uses) > 0 && g.r.IntN(2) == 0 {
			return g.tap(fam+":"+branch+"/use", fmt.Sprintf(g.pick(members[0].Uses), x))
		}
		return g.tap(fam+":"+branch, x)
	}
	res := fmt.Sprintf("r%d", g.id())
	switch ctx {
	case "if":
		L = append(L, "if "+c)
		L = append(L, c02Indent(body("then", cd.then), 1)...)
		L = append(L, "end")
	case "if-else":
		L = append(L, "if "+c)
		L = append(L, c02Indent(body("then", cd.then), 1)...)
		L = append(L, "else")
		L = append(L, c02Indent(body("else", cd.els), 1)...)
		L = append(L, "end")
	case "unless":
		L = append(L, "unless "+c)
		L = append(L, c02Indent(body("else", cd.els), 1)...)
		L = append(L, "end")
	case "unless-else":
		L = append(L, "unless "+c)
		L = append(L, c02Indent(body("else", cd.els), 1)...)
		L = append(L, "else")
		L = append(L, c02Indent(body("then", cd.then), 1)...)
		L = append(L, "end")
	case "elsif":
		L = append(L, fmt.Sprintf("if %s %% 5 == 4", sel), "  nil", "elsif "+c)
		L = append(L, c02Indent(body("then", cd.then), 1)...)
		L = append(L, "else")
		L = append(L, "  "+g.rec(fam+":elsif-else", x))
		L = append(L, "end")
	case "nested-if":
		L = append(L, "if "+c, fmt.Sprintf("  if %s >= 0", sel))
		L = append(L, c02Indent(body("then", cd.then), 2)...)
		L = append(L, "  end", "  "+g.rec(fam+":then-after-inner", x), "end")
	case "mod-if":
		L = append(L, exprProbe("then", cd.then)+" if "+c)
	case "mod-unless":
		L = append(L, exprProbe("else", cd.els)+" unless "+c)
	case "while":
		L = append(L, "while "+c)
		L = append(L, c02Indent(body("then", cd.then), 1)...)
		L = append(L, "  break", "end")
	case "until":
		L = append(L, "until "+c)
		L = append(L, c02Indent(body("else", cd.els), 1)...)
		L = append(L, "  break", "end")
	case "and":
		L = append(L, fmt.Sprintf("%s := %s && %s", res, c, exprProbe("then", cd.then)), g.rec(fam+":result", res))
	case "or":
		L = append(L, fmt.Sprintf("%s := %s || %s", res, c, exprProbe("else", cd.els)), g.rec(fam+":result", res))
	case "if-then-expr":
		L = append(L, fmt.Sprintf("%s := if %s then %s else %s", res, c, exprProbe("then", cd.then), exprProbe("else", cd.els)), g.rec(fam+":result", res))
	case "list-if":
		L = append(L, fmt.Sprintf("%s := [0.5, %s if %s]", res, exprProbe("then", cd.then), c), g.rec(fam+":result", res))
	case "list-unless":
		L = append(L, fmt.Sprintf("%s := [0.5, %s unless %s]", res, exprProbe("else", cd.els), c), g.rec(fam+":result", res))
	case "list-ifelse":
		L = append(L, fmt.Sprintf("%s := [%s if %s else %s]", res, exprProbe("then", cd.then), c, exprProbe("else", cd.els)), g.rec(fam+":result", res))
	case "tuple-if":
		L = append(L, fmt.Sprintf("%s := %%[%s if %s]", res, exprProbe("then", cd.then), c), g.rec(fam+":result", res))
	case "tuple-unless":
		L = append(L, fmt.Sprintf("%s := %%[%s unless %s]", res, exprProbe("else", cd.els), c), g.rec(fam+":result", res))
	case "set-if":
		L = append(L, fmt.Sprintf("%s := ^[%s if %s]", res, g.tap(fam+":then", x), c), g.rec(fam+":result", res))
	case "map-if":
		L = append(L, fmt.Sprintf("%s := { \"k\" => %s if %s }", res, exprProbe("then", cd.then), c), g.rec(fam+":result", res))
	case "map-unless":
		L = append(L, fmt.Sprintf("%s := { \"k\" => %s unless %s }", res, exprProbe("else", cd.els), c), g.rec(fam+":result", res))
	case "map-ifelse":
		L = append(L, fmt.Sprintf("%s := { \"k\" => %s if %s else \"j\" => %s }", res, exprProbe("then", cd.then), c, exprProbe("else", cd.els)), g.rec(fam+":result", res))
	case "record-if":
		L = append(L, fmt.Sprintf("%s := %%{ \"k\" => %s if %s }", res, exprProbe("then", cd.then), c), g.rec(fam+":result", res))
	case "record-unless":
		L = append(L, fmt.Sprintf("%s := %%{ \"k\" => %s unless %s }", res, exprProbe("else", cd.els), c), g.rec(fam+":result", res))
	case "closure-body":
		n := g.id()
		L = append(L, fmt.Sprintf("if %s", c), fmt.Sprintf("  c%d := || -> %s", n, exprProbe("then", cd.then)), fmt.Sprintf("  c%d()", n), "end")
	case "return-unless", "return-if":
		// own method: early return, then the rest of the body is narrowed
		m := fmt.Sprintf("er%d", g.id())
		var b strings.Builder
		fmt.Fprintf(&b, "def %s(sel: Int): nil\n", m)
		for _, l := range L {
			fmt.Fprintf(&b, "  %s\n", strings.ReplaceAll(l, sel, "sel"))
		}
		var rest []string
		if ctx == "return-unless" {
			fmt.Fprintf(&b, "  return nil unless %s\n", c)
			rest = body("then", cd.then)
		} else {
			fmt.Fprintf(&b, "  return nil if %s\n", c)
			rest = body("else", cd.els)
		}
		for _, l := range rest {
			fmt.Fprintf(&b, "  %s\n", strings.ReplaceAll(l, sel, "sel"))
		}
		b.WriteString("  nil\nend\n")
		s.decl = b.String()
		s.lines = []string{fmt.Sprintf("%s(%s)", m, sel)}
		return s
	}
	L = append(L, g.rec(fam+":after-all", x))
	s.lines = L
	return s
}

// coalesce: ??, must, as, try-like forms on a nilable local
func (g *c02Gen) coalesce(sel string) *c02Snip {
	u := g.union()
	hasNil := false
	for _, a := range u {
		if a.Name == "nil" {
			hasNil = true
		}
	}
	if !hasNil {
		u = append(u, c02Atoms["nil"])
	}
	pk := g.pickFn(u)
	x := fmt.Sprintf("x%d", g.id())
	var nn []*c02Atom
	for _, a := range u {
		if a.Name != "nil" {
			nn = append(nn, a)
		}
	}
	d := nn[g.r.IntN(len(nn))]
	L := []string{fmt.Sprintf("%s := %s(%s)", x, pk, sel)}
	switch g.r.IntN(5) {
	case 0:
		fam := "coalesce:??"
		L = append(L, g.rec(fam, fmt.Sprintf("%s ?? %s", x, g.pick(d.Vals))))
		return &c02Snip{fam: fam, lines: L}
	case 1:
		fam := "coalesce:??-chain"
		y := fmt.Sprintf("y%d", g.id())
		L = append(L, fmt.Sprintf("%s := %s(%s + 1)", y, pk, sel), g.rec(fam, fmt.Sprintf("%s ?? %s ?? %s", x, y, g.pick(d.Vals))))
		return &c02Snip{fam: fam, lines: L}
	case 2:
		fam := "coalesce:must"
		L = append(L, "do", "  "+g.rec(fam, "must "+x), "catch e"+x, "  nil", "end")
		return &c02Snip{fam: fam, lines: L}
	case 3:
		fam := "coalesce:as"
		if d.Rt == "" || !d.Class || strings.Contains("A B C D Bx", d.Rt) {
			L = append(L, "do", "  "+g.rec(fam, fmt.Sprintf("%s as ::Std::Value", x)), "catch e"+x, "  nil", "end")
		} else {
			L = append(L, "do", "  "+g.rec(fam, fmt.Sprintf("%s as ::Std::%s", x, d.Rt)), "catch e"+x, "  nil", "end")
		}
		return &c02Snip{fam: fam, lines: L}
	default:
		fam := "coalesce:||"
		L = append(L, g.rec(fam, fmt.Sprintf("%s || %s", x, g.pick(d.Vals))), g.rec("coalesce:&&", fmt.Sprintf("%s && %s", x, g.pick(d.Vals))))
		return &c02Snip{fam: fam, lines: L}
	}
}

// ---- arithmetic --------------------------------------------------------------------------------------

type c02Num struct {
	kind  string
	lits  []string // non-zero literals
	small []string // small positive literals (exponents, shifts)
	rt    string   // wrapper making the operand a run-time value ("" = typed local)
}

var c02Nums = map[string]*c02Num{
	"Int":      {lits: []string{"3", "-7", "70000", c02Big, "-" + c02Big, "4611686018427387904", "9223372036854775807"}, small: []string{"2", "3", "1"}},
	"Float":    {lits: []string{"2.5", "-0.5", "1e20", "3.0"}, small: []string{"2.0", "0.5"}},
	"BigFloat": {lits: []string{"1.5bf", "-3.25bf"}, small: []string{"2.0bf"}},
	"Int8":     {lits: []string{"5i8", "-127i8", "127i8"}, small: []string{"2i8", "1i8"}},
	"Int16":    {lits: []string{"300i16", "-5i16", "32767i16"}, small: []string{"2i16"}},
	"Int32":    {lits: []string{"70000i32", "-5i32", "2147483647i32"}, small: []string{"2i32"}},
	"Int64":    {lits: []string{"7i64", "-9223372036854775807i64", "9223372036854775807i64"}, small: []string{"2i64"}},
	"UInt8":    {lits: []string{"5u8", "255u8"}, small: []string{"2u8"}},
	"UInt16":   {lits: []string{"5u16", "65535u16"}, small: []string{"2u16"}},
	"UInt32":   {lits: []string{"5u32", "4294967295u32"}, small: []string{"2u32"}},
	"UInt64":   {lits: []string{"7u64", "18446744073709551615u64"}, small: []string{"2u64"}},
	"UInt":     {lits: []string{"7u", "12345u"}, small: []string{"2u"}},
	"Float64":  {lits: []string{"1.5f64", "-0.25f64"}, small: []string{"2.0f64"}},
	"Float32":  {lits: []string{"1.5f32", "-0.25f32"}, small: []string{"2.0f32"}},
}
var c02NumKinds = []string{"Int", "Int", "Int", "Float", "Float", "BigFloat", "Int8", "Int16", "Int32", "Int64", "UInt8", "UInt16", "UInt32", "UInt64", "UInt", "Float64", "Float32"}

func init() {
	for k, n := range c02Nums {
		n.kind = k
	}
}

func (g *c02Gen) arith(sel string) *c02Snip {
	k1 := c02Nums[g.pick(c02NumKinds)]
	k2 := k1
	mixable := map[string]bool{"Int": true, "Float": true, "BigFloat": true}
	if mixable[k1.kind] && g.r.IntN(2) == 0 {
		k2 = c02Nums[g.pick([]string{"Int", "Float", "BigFloat"})]
	}
	isInt := func(k string) bool { return strings.Contains(k, "Int") }
	ops := []string{"+", "-", "*", "/", "%", "**", "<", "<=", ">", ">=", "==", "!=", "<=>"}
	if isInt(k1.kind) && k1 == k2 {
		ops = append(ops, "&", "|", "^", "<<", ">>")
	}
	op := g.pick(ops)
	mode := g.pick([]string{"const", "rt-left", "rt-right", "rt-both"})
	fam := fmt.Sprintf("arith:%s:%s:%s:%s", k1.kind, op, k2.kind, mode)
	s := &c02Snip{fam: fam}
	a, b := g.pick(k1.lits), g.pick(k2.lits)
	if op == "**" || op == "<<" || op == ">>" {
		b = g.pick(k2.small)
		if len(a) > 12 && op != ">>" {
			a = k1.lits[0]
		}
	}
	operand := func(lit string, k *c02Num, rt bool) string {
		if strings.HasPrefix(lit, "-") {
			lit = "(" + lit + ")"
		}
		if !rt {
			return lit
		}
		v := fmt.Sprintf("a%d", g.id())
		s.lines = append(s.lines, fmt.Sprintf("var %s: %s = %s", v, k.kind, lit))
		if g.r.IntN(2) == 0 { // defeat any folding through a method that depends on a run-time value
			s.lines = append(s.lines, fmt.Sprintf("%s = ident(%s) if %s >= 0", v, v, sel))
		}
		return v
	}
	l := operand(a, k1, mode == "rt-left" || mode == "rt-both")
	r := operand(b, k2, mode == "rt-right" || mode == "rt-both")
	e := fmt.Sprintf("%s %s %s", l, op, r)
	s.lines = append(s.lines, g.rec(fam, e))
	if g.r.IntN(3) == 0 {
		un := g.pick([]string{"-", "+", "~"})
		if un == "~" && !isInt(k1.kind) {
			un = "-"
		}
		if strings.HasPrefix(k1.kind, "UInt") && un == "-" {
			un = "+"
		}
		s.lines = append(s.lines, g.rec(fmt.Sprintf("arith-unary:%s:%s", un, k1.kind), fmt.Sprintf("%s%s", un, l)))
	}
	if g.r.IntN(3) == 0 && k1 == k2 {
		// compound assignment keeps the declared type
		v := fmt.Sprintf("c%d", g.id())
		cop := g.pick([]string{"+=", "-=", "*="})
		s.lines = append(s.lines, fmt.Sprintf("var %s: %s = %s", v, k1.kind, strings.Trim(a, "()")), fmt.Sprintf("%s %s %s", v, cop, r), g.rec(fmt.Sprintf("arith-assign:%s:%s", cop, k1.kind), v))
	}
	return s
}

// ---- std method results -----------------------------------------------------------------------------------

// operands available to templates: ri small Int, rb big Int, rf Float, rs String, rl ArrayList[Int], rm HashMap[String, Int]
var c02StdSetup = []string{
	"var ri: Int = 5", "var rb: Int = " + c02Big + " + 300", "var rn: Int = -" + c02Big, "var rf: Float = 2.75", "var rs: String = \"héllo wörld\"",
	"var rl: ArrayList[Int] = [3, 1, 2]", "var rm: HashMap[String, Int] = {\"a\" => 1, \"b\" => 2}", "var rt: ArrayTuple[Int | String] = %[1, \"x\"]",
	"var re: ArrayList[String] = []",
}

var c02ConvRecv = []string{"ri", "rb", "rn", "rf", "(-ri)", "0", "300", "(2 ** 70 + 300)", "1e30", "(-2.5)", "1.5bf", "5i8", "300i16", "70000i32", "7i64", "200u8", "65535u16", "7u32", "18446744073709551615u64", "9u", "1.5f64", "2.5f32"}
var c02Convs = []string{"to_int", "to_float", "to_int8", "to_int16", "to_int32", "to_int64", "to_uint", "to_uint8", "to_uint16", "to_uint32", "to_uint64", "to_float32", "to_float64", "to_string", "inspect", "hash"}

var c02StdExprs = []string{
	"rl.length", "rl[0]", "rl.try_at(9)", "rl.map(|e: Int|: String -> e.to_string)", "rl.filter(|e: Int|: bool -> e > 1)", "rl + [1.5]", "rl + [\"a\"]", "rl * 2",
	"rl.contains(2)", "rl.to_tuple", "rl.iter", "rl.to_list", "rl.reduce(|a: Int, e: Int|: Int -> a + e)", "rl.fold(0.5, |a: Float, e: Int|: Float -> a + e)",
	"rl.take(2)", "rl.drop(1)", "rl.take(2).to_list", "rl.any(|e: Int|: bool -> e > 2)", "rl.count(|e: Int|: bool -> e > 2)", "rl.index_of(1)", "re.try_first",
	"rm.length", "rm[\"a\"]", "rm[\"zz\"]", "rm.contains_key(\"a\")",
	"rm.map(|p: Pair[String, Int]|: Int -> p.value)", "rm + {1 => 2.5}", "rm.to_list", "rm.map_values(|v: Int|: String -> v.to_string)",
	"rm.filter(|p: Pair[String, Int]|: bool -> p.value > 1)", "rt[0]", "rt[1]", "rt.length", "rt + %[1.5]", "rt.to_list", "rs.length", "rs.char_count",
	"rs.byte_count", "rs + rs", "rs * 2", "rs.uppercase", "rs.to_symbol", "rs.char_at(1)", "rs.byte_at(1)", "rs.is_empty", "rs.concat(\"x\")", "rs <=> \"a\"",
	"rs == \"a\"", "rs.grapheme_count", "rs.lowercase", "rs.hash", "(1...ri)", "(1...ri).contains(3)", "(1.5...rf).contains(2.0)", "(1...)", "(...5)",
	"(1...ri).start", "(1...ri).end", "(1...ri).is_left_closed", "%/l+/.matches(rs)", "%/l+/ + %/o/", "%/l+/ * 2", "%/l+/.to_string", "%/l+/.inspect",
	"%/l+/ == %/l/", "%/l+/.hash", ":foo.to_string", ":foo.inspect", ":foo == :bar", ":foo.hash", "`a`.to_string", "`a`.byte_count", "`a` <=> `b`", "`a`.uppercase",
	"`a` + \"b\"", "`a` * 3", "ri.times(|i: Int| -> nil)", "ri.is_even", "ri ** 2", "ri.iter", "rb.is_odd", "rb % ri", "rb / ri", "rn % ri", "rn / ri", "ri <=> rb",
	"rb <=> 1.5", "ri.hash", "ri.seconds", "ri.days", "ri++", "rb++", "rb--", "~rb", "rf <=> 1", "rf % 2", "rf.to_int", "rf ** 2", "rf.hash", "nil.to_string",
	"nil.inspect", "nil == nil", "true && ri", "false || rs", "nil ?? ri", "!ri", "true.hash", "Pair(ri, rs)", "Pair(ri, rs).key", "Pair(ri, rs).value",
	"Pair(ri, rs)[0]", "Pair(ri, rs)[1]", "Box(ri).get", "Box(ri)", "Box(rs).to_immutable_box", "^[ri, 2, 2]", "^[ri, 2].length", "^[ri] + ^[rs]", "^[ri] | ^[2.5]",
	"^[ri, 7] & ^[7]", "^[ri].contains(5)", "^[ri].to_list", "^[ri].map(|e: Int|: String -> e.to_string)", "%{\"a\" => ri}", "%{\"a\" => ri}[\"a\"]",
	"%{\"a\" => ri}.length", "%{\"a\" => ri} + %{1 => 2.5}", "Promise.resolved(ri)", "await Promise.resolved(ri)", "Promise.wait(Promise.resolved(1))",
	"await slow_int(ri)", "await slow_str(ri)", "slow_int(ri)", "(await slow_int(ri)) + 1", "gen_ints(2)", "gen_ints(3).to_list",
	"gen_ints(3).map(|e: Int|: Int -> e * 2).to_list", "gen_ints(2).iter", "ri.class", "rs.class", "rl.class", "A().class", "B().class.name", "ri.class.name",
	"A().hash", "A() == A()", "A().inspect", "Time.now", "1.hour", "2.seconds + 1.minute", "Time.now - 1.hour", "Time.now.to_string", "Kernel.sleep(0.nanoseconds)",
	"print(\"\")", "println(\"\")", "\"#{ri} and #{rs}\"", "rs.to_string", "ri.inspect + rs.inspect", "Channel::[Int](1)", "Sync::Mutex()", "Sync::WaitGroup(0)",
	"rl.iter.to_list", "rl.to_collection", "rl.to_immutable_collection", "rl.length.to_float", "rl.try_first", "rl.try_last", "rl.is_empty", "rl.append(4)",
	"rl.push(5)", "rl << 6", "(rl << 6).pop", "(rl << 7).remove_at(0)", "rl.capacity", "rl.grow(2)", "rl.copy", "rm.copy", "rm.is_empty", "rm.contains_value(1)",
}

func (g *c02Gen) std(sel string) *c02Snip {
	s := &c02Snip{}
	if !g.stdDone[sel] {
		g.stdDone[sel] = true
		s.lines = append(s.lines, c02StdSetup...)
	}
	n := 3 + g.r.IntN(4)
	for i := 0; i < n; i++ {
		if g.r.IntN(3) == 0 {
			recv, m := g.pick(c02ConvRecv), g.pick(c02Convs)
			if c02ConvAvoid(recv, m) {
				continue
			}
			kind := "small"
			switch recv {
			case "rb", "rn", "(2 ** 70 + 300)", "1e30":
				kind = "big"
			}
			fam := "std:conv:" + m + ":" + kind
			s.lines = append(s.lines, g.rec(fam, recv+"."+m))
			s.fam = fam
			continue
		}
		e := g.pick(c02StdExprs)
		fam := "std:" + c02ExprShape(e)
		s.lines = append(s.lines, g.rec(fam, e))
		s.fam = fam
	}
	return s
}

// c02ExprShape names an std expression by its method / operator skeleton (stable signature part).
func c02ExprShape(e string) string {
	e = c02StrRe.ReplaceAllString(e, "S")
	e = strings.NewReplacer(" ", "", "Std::", "").Replace(e)
	if len(e) > 40 {
		e = e[:40]
	}
	return e
}

// ---- generics ----------------------------------------------------------------------------------------

func (g *c02Gen) generics(sel string) *c02Snip {
	fam := "generic"
	s := &c02Snip{fam: fam}
	u := g.union()
	pk := g.pickFn(u)
	U := c02UnionType(u)
	a := c02Atoms[g.pick([]string{"Int", "String", "Float", "A", "B", "Symbol", "Int8", "ListInt"})]
	v := g.pick(a.Vals)
	n := g.id()
	b, p := fmt.Sprintf("b%d", n), fmt.Sprintf("p%d", n)
	switch g.r.IntN(7) {
	case 0:
		s.lines = append(s.lines, fmt.Sprintf("%s := Bx(%s)", b, v), g.rec(fam+":Bx.get", b+".get"), g.rec(fam+":Bx", b), g.rec(fam+":Bx.v", b+".v"))
		if len(a.Uses) > 0 {
			s.lines = append(s.lines, g.rec(fam+":Bx.get/use", fmt.Sprintf(g.pick(a.Uses), b+".get")))
		}
	case 1:
		s.lines = append(s.lines, fmt.Sprintf("%s := Bx::[%s](%s(%s))", b, U, pk, sel), g.rec(fam+":Bx[U].get", b+".get"), g.rec(fam+":Bx[U]", b),
			fmt.Sprintf("%s.v = %s(%s + 1)", b, pk, sel), g.rec(fam+":Bx[U].get/after-set", b+".get"))
	case 2:
		s.lines = append(s.lines, fmt.Sprintf("%s := Bx(%s)", b, v), g.rec(fam+":Bx.map", fmt.Sprintf("%s.map(|q: %s|: %s -> %s(%s))", b, a.Type, U, pk, sel)),
			g.rec(fam+":Bx.map.get", fmt.Sprintf("%s.map(|q: %s|: %s -> q).get", b, a.Type, a.Type)))
	case 3:
		s.lines = append(s.lines, fmt.Sprintf("%s := Pr(%s, %s(%s))", p, v, pk, sel), g.rec(fam+":Pr", p), g.rec(fam+":Pr.swap", p+".swap"), g.rec(fam+":Pr.swap.a", p+".swap.a"), g.rec(fam+":Pr.b", p+".b"),
			g.rec(fam+":Pr.swap.swap.a", p+".swap.swap.a"))
	case 4:
		s.lines = append(s.lines, g.rec(fam+":ident", fmt.Sprintf("ident(%s)", v)), g.rec(fam+":ident[U]", fmt.Sprintf("ident(%s(%s))", pk, sel)),
			g.rec(fam+":ident::[U]", fmt.Sprintf("ident::[%s](%s)", U, g.pick(u[0].Vals))))
	case 5:
		s.lines = append(s.lines, g.rec(fam+":first_of", fmt.Sprintf("first_of([%s, %s])", v, g.pick(a.Vals))), g.rec(fam+":first_of[U]", fmt.Sprintf("first_of([%s(%s), %s(%s + 1)])", pk, sel, pk, sel)),
			fmt.Sprintf("var e%d: ArrayList[%s] = []", n, a.Type), g.rec(fam+":first_of-empty", fmt.Sprintf("first_of(e%d)", n)))
	default:
		s.lines = append(s.lines, fmt.Sprintf("%s := Bx(%s)", b, v), g.rec(fam+":pair_with", fmt.Sprintf("%s.pair_with(%s(%s))", b, pk, sel)), g.rec(fam+":pair_with.b", fmt.Sprintf("%s.pair_with(%s(%s)).b", b, pk, sel)),
			fmt.Sprintf("var l%d: ArrayList[Bx[%s]] = [Bx::[%s](%s(%s))]", n, U, U, pk, sel), g.rec(fam+":list-of-Bx[0].get", fmt.Sprintf("l%d[0].get", n)), g.rec(fam+":list-of-Bx", fmt.Sprintf("l%d", n)))
	}
	return s
}

// ---- switch / patterns -------------------------------------------------------------------------------------

func (g *c02Gen) patterns(sel string) *c02Snip {
	u := g.union()
	pk := g.pickFn(u)
	x := fmt.Sprintf("x%d", g.id())
	fam := "switch"
	s := &c02Snip{fam: fam}
	L := []string{fmt.Sprintf("%s := %s(%s)", x, pk, sel), "switch " + x}
	order := g.r.Perm(len(u))
	for _, i := range order {
		a := u[i]
		n := g.id()
		switch {
		case a.Name == "nil":
			L = append(L, "case nil", "  "+g.rec(fam+":case-nil", x))
		case a.Name == "Bool":
			L = append(L, "case true", "  "+g.rec(fam+":case-true", x), "case false", "  "+g.rec(fam+":case-false", x))
		case a.Name == "ListInt" && g.r.IntN(2) == 0:
			L = append(L, fmt.Sprintf("case [a%d, *r%d]", n, n), "  "+g.rec(fam+":list-pattern:elem", fmt.Sprintf("a%d", n)), "  "+g.rec(fam+":list-pattern:rest", fmt.Sprintf("r%d", n)))
		case a.Name == "BxInt" && g.r.IntN(2) == 0:
			L = append(L, fmt.Sprintf("case Bx(v: v%d)", n), "  "+g.rec(fam+":object-pattern:attr", fmt.Sprintf("v%d", n)))
		case (a.Name == "Int" || a.Name == "Float") && g.r.IntN(3) == 0:
			L = append(L, fmt.Sprintf("case > 2 as g%d", n), "  "+g.rec(fam+":relational-pattern", fmt.Sprintf("g%d", n)), "  "+g.rec(fam+":relational-pattern:subject", x))
		case len(a.Vals[0]) < 8 && !strings.ContainsAny(a.Vals[0], "([{") && g.r.IntN(3) == 0:
			L = append(L, "case "+a.Vals[0], "  "+g.rec(fam+":literal-pattern:"+a.Name, x))
		case a.Class && a.Rt != "":
			L = append(L, fmt.Sprintf("case %s() as o%d", a.Rt, n), "  "+g.rec(fam+":class-pattern:"+a.Name, fmt.Sprintf("o%d", n)), "  "+g.rec(fam+":class-pattern:subject", x))
			if len(a.Uses) > 0 && g.r.IntN(2) == 0 {
				L = append(L, "  "+g.rec(fam+":class-pattern/use", fmt.Sprintf(g.pick(a.Uses), fmt.Sprintf("o%d", n))))
			}
		}
	}
	L = append(L, "else", "  "+g.rec(fam+":else", x), "end")
	s.lines = L
	return s
}

// ---- closures, async, generators -----------------------------------------------------------------------------

func (g *c02Gen) closures(sel string) *c02Snip {
	u := g.union()
	pk := g.pickFn(u)
	U := c02UnionType(u)
	n := g.id()
	fam := "closure"
	s := &c02Snip{fam: fam}
	switch g.r.IntN(6) {
	case 0:
		s.lines = append(s.lines, fmt.Sprintf("c%d := |i: Int|: %s -> %s(i)", n, U, pk), g.rec(fam+":call", fmt.Sprintf("c%d.call(%s)", n, sel)), g.rec(fam+":()", fmt.Sprintf("c%d(%s)", n, sel)), g.rec(fam+":value", fmt.Sprintf("c%d", n)))
	case 1:
		s.lines = append(s.lines, fmt.Sprintf("c%d := |i: Int| -> %s(i)", n, pk), g.rec(fam+":inferred-return", fmt.Sprintf("c%d.call(%s)", n, sel)))
	case 2:
		s.decl = fmt.Sprintf("async def as%d(i: Int): %s\n  %s(i)\nend\n", n, U, pk)
		s.lines = append(s.lines, g.rec("async:await", fmt.Sprintf("await as%d(%s)", n, sel)), g.rec("async:promise", fmt.Sprintf("as%d(%s)", n, sel)),
			fmt.Sprintf("pr%d := as%d(%s)", n, n, sel), g.rec("async:await-local", fmt.Sprintf("await pr%d", n)))
		s.fam = "async"
	case 3:
		s.decl = fmt.Sprintf("def *ge%d(i: Int): %s\n  yield %s(i)\n  yield %s(i + 1)\n  %s(i + 2)\nend\n", n, U, pk, pk, pk)
		s.lines = append(s.lines, fmt.Sprintf("for e%d in ge%d(%s)", n, n, sel), "  "+g.rec("generator:for-elem", fmt.Sprintf("e%d", n)), "end", g.rec("generator:to_list", fmt.Sprintf("ge%d(%s).to_list", n, sel)),
			g.rec("generator:value", fmt.Sprintf("ge%d(%s)", n, sel)))
		s.fam = "generator"
	case 4:
		s.lines = append(s.lines, fmt.Sprintf("var acc%d: %s = %s(%s)", n, U, pk, sel), fmt.Sprintf("set%d := |i: Int| -> acc%d = %s(i)", n, n, pk), fmt.Sprintf("set%d.call(%s + 1)", n, sel), g.rec(fam+":upvalue-after-set", fmt.Sprintf("acc%d", n)))
	default:
		s.lines = append(s.lines, fmt.Sprintf("l%d := [%s, %s + 1, %s + 2].map(|i: Int|: %s -> %s(i))", n, sel, sel, sel, U, pk), g.rec(fam+":map-result", fmt.Sprintf("l%d", n)), g.rec(fam+":map-result[1]", fmt.Sprintf("l%d[1]", n)),
			fmt.Sprintf("for e%d in l%d", n, n), "  "+g.rec(fam+":for-elem", fmt.Sprintf("e%d", n)), "end")
	}
	return s
}

// ---- assembly ----------------------------------------------------------------------------------------

func c02Generate(i int, r *rand.Rand, quick bool) *c02Program {
	g := &c02Gen{r: r, probes: map[int]*c02Probe{}, mayThrow: map[string]bool{}, stdDone: map[string]bool{}}
	nsn := 4 + r.IntN(4)
	type placed struct {
		s   *c02Snip
		top bool
	}
	var all []placed
	topSel := fmt.Sprint(r.IntN(4))
	for k := 0; k < nsn; k++ {
		top := r.IntN(3) == 0
		sel := "sel"
		if top {
			sel = topSel
		}
		var s *c02Snip
		switch w := r.IntN(20); {
		case w < 8:
			s = g.narrow(sel)
		case w < 10:
			s = g.coalesce(sel)
		case w < 13:
			s = g.arith(sel)
		case w < 15:
			s = g.std(sel)
		case w < 17:
			s = g.generics(sel)
		case w < 18:
			s = g.patterns(sel)
		default:
			s = g.closures(sel)
		}
		all = append(all, placed{s, top})
	}
	p := &c02Program{Probes: g.probes, MayThrow: g.mayThrow}
	var sb strings.Builder
	emit := func(text, fam string) {
		if text == "" {
			return
		}
		text = strings.TrimRight(text, "\n")
		for _, l := range strings.Split(text, "\n") {
			sb.WriteString(l)
			sb.WriteByte('\n')
			p.LineFam = append(p.LineFam, fam)
		}
	}
	emit(c02Prelude, "prelude")
	emit(c02Decls, "decls")
	emit(g.decls.String(), "pick-fns")
	for _, pl := range all {
		emit(pl.s.decl, pl.s.fam)
		p.Fams = append(p.Fams, strings.SplitN(pl.s.fam, ":", 2)[0])
	}
	emit("def run(sel: Int): nil", "run")
	for _, pl := range all {
		if !pl.top {
			emit(strings.Join(c02Indent(pl.s.lines, 1), "\n"), pl.s.fam)
		}
	}
	emit("  nil\nend", "run")
	for _, pl := range all {
		if pl.top {
			emit(strings.Join(pl.s.lines, "\n"), pl.s.fam)
		}
	}
	emit("run(0)\nrun(1)\nrun(2)\nrun(3)\nR::LOG", "run")
	p.Src = sb.String()
	return p
}

func init() {
	// c02std: development aid — checks every std template on its own and lists the rejected ones
	subcommands["c02std"] = func(args []string) {
		try := func(e string) {
			src := c02Prelude + c02Decls + strings.Join(c02StdSetup, "\n") + "\nR.rec(1, " + e + ")\nR::LOG\n"
			res := c02Exec(src)
			switch {
			case res.ParseErr != "":
				fmt.Printf("PARSE   %s\n   %s", e, res.ParseErr)
			case res.Rejected:
				fmt.Printf("REJECT  %s\n   %s", e, diagString(res.Diagnostics))
			case res.Panic != "":
				fmt.Printf("PANIC   %s  %s\n", e, res.Panic)
			case res.ErrInspect != "":
				fmt.Printf("ERROR   %s  %s\n", e, res.ErrInspect)
			}
		}
		for _, e := range c02StdExprs {
			try(e)
		}
		if len(args) > 0 {
			for _, r := range c02ConvRecv {
				for _, m := range c02Convs {
					try(r + "." + m)
				}
			}
		}
	}
}

// c02ConvAvoid: conversions the headers do not declare for the receiver kind, and the three declared ones without a
// native implementation (Int#to_uint, Int8#to_int8, Float32#to_float32: known finding of C28, the VM dies with
// "tried to call an invalid method") — avoid rule.
func c02ConvAvoid(recv, m string) bool {
	kind := "Int"
	for _, suf := range []string{"i8", "i16", "i32", "i64", "u8", "u16", "u32", "u64", "f64", "f32", "bf"} {
		if strings.HasSuffix(recv, suf) {
			kind = suf
		}
	}
	if kind == "Int" && strings.HasSuffix(recv, "u") {
		kind = "u"
	}
	if kind == "Int" && (recv == "rf" || strings.ContainsAny(recv, ".e")) {
		kind = "Float"
	}
	switch {
	case m == "to_uint" && (kind == "Int" || kind == "f64" || kind == "f32"):
		return true
	case m == "to_int8" && kind == "i8", m == "to_float32" && kind == "f32":
		return true
	case m == "to_string" && (kind == "bf" || kind == "f64" || kind == "f32"):
		return true
	}
	return false
}
