package main

// C07 — Fixed-width integers wrap modulo 2^n; floats follow IEEE-754.
// Reference: two's-complement arithmetic on (bits, signed, raw uint64) and Go float32/float64.

import (
	"fmt"
	"math"
	"math/big"
	"math/rand/v2"
	"strings"

	"github.com/elk-language/elk/value"
)

type fwType struct {
	name   string // Elk class name
	suffix string
	bits   uint
	signed bool
	mk     func(raw uint64) value.Value
}

var fwTypes = []fwType{
	{"Int8", "i8", 8, true, func(r uint64) value.Value { return value.Int8(int8(r)).ToValue() }},
	{"Int16", "i16", 16, true, func(r uint64) value.Value { return value.Int16(int16(r)).ToValue() }},
	{"Int32", "i32", 32, true, func(r uint64) value.Value { return value.Int32(int32(r)).ToValue() }},
	{"Int64", "i64", 64, true, func(r uint64) value.Value { return value.Int64(int64(r)).ToValue() }},
	{"UInt8", "u8", 8, false, func(r uint64) value.Value { return value.UInt8(uint8(r)).ToValue() }},
	{"UInt16", "u16", 16, false, func(r uint64) value.Value { return value.UInt16(uint16(r)).ToValue() }},
	{"UInt32", "u32", 32, false, func(r uint64) value.Value { return value.UInt32(uint32(r)).ToValue() }},
	{"UInt64", "u64", 64, false, func(r uint64) value.Value { return value.UInt64(r).ToValue() }},
	{"UInt", "u", 64, false, func(r uint64) value.Value { return value.UInt(r).ToValue() }},
}

func (t *fwType) mask() uint64 {
	if t.bits == 64 {
		return ^uint64(0)
	}
	return (uint64(1) << t.bits) - 1
}

// sx sign-extends the raw value to int64.
func (t *fwType) sx(raw uint64) int64 {
	raw &= t.mask()
	if t.signed && raw&(uint64(1)<<(t.bits-1)) != 0 {
		return int64(raw | ^t.mask())
	}
	return int64(raw)
}

// str renders a raw value the way Elk's inspect does.
func (t *fwType) str(raw uint64) string {
	raw &= t.mask()
	if t.signed {
		return fmt.Sprintf("%d%s", t.sx(raw), t.suffix)
	}
	return fmt.Sprintf("%d%s", raw, t.suffix)
}

func (t *fwType) pool() []uint64 {
	m := t.mask()
	top := uint64(1) << (t.bits - 1)
	p := []uint64{0, 1, 2, 3, 7, 10, m, m - 1, top, top - 1, top + 1, 0x5555555555555555 & m, 0xAAAAAAAAAAAAAAAA & m, 0x0F0F0F0F0F0F0F0F & m, 100 & m, 255 & m, (m >> 1) - 5}
	return p
}

func (t *fwType) rand(r *rand.Rand) uint64 {
	switch r.IntN(4) {
	case 0:
		p := t.pool()
		return p[r.IntN(len(p))]
	case 1:
		return uint64(r.IntN(16)) & t.mask()
	case 2:
		return (^uint64(r.IntN(16))) & t.mask()
	}
	return r.Uint64() & t.mask()
}

// shift reference. c is the count as a signed integer (clipped), dirLeft whether the operator shifts left for c >= 0.
func (t *fwType) shiftRef(raw uint64, c int64, dirLeft bool, logical bool) uint64 {
	if c < 0 {
		dirLeft = !dirLeft
		c = -c
		if c < 0 { // MinInt64
			c = math.MaxInt64
		}
	}
	m := t.mask()
	raw &= m
	if dirLeft {
		if uint64(c) >= uint64(t.bits) {
			return 0
		}
		return (raw << uint(c)) & m
	}
	if logical || !t.signed {
		if uint64(c) >= uint64(t.bits) {
			return 0
		}
		return (raw >> uint(c)) & m
	}
	s := t.sx(raw)
	if uint64(c) >= 64 {
		c = 63
	}
	return uint64(s>>uint(c)) & m
}

type fwOp struct {
	name string
	f    func(l, r value.Value) (value.Value, value.Value)
	// ref returns (raw result, kind) kind: "int" same type, "bool", "cmp" (Int -1/0/1), "zde", "" skip
	ref func(t *fwType, a, b uint64) (uint64, string)
}

func b2u(b bool) uint64 {
	if b {
		return 1
	}
	return 0
}

func fwCmp(t *fwType, a, b uint64) int {
	if t.signed {
		x, y := t.sx(a), t.sx(b)
		switch {
		case x < y:
			return -1
		case x > y:
			return 1
		}
		return 0
	}
	a &= t.mask()
	b &= t.mask()
	switch {
	case a < b:
		return -1
	case a > b:
		return 1
	}
	return 0
}

var fwOps = []fwOp{
	{"+", value.AddVal, func(t *fwType, a, b uint64) (uint64, string) { return (a + b) & t.mask(), "int" }},
	{"-", value.SubtractVal, func(t *fwType, a, b uint64) (uint64, string) { return (a - b) & t.mask(), "int" }},
	{"*", value.MultiplyVal, func(t *fwType, a, b uint64) (uint64, string) { return (a * b) & t.mask(), "int" }},
	{"/", value.DivideVal, func(t *fwType, a, b uint64) (uint64, string) {
		if b&t.mask() == 0 {
			return 0, "zde"
		}
		if t.signed {
			x, y := t.sx(a), t.sx(b)
			if x == math.MinInt64 && y == -1 {
				return uint64(x) & t.mask(), "int"
			}
			return uint64(x/y) & t.mask(), "int"
		}
		return ((a & t.mask()) / (b & t.mask())) & t.mask(), "int"
	}},
	{"%", value.ModuloVal, func(t *fwType, a, b uint64) (uint64, string) {
		if b&t.mask() == 0 {
			return 0, "zde"
		}
		if t.signed {
			x, y := t.sx(a), t.sx(b)
			if y == -1 {
				return 0, "int"
			}
			return uint64(x%y) & t.mask(), "int"
		}
		return ((a & t.mask()) % (b & t.mask())) & t.mask(), "int"
	}},
	{"&", value.BitwiseAndVal, func(t *fwType, a, b uint64) (uint64, string) { return (a & b) & t.mask(), "int" }},
	{"|", value.BitwiseOrVal, func(t *fwType, a, b uint64) (uint64, string) { return (a | b) & t.mask(), "int" }},
	{"^", value.BitwiseXorVal, func(t *fwType, a, b uint64) (uint64, string) { return (a ^ b) & t.mask(), "int" }},
	{"&~", value.BitwiseAndNotVal, func(t *fwType, a, b uint64) (uint64, string) { return (a &^ b) & t.mask(), "int" }},
	{"<=>", value.CompareVal, func(t *fwType, a, b uint64) (uint64, string) { return uint64(int64(fwCmp(t, a, b))), "cmp" }},
	{"<", value.LessThanVal, func(t *fwType, a, b uint64) (uint64, string) { return b2u(fwCmp(t, a, b) < 0), "bool" }},
	{"<=", value.LessThanEqualVal, func(t *fwType, a, b uint64) (uint64, string) { return b2u(fwCmp(t, a, b) <= 0), "bool" }},
	{">", value.GreaterThanVal, func(t *fwType, a, b uint64) (uint64, string) { return b2u(fwCmp(t, a, b) > 0), "bool" }},
	{">=", value.GreaterThanEqualVal, func(t *fwType, a, b uint64) (uint64, string) { return b2u(fwCmp(t, a, b) >= 0), "bool" }},
	{"==", noErr(value.EqualVal), func(t *fwType, a, b uint64) (uint64, string) { return b2u(fwCmp(t, a, b) == 0), "bool" }},
	{"**", value.ExponentiateVal, func(t *fwType, a, b uint64) (uint64, string) {
		if t.signed && t.sx(b) < 0 {
			return 0, ""
		}
		e := b & t.mask()
		res, base := uint64(1), a&t.mask()
		for e > 0 {
			if e&1 == 1 {
				res = (res * base) & t.mask()
			}
			base = (base * base) & t.mask()
			e >>= 1
		}
		return res & t.mask(), "int"
	}},
}

type fwUnOp struct {
	name string
	f    func(v value.Value) value.Value
	ref  func(t *fwType, a uint64) uint64
}

var fwUnOps = []fwUnOp{
	{"-@", value.NegateVal, func(t *fwType, a uint64) uint64 { return (-a) & t.mask() }},
	{"~", value.BitwiseNotVal, func(t *fwType, a uint64) uint64 { return (^a) & t.mask() }},
	{"++", value.IncrementVal, func(t *fwType, a uint64) uint64 { return (a + 1) & t.mask() }},
	{"--", value.DecrementVal, func(t *fwType, a uint64) uint64 { return (a - 1) & t.mask() }},
}

type fwShift struct {
	name    string
	f       func(l, r value.Value) (value.Value, value.Value)
	left    bool
	logical bool
}

var fwShifts = []fwShift{
	{"<<", value.LeftBitshiftVal, true, false},
	{">>", value.RightBitshiftVal, false, false},
	{"<<<", value.LogicalLeftBitshiftVal, true, true},
	{">>>", value.LogicalRightBitshiftVal, false, true},
}

// shift count operand kinds: every member of AnyInt
type countKind struct {
	name string
	mk   func(c int64) (value.Value, bool) // false if c not representable
}

var countKinds = []countKind{
	{"Int", func(c int64) (value.Value, bool) { return value.SmallInt(c).ToValue(), true }},
	{"BigInt", func(c int64) (value.Value, bool) { // a BigInt operand that is huge: sign decides direction
		x := new(big.Int).Lsh(big.NewInt(1), 70)
		if c < 0 {
			x.Neg(x)
		}
		return value.Ref(value.ToElkBigInt(x)), true
	}},
	{"Int8", func(c int64) (value.Value, bool) { return value.Int8(c).ToValue(), c >= -128 && c <= 127 }},
	{"Int16", func(c int64) (value.Value, bool) { return value.Int16(c).ToValue(), c >= -32768 && c <= 32767 }},
	{"Int32", func(c int64) (value.Value, bool) {
		return value.Int32(c).ToValue(), c >= math.MinInt32 && c <= math.MaxInt32
	}},
	{"Int64", func(c int64) (value.Value, bool) { return value.Int64(c).ToValue(), true }},
	{"UInt8", func(c int64) (value.Value, bool) { return value.UInt8(c).ToValue(), c >= 0 && c <= 255 }},
	{"UInt16", func(c int64) (value.Value, bool) { return value.UInt16(c).ToValue(), c >= 0 && c <= 65535 }},
	{"UInt32", func(c int64) (value.Value, bool) { return value.UInt32(c).ToValue(), c >= 0 && c <= math.MaxUint32 }},
	{"UInt64", func(c int64) (value.Value, bool) { return value.UInt64(c).ToValue(), c >= 0 }},
	{"UInt", func(c int64) (value.Value, bool) { return value.UInt(c).ToValue(), c >= 0 }},
}

func guard(f func()) (p string) {
	defer func() {
		if r := recover(); r != nil {
			p = fmt.Sprint(r)
		}
	}()
	f()
	return ""
}

func errClass(err value.Value) string {
	if err.IsUndefined() {
		return ""
	}
	s := safeInspect(err)
	if i := strings.IndexAny(s, "{ ("); i > 0 {
		s = s[:i]
	}
	return s
}

func c07IntPair(c *Ctx, caseIdx int, t *fwType, a, b uint64) {
	la, lb := t.mk(a), t.mk(b)
	for i := range fwOps {
		op := &fwOps[i]
		want, kind := op.ref(t, a, b)
		if kind == "" {
			continue
		}
		if t.name == "UInt" && (op.name == "**") {
			// still admitted by the header; keep
		}
		var got, err value.Value
		p := guard(func() { got, err = op.f(la, lb) })
		c.Eval(1)
		site := fmt.Sprintf("%s:%s", t.name, op.name)
		in := map[string]string{"type": t.name, "op": op.name, "a": t.str(a), "b": t.str(b)}
		if p != "" {
			c.Violate(site+":panic", fmt.Sprintf("%s %s %s panicked: %s", t.str(a), op.name, t.str(b), p), caseIdx, in)
			continue
		}
		c.Distinct(site + ":" + kind)
		switch kind {
		case "zde":
			if !isZDE(err) {
				c.Violate(site+":no-zero-division-error", fmt.Sprintf("%s %s %s: want ZeroDivisionError got %s / %s", t.str(a), op.name, t.str(b), safeInspect(got), safeInspect(err)), caseIdx, in)
			}
			continue
		}
		if !err.IsUndefined() {
			c.Violate(site+":error:"+errClass(err), fmt.Sprintf("%s %s %s: unexpected error %s", t.str(a), op.name, t.str(b), safeInspect(err)), caseIdx, in)
			continue
		}
		var wantS string
		switch kind {
		case "int":
			wantS = t.str(want)
		case "bool":
			wantS = fmt.Sprint(want == 1)
		case "cmp":
			wantS = fmt.Sprint(int64(want))
		}
		if g := safeInspect(got); g != wantS {
			c.Violate(site+":wrong", fmt.Sprintf("%s %s %s: want %s got %s", t.str(a), op.name, t.str(b), wantS, g), caseIdx, in)
		}
	}
	for i := range fwUnOps {
		op := &fwUnOps[i]
		want := op.ref(t, a)
		var got value.Value
		p := guard(func() { got = op.f(la) })
		c.Eval(1)
		site := fmt.Sprintf("%s:%s", t.name, op.name)
		if p != "" {
			c.Violate(site+":panic", fmt.Sprintf("%s%s panicked: %s", op.name, t.str(a), p), caseIdx, nil)
			continue
		}
		c.Distinct(site)
		if g := safeInspect(got); g != t.str(want) {
			c.Violate(site+":wrong", fmt.Sprintf("%s %s: want %s got %s", op.name, t.str(a), t.str(want), g), caseIdx, nil)
		}
	}
}

func c07Shift(c *Ctx, caseIdx int, t *fwType, a uint64, cnt int64) {
	la := t.mk(a)
	for si := range fwShifts {
		sh := &fwShifts[si]
		if !t.signed && sh.logical {
			continue // unsigned headers do not declare <<< / >>>
		}
		for ki := range countKinds {
			ck := &countKinds[ki]
			cv, ok := ck.mk(cnt)
			if !ok {
				continue
			}
			effective := cnt
			if ck.name == "BigInt" {
				if cnt < 0 {
					effective = math.MinInt64 + 1
				} else {
					effective = math.MaxInt64
				}
			}
			want := t.shiftRef(a, effective, sh.left, sh.logical)
			var got, err value.Value
			p := guard(func() { got, err = sh.f(la, cv) })
			c.Eval(1)
			site := fmt.Sprintf("%s:%s:%s", t.name, sh.name, ck.name)
			in := map[string]string{"type": t.name, "op": sh.name, "a": t.str(a), "count": fmt.Sprint(cnt), "count_type": ck.name}
			if p != "" {
				c.Violate(site+":panic", fmt.Sprintf("%s %s %d(%s) panicked: %s", t.str(a), sh.name, cnt, ck.name, p), caseIdx, in)
				continue
			}
			c.Distinct(site)
			if !err.IsUndefined() {
				c.Violate(site+":error:"+errClass(err), fmt.Sprintf("%s %s %d(%s): admitted operand raised %s", t.str(a), sh.name, cnt, ck.name, safeInspect(err)), caseIdx, in)
				continue
			}
			if g := safeInspect(got); g != t.str(want) {
				c.Violate(site+":wrong", fmt.Sprintf("%s %s %d(%s): want %s got %s", t.str(a), sh.name, cnt, ck.name, t.str(want), g), caseIdx, in)
			}
		}
	}
}

// ---- floats ----------------------------------------------------------------------------------

var floatPool = []float64{0, math.Copysign(0, -1), 1, -1, 0.5, 1.5, -2.5, 3.5, 1.25, 0.1, 0.2, 0.3, 1e-310, -1e-310, math.SmallestNonzeroFloat64,
	math.MaxFloat64, -math.MaxFloat64, math.Inf(1), math.Inf(-1), math.NaN(), 9007199254740992, 9007199254740993, 9007199254740991, 16777216, 16777217,
	math.MaxFloat32, math.SmallestNonzeroFloat32, 1e300, 1e-300, 4.6e18, 123456789.125, -7, 10, 3}

func randFloat(r *rand.Rand) float64 {
	switch r.IntN(4) {
	case 0:
		return floatPool[r.IntN(len(floatPool))]
	case 1:
		return math.Float64frombits(r.Uint64())
	case 2:
		return float64(r.IntN(2000)-1000) / 8
	}
	return (r.Float64() - 0.5) * math.Pow(10, float64(r.IntN(40)-20))
}

type flType struct {
	name string
	mk   func(x float64) value.Value
	get  func(v value.Value) (float64, bool)
	rnd  func(x float64) float64 // rounding to the type's precision
}

var flTypes = []flType{
	{"Float", func(x float64) value.Value { return value.Float(x).ToValue() },
		func(v value.Value) (float64, bool) {
			if v.IsFloat() {
				return float64(v.AsFloat()), true
			}
			return 0, false
		}, func(x float64) float64 { return x }},
	{"Float64", func(x float64) value.Value { return value.Float64(x).ToValue() },
		func(v value.Value) (r float64, ok bool) {
			defer func() {
				if recover() != nil {
					ok = false
				}
			}()
			if v.IsInlineFloat64() {
				return float64(v.AsInlineFloat64()), true
			}
			if v.IsReference() {
				if f, isF := v.AsReference().(value.Float64); isF {
					return float64(f), true
				}
			}
			return 0, false
		}, func(x float64) float64 { return x }},
	{"Float32", func(x float64) value.Value { return value.Float32(float32(x)).ToValue() },
		func(v value.Value) (float64, bool) {
			if v.IsFloat32() {
				return float64(v.AsFloat32()), true
			}
			return 0, false
		}, func(x float64) float64 { return float64(float32(x)) }},
}

func sameFloat(a, b float64) bool {
	if math.IsNaN(a) || math.IsNaN(b) {
		return math.IsNaN(a) && math.IsNaN(b)
	}
	return math.Float64bits(a) == math.Float64bits(b)
}

type flOp struct {
	name string
	f    func(l, r value.Value) (value.Value, value.Value)
	ref  func(a, b float64) float64
}

var flOps = []flOp{
	{"+", value.AddVal, func(a, b float64) float64 { return a + b }},
	{"-", value.SubtractVal, func(a, b float64) float64 { return a - b }},
	{"*", value.MultiplyVal, func(a, b float64) float64 { return a * b }},
	{"/", value.DivideVal, func(a, b float64) float64 { return a / b }},
	{"%", value.ModuloVal, math.Mod},
}

type flCmp struct {
	name string
	f    func(l, r value.Value) (value.Value, value.Value)
	ref  func(a, b float64) bool
}

var flCmps = []flCmp{
	{"<", value.LessThanVal, func(a, b float64) bool { return a < b }},
	{"<=", value.LessThanEqualVal, func(a, b float64) bool { return a <= b }},
	{">", value.GreaterThanVal, func(a, b float64) bool { return a > b }},
	{">=", value.GreaterThanEqualVal, func(a, b float64) bool { return a >= b }},
	{"==", noErr(value.EqualVal), func(a, b float64) bool { return a == b }},
}

func c07FloatPair(c *Ctx, caseIdx int, t *flType, a, b float64) {
	a, b = t.rnd(a), t.rnd(b)
	la, lb := t.mk(a), t.mk(b)
	for i := range flOps {
		op := &flOps[i]
		want := t.rnd(op.ref(a, b))
		var got, err value.Value
		p := guard(func() { got, err = op.f(la, lb) })
		c.Eval(1)
		site := fmt.Sprintf("%s:%s", t.name, op.name)
		in := map[string]string{"type": t.name, "op": op.name, "a": fmt.Sprintf("%x", math.Float64bits(a)), "b": fmt.Sprintf("%x", math.Float64bits(b))}
		if p != "" {
			c.Violate(site+":panic", fmt.Sprintf("%v %s %v panicked: %s", a, op.name, b, p), caseIdx, in)
			continue
		}
		c.Distinct(site)
		if !err.IsUndefined() {
			c.Violate(site+":error:"+errClass(err), fmt.Sprintf("%v %s %v (%s): unexpected error %s", a, op.name, b, t.name, safeInspect(err)), caseIdx, in)
			continue
		}
		g, ok := t.get(got)
		if !ok {
			c.Violate(site+":wrong-class", fmt.Sprintf("%v %s %v (%s): result %s is not a %s", a, op.name, b, t.name, safeInspect(got), t.name), caseIdx, in)
			continue
		}
		if !sameFloat(g, want) {
			c.Violate(site+":wrong", fmt.Sprintf("%v %s %v (%s): want %v (%x) got %v (%x)", a, op.name, b, t.name, want, math.Float64bits(want), g, math.Float64bits(g)), caseIdx, in)
		}
	}
	for i := range flCmps {
		op := &flCmps[i]
		want := op.ref(a, b)
		var got, err value.Value
		p := guard(func() { got, err = op.f(la, lb) })
		c.Eval(1)
		site := fmt.Sprintf("%s:%s", t.name, op.name)
		if p != "" {
			c.Violate(site+":panic", fmt.Sprintf("%v %s %v panicked: %s", a, op.name, b, p), caseIdx, nil)
			continue
		}
		if !err.IsUndefined() {
			c.Violate(site+":error:"+errClass(err), fmt.Sprintf("%v %s %v (%s): unexpected error %s", a, op.name, b, t.name, safeInspect(err)), caseIdx, nil)
			continue
		}
		if g := safeInspect(got); g != fmt.Sprint(want) {
			c.Violate(site+":wrong", fmt.Sprintf("%v %s %v (%s): want %v got %s", a, op.name, b, t.name, want, g), caseIdx, nil)
		}
	}
	// negation
	var got value.Value
	if p := guard(func() { got = value.NegateVal(la) }); p == "" {
		if g, ok := t.get(got); !ok || !sameFloat(g, -a) {
			c.Violate(t.name+":-@:wrong", fmt.Sprintf("-(%v) (%s): got %s", a, t.name, safeInspect(got)), caseIdx, nil)
		}
	} else {
		c.Violate(t.name+":-@:panic", p, caseIdx, nil)
	}
}

func init() {
	// case layout: [0, E8) exhaustive 8-bit: for Int8 and UInt8 all 256 left values, each against the right pool
	register(&Check{
		ID: "C07",
		Rule: "Go level: Int8/UInt8 left operands exhaustively against a right pool, boundary pools and seeded random values for wider types, every operator the headers declare, shift counts -130..130 in every AnyInt member type (plus huge BigInt counts); " +
			"floats: boundary pool pairwise + random bit patterns for Float/Float64/Float32 against Go arithmetic bit-for-bit; Elk level: literal / typed / method-call probe programs; distinct = (type, operator[, count type]) cells",
		NumCases: func(tier string) int {
			if tier == "thorough" {
				return 512 + 500_000 + 3000
			}
			return 512 + 60_000 + 150
		},
		Case: func(c *Ctx, i int, r *rand.Rand) {
			elkCases := 150
			if c.Tier == "thorough" {
				elkCases = 3000
			}
			n := c.Check.NumCases(c.Tier)
			switch {
			case i < 512:
				t := &fwTypes[0]
				if i >= 256 {
					t = &fwTypes[4]
				}
				a := uint64(i & 255)
				for _, b := range t.pool() {
					c07IntPair(c, i, t, a, b)
				}
				for _, b := range []uint64{4, 5, 8, 9, 127, 128, 129, 254} {
					c07IntPair(c, i, t, a, b)
				}
				for cnt := int64(-10); cnt <= 10; cnt++ {
					c07Shift(c, i, t, a, cnt)
				}
				c.Count("exhaustive_8bit_left_operands", 1)
			case i < n-elkCases:
				switch r.IntN(10) {
				case 0, 1, 2, 3:
					t := &fwTypes[r.IntN(len(fwTypes))]
					c07IntPair(c, i, t, t.rand(r), t.rand(r))
					c.Count("int_pairs", 1)
				case 4, 5:
					t := &fwTypes[r.IntN(len(fwTypes))]
					cnt := int64(r.IntN(261) - 130)
					if r.IntN(10) == 0 {
						cnt = []int64{math.MinInt64, math.MaxInt64, math.MinInt32, math.MaxInt32, 64, 63, 65, -64, -63, -65, 32, -32, 31, 33}[r.IntN(14)]
					}
					c07Shift(c, i, t, t.rand(r), cnt)
					c.Count("shift_cases", 1)
				default:
					t := &flTypes[r.IntN(len(flTypes))]
					a, b := randFloat(r), randFloat(r)
					if i%7000 == 0 {
						c.Sample(map[string]any{"type": t.name, "a": fmt.Sprint(a), "b": fmt.Sprint(b)})
					}
					c07FloatPair(c, i, t, a, b)
					c.Count("float_pairs", 1)
				}
			default:
				c07ElkCase(c, i, r)
			}
		},
		MinCounters: map[string]int64{"exhaustive_8bit_left_operands": 512, "float_pairs": 1000, "shift_cases": 1000, "elk_probes": 500},
		Assumptions: []string{"Go sized-integer and float32/float64 arithmetic is the reference", "** on floats not compared (IEEE-754 does not define pow exactly)", "** on integers: non-negative exponents, modular reference"},
	})
}
