package main

// C21 part 2 of 2: scenarios (plain pattern, r1 + r2, r * n, %/${r1}${r2}/), real evaluation through value.Regex, the
// seeded generator of syntax trees and subject strings, comparison with the reference matcher of c21_regex.go,
// classification and delta-minimisation of disagreements, Elk-level replay through RunElk, directed cases and the
// check registration.

import (
	"fmt"
	"math/rand/v2"
	"os"
	"sort"
	"strings"
	"unicode"

	"github.com/elk-language/elk/bitfield"
	"github.com/elk-language/elk/position/diagnostic"
	"github.com/elk-language/elk/regex/flag"
	"github.com/elk-language/elk/value"
)

func rfElk(f uint8) bitfield.BitField8 {
	var b bitfield.BitField8
	m := [...]bitfield.BitFlag8{flag.CaseInsensitiveFlag, flag.MultilineFlag, flag.DotAllFlag, flag.UngreedyFlag, flag.ExtendedFlag, flag.ASCIIFlag}
	for k := 0; k < 6; k++ {
		if f&(1<<k) != 0 {
			b.SetFlag(m[k])
		}
	}
	return b
}

type rxScenario struct {
	Op string // plain | concat | repeat
	T  []*rxNode
	F  []uint8
	N  int
}

func (sc *rxScenario) clone() *rxScenario {
	c := &rxScenario{Op: sc.Op, N: sc.N, F: append([]uint8(nil), sc.F...)}
	for _, t := range sc.T {
		c.T = append(c.T, t.clone())
	}
	return c
}

func rxWrap(t *rxNode, f uint8) *rxNode {
	if f == 0 {
		return &rxNode{K: rxGroup, GK: 1, Kids: []*rxNode{t.clone()}}
	}
	return &rxNode{K: rxGroup, GK: 5, Set: f, Kids: []*rxNode{t.clone()}}
}

// refTree builds the annotated tree that defines the meaning of the scenario.
func (sc *rxScenario) refTree() *rxNode {
	var root *rxNode
	var amb uint8
	switch sc.Op {
	case "plain":
		root, amb = sc.T[0].clone(), sc.F[0]
	case "concat":
		root = &rxNode{K: rxConcat, Kids: []*rxNode{rxWrap(sc.T[0], sc.F[0]), rxWrap(sc.T[1], sc.F[1])}}
	case "repeat":
		root = &rxNode{K: rxQuant, Min: sc.N, Max: sc.N, Kids: []*rxNode{rxWrap(sc.T[0], 0)}}
		amb = sc.F[0]
	case "interp":
		// %/${r0}${r1}/G : every interpolated regex keeps exactly its own flags
		root = &rxNode{K: rxConcat}
		for k := 0; k < 2; k++ {
			root.Kids = append(root.Kids, &rxNode{K: rxGroup, GK: 5, Set: sc.F[k], Unset: 63 &^ sc.F[k], Kids: []*rxNode{sc.T[k].clone()}})
		}
		amb = sc.F[2]
	}
	rxAnnotate(root, &amb)
	return root
}

func (sc *rxScenario) sources() []string {
	var out []string
	for i, t := range sc.T {
		out = append(out, rxPrint(t.clone(), sc.F[i]))
	}
	return out
}

func (sc *rxScenario) describe() string {
	srcs := sc.sources()
	switch sc.Op {
	case "plain":
		return fmt.Sprintf("%%/%s/%s", srcs[0], rfString(sc.F[0]))
	case "concat":
		return fmt.Sprintf("%%/%s/%s + %%/%s/%s", srcs[0], rfString(sc.F[0]), srcs[1], rfString(sc.F[1]))
	case "interp":
		return fmt.Sprintf("%%/${%%/%s/%s}${%%/%s/%s}/%s", srcs[0], rfString(sc.F[0]), srcs[1], rfString(sc.F[1]), rfString(sc.F[2]))
	}
	return fmt.Sprintf("%%/%s/%s * %d", srcs[0], rfString(sc.F[0]), sc.N)
}

// compile through the real implementation. stage: "" ok, "elk" (parser/transpiler diagnostic), "go" (Go regexp rejected
// the transpiled text), "compose" (error raised by + or *), "panic".
func (sc *rxScenario) compile() (re *value.Regex, stage, msg string) {
	if p := guard(func() {
		var rs []*value.Regex
		for i, src := range sc.sources() {
			r, err := value.CompileRegex(src, rfElk(sc.F[i]))
			if err != nil {
				if _, ok := err.(diagnostic.DiagnosticList); ok {
					stage = "elk"
				} else {
					stage = "go"
				}
				msg = err.Error()
				return
			}
			rs = append(rs, r)
		}
		switch sc.Op {
		case "plain":
			re = rs[0]
		case "concat":
			v, e := rs[0].ConcatVal(value.Ref(rs[1]))
			if !e.IsUndefined() {
				stage, msg = "compose", e.Inspect()
				return
			}
			re = v.AsReference().(*value.Regex)
		case "interp":
			// what vm.opNewRegex does with interpolated Regex values
			r, err := value.CompileRegex(string(rs[0].ToStringWithFlags())+string(rs[1].ToStringWithFlags()), rfElk(sc.F[2]))
			if err != nil {
				stage, msg = "compose", err.Error()
				return
			}
			re = r
		case "repeat":
			v, e := rs[0].RepeatVal(value.SmallInt(sc.N).ToValue())
			if !e.IsUndefined() {
				stage, msg = "compose", e.Inspect()
				return
			}
			re = v.AsReference().(*value.Regex)
		}
	}); p != "" {
		return nil, "panic", p
	}
	return re, stage, msg
}

// ---------- generator and subject sampler ----------

type rxGen struct {
	r      *rand.Rand
	budget int
	names  int
	prefix string
}

var rxLitCommon = []rune("abckKsS1 _-")
var rxLitWide = []rune{'a', 'b', 'c', 'k', 'K', 's', 'S', 'z', 'A', 'Z', '0', '1', '9', 'é', 'É', 'ж', 'Ж', 'σ', 'ς', 'Σ', '中', '٣', '５',
	' ', '\t', '\n', '\r', '\v', '\f', '#', '-', '_', '.', '*', '+', '?', '(', ')', '[', ']', '{', '}', '|', '^', '$', '\\', '/', ':', '<', '>', ',', '\'', '"', '!', '=', '&', '~', '@', '%',
	0xA0, 0x2028, 0x85, 0x3000, 0x2003, 0x301, 0x203F, 0x212A, 0x17F, 0xB5, 0x1F600, 0x7, 0x1, 0x1A, 0x7F, 0x100, 0x1FF}

var rxProps = []string{"L", "Lu", "Ll", "N", "Nd", "P", "Z", "Zs", "S", "M", "Mn", "Pc", "Greek", "Cyrillic", "Latin", "Han", "Arabic", "Common"}
var rxPosixNames = []string{"alnum", "alpha", "ascii", "blank", "cntrl", "digit", "graph", "lower", "print", "punct", "space", "upper", "word", "xdigit"}

func (g *rxGen) pick(rs []rune) rune { return rs[g.r.IntN(len(rs))] }

func (g *rxGen) litRune() rune {
	if g.r.IntN(100) < 55 {
		return g.pick(rxLitCommon)
	}
	return g.pick(rxLitWide)
}

func (g *rxGen) litForm(rangeEnd bool) uint8 {
	if g.r.IntN(100) < 55 {
		return lfRaw
	}
	for {
		f := uint8(g.r.IntN(int(lfCount)))
		if f == lfRawBracket {
			continue
		}
		if rangeEnd && (f == lfOctBrace || f == lfOct3 || f == lfOctPlain || f == lfClass1 || f == lfQuote1) {
			continue
		}
		return f
	}
}

func (g *rxGen) flagSet(p int) uint8 {
	var f uint8
	for k := 0; k < 6; k++ {
		if g.r.IntN(100) < p {
			f |= 1 << k
		}
	}
	return f
}

func (g *rxGen) oneOrTwoFlags() uint8 {
	f := uint8(1) << g.r.IntN(6)
	if g.r.IntN(3) == 0 {
		f |= 1 << g.r.IntN(6)
	}
	return f
}

func (g *rxGen) trivia() *rxNode {
	if g.r.IntN(100) < 55 {
		ws := []rune{' ', ' ', ' ', '\t', '\n', '\n', '\r', '\f', '\v', 0xA0, 0x2003, 0x3000, 0x85, 0x2028}
		n := 1 + g.r.IntN(3)
		var sb strings.Builder
		for i := 0; i < n; i++ {
			sb.WriteRune(g.pick(ws))
		}
		return &rxNode{K: rxTrivia, Text: sb.String()}
	}
	var sb strings.Builder
	sb.WriteByte('#')
	n := g.r.IntN(6)
	plain := []rune("abkx1 \t")
	meta := []rune("|()[]{}*+?.^:<>,'-#")
	withMeta := g.r.IntN(100) < 35
	for i := 0; i < n; i++ {
		if withMeta && g.r.IntN(3) == 0 {
			sb.WriteRune(g.pick(meta))
		} else {
			sb.WriteRune(g.pick(plain))
		}
	}
	sb.WriteByte('\n')
	return &rxNode{K: rxTrivia, Text: sb.String()}
}

func (g *rxGen) alt(depth int, cur *uint8) *rxNode {
	n := 1
	if g.r.IntN(100) < 28 {
		n = 2 + g.r.IntN(2)
	}
	if n == 1 {
		return g.concat(depth, cur)
	}
	a := &rxNode{K: rxAlt}
	for i := 0; i < n; i++ {
		a.Kids = append(a.Kids, g.concat(depth, cur))
	}
	return a
}

func (g *rxGen) concat(depth int, cur *uint8) *rxNode {
	c := &rxNode{K: rxConcat}
	n := 1 + g.r.IntN(4)
	if g.r.IntN(40) == 0 {
		n = 0
	}
	for i := 0; i < n && g.budget > 0; i++ {
		if *cur&rfX != 0 && g.r.IntN(100) < 45 {
			c.Kids = append(c.Kids, g.trivia())
		}
		if g.r.IntN(100) < 7 {
			sw := &rxNode{K: rxSwitch}
			if g.r.IntN(3) == 0 {
				sw.Unset = g.oneOrTwoFlags()
			} else {
				sw.Set = g.oneOrTwoFlags()
				if g.r.IntN(4) == 0 {
					sw.Unset = g.oneOrTwoFlags() &^ sw.Set
				}
			}
			*cur = (*cur | sw.Set) &^ sw.Unset
			c.Kids = append(c.Kids, sw)
		}
		c.Kids = append(c.Kids, g.term(depth, cur))
	}
	if *cur&rfX != 0 && g.r.IntN(100) < 30 {
		c.Kids = append(c.Kids, g.trivia())
	}
	return c
}

func (g *rxGen) term(depth int, cur *uint8) *rxNode {
	a := g.atom(depth, cur)
	if !rxIsAtom(a) || g.r.IntN(100) >= 30 {
		return a
	}
	q := &rxNode{K: rxQuant, Kids: []*rxNode{a}, Lazy: g.r.IntN(4) == 0}
	switch g.r.IntN(8) {
	case 0, 1:
		q.Min, q.Max = 0, 1
	case 2:
		q.Min, q.Max = 0, -1
	case 3:
		q.Min, q.Max = 1, -1
	case 4:
		q.Min = g.r.IntN(4)
		q.Max = q.Min
	case 5:
		q.Min, q.Max = g.r.IntN(3), -1
		q.QF = 1
	case 6:
		q.Min = g.r.IntN(3)
		q.Max = q.Min + g.r.IntN(3)
		q.QF = 1
	case 7:
		q.Min, q.Max = 0, 1+g.r.IntN(3)
		q.QF = 1
	}
	return q
}

func (g *rxGen) classItem() rxItem {
	switch w := g.r.IntN(100); {
	case w < 42:
		return rxItem{K: 0, Lo: g.litRune(), LoF: g.litForm(true)}
	case w < 65:
		pairs := [][2]rune{{'a', 'f'}, {'a', 'z'}, {'A', 'Z'}, {'0', '5'}, {' ', '/'}, {'а', 'я'}, {'\t', '\r'}, {'+', ']'}, {'j', 'l'}, {0x80, 0xFF}, {'!', '~'}}
		p := pairs[g.r.IntN(len(pairs))]
		if g.r.IntN(60) == 0 {
			p[0], p[1] = p[1], p[0] // reversed range: must be a regex error
		}
		it := rxItem{K: 1, Lo: p[0], Hi: p[1], LoF: g.litForm(true), HiF: g.litForm(true)}
		if p[1] == ']' && g.r.IntN(2) == 0 {
			it.HiF = lfRawBracket
		}
		return it
	case w < 85:
		return rxItem{K: 2, E: "dDwWsShHvV"[g.r.IntN(10)]}
	case w < 93:
		it := rxItem{K: 3, Prop: rxProps[g.r.IntN(len(rxProps))], Neg: g.r.IntN(3) == 0, PForm: uint8(g.r.IntN(3))}
		if g.r.IntN(40) == 0 {
			it.Prop = "Elvish" // unknown property name: must be a regex error
		}
		return it
	}
	return rxItem{K: 4, Prop: rxPosixNames[g.r.IntN(len(rxPosixNames))], Neg: g.r.IntN(4) == 0}
}

func (g *rxGen) atom(depth int, cur *uint8) *rxNode {
	g.budget--
	w := g.r.IntN(100)
	if depth >= 3 && w >= 83 {
		w = g.r.IntN(83)
	}
	switch {
	case w < 36:
		return &rxNode{K: rxLit, R: g.litRune(), Form: g.litForm(false)}
	case w < 41:
		return &rxNode{K: rxAny}
	case w < 53:
		return &rxNode{K: rxEsc, E: "dDwWsShHvV"[g.r.IntN(10)]}
	case w < 58:
		return &rxNode{K: rxProp, Prop: rxProps[g.r.IntN(len(rxProps))], Neg: g.r.IntN(3) == 0, PForm: uint8(g.r.IntN(3))}
	case w < 72:
		c := &rxNode{K: rxClass, Neg: g.r.IntN(100) < 30}
		n := 1 + g.r.IntN(4)
		if g.r.IntN(50) == 0 {
			n = 0
		}
		for i := 0; i < n; i++ {
			c.Items = append(c.Items, g.classItem())
		}
		return c
	case w < 80:
		return &rxNode{K: rxAnchor, E: "^$^$AzbbB"[g.r.IntN(9)]}
	case w < 83:
		txt := []rune("ab k.*+?()[]{}|^#-")
		n := 1 + g.r.IntN(3)
		var sb strings.Builder
		for i := 0; i < n; i++ {
			sb.WriteRune(g.pick(txt))
		}
		return &rxNode{K: rxQuoted, Text: sb.String()}
	}
	gr := &rxNode{K: rxGroup}
	switch v := g.r.IntN(100); {
	case v < 30:
		gr.GK = 0
	case v < 50:
		gr.GK = 1
	case v < 62:
		gr.GK = uint8(2 + g.r.IntN(3))
		gr.Name = g.prefix + string(rune('a'+g.names%26))
		g.names++
	default:
		gr.GK = 5
		if g.r.IntN(4) == 0 {
			gr.Unset = g.oneOrTwoFlags()
		} else {
			gr.Set = g.oneOrTwoFlags()
			if g.r.IntN(4) == 0 {
				gr.Unset = g.oneOrTwoFlags() &^ gr.Set
			}
		}
		if gr.Set == 0 && gr.Unset == 0 {
			gr.Set = rfI
		}
	}
	saved := *cur
	*cur = (*cur | gr.Set) &^ gr.Unset
	gr.Kids = []*rxNode{g.alt(depth+1, cur)}
	*cur = saved
	return gr
}

// rxGenTree generates one tree and its global flags.
func rxGenTree(r *rand.Rand, prefix string) (*rxNode, uint8) {
	g := &rxGen{r: r, budget: 3 + r.IntN(10), prefix: prefix}
	var flags uint8
	switch r.IntN(10) {
	case 0, 1, 2:
	case 3, 4, 5, 6:
		flags = uint8(1) << r.IntN(6)
	default:
		flags = g.flagSet(30)
	}
	cur := flags
	return g.alt(0, &cur), flags
}

// ---------- subjects ----------

var rxPoolDigits = []rune{'0', '7', '٣', '５', '²', 'Ⅷ'}
var rxPoolWord = []rune{'a', 'Z', '_', 'é', 'ß', 'Ж', '中', 0x203F, 0x301, 0x903, '1', 'k', 0x212A, 0x17F}
var rxPoolSpace = []rune{' ', '\t', '\n', '\r', '\f', '\v', 0x85, 0xA0, 0x2003, 0x2028, 0x2029, 0x3000, 0x200B, 0x1680}
var rxPoolOther = []rune{'-', '.', '!', '#', '/', ']', '[', '|', '^', '$', '(', ')', '*', '+', '?', '{', '}', '\\', ':', 0x1F600, 0xB5, 'σ', 'ς', 'Σ', 'K', 's', 'S', 'x', 0x7, 0x1, 0x7F, 'я', 'α'}

func rxPoolAll() [][]rune { return [][]rune{rxPoolDigits, rxPoolWord, rxPoolSpace, rxPoolOther} }

func rxSwapCase(c rune) rune {
	if f := unicode.SimpleFold(c); f != c {
		return f
	}
	return c
}

type rxSampler struct {
	r *rand.Rand
}

func (sm *rxSampler) any() rune {
	p := rxPoolAll()[sm.r.IntN(4)]
	return p[sm.r.IntN(len(p))]
}

func (sm *rxSampler) esc(e byte) rune {
	var p []rune
	switch e | 0x20 {
	case 'd':
		p = rxPoolDigits
	case 'w':
		p = rxPoolWord
	default:
		p = rxPoolSpace
	}
	if e < 'a' || sm.r.IntN(5) == 0 {
		return sm.any()
	}
	return p[sm.r.IntN(len(p))]
}

func (sm *rxSampler) prop(name string) rune {
	t := rxPropTable(name)
	if t == nil {
		return sm.any()
	}
	// try the pools first, then a random member of the table
	for tries := 0; tries < 6; tries++ {
		c := sm.any()
		if unicode.Is(t, c) {
			return c
		}
	}
	if len(t.R16) > 0 {
		rg := t.R16[sm.r.IntN(len(t.R16))]
		return rune(rg.Lo)
	}
	if len(t.R32) > 0 {
		return rune(t.R32[0].Lo)
	}
	return sm.any()
}

func (sm *rxSampler) item(it *rxItem) rune {
	switch it.K {
	case 0:
		return it.Lo
	case 1:
		if it.Hi < it.Lo {
			return it.Lo
		}
		switch sm.r.IntN(3) {
		case 0:
			return it.Lo
		case 1:
			return it.Hi
		}
		return it.Lo + rune(sm.r.IntN(int(it.Hi-it.Lo)+1))
	case 2:
		return sm.esc(it.E)
	case 3:
		if it.Neg {
			return sm.any()
		}
		return sm.prop(it.Prop)
	}
	// posix
	f := rxPosix[it.Prop]
	for tries := 0; tries < 8; tries++ {
		c := rune(sm.r.IntN(128))
		if f != nil && f(c) != it.Neg {
			return c
		}
	}
	return sm.any()
}

// sample writes a string that is likely (not certainly) matched by n.
func (sm *rxSampler) sample(n *rxNode, out *[]rune) {
	fold := n.F&rfI != 0
	emit := func(c rune) {
		if fold && sm.r.IntN(2) == 0 {
			c = rxSwapCase(c)
		}
		*out = append(*out, c)
	}
	switch n.K {
	case rxLit:
		emit(n.R)
	case rxQuoted:
		for _, c := range n.Text {
			emit(c)
		}
	case rxAny:
		if sm.r.IntN(4) == 0 {
			*out = append(*out, '\n')
		} else {
			*out = append(*out, sm.any())
		}
	case rxEsc:
		*out = append(*out, sm.esc(n.E))
	case rxProp:
		if n.Neg {
			*out = append(*out, sm.any())
		} else {
			*out = append(*out, sm.prop(n.Prop))
		}
	case rxClass:
		if n.Neg || len(n.Items) == 0 {
			*out = append(*out, sm.any())
		} else {
			emit(sm.item(&n.Items[sm.r.IntN(len(n.Items))]))
		}
	case rxAnchor:
		if (n.E == '^' || n.E == '$') && n.F&rfM != 0 && sm.r.IntN(2) == 0 {
			*out = append(*out, '\n')
		}
	case rxGroup:
		sm.sample(n.Kids[0], out)
	case rxAlt:
		sm.sample(n.Kids[sm.r.IntN(len(n.Kids))], out)
	case rxConcat:
		for _, k := range n.Kids {
			sm.sample(k, out)
		}
	case rxQuant:
		cnt := n.Min
		extra := sm.r.IntN(3)
		if n.Max >= 0 && cnt+extra > n.Max {
			extra = n.Max - cnt
		}
		for i := 0; i < cnt+extra; i++ {
			sm.sample(n.Kids[0], out)
		}
	}
}

// collect the runes a tree mentions (for mutations)
func rxMentioned(n *rxNode, out *[]rune) {
	switch n.K {
	case rxLit:
		*out = append(*out, n.R)
	case rxQuoted:
		*out = append(*out, []rune(n.Text)...)
	case rxClass:
		for _, it := range n.Items {
			if it.K <= 1 {
				*out = append(*out, it.Lo)
			}
			if it.K == 1 {
				*out = append(*out, it.Hi, it.Lo-1, it.Hi+1)
			}
		}
	case rxTrivia:
		// text of comments / ignored whitespace: strings that contain it must not be needed for a match
		for _, c := range n.Text {
			*out = append(*out, c)
		}
	}
	for _, k := range n.Kids {
		rxMentioned(k, out)
	}
}

func (sm *rxSampler) mutate(s []rune, mentioned []rune) []rune {
	t := append([]rune(nil), s...)
	pickc := func() rune {
		if len(mentioned) > 0 && sm.r.IntN(2) == 0 {
			c := mentioned[sm.r.IntN(len(mentioned))]
			if c >= 0 && c <= unicode.MaxRune && !(c >= 0xD800 && c < 0xE000) {
				return c
			}
		}
		return sm.any()
	}
	switch op := sm.r.IntN(7); {
	case op == 0 && len(t) > 0:
		i := sm.r.IntN(len(t))
		t = append(t[:i], t[i+1:]...)
	case op == 1 && len(t) > 0:
		t[sm.r.IntN(len(t))] = pickc()
	case op == 2 && len(t) > 0:
		i := sm.r.IntN(len(t))
		t[i] = rxSwapCase(t[i])
	case op == 3:
		i := sm.r.IntN(len(t) + 1)
		t = append(t[:i], append([]rune{pickc()}, t[i:]...)...)
	case op == 4:
		t = append([]rune{pickc()}, t...)
		t = append(t, pickc())
	case op == 5:
		i := sm.r.IntN(len(t) + 1)
		t = append(t[:i], append([]rune{'\n'}, t[i:]...)...)
	default:
		if len(t) > 1 {
			i := sm.r.IntN(len(t) - 1)
			t[i], t[i+1] = t[i+1], t[i]
		} else {
			t = append(t, pickc())
		}
	}
	return t
}

// rxSubjects returns ~count distinct subject strings for an annotated tree.
func rxSubjects(r *rand.Rand, n *rxNode, count int) []string {
	sm := &rxSampler{r: r}
	var mentioned []rune
	rxMentioned(n, &mentioned)
	seen := map[string]bool{}
	var out []string
	add := func(rs []rune) {
		if len(rs) > 24 {
			rs = rs[:24]
		}
		s := string(rs)
		if !seen[s] {
			seen[s] = true
			out = append(out, s)
		}
	}
	add(nil)
	for tries := 0; tries < count*4 && len(out) < count; tries++ {
		var s []rune
		sm.sample(n, &s)
		switch r.IntN(5) {
		case 0, 1:
			add(s)
		case 2, 3:
			add(sm.mutate(s, mentioned))
		default:
			add(sm.mutate(sm.mutate(s, mentioned), mentioned))
		}
	}
	return out
}

// ---------- shrinking ----------

func rxPaths(n *rxNode, cur []int, out *[][]int) {
	*out = append(*out, append([]int(nil), cur...))
	for i, k := range n.Kids {
		rxPaths(k, append(cur, i), out)
	}
}

func rxAt(root *rxNode, path []int) (n, parent *rxNode, idx int) {
	n = root
	for _, i := range path {
		parent, idx = n, i
		n = n.Kids[i]
	}
	return
}

func rxDistinctRunes(s string, max int) []rune {
	var out []rune
	for _, c := range s {
		dup := false
		for _, d := range out {
			dup = dup || d == c
		}
		if !dup && len(out) < max {
			out = append(out, c)
		}
	}
	return out
}

// rxShrinks returns candidate simplifications of root (each a fresh tree).
func rxShrinks(root *rxNode, subj string) []*rxNode {
	var paths [][]int
	rxPaths(root, nil, &paths)
	var out []*rxNode
	emit := func(path []int, f func(n, parent *rxNode, idx int, newRoot **rxNode) bool) {
		c := root.clone()
		n, p, i := rxAt(c, path)
		nr := c
		if f(n, p, i, &nr) && rxValid(nr, rxConcat, true) {
			out = append(out, nr)
		}
	}
	replace := func(p *rxNode, i int, newRoot **rxNode, with *rxNode) {
		if p == nil {
			*newRoot = with
		} else {
			p.Kids[i] = with
		}
	}
	subjRunes := rxDistinctRunes(subj, 4)
	for _, path := range paths {
		path := path
		orig, _, _ := rxAt(root, path)
		if len(path) > 0 {
			emit(path, func(n, p *rxNode, i int, nr **rxNode) bool { *nr = n; return true })
			emit(path, func(n, p *rxNode, i int, nr **rxNode) bool {
				if p.K != rxConcat && p.K != rxAlt {
					return false
				}
				p.Kids = append(p.Kids[:i], p.Kids[i+1:]...)
				return true
			})
		}
		for j := range orig.Kids {
			j := j
			emit(path, func(n, p *rxNode, i int, nr **rxNode) bool {
				if n.K == rxConcat && len(n.Kids) != 1 {
					return false
				}
				replace(p, i, nr, n.Kids[j])
				return true
			})
		}
		switch orig.K {
		case rxGroup:
			if orig.GK != 1 {
				emit(path, func(n, p *rxNode, i int, nr **rxNode) bool { n.GK, n.Set, n.Unset, n.Name = 1, 0, 0, ""; return true })
			}
			for b := uint8(1); b < 64 && orig.GK == 5; b <<= 1 {
				b := b
				if orig.Set&b != 0 || orig.Unset&b != 0 {
					emit(path, func(n, p *rxNode, i int, nr **rxNode) bool { n.Set &^= b; n.Unset &^= b; return true })
				}
			}
		case rxSwitch:
			for b := uint8(1); b < 64; b <<= 1 {
				b := b
				if orig.Set&b != 0 || orig.Unset&b != 0 {
					emit(path, func(n, p *rxNode, i int, nr **rxNode) bool { n.Set &^= b; n.Unset &^= b; return true })
				}
			}
		case rxQuant:
			if orig.Lazy {
				emit(path, func(n, p *rxNode, i int, nr **rxNode) bool { n.Lazy = false; return true })
			}
		case rxClass:
			for j := range orig.Items {
				j := j
				emit(path, func(n, p *rxNode, i int, nr **rxNode) bool {
					n.Items = append(n.Items[:j], n.Items[j+1:]...)
					return true
				})
				it := orig.Items[j]
				if it.K == 1 {
					emit(path, func(n, p *rxNode, i int, nr **rxNode) bool { n.Items[j].K = 0; return true })
				}
				if it.K <= 1 && (it.LoF != lfRaw || (it.HiF != lfRaw && it.HiF != lfRawBracket)) {
					emit(path, func(n, p *rxNode, i int, nr **rxNode) bool {
						n.Items[j].LoF = lfRaw
						if n.Items[j].HiF != lfRawBracket {
							n.Items[j].HiF = lfRaw
						}
						return true
					})
				}
			}
			if orig.Neg {
				emit(path, func(n, p *rxNode, i int, nr **rxNode) bool { n.Neg = false; return true })
			}
		case rxLit:
			if orig.Form != lfRaw {
				emit(path, func(n, p *rxNode, i int, nr **rxNode) bool { n.Form = lfRaw; return true })
			}
		case rxQuoted:
			rs := []rune(orig.Text)
			for j := range rs {
				j := j
				if len(rs) > 1 {
					emit(path, func(n, p *rxNode, i int, nr **rxNode) bool {
						n.Text = string(append(append([]rune(nil), rs[:j]...), rs[j+1:]...))
						return true
					})
				}
			}
		case rxTrivia:
			rs := []rune(orig.Text)
			lo, hi := 0, len(rs)
			if rs[0] == '#' {
				lo, hi = 1, len(rs)-1
			}
			for j := lo; j < hi; j++ {
				j := j
				if len(rs) > 1 {
					emit(path, func(n, p *rxNode, i int, nr **rxNode) bool {
						n.Text = string(append(append([]rune(nil), rs[:j]...), rs[j+1:]...))
						return true
					})
				}
			}
		}
		switch orig.K {
		case rxEsc, rxProp, rxClass, rxAny, rxQuoted:
			for _, c := range subjRunes {
				c := c
				emit(path, func(n, p *rxNode, i int, nr **rxNode) bool {
					replace(p, i, nr, &rxNode{K: rxLit, R: c})
					return true
				})
			}
		}
	}
	return out
}

// disagreement of one scenario on one subject: real (compiled fine) vs reference
func (sc *rxScenario) disagrees(subj string) (dis, realGot bool) {
	re, stage, _ := sc.compile()
	if stage != "" {
		return false, false
	}
	want, ok := rxRefSearch(sc.refTree(), subj)
	if !ok {
		return false, false
	}
	got := re.MatchesString(subj)
	return got != want, got
}

func rxMinimise(sc *rxScenario, subj string) (*rxScenario, string) {
	evals := 0
	fails := func(s *rxScenario, sub string) bool {
		evals++
		d, _ := s.disagrees(sub)
		return d
	}
	for progress := true; progress && evals < 2500; {
		progress = false
		// operands that can be dropped altogether
		if sc.Op != "plain" {
			for ti := range sc.T {
				p := &rxScenario{Op: "plain", T: []*rxNode{sc.T[ti].clone()}, F: []uint8{sc.F[ti]}}
				if fails(p, subj) {
					sc, progress = p, true
					break
				}
			}
			if progress {
				continue
			}
		}
	trees:
		for ti := range sc.T {
			for _, cand := range rxShrinks(sc.T[ti], subj) {
				s2 := sc.clone()
				s2.T[ti] = cand
				if fails(s2, subj) {
					sc, progress = s2, true
					break trees
				}
				if evals > 2500 {
					break trees
				}
			}
		}
		if progress {
			continue
		}
		for ti := range sc.F {
			for b := uint8(1); b < 64; b <<= 1 {
				if sc.F[ti]&b != 0 {
					s2 := sc.clone()
					s2.F[ti] &^= b
					if fails(s2, subj) {
						sc, progress = s2, true
					}
				}
			}
		}
		if sc.Op == "repeat" && sc.N > 1 {
			s2 := sc.clone()
			s2.N = 1
			if fails(s2, subj) {
				sc, progress = s2, true
			}
		}
		rs := []rune(subj)
		for j := range rs {
			t := string(append(append([]rune(nil), rs[:j]...), rs[j+1:]...))
			if fails(sc, t) {
				subj, progress = t, true
				break
			}
		}
	}
	return sc, subj
}

var rxSigSeen = map[string]bool{}

// rxStripCommentSyntax returns a copy of the scenario whose comments contain no regex metacharacters (nil when there
// is nothing to strip).
func rxStripCommentSyntax(sc *rxScenario) *rxScenario {
	c := sc.clone()
	changed := false
	var walk func(n *rxNode)
	walk = func(n *rxNode) {
		if n.K == rxTrivia && strings.HasPrefix(n.Text, "#") {
			t := "#" + strings.Map(func(r rune) rune {
				if strings.ContainsRune("|()[]{}*+?.^:<>,'-#", r) {
					return 'k'
				}
				return r
			}, n.Text[1:])
			if t != n.Text {
				n.Text, changed = t, true
			}
		}
		for _, k := range n.Kids {
			walk(k)
		}
	}
	for _, t := range c.T {
		walk(t)
	}
	if !changed {
		return nil
	}
	return c
}

func rxSubjTags(s string) string {
	set := map[string]bool{}
	if s == "" {
		set["empty"] = true
	}
	for _, c := range s {
		set[rxRuneTag(c)] = true
	}
	var ks []string
	for k := range set {
		ks = append(ks, k)
	}
	sort.Strings(ks)
	return strings.Join(ks, ",")
}

func (sc *rxScenario) signature(subj string, realGot bool) string {
	var shapes, fl []string
	for i, t := range sc.T {
		c := t.clone()
		cur := sc.F[i]
		rxAnnotate(c, &cur)
		shapes = append(shapes, rxShapeString(c))
		fl = append(fl, rfString(sc.F[i]))
	}
	dir := "real-rejects"
	if realGot {
		dir = "real-accepts"
	}
	return fmt.Sprintf("mismatch:%s:/%s:%s:%s:subj=%s", sc.Op, strings.Join(fl, "+"), strings.Join(shapes, " ++ "), dir, rxSubjTags(subj))
}

// ---------- Elk-level replay ----------

func rxElkString(s string) string {
	var sb strings.Builder
	sb.WriteByte('"')
	for _, c := range s {
		switch {
		case c == '"' || c == '\\' || c == '$' || c == '#':
			sb.WriteByte('\\')
			sb.WriteRune(c)
		case c == '\n':
			sb.WriteString(`\n`)
		case c == '\t':
			sb.WriteString(`\t`)
		case c == '\r':
			sb.WriteString(`\r`)
		case c >= 0x20 && c < 0x7f:
			sb.WriteRune(c)
		case c <= 0xFFFF:
			fmt.Fprintf(&sb, `\u%04X`, c)
		default:
			fmt.Fprintf(&sb, `\U%08X`, c)
		}
	}
	sb.WriteByte('"')
	return sb.String()
}

type rxElkProbe struct {
	what string
	want bool
}

// rxElkCase: the same regexes as Elk literals; expected values are what the Go API returned (layer agreement), the Go
// API itself is compared with the reference elsewhere.
func rxElkCase(c *Ctx, i int, lits []string, lines []string, probes []rxElkProbe) {
	var sb strings.Builder
	for k, l := range lits {
		fmt.Fprintf(&sb, "r%d := %s\n", k, l)
	}
	for _, l := range lines {
		sb.WriteString(l)
		sb.WriteByte('\n')
	}
	src := sb.String()
	res := RunElk(src, nil)
	c.Count("elk_programs", 1)
	if res.Panic != "" {
		c.Violate("elk-level:panic:"+res.PanicPhase+":"+panicSite1(res.PanicStack), fmt.Sprintf("panic %s\n%s\nprogram:\n%s", head(res.Panic, 300), head(res.PanicStack, 1500), head(src, 3000)), i, src)
		return
	}
	if res.Rejected {
		c.Count("elk_programs_rejected", 1)
		c.Violate("elk-level:rejected:"+head(firstDiagMessage(res), 50), fmt.Sprintf("regex literals accepted by value.CompileRegex were rejected in a program:\n%s\nprogram:\n%s", head(diagString(res.Diagnostics), 600), head(src, 2500)), i, src)
		return
	}
	got := map[int]string{}
	for _, ln := range strings.Split(res.Stdout, "\n") {
		var k int
		var v string
		if n, _ := fmt.Sscanf(ln, "P%d %s", &k, &v); n == 2 {
			got[k] = v
		}
	}
	for k, pr := range probes {
		c.Eval(1)
		c.Count("elk_probes", 1)
		g, ok := got[k]
		if !ok {
			c.Violate("elk-level:no-output:"+strings.SplitN(pr.what, " ", 2)[0], fmt.Sprintf("probe %d (%s) printed nothing; error %s\n%s\nprogram:\n%s", k, pr.what, res.ErrInspect, head(res.Trace, 500), head(src, 2500)), i, src)
			return
		}
		if g != fmt.Sprint(pr.want) {
			c.Violate("elk-level:differs-from-api:"+strings.SplitN(pr.what, " ", 2)[0], fmt.Sprintf("probe %d (%s): value.Regex says %v, the Elk program printed %s\nprogram:\n%s", k, pr.what, pr.want, g, head(src, 2500)), i, src)
			return
		}
	}
}

// ---------- the case ----------

func rxNodeKinds(n *rxNode, set map[string]bool) {
	set[fmt.Sprint(n.K)] = true
	for _, k := range n.Kids {
		rxNodeKinds(k, set)
	}
}

func rxHasNonASCII(s string) bool {
	for _, c := range s {
		if c >= unicode.MaxASCII {
			return true
		}
	}
	return false
}

// rxRunScenario compares one scenario on its subjects; returns per-subject real results (nil when not compiled).
func rxRunScenario(c *Ctx, i int, sc *rxScenario, subjects []string) (*value.Regex, []bool) {
	re, stage, msg := sc.compile()
	c.Count("scenarios_"+sc.Op, 1)
	switch stage {
	case "panic":
		c.Violate("panic:"+sc.Op+":"+head(msg, 60), fmt.Sprintf("%s panicked: %s", sc.describe(), head(msg, 1500)), i, sc.describe())
		return nil, nil
	case "elk", "go", "compose":
		c.Count("regex_error_"+stage, 1)
		return nil, nil
	}
	c.Count("compiled_"+sc.Op, 1)
	ref := sc.refTree()
	var results []bool
	nm, nn := 0, 0
	for _, s := range subjects {
		want, ok := rxRefSearch(ref, s)
		got := re.MatchesString(s)
		results = append(results, got)
		if !ok {
			c.Count("ref_budget_exceeded", 1)
			continue
		}
		c.Eval(1)
		c.Count("subjects_compared", 1)
		if rxHasNonASCII(s) {
			c.Count("subjects_non_ascii", 1)
		}
		if want {
			nm++
		} else {
			nn++
		}
		if got != want {
			c.Count("disagreements_raw", 1)
			// 1. explained by exactly one known deviation of the reference? (no minimisation needed to name it)
			sig := ""
			for _, q := range []uint8{rxQAsciiWordBoundary, rxQAsciiSpaceNoVT, rxQAll} {
				rxQuirks = q
				if wq, _ := rxRefSearch(ref, s); wq == got {
					sig = "known-deviation:" + rxQuirkNames[q]
					break
				}
			}
			rxQuirks = 0
			// 2. extended-mode comment whose text contains regex syntax: does the disagreement vanish when the
			// metacharacters are taken out of the comments?
			if sig == "" {
				if alt := rxStripCommentSyntax(sc); alt != nil {
					if d, _ := alt.disagrees(s); !d {
						sig = "x-comment:text-parsed-as-syntax"
					}
				}
			}
			msc, msubj, mgot := sc, s, got
			if sig == "" || !rxSigSeen[sig] {
				// unexplained disagreements are minimised with the known deviations switched ON in the reference so
				// that the minimiser cannot drift into one of them
				if sig == "" {
					rxQuirks = rxQAll
				}
				msc, msubj = rxMinimise(sc.clone(), s)
				_, mgot = msc.disagrees(msubj)
				if sig == "" {
					sig = msc.signature(msubj, mgot)
				}
				rxSigSeen[sig] = true
			}
			rxQuirks = 0
			goSrc := ""
			if mre, st, _ := msc.compile(); st == "" {
				goSrc = mre.Re.String()
			}
			c.Violate(sig,
				fmt.Sprintf("minimised: %s on %q: real matches=%v, reference=%v (go regexp: %q)\noriginal: %s on %q: real=%v reference=%v (go regexp: %q)",
					msc.describe(), msubj, mgot, !mgot, goSrc, sc.describe(), s, got, want, re.Re.String()),
				i, map[string]any{"elk": msc.describe(), "subject": msubj, "real": mgot})
			break // one report per scenario; later subjects usually repeat it
		}
	}
	c.Count("subjects_match", int64(nm))
	c.Count("subjects_nomatch", int64(nn))
	if nm > 0 && nn > 0 {
		c.Count("scenarios_nontrivial", 1)
	}
	return re, results
}

func c21Case(c *Ctx, i int, r *rand.Rand) {
	if i < len(c21Directed) {
		c21DirectedCase(c, i)
		return
	}
	t0, f0 := rxGenTree(r, "g")
	if !rxValid(t0, rxConcat, true) {
		c.Count("generator_invalid_tree", 1)
		return
	}
	sc := &rxScenario{Op: "plain", T: []*rxNode{t0}, F: []uint8{f0}}
	ref := sc.refTree()
	nsub := 12
	subjects := rxSubjects(r, ref, nsub)
	kinds := map[string]bool{}
	rxNodeKinds(ref, kinds)
	var ks []string
	for k := range kinds {
		ks = append(ks, k)
	}
	sort.Strings(ks)
	c.Distinct(strings.Join(ks, ",") + "/" + rfString(f0))
	for k := 0; k < 6; k++ {
		if f0&(1<<k) != 0 {
			c.Count("global_flag_"+rfLetters[k:k+1], 1)
		}
	}
	c.Count("patterns", 1)
	if f0&rfX != 0 {
		c.Count("patterns_extended", 1)
	}
	if i < 3 {
		c.Sample(map[string]any{"elk": sc.describe(), "subjects": subjects})
	}
	re0, res0 := rxRunScenario(c, i, sc, subjects)

	// composition: second operand with its own flags
	var sc2, scc, scr *rxScenario
	var re1, rec *value.Regex
	var res1, resc []bool
	var csubj []string
	if r.IntN(100) < 60 {
		t1, f1 := rxGenTree(r, "h")
		if r.IntN(3) == 0 {
			f1 = f0
		}
		if rxValid(t1, rxConcat, true) {
			sc2 = &rxScenario{Op: "plain", T: []*rxNode{t1}, F: []uint8{f1}}
			scc = &rxScenario{Op: "concat", T: []*rxNode{t0, t1}, F: []uint8{f0, f1}}
			cref := scc.refTree()
			csubj = rxSubjects(r, cref, 10)
			// operand 2 alone on the same subjects, so that a composition report is not a consequence of an operand report
			re1, res1 = rxRunScenario(c, i, sc2, csubj)
			if re0 != nil && re1 != nil {
				rec, resc = rxRunScenario(c, i, scc, csubj)
			}
		}
	}
	var rsubj []string
	var resr []bool
	if r.IntN(100) < 35 {
		n := []int{0, 1, 2, 2, 3, 3, -1}[r.IntN(7)]
		scr = &rxScenario{Op: "repeat", T: []*rxNode{t0}, F: []uint8{f0}, N: n}
		if n >= 0 {
			rsubj = rxSubjects(r, scr.refTree(), 8)
			_, resr = rxRunScenario(c, i, scr, rsubj)
		} else if re, stage, _ := scr.compile(); re != nil || stage == "panic" {
			if re0 != nil {
				c.Violate("repeat:negative-count-accepted", fmt.Sprintf("%s compiled (stage %q)", scr.describe(), stage), i, scr.describe())
			}
		}
	}

	// interpolation of regex values into a regex literal: %/${r0}${r1}/G
	var sci *rxScenario
	var resi []bool
	if scc != nil && re0 != nil && re1 != nil && r.IntN(100) < 50 {
		g := uint8(0)
		if r.IntN(2) == 0 {
			g = uint8(1) << r.IntN(6)
		}
		sci = &rxScenario{Op: "interp", T: scc.T, F: []uint8{scc.F[0], scc.F[1], g}}
		_, resi = rxRunScenario(c, i, sci, csubj)
	}

	// Elk-level replay of a sample: the same regexes as literals in a compiled program; expectations are the
	// results of the Go API (which is what was compared with the reference above)
	if i%c21ElkEvery != 0 || re0 == nil || os.Getenv("C21_NOELK") != "" {
		return
	}
	srcs := sc.sources()
	if srcs[0] == "" {
		return
	}
	lits := []string{fmt.Sprintf("%%/%s/%s", srcs[0], rfString(f0))}
	var lines []string
	var probes []rxElkProbe
	probe := func(recv, s, what string, want bool) {
		k := len(probes)
		lines = append(lines, fmt.Sprintf("s%d := %s", k, rxElkString(s)), fmt.Sprintf("println(\"P%d #{%s.matches(s%d)}\")", k, recv, k))
		probes = append(probes, rxElkProbe{what, want})
	}
	for k, s := range subjects {
		if k >= len(res0) || k >= 6 {
			break
		}
		probe("r0", s, "plain "+lits[0], res0[k])
	}
	if re1 != nil && rec != nil && sc2.sources()[0] != "" {
		lits = append(lits, fmt.Sprintf("%%/%s/%s", sc2.sources()[0], rfString(sc2.F[0])))
		lines = append(lines, "rc := r0 + r1")
		for k, s := range csubj {
			if k >= len(resc) || k >= 5 {
				break
			}
			probe("rc", s, "concat "+lits[0]+" + "+lits[1], resc[k])
		}
		if resi != nil {
			lines = append(lines, fmt.Sprintf("ri := %%/${r0}${r1}/%s", rfString(sci.F[2])))
			for k, s := range csubj {
				if k >= len(resi) || k >= 5 {
					break
				}
				probe("ri", s, "interp "+sci.describe(), resi[k])
			}
		}
	}
	_ = res1
	if scr != nil && scr.N >= 0 && resr != nil {
		lines = append(lines, fmt.Sprintf("rr := r0 * %d", scr.N))
		for k, s := range rsubj {
			if k >= len(resr) || k >= 4 {
				break
			}
			probe("rr", s, "repeat "+scr.describe(), resr[k])
		}
	}
	// more literals in the same program (a program run costs far more than a regex)
	for extra := 0; extra < 8; extra++ {
		t, f := rxGenTree(r, "e")
		if !rxValid(t, rxConcat, true) {
			continue
		}
		esc := &rxScenario{Op: "plain", T: []*rxNode{t}, F: []uint8{f}}
		ere, st, _ := esc.compile()
		src := esc.sources()[0]
		if st != "" || src == "" {
			continue
		}
		name := fmt.Sprintf("r%d", len(lits))
		lits = append(lits, fmt.Sprintf("%%/%s/%s", src, rfString(f)))
		for _, sj := range rxSubjects(r, esc.refTree(), 4) {
			probe(name, sj, "plain "+lits[len(lits)-1], ere.MatchesString(sj))
		}
	}
	rxElkCase(c, i, lits, lines, probes)
}

const c21ElkEvery = 30

// directed scenarios: pattern text, flags, subject, expected result ("err" = a regex error is expected). They pin the
// defects repaired in the worktree and the seeded families independently of the random generator.
var c21Directed = []struct{ name, src, flags, subj, want string }{
	{"global-i", `abc`, "i", "ABC", "true"},
	{"global-s", `a.c`, "s", "a\nc", "true"},
	{"global-m", `a$`, "m", "a\nb", "true"},
	{"global-i-repeat", `ab`, "i", "ABab", "true"},
	{"class-only-H", `[\H]`, "", " ", "false"},
	{"class-only-H", `[\H]`, "", "a", "true"},
	{"class-only-W-S", `^[\W\S]$`, "", "a", "true"},
	{"class-empty", `[][a]`, "", "a", "err"},
	{"class-empty-neg", `[^]\s`, "", "a ", "err"},
	{"class-range-raw-bracket", `^[+-]]$`, "", "0", "true"},
	{"class-range-raw-bracket", `^[+-]]$`, "", "+]", "false"},
	{"class-caret-after-split", `^[\W^a]$`, "", "z", "false"},
	{"class-caret-after-split", `^[\W^a]$`, "", "^", "true"},
	{"x-space-in-class", `^a [ _] b$`, "x", "a b", "true"},
	{"x-space-in-negated-class", `^[^ _]+$`, "x", "foo bar", "false"},
	{"x-scoped-tab-in-class", "^(?x: k [\t:] v )$", "", "k\tv", "true"},
	{"x-comment", "a # b c\n d", "x", "ad", "true"},
	{"x-escaped-space", `a\ b`, "x", "a b", "true"},
	{"a-digit", `^\d$`, "a", "٣", "false"},
	{"u-digit", `^\d$`, "", "٣", "true"},
	{"scoped-i", `a(?i:b)c`, "", "aBc", "true"},
	{"scoped-i", `a(?i:b)c`, "", "aBC", "false"},
	{"switch-i-rest-of-group", `(a(?i)b|c)d`, "", "Cd", "true"},
	{"switch-i-rest-of-group", `(a(?i)b|c)d`, "", "cD", "false"},
	{"unset-i", `a(?-i:b)`, "i", "AB", "false"},
}

func c21DirectedCase(c *Ctx, i int) {
	d := c21Directed[i]
	var f uint8
	for _, ch := range d.flags {
		f |= 1 << strings.IndexRune(rfLetters, ch)
	}
	src, subj := d.src, d.subj
	c.Count("directed", 1)
	c.Eval(1)
	re, err := value.CompileRegex(src, rfElk(f))
	got := "err"
	if err == nil {
		got = fmt.Sprint(re.MatchesString(subj))
	}
	if got != d.want {
		c.Violate("directed:"+d.name, fmt.Sprintf("%%/%s/%s on %q: expected %s, got %s (error: %v)", src, d.flags, subj, d.want, got, err), i, src)
	}
}

func init() {
	register(&Check{
		ID:   "C21",
		Rule: "each case generates a regex syntax tree of the monitor's own (literals in 16 spellings, ., \\d\\w\\s\\h\\v and negations, \\p/\\P classes, bracket classes with ranges/escapes/POSIX names/negation, anchors ^ $ \\A \\z \\b \\B, \\Q..\\E, capturing/non-capturing/named/flag groups, alternation, greedy and lazy quantifiers with bounds, (?flags) switches, extended-mode whitespace and # comments) with a global flag set from {i,m,s,U,x,a}, prints it as Elk regex source, compiles it with value.CompileRegex and compares Regex#matches (unanchored search) with an independent backtracking reference matcher over the same tree on ~12 subjects sampled from the classes the pattern mentions plus mutations (case variants, newlines, multi-byte and boundary code points); 60% of the cases also compare r1 + r2 (second tree, own flags), 35% r * n, 30% %/${r1}${r2}/f; every 30th case replays the regexes as %/../flags literals in a compiled Elk program through RunElk and compares with the API results. A regex error (Elk diagnostic or Go regexp error) is an allowed outcome. A disagreement is delta-minimised (tree, flags, subject) and the signature names the remaining constructs; distinct = (node-kind set, flag set) cells",
		NumCases: func(tier string) int {
			if tier == "thorough" {
				return 250000
			}
			return 9000
		},
		Case:        c21Case,
		MinCounters: map[string]int64{"subjects_compared": 60000, "compiled_plain": 4000, "compiled_concat": 1500, "compiled_repeat": 1000, "compiled_interp": 500, "scenarios_nontrivial": 3000, "patterns_extended": 1000, "elk_probes": 3000, "directed": 20, "subjects_non_ascii": 10000},
		Assumptions: []string{
			"Regex#matches is an unanchored search (value.Regex.Matches = regexp.MatchString)",
			"the meaning of \\d \\w \\s \\h \\v is the one spelled out by the transpiler tests (Nd; L+Mn+Nd+Pc; White_Space; tab+Zs; LF VT FF CR NEL LS PS), the `a` flag restricts each of them to ASCII; \\b is a boundary of the \\w in force",
			"(?flags) applies to the rest of the enclosing group including later alternatives (PCRE and RE2 agree); case-insensitive matching is simple case folding; a negated class/escape under i is the complement of the folded positive set",
			"POSIX bracket names are ASCII classes; \\p names are those of Go's unicode tables (the reference uses the same tables)",
			"in extended mode whitespace (Unicode White_Space) outside brackets is ignored and # starts a comment up to the next newline wherever it appears; inside brackets both are literal",
			"subjects are valid UTF-8; quantified \\Q..\\E of more than one character, quantified anchors, quantified (?flags) and back-references are not generated (Elk meaning undetermined)",
		},
		CPUBudget: 60,
	})
}
