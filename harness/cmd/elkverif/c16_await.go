package main

// C16: awaiting never loses a wake-up or deadlocks the runtime.
//
// Runtime monitoring only. The VM (build tag verif) calls vm.VerifAsyncHook at named yield points of
// promise settlement, AWAIT / AWAIT_SYNC and the pool worker loop. The monitor
//   (a) records a totally ordered event log (appended under one mutex),
//   (b) perturbs the schedule from the case seed: Gosched / short sleeps at random points, or "gates"
//       that hold a point until another named point on the same promise has been passed (bounded), to
//       force the windows resolve-while-await-holds-the-lock, resolve-right-after-unlock and
//       await-arrives-between-publish-and-enqueue,
//   (c) checks the log against the await protocol (c16Oracle) and compares stdout with the value the
//       generator computed for the program,
//   (d) restates liveness as bounded progress: a run whose hook counter stops moving while every goroutine
//       of the run (pprof label) is parked in a blocking primitive with no runnable task is a deadlock
//       witness; a watchdog that fires without such a witness is INCONCLUSIVE.
// The race detector (race variant) reports are collected by the harness (collectRaceLogs).

import (
	"bytes"
	"context"
	"fmt"
	"math/rand/v2"
	"regexp"
	"runtime"
	"runtime/pprof"
	"sort"
	"strings"
	"sync"
	"sync/atomic"
	"time"

	"github.com/elk-language/elk/types/checker"
	"github.com/elk-language/elk/vm"
)

// ---------------------------------------------------------------------------------------------
// monitor

type c16Ev struct {
	seq    int
	point  string
	p, t   int // promise id, task id (0 = none)
	th     int // VM thread id (0 = none)
	worker int // task the thread was running (0 = none / not a worker)
}

func (e c16Ev) String() string {
	return fmt.Sprintf("%d %s p%d t%d th%d cur%d", e.seq, e.point, e.p, e.t, e.th, e.worker)
}

const (
	c16None = iota
	c16Random
	c16GateAwaitSection // resolver arrives while the awaiting worker holds the lock; and right after unlock
	c16GatePublish      // awaiter arrives between publish and enqueue
	c16SlowWorkers      // workers are slow to dequeue: the queue fills up
	c16Mix
	c16Modes
)

var c16ModeName = []string{"none", "random", "gate-await-section", "gate-publish", "slow-workers", "mix"}

type c16Mon struct {
	mu       sync.Mutex
	events   []c16Ev
	pid      map[*vm.Promise]int
	thid     map[*vm.Thread]int
	cur      map[*vm.Thread]int          // task a worker thread is running
	seen     map[[2]int]int              // (promise id, point index) -> count, for gates
	progress atomic.Int64                // hook calls so far
	mode     int
	seed     uint64
	prob     uint64 // perturbation probability in 1/256
	gates    atomic.Int64
	gateHits atomic.Int64
	dead     atomic.Bool // run abandoned: ignore further events
}

var c16Active atomic.Pointer[c16Mon]

var c16Points = []string{"await:enter", "await:locked", "await:checked-unsettled", "await:settled-unlocked",
	"await:suspended", "cont:registered", "await:unlocked", "continuation:resume", "awaitsync:before", "awaitsync:after",
	"resolve:enter", "resolve:locked", "resolve:published", "resolve:enqueue-continuation", "resolve:enqueued",
	"resolve:unlocked", "addtask:before", "addtask:after", "worker:dequeue", "worker:done"}
var c16PointIdx = func() map[string]int {
	m := map[string]int{}
	for i, p := range c16Points {
		m[p] = i
	}
	return m
}()

func c16Hook(point string, p *vm.Promise, t *vm.Promise, th *vm.Thread) {
	m := c16Active.Load()
	if m == nil || m.dead.Load() {
		return
	}
	m.on(point, p, t, th)
}

func (m *c16Mon) idOf(p *vm.Promise) int {
	if p == nil {
		return 0
	}
	id, ok := m.pid[p]
	if !ok {
		id = len(m.pid) + 1
		m.pid[p] = id
	}
	return id
}

func mix64(x uint64) uint64 {
	x ^= x >> 33
	x *= 0xff51afd7ed558ccd
	x ^= x >> 33
	x *= 0xc4ceb9fe1a85ec53
	x ^= x >> 33
	return x
}

func (m *c16Mon) on(point string, p *vm.Promise, t *vm.Promise, th *vm.Thread) {
	n := m.progress.Add(1)
	m.mu.Lock()
	e := c16Ev{seq: len(m.events), point: point, p: m.idOf(p), t: m.idOf(t)}
	if th != nil {
		id, ok := m.thid[th]
		if !ok {
			id = len(m.thid) + 1
			m.thid[th] = id
		}
		e.th = id
		switch point {
		case "worker:dequeue":
			m.cur[th] = e.t
		}
		e.worker = m.cur[th]
		if point == "worker:done" {
			delete(m.cur, th)
		}
	}
	m.events = append(m.events, e)
	if e.p != 0 {
		m.seen[[2]int{e.p, c16PointIdx[point]}]++
	}
	mode := m.mode
	m.mu.Unlock()
	if mode == c16None {
		return
	}
	h := mix64(m.seed ^ uint64(n)*0x9E3779B97F4A7C15 ^ uint64(c16PointIdx[point])<<56)
	if mode == c16Mix {
		mode = 1 + int(h>>40)%4
	}
	switch mode {
	case c16Random:
		if h&255 < m.prob {
			if h>>8&3 == 0 {
				time.Sleep(time.Duration(20+h>>12%300) * time.Microsecond)
			} else {
				runtime.Gosched()
			}
		}
	case c16GateAwaitSection:
		switch point {
		case "await:checked-unsettled", "await:suspended":
			// hold the lock until the resolver of this promise has arrived at its Lock
			m.gate(e.p, "resolve:enter", 400*time.Microsecond)
		case "await:unlocked":
			// give a resolver that waits for the lock the first move after the unlock
			m.gate(e.p, "resolve:unlocked", 600*time.Microsecond)
		case "cont:registered":
			runtime.Gosched()
		}
	case c16GatePublish:
		switch point {
		case "resolve:published":
			// keep the settled promise locked until another task arrives to await it
			m.gateCount(e.p, "await:enter", 300*time.Microsecond)
		case "resolve:enqueue-continuation", "resolve:locked":
			if h&3 == 0 {
				time.Sleep(50 * time.Microsecond)
			}
		case "await:enter":
			if h&1 == 0 {
				runtime.Gosched()
			}
		}
	case c16SlowWorkers:
		switch point {
		case "worker:dequeue":
			if h&3 != 0 {
				time.Sleep(time.Duration(50+h>>12%400) * time.Microsecond)
			}
		case "resolve:published", "await:suspended":
			if h&7 == 0 {
				time.Sleep(100 * time.Microsecond)
			}
		}
	}
}

// gate blocks (bounded) until point has been seen on promise pid.
func (m *c16Mon) gate(pid int, point string, max time.Duration) {
	m.gates.Add(1)
	k := [2]int{pid, c16PointIdx[point]}
	deadline := time.Now().Add(max)
	for {
		m.mu.Lock()
		ok := m.seen[k] > 0
		m.mu.Unlock()
		if ok {
			m.gateHits.Add(1)
			return
		}
		if time.Now().After(deadline) {
			return
		}
		time.Sleep(15 * time.Microsecond)
	}
}

// gateCount blocks (bounded) until point is seen once more on promise pid.
func (m *c16Mon) gateCount(pid int, point string, max time.Duration) {
	m.gates.Add(1)
	k := [2]int{pid, c16PointIdx[point]}
	m.mu.Lock()
	start := m.seen[k]
	m.mu.Unlock()
	deadline := time.Now().Add(max)
	for {
		m.mu.Lock()
		ok := m.seen[k] > start
		m.mu.Unlock()
		if ok {
			m.gateHits.Add(1)
			return
		}
		if time.Now().After(deadline) {
			return
		}
		time.Sleep(15 * time.Microsecond)
	}
}

// ---------------------------------------------------------------------------------------------
// trace oracle

type c16Finding struct{ sig, detail string }

type c16Stats struct {
	suspensions, resumes, fastpath, registered, enqueued, settles, awaitsync int
	settleBeforeAwait, awaitBeforeSettle, multiCont, rejectedAwaits           int
	interleave                                                                map[string]bool
}

// c16Oracle checks the await protocol over a complete (finished=true) or partial event log.
func c16Oracle(evs []c16Ev, finished bool) (out []c16Finding, st c16Stats) {
	st.interleave = map[string]bool{}
	type pst struct {
		published  int
		settleDone bool // resolve:unlocked seen
		registered map[int]int // task -> pending registrations
		enq        map[int]int
		proj       []string
	}
	type tst struct {
		suspendedOn int // promise id or 0
		registered  bool
		enqueued    bool
		resuming    bool
		runner      int // thread that runs the task (0 = none)
	}
	ps := map[int]*pst{}
	ts := map[int]*tst{}
	lockHeld := map[int]int{} // thread -> promise whose lock AWAIT took
	P := func(id int) *pst {
		s := ps[id]
		if s == nil {
			s = &pst{registered: map[int]int{}, enq: map[int]int{}}
			ps[id] = s
		}
		return s
	}
	T := func(id int) *tst {
		s := ts[id]
		if s == nil {
			s = &tst{}
			ts[id] = s
		}
		return s
	}
	seenSig := map[string]bool{}
	add := func(sig string, e c16Ev, why string) {
		if seenSig[sig] {
			return
		}
		seenSig[sig] = true
		lo := e.seq - 14
		if lo < 0 {
			lo = 0
		}
		var sb strings.Builder
		for _, x := range evs[lo : e.seq+1] {
			if x.p == e.p || x.t == e.t || x.worker == e.worker || x.th == e.th {
				sb.WriteString("  " + x.String() + "\n")
			}
		}
		out = append(out, c16Finding{sig, why + "\nevent " + e.String() + "\nrelated events before it:\n" + sb.String()})
	}
	short := map[string]string{"await:locked": "aL", "await:checked-unsettled": "aC", "cont:registered": "aR", "await:unlocked": "aU",
		"await:settled-unlocked": "aF", "resolve:locked": "rL", "resolve:published": "rP", "resolve:enqueue-continuation": "rQ",
		"resolve:unlocked": "rU", "continuation:resume": "cR", "resolve:enter": "rE", "await:enter": "aE"}
	for _, e := range evs {
		if e.p != 0 {
			if s, ok := short[e.point]; ok {
				p := P(e.p)
				if len(p.proj) < 40 {
					p.proj = append(p.proj, s)
				}
			}
		}
		switch e.point {
		case "worker:dequeue":
			t := T(e.t)
			if t.runner != 0 {
				add("double-resume:task-dequeued-while-running", e, "a task was taken from the queue while a worker was still running it")
			}
			t.runner = e.th
			if t.suspendedOn != 0 {
				if !t.enqueued {
					add("resume-without-enqueue", e, "a suspended task was dequeued although no settle enqueued it")
				}
				t.resuming = true
			}
		case "worker:done":
			if t := T(e.t); t.runner == e.th {
				t.runner = 0
			}
			if lockHeld[e.th] != 0 {
				add("lock-leak:await-locked-not-released", e, fmt.Sprintf("the worker finished a task step while AWAIT's lock on promise p%d was never released", lockHeld[e.th]))
				delete(lockHeld, e.th)
			}
		case "await:locked":
			if lockHeld[e.th] != 0 {
				add("lock-leak:await-locked-not-released", e, fmt.Sprintf("thread locks a promise in AWAIT while it still holds AWAIT's lock on p%d", lockHeld[e.th]))
			}
			lockHeld[e.th] = e.p
		case "await:checked-unsettled":
			if P(e.p).published > 0 {
				add("await-saw-unsettled-after-publish", e, "AWAIT found the promise unsettled under the lock after its result had been published")
			}
		case "await:settled-unlocked":
			delete(lockHeld, e.th)
			st.fastpath++
			st.settleBeforeAwait++
		case "await:suspended":
			t := T(e.t)
			if t.suspendedOn != 0 {
				add("double-suspend", e, "task suspended while already suspended")
			}
			t.suspendedOn, t.registered, t.enqueued, t.resuming = e.p, false, false, false
			st.suspensions++
			st.awaitBeforeSettle++
		case "cont:registered":
			p, t := P(e.p), T(e.t)
			if p.published > 0 {
				add("lost-wakeup:register-after-publish", e, "the continuation was registered after the promise had published its result and drained its continuations: nothing will enqueue it")
			}
			p.registered[e.t]++
			if p.registered[e.t] > 1 {
				add("double-register", e, "the same task is registered twice on one promise")
			}
			if len(p.registered) > 1 {
				st.multiCont++
			}
			if t.suspendedOn != e.p {
				add("register-without-suspend", e, "a task was registered on a promise it did not suspend on")
			}
			t.registered = true
			t.runner = 0 // the task's state is saved; from here on another worker may legitimately resume it
			st.registered++
		case "await:unlocked":
			delete(lockHeld, e.th)
			if t := T(e.t); t.suspendedOn == e.p && !t.registered {
				add("lost-wakeup-window:unlock-before-register", e, "AWAIT's lock was released before the continuation was registered: a settle in between drains an empty continuation list")
			}
		case "resolve:published":
			p := P(e.p)
			p.published++
			st.settles++
			if p.published > 1 {
				add("double-settle", e, "promise settled twice")
			}
		case "resolve:unlocked":
			P(e.p).settleDone = true
		case "resolve:enqueue-continuation":
			p, t := P(e.p), T(e.t)
			if p.published == 0 {
				add("enqueue-before-publish", e, "continuation enqueued before the result was published")
			}
			if p.registered[e.t] == 0 {
				add("enqueue-unregistered", e, "a task that is not registered on the promise was enqueued")
			}
			p.enq[e.t]++
			if p.enq[e.t] > 1 || t.enqueued {
				add("double-enqueue", e, "the continuation was enqueued twice")
			}
			t.enqueued = true
			st.enqueued++
		case "continuation:resume":
			t := T(e.worker)
			p := P(e.p)
			if e.worker == 0 {
				add("resume-outside-worker", e, "AWAIT_RESULT executed by a thread that runs no task")
				break
			}
			if t.suspendedOn != e.p {
				add("resume-wrong-promise", e, fmt.Sprintf("task resumed on p%d but it awaits p%d", e.p, t.suspendedOn))
				break
			}
			if p.published == 0 {
				add("resume-before-settle", e, "task resumed before the awaited promise settled")
			}
			if !t.resuming {
				add("resume-without-dequeue", e, "")
			}
			t.suspendedOn, t.registered, t.enqueued, t.resuming = 0, false, false, false
			delete(p.registered, e.worker)
			delete(p.enq, e.worker)
			st.resumes++
		case "awaitsync:before":
			st.awaitsync++
		}
	}
	last := c16Ev{}
	if len(evs) > 0 {
		last = evs[len(evs)-1]
	}
	// end state
	ids := make([]int, 0, len(ts))
	for id := range ts {
		ids = append(ids, id)
	}
	sort.Ints(ids)
	for _, id := range ids {
		t := ts[id]
		if t.suspendedOn == 0 {
			continue
		}
		p := P(t.suspendedOn)
		e := last
		e.t, e.p = id, t.suspendedOn
		if p.published > 0 && p.settleDone && !t.enqueued {
			add("lost-wakeup:settled-but-never-enqueued", e, fmt.Sprintf("task t%d is suspended on p%d, which has settled, and was never enqueued", id, t.suspendedOn))
		} else if p.published > 0 && finished && !t.resuming {
			add("lost-wakeup:enqueued-but-never-resumed", e, fmt.Sprintf("task t%d was enqueued by the settle of p%d but never ran again although the program finished", id, t.suspendedOn))
		}
	}
	for _, p := range ps {
		if len(p.proj) > 0 {
			st.interleave[strings.Join(p.proj, "")] = true
		}
	}
	return out, st
}

// ---------------------------------------------------------------------------------------------
// goroutine dump of one run (pprof label c16run)

type c16Dump struct {
	classes map[string]int
	raw     string
	parked  bool // every goroutine of the run is parked in a blocking primitive that nothing in the run can release
}

var c16FrameRe = regexp.MustCompile(`(?m)^#\s+0x[0-9a-f]+\s+(\S+?)\+0x`)

func c16GoroutineDump(label string) c16Dump {
	var buf bytes.Buffer
	pprof.Lookup("goroutine").WriteTo(&buf, 1)
	d := c16Dump{classes: map[string]int{}, parked: true}
	var raw strings.Builder
	want := fmt.Sprintf(`"c16run":%q`, label)
	for _, blk := range strings.Split(buf.String(), "\n\n") {
		if !strings.Contains(blk, want) {
			continue
		}
		n := 1
		fmt.Sscanf(blk, "%d @", &n)
		var fr []string
		for _, m := range c16FrameRe.FindAllStringSubmatch(blk, -1) {
			fr = append(fr, m[1])
		}
		all := strings.Join(fr, " ")
		has := func(s string) bool { return strings.Contains(all, s) }
		onWorker := has("vm.threadWorker")
		who := "thread"
		if onWorker {
			who = "worker"
		} else if has("vm.initPromise") {
			who = "promise-wait-goroutine"
		} else if has("main.RunElk") {
			who = "main"
		}
		// runtime frames are elided from the profile: the innermost frame shown is the function that is parked
		top := ""
		if len(fr) > 0 {
			top = fr[0]
		}
		cls := ""
		switch {
		case has("main.c16Hook"):
			cls = "in-hook@" + who
			d.parked = false
		case strings.HasSuffix(top, "vm.(*Promise).enqueueContinuations"):
			cls = "queue-full-continuation@" + who
		case strings.HasSuffix(top, "vm.(*ThreadPool).AddTask"):
			cls = "queue-full-addtask@" + who
		case (strings.HasPrefix(top, "sync.") || strings.Contains(top, "vm.(*Promise).AwaitSync")) && has("vm.(*Promise).AwaitSync"):
			// AwaitSync parks in sync.WaitGroup.Wait or, since the cancellation repair, in a select on the promise's done channel
			cls = "await_sync@" + who
		case strings.HasPrefix(top, "sync.") && has("sync.(*Mutex).Lock") && (len(fr) > 3 && (strings.Contains(fr[3], "vm.(*Promise)") || strings.HasSuffix(fr[3], "vm.(*Thread).run"))):
			cls = "promise-lock@" + who
		case strings.HasSuffix(top, "vm.threadWorker"):
			cls = "idle@worker"
		case strings.HasPrefix(top, "time.") || strings.Contains(top, "vm.initKernel"):
			cls = "timer"
			d.parked = false
		case strings.HasPrefix(top, "sync.") || strings.Contains(top, "vm.(*Channel)") || strings.Contains(top, "vm.initChannel") || strings.Contains(top, "vm.initWaitGroup"):
			cls = "blocked-other@" + who
		default:
			cls = "running@" + who
			d.parked = false
		}
		d.classes[cls] += n
		fmt.Fprintf(&raw, "[%s x%d] %s\n", cls, n, head(all, 420))
	}
	d.raw = raw.String()
	if len(d.classes) == 0 {
		d.parked = false
	}
	return d
}

func (d c16Dump) signature() string {
	var blocked []string
	idle := 0
	for k, n := range d.classes {
		if k == "idle@worker" {
			idle += n
			continue
		}
		blocked = append(blocked, k)
	}
	sort.Strings(blocked)
	allSync, onWorker := len(blocked) > 0, false
	for _, b := range blocked {
		if !strings.HasPrefix(b, "await_sync@") {
			allSync = false
		}
		if b == "await_sync@worker" {
			onWorker = true
		}
	}
	if allSync && onWorker && idle == 0 {
		// every pool worker sits in a blocking await_sync (WaitGroup.Wait) and the tasks they wait for are still queued
		return "await_sync-on-every-worker"
	}
	return strings.Join(blocked, "+")
}

// ---------------------------------------------------------------------------------------------
// running one program under the monitor

type c16Run struct {
	res      *ElkResult
	evs      []c16Ev
	deadlock bool
	timedOut bool
	dump     c16Dump
	mon      *c16Mon
}

var c16RunSeq atomic.Int64
var c16Tainted atomic.Bool // a run was abandoned while possibly still executing

func c16RunProgram(src string, threads, queue, mode int, seed uint64, prob uint64) *c16Run {
	m := &c16Mon{pid: map[*vm.Promise]int{}, thid: map[*vm.Thread]int{}, cur: map[*vm.Thread]int{}, seen: map[[2]int]int{},
		mode: mode, seed: seed, prob: prob}
	c16Active.Store(m)
	label := fmt.Sprint(c16RunSeq.Add(1))
	done := make(chan *ElkResult, 1)
	go pprof.Do(context.Background(), pprof.Labels("c16run", label), func(context.Context) {
		done <- RunElk(src, &ElkOpts{Threads: threads, Queue: queue})
	})
	out := &c16Run{mon: m}
	start := time.Now()
	lastProgress, stableSince, stableDumps := int64(-1), time.Now(), 0
	tick := time.NewTicker(100 * time.Millisecond)
	defer tick.Stop()
loop:
	for {
		select {
		case r := <-done:
			out.res = r
			break loop
		case <-tick.C:
			p := m.progress.Load()
			if p != lastProgress {
				lastProgress, stableSince, stableDumps = p, time.Now(), 0
				continue
			}
			if time.Since(stableSince) > 1200*time.Millisecond {
				d := c16GoroutineDump(label)
				if d.parked && m.progress.Load() == p {
					stableDumps++
					out.dump = d
					if stableDumps >= 3 {
						out.deadlock = true
						break loop
					}
				} else {
					stableDumps = 0
				}
			}
			if time.Since(start) > 90*time.Second {
				out.timedOut = true
				out.dump = c16GoroutineDump(label)
				break loop
			}
		}
	}
	m.dead.Store(true)
	c16Active.Store(nil)
	m.mu.Lock()
	out.evs = m.events
	m.mu.Unlock()
	if out.timedOut {
		c16Tainted.Store(true)
	}
	return out
}

// ---------------------------------------------------------------------------------------------
// workload generator: DAG of async tasks with a reference value per node

const c16Prelude = `async def leaf(x: Int): Int
  x * 2 + 1
end

async def spin(x: Int, n: Int): Int
  s := 0
  i := 0
  while i < n
    s += i % 7
    i += 1
  end
  x + s
end

async def slow(x: Int): Int
  await timeout(1.millisecond)
  x + 5
end

async def boom(x: Int): Int
  throw unchecked x
end

async def slowboom(x: Int): Int
  await timeout(1.millisecond)
  throw unchecked x
end

async def wait1(p: Promise[Int], k: Int): Int
  (await p) + k
end

async def sum2(p: Promise[Int], q: Promise[Int], k: Int): Int
  a := 0
  do
    a = await p
  catch Int() as e
    a = 0 - e
  end
  b := await q
  a + b + k
end

async def nest(d: Int, x: Int): Int
  if d <= 0
    x
  else
    (await nest(d - 1, x)) + 1
  end
end

async def fan(k: Int, x: Int): Int
  var ps: List[Promise[Int]] = []
  for i in 1...k then ps << leaf(x + i)
  s := 0
  for p in ps then s += await p
  s
end

async def syncw(p: Promise[Int], k: Int): Int
  p.await_sync + k
end

async def waitall(w: Promise[Int], k: Int): Int
  await w
  k
end

async def looper(n: Int): Int
  s := 0
  i := 0
  while i < n
    s += await leaf(i)
    i += 1
  end
  s
end

def pop_or(ch: Channel[Int]): Int
  do
    ch.pop
  catch Channel::ClosedError() as e
    0 - 1000000
  end
end

async def prod(ch: Channel[Int], n: Int, x: Int): Int
  i := 0
  while i < n
    ch << x + i
    i += 1
  end
  n
end

async def cons(ch: Channel[Int], p: Promise[Int]): Int
  n := await p
  s := 0
  i := 0
  while i < n
    s += pop_or(ch)
    i += 1
  end
  s
end

`

// c16Warmup runs every task function once, one after the other, before the concurrent part: the VM's per-call-site
// method cache is filled by an unsynchronised write (known finding K-C16-callsite-cache-race, not an await defect),
// which the race detector reports whenever two workers execute a call site for the first time at the same moment.
const c16Warmup = `await leaf(0)
await spin(0, 3)
await slow(0)
do
  await boom(1)
catch Int() as e
  nil
end
do
  await slowboom(1)
catch Int() as e
  nil
end
await wait1(leaf(1), 0)
await sum2(boom(1), leaf(1), 0)
await nest(2, 0)
await fan(2, 0)
await syncw(leaf(1), 0)
await waitall(Promise.wait(leaf(1)), 0)
wch := Channel::[Int](2)
await cons(wch, prod(wch, 2, 0))
`

type c16Node struct {
	kind string
	deps []int
	a, b int
	val  int
	err  bool
	decl string
}

type c16Prog struct {
	src, want  string
	nodes      []c16Node
	kinds      map[string]int
	nested     bool // tasks are created from inside pool workers
	syncOnPool int  // tasks that block a pool worker in await_sync
	tasks      int  // upper bound of tasks + continuations in flight
}

func spinVal(x, n int) int {
	s := 0
	for i := 0; i < n; i++ {
		s += i % 7
	}
	return x + s
}

// c16Gen builds one program. shape selects the family; threads is needed to stay below the
// await_sync-on-worker starvation threshold (see known finding).
func c16Gen(r *rand.Rand, shape string, threads int) *c16Prog {
	g := &c16Prog{kinds: map[string]int{}}
	var main strings.Builder
	nn := 4 + r.IntN(14)
	if shape == "wide" {
		nn = 16 + r.IntN(20)
	}
	syncBudget := threads - 1
	if shape != "mixed" && shape != "sync" {
		syncBudget = 0
	}
	hasChan := false
	pick := func() int { // prefer recent nodes: deeper chains
		n := len(g.nodes)
		if r.IntN(3) == 0 {
			return r.IntN(n)
		}
		lo := n - 4
		if lo < 0 {
			lo = 0
		}
		return lo + r.IntN(n-lo)
	}
	addNode := func(nd c16Node) int {
		i := len(g.nodes)
		g.kinds[nd.kind]++
		fmt.Fprintf(&main, "n%d := %s\n", i, nd.decl)
		g.nodes = append(g.nodes, nd)
		return i
	}
	mk := func(second bool) {
		kinds := []string{"leaf", "leaf", "spin", "slow", "boom", "wait1", "wait1", "sum2", "sum2"}
		switch shape {
		case "flat", "wide":
			kinds = append(kinds, "slowboom", "wait1", "sum2")
		case "nested":
			kinds = append(kinds, "nest", "fan", "nest", "fan")
		case "mixed":
			kinds = append(kinds, "nest", "fan", "syncw", "waitall", "slowboom", "chan")
		case "sync":
			kinds = append(kinds, "syncw", "syncw", "waitall")
		case "fanin":
			kinds = []string{"slow", "wait1", "wait1", "wait1", "sum2", "slowboom", "wait1"}
		}
		k := kinds[r.IntN(len(kinds))]
		if second { // only awaiters of already settled promises
			k = []string{"wait1", "wait1", "sum2"}[r.IntN(3)]
		}
		if len(g.nodes) == 0 && (k == "wait1" || k == "sum2" || k == "syncw" || k == "waitall") {
			k = "slow"
		}
		if k == "syncw" && syncBudget <= 0 {
			k = "wait1"
		}
		if k == "chan" && hasChan {
			k = "leaf"
		}
		switch k {
		case "leaf":
			x := r.IntN(100)
			addNode(c16Node{kind: k, val: 2*x + 1, decl: fmt.Sprintf("leaf(%d)", x)})
		case "spin":
			x, n := r.IntN(100), r.IntN(3000)
			addNode(c16Node{kind: k, val: spinVal(x, n), decl: fmt.Sprintf("spin(%d, %d)", x, n)})
		case "slow":
			x := r.IntN(100)
			addNode(c16Node{kind: k, val: x + 5, decl: fmt.Sprintf("slow(%d)", x)})
		case "boom", "slowboom":
			x := 1 + r.IntN(90)
			addNode(c16Node{kind: k, val: x, err: true, decl: fmt.Sprintf("%s(%d)", k, x)})
		case "wait1", "syncw":
			d, kk := pick(), r.IntN(50)
			dn := g.nodes[d]
			if k == "syncw" {
				syncBudget--
				g.syncOnPool++
			}
			v := dn.val + kk
			if dn.err {
				v = dn.val
			}
			addNode(c16Node{kind: k, deps: []int{d}, val: v, err: dn.err, decl: fmt.Sprintf("%s(n%d, %d)", k, d, kk)})
		case "sum2":
			p, q, kk := pick(), pick(), r.IntN(50)
			pn, qn := g.nodes[p], g.nodes[q]
			nd := c16Node{kind: k, deps: []int{p, q}, decl: fmt.Sprintf("sum2(n%d, n%d, %d)", p, q, kk)}
			a := pn.val
			if pn.err {
				a = -pn.val
			}
			if qn.err {
				nd.err, nd.val = true, qn.val
			} else {
				nd.val = a + qn.val + kk
			}
			addNode(nd)
		case "nest":
			d, x := 1+r.IntN(5), r.IntN(100)
			g.nested = true
			g.tasks += d
			addNode(c16Node{kind: k, val: x + d, decl: fmt.Sprintf("nest(%d, %d)", d, x)})
		case "fan":
			kk, x := 1+r.IntN(6), r.IntN(100)
			g.nested = true
			g.tasks += kk
			v := 0
			for i := 1; i <= kk; i++ {
				v += 2*(x+i) + 1
			}
			addNode(c16Node{kind: k, val: v, decl: fmt.Sprintf("fan(%d, %d)", kk, x)})
		case "waitall":
			cnt := 1 + r.IntN(3)
			var ds []int
			var names []string
			nd := c16Node{kind: k}
			kk := r.IntN(50)
			nd.val = kk
			for j := 0; j < cnt; j++ {
				d := pick()
				ds = append(ds, d)
				names = append(names, fmt.Sprintf("n%d", d))
				if g.nodes[d].err && !nd.err {
					nd.err, nd.val = true, g.nodes[d].val
				}
			}
			nd.deps = ds
			nd.decl = fmt.Sprintf("waitall(Promise.wait(%s), %d)", strings.Join(names, ", "), kk)
			addNode(nd)
		case "chan":
			hasChan = true
			n, x := 1+r.IntN(6), r.IntN(50)
			fmt.Fprintf(&main, "ch := Channel::[Int](%d)\n", n)
			pi := addNode(c16Node{kind: "prod", val: n, decl: fmt.Sprintf("prod(ch, %d, %d)", n, x)})
			v := 0
			for i := 0; i < n; i++ {
				v += x + i
			}
			addNode(c16Node{kind: "cons", deps: []int{pi}, val: v, decl: fmt.Sprintf("cons(ch, n%d)", pi)})
		}
	}
	for len(g.nodes) < nn {
		mk(false)
	}
	var want strings.Builder
	emitAwait := func(i int, tag string) {
		nd := g.nodes[i]
		fmt.Fprintf(&main, "do\n  v := await n%d\n  println \"%s%d \" + v.to_string\ncatch Int() as e\n  println \"E%s%d \" + e.to_string\nend\n", i, tag, i, tag, i)
		if nd.err {
			fmt.Fprintf(&want, "E%s%d %d\n", tag, i, nd.val)
		} else {
			fmt.Fprintf(&want, "%s%d %d\n", tag, i, nd.val)
		}
	}
	// go threads that await promises and report through a channel
	ngo := 0
	if shape == "mixed" || shape == "flat" || shape == "fanin" {
		ngo = r.IntN(3)
	}
	if ngo > 0 {
		fmt.Fprintf(&main, "gch := Channel::[Int](%d)\n", ngo)
		sum := 0
		for j := 0; j < ngo; j++ {
			d := r.IntN(len(g.nodes))
			dn := g.nodes[d]
			fmt.Fprintf(&main, "go\n  do\n    gch << (await n%d)\n  catch Int() as e\n    gch << 0 - e\n  end\nend\n", d)
			if dn.err {
				sum -= dn.val
			} else {
				sum += dn.val
			}
		}
		g.kinds["go"] += ngo
		fmt.Fprintf(&main, "gs := 0\nfor i in 1...%d then gs += pop_or(gch)\nprintln \"G \" + gs.to_string\n", ngo)
		fmt.Fprintf(&want, "G %d\n", sum)
	}
	order := r.Perm(len(g.nodes))
	for _, i := range order {
		emitAwait(i, "P")
		if r.IntN(6) == 0 {
			emitAwait(i, "Q") // again, already settled
		}
	}
	// second phase: awaiters of promises that are already settled (resolved and rejected)
	first := len(g.nodes)
	extra := r.IntN(5)
	if shape == "fanin" || shape == "flat" {
		extra += 2
	}
	for j := 0; j < extra; j++ {
		mk(true)
	}
	for i := first; i < len(g.nodes); i++ {
		emitAwait(i, "S")
	}
	main.WriteString("println \"done\"\n")
	want.WriteString("done\n")
	g.tasks += len(g.nodes) * 2
	g.src = c16Prelude + c16Warmup + main.String()
	g.want = want.String()
	return g
}

// ---------------------------------------------------------------------------------------------
// the check

// pinned witnesses of listed findings: run under their own (threads, queue) and reported under their signature
type c16Pinned struct {
	name           string
	src, want      string
	threads, queue int
}

var c16Witnesses = []c16Pinned{
	{name: "nested-await_sync-starves-pool", threads: 2, queue: 16, want: "7\ndone\n", src: `async def c: Int
  5
end
async def b: Int
  c().await_sync + 1
end
async def a: Int
  b().await_sync + 1
end
println a().await_sync.to_string
println "done"
`},
}

func c16Config(r *rand.Rand, i int) (threads, queue int) {
	threads = 1 + r.IntN(8)
	queue = 1 + r.IntN(16)
	switch i % 5 {
	case 0:
		queue = 1
	case 1:
		queue = 1 + r.IntN(3)
		threads = 1 + r.IntN(3)
	}
	return
}

func c16Report(c *Ctx, i int, run *c16Run, prog string, want string, threads, queue, mode int, seed uint64, meta string) {
	input := map[string]any{"elk": prog, "threads": threads, "queue": queue, "hook_mode": c16ModeName[mode], "hook_seed": seed,
		"expected_stdout": want, "shape": meta,
		"replay": fmt.Sprintf("./check C16 --seed %d --case %d", c.Seed, i)}
	evTail := func(n int) string {
		var sb strings.Builder
		lo := len(run.evs) - n
		if lo < 0 {
			lo = 0
		}
		for _, e := range run.evs[lo:] {
			sb.WriteString("  " + e.String() + "\n")
		}
		return sb.String()
	}
	finished := run.res != nil
	fs, st := c16Oracle(run.evs, finished && run.res.Panic == "" )
	c.Eval(int64(st.suspensions + st.fastpath + st.settles + 1))
	c.Count("events", int64(len(run.evs)))
	c.Count("awaits_suspended", int64(st.suspensions))
	c.Count("awaits_resumed", int64(st.resumes))
	c.Count("awaits_fastpath_settled", int64(st.fastpath))
	c.Count("continuations_registered", int64(st.registered))
	c.Count("continuations_enqueued", int64(st.enqueued))
	c.Count("promises_settled", int64(st.settles))
	c.Count("await_sync_calls", int64(st.awaitsync))
	c.Count("registrations_on_promise_with_other_waiters", int64(st.multiCont))
	c.Count("gates_entered", run.mon.gates.Load())
	c.Count("gates_satisfied", run.mon.gateHits.Load())
	for k := range st.interleave {
		c.Distinct("il:" + k)
	}
	for _, f := range fs {
		c.Violate(f.sig, fmt.Sprintf("threads=%d queue=%d mode=%s\n%s", threads, queue, c16ModeName[mode], f.detail), i, input)
	}
	switch {
	case run.deadlock:
		c.Count("deadlocks_witnessed", 1)
		sig := "deadlock:" + run.dump.signature()
		if len(fs) > 0 && strings.HasPrefix(fs[0].sig, "lost-wakeup") {
			sig = "deadlock-after-" + fs[0].sig
		}
		c.Violate(sig, fmt.Sprintf("threads=%d queue=%d mode=%s %s\nno hook event for >1.5 s and every goroutine of the run is parked:\n%s\nstdout so far: %q\nlast events:\n%s",
			threads, queue, c16ModeName[mode], meta, run.dump.raw, "", evTail(25)), i, input)
	case run.timedOut:
		c.Count("watchdog_inconclusive", 1)
		c.Inconclusive(fmt.Sprintf("case %d: watchdog fired without a deadlock witness (threads=%d queue=%d)\n%s", i, threads, queue, head(run.dump.raw, 1500)))
	default:
		res := run.res
		c.Count("programs_finished", 1)
		if res.Rejected {
			c.Violate("generator:program-rejected", diagString(res.Diagnostics)+"\n"+prog, i, input)
			return
		}
		if res.Panic != "" {
			c.Violate("go-panic:"+panicSite1(res.PanicStack), res.Panic+"\n"+head(res.PanicStack, 2500), i, input)
			return
		}
		if res.Stdout != want {
			gl, wl := strings.Split(res.Stdout, "\n"), strings.Split(want, "\n")
			k := 0
			for k < len(gl) && k < len(wl) && gl[k] == wl[k] {
				k++
			}
			g1, w1 := "<end>", "<end>"
			if k < len(gl) {
				g1 = gl[k]
			}
			if k < len(wl) {
				w1 = wl[k]
			}
			kind := "value"
			if !res.Err.IsUndefined() {
				kind = "uncaught-error"
			}
			c.Violate("stdout-differs:"+kind, fmt.Sprintf("threads=%d queue=%d mode=%s\nfirst difference at line %d: got %q want %q\nerr=%s\nstderr=%s", threads, queue, c16ModeName[mode], k+1, g1, w1, res.ErrInspect, head(res.Stderr, 600)), i, input)
		} else {
			c.Count("stdout_equal_reference", 1)
		}
	}
}

func init() {
	shapes := []string{"flat", "nested", "mixed", "fanin", "wide", "sync", "flat", "mixed"}
	register(&Check{
		ID: "C16",
		Rule: "each case = one generated Elk program (DAG of async tasks: leaf/spin/timeout/rejecting tasks, awaiters of one or two promises with and without catch, " +
			"nested spawns (nest, fan), await_sync on a pool worker below the pool size, Promise.wait, channels between tasks, go threads awaiting, second-phase awaiters of " +
			"already settled/rejected promises; or a long await loop) run in-process on a fresh thread pool (threads 1..8, queue 1..16, small sizes over-represented) under one of " +
			"6 hook perturbation modes seeded from the case. Oracle: await-protocol trace checker over the hook event log (register before unlock and before publish, exactly one enqueue per " +
			"registered continuation, exactly one resume after settle and on the awaited promise, no lock left held, no double settle), stdout equals the generator's reference, " +
			"bounded progress (stalled hook counter + goroutine dump with every goroutine of the run parked = deadlock witness), race detector. " +
			"distinct = per-promise projections of the event order (await/resolve interleaving classes).",
		NumCases: func(tier string) int {
			if tier == "thorough" {
				return 800
			}
			return 160
		},
		Init: func(c *Ctx) {
			vm.VerifAsyncHook = c16Hook
			// the parallel method checker is C11's subject (it has data races of its own): check bodies one at a time here
			checker.MethodCheckConcurrencyLimit = 1
		},
		Case: func(c *Ctx, i int, r *rand.Rand) {
			if c16Tainted.Load() {
				c.Count("cases_skipped_after_watchdog", 1)
				return
			}
			seed := r.Uint64()
			mode := r.IntN(c16Modes)
			prob := uint64(8 + r.IntN(120))
			if i < len(c16Witnesses) {
				w := c16Witnesses[i]
				run := c16RunProgram(w.src, w.threads, w.queue, c16None, seed, 0)
				c.Count("pinned_witnesses_run", 1)
				c16Report(c, i, run, w.src, w.want, w.threads, w.queue, c16None, seed, "pinned:"+w.name)
				return
			}
			threads, queue := c16Config(r, i)
			if i%45 == 7 {
				// long await loop on a small pool: thousands of suspensions of one task on one worker
				n := 2200 + r.IntN(1200)
				threads = 1
				src := c16Prelude + fmt.Sprintf("lv := await looper(%d)\nprintln lv.to_string\nprintln \"done\"\n", n)
				s := 0
				for k := 0; k < n; k++ {
					s += 2*k + 1
				}
				run := c16RunProgram(src, threads, queue, c16None, seed, 0)
				c.Count("long_loop_programs", 1)
				c16Report(c, i, run, src, fmt.Sprintf("%d\ndone\n", s), threads, queue, c16None, seed, "looper")
				return
			}
			shape := shapes[r.IntN(len(shapes))]
			g := c16Gen(r, shape, threads)
			for k, n := range g.kinds {
				c.Count("node_"+k, int64(n))
			}
			c.Count(fmt.Sprintf("cfg_threads_%d", threads), 1)
			if queue <= 2 {
				c.Count("cfg_queue_le2", 1)
			}
			if g.tasks > queue {
				c.Count("programs_overfilling_queue", 1)
			}
			c.Distinct(fmt.Sprintf("cfg:%d:%d:%s:%d", threads, queue, shape, mode))
			c.Sample(map[string]any{"threads": threads, "queue": queue, "mode": c16ModeName[mode], "shape": shape, "program": head(g.src[len(c16Prelude)+len(c16Warmup):], 400)})
			run := c16RunProgram(g.src, threads, queue, mode, seed, prob)
			c16Report(c, i, run, g.src, g.want, threads, queue, mode, seed, fmt.Sprintf("shape=%s nested=%v sync_on_pool=%d", shape, g.nested, g.syncOnPool))
		},
		MinCounters: map[string]int64{"awaits_suspended": 300, "awaits_fastpath_settled": 100, "continuations_enqueued": 300,
			"programs_finished": 100, "registrations_on_promise_with_other_waiters": 5, "gates_satisfied": 5},
		Assumptions: []string{
			"'every interleaving' is restated as: the interleavings reached by seeded hook perturbation (sleeps, Gosched, bounded gates at the named yield points) over the generated programs; no model checking",
			"termination is restated as bounded progress: no hook event for > 1.5 s while every goroutine of the run (pprof label) is parked in chan send/receive, Mutex.Lock or WaitGroup.Wait = deadlock witness; a 90 s watchdog without such a witness is inconclusive",
			"the event log order is the order in which hook calls took the monitor mutex; points inside the promise lock are therefore ordered like the critical sections",
			"the reference values are computed by the generator for the fixed task library; scheduling never changes them",
		},
		WorkerTimeout: 25 * time.Minute,
	})
}
